import Cvss.Proofs.GenParseBase
import Cvss.Gen.P30
import Cvss.Gen.P31
/-!
# The regenerated v3.0 / v3.1 parsers equal the hand-written model

`GenP30.ParseVector` / `GenP31.ParseVector` (translated from `/repo/30|31/cvss3x.go` by `tools/gen`, parser mode)
are proved equal, on **every** byte string (any `List Nat`, no `< 256` assumption needed), to
`Model.parse30` / `Model.parse31`:

* `splitCouple31` — the index scan of `splitCouple` computes `Model.cutColon`;
* `kvm_Set31` — the 22-field `kvm` struct is `kvmOf seen` (one flag per `Model.kvmNames` entry) and `kvm.Set`
  is `Model.kvmSet`;
* `loop_spec` — loop invariant of the `for i := 0; i <= l; i++` scan: at position `|pre|+|seg|` with
  `start = |pre|`, what remains to be done is `Model.loop3` on `splitSlash (seg ++ rest)`; the fuel `l + 2`
  never runs out;
* `missing_spec` — the eight `if !kvm.x` checks are `Model.firstMissing`.

The loop part is generic in the loop body (hypothesis `BodySpec`), instantiated for both versions.
-/
set_option linter.unusedSimpArgs false
namespace GenParse
open Model

/-! ## `splitCouple` = `cutColon` -/

/-- the `splitCouple` scan from position `pre.length` -/
theorem splitCouple31_scan (s rest : Bytes) : ∀ (pre : Bytes) (fuel i : Nat) (cnd : Nat → Bool) (post : Nat → Nat),
    s = pre ++ rest → i = pre.length → (∀ j, cnd j = Nat.blt j s.length) → (∀ j, post j = j + 1) → 58 ∉ pre →
    rest.length + 1 ≤ fuel →
    Go.forN fuel i cnd post (GenP31.splitCouple_for1 s)
    = if 58 ∈ rest then .ret (some (pre ++ (cutColon rest).1, (cutColon rest).2)) else .done s.length := by
  induction rest with
  | nil =>
    intro pre fuel i cnd post hs hi hcnd hpost _ hf
    obtain ⟨n, rfl⟩ : ∃ n, fuel = n + 1 := ⟨fuel - 1, by omega⟩
    rw [forN_stop]
    · simp [hs, hi]
    · simp [hcnd, hs, hi, blt_false]
  | cons c cs ih =>
    intro pre fuel i cnd post hs hi hcnd hpost hp hf
    obtain ⟨n, rfl⟩ : ∃ n, fuel = n + 1 := ⟨fuel - 1, by omega⟩
    have hc : cnd i = true := by rw [hcnd]; exact blt_true (by simp [hs, hi])
    have hix : s[i]? = some c := by simp [hs, hi]
    by_cases h : c = 58
    · subst h
      rw [forN_ret (r := some (pre, cs)) (h := hc)]
      · simp [cutColon, COLON]
      · simp only [GenP31.splitCouple_for1]
        rw [index_some hix]
        simp only [Nat.beq_refl, cond_true]
        rw [sliceTo_ok _ (by simp [hs, hi]), sliceFrom_ok _ (by simp [hs, hi])]
        simp [hs, hi]
    · rw [forN_next (s' := i) (h := hc)]
      · rw [ih (pre ++ [c]) n (post i) cnd post (by simp [hs]) (by simp [hpost, hi]) hcnd hpost
          (by simp [hp, Ne.symm h]) (by simp at hf; omega)]
        have h58 : ¬ 58 = c := fun e => h e.symm
        simp [cutColon, COLON, h, h58]
      · simp only [GenP31.splitCouple_for1]
        rw [index_some hix]
        simp [beq_false h]

/-- `splitCouple` never panics and is `Model.cutColon` -/
theorem splitCouple31 (s : Bytes) : GenP31.splitCouple s = some (cutColon s) := by
  unfold GenP31.splitCouple
  simp only []
  rw [splitCouple31_scan s s [] (i := 0)]
  · by_cases h : 58 ∈ s
    · simp [h]
    · simp [h, cutColon_no_colon s h]
  · simp
  · rfl
  · intro _; rfl
  · intro _; rfl
  · simp
  · simp only [Nat.add_eq]; omega

/-- the two packages have the same `splitCouple` (checked on the regenerated text) -/
theorem splitCouple30_eq : GenP30.splitCouple = GenP31.splitCouple := rfl

theorem splitCouple30 (s : Bytes) : GenP30.splitCouple s = some (cutColon s) := by
  rw [splitCouple30_eq]; exact splitCouple31 s

/-! ## `kvm.Set` = `kvmSet` -/

/-- the `kvm` struct as a function of the model's `seen` list: one flag per `kvmNames` entry -/
def kvmOf (seen : List Bytes) : List Bool := kvmNames.map fun n => seen.contains n

theorem cond_strEq_of {α : Type} {a b : List Nat} {t e r : α} (h1 : a = b → t = r) (h2 : a ≠ b → e = r) :
    cond (Go.strEq a b) t e = r := by
  by_cases h : a = b
  · simp [Go.strEq, h, h1 h]
  · simp [Go.strEq, h, h2 h]

set_option maxHeartbeats 1000000 in
/-- `kvm.Set(abv)` on the struct `kvmOf seen`: never panics; the error and the new struct are those of
    `Model.kvmSet seen abv` -/
theorem kvm_Set31 (seen : List Bytes) (a : Bytes) :
    GenP31.kvm_Set (kvmOf seen) a = some (match kvmSet seen a with
      | .error e => (kvmOf seen, e)
      | .ok seen' => (kvmOf seen', Go.errNil)) := by
  unfold GenP31.kvm_Set
  repeat (
    refine cond_strEq_of (fun h => ?_) (fun h => ?_)
    · subst h
      simp only [kvmOf, kvmNames, kvmSet, Go.load, Go.store, Go.index, Go.setIndex, List.map, List.contains_cons,
        List.getElem?_cons_zero, List.getElem?_cons_succ, List.length_cons, List.length_nil, List.set_cons_zero,
        List.set_cons_succ, Bool.cond_eq_ite]
      split <;> simp_all [eDefinedN, blt_true])
  have hn : a ∉ kvmNames := by
    simp only [kvmNames, List.mem_cons, List.not_mem_nil]
    simp_all
  simp [kvmSet, hn, eInvalidMetric]

theorem kvm_Set30_eq : GenP30.kvm_Set = GenP31.kvm_Set := rfl

theorem kvm_Set30 (seen : List Bytes) (a : Bytes) :
    GenP30.kvm_Set (kvmOf seen) a = some (match kvmSet seen a with
      | .error e => (kvmOf seen, e)
      | .ok seen' => (kvmOf seen', Go.errNil)) := by
  rw [kvm_Set30_eq]; exact kvm_Set31 seen a

theorem kvmSet_error_ne_nil {seen : List Bytes} {a : Bytes} {e : Go.Err} (h : kvmSet seen a = .error e) :
    e ≠ Go.errNil := by
  unfold kvmSet at h
  split at h
  · cases h; simp [eInvalidMetric, Go.errNil]
  · split at h
    · cases h; simp [eDefinedN, Go.errNil]
    · cases h

/-! ## the element loop -/

abbrev T6 := Nat × Nat × Nat × Nat × Nat × Nat
abbrev St3 := Nat × List Bool × Nat × Nat × Nat × Nat × Nat × Nat × Nat
abbrev R3 := Go.Res T6

/-- the generated `Set` (six bytes in, six bytes and the error out) as a function on byte tuples -/
def setT (set6 : Nat → Nat → Nat → Nat → Nat → Nat → Bytes → Bytes → Nat × Nat × Nat × Nat × Nat × Nat × Go.Err) :
    T6 → Bytes → Bytes → T6 × Go.Err
  | (a, b, c, d, e, f), abv, v =>
    match set6 a b c d e f abv v with
    | (a', b', c', d', e', f', err) => ((a', b', c', d', e', f'), err)

/-- loop state `(i, kvm, u0 … u5, start)` -/
def st3 (i : Nat) (seen : List Bytes) (c : T6) (start : Nat) : St3 :=
  match c with
  | (a, b, c, d, e, f) => (i, kvmOf seen, a, b, c, d, e, f, start)

/-- `Model.loop3` without the final `firstMissing` check: the object and the `seen` list after all elements -/
def loop3' {O : Type} (set : O → Bytes → Bytes → O × Go.Err) : List Bytes → O → List Bytes → Except Go.Err (O × List Bytes)
  | [], c, seen => .ok (c, seen)
  | el :: rest, c, seen =>
    match kvmSet seen (cutColon el).1 with
    | .error e => .error e
    | .ok seen' =>
      match set c (cutColon el).1 (cutColon el).2 with
      | (c', e) => cond (Go.Err.beq e Go.errNil) (loop3' set rest c' seen') (.error e)

theorem loop3_eq {O : Type} (set : O → Bytes → Bytes → O × Go.Err) (els : List Bytes) : ∀ (c : O) (seen : List Bytes),
    loop3 set els c seen = match loop3' set els c seen with
      | .error e => .err e
      | .ok (c', seen') => match firstMissing seen' with
        | some a => .err (eMissing a)
        | none => .ok c' := by
  induction els with
  | nil => intro c seen; simp only [loop3, loop3']; cases firstMissing seen <;> rfl
  | cons el rest ih =>
    intro c seen
    simp only [loop3, loop3']
    cases kvmSet seen (cutColon el).1 with
    | error e => simp
    | ok seen' =>
      simp only []
      cases hs : set c (cutColon el).1 (cutColon el).2 with
      | mk c' e =>
        simp only []
        by_cases he : e = Go.errNil
        · simp [he, ih, Go.Err.beq]
        · simp [he, Go.Err.beq]

/-- what one element (`vector[start:i]`) does -/
def elem3 (set : T6 → Bytes → Bytes → T6 × Go.Err) (i : Nat) (c : T6) (seen : List Bytes) (el : Bytes) : Go.Ctl St3 R3 :=
  match kvmSet seen (cutColon el).1 with
  | .error e => .ret (.err e)
  | .ok seen' =>
    match set c (cutColon el).1 (cutColon el).2 with
    | (c', e) => cond (Go.Err.beq e Go.errNil) (.next (st3 i seen' c' (i + 1))) (.ret (.err e))

/-- specification of one iteration of the scan over `v`, at position `|pre| + |seg|` with `start = |pre|` -/
def BodySpec (set : T6 → Bytes → Bytes → T6 × Go.Err) (v : Bytes) (body : St3 → Go.Ctl St3 R3) : Prop :=
  ∀ (pre seg rest : Bytes) (c : T6) (seen : List Bytes), v = pre ++ seg ++ rest → 47 ∉ seg →
    body (st3 (pre.length + seg.length) seen c pre.length) =
      match rest with
      | [] => elem3 set (pre.length + seg.length) c seen seg
      | x :: _ => if x = 47 then elem3 set (pre.length + seg.length) c seen seg
                  else .next (st3 (pre.length + seg.length) seen c pre.length)

section Loop
variable (set : T6 → Bytes → Bytes → T6 × Go.Err) (v : Bytes)
  (cnd : St3 → Bool) (post : St3 → St3) (body : St3 → Go.Ctl St3 R3)
  (hcnd : ∀ i seen c start, cnd (st3 i seen c start) = Nat.ble i v.length)
  (hpost : ∀ i seen c start, post (st3 i seen c start) = st3 (i + 1) seen c start)
  (hbody : BodySpec set v body)
include hcnd hpost hbody

/-- **loop invariant** of `for i := 0; i <= l; i++` -/
theorem loop_inv (rest : Bytes) : ∀ (seg pre : Bytes) (c : T6) (seen : List Bytes) (fuel : Nat),
    v = pre ++ seg ++ rest → 47 ∉ seg → rest.length + 2 ≤ fuel →
    Go.forN fuel (st3 (pre.length + seg.length) seen c pre.length) cnd post body =
      match loop3' set (splitSlash (seg ++ rest)) c seen with
      | .error e => .ret (.err e)
      | .ok (c', seen') => .done (st3 (v.length + 1) seen' c' (v.length + 1)) := by
  induction rest with
  | nil =>
    intro seg pre c seen fuel hv hseg hf
    obtain ⟨n, rfl⟩ : ∃ n, fuel = n + 2 := ⟨fuel - 2, by omega⟩
    have hl : v.length = pre.length + seg.length := by simp [hv]
    have hb := hbody pre seg [] c seen hv hseg
    simp only [elem3] at hb
    have hc : cnd (st3 (pre.length + seg.length) seen c pre.length) = true := by
      rw [hcnd]; exact ble_true (by omega)
    simp only [List.append_nil, splitSlash_seg_nil seg hseg, loop3']
    cases hk : kvmSet seen (cutColon seg).1 with
    | error e =>
      rw [hk] at hb
      rw [forN_ret (h := hc) (hb := hb)]
    | ok seen' =>
      rw [hk] at hb
      simp only [] at hb ⊢
      cases hs : set c (cutColon seg).1 (cutColon seg).2 with
      | mk c' e =>
        rw [hs] at hb
        simp only [] at hb ⊢
        cases he : Go.Err.beq e Go.errNil
        · simp only [he, cond_false] at hb ⊢
          rw [forN_ret (h := hc) (hb := hb)]
        · simp only [he, cond_true] at hb ⊢
          rw [forN_next (h := hc) (hb := hb), hpost, forN_stop]
          · rw [hl]
          · rw [hcnd]; exact ble_false (by omega)
  | cons x xs ih =>
    intro seg pre c seen fuel hv hseg hf
    obtain ⟨n, rfl⟩ : ∃ n, fuel = n + 1 := ⟨fuel - 1, by omega⟩
    have hl : pre.length + seg.length < v.length := by simp [hv]
    have hb := hbody pre seg (x :: xs) c seen hv hseg
    simp only [elem3] at hb
    have hc : cnd (st3 (pre.length + seg.length) seen c pre.length) = true := by
      rw [hcnd]; exact ble_true (by omega)
    by_cases hx : x = 47
    · subst hx
      simp only [if_true] at hb
      rw [splitSlash_seg_slash seg xs hseg]
      simp only [loop3']
      cases hk : kvmSet seen (cutColon seg).1 with
      | error e =>
        rw [hk] at hb
        rw [forN_ret (h := hc) (hb := hb)]
      | ok seen' =>
        rw [hk] at hb
        simp only [] at hb ⊢
        cases hs : set c (cutColon seg).1 (cutColon seg).2 with
        | mk c' e =>
          rw [hs] at hb
          simp only [] at hb ⊢
          cases he : Go.Err.beq e Go.errNil
          · simp only [he, cond_false] at hb ⊢
            rw [forN_ret (h := hc) (hb := hb)]
          · simp only [he, cond_true] at hb ⊢
            rw [forN_next (h := hc) (hb := hb), hpost]
            have := ih [] (pre ++ seg ++ [47]) c' seen' n (by simp [hv]) (by simp) (by simp at hf; omega)
            simp only [List.length_append, List.length_singleton, List.length_nil, Nat.add_zero,
              List.nil_append] at this
            exact this
    · simp only [hx, if_false] at hb
      rw [forN_next (h := hc) (hb := hb), hpost]
      have := ih (seg ++ [x]) pre c seen n (by simp [hv]) (by simp [hseg, Ne.symm hx]) (by simp at hf; omega)
      simp only [List.length_append, List.length_singleton, List.append_assoc, List.singleton_append,
        ← Nat.add_assoc] at this
      exact this

/-- the whole loop from the initial state (as it appears in the generated text) -/
theorem loop_spec (fuel : Nat) (st : St3) (c : T6) (hst : st = st3 0 [] c 0) (hf : v.length + 2 ≤ fuel) :
    Go.forN fuel st cnd post body =
      match loop3' set (splitSlash v) c [] with
      | .error e => .ret (.err e)
      | .ok (c', seen') => .done (st3 (v.length + 1) seen' c' (v.length + 1)) := by
  subst hst
  exact loop_inv set v cnd post body hcnd hpost hbody v [] [] c [] fuel (by simp) (by simp) hf

end Loop

/-! ## the eight `if !kvm.x { return nil, &ErrMissing{…} }` checks -/

theorem missing_spec {α : Type} (seen : List Bytes) (r : Go.Res α) :
    (cond (!(Go.idx (kvmOf seen) 0)) (Go.Res.err (Go.Err.mk 103 [65, 86]))
    (cond (!(Go.idx (kvmOf seen) 1)) (Go.Res.err (Go.Err.mk 103 [65, 67]))
    (cond (!(Go.idx (kvmOf seen) 2)) (Go.Res.err (Go.Err.mk 103 [80, 82]))
    (cond (!(Go.idx (kvmOf seen) 3)) (Go.Res.err (Go.Err.mk 103 [85, 73]))
    (cond (!(Go.idx (kvmOf seen) 4)) (Go.Res.err (Go.Err.mk 103 [83]))
    (cond (!(Go.idx (kvmOf seen) 5)) (Go.Res.err (Go.Err.mk 103 [67]))
    (cond (!(Go.idx (kvmOf seen) 6)) (Go.Res.err (Go.Err.mk 103 [73]))
    (cond (!(Go.idx (kvmOf seen) 7)) (Go.Res.err (Go.Err.mk 103 [65])) r)))))))) =
    match firstMissing seen with
    | some a => .err (eMissing a)
    | none => r := by
  simp only [kvmOf, kvmNames, Go.idx, List.map, List.getD_cons_zero, List.getD_cons_succ, firstMissing, kvmMandatory,
    List.find?, eMissing]
  cases seen.contains [65, 86] <;> simp only [Bool.not_true, Bool.not_false, cond_true, cond_false]
  cases seen.contains [65, 67] <;> simp only [Bool.not_true, Bool.not_false, cond_true, cond_false]
  cases seen.contains [80, 82] <;> simp only [Bool.not_true, Bool.not_false, cond_true, cond_false]
  cases seen.contains [85, 73] <;> simp only [Bool.not_true, Bool.not_false, cond_true, cond_false]
  cases seen.contains [83] <;> simp only [Bool.not_true, Bool.not_false, cond_true, cond_false]
  cases seen.contains [67] <;> simp only [Bool.not_true, Bool.not_false, cond_true, cond_false]
  cases seen.contains [73] <;> simp only [Bool.not_true, Bool.not_false, cond_true, cond_false]
  cases seen.contains [65] <;> simp only [Bool.not_true, Bool.not_false, cond_true, cond_false]

/-! ## the generated loop bodies meet `BodySpec` -/

theorem errBeq_eq (e : Go.Err) : Go.Err.beq e Go.errNil = decide (e = Go.errNil) := rfl


/-- v3.1: one iteration of the generated loop -/
theorem body31_spec (v : Bytes) : BodySpec (setT GenV31.Set) v (GenP31.ParseVector_for1 v v.length) := by
  intro pre seg rest c seen hv hseg
  obtain ⟨u0, u1, u2, u3, u4, u5⟩ := c
  have hslice : ∀ (p : Go.Ctl St3 R3) (k : Bytes → Go.Ctl St3 R3),
      Go.slice v pre.length (pre.length + seg.length) p k = k seg := by
    intro p k
    rw [slice_ok v (by omega) (by simp [hv]), hv, take_drop_seg]
  have helem : (Go.slice v pre.length (pre.length + seg.length) (Go.Ctl.ret Go.Res.panic) fun t3 =>
      match GenP31.splitCouple t3 with
      | none => Go.Ctl.ret Go.Res.panic
      | some (a, v) =>
        match GenP31.kvm_Set (kvmOf seen) a with
        | none => Go.Ctl.ret Go.Res.panic
        | some (kvm, err) =>
          cond (!(Go.Err.beq err Go.errNil)) (Go.Ctl.ret (Go.Res.err err))
            (match GenV31.Set u0 u1 u2 u3 u4 u5 a v with
            | (u0, u1, u2, u3, u4, u5, err) =>
              cond (!(Go.Err.beq err Go.errNil)) (Go.Ctl.ret (Go.Res.err err))
                (let start := Nat.add (pre.length + seg.length) 1
                 Go.Ctl.next (pre.length + seg.length, kvm, u0, u1, u2, u3, u4, u5, start))))
      = elem3 (setT GenV31.Set) (pre.length + seg.length) (u0, u1, u2, u3, u4, u5) seen seg := by
    rw [hslice, splitCouple31]
    simp only [elem3, setT]
    generalize GenV31.Set u0 u1 u2 u3 u4 u5 (cutColon seg).1 (cutColon seg).2 = r
    obtain ⟨a0, a1, a2, a3, a4, a5, e⟩ := r
    rw [kvm_Set31]
    cases hk : kvmSet seen (cutColon seg).1 with
    | error e =>
      have := kvmSet_error_ne_nil hk
      simp [errBeq_eq, this]
    | ok seen' =>
      cases he : Go.Err.beq e Go.errNil <;> simp [st3, he, Go.Err.beq]
  simp only [st3, GenP31.ParseVector_for1]
  cases rest with
  | nil =>
    have hl : v.length = pre.length + seg.length := by simp [hv]
    simp only [hl, Nat.beq_refl, cond_true]
    exact helem
  | cons x xs =>
    have hl : pre.length + seg.length ≠ v.length := by simp [hv]
    have hix : v[pre.length + seg.length]? = some x := by rw [hv]; exact getElem?_at pre seg x xs
    simp only [beq_false hl, cond_false]
    rw [index_some hix]
    simp only []
    by_cases hx : x = 47
    · subst hx
      simp only [Nat.beq_refl, cond_true, if_true]
      exact helem
    · simp only [beq_false hx, cond_false, hx, if_false]

/-- v3.1 over byte tuples: the generated parser is `Model.parse3` run with the generated `Set` -/
theorem parse31T (s : Bytes) :
    ofGo id (GenP31.ParseVector s) = parse3 GenV31.const_header ((0, 0, 0, 0, 0, 0) : T6) (setT GenV31.Set) s := by
  unfold GenP31.ParseVector parse3
  simp only [GenV31.const_header, ← hasPrefix_eq, List.length_cons, List.length_nil, Nat.zero_add, Nat.reduceAdd]
  split
  · rename_i h
    have hlen : 9 ≤ s.length := by simpa using length_le_of_hasPrefix h
    simp only [h, Bool.not_true, cond_false]
    rw [sliceFrom_ok _ hlen]
    rw [loop_spec (set := setT GenV31.Set) (v := s.drop 9) (c := (0, 0, 0, 0, 0, 0))
      (hbody := body31_spec (s.drop 9)), loop3_eq]
    · cases loop3' (setT GenV31.Set) (splitSlash (List.drop 9 s)) (0, 0, 0, 0, 0, 0) [] with
      | error e => rfl
      | ok r =>
        obtain ⟨⟨c0, c1, c2, c3, c4, c5⟩, seen'⟩ := r
        simp only [st3]
        rw [missing_spec]
        cases firstMissing seen' <;> rfl
    · intro i seen c start; obtain ⟨c0, c1, c2, c3, c4, c5⟩ := c; rfl
    · intro i seen c start; obtain ⟨c0, c1, c2, c3, c4, c5⟩ := c; rfl
    · rfl
    · simp only [Nat.add_eq]; omega
  · rename_i h
    simp [h, ofGo, eHeader]
/-- v3.0: one iteration of the generated loop -/
theorem body30_spec (v : Bytes) : BodySpec (setT GenV30.Set) v (GenP30.ParseVector_for1 v v.length) := by
  intro pre seg rest c seen hv hseg
  obtain ⟨u0, u1, u2, u3, u4, u5⟩ := c
  have hslice : ∀ (p : Go.Ctl St3 R3) (k : Bytes → Go.Ctl St3 R3),
      Go.slice v pre.length (pre.length + seg.length) p k = k seg := by
    intro p k
    rw [slice_ok v (by omega) (by simp [hv]), hv, take_drop_seg]
  have helem : (Go.slice v pre.length (pre.length + seg.length) (Go.Ctl.ret Go.Res.panic) fun t3 =>
      match GenP30.splitCouple t3 with
      | none => Go.Ctl.ret Go.Res.panic
      | some (a, v) =>
        match GenP30.kvm_Set (kvmOf seen) a with
        | none => Go.Ctl.ret Go.Res.panic
        | some (kvm, err) =>
          cond (!(Go.Err.beq err Go.errNil)) (Go.Ctl.ret (Go.Res.err err))
            (match GenV30.Set u0 u1 u2 u3 u4 u5 a v with
            | (u0, u1, u2, u3, u4, u5, err) =>
              cond (!(Go.Err.beq err Go.errNil)) (Go.Ctl.ret (Go.Res.err err))
                (let start := Nat.add (pre.length + seg.length) 1
                 Go.Ctl.next (pre.length + seg.length, kvm, u0, u1, u2, u3, u4, u5, start))))
      = elem3 (setT GenV30.Set) (pre.length + seg.length) (u0, u1, u2, u3, u4, u5) seen seg := by
    rw [hslice, splitCouple30]
    simp only [elem3, setT]
    generalize GenV30.Set u0 u1 u2 u3 u4 u5 (cutColon seg).1 (cutColon seg).2 = r
    obtain ⟨a0, a1, a2, a3, a4, a5, e⟩ := r
    rw [kvm_Set30]
    cases hk : kvmSet seen (cutColon seg).1 with
    | error e =>
      have := kvmSet_error_ne_nil hk
      simp [errBeq_eq, this]
    | ok seen' =>
      cases he : Go.Err.beq e Go.errNil <;> simp [st3, he, Go.Err.beq]
  simp only [st3, GenP30.ParseVector_for1]
  cases rest with
  | nil =>
    have hl : v.length = pre.length + seg.length := by simp [hv]
    simp only [hl, Nat.beq_refl, cond_true]
    exact helem
  | cons x xs =>
    have hl : pre.length + seg.length ≠ v.length := by simp [hv]
    have hix : v[pre.length + seg.length]? = some x := by rw [hv]; exact getElem?_at pre seg x xs
    simp only [beq_false hl, cond_false]
    rw [index_some hix]
    simp only []
    by_cases hx : x = 47
    · subst hx
      simp only [Nat.beq_refl, cond_true, if_true]
      exact helem
    · simp only [beq_false hx, cond_false, hx, if_false]

/-- v3.0 over byte tuples: the generated parser is `Model.parse3` run with the generated `Set` -/
theorem parse30T (s : Bytes) :
    ofGo id (GenP30.ParseVector s) = parse3 GenV30.const_header ((0, 0, 0, 0, 0, 0) : T6) (setT GenV30.Set) s := by
  unfold GenP30.ParseVector parse3
  simp only [GenV30.const_header, ← hasPrefix_eq, List.length_cons, List.length_nil, Nat.zero_add, Nat.reduceAdd]
  split
  · rename_i h
    have hlen : 9 ≤ s.length := by simpa using length_le_of_hasPrefix h
    simp only [h, Bool.not_true, cond_false]
    rw [sliceFrom_ok _ hlen]
    rw [loop_spec (set := setT GenV30.Set) (v := s.drop 9) (c := (0, 0, 0, 0, 0, 0))
      (hbody := body30_spec (s.drop 9)), loop3_eq]
    · cases loop3' (setT GenV30.Set) (splitSlash (List.drop 9 s)) (0, 0, 0, 0, 0, 0) [] with
      | error e => rfl
      | ok r =>
        obtain ⟨⟨c0, c1, c2, c3, c4, c5⟩, seen'⟩ := r
        simp only [st3]
        rw [missing_spec]
        cases firstMissing seen' <;> rfl
    · intro i seen c start; obtain ⟨c0, c1, c2, c3, c4, c5⟩ := c; rfl
    · intro i seen c start; obtain ⟨c0, c1, c2, c3, c4, c5⟩ := c; rfl
    · rfl
    · simp only [Nat.add_eq]; omega
  · rename_i h
    simp [h, ofGo, eHeader]

/-! ## from byte tuples to the object structures -/

theorem loop3_map {O O' : Type} (f : O → O') (set : O → Bytes → Bytes → O × Go.Err) (set' : O' → Bytes → Bytes → O' × Go.Err)
    (h : ∀ c a v, set' (f c) a v = (f (set c a v).1, (set c a v).2)) (els : List Bytes) :
    ∀ (c : O) (seen : List Bytes), mapRes f (loop3 set els c seen) = loop3 set' els (f c) seen := by
  induction els with
  | nil =>
    intro c seen
    simp only [loop3]
    cases firstMissing seen <;> rfl
  | cons el rest ih =>
    intro c seen
    simp only [loop3, h]
    cases kvmSet seen (cutColon el).1 with
    | error e => rfl
    | ok seen' =>
      simp only []
      by_cases he : (set c (cutColon el).1 (cutColon el).2).2 = Go.errNil
      · simp only [he, if_true]; exact ih _ _
      · simp only [he, if_false]; rfl

theorem parse3_map {O O' : Type} (f : O → O') (hdr : Bytes) (zero : O) (set : O → Bytes → Bytes → O × Go.Err)
    (set' : O' → Bytes → Bytes → O' × Go.Err)
    (h : ∀ c a v, set' (f c) a v = (f (set c a v).1, (set c a v).2)) (s : Bytes) :
    mapRes f (parse3 hdr zero set s) = parse3 hdr (f zero) set' s := by
  unfold parse3
  split
  · exact loop3_map f set set' h _ _ _
  · rfl

/-- six bytes as a `CVSS30` / `CVSS31` value -/
def dec30 : T6 → O30 | (a, b, c, d, e, f) => ⟨a, b, c, d, e, f⟩
def dec31 : T6 → O31 | (a, b, c, d, e, f) => ⟨a, b, c, d, e, f⟩

/-- **v3.1**: on every byte string the regenerated parser returns the same object / the same error as the
    hand-written model, and it does not panic where the model does not (the model never does) -/
theorem genParse31 (s : Bytes) : ofGo dec31 (GenP31.ParseVector s) = parse31 s := by
  have h : ∀ c a v, O31.set (dec31 c) a v = (dec31 (setT GenV31.Set c a v).1, (setT GenV31.Set c a v).2) := by
    intro c a v; obtain ⟨c0, c1, c2, c3, c4, c5⟩ := c; rfl
  have := parse3_map dec31 GenV31.const_header (0, 0, 0, 0, 0, 0) (setT GenV31.Set) O31.set h s
  rw [← parse31T, mapRes_ofGo] at this
  exact this

/-- **v3.0** -/
theorem genParse30 (s : Bytes) : ofGo dec30 (GenP30.ParseVector s) = parse30 s := by
  have h : ∀ c a v, O30.set (dec30 c) a v = (dec30 (setT GenV30.Set c a v).1, (setT GenV30.Set c a v).2) := by
    intro c a v; obtain ⟨c0, c1, c2, c3, c4, c5⟩ := c; rfl
  have := parse3_map dec30 GenV30.const_header (0, 0, 0, 0, 0, 0) (setT GenV30.Set) O30.set h s
  rw [← parse30T, mapRes_ofGo] at this
  exact this

end GenParse
