import Cvss.Proofs.NoPanic40Loops
/-!
# v4.0 `Score_ok`: the guards, by kernel evaluation of the generated tables and twins

* `mvK_eq`: the generated `macroVector_core` component by component on the effective codes (as `Proofs/Score4MV`,
  here for the `GenK40` copy), and the ranges of the components: `eq1 < 3`, `eq2 < 2`, `eq3 < 3`, `eq4 < 3`,
  `eq5 < 3`, `eq6 < 2`, never `eq3 = 2 ∧ eq6 = 0` — i.e. the MacroVector of in-range codes is one of the
  **270 valid MacroVectors**;
* `mvGuards`: for each of the 270: `lookupMV_ok` of the MacroVector and of every next-lower MacroVector the code looks
  up (`preG`), the four table-index guards, the depth guards (`depthG`);
* `lookupMV_ok_iff`: on `{0..3}⁶`, `lookupMV_ok` is `true` exactly on those 270;
* `sev1 … sev4`: `severityDistance_ok` for every value of every metric and every digit of every highest severity
  vector in the tables the loops range over;
* `index_ok_eq_any`: `index_ok slc v` says exactly that `v` occurs in `slc` (generic, by induction).
-/
set_option linter.unusedVariables false
set_option maxRecDepth 100000
namespace Proofs.NoPanic40
open Go GenK40
open Proofs.Score4 (flet_eq condT condF)

theorem all1 {n : Nat} {p : Nat → Bool} (h : (List.range n).all p = true) {a : Nat} (ha : a < n) : p a = true :=
  List.all_eq_true.mp h a (List.mem_range.mpr ha)

/-! ## effective codes -/

/-- `X` (not defined) is scored as `H` -/
def reqFix (v : Nat) : Nat := cond (Nat.beq v (0 : Nat)) (1 : Nat) v

def modLt (nb nm n : Nat) : Bool := (List.range nb).all fun b => (List.range nm).all fun m => Nat.blt (mod_ b m) n

theorem modLt_elim {nb nm n : Nat} (h : modLt nb nm n = true) {b m : Nat} (hb : b < nb) (hm : m < nm) : mod_ b m < n :=
  Nat.le_of_ble_eq_true (all1 (all1 h hb) hm)

/-- the effective code of a metric with 4 (resp. 2, 3) base values and one more Modified value (`X`) stays below
    4 (2, 3); `MSI`/`MSA` have the extra value `S`: below 4 -/
theorem mod_4_5 : modLt 4 5 4 = true := by decide +kernel
theorem mod_2_3 : modLt 2 3 2 = true := by decide +kernel
theorem mod_3_4 : modLt 3 4 3 = true := by decide +kernel
theorem mod_3_5 : modLt 3 5 4 = true := by decide +kernel

/-! ## the MacroVector, component by component -/

theorem mod_zero (e : Nat) : mod_ e 0 = e := rfl

def eq1k (av pr ui : Nat) : Nat := (macroVector_core av 0 0 0 0 0 pr 0 ui 0 0 0 0 0 0 0 0 0 0 0 0 0 0 0 0 0).1
def eq2k (ac at_ : Nat) : Nat := (macroVector_core 0 0 ac 0 at_ 0 0 0 0 0 0 0 0 0 0 0 0 0 0 0 0 0 0 0 0 0).2.1
def eq3k (vc vi va : Nat) : Nat := (macroVector_core 0 0 0 0 0 0 0 0 0 0 vc 0 0 0 vi 0 0 0 va 0 0 0 0 0 0 0).2.2.1
/-- `sc`: effective SC code; `msi`, `si`: raw MSI and SI codes; `msa`, `sa`: raw MSA and SA codes -/
def eq4k (sc msi si msa sa : Nat) : Nat :=
  (macroVector_core 0 0 0 0 0 0 0 0 0 0 0 0 sc 0 0 0 msi si 0 0 msa sa 0 0 0 0).2.2.2.1
def eq5k (e : Nat) : Nat := (macroVector_core 0 0 0 0 0 0 0 0 0 0 0 0 0 0 0 0 0 0 0 0 0 0 e 0 0 0).2.2.2.2.1
def eq6k (vc vi va cr ir ar : Nat) : Nat :=
  (macroVector_core 0 0 0 0 0 0 0 0 0 0 vc 0 0 0 vi 0 0 0 va 0 0 0 0 cr ir ar).2.2.2.2.2

/-- `macroVector_core` factors through the effective codes, component by component -/
theorem mvK_eq (m0 m1 m2 m3 m4 m5 m6 m7 m8 m9 m10 m11 m12 m13 m14 m15 m16 m17 m18 m19 m20 m21 m22 m23 m24 m25 : Nat) :
    macroVector_core m0 m1 m2 m3 m4 m5 m6 m7 m8 m9 m10 m11 m12 m13 m14 m15 m16 m17 m18 m19 m20 m21 m22 m23 m24 m25 =
      (eq1k (mod_ m0 m1) (mod_ m6 m7) (mod_ m8 m9), eq2k (mod_ m2 m3) (mod_ m4 m5),
       eq3k (mod_ m10 m11) (mod_ m14 m15) (mod_ m18 m19), eq4k (mod_ m12 m13) m16 m17 m20 m21, eq5k m22,
       eq6k (mod_ m10 m11) (mod_ m14 m15) (mod_ m18 m19) m23 m24 m25) := by
  simp only [macroVector_core, eq1k, eq2k, eq3k, eq4k, eq5k, eq6k, flet_eq, mod_zero]

theorem eq1k_all : ((List.range 4).all fun av => (List.range 3).all fun pr => (List.range 3).all fun ui =>
    Nat.blt (eq1k av pr ui) 3) = true := by decide +kernel
theorem eq2k_all : ((List.range 2).all fun ac => (List.range 2).all fun at_ => Nat.blt (eq2k ac at_) 2) = true := by
  decide +kernel
theorem eq36k_all : ((List.range 3).all fun vc => (List.range 3).all fun vi => (List.range 3).all fun va =>
    (List.range 4).all fun cr => (List.range 4).all fun ir => (List.range 4).all fun ar =>
      Nat.blt (eq3k vc vi va) 3 && Nat.blt (eq6k vc vi va cr ir ar) 2 &&
      !(Nat.beq (eq3k vc vi va) 2 && Nat.beq (eq6k vc vi va cr ir ar) 0)) = true := by decide +kernel
theorem eq4k_all : ((List.range 3).all fun sc => (List.range 5).all fun msi => (List.range 3).all fun si =>
    (List.range 5).all fun msa => (List.range 3).all fun sa => Nat.blt (eq4k sc msi si msa sa) 3) = true := by
  decide +kernel
theorem eq5k_all : ((List.range 4).all fun e => Nat.blt (eq5k e) 3) = true := by decide +kernel

theorem eq1k_lt {av pr ui : Nat} (h1 : av < 4) (h2 : pr < 3) (h3 : ui < 3) : eq1k av pr ui < 3 :=
  Nat.le_of_ble_eq_true (all1 (all1 (all1 eq1k_all h1) h2) h3)
theorem eq2k_lt {ac at_ : Nat} (h1 : ac < 2) (h2 : at_ < 2) : eq2k ac at_ < 2 :=
  Nat.le_of_ble_eq_true (all1 (all1 eq2k_all h1) h2)
theorem eq36k_lt {vc vi va cr ir ar : Nat} (h1 : vc < 3) (h2 : vi < 3) (h3 : va < 3) (h4 : cr < 4) (h5 : ir < 4) (h6 : ar < 4) :
    eq3k vc vi va < 3 ∧ eq6k vc vi va cr ir ar < 2 ∧
      (Nat.beq (eq3k vc vi va) 2 && Nat.beq (eq6k vc vi va cr ir ar) 0) = false := by
  have h := all1 (all1 (all1 (all1 (all1 (all1 eq36k_all h1) h2) h3) h4) h5) h6
  simp only [Bool.and_eq_true, Bool.not_eq_true'] at h
  exact ⟨Nat.le_of_ble_eq_true h.1.1, Nat.le_of_ble_eq_true h.1.2, h.2⟩
theorem eq4k_lt {sc msi si msa sa : Nat} (h1 : sc < 3) (h2 : msi < 5) (h3 : si < 3) (h4 : msa < 5) (h5 : sa < 3) :
    eq4k sc msi si msa sa < 3 :=
  Nat.le_of_ble_eq_true (all1 (all1 (all1 (all1 (all1 eq4k_all h1) h2) h3) h4) h5)
theorem eq5k_lt {e : Nat} (h : e < 4) : eq5k e < 3 := Nat.le_of_ble_eq_true (all1 eq5k_all h)

/-! ## the 270 valid MacroVectors: lookups, table indices, depths -/

/-- everything `Score_ok` asks of the MacroVector alone -/
def mvG (eq1 eq2 eq3 eq4 eq5 eq6 : Nat) : Bool :=
  preG true eq1 eq2 eq3 eq4 eq5 eq6 && idxG1 eq1 && idxG2 eq2 && idxG36 eq3 eq6 && idxG4 eq4 &&
    depthG true eq1 eq2 eq3 eq4 eq5 eq6

/-- for every valid MacroVector (3·2·3·3·3·2 = 324 level tuples minus the 54 with `eq3 = 2 ∧ eq6 = 0`): all
    `lookupMV_ok` guards (the MacroVector itself and each next-lower one the code looks up), the table-index guards
    of the four `range` expressions and the `getDepth_ok`/`getDepthEQ3EQ6_ok` guards hold -/
theorem mvG_all : ((List.range 3).all fun eq1 => (List.range 2).all fun eq2 => (List.range 3).all fun eq3 =>
    (List.range 3).all fun eq4 => (List.range 3).all fun eq5 => (List.range 2).all fun eq6 =>
      (Nat.beq eq3 2 && Nat.beq eq6 0) || mvG eq1 eq2 eq3 eq4 eq5 eq6) = true := by decide +kernel

theorem mvGuards {eq1 eq2 eq3 eq4 eq5 eq6 : Nat} (h1 : eq1 < 3) (h2 : eq2 < 2) (h3 : eq3 < 3) (h4 : eq4 < 3)
    (h5 : eq5 < 3) (h6 : eq6 < 2) (hx : (Nat.beq eq3 2 && Nat.beq eq6 0) = false) :
    preG true eq1 eq2 eq3 eq4 eq5 eq6 = true ∧ idxG1 eq1 = true ∧ idxG2 eq2 = true ∧ idxG36 eq3 eq6 = true ∧
      idxG4 eq4 = true ∧ depthG true eq1 eq2 eq3 eq4 eq5 eq6 = true := by
  have h := all1 (all1 (all1 (all1 (all1 (all1 mvG_all h1) h2) h3) h4) h5) h6
  rw [hx, Bool.false_or] at h
  unfold mvG at h
  simp only [Bool.and_eq_true] at h
  exact ⟨h.1.1.1.1.1, h.1.1.1.1.2, h.1.1.1.2, h.1.1.2, h.1.2, h.2⟩

/-- a MacroVector is valid: levels in range, and not the impossible combination `eq3 = 2 ∧ eq6 = 0` -/
def validMV (eq1 eq2 eq3 eq4 eq5 eq6 : Nat) : Bool :=
  Nat.blt eq1 3 && Nat.blt eq2 2 && Nat.blt eq3 3 && Nat.blt eq4 3 && Nat.blt eq5 3 && Nat.blt eq6 2 &&
    !(Nat.beq eq3 2 && Nat.beq eq6 0)

/-- on `{0..3}⁶` (4096 tuples) `lookupMV_ok` holds exactly on the valid MacroVectors, and there are 270 of them -/
theorem lookupMV_ok_iff : ((List.range 4).all fun eq1 => (List.range 4).all fun eq2 => (List.range 4).all fun eq3 =>
    (List.range 4).all fun eq4 => (List.range 4).all fun eq5 => (List.range 4).all fun eq6 =>
      lookupMV_ok eq1 eq2 eq3 eq4 eq5 eq6 == validMV eq1 eq2 eq3 eq4 eq5 eq6) = true := by decide +kernel

theorem valid_count : ((List.range 3).foldl (fun n eq1 => (List.range 2).foldl (fun n eq2 => (List.range 3).foldl (fun n eq3 =>
    (List.range 3).foldl (fun n eq4 => (List.range 3).foldl (fun n eq5 => (List.range 2).foldl (fun n eq6 =>
      cond (lookupMV_ok eq1 eq2 eq3 eq4 eq5 eq6) (n + 1) n) n) n) n) n) n) 0) = 270 := by decide +kernel

/-! ## `index_ok`, generically -/

/-- `index_ok slc v` is `true` exactly when `v` occurs in `slc` (Go: the `panic` after the loop is not reached) -/
theorem index_ok_eq_any (slc : List Nat) (v : Nat) : index_ok slc v = slc.any (fun x => Nat.beq x v) := by
  unfold index_ok
  simp only [flet_eq]
  suffices h : ∀ i : Nat,
      (Go.forRange slc i (fun x i => cond (Nat.beq x v) (Go.Ctl.ret true) (Go.Ctl.next (F64.add i 0x3ff0000000000000)))
        : Go.Ctl Nat Bool) =
        cond (slc.any (fun x => Nat.beq x v)) (Go.Ctl.ret true)
          (Go.Ctl.next (slc.foldl (fun i _ => F64.add i 0x3ff0000000000000) i)) by
    rw [h]
    cases slc.any (fun x => Nat.beq x v) <;> rfl
  induction slc with
  | nil => intro i; rfl
  | cons x xs ih =>
    intro i
    unfold Go.forRange
    cases hx : Nat.beq x v
    · simp only [condF, List.any_cons, hx, Bool.false_or, List.foldl_cons]
      exact ih _
    · simp only [condT, List.any_cons, hx, Bool.true_or]

/-- `severityDistance_ok metric a b`: the metric has a row in `sevIdx` and both values occur in it -/
theorem severityDistance_ok_eq (metric a b : Nat) :
    severityDistance_ok metric a b = (Nat.blt metric (List.length tbl_sevIdx) &&
      ((Go.idx tbl_sevIdx metric).any (fun x => Nat.beq x a) && (Go.idx tbl_sevIdx metric).any (fun x => Nat.beq x b))) := by
  unfold severityDistance_ok
  simp only [index_ok_eq_any, Bool.true_and]

/-! ## the severity-distance guards, per loop variable -/

/-- EQ1 vectors: AV (metric 0, 4 values), PR (3, 3 values), UI (4, 3 values) -/
def sev1 (x : Nat) : Bool :=
  ((List.range 4).all fun av => severityDistance_ok 0 av (dig x 1000 100)) &&
  ((List.range 3).all fun pr => severityDistance_ok 3 pr (dig x 100 10)) &&
  ((List.range 3).all fun ui => severityDistance_ok 4 ui (dig x 10 1))
/-- EQ2 vectors: AC (1, 2 values), AT (2, 2 values) -/
def sev2 (x : Nat) : Bool :=
  ((List.range 2).all fun ac => severityDistance_ok 1 ac (dig x 100 10)) &&
  ((List.range 2).all fun at_ => severityDistance_ok 2 at_ (dig x 10 1))
/-- EQ3+EQ6 vectors: VC, VI, VA (5, 6, 7; 3 values each), CR, IR, AR (12, 13, 14; raw code `X` read as `H`) -/
def sev36 (x : Nat) : Bool :=
  ((List.range 3).all fun vc => severityDistance_ok 5 vc (dig x 1000000 100000)) &&
  ((List.range 3).all fun vi => severityDistance_ok 6 vi (dig x 100000 10000)) &&
  ((List.range 3).all fun va => severityDistance_ok 7 va (dig x 10000 1000)) &&
  ((List.range 4).all fun cr => severityDistance_ok 12 (reqFix cr) (dig x 1000 100)) &&
  ((List.range 4).all fun ir => severityDistance_ok 13 (reqFix ir) (dig x 100 10)) &&
  ((List.range 4).all fun ar => severityDistance_ok 14 (reqFix ar) (dig x 10 1))
/-- EQ4 vectors: SC (8, 3 values), SI, SA (9, 10; 4 values: `S` included) -/
def sev4 (x : Nat) : Bool :=
  ((List.range 3).all fun sc => severityDistance_ok 8 sc (dig x 1000 100)) &&
  ((List.range 4).all fun si => severityDistance_ok 9 si (dig x 100 10)) &&
  ((List.range 4).all fun sa => severityDistance_ok 10 sa (dig x 10 1))

theorem sev1_all : ((List.range 3).all fun eq1 => (Go.idx (Go.idx tbl_highestSeverityVectors 1) eq1).all sev1) = true := by
  decide +kernel
theorem sev2_all : ((List.range 2).all fun eq2 => (Go.idx (Go.idx tbl_highestSeverityVectors 2) eq2).all sev2) = true := by
  decide +kernel
theorem sev36_all : ((List.range 3).all fun eq3 => (List.range 2).all fun eq6 =>
    (Go.idx (Go.idx tbl_highestSeverityVectorsEQ3EQ6 eq3) eq6).all sev36) = true := by decide +kernel
theorem sev4_all : ((List.range 3).all fun eq4 => (Go.idx (Go.idx tbl_highestSeverityVectors 4) eq4).all sev4) = true := by
  decide +kernel

/-- **all fourteen `severityDistance_ok` guards** at every combination of highest severity vectors the loops of a
    valid MacroVector visit, for all effective codes in range -/
theorem okB_true {av ac at_ pr ui vc vi va sc si sa cr ir ar : Nat} {eq1 eq2 eq3 eq4 eq6 : Nat}
    (hav : av < 4) (hac : ac < 2) (hat : at_ < 2) (hpr : pr < 3) (hui : ui < 3) (hvc : vc < 3) (hvi : vi < 3) (hva : va < 3)
    (hsc : sc < 3) (hsi : si < 4) (hsa : sa < 4) (hcr : cr < 4) (hir : ir < 4) (har : ar < 4)
    (h1 : eq1 < 3) (h2 : eq2 < 2) (h3 : eq3 < 3) (h4 : eq4 < 3) (h6 : eq6 < 2)
    (x1 : Nat) (hx1 : x1 ∈ Go.idx (Go.idx tbl_highestSeverityVectors 1) eq1)
    (x2 : Nat) (hx2 : x2 ∈ Go.idx (Go.idx tbl_highestSeverityVectors 2) eq2)
    (x3 : Nat) (hx3 : x3 ∈ Go.idx (Go.idx tbl_highestSeverityVectorsEQ3EQ6 eq3) eq6)
    (x4 : Nat) (hx4 : x4 ∈ Go.idx (Go.idx tbl_highestSeverityVectors 4) eq4) :
    okB true av ac at_ pr ui vc vi va sc si sa (reqFix cr) (reqFix ir) (reqFix ar) x1 x2 x3 x4 = true := by
  have s1 := List.all_eq_true.mp (all1 sev1_all h1) x1 hx1
  have s2 := List.all_eq_true.mp (all1 sev2_all h2) x2 hx2
  have s3 := List.all_eq_true.mp (all1 (all1 sev36_all h3) h6) x3 hx3
  have s4 := List.all_eq_true.mp (all1 sev4_all h4) x4 hx4
  unfold sev1 at s1
  unfold sev2 at s2
  unfold sev36 at s3
  unfold sev4 at s4
  simp only [Bool.and_eq_true] at s1 s2 s3 s4
  unfold okB
  rw [all1 s1.1.1 hav, all1 s2.1 hac, all1 s2.2 hat, all1 s1.1.2 hpr, all1 s1.2 hui,
    all1 s3.1.1.1.1.1 hvc, all1 s3.1.1.1.1.2 hvi, all1 s3.1.1.1.2 hva,
    all1 s4.1.1 hsc, all1 s4.1.2 hsi, all1 s4.2 hsa,
    all1 s3.1.1.2 hcr, all1 s3.1.2 hir, all1 s3.2 har]
  rfl

end Proofs.NoPanic40
