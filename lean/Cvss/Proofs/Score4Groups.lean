import Cvss.Proofs.Score4Loops
import Cvss.Proofs.Score4MV
import Cvss.Proofs.Score4Reads
import Cvss.Spec.V4
/-!
# v4.0 score: the per-EQ enumerations (generated code against the Spec, on codes)

For every tuple of codes one EQ group reads:
* the generated MacroVector component equals the Spec's level on the value strings,
* a highest severity vector of that level passes the generated filter (`lastSat`/`find?` is `some x`), and
  the generated payload (sum of `severityDistance`s, floats) at the selected one is `F64.ofNat` of the Spec's
  severity distance,
* the Spec's distance is within the depth of the level, the level is in range.
Plus, per metric: the effective value (`mod_`) against `Spec.V4.orElse`, and the no-impact tests.
All by kernel evaluation of the generated definitions.
-/
set_option maxRecDepth 100000
namespace Proofs.Score4
open GenV40
open Spec.V4 (orElse)

/-! ## helpers: bounded enumeration -/

theorem all1 {n : Nat} {p : Nat → Bool} (h : (List.range n).all p = true) {a : Nat} (ha : a < n) : p a = true :=
  List.all_eq_true.mp h a (List.mem_range.mpr ha)

/-! ## per metric: effective value -/

/-- `mod_ base modified` against the Spec's "Modified metric if defined, else the base metric" -/
def stOk (nmB nmM : Nat → List Nat) (nb b m : Nat) : Bool :=
  (orElse (nmM m) (nmB b) == nmB (mod_ b m)) && Nat.blt (mod_ b m) nb

theorem stOk_elim {nmB nmM : Nat → List Nat} {nb b m : Nat} (h : stOk nmB nmM nb b m = true) :
    orElse (nmM m) (nmB b) = nmB (mod_ b m) ∧ mod_ b m < nb := by
  unfold stOk at h
  simp only [Bool.and_eq_true, beq_iff_eq] at h
  exact ⟨h.1, Nat.le_of_ble_eq_true h.2⟩

theorem st_AV_all : ((List.range 4).all fun b => (List.range 5).all fun m => stOk nmAV nmMAV 4 b m) = true := by decide +kernel
theorem st_AC_all : ((List.range 2).all fun b => (List.range 3).all fun m => stOk nmAC nmMAC 2 b m) = true := by decide +kernel
theorem st_AT_all : ((List.range 2).all fun b => (List.range 3).all fun m => stOk nmAT nmMAT 2 b m) = true := by decide +kernel
theorem st_PR_all : ((List.range 3).all fun b => (List.range 4).all fun m => stOk nmPR nmMPR 3 b m) = true := by decide +kernel
theorem st_UI_all : ((List.range 3).all fun b => (List.range 4).all fun m => stOk nmUI nmMUI 3 b m) = true := by decide +kernel
theorem st_VC_all : ((List.range 3).all fun b => (List.range 4).all fun m => stOk nmVC nmMVC 3 b m) = true := by decide +kernel
theorem st_VI_all : ((List.range 3).all fun b => (List.range 4).all fun m => stOk nmVI nmMVI 3 b m) = true := by decide +kernel
theorem st_VA_all : ((List.range 3).all fun b => (List.range 4).all fun m => stOk nmVA nmMVA 3 b m) = true := by decide +kernel
theorem st_SC_all : ((List.range 3).all fun b => (List.range 4).all fun m => stOk nmSC nmMSC 3 b m) = true := by decide +kernel

theorem st_AV {b m : Nat} (hb : b < 4) (hm : m < 5) : orElse (nmMAV m) (nmAV b) = nmAV (mod_ b m) ∧ mod_ b m < 4 := stOk_elim (all1 (all1 st_AV_all hb) hm)
theorem st_AC {b m : Nat} (hb : b < 2) (hm : m < 3) : orElse (nmMAC m) (nmAC b) = nmAC (mod_ b m) ∧ mod_ b m < 2 := stOk_elim (all1 (all1 st_AC_all hb) hm)
theorem st_AT {b m : Nat} (hb : b < 2) (hm : m < 3) : orElse (nmMAT m) (nmAT b) = nmAT (mod_ b m) ∧ mod_ b m < 2 := stOk_elim (all1 (all1 st_AT_all hb) hm)
theorem st_PR {b m : Nat} (hb : b < 3) (hm : m < 4) : orElse (nmMPR m) (nmPR b) = nmPR (mod_ b m) ∧ mod_ b m < 3 := stOk_elim (all1 (all1 st_PR_all hb) hm)
theorem st_UI {b m : Nat} (hb : b < 3) (hm : m < 4) : orElse (nmMUI m) (nmUI b) = nmUI (mod_ b m) ∧ mod_ b m < 3 := stOk_elim (all1 (all1 st_UI_all hb) hm)
theorem st_VC {b m : Nat} (hb : b < 3) (hm : m < 4) : orElse (nmMVC m) (nmVC b) = nmVC (mod_ b m) ∧ mod_ b m < 3 := stOk_elim (all1 (all1 st_VC_all hb) hm)
theorem st_VI {b m : Nat} (hb : b < 3) (hm : m < 4) : orElse (nmMVI m) (nmVI b) = nmVI (mod_ b m) ∧ mod_ b m < 3 := stOk_elim (all1 (all1 st_VI_all hb) hm)
theorem st_VA {b m : Nat} (hb : b < 3) (hm : m < 4) : orElse (nmMVA m) (nmVA b) = nmVA (mod_ b m) ∧ mod_ b m < 3 := stOk_elim (all1 (all1 st_VA_all hb) hm)
theorem st_SC {b m : Nat} (hb : b < 3) (hm : m < 4) : orElse (nmMSC m) (nmSC b) = nmSC (mod_ b m) ∧ mod_ b m < 3 := stOk_elim (all1 (all1 st_SC_all hb) hm)

/-! ## EQ1 -/

def chk1 (av pr ui : Nat) : Bool :=
  match lastSat (fun x => !bad1 av pr ui x) (Go.idx (Go.idx tbl_highestSeverityVectors 1) (eq1c av pr ui)) with
  | some x =>
    Nat.beq (pay1 av pr ui x) (F64.ofNat (Spec.V4.dist1 (nmAV av) (nmPR pr) (nmUI ui))) &&
    Nat.beq (eq1c av pr ui) (Spec.V4.eq1 (nmAV av) (nmPR pr) (nmUI ui)) &&
    Nat.blt (Spec.V4.dist1 (nmAV av) (nmPR pr) (nmUI ui)) (Spec.V4.depth1P1 (eq1c av pr ui)) &&
    Nat.blt (eq1c av pr ui) 3
  | none => false

theorem chk1_all : ((List.range 4).all fun av => (List.range 3).all fun pr => (List.range 3).all fun ui =>
    chk1 av pr ui) = true := by decide +kernel

theorem g1 {av pr ui : Nat} (ha : av < 4) (hp : pr < 3) (hu : ui < 3) :
    ∃ x, lastSat (fun x => !bad1 av pr ui x) (Go.idx (Go.idx tbl_highestSeverityVectors 1) (eq1c av pr ui)) = some x ∧
      pay1 av pr ui x = F64.ofNat (Spec.V4.dist1 (nmAV av) (nmPR pr) (nmUI ui)) ∧
      eq1c av pr ui = Spec.V4.eq1 (nmAV av) (nmPR pr) (nmUI ui) ∧
      Spec.V4.dist1 (nmAV av) (nmPR pr) (nmUI ui) < Spec.V4.depth1P1 (eq1c av pr ui) ∧ eq1c av pr ui < 3 := by
  have h := all1 (all1 (all1 chk1_all ha) hp) hu
  unfold chk1 at h
  cases hl : lastSat (fun x => !bad1 av pr ui x) (Go.idx (Go.idx tbl_highestSeverityVectors 1) (eq1c av pr ui)) with
  | none => rw [hl] at h; cases h
  | some x =>
    rw [hl] at h
    simp only [Bool.and_eq_true] at h
    exact ⟨x, rfl, Nat.eq_of_beq_eq_true h.1.1.1, Nat.eq_of_beq_eq_true h.1.1.2, Nat.le_of_ble_eq_true h.1.2,
      Nat.le_of_ble_eq_true h.2⟩

/-! ## EQ2 -/

def chk2 (ac at_ : Nat) : Bool :=
  match lastSat (fun x => !bad2 ac at_ x) (Go.idx (Go.idx tbl_highestSeverityVectors 2) (eq2c ac at_)) with
  | some x =>
    Nat.beq (pay2 ac at_ x) (F64.ofNat (Spec.V4.dist2 (nmAC ac) (nmAT at_))) &&
    Nat.beq (eq2c ac at_) (Spec.V4.eq2 (nmAC ac) (nmAT at_)) &&
    Nat.blt (Spec.V4.dist2 (nmAC ac) (nmAT at_)) (Spec.V4.depth2P1 (eq2c ac at_)) &&
    Nat.blt (eq2c ac at_) 2
  | none => false

theorem chk2_all : ((List.range 2).all fun ac => (List.range 2).all fun at_ => chk2 ac at_) = true := by decide +kernel

theorem g2 {ac at_ : Nat} (ha : ac < 2) (ht : at_ < 2) :
    ∃ x, lastSat (fun x => !bad2 ac at_ x) (Go.idx (Go.idx tbl_highestSeverityVectors 2) (eq2c ac at_)) = some x ∧
      pay2 ac at_ x = F64.ofNat (Spec.V4.dist2 (nmAC ac) (nmAT at_)) ∧
      eq2c ac at_ = Spec.V4.eq2 (nmAC ac) (nmAT at_) ∧
      Spec.V4.dist2 (nmAC ac) (nmAT at_) < Spec.V4.depth2P1 (eq2c ac at_) ∧ eq2c ac at_ < 2 := by
  have h := all1 (all1 chk2_all ha) ht
  unfold chk2 at h
  cases hl : lastSat (fun x => !bad2 ac at_ x) (Go.idx (Go.idx tbl_highestSeverityVectors 2) (eq2c ac at_)) with
  | none => rw [hl] at h; cases h
  | some x =>
    rw [hl] at h
    simp only [Bool.and_eq_true] at h
    exact ⟨x, rfl, Nat.eq_of_beq_eq_true h.1.1.1, Nat.eq_of_beq_eq_true h.1.1.2, Nat.le_of_ble_eq_true h.1.2,
      Nat.le_of_ble_eq_true h.2⟩

/-! ## EQ3 + EQ6 (effective VC/VI/VA codes, raw requirement codes; `reqFix` = the code's `X ⇒ H`) -/

/-- the Spec's requirement value: `X` is scored as `H` -/
def reqS (nm : Nat → List Nat) (r : Nat) : List Nat := orElse (nm r) (Spec.b "H")

def chk36 (vc vi va cr ir ar : Nat) : Bool :=
  match lastSat (fun x => !bad36 vc vi va (reqFix cr) (reqFix ir) (reqFix ar) x)
      (Go.idx (Go.idx tbl_highestSeverityVectorsEQ3EQ6 (eq3c vc vi va)) (eq6c vc vi va cr ir ar)) with
  | some x =>
    Nat.beq (pay36 vc vi va (reqFix cr) (reqFix ir) (reqFix ar) x)
      (F64.ofNat (Spec.V4.dist36 (nmVC vc) (nmVI vi) (nmVA va) (reqS nmCR cr) (reqS nmIR ir) (reqS nmAR ar))) &&
    Nat.beq (eq3c vc vi va) (Spec.V4.eq3 (nmVC vc) (nmVI vi) (nmVA va)) &&
    Nat.beq (eq6c vc vi va cr ir ar)
      (Spec.V4.eq6 (nmVC vc) (nmVI vi) (nmVA va) (reqS nmCR cr) (reqS nmIR ir) (reqS nmAR ar)) &&
    Nat.blt (Spec.V4.dist36 (nmVC vc) (nmVI vi) (nmVA va) (reqS nmCR cr) (reqS nmIR ir) (reqS nmAR ar))
      (Spec.V4.depth36P1 (eq3c vc vi va) (eq6c vc vi va cr ir ar)) &&
    Nat.blt (eq3c vc vi va) 3 && Nat.blt (eq6c vc vi va cr ir ar) 2 &&
    !(Nat.beq (eq3c vc vi va) 2 && Nat.beq (eq6c vc vi va cr ir ar) 0)
  | none => false

set_option maxHeartbeats 2000000 in
theorem chk36_all : ((List.range 3).all fun vc => (List.range 3).all fun vi => (List.range 3).all fun va =>
    (List.range 4).all fun cr => (List.range 4).all fun ir => (List.range 4).all fun ar =>
      chk36 vc vi va cr ir ar) = true := by decide +kernel

theorem g36 {vc vi va cr ir ar : Nat} (h1 : vc < 3) (h2 : vi < 3) (h3 : va < 3) (h4 : cr < 4) (h5 : ir < 4) (h6 : ar < 4) :
    ∃ x, lastSat (fun x => !bad36 vc vi va (reqFix cr) (reqFix ir) (reqFix ar) x)
        (Go.idx (Go.idx tbl_highestSeverityVectorsEQ3EQ6 (eq3c vc vi va)) (eq6c vc vi va cr ir ar)) = some x ∧
      pay36 vc vi va (reqFix cr) (reqFix ir) (reqFix ar) x =
        F64.ofNat (Spec.V4.dist36 (nmVC vc) (nmVI vi) (nmVA va) (reqS nmCR cr) (reqS nmIR ir) (reqS nmAR ar)) ∧
      eq3c vc vi va = Spec.V4.eq3 (nmVC vc) (nmVI vi) (nmVA va) ∧
      eq6c vc vi va cr ir ar = Spec.V4.eq6 (nmVC vc) (nmVI vi) (nmVA va) (reqS nmCR cr) (reqS nmIR ir) (reqS nmAR ar) ∧
      Spec.V4.dist36 (nmVC vc) (nmVI vi) (nmVA va) (reqS nmCR cr) (reqS nmIR ir) (reqS nmAR ar) <
        Spec.V4.depth36P1 (eq3c vc vi va) (eq6c vc vi va cr ir ar) ∧
      eq3c vc vi va < 3 ∧ eq6c vc vi va cr ir ar < 2 ∧ ¬(eq3c vc vi va = 2 ∧ eq6c vc vi va cr ir ar = 0) := by
  have h := all1 (all1 (all1 (all1 (all1 (all1 chk36_all h1) h2) h3) h4) h5) h6
  unfold chk36 at h
  cases hl : lastSat (fun x => !bad36 vc vi va (reqFix cr) (reqFix ir) (reqFix ar) x)
        (Go.idx (Go.idx tbl_highestSeverityVectorsEQ3EQ6 (eq3c vc vi va)) (eq6c vc vi va cr ir ar)) with
  | none => rw [hl] at h; cases h
  | some x =>
    rw [hl] at h
    simp only [Bool.and_eq_true, Bool.not_eq_true'] at h
    obtain ⟨⟨⟨⟨⟨⟨ha, hb⟩, hc⟩, hd⟩, he⟩, hf⟩, hg⟩ := h
    refine ⟨x, rfl, Nat.eq_of_beq_eq_true ha, Nat.eq_of_beq_eq_true hb, Nat.eq_of_beq_eq_true hc,
      Nat.le_of_ble_eq_true hd, Nat.le_of_ble_eq_true he, Nat.le_of_ble_eq_true hf, ?_⟩
    intro ⟨e3, e6⟩
    rw [e3, e6] at hg
    cases hg

/-! ## EQ4 (effective SC code; raw SI/MSI and SA/MSA codes: the level reads the Modified codes directly) -/

/-- the Spec's effective SI / SA string from the raw pair -/
def effS (nmB nmM : Nat → List Nat) (b m : Nat) : List Nat := orElse (nmM m) (nmB b)

def chk4 (sc si msi sa msa : Nat) : Bool :=
  match (Go.idx (Go.idx tbl_highestSeverityVectors 4) (eq4r sc msi si msa sa)).find?
      (fun x => !bad4 sc (mod_ si msi) (mod_ sa msa) x) with
  | some x =>
    Nat.beq (pay4 sc (mod_ si msi) (mod_ sa msa) x)
      (F64.ofNat (Spec.V4.dist4 (nmSC sc) (effS nmSI nmMSI si msi) (effS nmSA nmMSA sa msa))) &&
    Nat.beq (eq4r sc msi si msa sa) (Spec.V4.eq4 (nmSC sc) (effS nmSI nmMSI si msi) (effS nmSA nmMSA sa msa)) &&
    Nat.blt (Spec.V4.dist4 (nmSC sc) (effS nmSI nmMSI si msi) (effS nmSA nmMSA sa msa))
      (Spec.V4.depth4P1 (eq4r sc msi si msa sa)) &&
    Nat.blt (eq4r sc msi si msa sa) 3
  | none => false

theorem chk4_all : ((List.range 3).all fun sc => (List.range 3).all fun si => (List.range 5).all fun msi =>
    (List.range 3).all fun sa => (List.range 5).all fun msa => chk4 sc si msi sa msa) = true := by decide +kernel

theorem g4 {sc si msi sa msa : Nat} (h1 : sc < 3) (h2 : si < 3) (h3 : msi < 5) (h4 : sa < 3) (h5 : msa < 5) :
    ∃ x, (Go.idx (Go.idx tbl_highestSeverityVectors 4) (eq4r sc msi si msa sa)).find?
        (fun x => !bad4 sc (mod_ si msi) (mod_ sa msa) x) = some x ∧
      pay4 sc (mod_ si msi) (mod_ sa msa) x =
        F64.ofNat (Spec.V4.dist4 (nmSC sc) (effS nmSI nmMSI si msi) (effS nmSA nmMSA sa msa)) ∧
      eq4r sc msi si msa sa = Spec.V4.eq4 (nmSC sc) (effS nmSI nmMSI si msi) (effS nmSA nmMSA sa msa) ∧
      Spec.V4.dist4 (nmSC sc) (effS nmSI nmMSI si msi) (effS nmSA nmMSA sa msa) <
        Spec.V4.depth4P1 (eq4r sc msi si msa sa) ∧ eq4r sc msi si msa sa < 3 := by
  have h := all1 (all1 (all1 (all1 (all1 chk4_all h1) h2) h3) h4) h5
  unfold chk4 at h
  cases hl : (Go.idx (Go.idx tbl_highestSeverityVectors 4) (eq4r sc msi si msa sa)).find?
        (fun x => !bad4 sc (mod_ si msi) (mod_ sa msa) x) with
  | none => rw [hl] at h; cases h
  | some x =>
    rw [hl] at h
    simp only [Bool.and_eq_true] at h
    exact ⟨x, rfl, Nat.eq_of_beq_eq_true h.1.1.1, Nat.eq_of_beq_eq_true h.1.1.2, Nat.le_of_ble_eq_true h.1.2,
      Nat.le_of_ble_eq_true h.2⟩

/-! ## EQ5 (raw E code; `X` is scored as `A`) -/

def chk5 (e : Nat) : Bool :=
  Nat.beq (eq5c e) (Spec.V4.eq5 (orElse (nmE e) (Spec.b "A"))) && Nat.blt (eq5c e) 3 &&
  Nat.beq (Spec.V4.dist5 (orElse (nmE e) (Spec.b "A"))) 0

theorem chk5_all : ((List.range 4).all fun e => chk5 e) = true := by decide +kernel

theorem g5 {e : Nat} (h : e < 4) : eq5c e = Spec.V4.eq5 (orElse (nmE e) (Spec.b "A")) ∧ eq5c e < 3 ∧
    Spec.V4.dist5 (orElse (nmE e) (Spec.b "A")) = 0 := by
  have h := all1 chk5_all h
  unfold chk5 at h
  simp only [Bool.and_eq_true] at h
  exact ⟨Nat.eq_of_beq_eq_true h.1.1, Nat.le_of_ble_eq_true h.1.2, Nat.eq_of_beq_eq_true h.2⟩

/-! ## the no-impact tests -/

def chkN (nm : Nat → List Nat) (e : Nat) : Bool := Nat.beq e 2 == Spec.V4.is (nm e) "N"
theorem chkN_all : ((List.range 3).all fun e => chkN nmVC e && chkN nmVI e && chkN nmVA e && chkN nmSC e) = true := by
  decide +kernel
theorem nN {e : Nat} (h : e < 3) : Nat.beq e 2 = Spec.V4.is (nmVC e) "N" ∧ Nat.beq e 2 = Spec.V4.is (nmVI e) "N" ∧
    Nat.beq e 2 = Spec.V4.is (nmVA e) "N" ∧ Nat.beq e 2 = Spec.V4.is (nmSC e) "N" := by
  have h := all1 chkN_all h
  unfold chkN at h
  simp only [Bool.and_eq_true, beq_iff_eq] at h
  exact ⟨h.1.1.1, h.1.1.2, h.1.2, h.2⟩

def chkNS (nmB nmM : Nat → List Nat) (b m : Nat) : Bool := Nat.beq (mod_ b m) 2 == Spec.V4.is (effS nmB nmM b m) "N"
theorem chkNS_all : ((List.range 3).all fun b => (List.range 5).all fun m => chkNS nmSI nmMSI b m && chkNS nmSA nmMSA b m) = true := by
  decide +kernel
theorem nNS {b m : Nat} (hb : b < 3) (hm : m < 5) : Nat.beq (mod_ b m) 2 = Spec.V4.is (effS nmSI nmMSI b m) "N" ∧
    Nat.beq (mod_ b m) 2 = Spec.V4.is (effS nmSA nmMSA b m) "N" := by
  have h := all1 (all1 chkNS_all hb) hm
  unfold chkNS at h
  simp only [Bool.and_eq_true, beq_iff_eq] at h
  exact h

end Proofs.Score4
