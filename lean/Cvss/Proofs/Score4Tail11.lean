import Cvss.Proofs.Score4TailDef
/-! GENERATED chunk 11 of the v4.0 float-tail obligation: for each MacroVector below and every severity
distance tuple within its depths, `roundup(eqsv − mean)` (the generated tail) is `F64.tenth` of the Spec's
exact half-up value. Kernel evaluation (`decide +kernel`), 2922 tuples. -/
namespace Proofs.Score4
set_option maxHeartbeats 2000000 in
theorem tail_000221 : tailOkMV 0 0 0 2 2 1 = true := by decide +kernel
set_option maxHeartbeats 2000000 in
theorem tail_001010 : tailOkMV 0 0 1 0 1 0 = true := by decide +kernel
set_option maxHeartbeats 2000000 in
theorem tail_010021 : tailOkMV 0 1 0 0 2 1 = true := by decide +kernel
set_option maxHeartbeats 2000000 in
theorem tail_010221 : tailOkMV 0 1 0 2 2 1 = true := by decide +kernel
set_option maxHeartbeats 2000000 in
theorem tail_011010 : tailOkMV 0 1 1 0 1 0 = true := by decide +kernel
set_option maxHeartbeats 2000000 in
theorem tail_012021 : tailOkMV 0 1 2 0 2 1 = true := by decide +kernel
set_option maxHeartbeats 2000000 in
theorem tail_100020 : tailOkMV 1 0 0 0 2 0 = true := by decide +kernel
set_option maxHeartbeats 2000000 in
theorem tail_110020 : tailOkMV 1 1 0 0 2 0 = true := by decide +kernel
set_option maxHeartbeats 2000000 in
theorem tail_110220 : tailOkMV 1 1 0 2 2 0 = true := by decide +kernel
set_option maxHeartbeats 2000000 in
theorem tail_111221 : tailOkMV 1 1 1 2 2 1 = true := by decide +kernel
set_option maxHeartbeats 2000000 in
theorem tail_200121 : tailOkMV 2 0 0 1 2 1 = true := by decide +kernel
set_option maxHeartbeats 2000000 in
theorem tail_201121 : tailOkMV 2 0 1 1 2 1 = true := by decide +kernel
set_option maxHeartbeats 2000000 in
theorem tail_210121 : tailOkMV 2 1 0 1 2 1 = true := by decide +kernel
set_option maxHeartbeats 2000000 in
theorem tail_211010 : tailOkMV 2 1 1 0 1 0 = true := by decide +kernel
set_option maxHeartbeats 2000000 in
theorem tail_211121 : tailOkMV 2 1 1 1 2 1 = true := by decide +kernel
end Proofs.Score4
