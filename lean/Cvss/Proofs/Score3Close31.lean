import Cvss.Proofs.Score3CloseDef
import Cvss.Proofs.Score3Codes31
import Cvss.Proofs.Score3M31
/-!
# C03, v3.1: `Impact` and `Exploitability` (unrounded) are within 10⁻¹² of the exact Spec value

Kernel enumeration of the generated `Impact_core` (54 code tuples) and `Exploitability_core` (96 code tuples).
(File generated from the v3.1 text for v3.0 by `scripts/score3_mk30.sh`.)
-/
namespace Proofs.Score3.V31
open Spec Spec.V3 GenV31

def okImp (s c i a : Nat) : Bool :=
  within12 (Impact_core c i a s) ((specImpact s c i a).num, (specImpact s c i a).exp)
def okExp (av ac pr ui s : Nat) : Bool :=
  within12 (Exploitability_core av ac pr s ui) ((specExpl av ac pr ui s).num, (specExpl av ac pr ui s).exp)
def allImp : Bool :=
  (List.range 2).all fun s => (List.range 3).all fun c => (List.range 3).all fun i => (List.range 3).all fun a => okImp s c i a
def allExp : Bool :=
  (List.range 4).all fun av => (List.range 2).all fun ac => (List.range 3).all fun pr => (List.range 2).all fun ui =>
  (List.range 2).all fun s => okExp av ac pr ui s

set_option maxRecDepth 20000 in
set_option maxHeartbeats 4000000 in
theorem imp_all : allImp = true := by decide +kernel
set_option maxRecDepth 20000 in
set_option maxHeartbeats 4000000 in
theorem exp_all : allExp = true := by decide +kernel

theorem impact_obj (c : Model.O31) (h : c.wf = true) : within12 c.impact (Spec.V3.impact (val c)) = true := by
  have R := inRange_of_wf c h
  rw [impact_eq, impact_scope _ _ _ _ _ R.hS, val_eq]
  show within12 _ ((impactD _).num, (impactD _).exp) = true
  rw [spec_impact R.h4 R.h5 R.h6 R.h7]
  exact all_range (all_range (all_range (all_range imp_all _ R.h4) _ R.h5) _ R.h6) _ R.h7

theorem exploitability_obj (c : Model.O31) (h : c.wf = true) :
    within12 c.exploitability (Spec.V3.exploitability (val c)) = true := by
  have R := inRange_of_wf c h
  rw [exploitability_eq, val_eq]
  show within12 _ ((exploitabilityD _).num, (exploitabilityD _).exp) = true
  rw [spec_expl R.h0 R.h1 R.h2 R.h3 R.h4]
  exact all_range (all_range (all_range (all_range (all_range exp_all _ R.h0) _ R.h1) _ R.h2) _ R.h3) _ R.h4

end Proofs.Score3.V31
