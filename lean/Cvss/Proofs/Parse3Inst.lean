import Cvss.Proofs.Parse3Loop
/-!
# v3 parser proofs: tying `Model.parse30` / `Model.parse31` to the generic `Model.parse3 (hdr ++ "/")`

The only facts about the generated code needed here are the two header constants, checked by evaluation
(a 3.0/3.1 copy-paste slip, a shortened prefix or a missing `/` in `/repo/30|31/cvss3x.go` makes these fail).
-/
namespace Proofs.Parse3
open Model (O30 O31)

theorem const_header30 : GenV30.const_header = Spec.V3.header30 ++ [47] := by decide
theorem const_header31 : GenV31.const_header = Spec.V3.header31 ++ [47] := by decide

theorem parse30_eq (s : Model.Bytes) :
    Model.parse30 s = Model.parse3 (Spec.V3.header30 ++ [47]) O30.zero O30.set s := by
  unfold Model.parse30; rw [const_header30]

theorem parse31_eq (s : Model.Bytes) :
    Model.parse31 s = Model.parse3 (Spec.V3.header31 ++ [47]) O31.zero O31.set s := by
  unfold Model.parse31; rw [const_header31]

/-- `parse30` through a contract whose `zero`/`set` are the generated ones -/
theorem parse30_eq_K (K : Contract O30 Spec.V3.metrics) (hz : K.zero = O30.zero) (hs : K.set = O30.set)
    (s : Model.Bytes) : Model.parse30 s = Model.parse3 (Spec.V3.header30 ++ [47]) K.zero K.set s := by
  rw [parse30_eq, hz, hs]

theorem parse31_eq_K (K : Contract O31 Spec.V3.metrics) (hz : K.zero = O31.zero) (hs : K.set = O31.set)
    (s : Model.Bytes) : Model.parse31 s = Model.parse3 (Spec.V3.header31 ++ [47]) K.zero K.set s := by
  rw [parse31_eq, hz, hs]

end Proofs.Parse3
