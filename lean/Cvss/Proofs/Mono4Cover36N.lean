import Cvss.Proofs.Mono4Cover
/-! GENERATED: coverage of the EQ3+EQ6 transition list, vectors with VC:N -/
namespace Proofs.Mono4
set_option maxHeartbeats 4000000 in
theorem cov36_N : cov36At (Spec.b "N") = true := by decide +kernel
end Proofs.Mono4
