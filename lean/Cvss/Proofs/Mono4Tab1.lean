import Cvss.Proofs.Mono4Lists
/-! GENERATED: kernel evaluation of the monotonicity check for EQ group 1 (all transitions × all contexts) -/
namespace Proofs.Mono4
set_option maxHeartbeats 4000000 in
theorem mono1_q0 : mono1Ok 0 = true := by decide +kernel
set_option maxHeartbeats 4000000 in
theorem mono1_q1 : mono1Ok 1 = true := by decide +kernel
set_option maxHeartbeats 4000000 in
theorem mono1_q2 : mono1Ok 2 = true := by decide +kernel
end Proofs.Mono4
