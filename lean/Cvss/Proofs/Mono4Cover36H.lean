import Cvss.Proofs.Mono4Cover
/-! GENERATED: coverage of the EQ3+EQ6 transition list, vectors with VC:H -/
namespace Proofs.Mono4
set_option maxHeartbeats 4000000 in
theorem cov36_H : cov36At (Spec.b "H") = true := by decide +kernel
end Proofs.Mono4
