import Cvss.Proofs.GenParseBase
import Cvss.Proofs.Pool
import Cvss.Gen.P20
/-!
# The regenerated v2.0 parser equals the hand-written model, whatever the pooled buffer holds

`GenP20.ParseVector buf s` (translated from `/repo/20/cvss20.go` by `tools/gen`, parser mode; `buf` is what
`splitPool.Get()` returns) is proved equal to `Model.parse20 s` for **every** byte string `s` (any `List Nat`) and
**every** buffer of 14 strings:

* `split_spec` — the generated `split` (index scan writing into the buffer) is `Model.split14With`
  (`Model/Pool.lean`), and never panics on a 14-slot buffer; with `Model.split14With_spec` (`Proofs/Pool.lean`)
  the slots `0..ei` are `Model.splitN 13 s` whatever the buffer held;
* `range_step` — one iteration of `for _, pt := range pts` is `Model.step2` (including the out-of-range
  `order[slci][i]` panic, which `step2` models and `Parse2*` proves unreachable);
* `range_spec` — the range loop is `Model.loop2`.
-/
set_option linter.unusedSimpArgs false
namespace GenParse20
open Model GenParse

/-! ## `split` -/

abbrev StS := List Bytes × Nat × Nat × Nat
abbrev RS := Option (List Bytes × Nat)

section Split
variable (v : Bytes) (cnd : StS → Bool) (post : StS → StS)
  (hcnd : ∀ dst start curr i, cnd (dst, start, curr, i) = Nat.blt i v.length)
  (hpost : ∀ dst start curr i, post (dst, start, curr, i) = (dst, start, curr, i + 1))
include hcnd hpost

/-- **loop invariant** of `for ; i < l; i++` in `split`: `start = |pre|`, `i = |pre| + |seg|`; the loop ends in a
    state from which `dst[curr] = vector[start:]; return curr` produces `Model.splitGo` -/
theorem split_inv (rest : Bytes) : ∀ (pre seg : Bytes) (buf : List Bytes) (curr fuel : Nat),
    v = pre ++ seg ++ rest → buf.length = 14 → curr ≤ 12 → rest.length + 1 ≤ fuel →
    ∃ dstF startF currF iF,
      Go.forN fuel (buf, pre.length, curr, pre.length + seg.length) cnd post (GenP20.split_for1 v)
        = .done (dstF, startF, currF, iF) ∧
      startF ≤ v.length ∧ currF < 14 ∧ dstF.length = 14 ∧
      splitGo buf curr seg rest = (dstF.set currF (v.drop startF), currF) := by
  induction rest with
  | nil =>
    intro pre seg buf curr fuel hv hbuf hcurr hf
    obtain ⟨n, rfl⟩ : ∃ n, fuel = n + 1 := ⟨fuel - 1, by omega⟩
    refine ⟨buf, pre.length, curr, pre.length + seg.length, ?_, by simp [hv], by omega, hbuf, ?_⟩
    · rw [forN_stop]
      rw [hcnd]; exact blt_false (by simp [hv])
    · simp [splitGo, hv]
  | cons c cs ih =>
    intro pre seg buf curr fuel hv hbuf hcurr hf
    obtain ⟨n, rfl⟩ : ∃ n, fuel = n + 1 := ⟨fuel - 1, by omega⟩
    have hlt : pre.length + seg.length < v.length := by simp [hv]
    have hc : cnd (buf, pre.length, curr, pre.length + seg.length) = true := by
      rw [hcnd]; exact blt_true hlt
    have hix : v[pre.length + seg.length]? = some c := by rw [hv]; exact getElem?_at pre seg c cs
    have hsl : ∀ (p : Go.Ctl StS RS) (k : Bytes → Go.Ctl StS RS),
        Go.slice v pre.length (pre.length + seg.length) p k = k seg := by
      intro p k
      rw [slice_ok v (by omega) (by omega), hv, take_drop_seg]
    by_cases hs : c = 47
    · subst hs
      by_cases h13 : curr + 1 = 13
      · have hb : GenP20.split_for1 v (buf, pre.length, curr, pre.length + seg.length)
            = .brk (buf.set curr seg, pre.length + seg.length + 1, curr + 1, pre.length + seg.length) := by
          simp only [GenP20.split_for1]
          rw [index_some hix]
          simp only [Nat.beq_refl, cond_true]
          rw [hsl, setIndex_ok _ _ (by omega)]
          simp [h13]
        refine ⟨buf.set curr seg, pre.length + seg.length + 1, curr + 1, pre.length + seg.length, ?_, by omega,
          by omega, by simp [hbuf], ?_⟩
        · rw [forN_brk (h := hc) (hb := hb)]
        · have hv' : v = (pre ++ seg ++ [47]) ++ cs := by simp [hv]
          have hl' : pre.length + seg.length + 1 = (pre ++ seg ++ [47]).length := by
            simp only [List.length_append, List.length_singleton]
          have : v.drop (pre.length + seg.length + 1) = cs := by
            rw [hl', hv']; exact drop_seg _ _
          simp [splitGo, SLASH, h13, this]
      · have hb : GenP20.split_for1 v (buf, pre.length, curr, pre.length + seg.length)
            = .next (buf.set curr seg, pre.length + seg.length + 1, curr + 1, pre.length + seg.length) := by
          simp only [GenP20.split_for1]
          rw [index_some hix]
          simp only [Nat.beq_refl, cond_true]
          rw [hsl, setIndex_ok _ _ (by omega)]
          simp [beq_false h13]
        obtain ⟨dstF, startF, currF, iF, h1, h2, h3, h4, h5⟩ :=
          ih (pre ++ seg ++ [47]) [] (buf.set curr seg) (curr + 1) n (by simp [hv]) (by simp [hbuf]) (by omega)
            (by simp at hf; omega)
        refine ⟨dstF, startF, currF, iF, ?_, h2, h3, h4, ?_⟩
        · rw [forN_next (h := hc) (hb := hb), hpost]
          simp only [List.length_append, List.length_singleton, List.length_nil, Nat.add_zero] at h1
          exact h1
        · simp only [splitGo, SLASH, if_true, h13, if_false]
          exact h5
    · have hb : GenP20.split_for1 v (buf, pre.length, curr, pre.length + seg.length)
          = .next (buf, pre.length, curr, pre.length + seg.length) := by
        simp only [GenP20.split_for1]
        rw [index_some hix]
        simp [beq_false hs]
      obtain ⟨dstF, startF, currF, iF, h1, h2, h3, h4, h5⟩ :=
        ih pre (seg ++ [c]) buf curr n (by simp [hv]) hbuf hcurr (by simp at hf; omega)
      refine ⟨dstF, startF, currF, iF, ?_, h2, h3, h4, ?_⟩
      · rw [forN_next (h := hc) (hb := hb), hpost]
        simp only [List.length_append, List.length_singleton, ← Nat.add_assoc] at h1
        exact h1
      · simp only [splitGo, SLASH, hs, if_false]
        exact h5

/-- the whole scan from the initial state, as it appears in the generated text (`L` is the value of the loop) -/
theorem split_scan (buf : List Bytes) (fuel : Nat) (st : StS) (L : Go.Loop StS RS)
    (hL : Go.forN fuel st cnd post (GenP20.split_for1 v) = L) (hst : st = (buf, 0, 0, 0))
    (hbuf : buf.length = 14) (hf : v.length + 1 ≤ fuel) :
    ∃ dstF startF currF iF, L = .done (dstF, startF, currF, iF) ∧
      startF ≤ v.length ∧ currF < 14 ∧ dstF.length = 14 ∧
      splitGo buf 0 [] v = (dstF.set currF (v.drop startF), currF) := by
  subst hst
  obtain ⟨dstF, startF, currF, iF, h1, h2⟩ :=
    split_inv v cnd post hcnd hpost v [] [] buf 0 fuel (by simp) hbuf (by omega) hf
  simp only [List.length_nil, Nat.add_zero] at h1
  exact ⟨dstF, startF, currF, iF, hL ▸ h1, h2⟩

end Split

/-- **`split` into any 14-slot buffer**: no panic, and buffer and `ei` are those of `Model.split14With` -/
theorem split_spec (buf : List Bytes) (s : Bytes) (hl : buf.length = 14) :
    GenP20.split buf s = some (split14With buf s) := by
  unfold GenP20.split
  simp only []
  generalize hL : Go.forN _ _ _ _ (GenP20.split_for1 _) = L
  obtain ⟨dstF, startF, currF, iF, h1, h2, h3, h4, h5⟩ :=
    split_scan s _ _ (by intro dst start curr i; rfl) (by intro dst start curr i; rfl) buf _ _ L hL rfl hl
      (by simp only [Nat.add_eq]; omega)
  subst h1
  simp only []
  rw [sliceFrom_ok _ h2, setIndex_ok _ _ (by omega)]
  simp only [split14With, h5]

/-! ## the range loop -/

theorem beq_decide (a b : Nat) : Nat.beq a b = decide (a = b) := by
  by_cases h : a = b
  · simp [h, GenParse.beq_true]
  · simp [h, GenParse.beq_false]

/-- a `step2` outcome as the control result of one range iteration; state `(slci, u0, u1, u2, u3, i)` -/
def next2 : Res (Nat × Nat × O20) → Go.Ctl (Nat × Nat × Nat × Nat × Nat × Nat) (Go.Res (Nat × Nat × Nat × Nat))
  | .ok (slci', i', c') => .next (slci', c'.u0, c'.u1, c'.u2, c'.u3, i')
  | .err e => .ret (.err e)
  | .panic => .ret .panic

theorem index_none' {α ρ : Type} {s : List α} {i : Nat} (h : s[i]? = none) (p : ρ) (k : α → ρ) :
    Go.index s i p k = p := by simp [Go.index, h]
theorem strEq_eq (a b : Bytes) : Go.strEq a b = decide (a = b) := rfl
theorem errBeq_eq (e : Go.Err) : Go.Err.beq e Go.errNil = decide (e = Go.errNil) := rfl

theorem tbl0 : GenV20.tbl_order[0]? = some (GenV20.tbl_order.getD 0 []) := by decide
theorem tbl1 : GenV20.tbl_order[1]? = some (GenV20.tbl_order.getD 1 []) := by decide
theorem tbl2 : GenV20.tbl_order[2]? = some (GenV20.tbl_order.getD 2 []) := by decide
theorem tbl10 : (GenV20.tbl_order.getD 1 [])[0]? ≠ none := by decide

set_option maxHeartbeats 1000000 in
/-- **one iteration of `for _, pt := range pts` is `Model.step2`** (for every state, reachable or not) -/
theorem range_step (pt : Bytes) (slci i : Nat) (c : O20) :
    GenP20.ParseVector_range1 pt (slci, c.u0, c.u1, c.u2, c.u3, i) = next2 (step2 GenV20.tbl_order slci i c pt) := by
  obtain ⟨u0, u1, u2, u3⟩ := c
  have hS : ∀ a v, GenV20.Set u0 u1 u2 u3 a v =
      ((O20.set ⟨u0, u1, u2, u3⟩ a v).1.u0, (O20.set ⟨u0, u1, u2, u3⟩ a v).1.u1, (O20.set ⟨u0, u1, u2, u3⟩ a v).1.u2,
       (O20.set ⟨u0, u1, u2, u3⟩ a v).1.u3, (O20.set ⟨u0, u1, u2, u3⟩ a v).2) := fun a v => rfl
  simp only [GenP20.ParseVector_range1, step2, cut_colon, hS]
  generalize (cutColon pt).1 = abv
  generalize (cutColon pt).2 = vv
  generalize O20.set ⟨u0, u1, u2, u3⟩ abv vv = r
  obtain ⟨⟨a0, a1, a2, a3⟩, e⟩ := r
  have t0 := tbl0
  have t1 := tbl1
  have t2 := tbl2
  have t10 := tbl10
  have hidx : ∀ g j, (GenV20.tbl_order.getD g [])[j]? = idx2 GenV20.tbl_order g j := fun _ _ => rfl
  by_cases h0 : slci = 0
  · subst h0
    simp only [Nat.beq_refl, Bool.true_or, cond_true, true_or, if_true]
    rw [index_some t0]
    cases hgi : idx2 GenV20.tbl_order 0 i with
    | none => rw [index_none' ((hidx 0 i).trans hgi)]; rfl
    | some tgt =>
      rw [index_some ((hidx 0 i).trans hgi)]
      simp only []
      rw [index_some t0]
      simp only [strEq_eq, errBeq_eq, beq_decide]
      by_cases h1 : abv = tgt <;> by_cases h2 : e = Go.errNil <;>
        by_cases h3 : i + 1 = (GenV20.tbl_order.getD 0 []).length <;>
        simp [-List.getD_eq_getElem?_getD, h1, h2, h3, next2, eOrder]
  by_cases h2' : slci = 2
  · subst h2'
    have hb : Nat.beq 2 0 = false := rfl
    simp only [hb, Nat.beq_refl, Bool.or_true, cond_true, or_true, if_true]
    rw [index_some t2]
    cases hgi : idx2 GenV20.tbl_order 2 i with
    | none => rw [index_none' ((hidx 2 i).trans hgi)]; rfl
    | some tgt =>
      rw [index_some ((hidx 2 i).trans hgi)]
      simp only []
      rw [index_some t2]
      simp only [strEq_eq, errBeq_eq, beq_decide]
      by_cases h1 : abv = tgt <;> by_cases h2 : e = Go.errNil <;>
        by_cases h3 : i + 1 = (GenV20.tbl_order.getD 2 []).length <;>
        simp [-List.getD_eq_getElem?_getD, h1, h2, h3, next2, eOrder]
  by_cases h1' : slci = 1
  · subst h1'
    have hb0 : Nat.beq 1 0 = false := rfl
    have hb2 : Nat.beq 1 2 = false := rfl
    have hn : ¬ ((1 : Nat) = 0 ∨ (1 : Nat) = 2) := by omega
    simp only [hb0, hb2, Bool.or_false, cond_false, Nat.beq_refl, cond_true, hn, if_false, if_true]
    rw [index_some t1]
    cases hgi : idx2 GenV20.tbl_order 1 i with
    | none =>
      rw [index_none' ((hidx 1 i).trans hgi)]
      have hi : i ≠ 0 := by intro h; subst h; exact t10 ((hidx 1 0).trans hgi)
      simp [hi, next2]
    | some tgt =>
      rw [index_some ((hidx 1 i).trans hgi)]
      by_cases hsw : i = 0 ∧ tgt ≠ abv
      · obtain ⟨hi, hne⟩ := hsw
        subst hi
        have hne' : ¬ abv = tgt := fun h => hne h.symm
        have hne2 : some tgt ≠ some abv := fun h => hne (Option.some.inj h)
        simp only [Nat.beq_refl, Bool.true_and, strEq_eq, hne, decide_false, Bool.not_false, cond_true]
        rw [index_some t2]
        cases hg2 : idx2 GenV20.tbl_order 2 0 with
        | none =>
          rw [index_none' ((hidx 2 0).trans hg2)]
          simp [hne2, next2]
        | some tgt' =>
          rw [index_some ((hidx 2 0).trans hg2)]
          rw [index_some t2]
          simp only [strEq_eq, errBeq_eq, beq_decide]
          by_cases h1 : abv = tgt'
          · subst h1
            by_cases h2 : e = Go.errNil <;>
              by_cases h3 : 0 + 1 = (GenV20.tbl_order.getD 2 []).length <;>
              simp [-List.getD_eq_getElem?_getD, h2, h3, next2, eOrder, hne, hne2]
          · by_cases h2 : e = Go.errNil <;>
              by_cases h3 : 0 + 1 = (GenV20.tbl_order.getD 2 []).length <;>
              simp [-List.getD_eq_getElem?_getD, h1, h2, h3, next2, eOrder, hne, hne2]
      · have hc : (Nat.beq i 0 && !Go.strEq tgt abv) = false := by
          simp only [beq_decide, strEq_eq]
          by_cases hi : i = 0
          · have : tgt = abv := by
              by_cases ht : tgt = abv
              · exact ht
              · exact absurd ⟨hi, ht⟩ hsw
            simp [hi, this]
          · simp [hi]
        have hm : ¬ (i = 0 ∧ some tgt ≠ some abv) := by
          intro ⟨hi, hne⟩
          exact hsw ⟨hi, fun h => hne (by rw [h])⟩
        simp only [hc, cond_false]
        rw [index_some t1]
        simp only [strEq_eq, errBeq_eq, beq_decide]
        by_cases h1 : abv = tgt <;> by_cases h2 : e = Go.errNil <;>
          by_cases h3 : i + 1 = (GenV20.tbl_order.getD 1 []).length <;>
          simp [-List.getD_eq_getElem?_getD, h1, h2, h3, next2, eOrder, hm, hsw]
  · have hb0 : Nat.beq slci 0 = false := GenParse.beq_false h0
    have hb1 : Nat.beq slci 1 = false := GenParse.beq_false h1'
    have hb2 : Nat.beq slci 2 = false := GenParse.beq_false h2'
    have hn : ¬ (slci = 0 ∨ slci = 2) := by omega
    simp [hb0, hb1, hb2, hn, h1', next2, eValue]

def dec20 : Nat × Nat × Nat × Nat → O20 | (a, b, c, d) => ⟨a, b, c, d⟩

/-- what `ParseVector` makes of the value of the range loop (`return` inside the loop, or the `i != 0` check) -/
def finish2 : Go.Ctl (Nat × Nat × Nat × Nat × Nat × Nat) (Go.Res (Nat × Nat × Nat × Nat)) → Res O20
  | .ret r => ofGo dec20 r
  | .brk _ => .panic
  | .next (_, u0, u1, u2, u3, i) => if i ≠ 0 then .err eTooShort else .ok ⟨u0, u1, u2, u3⟩

/-- **the range loop is `Model.loop2`** -/
theorem range_spec (els : List Bytes) : ∀ (slci i : Nat) (c : O20),
    finish2 (Go.forRange els (slci, c.u0, c.u1, c.u2, c.u3, i) GenP20.ParseVector_range1)
      = loop2 GenV20.tbl_order els slci i c := by
  induction els with
  | nil =>
    intro slci i c
    obtain ⟨u0, u1, u2, u3⟩ := c
    simp only [Go.forRange, finish2, loop2]
  | cons pt rest ih =>
    intro slci i c
    simp only [Go.forRange, loop2, range_step]
    cases step2 GenV20.tbl_order slci i c pt with
    | ok r =>
      obtain ⟨slci', i', c'⟩ := r
      simp only [next2]
      exact ih slci' i' c'
    | err e => rfl
    | panic => rfl

/-- **v2.0**: with any 14 stale strings in the pooled buffer, on every byte string, the regenerated parser returns
    the same object / the same error as the hand-written (pool-free) model, and panics exactly where the model
    does (nowhere: `Proofs/Parse2*`) -/
theorem genParse20 (buf : List Bytes) (hl : buf.length = 14) (s : Bytes) :
    ofGo dec20 (GenP20.ParseVector buf s) = parse20 s := by
  obtain ⟨h1, h2, h3⟩ := split14With_spec buf s hl
  unfold GenP20.ParseVector
  simp only []
  rw [split_spec buf s hl]
  simp only []
  rw [sliceTo_ok _ (by simp only [Nat.add_eq]; omega)]
  simp only [Nat.add_eq, h3]
  generalize hF : Go.forRange _ _ GenP20.ParseVector_range1 = F
  have := range_spec (splitN 13 s) 0 0 O20.zero
  rw [show (O20.zero.u0, O20.zero.u1, O20.zero.u2, O20.zero.u3, 0) = ((0 : Nat), (0 : Nat), (0 : Nat), (0 : Nat), (0 : Nat))
    from rfl, hF] at this
  unfold parse20
  rw [← this]
  cases F with
  | ret r => rfl
  | brk st => rfl
  | next st =>
    obtain ⟨slci, u0, u1, u2, u3, i⟩ := st
    simp only [finish2]
    by_cases hi : i = 0
    · simp [hi, ofGo, dec20]
    · simp [hi, GenParse.beq_false hi, ofGo, eTooShort]

end GenParse20
