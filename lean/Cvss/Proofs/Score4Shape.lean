import Cvss.Gen.V40
import Cvss.Base.F64
/-!
# v4.0 `Score`: the generated core, re-read in separable form

`ScoreH` below is the text of the generated `GenV40.Score_core` cut into named pieces
(`pre`: lookups of the MacroVector and of its next-lower MacroVectors; `loops`: the four nested
loops over the highest severity vectors; `post`: proportions, mean and rounding). The pieces are
copies of the generated text; `Score_core_eq_ScoreH` ties them to the generated definition **by
definitional unfolding** (`rfl`), so any change of the Go source that changes the generated
`Score_core` makes that theorem fail unless the pieces are changed in the same way; all tables,
`lookupMV`, `macroVector_core`, `mod_`, `severityDistance`, `getDepth*`, `roundup` … are still the
generated definitions (referenced by name, not copied).
-/
set_option linter.unusedVariables false
set_option maxRecDepth 100000
namespace Proofs.Score4
open GenV40

/-- state of the loop nest: the five severity distances -/
abbrev S := Nat × Nat × Nat × Nat × Nat

def DEAD : Nat := 0x7FF8DEAD00000000

/-- lookups: value of the MacroVector, number of existing lower MacroVectors, the five available distances -/
def pre (eq1 eq2 eq3 eq4 eq5 eq6 : Nat) (k : Nat → Nat → Nat → Nat → Nat → Nat → Nat → Nat) : Nat :=
  F64.flet (GenV40.lookupMV eq1 eq2 eq3 eq4 eq5 eq6) fun eqsv =>
  F64.flet (0 : Nat) fun lower =>
  F64.flet F64.NAN fun eq1nlm =>
  match (cond (Nat.blt eq1 (2 : Nat))
    (F64.flet (GenV40.lookupMV (Nat.add eq1 (1 : Nat)) eq2 eq3 eq4 eq5 eq6) fun eq1nlm =>
    F64.flet (Nat.add lower (1 : Nat)) fun lower =>
    (eq1nlm, lower))
    ((eq1nlm, lower))) with
  | (eq1nlm, lower) =>
  F64.flet F64.NAN fun eq2nlm =>
  match (cond (Nat.blt eq2 (1 : Nat))
    (F64.flet (GenV40.lookupMV eq1 (Nat.add eq2 (1 : Nat)) eq3 eq4 eq5 eq6) fun eq2nlm =>
    F64.flet (Nat.add lower (1 : Nat)) fun lower =>
    (eq2nlm, lower))
    ((eq2nlm, lower))) with
  | (eq2nlm, lower) =>
  F64.flet F64.NAN fun eq4nlm =>
  match (cond (Nat.blt eq4 (2 : Nat))
    (F64.flet (GenV40.lookupMV eq1 eq2 eq3 (Nat.add eq4 (1 : Nat)) eq5 eq6) fun eq4nlm =>
    F64.flet (Nat.add lower (1 : Nat)) fun lower =>
    (eq4nlm, lower))
    ((eq4nlm, lower))) with
  | (eq4nlm, lower) =>
  F64.flet F64.NAN fun eq5nlm =>
  match (cond (Nat.blt eq5 (2 : Nat))
    (F64.flet (GenV40.lookupMV eq1 eq2 eq3 eq4 (Nat.add eq5 (1 : Nat)) eq6) fun eq5nlm =>
    F64.flet (Nat.add lower (1 : Nat)) fun lower =>
    (eq5nlm, lower))
    ((eq5nlm, lower))) with
  | (eq5nlm, lower) =>
  F64.flet F64.NAN fun eq3eq6nlm =>
  match (cond ((Nat.beq eq3 (1 : Nat)) && (Nat.beq eq6 (1 : Nat)))
    (F64.flet (GenV40.lookupMV eq1 eq2 (Nat.add eq3 (1 : Nat)) eq4 eq5 eq6) fun eq3eq6nlm =>
    F64.flet (Nat.add lower (1 : Nat)) fun lower =>
    (eq3eq6nlm, lower))
    (match (cond ((Nat.beq eq3 (0 : Nat)) && (Nat.beq eq6 (1 : Nat)))
      (F64.flet (GenV40.lookupMV eq1 eq2 (Nat.add eq3 (1 : Nat)) eq4 eq5 eq6) fun eq3eq6nlm =>
      F64.flet (Nat.add lower (1 : Nat)) fun lower =>
      (eq3eq6nlm, lower))
      (match (cond ((Nat.beq eq3 (1 : Nat)) && (Nat.beq eq6 (0 : Nat)))
        (F64.flet (GenV40.lookupMV eq1 eq2 eq3 eq4 eq5 (Nat.add eq6 (1 : Nat))) fun eq3eq6nlm =>
        F64.flet (Nat.add lower (1 : Nat)) fun lower =>
        (eq3eq6nlm, lower))
        (match (cond ((Nat.beq eq3 (0 : Nat)) && (Nat.beq eq6 (0 : Nat)))
          (F64.flet (GenV40.lookupMV eq1 eq2 (Nat.add eq3 (1 : Nat)) eq4 eq5 eq6) fun eq3eq6nlm =>
          F64.flet (GenV40.lookupMV eq1 eq2 eq3 eq4 eq5 (Nat.add eq6 (1 : Nat))) fun eq6nlm =>
          match (cond (F64.lt eq3eq6nlm eq6nlm)
            (F64.flet eq6nlm fun eq3eq6nlm =>
            eq3eq6nlm)
            (eq3eq6nlm)) with
          | eq3eq6nlm =>
          F64.flet (Nat.add lower (1 : Nat)) fun lower =>
          (eq3eq6nlm, lower))
          ((eq3eq6nlm, lower))) with
        | (eq3eq6nlm, lower) =>
        (eq3eq6nlm, lower))) with
      | (eq3eq6nlm, lower) =>
      (eq3eq6nlm, lower))) with
    | (eq3eq6nlm, lower) =>
    (eq3eq6nlm, lower))) with
  | (eq3eq6nlm, lower) =>
  F64.flet (GenV40.abs_ (F64.sub eq1nlm eqsv)) fun eq1msd =>
  match (cond (F64.isNaN eq1msd)
    (F64.flet (0x0000000000000000 : Nat) fun eq1msd =>
    eq1msd)
    (eq1msd)) with
  | eq1msd =>
  F64.flet (GenV40.abs_ (F64.sub eq2nlm eqsv)) fun eq2msd =>
  match (cond (F64.isNaN eq2msd)
    (F64.flet (0x0000000000000000 : Nat) fun eq2msd =>
    eq2msd)
    (eq2msd)) with
  | eq2msd =>
  F64.flet (GenV40.abs_ (F64.sub eq3eq6nlm eqsv)) fun eq3eq6msd =>
  match (cond (F64.isNaN eq3eq6msd)
    (F64.flet (0x0000000000000000 : Nat) fun eq3eq6msd =>
    eq3eq6msd)
    (eq3eq6msd)) with
  | eq3eq6msd =>
  F64.flet (GenV40.abs_ (F64.sub eq4nlm eqsv)) fun eq4msd =>
  match (cond (F64.isNaN eq4msd)
    (F64.flet (0x0000000000000000 : Nat) fun eq4msd =>
    eq4msd)
    (eq4msd)) with
  | eq4msd =>
  F64.flet (GenV40.abs_ (F64.sub eq5nlm eqsv)) fun eq5msd =>
  match (cond (F64.isNaN eq5msd)
    (F64.flet (0x0000000000000000 : Nat) fun eq5msd =>
    eq5msd)
    (eq5msd)) with
  | eq5msd =>
  k eqsv lower eq1msd eq2msd eq3eq6msd eq4msd eq5msd

/-- body of the innermost loop -/
def body (avVal acVal atVal prVal uiVal vcVal viVal vaVal scVal siVal saVal crVal irVal arVal : Nat) (eq1mx eq2mx eq3eq6mx eq4mx : Nat) : S → Go.Ctl S Nat :=
  fun (eq1svdst, eq2svdst, eq3eq6svdst, eq4svdst, eq5svdst) =>
    F64.flet (Nat.mod (Nat.div (Nat.mod eq1mx (1000 : Nat)) (100 : Nat)) 256) fun avmx =>
    F64.flet (Nat.mod (Nat.div (Nat.mod eq1mx (100 : Nat)) (10 : Nat)) 256) fun prmx =>
    F64.flet (Nat.mod (Nat.div (Nat.mod eq1mx (10 : Nat)) (1 : Nat)) 256) fun uimx =>
    F64.flet (Nat.mod (Nat.div (Nat.mod eq2mx (100 : Nat)) (10 : Nat)) 256) fun acmx =>
    F64.flet (Nat.mod (Nat.div (Nat.mod eq2mx (10 : Nat)) (1 : Nat)) 256) fun atmx =>
    F64.flet (Nat.mod (Nat.div (Nat.mod eq3eq6mx (1000000 : Nat)) (100000 : Nat)) 256) fun vcmx =>
    F64.flet (Nat.mod (Nat.div (Nat.mod eq3eq6mx (100000 : Nat)) (10000 : Nat)) 256) fun vimx =>
    F64.flet (Nat.mod (Nat.div (Nat.mod eq3eq6mx (10000 : Nat)) (1000 : Nat)) 256) fun vamx =>
    F64.flet (Nat.mod (Nat.div (Nat.mod eq3eq6mx (1000 : Nat)) (100 : Nat)) 256) fun crmx =>
    F64.flet (Nat.mod (Nat.div (Nat.mod eq3eq6mx (100 : Nat)) (10 : Nat)) 256) fun irmx =>
    F64.flet (Nat.mod (Nat.div (Nat.mod eq3eq6mx (10 : Nat)) (1 : Nat)) 256) fun armx =>
    F64.flet (Nat.mod (Nat.div (Nat.mod eq4mx (1000 : Nat)) (100 : Nat)) 256) fun scmx =>
    F64.flet (Nat.mod (Nat.div (Nat.mod eq4mx (100 : Nat)) (10 : Nat)) 256) fun simx =>
    F64.flet (Nat.mod (Nat.div (Nat.mod eq4mx (10 : Nat)) (1 : Nat)) 256) fun samx =>
    F64.flet (GenV40.severityDistance (0 : Nat) avVal avmx) fun avsvdst =>
    F64.flet (GenV40.severityDistance (1 : Nat) acVal acmx) fun acsvdst =>
    F64.flet (GenV40.severityDistance (2 : Nat) atVal atmx) fun atsvdst =>
    F64.flet (GenV40.severityDistance (3 : Nat) prVal prmx) fun prsvdst =>
    F64.flet (GenV40.severityDistance (4 : Nat) uiVal uimx) fun uisvdst =>
    F64.flet (GenV40.severityDistance (5 : Nat) vcVal vcmx) fun vcsvdst =>
    F64.flet (GenV40.severityDistance (6 : Nat) viVal vimx) fun visvdst =>
    F64.flet (GenV40.severityDistance (7 : Nat) vaVal vamx) fun vasvdst =>
    F64.flet (GenV40.severityDistance (8 : Nat) scVal scmx) fun scsvdst =>
    F64.flet (GenV40.severityDistance (9 : Nat) siVal simx) fun sisvdst =>
    F64.flet (GenV40.severityDistance (10 : Nat) saVal samx) fun sasvdst =>
    F64.flet (GenV40.severityDistance (12 : Nat) crVal crmx) fun crsvdst =>
    F64.flet (GenV40.severityDistance (13 : Nat) irVal irmx) fun irsvdst =>
    F64.flet (GenV40.severityDistance (14 : Nat) arVal armx) fun arsvdst =>
    cond ((((((((((((((F64.lt avsvdst (0x0000000000000000 : Nat)) || (F64.lt prsvdst (0x0000000000000000 : Nat))) || (F64.lt uisvdst (0x0000000000000000 : Nat))) || (F64.lt acsvdst (0x0000000000000000 : Nat))) || (F64.lt atsvdst (0x0000000000000000 : Nat))) || (F64.lt vcsvdst (0x0000000000000000 : Nat))) || (F64.lt visvdst (0x0000000000000000 : Nat))) || (F64.lt vasvdst (0x0000000000000000 : Nat))) || (F64.lt scsvdst (0x0000000000000000 : Nat))) || (F64.lt sisvdst (0x0000000000000000 : Nat))) || (F64.lt sasvdst (0x0000000000000000 : Nat))) || (F64.lt crsvdst (0x0000000000000000 : Nat))) || (F64.lt irsvdst (0x0000000000000000 : Nat))) || (F64.lt arsvdst (0x0000000000000000 : Nat)))
      (Go.Ctl.next (eq1svdst, eq2svdst, eq3eq6svdst, eq4svdst, eq5svdst))
      (F64.flet (F64.add (F64.add avsvdst prsvdst) uisvdst) fun eq1svdst =>
      F64.flet (F64.add acsvdst atsvdst) fun eq2svdst =>
      F64.flet (F64.add (F64.add (F64.add (F64.add (F64.add vcsvdst visvdst) vasvdst) crsvdst) irsvdst) arsvdst) fun eq3eq6svdst =>
      F64.flet (F64.add (F64.add scsvdst sisvdst) sasvdst) fun eq4svdst =>
      F64.flet (0x0000000000000000 : Nat) fun eq5svdst =>
      Go.Ctl.brk (eq1svdst, eq2svdst, eq3eq6svdst, eq4svdst, eq5svdst))

/-- what the generated code does with the result of an inner loop -/
def wrap : Go.Ctl S Nat → Go.Ctl S Nat
  | Go.Ctl.ret r => Go.Ctl.ret r
  | Go.Ctl.brk (eq1svdst, eq2svdst, eq3eq6svdst, eq4svdst, eq5svdst) => Go.Ctl.ret (0x7FF8DEAD00000000 : Nat)
  | Go.Ctl.next (eq1svdst, eq2svdst, eq3eq6svdst, eq4svdst, eq5svdst) =>
    Go.Ctl.next (eq1svdst, eq2svdst, eq3eq6svdst, eq4svdst, eq5svdst)

/-- the loop nest over the highest severity vectors `L1 … L4` of the four EQ groups -/
def nest (f : Nat → Nat → Nat → Nat → S → Go.Ctl S Nat) (L1 L2 L3 L4 : List Nat) (st : S) : Go.Ctl S Nat :=
  Go.forRange L1 st (fun eq1mx (eq1svdst, eq2svdst, eq3eq6svdst, eq4svdst, eq5svdst) =>
    wrap (Go.forRange L2 (eq1svdst, eq2svdst, eq3eq6svdst, eq4svdst, eq5svdst) (fun eq2mx (eq1svdst, eq2svdst, eq3eq6svdst, eq4svdst, eq5svdst) =>
      wrap (Go.forRange L3 (eq1svdst, eq2svdst, eq3eq6svdst, eq4svdst, eq5svdst) (fun eq3eq6mx (eq1svdst, eq2svdst, eq3eq6svdst, eq4svdst, eq5svdst) =>
        wrap (Go.forRange L4 (eq1svdst, eq2svdst, eq3eq6svdst, eq4svdst, eq5svdst) (fun eq4mx (eq1svdst, eq2svdst, eq3eq6svdst, eq4svdst, eq5svdst) =>
          f eq1mx eq2mx eq3eq6mx eq4mx (eq1svdst, eq2svdst, eq3eq6svdst, eq4svdst, eq5svdst))))))))

/-- the loops of `Score` -/
def loops (avVal acVal atVal prVal uiVal vcVal viVal vaVal scVal siVal saVal crVal irVal arVal : Nat) (eq1 eq2 eq3 eq4 eq6 : Nat) : Go.Ctl S Nat :=
  nest (body avVal acVal atVal prVal uiVal vcVal viVal vaVal scVal siVal saVal crVal irVal arVal)
    (Go.idx (Go.idx GenV40.tbl_highestSeverityVectors (1 : Nat)) eq1)
    (Go.idx (Go.idx GenV40.tbl_highestSeverityVectors (2 : Nat)) eq2)
    (Go.idx (Go.idx GenV40.tbl_highestSeverityVectorsEQ3EQ6 eq3) eq6)
    (Go.idx (Go.idx GenV40.tbl_highestSeverityVectors (4 : Nat)) eq4)
    (0, 0, 0, 0, 0)

/-- proportions, mean, rounding -/
def post (eqsv lower eq1msd eq2msd eq3eq6msd eq4msd eq5msd eq1 eq2 eq3 eq4 eq5 eq6 : Nat) (eq1svdst eq2svdst eq3eq6svdst eq4svdst eq5svdst : Nat) : Nat :=
  F64.flet (F64.div eq1svdst (F64.add (GenV40.getDepth (1 : Nat) eq1) (0x3ff0000000000000 : Nat))) fun eq1prop =>
  F64.flet (F64.div eq2svdst (F64.add (GenV40.getDepth (2 : Nat) eq2) (0x3ff0000000000000 : Nat))) fun eq2prop =>
  F64.flet (F64.div eq3eq6svdst (F64.add (GenV40.getDepthEQ3EQ6 eq3 eq6) (0x3ff0000000000000 : Nat))) fun eq3eq6prop =>
  F64.flet (F64.div eq4svdst (F64.add (GenV40.getDepth (4 : Nat) eq4) (0x3ff0000000000000 : Nat))) fun eq4prop =>
  F64.flet (F64.div eq5svdst (F64.add (GenV40.getDepth (5 : Nat) eq5) (0x3ff0000000000000 : Nat))) fun eq5prop =>
  F64.flet (F64.mul eq1msd eq1prop) fun eq1msd =>
  F64.flet (F64.mul eq2msd eq2prop) fun eq2msd =>
  F64.flet (F64.mul eq3eq6msd eq3eq6prop) fun eq3eq6msd =>
  F64.flet (F64.mul eq4msd eq4prop) fun eq4msd =>
  F64.flet (F64.mul eq5msd eq5prop) fun eq5msd =>
  F64.flet (0x0000000000000000 : Nat) fun mean =>
  match (cond (!(Nat.beq lower (0 : Nat)))
    (F64.flet (F64.div (F64.add (F64.add (F64.add (F64.add eq1msd eq2msd) eq3eq6msd) eq4msd) eq5msd) (F64.ofNat lower)) fun mean =>
    mean)
    (mean)) with
  | mean =>
  (GenV40.roundup (F64.sub eqsv mean))

/-- end of `Score`: the loops never `return`, so the result is `post` on the final state -/
def fin (eqsv lower eq1msd eq2msd eq3eq6msd eq4msd eq5msd eq1 eq2 eq3 eq4 eq5 eq6 : Nat) : Go.Ctl S Nat → Nat
  | Go.Ctl.ret r => r
  | Go.Ctl.brk (eq1svdst, eq2svdst, eq3eq6svdst, eq4svdst, eq5svdst) => (0x7FF8DEAD00000000 : Nat)
  | Go.Ctl.next (eq1svdst, eq2svdst, eq3eq6svdst, eq4svdst, eq5svdst) =>
    post eqsv lower eq1msd eq2msd eq3eq6msd eq4msd eq5msd eq1 eq2 eq3 eq4 eq5 eq6 eq1svdst eq2svdst eq3eq6svdst eq4svdst eq5svdst

/-- `X` (not defined) is scored as `H` -/
def reqFix (v : Nat) : Nat := cond (Nat.beq v (0 : Nat)) (1 : Nat) v

/-- everything after the no-impact shortcut and the MacroVector computation -/
def scoreTail (avVal acVal atVal prVal uiVal vcVal viVal vaVal scVal siVal saVal crVal irVal arVal : Nat) (eq1 eq2 eq3 eq4 eq5 eq6 : Nat) : Nat :=
  pre eq1 eq2 eq3 eq4 eq5 eq6 fun eqsv lower eq1msd eq2msd eq3eq6msd eq4msd eq5msd =>
    fin eqsv lower eq1msd eq2msd eq3eq6msd eq4msd eq5msd eq1 eq2 eq3 eq4 eq5 eq6
      (loops avVal acVal atVal prVal uiVal vcVal viVal vaVal scVal siVal saVal crVal irVal arVal eq1 eq2 eq3 eq4 eq6)

/-- `Score_core`, re-read: effective codes, no-impact shortcut, requirement defaults, MacroVector, then `scoreTail` -/
def ScoreH (r0 r1 r2 r3 r4 r5 r6 r7 r8 r9 r10 r11 r12 r13 r14 r15 r16 r17 r18 r19 r20 r21 r22 r23 r24 r25 : Nat) : Nat :=
  F64.flet (GenV40.mod_ r0 r1) fun avVal =>
  F64.flet (GenV40.mod_ r2 r3) fun acVal =>
  F64.flet (GenV40.mod_ r4 r5) fun atVal =>
  F64.flet (GenV40.mod_ r6 r7) fun prVal =>
  F64.flet (GenV40.mod_ r8 r9) fun uiVal =>
  F64.flet (GenV40.mod_ r10 r11) fun vcVal =>
  F64.flet (GenV40.mod_ r12 r13) fun scVal =>
  F64.flet (GenV40.mod_ r14 r15) fun viVal =>
  F64.flet (GenV40.mod_ r16 r17) fun siVal =>
  F64.flet (GenV40.mod_ r18 r19) fun vaVal =>
  F64.flet (GenV40.mod_ r20 r21) fun saVal =>
  cond ((((((Nat.beq vcVal (2 : Nat)) && (Nat.beq viVal (2 : Nat))) && (Nat.beq vaVal (2 : Nat))) && (Nat.beq scVal (2 : Nat))) && (Nat.beq siVal (2 : Nat))) && (Nat.beq saVal (2 : Nat)))
    ((0x0000000000000000 : Nat))
    (F64.flet r22 fun crVal =>
    match (cond (Nat.beq crVal (0 : Nat))
      (F64.flet (1 : Nat) fun crVal =>
      crVal)
      (crVal)) with
    | crVal =>
    F64.flet r23 fun irVal =>
    match (cond (Nat.beq irVal (0 : Nat))
      (F64.flet (1 : Nat) fun irVal =>
      irVal)
      (irVal)) with
    | irVal =>
    F64.flet r24 fun arVal =>
    match (cond (Nat.beq arVal (0 : Nat))
      (F64.flet (1 : Nat) fun arVal =>
      arVal)
      (arVal)) with
    | arVal =>
    match (GenV40.macroVector_core r0 r1 r2 r3 r4 r5 r6 r7 r8 r9 r10 r11 r12 r13 r14 r15 r17 r16 r18 r19 r21 r20 r25 r22 r23 r24) with
    | (eq1, eq2, eq3, eq4, eq5, eq6) =>
    scoreTail avVal acVal atVal prVal uiVal vcVal viVal vaVal scVal siVal saVal crVal irVal arVal eq1 eq2 eq3 eq4 eq5 eq6)

/-- **Shape lemma**: the generated core is the separable reading, by definitional unfolding. -/
theorem Score_core_eq_ScoreH (r0 r1 r2 r3 r4 r5 r6 r7 r8 r9 r10 r11 r12 r13 r14 r15 r16 r17 r18 r19 r20 r21 r22 r23 r24 r25 : Nat) :
    GenV40.Score_core r0 r1 r2 r3 r4 r5 r6 r7 r8 r9 r10 r11 r12 r13 r14 r15 r16 r17 r18 r19 r20 r21 r22 r23 r24 r25 =
      ScoreH r0 r1 r2 r3 r4 r5 r6 r7 r8 r9 r10 r11 r12 r13 r14 r15 r16 r17 r18 r19 r20 r21 r22 r23 r24 r25 := by
  rfl

end Proofs.Score4
