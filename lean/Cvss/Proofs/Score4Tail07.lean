import Cvss.Proofs.Score4TailDef
/-! GENERATED chunk 7 of the v4.0 float-tail obligation: for each MacroVector below and every severity
distance tuple within its depths, `roundup(eqsv − mean)` (the generated tail) is `F64.tenth` of the Spec's
exact half-up value. Kernel evaluation (`decide +kernel`), 2924 tuples. -/
namespace Proofs.Score4
set_option maxHeartbeats 2000000 in
theorem tail_000210 : tailOkMV 0 0 0 2 1 0 = true := by decide +kernel
set_option maxHeartbeats 2000000 in
theorem tail_002011 : tailOkMV 0 0 2 0 1 1 = true := by decide +kernel
set_option maxHeartbeats 2000000 in
theorem tail_002211 : tailOkMV 0 0 2 2 1 1 = true := by decide +kernel
set_option maxHeartbeats 2000000 in
theorem tail_011201 : tailOkMV 0 1 1 2 0 1 = true := by decide +kernel
set_option maxHeartbeats 2000000 in
theorem tail_012111 : tailOkMV 0 1 2 1 1 1 = true := by decide +kernel
set_option maxHeartbeats 2000000 in
theorem tail_100210 : tailOkMV 1 0 0 2 1 0 = true := by decide +kernel
set_option maxHeartbeats 2000000 in
theorem tail_101020 : tailOkMV 1 0 1 0 2 0 = true := by decide +kernel
set_option maxHeartbeats 2000000 in
theorem tail_101120 : tailOkMV 1 0 1 1 2 0 = true := by decide +kernel
set_option maxHeartbeats 2000000 in
theorem tail_110011 : tailOkMV 1 1 0 0 1 1 = true := by decide +kernel
set_option maxHeartbeats 2000000 in
theorem tail_112011 : tailOkMV 1 1 2 0 1 1 = true := by decide +kernel
set_option maxHeartbeats 2000000 in
theorem tail_201220 : tailOkMV 2 0 1 2 2 0 = true := by decide +kernel
set_option maxHeartbeats 2000000 in
theorem tail_202111 : tailOkMV 2 0 2 1 1 1 = true := by decide +kernel
set_option maxHeartbeats 2000000 in
theorem tail_210110 : tailOkMV 2 1 0 1 1 0 = true := by decide +kernel
set_option maxHeartbeats 2000000 in
theorem tail_210211 : tailOkMV 2 1 0 2 1 1 = true := by decide +kernel
set_option maxHeartbeats 2000000 in
theorem tail_211101 : tailOkMV 2 1 1 1 0 1 = true := by decide +kernel
end Proofs.Score4
