import Cvss.Proofs.Score3MonoStr
import Cvss.Proofs.Bits30
import Cvss.Proofs.Bits31
import Cvss.Props.C03
/-!
# C12 (v3): transfer of the Spec monotonicity to the generated float model

`score = F64.tenth k` (C03) for both objects, `k₁ ≤ k₂` (Spec, `Score3MonoStr.lean`), and the doubles nearest to
`k/10` are ordered like `k` (5,151-pair kernel table on the soft-float `F64.le`).
-/
namespace Proofs.Score3.Mono
open Spec Spec.V3 Model
open EffKeys (upd cval)

def tenthLeTable : Bool :=
  (List.range 101).all fun k₂ => (List.range (Nat.succ k₂)).all fun k₁ => F64.le (F64.tenth k₁) (F64.tenth k₂)
set_option maxRecDepth 20000 in
set_option maxHeartbeats 4000000 in
theorem tenthLeTable_ok : tenthLeTable = true := by decide +kernel

/-- `k₁ ≤ k₂ ≤ 100 → tenth k₁ ≤ tenth k₂` as IEEE doubles -/
theorem tenth_le {k₁ k₂ : Nat} (h : k₁ ≤ k₂) (h2 : k₂ ≤ 100) : F64.le (F64.tenth k₁) (F64.tenth k₂) = true :=
  all_range (all_range tenthLeTable_ok k₂ (by omega)) k₁ (by omega)

/-- two scores that are the Spec's tenths compare like the tenths -/
theorem le_of_isScore {x y k₁ k₂ : Nat} (hx : Props.C03.IsScore x k₁) (hy : Props.C03.IsScore y k₂) (h : k₁ ≤ k₂) :
    F64.le x y = true := by
  rw [hx.2.1, hy.2.1]; exact tenth_le h hy.2.2.1

/-! the value strings of an object after `Set`, and their legality (Get/Set contract of `Bits30/31`) -/
theorem val_set31 (c : O31) {a v : Spec.Bytes} (l : legal ms a v = true) :
    (fun x => ((c.set a v).1.get x).1) = upd (fun x => (c.get x).1) a v := EffKeys.cval_set Bits31.contract31 c a v l
theorem val_set30 (c : O30) {a v : Spec.Bytes} (l : legal ms a v = true) :
    (fun x => ((c.set a v).1.get x).1) = upd (fun x => (c.get x).1) a v := EffKeys.cval_set Bits30.contract30 c a v l
theorem legalVec31 (c : O31) (h : c.wf = true) : LegalVec (fun x => (c.get x).1) := fun m hm => (Bits31.wf_get c h m hm).2.1
theorem legalVec30 (c : O30) (h : c.wf = true) : LegalVec (fun x => (c.get x).1) := fun m hm => (Bits30.wf_get c h m hm).2.1

end Proofs.Score3.Mono
