import Cvss.Gen.K40
import Cvss.Base.F64
/-!
# v4.0 `Score_ok` (the no-panic twin of `Score`): the generated core, re-read in separable form

`ScoreOkH` below is the text of the generated `GenK40.Score_ok_core` cut into named pieces
(`preK`: the `lookupMV_ok` guards and lookups of the MacroVector and of its next-lower MacroVectors, with the
four simple steps written through the combinator `stepK` and the EQ3+EQ6 step as `step36K`; `bodyK`: the body
of the innermost loop with the fourteen `severityDistance_ok` guards; `nestK`: the four nested loops with the
table-index guards and the verdict `okResult` in the loop state; `postK`: the `getDepth_ok` guards). The pieces
are copies of the generated text; `Score_ok_core_eq_ScoreOkH` ties them to the generated definition **by
definitional unfolding** (`rfl`), so any change of the Go source (or of `tools/okgen`) that changes the generated
twin makes that theorem fail unless the pieces are changed in the same way; all tables and all helper twins
(`lookupMV_ok`, `severityDistance_ok`, `index_ok`, `getDepth_ok`, `getDepthEQ3EQ6_ok`, `macroVector_core`, `mod_` …)
are still the generated definitions (referenced by name, not copied).
-/
set_option linter.unusedVariables false
set_option maxRecDepth 100000
namespace Proofs.NoPanic40
open GenK40

/-- state of the loop nest: the verdict and the five severity distances -/
abbrev SK := Bool × Nat × Nat × Nat × Nat × Nat

/-- one "next lower MacroVector" step: if `c`, guard `g` joins the verdict, the looked-up value `v` replaces
    the NaN placeholder and `lower` is incremented -/
def stepK (c g : Bool) (v : Nat) (okResult : Bool) (nlm lower : Nat) : Bool × Nat × Nat :=
  cond c
    (let okResult := (okResult && g)
    F64.flet v fun nlm =>
    F64.flet (Nat.add lower (1 : Nat)) fun lower =>
    (okResult, nlm, lower))
    ((okResult, nlm, lower))

/-- the EQ3+EQ6 step (four cases; the last one looks up two MacroVectors) -/
def step36K (eq1 eq2 eq3 eq4 eq5 eq6 : Nat) (okResult : Bool) (eq3eq6nlm lower : Nat) : Bool × Nat × Nat :=
  cond ((Nat.beq eq3 (1 : Nat)) && (Nat.beq eq6 (1 : Nat)))
    (let okResult := (okResult && (GenK40.lookupMV_ok eq1 eq2 (Nat.add eq3 (1 : Nat)) eq4 eq5 eq6))
    F64.flet (GenK40.lookupMV eq1 eq2 (Nat.add eq3 (1 : Nat)) eq4 eq5 eq6) fun eq3eq6nlm =>
    F64.flet (Nat.add lower (1 : Nat)) fun lower =>
    (okResult, eq3eq6nlm, lower))
    (match (cond ((Nat.beq eq3 (0 : Nat)) && (Nat.beq eq6 (1 : Nat)))
      (let okResult := (okResult && (GenK40.lookupMV_ok eq1 eq2 (Nat.add eq3 (1 : Nat)) eq4 eq5 eq6))
      F64.flet (GenK40.lookupMV eq1 eq2 (Nat.add eq3 (1 : Nat)) eq4 eq5 eq6) fun eq3eq6nlm =>
      F64.flet (Nat.add lower (1 : Nat)) fun lower =>
      (okResult, eq3eq6nlm, lower))
      (match (cond ((Nat.beq eq3 (1 : Nat)) && (Nat.beq eq6 (0 : Nat)))
        (let okResult := (okResult && (GenK40.lookupMV_ok eq1 eq2 eq3 eq4 eq5 (Nat.add eq6 (1 : Nat))))
        F64.flet (GenK40.lookupMV eq1 eq2 eq3 eq4 eq5 (Nat.add eq6 (1 : Nat))) fun eq3eq6nlm =>
        F64.flet (Nat.add lower (1 : Nat)) fun lower =>
        (okResult, eq3eq6nlm, lower))
        (match (cond ((Nat.beq eq3 (0 : Nat)) && (Nat.beq eq6 (0 : Nat)))
          (let okResult := (okResult && (GenK40.lookupMV_ok eq1 eq2 (Nat.add eq3 (1 : Nat)) eq4 eq5 eq6))
          F64.flet (GenK40.lookupMV eq1 eq2 (Nat.add eq3 (1 : Nat)) eq4 eq5 eq6) fun eq3eq6nlm =>
          let okResult := (okResult && (GenK40.lookupMV_ok eq1 eq2 eq3 eq4 eq5 (Nat.add eq6 (1 : Nat))))
          F64.flet (GenK40.lookupMV eq1 eq2 eq3 eq4 eq5 (Nat.add eq6 (1 : Nat))) fun eq6nlm =>
          match (cond (F64.lt eq3eq6nlm eq6nlm)
            (F64.flet eq6nlm fun eq3eq6nlm =>
            eq3eq6nlm)
            (eq3eq6nlm)) with
          | eq3eq6nlm =>
          F64.flet (Nat.add lower (1 : Nat)) fun lower =>
          (okResult, eq3eq6nlm, lower))
          ((okResult, eq3eq6nlm, lower))) with
        | (okResult, eq3eq6nlm, lower) =>
        (okResult, eq3eq6nlm, lower))) with
      | (okResult, eq3eq6nlm, lower) =>
      (okResult, eq3eq6nlm, lower))) with
    | (okResult, eq3eq6nlm, lower) =>
    (okResult, eq3eq6nlm, lower))

/-- lookups: verdict after the `lookupMV_ok` guards, value of the MacroVector, number of existing lower MacroVectors, the five available distances -/
def preK (okResult : Bool) (eq1 eq2 eq3 eq4 eq5 eq6 : Nat) (k : Bool → Nat → Nat → Nat → Nat → Nat → Nat → Nat → Bool) : Bool :=
  let okResult := (okResult && (GenK40.lookupMV_ok eq1 eq2 eq3 eq4 eq5 eq6))
  F64.flet (GenK40.lookupMV eq1 eq2 eq3 eq4 eq5 eq6) fun eqsv =>
  F64.flet (0 : Nat) fun lower =>
  F64.flet F64.NAN fun eq1nlm =>
  match stepK (Nat.blt eq1 (2 : Nat)) (GenK40.lookupMV_ok (Nat.add eq1 (1 : Nat)) eq2 eq3 eq4 eq5 eq6) (GenK40.lookupMV (Nat.add eq1 (1 : Nat)) eq2 eq3 eq4 eq5 eq6) okResult eq1nlm lower with
  | (okResult, eq1nlm, lower) =>
  F64.flet F64.NAN fun eq2nlm =>
  match stepK (Nat.blt eq2 (1 : Nat)) (GenK40.lookupMV_ok eq1 (Nat.add eq2 (1 : Nat)) eq3 eq4 eq5 eq6) (GenK40.lookupMV eq1 (Nat.add eq2 (1 : Nat)) eq3 eq4 eq5 eq6) okResult eq2nlm lower with
  | (okResult, eq2nlm, lower) =>
  F64.flet F64.NAN fun eq4nlm =>
  match stepK (Nat.blt eq4 (2 : Nat)) (GenK40.lookupMV_ok eq1 eq2 eq3 (Nat.add eq4 (1 : Nat)) eq5 eq6) (GenK40.lookupMV eq1 eq2 eq3 (Nat.add eq4 (1 : Nat)) eq5 eq6) okResult eq4nlm lower with
  | (okResult, eq4nlm, lower) =>
  F64.flet F64.NAN fun eq5nlm =>
  match stepK (Nat.blt eq5 (2 : Nat)) (GenK40.lookupMV_ok eq1 eq2 eq3 eq4 (Nat.add eq5 (1 : Nat)) eq6) (GenK40.lookupMV eq1 eq2 eq3 eq4 (Nat.add eq5 (1 : Nat)) eq6) okResult eq5nlm lower with
  | (okResult, eq5nlm, lower) =>
  F64.flet F64.NAN fun eq3eq6nlm =>
  match step36K eq1 eq2 eq3 eq4 eq5 eq6 okResult eq3eq6nlm lower with
  | (okResult, eq3eq6nlm, lower) =>
  F64.flet (GenK40.abs_ (F64.sub eq1nlm eqsv)) fun eq1msd =>
  match (cond (F64.isNaN eq1msd)
    (F64.flet (0x0000000000000000 : Nat) fun eq1msd =>
    eq1msd)
    (eq1msd)) with
  | eq1msd =>
  F64.flet (GenK40.abs_ (F64.sub eq2nlm eqsv)) fun eq2msd =>
  match (cond (F64.isNaN eq2msd)
    (F64.flet (0x0000000000000000 : Nat) fun eq2msd =>
    eq2msd)
    (eq2msd)) with
  | eq2msd =>
  F64.flet (GenK40.abs_ (F64.sub eq3eq6nlm eqsv)) fun eq3eq6msd =>
  match (cond (F64.isNaN eq3eq6msd)
    (F64.flet (0x0000000000000000 : Nat) fun eq3eq6msd =>
    eq3eq6msd)
    (eq3eq6msd)) with
  | eq3eq6msd =>
  F64.flet (GenK40.abs_ (F64.sub eq4nlm eqsv)) fun eq4msd =>
  match (cond (F64.isNaN eq4msd)
    (F64.flet (0x0000000000000000 : Nat) fun eq4msd =>
    eq4msd)
    (eq4msd)) with
  | eq4msd =>
  F64.flet (GenK40.abs_ (F64.sub eq5nlm eqsv)) fun eq5msd =>
  match (cond (F64.isNaN eq5msd)
    (F64.flet (0x0000000000000000 : Nat) fun eq5msd =>
    eq5msd)
    (eq5msd)) with
  | eq5msd =>
  k okResult eqsv lower eq1msd eq2msd eq3eq6msd eq4msd eq5msd

/-- body of the innermost loop: fourteen `severityDistance_ok` guards, then `continue` or overwrite-and-`break` -/
def bodyK (avVal acVal atVal prVal uiVal vcVal viVal vaVal scVal siVal saVal crVal irVal arVal : Nat) (eq1mx eq2mx eq3eq6mx eq4mx : Nat) : SK → Go.Ctl SK Bool :=
  fun (okResult, eq1svdst, eq2svdst, eq3eq6svdst, eq4svdst, eq5svdst) =>
    F64.flet (Nat.mod (Nat.div (Nat.mod eq1mx (1000 : Nat)) (100 : Nat)) 256) fun avmx =>
    F64.flet (Nat.mod (Nat.div (Nat.mod eq1mx (100 : Nat)) (10 : Nat)) 256) fun prmx =>
    F64.flet (Nat.mod (Nat.div (Nat.mod eq1mx (10 : Nat)) (1 : Nat)) 256) fun uimx =>
    F64.flet (Nat.mod (Nat.div (Nat.mod eq2mx (100 : Nat)) (10 : Nat)) 256) fun acmx =>
    F64.flet (Nat.mod (Nat.div (Nat.mod eq2mx (10 : Nat)) (1 : Nat)) 256) fun atmx =>
    F64.flet (Nat.mod (Nat.div (Nat.mod eq3eq6mx (1000000 : Nat)) (100000 : Nat)) 256) fun vcmx =>
    F64.flet (Nat.mod (Nat.div (Nat.mod eq3eq6mx (100000 : Nat)) (10000 : Nat)) 256) fun vimx =>
    F64.flet (Nat.mod (Nat.div (Nat.mod eq3eq6mx (10000 : Nat)) (1000 : Nat)) 256) fun vamx =>
    F64.flet (Nat.mod (Nat.div (Nat.mod eq3eq6mx (1000 : Nat)) (100 : Nat)) 256) fun crmx =>
    F64.flet (Nat.mod (Nat.div (Nat.mod eq3eq6mx (100 : Nat)) (10 : Nat)) 256) fun irmx =>
    F64.flet (Nat.mod (Nat.div (Nat.mod eq3eq6mx (10 : Nat)) (1 : Nat)) 256) fun armx =>
    F64.flet (Nat.mod (Nat.div (Nat.mod eq4mx (1000 : Nat)) (100 : Nat)) 256) fun scmx =>
    F64.flet (Nat.mod (Nat.div (Nat.mod eq4mx (100 : Nat)) (10 : Nat)) 256) fun simx =>
    F64.flet (Nat.mod (Nat.div (Nat.mod eq4mx (10 : Nat)) (1 : Nat)) 256) fun samx =>
    let okResult := (okResult && (GenK40.severityDistance_ok (0 : Nat) avVal avmx))
    F64.flet (GenK40.severityDistance (0 : Nat) avVal avmx) fun avsvdst =>
    let okResult := (okResult && (GenK40.severityDistance_ok (1 : Nat) acVal acmx))
    F64.flet (GenK40.severityDistance (1 : Nat) acVal acmx) fun acsvdst =>
    let okResult := (okResult && (GenK40.severityDistance_ok (2 : Nat) atVal atmx))
    F64.flet (GenK40.severityDistance (2 : Nat) atVal atmx) fun atsvdst =>
    let okResult := (okResult && (GenK40.severityDistance_ok (3 : Nat) prVal prmx))
    F64.flet (GenK40.severityDistance (3 : Nat) prVal prmx) fun prsvdst =>
    let okResult := (okResult && (GenK40.severityDistance_ok (4 : Nat) uiVal uimx))
    F64.flet (GenK40.severityDistance (4 : Nat) uiVal uimx) fun uisvdst =>
    let okResult := (okResult && (GenK40.severityDistance_ok (5 : Nat) vcVal vcmx))
    F64.flet (GenK40.severityDistance (5 : Nat) vcVal vcmx) fun vcsvdst =>
    let okResult := (okResult && (GenK40.severityDistance_ok (6 : Nat) viVal vimx))
    F64.flet (GenK40.severityDistance (6 : Nat) viVal vimx) fun visvdst =>
    let okResult := (okResult && (GenK40.severityDistance_ok (7 : Nat) vaVal vamx))
    F64.flet (GenK40.severityDistance (7 : Nat) vaVal vamx) fun vasvdst =>
    let okResult := (okResult && (GenK40.severityDistance_ok (8 : Nat) scVal scmx))
    F64.flet (GenK40.severityDistance (8 : Nat) scVal scmx) fun scsvdst =>
    let okResult := (okResult && (GenK40.severityDistance_ok (9 : Nat) siVal simx))
    F64.flet (GenK40.severityDistance (9 : Nat) siVal simx) fun sisvdst =>
    let okResult := (okResult && (GenK40.severityDistance_ok (10 : Nat) saVal samx))
    F64.flet (GenK40.severityDistance (10 : Nat) saVal samx) fun sasvdst =>
    let okResult := (okResult && (GenK40.severityDistance_ok (12 : Nat) crVal crmx))
    F64.flet (GenK40.severityDistance (12 : Nat) crVal crmx) fun crsvdst =>
    let okResult := (okResult && (GenK40.severityDistance_ok (13 : Nat) irVal irmx))
    F64.flet (GenK40.severityDistance (13 : Nat) irVal irmx) fun irsvdst =>
    let okResult := (okResult && (GenK40.severityDistance_ok (14 : Nat) arVal armx))
    F64.flet (GenK40.severityDistance (14 : Nat) arVal armx) fun arsvdst =>
    cond ((((((((((((((F64.lt avsvdst (0x0000000000000000 : Nat)) || (F64.lt prsvdst (0x0000000000000000 : Nat))) || (F64.lt uisvdst (0x0000000000000000 : Nat))) || (F64.lt acsvdst (0x0000000000000000 : Nat))) || (F64.lt atsvdst (0x0000000000000000 : Nat))) || (F64.lt vcsvdst (0x0000000000000000 : Nat))) || (F64.lt visvdst (0x0000000000000000 : Nat))) || (F64.lt vasvdst (0x0000000000000000 : Nat))) || (F64.lt scsvdst (0x0000000000000000 : Nat))) || (F64.lt sisvdst (0x0000000000000000 : Nat))) || (F64.lt sasvdst (0x0000000000000000 : Nat))) || (F64.lt crsvdst (0x0000000000000000 : Nat))) || (F64.lt irsvdst (0x0000000000000000 : Nat))) || (F64.lt arsvdst (0x0000000000000000 : Nat)))
      (Go.Ctl.next (okResult, eq1svdst, eq2svdst, eq3eq6svdst, eq4svdst, eq5svdst))
      (F64.flet (F64.add (F64.add avsvdst prsvdst) uisvdst) fun eq1svdst =>
      F64.flet (F64.add acsvdst atsvdst) fun eq2svdst =>
      F64.flet (F64.add (F64.add (F64.add (F64.add (F64.add vcsvdst visvdst) vasvdst) crsvdst) irsvdst) arsvdst) fun eq3eq6svdst =>
      F64.flet (F64.add (F64.add scsvdst sisvdst) sasvdst) fun eq4svdst =>
      F64.flet (0x0000000000000000 : Nat) fun eq5svdst =>
      Go.Ctl.brk (okResult, eq1svdst, eq2svdst, eq3eq6svdst, eq4svdst, eq5svdst))

/-- what the generated code does with the result of an inner loop -/
def wrapK : Go.Ctl SK Bool → Go.Ctl SK Bool
  | Go.Ctl.ret r => Go.Ctl.ret r
  | Go.Ctl.brk (okResult, eq1svdst, eq2svdst, eq3eq6svdst, eq4svdst, eq5svdst) => Go.Ctl.ret false
  | Go.Ctl.next (okResult, eq1svdst, eq2svdst, eq3eq6svdst, eq4svdst, eq5svdst) =>
    Go.Ctl.next (okResult, eq1svdst, eq2svdst, eq3eq6svdst, eq4svdst, eq5svdst)

/-- the loop nest over the highest severity vectors `L1 … L4` of the four EQ groups; `G2 G3 G4` are the table-index guards of the three inner `range` expressions -/
def nestK (f : Nat → Nat → Nat → Nat → SK → Go.Ctl SK Bool) (G2 G3 G4 : Bool) (L1 L2 L3 L4 : List Nat) (st : SK) : Go.Ctl SK Bool :=
  Go.forRange L1 st (fun eq1mx (okResult, eq1svdst, eq2svdst, eq3eq6svdst, eq4svdst, eq5svdst) =>
    let okResult := (okResult && G2)
    wrapK (Go.forRange L2 (okResult, eq1svdst, eq2svdst, eq3eq6svdst, eq4svdst, eq5svdst) (fun eq2mx (okResult, eq1svdst, eq2svdst, eq3eq6svdst, eq4svdst, eq5svdst) =>
      let okResult := (okResult && G3)
      wrapK (Go.forRange L3 (okResult, eq1svdst, eq2svdst, eq3eq6svdst, eq4svdst, eq5svdst) (fun eq3eq6mx (okResult, eq1svdst, eq2svdst, eq3eq6svdst, eq4svdst, eq5svdst) =>
        let okResult := (okResult && G4)
        wrapK (Go.forRange L4 (okResult, eq1svdst, eq2svdst, eq3eq6svdst, eq4svdst, eq5svdst) (fun eq4mx (okResult, eq1svdst, eq2svdst, eq3eq6svdst, eq4svdst, eq5svdst) =>
          f eq1mx eq2mx eq3eq6mx eq4mx (okResult, eq1svdst, eq2svdst, eq3eq6svdst, eq4svdst, eq5svdst))))))))

/-- the `getDepth_ok` guards (the float computations beside them do not touch the verdict) -/
def postK (okResult : Bool) (eq1 eq2 eq3 eq4 eq5 eq6 lower eq1msd eq2msd eq3eq6msd eq4msd eq5msd : Nat) (eq1svdst eq2svdst eq3eq6svdst eq4svdst eq5svdst : Nat) : Bool :=
  let okResult := (okResult && (GenK40.getDepth_ok (1 : Nat) eq1))
  F64.flet (F64.div eq1svdst (F64.add (GenK40.getDepth (1 : Nat) eq1) (0x3ff0000000000000 : Nat))) fun eq1prop =>
  let okResult := (okResult && (GenK40.getDepth_ok (2 : Nat) eq2))
  F64.flet (F64.div eq2svdst (F64.add (GenK40.getDepth (2 : Nat) eq2) (0x3ff0000000000000 : Nat))) fun eq2prop =>
  let okResult := (okResult && (GenK40.getDepthEQ3EQ6_ok eq3 eq6))
  F64.flet (F64.div eq3eq6svdst (F64.add (GenK40.getDepthEQ3EQ6 eq3 eq6) (0x3ff0000000000000 : Nat))) fun eq3eq6prop =>
  let okResult := (okResult && (GenK40.getDepth_ok (4 : Nat) eq4))
  F64.flet (F64.div eq4svdst (F64.add (GenK40.getDepth (4 : Nat) eq4) (0x3ff0000000000000 : Nat))) fun eq4prop =>
  let okResult := (okResult && (GenK40.getDepth_ok (5 : Nat) eq5))
  F64.flet (F64.div eq5svdst (F64.add (GenK40.getDepth (5 : Nat) eq5) (0x3ff0000000000000 : Nat))) fun eq5prop =>
  F64.flet (F64.mul eq1msd eq1prop) fun eq1msd =>
  F64.flet (F64.mul eq2msd eq2prop) fun eq2msd =>
  F64.flet (F64.mul eq3eq6msd eq3eq6prop) fun eq3eq6msd =>
  F64.flet (F64.mul eq4msd eq4prop) fun eq4msd =>
  F64.flet (F64.mul eq5msd eq5prop) fun eq5msd =>
  F64.flet (0x0000000000000000 : Nat) fun mean =>
  match (cond (!(Nat.beq lower (0 : Nat)))
    (F64.flet (F64.div (F64.add (F64.add (F64.add (F64.add eq1msd eq2msd) eq3eq6msd) eq4msd) eq5msd) (F64.ofNat lower)) fun mean =>
    mean)
    (mean)) with
  | mean =>
  okResult

/-- end of `Score_ok`: the loops never `return`, so the result is `postK` on the final state -/
def finK (eq1 eq2 eq3 eq4 eq5 eq6 lower eq1msd eq2msd eq3eq6msd eq4msd eq5msd : Nat) : Go.Ctl SK Bool → Bool
  | Go.Ctl.ret r => r
  | Go.Ctl.brk (okResult, eq1svdst, eq2svdst, eq3eq6svdst, eq4svdst, eq5svdst) => false
  | Go.Ctl.next (okResult, eq1svdst, eq2svdst, eq3eq6svdst, eq4svdst, eq5svdst) =>
    postK okResult eq1 eq2 eq3 eq4 eq5 eq6 lower eq1msd eq2msd eq3eq6msd eq4msd eq5msd eq1svdst eq2svdst eq3eq6svdst eq4svdst eq5svdst

/-- the loops of `Score_ok` with the first table-index guard, then the end -/
def loopsK (okResult : Bool) (avVal acVal atVal prVal uiVal vcVal viVal vaVal scVal siVal saVal crVal irVal arVal : Nat) (eq1 eq2 eq3 eq4 eq5 eq6 lower eq1msd eq2msd eq3eq6msd eq4msd eq5msd : Nat) : Bool :=
  F64.flet (0 : Nat) fun eq1svdst =>
  F64.flet (0 : Nat) fun eq2svdst =>
  F64.flet (0 : Nat) fun eq3eq6svdst =>
  F64.flet (0 : Nat) fun eq4svdst =>
  F64.flet (0 : Nat) fun eq5svdst =>
  let okResult := (okResult && ((Nat.blt (1 : Nat) (List.length GenK40.tbl_highestSeverityVectors)) && (Nat.blt eq1 (List.length (Go.idx GenK40.tbl_highestSeverityVectors (1 : Nat))))))
  finK eq1 eq2 eq3 eq4 eq5 eq6 lower eq1msd eq2msd eq3eq6msd eq4msd eq5msd
    (nestK (bodyK avVal acVal atVal prVal uiVal vcVal viVal vaVal scVal siVal saVal crVal irVal arVal)
      ((Nat.blt (2 : Nat) (List.length GenK40.tbl_highestSeverityVectors)) && (Nat.blt eq2 (List.length (Go.idx GenK40.tbl_highestSeverityVectors (2 : Nat)))))
      ((Nat.blt eq3 (List.length GenK40.tbl_highestSeverityVectorsEQ3EQ6)) && (Nat.blt eq6 (List.length (Go.idx GenK40.tbl_highestSeverityVectorsEQ3EQ6 eq3))))
      ((Nat.blt (4 : Nat) (List.length GenK40.tbl_highestSeverityVectors)) && (Nat.blt eq4 (List.length (Go.idx GenK40.tbl_highestSeverityVectors (4 : Nat)))))
      (Go.idx (Go.idx GenK40.tbl_highestSeverityVectors (1 : Nat)) eq1)
      (Go.idx (Go.idx GenK40.tbl_highestSeverityVectors (2 : Nat)) eq2)
      (Go.idx (Go.idx GenK40.tbl_highestSeverityVectorsEQ3EQ6 eq3) eq6)
      (Go.idx (Go.idx GenK40.tbl_highestSeverityVectors (4 : Nat)) eq4)
      (okResult, eq1svdst, eq2svdst, eq3eq6svdst, eq4svdst, eq5svdst))

/-- everything after the no-impact shortcut and the MacroVector computation -/
def tailK (okResult : Bool) (avVal acVal atVal prVal uiVal vcVal viVal vaVal scVal siVal saVal crVal irVal arVal : Nat) (eq1 eq2 eq3 eq4 eq5 eq6 : Nat) : Bool :=
  preK okResult eq1 eq2 eq3 eq4 eq5 eq6 fun okResult eqsv lower eq1msd eq2msd eq3eq6msd eq4msd eq5msd =>
    loopsK okResult avVal acVal atVal prVal uiVal vcVal viVal vaVal scVal siVal saVal crVal irVal arVal eq1 eq2 eq3 eq4 eq5 eq6 lower eq1msd eq2msd eq3eq6msd eq4msd eq5msd

/-- `Score_ok_core`, re-read: effective codes, no-impact shortcut, requirement defaults, MacroVector, then `tailK` -/
def ScoreOkH (r0 r1 r2 r3 r4 r5 r6 r7 r8 r9 r10 r11 r12 r13 r14 r15 r16 r17 r18 r19 r20 r21 r22 r23 r24 r25 : Nat) : Bool :=
  let okResult := true
  F64.flet (GenK40.mod_ r0 r1) fun avVal =>
  F64.flet (GenK40.mod_ r2 r3) fun acVal =>
  F64.flet (GenK40.mod_ r4 r5) fun atVal =>
  F64.flet (GenK40.mod_ r6 r7) fun prVal =>
  F64.flet (GenK40.mod_ r8 r9) fun uiVal =>
  F64.flet (GenK40.mod_ r10 r11) fun vcVal =>
  F64.flet (GenK40.mod_ r12 r13) fun scVal =>
  F64.flet (GenK40.mod_ r14 r15) fun viVal =>
  F64.flet (GenK40.mod_ r16 r17) fun siVal =>
  F64.flet (GenK40.mod_ r18 r19) fun vaVal =>
  F64.flet (GenK40.mod_ r20 r21) fun saVal =>
  cond ((((((Nat.beq vcVal (2 : Nat)) && (Nat.beq viVal (2 : Nat))) && (Nat.beq vaVal (2 : Nat))) && (Nat.beq scVal (2 : Nat))) && (Nat.beq siVal (2 : Nat))) && (Nat.beq saVal (2 : Nat)))
    (okResult)
    (F64.flet r22 fun crVal =>
    match (cond (Nat.beq crVal (0 : Nat))
      (F64.flet (1 : Nat) fun crVal =>
      crVal)
      (crVal)) with
    | crVal =>
    F64.flet r23 fun irVal =>
    match (cond (Nat.beq irVal (0 : Nat))
      (F64.flet (1 : Nat) fun irVal =>
      irVal)
      (irVal)) with
    | irVal =>
    F64.flet r24 fun arVal =>
    match (cond (Nat.beq arVal (0 : Nat))
      (F64.flet (1 : Nat) fun arVal =>
      arVal)
      (arVal)) with
    | arVal =>
    match (GenK40.macroVector_core r0 r1 r2 r3 r4 r5 r6 r7 r8 r9 r10 r11 r12 r13 r14 r15 r17 r16 r18 r19 r21 r20 r25 r22 r23 r24) with
    | (eq1, eq2, eq3, eq4, eq5, eq6) =>
    tailK okResult avVal acVal atVal prVal uiVal vcVal viVal vaVal scVal siVal saVal crVal irVal arVal eq1 eq2 eq3 eq4 eq5 eq6)

/-- **Shape lemma**: the generated twin is the separable reading, by definitional unfolding. -/
theorem Score_ok_core_eq_ScoreOkH (r0 r1 r2 r3 r4 r5 r6 r7 r8 r9 r10 r11 r12 r13 r14 r15 r16 r17 r18 r19 r20 r21 r22 r23 r24 r25 : Nat) :
    GenK40.Score_ok_core r0 r1 r2 r3 r4 r5 r6 r7 r8 r9 r10 r11 r12 r13 r14 r15 r16 r17 r18 r19 r20 r21 r22 r23 r24 r25 =
      ScoreOkH r0 r1 r2 r3 r4 r5 r6 r7 r8 r9 r10 r11 r12 r13 r14 r15 r16 r17 r18 r19 r20 r21 r22 r23 r24 r25 := by
  rfl

end Proofs.NoPanic40
