import Cvss.Proofs.Score2Base
import Cvss.Proofs.Score2F
import Cvss.Proofs.Score2T20
import Cvss.Proofs.Score2T21
import Cvss.Proofs.Score2T22
import Cvss.Proofs.Score2T23
import Cvss.Proofs.Score2T2Mono
import Cvss.Proofs.Score2RB00
import Cvss.Proofs.Score2RB01
import Cvss.Proofs.Score2RB02
import Cvss.Proofs.Score2RB10
import Cvss.Proofs.Score2RB11
import Cvss.Proofs.Score2RB12
import Cvss.Proofs.Score2RB20
import Cvss.Proofs.Score2RB21
import Cvss.Proofs.Score2RB22
/-!
# C05/C11/C12 (v2.0): the enumeration chunks assembled into universally quantified tables

Nothing is evaluated here; the chunk theorems (`decide +kernel`) are only re-packaged as `∀ codes in range, …`.
-/
namespace Proofs.Score2
open Spec.V2

theorem allW_elim {p : Nat → Nat → Nat → Bool} (h : allW p = true) :
    ∀ e, e < 5 → ∀ rl, rl < 5 → ∀ rc, rc < 4 → p e rl rc = true := by
  intro e he rl hrl rc hrc
  exact all_range (all_range (all_range h e he) rl hrl) rc hrc

theorem lt3 {n : Nat} (h : n < 3) : n = 0 ∨ n = 1 ∨ n = 2 := by omega

/-! ## Base -/
theorem base_tbl {c i a av ac au : Nat} (hc : c < 3) (hi : i < 3) (ha : a < 3) (hav : av < 3) (hac : ac < 3)
    (hau : au < 3) : okBase c i a av ac au = true :=
  all_range (all_range (all_range (all_range (all_range (all_range base_chunk c hc) i hi) a ha) av hav) ac hac) au hau

theorem sub_tbl {p q r : Nat} (hp : p < 3) (hq : q < 3) (hr : r < 3) :
    (closeTo (GenV20.Impact_core p q r) (XI p q r) && closeTo (GenV20.Exploitability_core p q r) (XE p q r)) = true :=
  all_range (all_range (all_range sub_chunk p hp) q hq) r hr

theorem monoBase_tbl {c i a av ac au : Nat} (hc : c < 3) (hi : i < 3) (ha : a < 3) (hav : av < 3) (hac : ac < 3)
    (hau : au < 3) : monoBase c i a av ac au = true :=
  all_range (all_range (all_range (all_range (all_range (all_range mono_base_chunk c hc) i hi) a ha) av hav) ac hac) au hau

/-! ## recomputed base -/
theorem rb_all : ∀ (c i a : Nat), c < 3 → i < 3 → a < 3 → rbChunk c i a = true
  | 0, 0, 0, _, _, _ => rb_chunk_0_0_0
  | 0, 0, 1, _, _, _ => rb_chunk_0_0_1
  | 0, 0, 2, _, _, _ => rb_chunk_0_0_2
  | 0, 1, 0, _, _, _ => rb_chunk_0_1_0
  | 0, 1, 1, _, _, _ => rb_chunk_0_1_1
  | 0, 1, 2, _, _, _ => rb_chunk_0_1_2
  | 0, 2, 0, _, _, _ => rb_chunk_0_2_0
  | 0, 2, 1, _, _, _ => rb_chunk_0_2_1
  | 0, 2, 2, _, _, _ => rb_chunk_0_2_2
  | 1, 0, 0, _, _, _ => rb_chunk_1_0_0
  | 1, 0, 1, _, _, _ => rb_chunk_1_0_1
  | 1, 0, 2, _, _, _ => rb_chunk_1_0_2
  | 1, 1, 0, _, _, _ => rb_chunk_1_1_0
  | 1, 1, 1, _, _, _ => rb_chunk_1_1_1
  | 1, 1, 2, _, _, _ => rb_chunk_1_1_2
  | 1, 2, 0, _, _, _ => rb_chunk_1_2_0
  | 1, 2, 1, _, _, _ => rb_chunk_1_2_1
  | 1, 2, 2, _, _, _ => rb_chunk_1_2_2
  | 2, 0, 0, _, _, _ => rb_chunk_2_0_0
  | 2, 0, 1, _, _, _ => rb_chunk_2_0_1
  | 2, 0, 2, _, _, _ => rb_chunk_2_0_2
  | 2, 1, 0, _, _, _ => rb_chunk_2_1_0
  | 2, 1, 1, _, _, _ => rb_chunk_2_1_1
  | 2, 1, 2, _, _, _ => rb_chunk_2_1_2
  | 2, 2, 0, _, _, _ => rb_chunk_2_2_0
  | 2, 2, 1, _, _, _ => rb_chunk_2_2_1
  | 2, 2, 2, _, _, _ => rb_chunk_2_2_2
  | c + 3, _, _, h, _, _ => absurd h (by omega)
  | _, i + 3, _, _, h, _ => absurd h (by omega)
  | _, _, a + 3, _, _, h => absurd h (by omega)

theorem rb_tbl {c i a cr ir ar av ac au : Nat} (hc : c < 3) (hi : i < 3) (ha : a < 3) (hcr : cr < 4) (hir : ir < 4)
    (har : ar < 4) (hav : av < 3) (hac : ac < 3) (hau : au < 3) : okRB c i a cr ir ar av ac au = true :=
  all_range (all_range (all_range (all_range (all_range (all_range (rb_all c i a hc hi ha) cr hcr) ir hir) ar har) av hav) ac hac) au hau

/-! ## inputs of the later phases -/
theorem bitsOK_cases {fl : Nat} {k : Int} (h : bitsOK fl k = true) : fl = tenthI k ∨ (k = 0 ∧ fl = NEG0) := by
  simp only [bitsOK, Bool.or_eq_true, Bool.and_eq_true, decide_eq_true_eq] at h
  rcases h with h | ⟨h1, h2⟩
  · exact Or.inl (Nat.eq_of_beq_eq_true h)
  · exact Or.inr ⟨h1, Nat.eq_of_beq_eq_true h2⟩

theorem inK_eq (j : Nat) : inK j = (j : Int) - 2 := by
  simp [inK, Int.subNatNat_eq_coe]

/-- every `kb` with `-2 ≤ kb ≤ 100` is input number `j < 103` -/
theorem exists_inK {kb : Int} (h1 : -2 ≤ kb) (h2 : kb ≤ 100) : ∃ j, j < 103 ∧ inK j = kb :=
  ⟨(kb + 2).toNat, by omega, by rw [inK_eq]; omega⟩

/-! ## temporal step -/
theorem t2_part {j0 n : Nat} (h : t2Chunk j0 n = true) {j : Nat} (h0 : j0 ≤ j) (h1 : j < j0 + n) :
    allW (okT2 (tenthI (inK j)) (inK j)) = true := by
  have := all_range h (j - j0) (by omega)
  simp only [iflet_eq, flet_eq] at this
  have e : Nat.add j0 (j - j0) = j := by show j0 + (j - j0) = j; omega
  rwa [e] at this

theorem t2_in {j : Nat} (hj : j < 103) : allW (okT2 (tenthI (inK j)) (inK j)) = true := by
  by_cases h1 : j < 26
  · exact t2_part t2_chunk_0 (Nat.zero_le _) (by omega)
  by_cases h2 : j < 52
  · exact t2_part t2_chunk_1 (by omega) (by omega)
  by_cases h3 : j < 78
  · exact t2_part t2_chunk_2 (by omega) (by omega)
  · exact t2_part t2_chunk_3 (by omega) (by omega)

theorem t2_tbl {kb : Int} (h1 : -2 ≤ kb) (h2 : kb ≤ 100) {fl : Nat} (hb : bitsOK fl kb = true)
    {e rl rc : Nat} (he : e < 5) (hrl : rl < 5) (hrc : rc < 4) : okT2 fl kb e rl rc = true := by
  rcases bitsOK_cases hb with rfl | ⟨rfl, rfl⟩
  · obtain ⟨j, hj, rfl⟩ := exists_inK h1 h2
    exact allW_elim (t2_in hj) e he rl hrl rc hrc
  · exact allW_elim t2_neg0 e he rl hrl rc hrc

/-! ## final step -/
theorem f_part {j0 n : Nat} (h : fChunk j0 n = true) {j : Nat} (h0 : j0 ≤ j) (h1 : j < j0 + n)
    {cdp td : Nat} (hcdp : cdp < 6) (htd : td < 5) : okF (tenthI (inK j)) (inK j) cdp td = true := by
  have := all_range h (j - j0) (by omega)
  simp only [iflet_eq, flet_eq] at this
  have e : Nat.add j0 (j - j0) = j := by show j0 + (j - j0) = j; omega
  rw [e] at this
  exact all_range (all_range this cdp hcdp) td htd

theorem f_tbl {kt : Int} (h1 : -2 ≤ kt) (h2 : kt ≤ 100) {fl : Nat} (hb : bitsOK fl kt = true)
    {cdp td : Nat} (hcdp : cdp < 6) (htd : td < 5) : okF fl kt cdp td = true := by
  rcases bitsOK_cases hb with rfl | ⟨rfl, rfl⟩
  · obtain ⟨j, hj, rfl⟩ := exists_inK h1 h2
    by_cases h : j < 52
    · exact f_part f_chunk_0 (Nat.zero_le _) (by omega) hcdp htd
    · exact f_part f_chunk_1 (by omega) (by omega) hcdp htd
  · exact all_range (all_range f_neg0 cdp hcdp) td htd

/-! ## the score values: finite, `==` themselves -/
theorem eq_tbl {k : Int} (h1 : -2 ≤ k) (h2 : k ≤ 100) {fl : Nat} (hb : bitsOK fl k = true) :
    F64.eq fl (tenthI k) = true ∧ F64.isFin fl = true := by
  have h := eq_chunk
  simp only [eqChunk, Bool.and_eq_true] at h
  rcases bitsOK_cases hb with rfl | ⟨rfl, rfl⟩
  · obtain ⟨j, hj, rfl⟩ := exists_inK h1 h2
    have := all_range h.1.1 j hj
    simpa only [iflet_eq, flet_eq, Bool.and_eq_true] using this
  · exact ⟨h.1.2, h.2⟩

end Proofs.Score2
