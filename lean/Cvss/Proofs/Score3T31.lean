import Cvss.Proofs.Score3M31
/-! C03, v3.1, enumeration (b): the Temporal step `roundup (b·e·rl·rc)` on the 101 tenths × 5 × 5 × 4 codes -/
namespace Proofs.Score3.V31
set_option maxRecDepth 20000 in
set_option maxHeartbeats 4000000 in
theorem t_0 : chunkT 0 = true := by decide +kernel
set_option maxRecDepth 20000 in
set_option maxHeartbeats 4000000 in
theorem t_1 : chunkT 1 = true := by decide +kernel
set_option maxRecDepth 20000 in
set_option maxHeartbeats 4000000 in
theorem t_2 : chunkT 2 = true := by decide +kernel
set_option maxRecDepth 20000 in
set_option maxHeartbeats 4000000 in
theorem t_3 : chunkT 3 = true := by decide +kernel

end Proofs.Score3.V31
