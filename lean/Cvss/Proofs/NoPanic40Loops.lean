import Cvss.Proofs.NoPanic40Shape
import Cvss.Proofs.Score4Basic
/-!
# v4.0 `Score_ok`: what each piece of the twin does with the verdict

Generic facts about `Go.forRange` with a verdict in the loop state (`forRange_keeps`, `nestK_keeps`: if the body of
the innermost loop keeps the verdict `true` for every combination of elements the four loops visit and the three
inner table-index guards hold, the nest ends normally with verdict `true`), and closed forms of the verdict for the
other pieces of `Proofs/NoPanic40Shape.lean`: `preK_eq` (the `lookupMV_ok` guards, `preG`), `bodyK_eq` (the fourteen
`severityDistance_ok` guards, `okB`), `postK_eq` (the `getDepth_ok` guards, `depthG`). `tailK_true` composes them.
Nothing here evaluates tables; the Bool facts it asks for are supplied by `Proofs/NoPanic40Guards.lean`.
-/
set_option linter.unusedVariables false
set_option maxRecDepth 100000
namespace Proofs.NoPanic40
open Go GenK40
open Proofs.Score4 (flet_eq condT condF)

/-! ## generic: loops that keep the verdict -/

/-- the outcome of a loop body keeps the verdict: it `continue`s or `break`s (never `return`s) with verdict `true` -/
def Keeps (r : Ctl SK Bool) : Prop := ∃ s' : SK, s'.1 = true ∧ (r = Ctl.next s' ∨ r = Ctl.brk s')

theorem keeps_cond (c : Bool) (a b : Ctl SK Bool) (ha : Keeps a) (hb : Keeps b) : Keeps (cond c a b) := by
  cases c
  · exact hb
  · exact ha

/-- a `range` loop whose body keeps the verdict at every element ends normally (no `return`) with verdict `true` -/
theorem forRange_keeps (xs : List Nat) (f : Nat → SK → Ctl SK Bool)
    (hf : ∀ x ∈ xs, ∀ s : SK, s.1 = true → Keeps (f x s)) :
    ∀ s : SK, s.1 = true → ∃ s' : SK, s'.1 = true ∧ forRange xs s f = Ctl.next s' := by
  induction xs with
  | nil => intro s hs; exact ⟨s, hs, rfl⟩
  | cons x xs ih =>
    intro s hs
    obtain ⟨s', hs', h⟩ := hf x List.mem_cons_self s hs
    have ih' := ih (fun y hy => hf y (List.mem_cons_of_mem _ hy))
    unfold forRange
    rcases h with h | h
    · rw [h]; exact ih' s' hs'
    · rw [h]; exact ⟨s', hs', rfl⟩

theorem wrapK_next (s : SK) : wrapK (Ctl.next s) = Ctl.next s := by
  obtain ⟨o, a, b, c, d, e⟩ := s; rfl

/-- one level of the nest: table-index guard `G`, inner loop, `wrapK` -/
theorem level_keeps (L : List Nat) (g : Nat → SK → Ctl SK Bool) (G : Bool) (hG : G = true)
    (hg : ∀ x ∈ L, ∀ s : SK, s.1 = true → Keeps (g x s))
    (ok : Bool) (a b c d e : Nat) (hok : ok = true) :
    Keeps (wrapK (forRange L (ok && G, a, b, c, d, e) g)) := by
  subst hG hok
  obtain ⟨s', hs', h⟩ := forRange_keeps L g hg (true && true, a, b, c, d, e) rfl
  rw [h, wrapK_next]
  exact ⟨s', hs', Or.inl rfl⟩

/-- **the loop nest keeps the verdict** -/
theorem nestK_keeps (f : Nat → Nat → Nat → Nat → SK → Ctl SK Bool) (G2 G3 G4 : Bool)
    (hG2 : G2 = true) (hG3 : G3 = true) (hG4 : G4 = true) (L1 L2 L3 L4 : List Nat)
    (hf : ∀ x1 ∈ L1, ∀ x2 ∈ L2, ∀ x3 ∈ L3, ∀ x4 ∈ L4, ∀ s : SK, s.1 = true → Keeps (f x1 x2 x3 x4 s))
    (st : SK) (hst : st.1 = true) :
    ∃ s' : SK, s'.1 = true ∧ nestK f G2 G3 G4 L1 L2 L3 L4 st = Ctl.next s' := by
  unfold nestK
  apply forRange_keeps L1 _ _ st hst
  intro x1 hx1 ⟨ok1, a1, b1, c1, d1, e1⟩ h1
  apply level_keeps L2 _ G2 hG2 _ ok1 a1 b1 c1 d1 e1 h1
  intro x2 hx2 ⟨ok2, a2, b2, c2, d2, e2⟩ h2
  apply level_keeps L3 _ G3 hG3 _ ok2 a2 b2 c2 d2 e2 h2
  intro x3 hx3 ⟨ok3, a3, b3, c3, d3, e3⟩ h3
  apply level_keeps L4 _ G4 hG4 _ ok3 a3 b3 c3 d3 e3 h3
  intro x4 hx4 ⟨ok4, a4, b4, c4, d4, e4⟩ h4
  exact hf x1 hx1 x2 hx2 x3 hx3 x4 hx4 _ h4

/-! ## the lookups: `preK` -/

theorem stepK_eq (c g : Bool) (v : Nat) (ok : Bool) (nlm lower : Nat) :
    stepK c g v ok nlm lower = (ok && cond c g true, cond c v nlm, cond c (Nat.add lower 1) lower) := by
  cases c <;> simp [stepK, flet_eq]

/-- verdict contribution of the EQ3+EQ6 step -/
def g36 (eq1 eq2 eq3 eq4 eq5 eq6 : Nat) : Bool :=
  cond ((Nat.beq eq3 1) && (Nat.beq eq6 1)) (lookupMV_ok eq1 eq2 (Nat.add eq3 1) eq4 eq5 eq6)
  (cond ((Nat.beq eq3 0) && (Nat.beq eq6 1)) (lookupMV_ok eq1 eq2 (Nat.add eq3 1) eq4 eq5 eq6)
  (cond ((Nat.beq eq3 1) && (Nat.beq eq6 0)) (lookupMV_ok eq1 eq2 eq3 eq4 eq5 (Nat.add eq6 1))
  (cond ((Nat.beq eq3 0) && (Nat.beq eq6 0))
    (lookupMV_ok eq1 eq2 (Nat.add eq3 1) eq4 eq5 eq6 && lookupMV_ok eq1 eq2 eq3 eq4 eq5 (Nat.add eq6 1))
    true)))

/-- the other two components of the EQ3+EQ6 step (they do not depend on the incoming verdict) -/
def n36 (eq1 eq2 eq3 eq4 eq5 eq6 nlm lower : Nat) : Nat := (step36K eq1 eq2 eq3 eq4 eq5 eq6 true nlm lower).2.1
def l36 (eq1 eq2 eq3 eq4 eq5 eq6 nlm lower : Nat) : Nat := (step36K eq1 eq2 eq3 eq4 eq5 eq6 true nlm lower).2.2

theorem step36K_eq (eq1 eq2 eq3 eq4 eq5 eq6 : Nat) (ok : Bool) (nlm lower : Nat) :
    step36K eq1 eq2 eq3 eq4 eq5 eq6 ok nlm lower =
      (ok && g36 eq1 eq2 eq3 eq4 eq5 eq6, n36 eq1 eq2 eq3 eq4 eq5 eq6 nlm lower, l36 eq1 eq2 eq3 eq4 eq5 eq6 nlm lower) := by
  unfold n36 l36 step36K g36
  simp only [flet_eq]
  cases ((Nat.beq eq3 1) && (Nat.beq eq6 1))
  · simp only [condF]
    cases ((Nat.beq eq3 0) && (Nat.beq eq6 1))
    · simp only [condF]
      cases ((Nat.beq eq3 1) && (Nat.beq eq6 0))
      · simp only [condF]
        cases ((Nat.beq eq3 0) && (Nat.beq eq6 0))
        · simp only [condF, Bool.and_true]
        · simp only [condT, Bool.and_assoc]
      · simp only [condT]
    · simp only [condT]
  · simp only [condT]

/-- **the verdict after the lookups**: `lookupMV_ok` of the MacroVector and of every next-lower MacroVector the code
    looks up (each under the condition under which the code looks it up) -/
def preG (ok : Bool) (eq1 eq2 eq3 eq4 eq5 eq6 : Nat) : Bool :=
  (((((ok && lookupMV_ok eq1 eq2 eq3 eq4 eq5 eq6) &&
    cond (Nat.blt eq1 2) (lookupMV_ok (Nat.add eq1 1) eq2 eq3 eq4 eq5 eq6) true) &&
    cond (Nat.blt eq2 1) (lookupMV_ok eq1 (Nat.add eq2 1) eq3 eq4 eq5 eq6) true) &&
    cond (Nat.blt eq4 2) (lookupMV_ok eq1 eq2 eq3 (Nat.add eq4 1) eq5 eq6) true) &&
    cond (Nat.blt eq5 2) (lookupMV_ok eq1 eq2 eq3 eq4 (Nat.add eq5 1) eq6) true) &&
    g36 eq1 eq2 eq3 eq4 eq5 eq6

theorem preK_eq (ok : Bool) (eq1 eq2 eq3 eq4 eq5 eq6 : Nat) (k : Bool → Nat → Nat → Nat → Nat → Nat → Nat → Nat → Bool) :
    ∃ a b c d e f g, preK ok eq1 eq2 eq3 eq4 eq5 eq6 k = k (preG ok eq1 eq2 eq3 eq4 eq5 eq6) a b c d e f g := by
  unfold preK preG
  simp only [flet_eq, stepK_eq, step36K_eq]
  exact ⟨_, _, _, _, _, _, _, rfl⟩

/-! ## the innermost loop body: `bodyK` -/

/-- decimal digit extraction as the generated code does it: `uint8((x % m) / d)` -/
def dig (x m d : Nat) : Nat := Nat.mod (Nat.div (Nat.mod x m) d) 256

/-- **the verdict after the body**: the fourteen `severityDistance_ok` guards, in source order -/
def okB (ok : Bool) (av ac at_ pr ui vc vi va sc si sa cr ir ar : Nat) (x1 x2 x3 x4 : Nat) : Bool :=
  ((((((((((((((ok && severityDistance_ok 0 av (dig x1 1000 100)) && severityDistance_ok 1 ac (dig x2 100 10)) &&
    severityDistance_ok 2 at_ (dig x2 10 1)) && severityDistance_ok 3 pr (dig x1 100 10)) &&
    severityDistance_ok 4 ui (dig x1 10 1)) && severityDistance_ok 5 vc (dig x3 1000000 100000)) &&
    severityDistance_ok 6 vi (dig x3 100000 10000)) && severityDistance_ok 7 va (dig x3 10000 1000)) &&
    severityDistance_ok 8 sc (dig x4 1000 100)) && severityDistance_ok 9 si (dig x4 100 10)) &&
    severityDistance_ok 10 sa (dig x4 10 1)) && severityDistance_ok 12 cr (dig x3 1000 100)) &&
    severityDistance_ok 13 ir (dig x3 100 10)) && severityDistance_ok 14 ar (dig x3 10 1))

theorem bodyK_eq (av ac at_ pr ui vc vi va sc si sa cr ir ar : Nat) (x1 x2 x3 x4 : Nat) (ok : Bool) (a b c d e : Nat) :
    ∃ (bad : Bool) (p : Nat × Nat × Nat × Nat × Nat),
      bodyK av ac at_ pr ui vc vi va sc si sa cr ir ar x1 x2 x3 x4 (ok, a, b, c, d, e) =
        cond bad (Ctl.next (okB ok av ac at_ pr ui vc vi va sc si sa cr ir ar x1 x2 x3 x4, a, b, c, d, e))
          (Ctl.brk (okB ok av ac at_ pr ui vc vi va sc si sa cr ir ar x1 x2 x3 x4, p)) := by
  unfold bodyK okB dig
  simp only [flet_eq]
  exact ⟨_, _, rfl⟩

theorem bodyK_keeps (av ac at_ pr ui vc vi va sc si sa cr ir ar : Nat) (x1 x2 x3 x4 : Nat)
    (h : okB true av ac at_ pr ui vc vi va sc si sa cr ir ar x1 x2 x3 x4 = true) (s : SK) (hs : s.1 = true) :
    Keeps (bodyK av ac at_ pr ui vc vi va sc si sa cr ir ar x1 x2 x3 x4 s) := by
  obtain ⟨ok, a, b, c, d, e⟩ := s
  have hok : ok = true := hs
  subst hok
  obtain ⟨bad, p, hb⟩ := bodyK_eq av ac at_ pr ui vc vi va sc si sa cr ir ar x1 x2 x3 x4 true a b c d e
  rw [hb, h]
  exact keeps_cond _ _ _ ⟨_, rfl, Or.inl rfl⟩ ⟨_, rfl, Or.inr rfl⟩

/-! ## the end: `postK`, `finK` -/

/-- **the verdict after the depth lookups** -/
def depthG (ok : Bool) (eq1 eq2 eq3 eq4 eq5 eq6 : Nat) : Bool :=
  ((((ok && getDepth_ok 1 eq1) && getDepth_ok 2 eq2) && getDepthEQ3EQ6_ok eq3 eq6) && getDepth_ok 4 eq4) &&
    getDepth_ok 5 eq5

theorem postK_eq (ok : Bool) (eq1 eq2 eq3 eq4 eq5 eq6 lower m1 m2 m36 m4 m5 d1 d2 d36 d4 d5 : Nat) :
    postK ok eq1 eq2 eq3 eq4 eq5 eq6 lower m1 m2 m36 m4 m5 d1 d2 d36 d4 d5 = depthG ok eq1 eq2 eq3 eq4 eq5 eq6 := by
  unfold postK depthG
  simp only [flet_eq]

theorem finK_next (eq1 eq2 eq3 eq4 eq5 eq6 lower m1 m2 m36 m4 m5 : Nat) (ok : Bool) (d1 d2 d36 d4 d5 : Nat) :
    finK eq1 eq2 eq3 eq4 eq5 eq6 lower m1 m2 m36 m4 m5 (Ctl.next (ok, d1, d2, d36, d4, d5)) =
      depthG ok eq1 eq2 eq3 eq4 eq5 eq6 := by
  rw [← postK_eq ok eq1 eq2 eq3 eq4 eq5 eq6 lower m1 m2 m36 m4 m5 d1 d2 d36 d4 d5]
  rfl

/-! ## table-index guards of the four `range` expressions, as the generated text writes them -/

def idxG1 (eq1 : Nat) : Bool :=
  ((Nat.blt (1 : Nat) (List.length GenK40.tbl_highestSeverityVectors)) && (Nat.blt eq1 (List.length (Go.idx GenK40.tbl_highestSeverityVectors (1 : Nat)))))
def idxG2 (eq2 : Nat) : Bool :=
  ((Nat.blt (2 : Nat) (List.length GenK40.tbl_highestSeverityVectors)) && (Nat.blt eq2 (List.length (Go.idx GenK40.tbl_highestSeverityVectors (2 : Nat)))))
def idxG36 (eq3 eq6 : Nat) : Bool :=
  ((Nat.blt eq3 (List.length GenK40.tbl_highestSeverityVectorsEQ3EQ6)) && (Nat.blt eq6 (List.length (Go.idx GenK40.tbl_highestSeverityVectorsEQ3EQ6 eq3))))
def idxG4 (eq4 : Nat) : Bool :=
  ((Nat.blt (4 : Nat) (List.length GenK40.tbl_highestSeverityVectors)) && (Nat.blt eq4 (List.length (Go.idx GenK40.tbl_highestSeverityVectors (4 : Nat)))))

/-! ## composition -/

/-- the loops and the end return `true` when the four table-index guards hold, the fourteen
    `severityDistance_ok` guards hold at every combination of highest severity vectors the loops visit, and the
    depth guards hold -/
theorem loopsK_true (av ac at_ pr ui vc vi va sc si sa cr ir ar : Nat) (eq1 eq2 eq3 eq4 eq5 eq6 lower m1 m2 m36 m4 m5 : Nat)
    (h1 : idxG1 eq1 = true) (h2 : idxG2 eq2 = true) (h3 : idxG36 eq3 eq6 = true) (h4 : idxG4 eq4 = true)
    (hb : ∀ x1 ∈ Go.idx (Go.idx GenK40.tbl_highestSeverityVectors 1) eq1,
          ∀ x2 ∈ Go.idx (Go.idx GenK40.tbl_highestSeverityVectors 2) eq2,
          ∀ x3 ∈ Go.idx (Go.idx GenK40.tbl_highestSeverityVectorsEQ3EQ6 eq3) eq6,
          ∀ x4 ∈ Go.idx (Go.idx GenK40.tbl_highestSeverityVectors 4) eq4,
            okB true av ac at_ pr ui vc vi va sc si sa cr ir ar x1 x2 x3 x4 = true)
    (hd : depthG true eq1 eq2 eq3 eq4 eq5 eq6 = true) :
    loopsK true av ac at_ pr ui vc vi va sc si sa cr ir ar eq1 eq2 eq3 eq4 eq5 eq6 lower m1 m2 m36 m4 m5 = true := by
  unfold loopsK
  simp only [flet_eq]
  unfold idxG1 at h1
  unfold idxG2 at h2
  unfold idxG36 at h3
  unfold idxG4 at h4
  obtain ⟨s', hs', hn⟩ := nestK_keeps (bodyK av ac at_ pr ui vc vi va sc si sa cr ir ar) _ _ _ h2 h3 h4
    (Go.idx (Go.idx GenK40.tbl_highestSeverityVectors 1) eq1) (Go.idx (Go.idx GenK40.tbl_highestSeverityVectors 2) eq2)
    (Go.idx (Go.idx GenK40.tbl_highestSeverityVectorsEQ3EQ6 eq3) eq6) (Go.idx (Go.idx GenK40.tbl_highestSeverityVectors 4) eq4)
    (fun x1 hx1 x2 hx2 x3 hx3 x4 hx4 s hs =>
      bodyK_keeps av ac at_ pr ui vc vi va sc si sa cr ir ar x1 x2 x3 x4 (hb x1 hx1 x2 hx2 x3 hx3 x4 hx4) s hs)
    (true && ((Nat.blt (1 : Nat) (List.length GenK40.tbl_highestSeverityVectors)) && (Nat.blt eq1 (List.length (Go.idx GenK40.tbl_highestSeverityVectors (1 : Nat))))), 0, 0, 0, 0, 0)
    (by show (true && _) = true; rw [h1]; rfl)
  rw [hn]
  obtain ⟨ok, d1, d2, d36, d4, d5⟩ := s'
  have hok : ok = true := hs'
  subst hok
  rw [finK_next]
  exact hd

/-- **everything after the MacroVector computation returns `true`** when the lookups (`preG`), the table indices,
    the severity-distance guards and the depth guards are all fine -/
theorem tailK_true (av ac at_ pr ui vc vi va sc si sa cr ir ar : Nat) (eq1 eq2 eq3 eq4 eq5 eq6 : Nat)
    (hp : preG true eq1 eq2 eq3 eq4 eq5 eq6 = true)
    (h1 : idxG1 eq1 = true) (h2 : idxG2 eq2 = true) (h3 : idxG36 eq3 eq6 = true) (h4 : idxG4 eq4 = true)
    (hb : ∀ x1 ∈ Go.idx (Go.idx GenK40.tbl_highestSeverityVectors 1) eq1,
          ∀ x2 ∈ Go.idx (Go.idx GenK40.tbl_highestSeverityVectors 2) eq2,
          ∀ x3 ∈ Go.idx (Go.idx GenK40.tbl_highestSeverityVectorsEQ3EQ6 eq3) eq6,
          ∀ x4 ∈ Go.idx (Go.idx GenK40.tbl_highestSeverityVectors 4) eq4,
            okB true av ac at_ pr ui vc vi va sc si sa cr ir ar x1 x2 x3 x4 = true)
    (hd : depthG true eq1 eq2 eq3 eq4 eq5 eq6 = true) :
    tailK true av ac at_ pr ui vc vi va sc si sa cr ir ar eq1 eq2 eq3 eq4 eq5 eq6 = true := by
  unfold tailK
  obtain ⟨a, b, c, d, e, f, g, h⟩ := preK_eq true eq1 eq2 eq3 eq4 eq5 eq6
    (fun okResult eqsv lower eq1msd eq2msd eq3eq6msd eq4msd eq5msd =>
      loopsK okResult av ac at_ pr ui vc vi va sc si sa cr ir ar eq1 eq2 eq3 eq4 eq5 eq6 lower eq1msd eq2msd eq3eq6msd eq4msd eq5msd)
  rw [h, hp]
  exact loopsK_true av ac at_ pr ui vc vi va sc si sa cr ir ar eq1 eq2 eq3 eq4 eq5 eq6 _ _ _ _ _ _ h1 h2 h3 h4 hb hd

/-- a failing `lookupMV_ok` of the MacroVector itself makes the verdict after the lookups `false` -/
theorem preG_false_of_lookup (eq1 eq2 eq3 eq4 eq5 eq6 : Nat) (h : lookupMV_ok eq1 eq2 eq3 eq4 eq5 eq6 = false) :
    preG true eq1 eq2 eq3 eq4 eq5 eq6 = false := by
  unfold preG
  rw [h]
  rfl

end Proofs.NoPanic40
