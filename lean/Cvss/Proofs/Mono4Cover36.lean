import Cvss.Proofs.Mono4Cover36H
import Cvss.Proofs.Mono4Cover36L
import Cvss.Proofs.Mono4Cover36N
/-! # coverage of the EQ3+EQ6 transition list (combination of the three chunks) -/
namespace Proofs.Mono4
open Spec Spec.V4

theorem cov36_ok : cov36 = true := by
  unfold cov36
  apply List.all_eq_true.mpr
  intro x hx
  have : x = b "H" ∨ x = b "L" ∨ x = b "N" := by
    have hv : Vof "VC" = [b "H", b "L", b "N"] := by decide
    rw [hv] at hx
    simpa using hx
  rcases this with rfl | rfl | rfl
  · exact cov36_H
  · exact cov36_L
  · exact cov36_N

theorem cov36_at {vc vi va cr ir ar : Bytes} (hvc : vc ∈ Vof "VC") (hvi : vi ∈ Vof "VI") (hva : va ∈ Vof "VA") (hcr : cr ∈ Vof "CR") (hir : ir ∈ Vof "IR") (har : ar ∈ Vof "AR") :
    S36.contains (sum36 vc vi va cr ir ar) = true ∧
    stepOk S36 (0, 0, 0) tr36 "VC" true vc (sum36 vc vi va cr ir ar) (fun x => sum36 x vi va cr ir ar) = true ∧
    stepOk S36 (0, 0, 0) tr36 "VI" true vi (sum36 vc vi va cr ir ar) (fun x => sum36 vc x va cr ir ar) = true ∧
    stepOk S36 (0, 0, 0) tr36 "VA" true va (sum36 vc vi va cr ir ar) (fun x => sum36 vc vi x cr ir ar) = true ∧
    stepOk S36 (0, 0, 0) tr36 "CR" false cr (sum36 vc vi va cr ir ar) (fun x => sum36 vc vi va x ir ar) = true ∧
    stepOk S36 (0, 0, 0) tr36 "IR" false ir (sum36 vc vi va cr ir ar) (fun x => sum36 vc vi va cr x ar) = true ∧
    stepOk S36 (0, 0, 0) tr36 "AR" false ar (sum36 vc vi va cr ir ar) (fun x => sum36 vc vi va cr ir x) = true := by
  have := (List.all_eq_true.mp (List.all_eq_true.mp (List.all_eq_true.mp (List.all_eq_true.mp (List.all_eq_true.mp (List.all_eq_true.mp (show (Vof "VC").all cov36At = true from cov36_ok) vc hvc) vi hvi) va hva) cr hcr) ir hir) ar har)
  simp only [Bool.and_eq_true] at this
  exact ⟨this.1.1.1.1.1.1, this.1.1.1.1.1.2, this.1.1.1.1.2, this.1.1.1.2, this.1.1.2, this.1.2, this.2⟩


end Proofs.Mono4
