import Cvss.Proofs.Parse2Core
import Cvss.Proofs.DefectMove
/-!
# v2.0 parser proofs, part 7: the error contract (C18)

`fail_at` locates the first part the walk refuses; the per-defect lemmas combine it with the closed
facts `F_*` of `Parse2Table`. The finding F3 (anything after a complete environmental group is
`ErrInvalidMetricValue`) is characterised exactly by `afterEnv`.
-/
namespace Proofs.Parse2
open Model (Bytes Res cutColon splitN eValue eOrder eTooShort)
open Spec (joinSlash render Pair abvs legal isMetric Metric allLegal Defect insertAt)
open Spec.V2 (metrics shapes Witness)

/-- the defect puts an element after a complete environmental group: `w` ends with the environmental
    group and the inserted element lands at position `w.length` — or it is the copy of the last
    element inserted just before it (the same string as inserting the original after the copy) -/
def afterEnv (w : List Pair) : Defect → Bool
  | .repeated i j _ => afterEnvPos (w.map (·.1)) i j
  | .unknown j _ _ => endsEnv (w.map (·.1)) && j == w.length
  | _ => false

theorem names_getD {w : List Pair} {i : Nat} {p : Pair} (h : w[i]? = some p) :
    (w.map (·.1)).getD i [] = p.1 := by
  rw [List.getD_eq_getElem?_getD, List.getElem?_map, h]; rfl

theorem lt_of_getElem? {α} {w : List α} {i : Nat} {p : α} (h : w[i]? = some p) : i < w.length :=
  (List.getElem?_eq_some_iff.mp h).1

theorem mem_of_getElem? {α} {w : List α} {i : Nat} {p : α} (h : w[i]? = some p) : p ∈ w :=
  List.mem_of_getElem? h

section contract
variable (K : Contract Model.O20 metrics)

/-- the walk over `pre` (legal pairs) succeeds and reaches `st`; then the part starting with `z` decides -/
theorem fail_at (pre : List Pair) (z : Pair) (post : List Pair)
    (hclean : ∀ x ∈ pre ++ z :: post, CleanPair x) (hlegal : ∀ q ∈ pre, legal metrics q.1 q.2 = true)
    (hp : pre.length ≤ 13) (st : Nat × Nat) (hrun : nrun tbl (pre.map (·.1)) 0 0 = .ok st) :
    (∀ e, nstep tbl st.1 st.2 z.1 = .err e →
      parseK K (joinSlash ((pre ++ z :: post).map render)) = .err e) ∧
    (∀ st', nstep tbl st.1 st.2 z.1 = .ok st' → isMetric metrics z.1 = true →
      (legal metrics z.1 z.2 = false ∨ (pre.length = 13 ∧ post ≠ [])) →
      parseK K (joinSlash ((pre ++ z :: post).map render)) = .err eValue) := by
  have hx : ∀ x ∈ pre.map render ++ render z :: post.map render, 47 ∉ x := by
    intro x hx
    rw [← List.map_cons, ← List.map_append] at hx
    obtain ⟨q, hq, rfl⟩ := List.mem_map.mp hx
    exact (hclean q hq).render_noslash
  obtain ⟨y, rest, hsplit, hy⟩ := splitN_join_decomp 13 (pre.map render) (render z) (post.map render) hx
    (by simpa using hp)
  have hz := hclean z (by simp)
  have hname : (cutColon y).1 = z.1 := by
    rcases hy with ⟨rfl, _⟩ | ⟨more, rfl⟩
    · rw [cutColon_render_pair z hz.colon]
    · rw [cutColon_render_more z hz.colon]
  have hloop : parseK K (joinSlash ((pre ++ z :: post).map render)) =
      loop2With tbl K.set (y :: rest) st.1 st.2 (setAll K.set K.zero pre) := by
    unfold parseK parse20With
    rw [List.map_append, List.map_cons, hsplit,
      loop_prefix tbl K.set pre (y :: rest) 0 0 K.zero (fun q hq => (hclean q (by simp [hq])).colon)
        (fun q hq c => K.set_ok c q.1 q.2 (hlegal q hq)), hrun]
  rw [hloop]
  constructor
  · intro e he
    exact loop_head_nerr tbl K.set y rest st.1 st.2 _ e (by rw [hname]; exact he)
  · intro st' hok hmet hbad
    have hill : legal metrics (cutColon y).1 (cutColon y).2 = false := by
      rcases hy with ⟨rfl, hlast⟩ | ⟨more, rfl⟩
      · rw [cutColon_render_pair z hz.colon]
        rcases hbad with h | ⟨h1, h2⟩
        · exact h
        · have := hlast (by simpa using h1)
          exact absurd (by simpa using this) h2
      · rw [cutColon_render_more z hz.colon]
        exact illegal_of_slash _ _ _
    have hset := K.set_illegal (setAll K.set K.zero pre) (cutColon y).1 (cutColon y).2 (by rw [hname]; exact hmet) hill
    have := loop_head_seterr tbl K.set y rest st.1 st.2 (setAll K.set K.zero pre) st'
      (by rw [hname]; exact hok) (by rw [hset]; simp [eValue, Go.errNil])
    rw [this, hset]

/-- all elements legal: the first position refused by the name automaton gives the error -/
theorem fail_nfail (xs : List Pair) (hl : ∀ x ∈ xs, legal metrics x.1 x.2 = true) (p : Nat) (e : Go.Err)
    (h : nfail tbl (xs.map (·.1)) 0 0 = some (p, e)) (hp : p ≤ 13) :
    parseK K (joinSlash (xs.map render)) = .err e := by
  obtain ⟨hlt, st, hrun, hstep⟩ := nfail_spec tbl _ 0 0 p e h
  have hlt' : p < xs.length := by simpa using hlt
  have hdec : xs = xs.take p ++ xs[p] :: xs.drop (p + 1) := by
    rw [← List.drop_eq_getElem_cons hlt', List.take_append_drop]
  rw [hdec]
  apply (fail_at K (xs.take p) xs[p] (xs.drop (p + 1)) ?_ ?_ ?_ st ?_).1 e
  · simpa using hstep
  · intro x hx
    rw [← hdec] at hx
    exact legal_clean (hl x hx)
  · intro q hq
    exact hl q (List.mem_of_mem_take hq)
  · rw [List.length_take]; omega
  · rw [List.map_take]; exact hrun

/-- a legal proper prefix that stops inside a group -/
theorem fail_short (xs : List Pair) (hl : ∀ x ∈ xs, legal metrics x.1 x.2 = true) (hne : xs ≠ [])
    (hlen : xs.length ≤ 14) (st : Nat × Nat) (hrun : nrun tbl (xs.map (·.1)) 0 0 = .ok st) (hi : st.2 ≠ 0) :
    parseK K (joinSlash (xs.map render)) = .err eTooShort := by
  unfold parseK parse20With
  rw [splitN_join_le 13 _ (render_noslash_of_legal hl) (by simpa using hne) (by simpa using hlen)]
  have := loop_prefix tbl K.set xs [] 0 0 K.zero (fun p hp => (legal_clean (hl p hp)).colon)
    (fun p hp c => K.set_ok c p.1 p.2 (hl p hp))
  rw [List.append_nil] at this
  rw [this, hrun]
  simp only [loop2With, hi, ne_eq, not_false_eq_true, if_true]

/-- F3: anything after a complete vector that ends with the environmental group -/
theorem fail_after_full (u : List Pair) (x : Pair) (hl : allLegal metrics u) (hsh : u.map (·.1) ∈ shapes)
    (henv : endsEnv (u.map (·.1)) = true) (hx : CleanPair x) :
    parseK K (joinSlash ((u ++ [x]).map render)) = .err eValue := by
  obtain ⟨hg, hlen⟩ := F_env _ hsh henv
  have hcl : ∀ q ∈ u ++ [x], CleanPair q := by
    intro q hq
    rcases List.mem_append.mp hq with hq | hq
    · exact legal_clean (hl q hq)
    · simp only [List.mem_singleton] at hq; exact hq ▸ hx
  rcases hlen with hlen | hlen
  · -- 11 elements: the twelfth part meets the `default:` arm
    have hrun := F_run _ hsh (u.map (·.1)).length (Nat.lt_succ_self _)
    rw [List.take_length] at hrun
    refine (fail_at K u x [] hcl hl (by simp at hlen; omega) _ hrun).1 eValue ?_
    exact nstep_ge3 tbl _ _ _ (by omega)
  · -- 14 elements: the fourteenth part keeps `/…`
    rcases List.eq_nil_or_concat u with hu | ⟨u', z, hu⟩
    · subst hu; simp at hlen
    · rw [List.concat_eq_append] at hu
      subst hu
      have hlen' : u'.length = 13 := by simpa using hlen
      have hnames : (u' ++ [z]).map (·.1) = u'.map (·.1) ++ [z.1] := by simp
      have htake : ((u' ++ [z]).map (·.1)).take 13 = u'.map (·.1) := by
        rw [hnames]; exact List.take_left' (by simpa using hlen')
      have hrun := F_run _ hsh 13 (by rw [hlen]; omega)
      rw [htake] at hrun
      have hm := F_match _ hsh 13 (by rw [hlen]; omega)
      rw [htake] at hm
      have hz : ((u' ++ [z]).map (·.1)).getD 13 [] = z.1 := by
        rw [hnames, List.getD_eq_getElem?_getD, List.getElem?_append_right (by simp [hlen'])]
        simp [hlen']
      rw [hz] at hm
      have hzl : legal metrics z.1 z.2 = true := hl z (by simp)
      rw [List.append_assoc]
      cases hst : nstep tbl (after (u'.map (·.1))).1 (after (u'.map (·.1))).2 z.1 with
      | ok st' =>
        refine (fail_at K u' z [x] ?_ (fun q hq => hl q (by simp [hq])) (by omega) _ hrun).2 st' hst
          (isMetric_of_legal hzl) (Or.inr ⟨hlen', by simp⟩)
        intro q hq
        exact hcl q (by simpa [List.append_assoc] using hq)
      | err e => rw [hst] at hm; cases hm
      | panic => rw [hst] at hm; cases hm

/-! ## the defects -/

theorem witness_facts {w : List Pair} (hw : ∃ s0, Witness s0 w) :
    w.map (·.1) ∈ shapes ∧ allLegal metrics w ∧ w ≠ [] ∧ w.length ≤ 14 := by
  obtain ⟨s0, _, hsh, hl⟩ := hw
  exact ⟨hsh, hl, (witness_len hsh).1, (witness_len hsh).2⟩

theorem err_illegalValue {w : List Pair} (hw : ∃ s0, Witness s0 w) (i : Nat) (v : Bytes) (s : Bytes)
    (e : Spec.ErrVal) (h : (Defect.illegalValue i v).apply .v20 w = some (s, e)) :
    parseK K s = .err ⟨e.1, e.2⟩ := by
  obtain ⟨hsh, hl, _, hlen⟩ := witness_facts hw
  simp only [Defect.apply] at h
  cases hwi : w[i]? with
  | none => simp [hwi] at h
  | some p =>
    obtain ⟨a, u⟩ := p
    simp only [hwi] at h
    split at h
    · cases h
    · rename_i hcond
      simp only [Option.some.injEq, Prod.mk.injEq] at h
      obtain ⟨rfl, rfl⟩ := h
      simp only [Bool.or_eq_true, not_or, Bool.not_eq_true] at hcond
      obtain ⟨hill, hvs⟩ := hcond
      have hilt := lt_of_getElem? hwi
      have hmem := mem_of_getElem? hwi
      have hal : legal metrics a u = true := hl _ hmem
      have hmet := isMetric_of_legal hal
      show parseK K (joinSlash ((w.set i (a, v)).map render)) = .err eValue
      rw [List.set_eq_take_append_cons_drop, if_pos hilt]
      have hrun := F_run _ hsh i (by simp; omega)
      rw [← List.map_take] at hrun
      have hm := F_match _ hsh i (by simpa using hilt)
      rw [← List.map_take, names_getD hwi] at hm
      cases hst : nstep tbl (after ((w.take i).map (·.1))).1 (after ((w.take i).map (·.1))).2 a with
      | ok st' =>
        refine (fail_at K (w.take i) (a, v) (w.drop (i + 1)) ?_ (fun q hq => hl q (List.mem_of_mem_take hq))
          (by rw [List.length_take]; omega) _ hrun).2 st' hst hmet (Or.inl hill)
        intro q hq
        rcases List.mem_append.mp hq with hq | hq
        · exact legal_clean (hl q (List.mem_of_mem_take hq))
        · rcases List.mem_cons.mp hq with rfl | hq
          · refine ⟨(metric_name_clean hmet).1, (metric_name_clean hmet).2, ?_⟩
            have : v.contains 47 = false := hvs
            simpa using this
          · exact legal_clean (hl q (List.mem_of_mem_drop hq))
      | err e => rw [hst] at hm; cases hm
      | panic => rw [hst] at hm; cases hm

theorem err_swap {w : List Pair} (hw : ∃ s0, Witness s0 w) (i : Nat) (s : Bytes)
    (e : Spec.ErrVal) (h : (Defect.swap i).apply .v20 w = some (s, e)) :
    parseK K s = .err ⟨e.1, e.2⟩ := by
  obtain ⟨hsh, hl, _, hlen⟩ := witness_facts hw
  simp only [Defect.apply] at h
  cases hwi : w[i]? with
  | none => simp [hwi] at h
  | some p =>
    cases hwj : w[i + 1]? with
    | none => simp [hwi, hwj] at h
    | some q =>
      simp only [hwi, hwj, Option.some.injEq, Prod.mk.injEq] at h
      obtain ⟨rfl, rfl⟩ := h
      show parseK K (joinSlash (((w.set i q).set (i + 1) p).map render)) = .err eOrder
      have hnames : ((w.set i q).set (i + 1) p).map (·.1) = swapNames (w.map (·.1)) i := by
        unfold swapNames
        rw [List.map_set, List.map_set, names_getD hwi, names_getD hwj]
      have hgood := F_swap _ hsh i (by simpa using lt_of_getElem? hwi) (by simpa using lt_of_getElem? hwj)
      obtain ⟨p', hp', hnf⟩ := good3_spec hgood
      refine fail_nfail K _ ?_ p' eOrder (by rw [hnames]; exact hnf) hp'
      intro x hx
      rcases List.mem_or_eq_of_mem_set hx with hx | rfl
      · rcases List.mem_or_eq_of_mem_set hx with hx | rfl
        · exact hl x hx
        · exact hl _ (mem_of_getElem? hwj)
      · exact hl _ (mem_of_getElem? hwi)

theorem err_truncate {w : List Pair} (hw : ∃ s0, Witness s0 w) (n : Nat) (s : Bytes)
    (e : Spec.ErrVal) (h : (Defect.truncate n).apply .v20 w = some (s, e)) :
    parseK K s = .err ⟨e.1, e.2⟩ := by
  obtain ⟨hsh, hl, _, hlen⟩ := witness_facts hw
  simp only [Defect.apply] at h
  split at h
  · rename_i hcond
    simp only [Option.some.injEq, Prod.mk.injEq] at h
    obtain ⟨rfl, rfl⟩ := h
    obtain ⟨h1, h2, h3⟩ := hcond
    show parseK K (joinSlash ((w.take n).map render)) = .err eTooShort
    have hrun := F_run _ hsh n (by simp; omega)
    rw [← List.map_take] at hrun
    have hi := F_trunc _ hsh n (by simpa using h2) h1 (by simpa using h3)
    rw [← List.map_take] at hi
    refine fail_short K (w.take n) (fun x hx => hl x (List.mem_of_mem_take hx)) ?_ ?_ _ hrun hi
    · intro h0
      have : (w.take n).length = 0 := by rw [h0]; rfl
      rw [List.length_take] at this
      omega
    · rw [List.length_take]; omega
  · cases h

theorem insertAt_names (w : List Pair) (j : Nat) (x : Pair) :
    (insertAt w j x).map (·.1) = insertAt (w.map (·.1)) j x.1 := by
  unfold insertAt
  rw [List.map_append, List.map_cons, List.map_take, List.map_drop]

theorem insertAt_mem {w : List Pair} {j : Nat} {x q : Pair} (h : q ∈ insertAt w j x) : q ∈ w ∨ q = x := by
  unfold insertAt at h
  rcases List.mem_append.mp h with h | h
  · exact Or.inl (List.mem_of_mem_take h)
  · rcases List.mem_cons.mp h with h | h
    · exact Or.inr h
    · exact Or.inl (List.mem_of_mem_drop h)

theorem insertAt_end (w : List Pair) (x : Pair) : insertAt w w.length x = w ++ [x] := by
  unfold insertAt
  rw [List.take_length, List.drop_length]

/-- the premises of a `repeated` defect, unfolded -/
theorem repeated_unfold {w : List Pair} {i j : Nat} {v s : Bytes} {e : Spec.ErrVal}
    (h : (Defect.repeated i j v).apply .v20 w = some (s, e)) :
    ∃ a u, w[i]? = some (a, u) ∧ legal metrics a v = true ∧ j ≤ w.length ∧
      s = joinSlash ((insertAt w j (a, v)).map render) ∧ e = (3, []) := by
  simp only [Defect.apply] at h
  cases hwi : w[i]? with
  | none => simp [hwi] at h
  | some p =>
    obtain ⟨a, u⟩ := p
    simp only [hwi] at h
    split at h
    · cases h
    · rename_i hcond
      simp only [Option.some.injEq, Prod.mk.injEq] at h
      rw [Bool.not_eq_true, Bool.or_eq_false_iff] at hcond
      have h1 : legal (Spec.Version.metrics .v20) a v = true := by simpa using hcond.1
      have h2 : ¬ j > w.length := of_decide_eq_false hcond.2
      exact ⟨a, u, rfl, h1, by omega, h.1.symm, h.2.symm⟩

/-- the premises of an `unknown` defect, unfolded -/
theorem unknown_unfold {w : List Pair} {j : Nat} {a v s : Bytes} {e : Spec.ErrVal}
    (h : (Defect.unknown j a v).apply .v20 w = some (s, e)) :
    isMetric metrics a = false ∧ CleanPair (a, v) ∧ j ≤ w.length ∧
      s = joinSlash ((insertAt w j (a, v)).map render) ∧ e = (3, []) := by
  simp only [Defect.apply] at h
  split at h
  · cases h
  · rename_i hcond
    simp only [Option.some.injEq, Prod.mk.injEq] at h
    rw [Bool.not_eq_true, Bool.or_eq_false_iff, Bool.or_eq_false_iff, Bool.or_eq_false_iff] at hcond
    obtain ⟨⟨⟨h1, h2⟩, h3⟩, h4⟩ := hcond
    have h4 : ¬ j > w.length := of_decide_eq_false h4
    have hc : Spec.clean a = true := by simpa using h2
    unfold Spec.clean at hc
    simp only [Bool.and_eq_true, Bool.not_eq_eq_eq_not, Bool.not_true] at hc
    have h3' : v.contains 47 = false := h3
    refine ⟨h1, ⟨?_, ?_, ?_⟩, by omega, h.1.symm, h.2.symm⟩
    · have : a.contains 58 = false := hc.2
      simpa using this
    · have : a.contains 47 = false := hc.1
      simpa using this
    · simpa using h3'

theorem err_repeated {w : List Pair} (hw : ∃ s0, Witness s0 w) (i j : Nat) (v s : Bytes)
    (e : Spec.ErrVal) (h : (Defect.repeated i j v).apply .v20 w = some (s, e))
    (hna : afterEnv w (.repeated i j v) = false) : parseK K s = .err ⟨e.1, e.2⟩ := by
  obtain ⟨hsh, hl, _, hlen⟩ := witness_facts hw
  obtain ⟨a, u, hwi, hlv, hj, rfl, rfl⟩ := repeated_unfold h
  show parseK K _ = .err eOrder
  have hgood := F_rep _ hsh i (by simpa using lt_of_getElem? hwi) j (by simp; omega) hna
  rw [names_getD hwi] at hgood
  obtain ⟨p', hp', hnf⟩ := good3_spec hgood
  refine fail_nfail K _ ?_ p' eOrder (by rw [insertAt_names]; exact hnf) hp'
  intro x hx
  rcases insertAt_mem hx with hx | rfl
  · exact hl x hx
  · exact hlv

theorem err_unknown {w : List Pair} (hw : ∃ s0, Witness s0 w) (j : Nat) (a v s : Bytes)
    (e : Spec.ErrVal) (h : (Defect.unknown j a v).apply .v20 w = some (s, e))
    (hna : afterEnv w (.unknown j a v) = false) : parseK K s = .err ⟨e.1, e.2⟩ := by
  obtain ⟨hsh, hl, _, hlen⟩ := witness_facts hw
  obtain ⟨hnm, hcl, hj, rfl, rfl⟩ := unknown_unfold h
  show parseK K _ = .err eOrder
  have hna' : (endsEnv (w.map (·.1)) && j == (w.map (·.1)).length) = false := by
    simpa [afterEnv] using hna
  obtain ⟨hj13, hstep⟩ := F_unk _ hsh j (by simp; omega) hna'
  have hrun := F_run _ hsh j (by simp; omega)
  rw [← List.map_take] at hrun hstep
  have ha : a ∉ tbl.flatten := by
    show a ∉ GenV20.tbl_order.flatten
    rw [tbl_flatten]; exact isMetric_false_iff.mp hnm
  have hnil : ([] : Bytes) ∉ tbl.flatten := by
    show [] ∉ GenV20.tbl_order.flatten
    rw [tbl_flatten]; exact empty_not_metric
  unfold insertAt
  refine (fail_at K (w.take j) (a, v) (w.drop j) ?_ (fun q hq => hl q (List.mem_of_mem_take hq))
    (by rw [List.length_take]; omega) _ hrun).1 eOrder ?_
  · intro q hq
    rcases List.mem_append.mp hq with hq | hq
    · exact legal_clean (hl q (List.mem_of_mem_take hq))
    · rcases List.mem_cons.mp hq with rfl | hq
      · exact hcl
      · exact legal_clean (hl q (List.mem_of_mem_drop hq))
  · show nstep tbl _ _ a = _
    rw [nstep_unknown _ _ ha hnil]; exact hstep

/-- the premises of a `move` defect, unfolded -/
theorem move_unfold {w : List Pair} {i j : Nat} {s : Bytes} {e : Spec.ErrVal}
    (h : (Defect.move i j).apply .v20 w = some (s, e)) :
    ∃ p, w[i]? = some p ∧ j ≠ i ∧ j < w.length ∧
      s = joinSlash ((insertAt (w.eraseIdx i) j p).map render) ∧ e = (3, []) := by
  simp only [Defect.apply] at h
  cases hwi : w[i]? with
  | none => simp [hwi] at h
  | some p =>
    simp only [hwi] at h
    split at h
    · cases h
    · rename_i hcond
      simp only [Option.some.injEq, Prod.mk.injEq] at h
      exact ⟨p, rfl, by omega, by omega, h.1.symm, h.2.symm⟩

/-- "misplaced", in general: element `i` taken out and put back at position `j ≠ i`. No exception of the
    F3 kind: the result has the length of `w`, so the first element the automaton refuses is always among
    the first 14 parts and never after a complete environmental group. -/
theorem err_move {w : List Pair} (hw : ∃ s0, Witness s0 w) (i j : Nat) (s : Bytes)
    (e : Spec.ErrVal) (h : (Defect.move i j).apply .v20 w = some (s, e)) :
    parseK K s = .err ⟨e.1, e.2⟩ := by
  obtain ⟨hsh, hl, _, hlen⟩ := witness_facts hw
  obtain ⟨p, hwi, hji, hj, rfl, rfl⟩ := move_unfold h
  show parseK K _ = .err eOrder
  have hgood := F_move _ hsh i (by simpa using lt_of_getElem? hwi) j (by simpa using hj) hji
  rw [names_getD hwi] at hgood
  obtain ⟨p', hp', hnf⟩ := good3_spec hgood
  refine fail_nfail K _ ?_ p' eOrder (by rw [Move.map_insertAt, Move.map_eraseIdx]; exact hnf) hp'
  intro x hx
  exact hl x (Move.mem_moved hwi hx)

/-- the exact form of "cut short inside a started group": any proper non-empty prefix whose abbreviations
    are not themselves a complete vector (covers `n = 9` of base+environmental and `n = 11` of
    base+temporal+environmental, which `Defect.truncate` leaves out) -/
theorem err_truncate_exact {w : List Pair} (hw : ∃ s0, Witness s0 w) (n : Nat) (h1 : 1 ≤ n) (h2 : n < w.length)
    (h3 : (w.take n).map (·.1) ∉ shapes) :
    parseK K (joinSlash ((w.take n).map render)) = .err eTooShort := by
  obtain ⟨hsh, hl, _, hlen⟩ := witness_facts hw
  have hrun := F_run _ hsh n (by simp; omega)
  rw [← List.map_take] at hrun
  have hi := F_trunc_exact _ hsh n (by simpa using h2) h1 (by rw [← List.map_take]; exact h3)
  rw [← List.map_take] at hi
  refine fail_short K (w.take n) (fun x hx => hl x (List.mem_of_mem_take hx)) ?_ ?_ _ hrun hi
  · intro h0
    have : (w.take n).length = 0 := by rw [h0]; rfl
    rw [List.length_take] at this
    omega
  · rw [List.length_take]; omega

/-- F3, characterised: under `afterEnv` the documented code 3 is promised and code 4 is returned -/
theorem err_afterEnv {w : List Pair} (hw : ∃ s0, Witness s0 w) (d : Defect) (s : Bytes)
    (e : Spec.ErrVal) (h : d.apply .v20 w = some (s, e)) (ha : afterEnv w d = true) :
    parseK K s = .err ⟨4, []⟩ ∧ e = (3, []) := by
  obtain ⟨hsh, hl, hne, hlen⟩ := witness_facts hw
  cases d with
  | repeated i j v =>
    obtain ⟨a, u, hwi, hlv, hj, rfl, rfl⟩ := repeated_unfold h
    refine ⟨?_, rfl⟩
    simp only [afterEnv, afterEnvPos, Bool.and_eq_true, Bool.or_eq_true, beq_iff_eq, List.length_map] at ha
    obtain ⟨henv, hpos⟩ := ha
    rcases hpos with rfl | ⟨hi, hj'⟩
    · rw [insertAt_end]
      exact fail_after_full K w (a, v) hl hsh henv (legal_clean hlv)
    · -- the copy is inserted just before the last element
      have hij : i = j := by omega
      subst hij
      have hilt := lt_of_getElem? hwi
      have hdrop : w.drop i = [(a, u)] := by
        rw [List.drop_eq_getElem_cons hilt, (List.getElem?_eq_some_iff.mp hwi).2,
          List.drop_eq_nil_of_le (by omega)]
      have hxs : insertAt w i (a, v) = (w.take i ++ [(a, v)]) ++ [(a, u)] := by
        unfold insertAt; rw [hdrop]; simp
      rw [hxs]
      have hnames : (w.take i ++ [(a, v)]).map (·.1) = w.map (·.1) := by
        have hlast := F_env_last _ hsh henv
        rw [List.length_map, show w.length - 1 = i by omega, names_getD hwi] at hlast
        rw [List.map_append, List.map_take]
        exact hlast
      refine fail_after_full K _ (a, u) ?_ (by rw [hnames]; exact hsh) (by rw [hnames]; exact henv)
        (legal_clean (hl _ (mem_of_getElem? hwi)))
      intro q hq
      rcases List.mem_append.mp hq with hq | hq
      · exact hl q (List.mem_of_mem_take hq)
      · simp only [List.mem_singleton] at hq; subst hq; exact hlv
  | unknown j a v =>
    obtain ⟨hnm, hcl, hj, rfl, rfl⟩ := unknown_unfold h
    refine ⟨?_, rfl⟩
    simp only [afterEnv, Bool.and_eq_true, beq_iff_eq] at ha
    obtain ⟨henv, rfl⟩ := ha
    rw [insertAt_end]
    exact fail_after_full K w (a, v) hl hsh henv hcl
  | header p => simp [afterEnv] at ha
  | illegalValue i v => simp [afterEnv] at ha
  | removeMandatory i => simp [afterEnv] at ha
  | swap i => simp [afterEnv] at ha
  | truncate n => simp [afterEnv] at ha
  | move i j => simp [afterEnv] at ha

/-- the error contract for every defect that does not put an element after a complete environmental group -/
theorem err_partial {w : List Pair} (hw : ∃ s0, Witness s0 w) (d : Defect) (s : Bytes)
    (e : Spec.ErrVal) (h : d.apply .v20 w = some (s, e)) (hna : afterEnv w d = false) :
    parseK K s = .err ⟨e.1, e.2⟩ := by
  cases d with
  | repeated i j v => exact err_repeated K hw i j v s e h hna
  | unknown j a v => exact err_unknown K hw j a v s e h hna
  | header p => simp [Defect.apply] at h
  | illegalValue i v => exact err_illegalValue K hw i v s e h
  | removeMandatory i => simp [Defect.apply] at h
  | swap i => exact err_swap K hw i s e h
  | truncate n => exact err_truncate K hw n s e h
  | move i j => exact err_move K hw i j s e h

end contract
end Proofs.Parse2
