import Cvss.Model.WF
import Cvss.Spec.V2
/-!
# C05/C11/C12 (v2.0) helpers: definitions shared by the enumeration chunks

* float side: `T2f`, `RBf`, `Ff` — the three phases of the generated `EnvironmentalScore_core` (recomputed base,
  temporal step, final step). They only *call* generated functions (weights, `roundTo1Decimal`,
  `Exploitability_core`); the shape lemmas tie them to the generated bodies by unfolding, so a changed constant
  or operator in a Go body breaks a shape lemma, and a change in a called function breaks an enumeration chunk.
* exact side: the Spec equations (`Spec/V2.lean`, over `Rat`) applied to the Spec weight of the value string
  that the generated `Get` returns for a code (`wAV r = Spec.V2.weight "AV" (Get-string of code r)`), so the
  exact side has no hand-copied constants either.
* `okStep x fl lo hi`: the float `fl` is (bit for bit) the double nearest `k/10` — or `-0.0` when `k = 0` — for
  a tenth `k` nearest to the exact value `x`, and `lo ≤ k ≤ hi`. This is the predicate every chunk evaluates.
-/
namespace Proofs.Score2
open Spec (b Bytes)
open Spec.V2

theorem flet_eq {α : Sort u} (x : Nat) (k : Nat → α) : F64.flet x k = k x := by cases x <;> rfl

/-- bit pattern of `-0.0` -/
def NEG0 : Nat := 0x8000000000000000
/-- the double nearest `k/10`, for a signed number of tenths -/
def tenthI : Int → Nat
  | .ofNat n => F64.tenth n
  | .negSucc n => F64.negTenth (n + 1)

/-- `fl` is bit for bit the double nearest `k/10`, or `-0.0` when `k = 0` -/
def bitsOK (fl : Nat) (k : Int) : Bool := Nat.beq fl (tenthI k) || (decide (k = 0) && Nat.beq fl NEG0)

/-! Forcing combinators for the exact side. `Rat` operations build lazy terms; a chain of them is evaluated
    by the kernel again and again. `forceRat x k` first evaluates `x` to a literal fraction. -/
def iflet {α : Sort u} (z : Int) (k : Int → α) : α :=
  match z with
  | .ofNat n => F64.flet n fun n => k (.ofNat n)
  | .negSucc n => F64.flet n fun n => k (.negSucc n)
theorem iflet_eq {α : Sort u} (z : Int) (k : Int → α) : iflet z k = k z := by
  cases z <;> simp [iflet, flet_eq]
def forceRat {α : Sort u} (x : Rat) (k : Rat → α) : α :=
  iflet x.num fun n => F64.flet x.den fun d => k (mkRat n d)
theorem forceRat_eq {α : Sort u} (x : Rat) (k : Rat → α) : forceRat x k = k x := by
  simp [forceRat, iflet_eq, flet_eq, Rat.mkRat_self]

/-- the tenth `k` is nearest to `x`, `fl` is its double (or `-0.0` for `k = 0`), and `lo ≤ k ≤ hi` -/
def cand (x : Rat) (fl : Nat) (lo hi k : Int) : Bool :=
  bitsOK fl k && near x k && decide (lo ≤ k) && decide (k ≤ hi)
/-- some tenth `k` nearest to the exact value `x` has `bitsOK fl k` and lies in `[lo, hi]`
    (the two candidates are `⌊10x⌋` and `⌊10x⌋ + 1`) -/
def okStep (x : Rat) (fl : Nat) (lo hi : Int) : Bool :=
  forceRat x fun x => forceRat (10 * x) fun x10 => iflet x10.floor fun f =>
  cand x fl lo hi f || cand x fl lo hi (f + 1)

/-! ## value strings and Spec weights of the codes (through the generated `Get`) -/

def sAV (r : Nat) : Bytes := (GenV20.Get_core r 0 0 0 0 0 0 0 0 0 0 0 0 0 (b "AV")).1
def sAC (r : Nat) : Bytes := (GenV20.Get_core 0 r 0 0 0 0 0 0 0 0 0 0 0 0 (b "AC")).1
def sAu (r : Nat) : Bytes := (GenV20.Get_core 0 0 r 0 0 0 0 0 0 0 0 0 0 0 (b "Au")).1
def sC (r : Nat) : Bytes := (GenV20.Get_core 0 0 0 r 0 0 0 0 0 0 0 0 0 0 (b "C")).1
def sI (r : Nat) : Bytes := (GenV20.Get_core 0 0 0 0 r 0 0 0 0 0 0 0 0 0 (b "I")).1
def sA (r : Nat) : Bytes := (GenV20.Get_core 0 0 0 0 0 r 0 0 0 0 0 0 0 0 (b "A")).1
def sE (r : Nat) : Bytes := (GenV20.Get_core 0 0 0 0 0 0 r 0 0 0 0 0 0 0 (b "E")).1
def sRL (r : Nat) : Bytes := (GenV20.Get_core 0 0 0 0 0 0 0 r 0 0 0 0 0 0 (b "RL")).1
def sRC (r : Nat) : Bytes := (GenV20.Get_core 0 0 0 0 0 0 0 0 r 0 0 0 0 0 (b "RC")).1
def sCDP (r : Nat) : Bytes := (GenV20.Get_core 0 0 0 0 0 0 0 0 0 r 0 0 0 0 (b "CDP")).1
def sTD (r : Nat) : Bytes := (GenV20.Get_core 0 0 0 0 0 0 0 0 0 0 r 0 0 0 (b "TD")).1
def sCR (r : Nat) : Bytes := (GenV20.Get_core 0 0 0 0 0 0 0 0 0 0 0 r 0 0 (b "CR")).1
def sIR (r : Nat) : Bytes := (GenV20.Get_core 0 0 0 0 0 0 0 0 0 0 0 0 r 0 (b "IR")).1
def sAR (r : Nat) : Bytes := (GenV20.Get_core 0 0 0 0 0 0 0 0 0 0 0 0 0 r (b "AR")).1

/-- Spec weight of code `r` of each metric -/
def wAV (r : Nat) : Rat := weight (b "AV") (sAV r)
def wAC (r : Nat) : Rat := weight (b "AC") (sAC r)
def wAu (r : Nat) : Rat := weight (b "Au") (sAu r)
def wC (r : Nat) : Rat := weight (b "C") (sC r)
def wI (r : Nat) : Rat := weight (b "I") (sI r)
def wA (r : Nat) : Rat := weight (b "A") (sA r)
def wE (r : Nat) : Rat := weight (b "E") (sE r)
def wRL (r : Nat) : Rat := weight (b "RL") (sRL r)
def wRC (r : Nat) : Rat := weight (b "RC") (sRC r)
def wCDP (r : Nat) : Rat := weight (b "CDP") (sCDP r)
def wTD (r : Nat) : Rat := weight (b "TD") (sTD r)
def wCR (r : Nat) : Rat := weight (b "CR") (sCR r)
def wIR (r : Nat) : Rat := weight (b "IR") (sIR r)
def wAR (r : Nat) : Rat := weight (b "AR") (sAR r)

/-! ## exact side, on codes -/
def XI (c i a : Nat) : Rat := impactEq (wC c) (wI i) (wA a)
def XE (av ac au : Nat) : Rat := exploitabilityEq (wAV av) (wAC ac) (wAu au)
def XB (c i a av ac au : Nat) : Rat := baseEq (XI c i a) (XE av ac au)
def XAI (c i a cr ir ar : Nat) : Rat := adjustedImpactEq (wC c) (wI i) (wA a) (wCR cr) (wIR ir) (wAR ar)
def XRB (c i a cr ir ar av ac au : Nat) : Rat := baseEq (XAI c i a cr ir ar) (XE av ac au)
def XT (kb : Int) (e rl rc : Nat) : Rat := temporalEq (score kb) (wE e) (wRL rl) (wRC rc)
def XF (kt : Int) (cdp td : Nat) : Rat := environmentalEq (score kt) (wCDP cdp) (wTD td)

/-! ## float side: the phases of the generated code -/

/-- temporal step: `roundTo1Decimal (((b·e)·rl)·rc)` -/
def T2f (bs e rl rc : Nat) : Nat :=
  GenV20.roundTo1Decimal (F64.mul (F64.mul (F64.mul bs (GenV20.exploitability e)) (GenV20.remediationLevel rl)) (GenV20.reportConfidence rc))

/-- recomputed base inside `EnvironmentalScore` (text of the generated body up to `recBase`) -/
def RBf (r0 r1 r2 r3 r4 r5 r6 r7 r8 : Nat) : Nat :=
  F64.flet (GenV20.cia r0) fun c =>
  F64.flet (GenV20.cia r1) fun i =>
  F64.flet (GenV20.cia r2) fun a =>
  F64.flet (GenV20.ciar r3) fun cr =>
  F64.flet (GenV20.ciar r4) fun ir =>
  F64.flet (GenV20.ciar r5) fun ar =>
  F64.flet (F64.min (0x4024000000000000 : Nat) (F64.mul (0x4024d1eb851eb852 : Nat) (F64.sub (0x3ff0000000000000 : Nat) (F64.mul (F64.mul (F64.sub (0x3ff0000000000000 : Nat) (F64.mul c cr)) (F64.sub (0x3ff0000000000000 : Nat) (F64.mul i ir))) (F64.sub (0x3ff0000000000000 : Nat) (F64.mul a ar)))))) fun adjustedImpact =>
  F64.flet (cond (!(F64.eq adjustedImpact (0x0000000000000000 : Nat))) (0x3ff2d0e560418937 : Nat) (0x0000000000000000 : Nat)) fun fimpactBase =>
  F64.flet (GenV20.Exploitability_core r6 r7 r8) fun expltBase =>
  GenV20.roundTo1Decimal (F64.mul (F64.sub (F64.add (F64.mul (0x3fe3333333333333 : Nat) adjustedImpact) (F64.mul (0x3fd999999999999a : Nat) expltBase)) (0x3ff8000000000000 : Nat)) fimpactBase)

/-- final step: `roundTo1Decimal ((at + (10 − at)·cdp)·td)` -/
def Ff (atf cdp td : Nat) : Nat :=
  GenV20.roundTo1Decimal (F64.mul (F64.add atf (F64.mul (F64.sub (0x4024000000000000 : Nat) atf) (GenV20.collateralDamagePotential cdp))) (GenV20.targetDistribution td))

theorem temporal_shape (r0 r1 r2 r3 r4 r5 r6 r7 r8 : Nat) :
    GenV20.TemporalScore_core r0 r1 r2 r3 r4 r5 r6 r7 r8 =
    T2f (GenV20.BaseScore_core r3 r4 r5 r6 r7 r8) r0 r1 r2 := by
  simp only [GenV20.TemporalScore_core, flet_eq, T2f]

theorem env_shape (r0 r1 r2 r3 r4 r5 r6 r7 r8 r9 r10 r11 r12 r13 : Nat) :
    GenV20.EnvironmentalScore_core r0 r1 r2 r3 r4 r5 r6 r7 r8 r9 r10 r11 r12 r13 =
    Ff (T2f (RBf r0 r1 r2 r3 r4 r5 r6 r7 r8) r9 r10 r11) r12 r13 := by
  simp only [GenV20.EnvironmentalScore_core, flet_eq, RBf, T2f, Ff]

/-! ## small generic facts -/

theorem all_range {n : Nat} {p : Nat → Bool} (h : (List.range n).all p = true) : ∀ i, i < n → p i = true := by
  intro i hi
  exact List.all_eq_true.1 h i (List.mem_range.2 hi)

theorem okStep_elim {x : Rat} {fl : Nat} {lo hi : Int} (h : okStep x fl lo hi = true) :
    ∃ k : Int, Near x k ∧ bitsOK fl k = true ∧ lo ≤ k ∧ k ≤ hi := by
  simp only [okStep, forceRat_eq, iflet_eq, Bool.or_eq_true] at h
  rcases h with h | h <;>
  · simp only [cand, near, Bool.and_eq_true, decide_eq_true_eq] at h
    exact ⟨_, h.1.1.2, h.1.1.1, h.1.2, h.2⟩

end Proofs.Score2
