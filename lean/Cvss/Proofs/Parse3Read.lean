import Cvss.Proofs.Parse3Loop
/-!
# v3 parser proofs, part 3: the executable recogniser `Spec.V3.read?` is exactly the grammar

`read? hdr s = some w ↔ Witness hdr s w` for every byte string; hence witnesses are unique and
`G hdr s ↔ (read? hdr s).isSome`. Also the "shape" consequences of the grammar used by the C01 corollaries.
-/
namespace Proofs.Parse3
open Spec (Bytes Pair Metric render joinSlash legal isMetric findMetric abvs valueOf allLegal SLASH COLON)

theorem stripPrefix_eq_some_iff (p s rest : Bytes) : Spec.stripPrefix p s = some rest ↔ s = p ++ rest := by
  unfold Spec.stripPrefix
  constructor
  · intro h
    by_cases hp : p.isPrefixOf s = true
    · rw [if_pos hp] at h
      have := eq_append_drop_of_prefix (List.isPrefixOf_iff_prefix.mp hp)
      cases h; exact this
    · rw [if_neg hp] at h; cases h
  · rintro rfl
    have : p.isPrefixOf (p ++ rest) = true := List.isPrefixOf_iff_prefix.mpr (List.prefix_append _ _)
    rw [if_pos this, List.drop_left]

theorem allLegalB_iff (ms : List Metric) (w : List Pair) : Spec.allLegalB ms w = true ↔ allLegal ms w := by
  simp [Spec.allLegalB, allLegal, List.all_eq_true]

theorem nodupB_iff (l : List Bytes) : Spec.nodupB l = true ↔ l.Nodup := by
  induction l with
  | nil => simp [Spec.nodupB]
  | cons x xs ih => simp [Spec.nodupB, ih, List.nodup_cons]

/-- the three boolean checks of `read?` are the three side conditions of `Witness` -/
theorem checks_iff (w : List Pair) :
    (Spec.allLegalB Spec.V3.metrics w && Spec.nodupB (w.map (·.1)) &&
      (abvs Spec.V3.base).all (fun a => (w.map (·.1)).contains a)) = true ↔ IsWit w := by
  rw [Bool.and_eq_true, Bool.and_eq_true, allLegalB_iff, nodupB_iff, List.all_eq_true]
  unfold IsWit
  constructor
  · rintro ⟨⟨h1, h2⟩, h3⟩
    refine ⟨h1, h2, fun m hm => ?_⟩
    exact List.contains_iff_mem.mp (h3 m.abv (List.mem_map.mpr ⟨m, hm, rfl⟩))
  · rintro ⟨h1, h2, h3⟩
    refine ⟨⟨h1, h2⟩, fun a ha => ?_⟩
    obtain ⟨m, hm, rfl⟩ := List.mem_map.mp ha
    exact List.contains_iff_mem.mpr (h3 m hm)

/-- **the executable recogniser is exactly the grammar**, and returns the witness -/
theorem read?_eq_some_iff (hdr s : Bytes) (w : List Pair) :
    Spec.V3.read? hdr s = some w ↔ Spec.V3.Witness hdr s w := by
  rw [witness_iff]
  constructor
  · intro h
    unfold Spec.V3.read? at h
    cases hs : Spec.stripPrefix (hdr ++ [SLASH]) s with
    | none => simp [hs] at h
    | some rest =>
      simp only [hs] at h
      cases hr : Spec.readPairs (Spec.splitSlash rest) with
      | none => simp [hr] at h
      | some w' =>
        simp only [hr] at h
        by_cases hc : (Spec.allLegalB Spec.V3.metrics w' && Spec.nodupB (w'.map (·.1)) &&
            (abvs Spec.V3.base).all (fun a => (w'.map (·.1)).contains a)) = true
        · rw [if_pos hc] at h
          cases h
          obtain ⟨e1, _⟩ := readPairs_sound _ _ hr
          have e2 := (stripPrefix_eq_some_iff _ _ _).mp hs
          refine ⟨?_, (checks_iff _).mp hc⟩
          rw [← e1, joinSlash_splitSlash, e2, List.append_assoc]; rfl
        · rw [if_neg hc] at h; cases h
  · rintro ⟨rfl, hw⟩
    unfold Spec.V3.read?
    have hs : Spec.stripPrefix (hdr ++ [SLASH]) (hdr ++ SLASH :: joinSlash (w.map render)) =
        some (joinSlash (w.map render)) := by
      rw [stripPrefix_eq_some_iff, List.append_assoc]; rfl
    have hcol : ∀ p ∈ w, COLON ∉ p.1 := by
      intro p hp
      obtain ⟨_, _, _, _, _, h, _⟩ := legal_v3 (hw.1 p hp)
      exact h
    simp only [hs, splitSlash_joinSlash _ (by simpa using hw.ne_nil) hw.no_slash,
      readPairs_complete w hcol]
    rw [if_pos ((checks_iff w).mpr hw)]

theorem witness_unique {hdr s : Bytes} {w₁ w₂ : List Pair}
    (h₁ : Spec.V3.Witness hdr s w₁) (h₂ : Spec.V3.Witness hdr s w₂) : w₁ = w₂ := by
  have e₁ := (read?_eq_some_iff hdr s w₁).mpr h₁
  have e₂ := (read?_eq_some_iff hdr s w₂).mpr h₂
  rw [e₁] at e₂
  exact Option.some.inj e₂

theorem G_iff_read? (hdr s : Bytes) : Spec.V3.G hdr s ↔ (Spec.V3.read? hdr s).isSome = true := by
  unfold Spec.V3.G
  constructor
  · rintro ⟨w, hw⟩; rw [(read?_eq_some_iff hdr s w).mpr hw]; rfl
  · intro h
    cases hr : Spec.V3.read? hdr s with
    | none => simp [hr] at h
    | some w => exact ⟨w, (read?_eq_some_iff hdr s w).mp hr⟩

instance (hdr s : Bytes) : Decidable (Spec.V3.G hdr s) := decidable_of_iff _ (G_iff_read? hdr s).symm

/-! ## shape consequences -/

/-- splitting at a `/` splits the element lists -/
theorem splitSlash_append_slash' (a r : Bytes) :
    Spec.splitSlash (a ++ SLASH :: r) = Spec.splitSlash a ++ Spec.splitSlash r := by
  induction a with
  | nil => simp [Spec.splitSlash]
  | cons c cs ih =>
    by_cases hc : c = SLASH
    · subst hc
      simp only [List.cons_append, splitSlash_cons_slash, ih]
    · obtain ⟨h, t, h1, h2⟩ := splitSlash_cons_other cs hc
      rw [h2, List.cons_append]
      simp [Spec.splitSlash, hc, ih, h1]

theorem mem_joinSlash {parts : List Bytes} {x : Nat} (h : x ∈ joinSlash parts) :
    x = SLASH ∨ ∃ part ∈ parts, x ∈ part := by
  induction parts with
  | nil => simp [joinSlash] at h
  | cons y ys ih =>
    cases ys with
    | nil => exact Or.inr ⟨y, by simp, h⟩
    | cons z zs =>
      rw [joinSlash_cons_of_ne_nil _ (by simp)] at h
      rcases List.mem_append.mp h with h | h
      · exact Or.inr ⟨y, by simp, h⟩
      · rcases List.mem_cons.mp h with h | h
        · exact Or.inl h
        · rcases ih h with h | ⟨part, hp, hx⟩
          · exact Or.inl h
          · exact Or.inr ⟨part, by simp [hp], hx⟩

/-- the elements of a grammatical vector, as the byte scan sees them, are the rendered witness pairs -/
theorem witness_elements {hdr s : Bytes} {w : List Pair} (h : Spec.V3.Witness hdr s w) :
    s.drop (hdr.length + 1) = joinSlash (w.map render) ∧
    Spec.splitSlash (s.drop (hdr.length + 1)) = w.map render := by
  obtain ⟨rfl, hw⟩ := (witness_iff _ _ _).mp h
  have : (hdr ++ SLASH :: joinSlash (w.map render)).drop (hdr.length + 1) = joinSlash (w.map render) := by
    have e : hdr ++ SLASH :: joinSlash (w.map render) = (hdr ++ [SLASH]) ++ joinSlash (w.map render) := by simp
    have l : hdr.length + 1 = (hdr ++ [SLASH]).length := by simp
    rw [e, l, List.drop_left]
  rw [this]
  exact ⟨rfl, splitSlash_joinSlash _ (by simpa using hw.ne_nil) hw.no_slash⟩

theorem render_ne_nil (p : Pair) : render p ≠ [] := by simp [render]

/-- after the header an accepted string consists of `/`, `:` and upper-case ASCII letters only -/
theorem G_body_bytes {hdr s : Bytes} (h : Spec.V3.G hdr s) :
    ∀ x ∈ s.drop hdr.length, x = SLASH ∨ x = COLON ∨ (65 ≤ x ∧ x ≤ 90) := by
  obtain ⟨w, hw0⟩ := h
  obtain ⟨hs, hw⟩ := (witness_iff _ _ _).mp hw0
  subst hs
  rw [List.drop_left]
  intro x hx
  rcases List.mem_cons.mp hx with hx | hx
  · exact Or.inl hx
  · rcases mem_joinSlash hx with hx | ⟨part, hp, hx⟩
    · exact Or.inl hx
    · obtain ⟨p, hpw, rfl⟩ := List.mem_map.mp hp
      obtain ⟨m, hm, habv, _, hv, _⟩ := legal_v3 (hw.1 p hpw)
      obtain ⟨u1, u2⟩ := tbl_upper m hm
      rcases List.mem_append.mp hx with hx | hx
      · exact Or.inr (Or.inr (u1 x (habv ▸ hx)))
      · rcases List.mem_cons.mp hx with hx | hx
        · exact Or.inr (Or.inl hx)
        · exact Or.inr (Or.inr (u2 _ hv x hx))

/-- every element of an accepted string is `abv:value` for a legal pair — in particular non-empty -/
theorem G_elements {hdr s : Bytes} (h : Spec.V3.G hdr s) :
    ∀ el ∈ Spec.splitSlash (s.drop (hdr.length + 1)),
      ∃ p : Pair, el = render p ∧ legal Spec.V3.metrics p.1 p.2 = true := by
  obtain ⟨w, hw⟩ := h
  rw [(witness_elements hw).2]
  intro el hel
  obtain ⟨p, hp, rfl⟩ := List.mem_map.mp hel
  exact ⟨p, rfl, hw.2.1 p hp⟩

theorem G_no_empty {hdr s : Bytes} (h : Spec.V3.G hdr s) : [] ∉ Spec.splitSlash (s.drop (hdr.length + 1)) := by
  intro hin
  obtain ⟨p, hp, _⟩ := G_elements h [] hin
  exact render_ne_nil p hp.symm

theorem snoc_of_append_eq_snoc {a b t : Bytes} {x : Nat} (h : a ++ b = t ++ [x]) (hb : b ≠ []) :
    ∃ b', b = b' ++ [x] := by
  rcases List.append_eq_append_iff.mp h with ⟨a', _, h2⟩ | ⟨c', _, h2⟩
  · exact ⟨a', h2⟩
  · cases c' with
    | nil => exact ⟨[], by simpa using h2.symm⟩
    | cons y ys =>
      have := congrArg List.length h2
      simp only [List.length_cons, List.length_nil, List.length_append] at this
      cases b with
      | nil => exact absurd rfl hb
      | cons z zs => simp at this; omega

theorem G_no_double_slash {hdr s : Bytes} (h : Spec.V3.G hdr s) (a b : Bytes) :
    s ≠ hdr ++ SLASH :: (a ++ SLASH :: SLASH :: b) := by
  rintro rfl
  apply G_no_empty h
  have e : hdr ++ SLASH :: (a ++ SLASH :: SLASH :: b) = (hdr ++ [SLASH]) ++ (a ++ SLASH :: SLASH :: b) := by simp
  have l : hdr.length + 1 = (hdr ++ [SLASH]).length := by simp
  rw [e, l, List.drop_left, splitSlash_append_slash', splitSlash_cons_slash]
  simp

theorem G_no_trailing_slash {hdr s : Bytes} (h : Spec.V3.G hdr s) (t : Bytes) : s ≠ t ++ [SLASH] := by
  intro hs
  have hne := G_no_empty h
  obtain ⟨w, hw⟩ := h
  have hel := witness_elements hw
  obtain ⟨e, _⟩ := (witness_iff _ _ _).mp hw
  rw [hel.1] at hne
  rw [e] at hs
  obtain ⟨b', hb'⟩ := snoc_of_append_eq_snoc hs (by simp)
  cases b' with
  | nil =>
    have : joinSlash (w.map render) = [] := by simpa using hb'
    rw [this] at hne
    exact hne (by simp [Spec.splitSlash])
  | cons y ys =>
    have : joinSlash (w.map render) = ys ++ [SLASH] := by
      have := List.tail_eq_of_cons_eq hb'
      simpa using this
    rw [this, splitSlash_snoc_slash] at hne
    exact hne (by simp)

end Proofs.Parse3
