import Cvss.Proofs.Parse2Core
/-!
# v2.0 parser proofs, part 6: the executable recogniser `Spec.V2.read?` returns exactly the witness
-/
namespace Proofs.Parse2
open Model (Bytes)
open Spec (joinSlash render Pair abvs legal allLegal)
open Spec.V2 (metrics shapes Witness G)

theorem allLegalB_iff (w : List Pair) : Spec.allLegalB metrics w = true ↔ allLegal metrics w := by
  unfold Spec.allLegalB allLegal
  rw [List.all_eq_true]

theorem read_iff (s : Bytes) (w : List Pair) : Spec.V2.read? s = some w ↔ Witness s w := by
  unfold Spec.V2.read?
  constructor
  · intro h
    cases hr : Spec.readPairs (Spec.splitSlash s) with
    | none => simp [hr] at h
    | some w' =>
      simp only [hr] at h
      split at h
      · rename_i hc
        cases h
        rw [Bool.and_eq_true, List.contains_iff_mem, allLegalB_iff] at hc
        refine ⟨?_, hc.1, hc.2⟩
        rw [render_of_readPairs _ _ hr, joinSlash_splitSlash]
      · cases h
  · rintro ⟨hs, hsh, hl⟩
    obtain ⟨hne, _⟩ := witness_len hsh
    subst hs
    rw [splitSlash_join _ (render_noslash_of_legal hl) (by simpa using hne),
      readPairs_render w (fun p hp => (legal_clean (hl p hp)).colon)]
    have h1 : shapes.contains (w.map (·.1)) = true := List.contains_iff_mem.mpr hsh
    have h2 : Spec.allLegalB metrics w = true := (allLegalB_iff w).mpr hl
    simp only [h1, h2, Bool.and_self, if_true]

theorem read_isSome_iff (s : Bytes) : (Spec.V2.read? s).isSome = true ↔ G s := by
  constructor
  · intro h
    cases hr : Spec.V2.read? s with
    | none => simp [hr] at h
    | some w => exact ⟨w, (read_iff s w).mp hr⟩
  · rintro ⟨w, hw⟩
    rw [(read_iff s w).mpr hw]; rfl

/-- a grammatical v2.0 string starts with `AV:` -/
theorem witness_prefix {s : Bytes} {w : List Pair} (h : Witness s w) : [65, 86, 58] <+: s := by
  obtain ⟨hs, hsh, _⟩ := h
  have hh := shapes_head _ hsh
  cases w with
  | nil => simp at hh
  | cons p w' =>
    simp only [List.map_cons, List.head?_cons, Option.some.injEq] at hh
    subst hs
    have hr : render p = [65, 86, 58] ++ p.2 := by
      unfold render; rw [hh, spec_colon]; rfl
    cases w' with
    | nil => exact ⟨p.2, by simp [joinSlash, hr]⟩
    | cons q w'' =>
      refine ⟨p.2 ++ 47 :: joinSlash ((q :: w'').map render), ?_⟩
      simp only [List.map_cons]
      rw [joinSlash_cons_cons, hr]
      simp

end Proofs.Parse2
