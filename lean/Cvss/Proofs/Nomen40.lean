import Cvss.Proofs.Bits40
/-!
# CVSS v4.0 `Nomenclature` (C16), from the generated code

`nomenclature_eq`: for **every byte state** `c` (well formed or not)

  `c.nomenclature = "CVSS-B" ++ (if Get("E") ≠ "X" then "T") ++ (if ∃ m ∈ environmental, Get(m) ≠ "X" then "E")`

with the groups taken from the Spec tables. It holds on non-well-formed bytes as well: there an out-of-range
code makes `Get` answer `""`, which is `≠ "X"`, and `Nomenclature` (which tests raw bits `≠ 0`) agrees —
"defined" is "code ≠ 0" on both sides (`get_ne_X`). The hypothesis `IsBytes` cannot be dropped for the
`Nat`-valued model (`nomenclature_needs_bytes`: `u3 = 256` reads as all-`X` but is `≠ 0`); Go's `uint8`
fields always satisfy it.
-/
set_option maxRecDepth 100000
namespace Proofs.B40
open Spec (Metric legal isMetric findMetric)
open Model (O40)

/-! ## "not defined" is code 0 for the threat and environmental metrics (Spec rows 11 … 25) -/

theorem threat_row : Spec.V4.threat = [met 11] := by decide
theorem env_rows : Spec.V4.environmental =
    [met 12, met 13, met 14, met 15, met 16, met 17, met 18, met 19, met 20, met 21, met 22, met 23, met 24, met 25] := by
  decide
theorem abv_E : (met 11).abv = Spec.b "E" := by decide

theorem gval_X : ∀ k, k < 26 → 11 ≤ k → 0 < nv k ∧ ∀ i, i < nv k → ((gvals k).getD i [] = Spec.b "X" ↔ i = 0) := by
  decide +kernel

/-- `Get(m) ≠ "X"` iff the stored code is not 0 — for every code, legal or not -/
theorem get_ne_X (c : O40) {k : Nat} (h1 : 11 ≤ k) (h2 : k < 26) :
    (c.get (met k).abv).1 ≠ Spec.b "X" ↔ code k c ≠ 0 := by
  have hk : k < 32 := by omega
  show (c.get (abv k)).1 ≠ _ ↔ _
  rw [get_idx c k hk]
  obtain ⟨hpos, hx⟩ := gval_X k h2 h1
  by_cases hi : code k c < nv k
  · exact not_congr (hx _ hi)
  · have : (gvals k).getD (code k c) [] = [] := getD_ge (by rw [gvals_length k hk]; omega)
    show (gvals k).getD (code k c) [] ≠ _ ↔ _
    rw [this]
    constructor
    · intro _; omega
    · intro _; decide

/-! ## the codes involved, as pieces -/

theorem code_11 (c : O40) : code 11 c = (D2 c.u2).getD 2 0 := rfl
theorem code_12 (c : O40) : code 12 c = (D2 c.u2).getD 3 0 := rfl
theorem code_13 (c : O40) : code 13 c = (D3 c.u3).getD 0 0 := rfl
theorem code_14 (c : O40) : code 14 c = (D3 c.u3).getD 1 0 := rfl
theorem code_15 (c : O40) : code 15 c = (D3 c.u3).getD 2 0 := rfl
theorem code_16 (c : O40) : code 16 c = (D3 c.u3).getD 3 0 ||| (D4 c.u4).getD 0 0 := rfl
theorem code_17 (c : O40) : code 17 c = (D4 c.u4).getD 1 0 := rfl
theorem code_18 (c : O40) : code 18 c = (D4 c.u4).getD 2 0 := rfl
theorem code_19 (c : O40) : code 19 c = (D4 c.u4).getD 3 0 := rfl
theorem code_20 (c : O40) : code 20 c = (D4 c.u4).getD 4 0 ||| (D5 c.u5).getD 0 0 := rfl
theorem code_21 (c : O40) : code 21 c = (D5 c.u5).getD 1 0 := rfl
theorem code_22 (c : O40) : code 22 c = (D5 c.u5).getD 2 0 := rfl
theorem code_23 (c : O40) : code 23 c = (D5 c.u5).getD 3 0 := rfl
theorem code_24 (c : O40) : code 24 c = (D5 c.u5).getD 4 0 ||| (D6 c.u6).getD 0 0 := rfl
theorem code_25 (c : O40) : code 25 c = (D6 c.u6).getD 1 0 := rfl

/-! ## the bit tests of `Nomenclature`, one byte at a time -/

theorem N2t : ∀ u, u < 256 → (Nat.land u 12 ≠ 0 ↔ (D2 u).getD 2 0 ≠ 0) := by decide +kernel
theorem N2e : ∀ u, u < 256 → (Nat.land u 3 ≠ 0 ↔ (D2 u).getD 3 0 ≠ 0) := by decide +kernel
theorem N3 : ∀ u, u < 256 → (u ≠ 0 ↔
    ((D3 u).getD 0 0 ≠ 0 ∨ (D3 u).getD 1 0 ≠ 0 ∨ (D3 u).getD 2 0 ≠ 0 ∨ (D3 u).getD 3 0 ≠ 0)) := by decide +kernel
theorem N4 : ∀ u, u < 256 → (u ≠ 0 ↔
    ((D4 u).getD 0 0 ≠ 0 ∨ (D4 u).getD 1 0 ≠ 0 ∨ (D4 u).getD 2 0 ≠ 0 ∨ (D4 u).getD 3 0 ≠ 0 ∨ (D4 u).getD 4 0 ≠ 0)) := by
  decide +kernel
theorem N5 : ∀ u, u < 256 → (u ≠ 0 ↔
    ((D5 u).getD 0 0 ≠ 0 ∨ (D5 u).getD 1 0 ≠ 0 ∨ (D5 u).getD 2 0 ≠ 0 ∨ (D5 u).getD 3 0 ≠ 0 ∨ (D5 u).getD 4 0 ≠ 0)) := by
  decide +kernel
theorem N6 : ∀ u, u < 256 → (Nat.land u 248 ≠ 0 ↔ ((D6 u).getD 0 0 ≠ 0 ∨ (D6 u).getD 1 0 ≠ 0)) := by decide +kernel

/-! ## the generated function -/

/-- the four-way choice at the end of `Nomenclature` -/
def nomB (t e : Bool) : List Nat :=
  cond t (cond e (Spec.b "CVSS-BTE") (Spec.b "CVSS-BT")) (cond e (Spec.b "CVSS-BE") (Spec.b "CVSS-B"))

theorem nb (r : Nat) : (!(Nat.beq r 0)) = true ↔ r ≠ 0 := by cases r <;> simp [Nat.beq]

theorem nomenclature_core (r0 r1 r2 r3 r4 r5 : Nat) :
    GenV40.Nomenclature_core r0 r1 r2 r3 r4 r5 =
      nomB (!(Nat.beq r0 0))
        (((((!(Nat.beq r1 0)) || (!(Nat.beq r2 0))) || (!(Nat.beq r3 0))) || (!(Nat.beq r4 0))) || (!(Nat.beq r5 0))) := by
  unfold GenV40.Nomenclature_core nomB
  cases (!(Nat.beq r0 0)) <;>
    cases (((((!(Nat.beq r1 0)) || (!(Nat.beq r2 0))) || (!(Nat.beq r3 0))) || (!(Nat.beq r4 0))) || (!(Nat.beq r5 0))) <;>
    decide

theorem nomB_eq (t e : Bool) (P Q : Prop) [Decidable P] [Decidable Q] (hT : t = true ↔ P) (hE : e = true ↔ Q) :
    nomB t e = Spec.b "CVSS-B" ++ (if P then Spec.b "T" else []) ++ (if Q then Spec.b "E" else []) := by
  cases t <;> cases e
  · rw [if_neg (fun p => absurd (hT.2 p) (by decide)), if_neg (fun q => absurd (hE.2 q) (by decide))]; decide
  · rw [if_neg (fun p => absurd (hT.2 p) (by decide)), if_pos (hE.1 rfl)]; decide
  · rw [if_pos (hT.1 rfl), if_neg (fun q => absurd (hE.2 q) (by decide))]; decide
  · rw [if_pos (hT.1 rfl), if_pos (hE.1 rfl)]; decide

/-- **C16.** `Nomenclature` in terms of the Spec groups, for every byte state. -/
theorem nomenclature_eq (c : O40) (hc : c.IsBytes) :
    c.nomenclature = Spec.b "CVSS-B"
      ++ (if (c.get (Spec.b "E")).1 ≠ Spec.b "X" then Spec.b "T" else [])
      ++ (if ∃ m ∈ Spec.V4.environmental, (c.get m.abv).1 ≠ Spec.b "X" then Spec.b "E" else []) := by
  obtain ⟨_, _, h2, h3, h4, h5, h6, _, _⟩ := hc
  show GenV40.Nomenclature_core (Nat.land c.u2 12) (Nat.land c.u2 3) c.u3 c.u4 c.u5 (Nat.land c.u6 248) = _
  rw [nomenclature_core]
  apply nomB_eq
  · rw [nb, ← abv_E, get_ne_X c (by decide) (by decide), code_11]
    exact N2t _ h2
  · simp only [Bool.or_eq_true, nb, env_rows, List.mem_cons, List.not_mem_nil, or_false, exists_eq_or_imp,
      exists_eq_left]
    rw [get_ne_X c (k := 12) (by decide) (by decide), get_ne_X c (k := 13) (by decide) (by decide),
      get_ne_X c (k := 14) (by decide) (by decide), get_ne_X c (k := 15) (by decide) (by decide),
      get_ne_X c (k := 16) (by decide) (by decide), get_ne_X c (k := 17) (by decide) (by decide),
      get_ne_X c (k := 18) (by decide) (by decide), get_ne_X c (k := 19) (by decide) (by decide),
      get_ne_X c (k := 20) (by decide) (by decide), get_ne_X c (k := 21) (by decide) (by decide),
      get_ne_X c (k := 22) (by decide) (by decide), get_ne_X c (k := 23) (by decide) (by decide),
      get_ne_X c (k := 24) (by decide) (by decide), get_ne_X c (k := 25) (by decide) (by decide),
      code_12, code_13, code_14, code_15, code_16, code_17, code_18, code_19, code_20, code_21, code_22,
      code_23, code_24, code_25, N2e _ h2, N3 _ h3, N4 _ h4, N5 _ h5, N6 _ h6]
    simp only [ne_eq, Nat.or_eq_zero_iff]
    omega

/-- the value of `Nomenclature` depends only on whether `E` and the environmental metrics are defined:
    base and supplemental metrics never affect it -/
theorem nomenclature_congr (c c' : O40) (hc : c.IsBytes) (hc' : c'.IsBytes)
    (hE : (c.get (Spec.b "E")).1 = (c'.get (Spec.b "E")).1)
    (hEnv : ∀ m ∈ Spec.V4.environmental, (c.get m.abv).1 = (c'.get m.abv).1) :
    c.nomenclature = c'.nomenclature := by
  rw [nomenclature_eq c hc, nomenclature_eq c' hc', hE]
  have : (∃ m ∈ Spec.V4.environmental, (c.get m.abv).1 ≠ Spec.b "X") ↔
      (∃ m ∈ Spec.V4.environmental, (c'.get m.abv).1 ≠ Spec.b "X") :=
    ⟨fun ⟨m, hm, h⟩ => ⟨m, hm, by rw [← hEnv m hm]; exact h⟩, fun ⟨m, hm, h⟩ => ⟨m, hm, by rw [hEnv m hm]; exact h⟩⟩
  simp only [this]

theorem base_supp_not_threat_env : ∀ m ∈ Spec.V4.base ++ Spec.V4.supplemental,
    m.abv ≠ Spec.b "E" ∧ ∀ m' ∈ Spec.V4.environmental, m'.abv ≠ m.abv := by decide
theorem base_supp_metrics : ∀ m ∈ Spec.V4.base ++ Spec.V4.supplemental, m ∈ Spec.V4.metrics := by decide
theorem env_metrics : ∀ m ∈ Spec.V4.environmental, isMetric Spec.V4.metrics m.abv = true := by decide

/-- storing any value in a base or supplemental metric leaves `Nomenclature` unchanged -/
theorem nomenclature_set_base_supp (c : O40) (hc : c.IsBytes) (m : Metric)
    (hm : m ∈ Spec.V4.base ++ Spec.V4.supplemental) (v : List Nat) :
    (c.set m.abv v).1.nomenclature = c.nomenclature := by
  cases hl : legal Spec.V4.metrics m.abv v with
  | false => rw [(set_fail c _ _ hl).1]
  | true =>
    obtain ⟨hne, henv⟩ := base_supp_not_threat_env m hm
    apply nomenclature_congr _ _ (set_isBytes c _ _ hc) hc
    · rw [get_set_other c _ _ _ hl (by decide) hne.symm]
    · intro m' hm'
      rw [get_set_other c _ _ _ hl (env_metrics m' hm') (henv m' hm')]

/-- the byte hypothesis matters only for the `Nat` model: a "byte" of 256 is `≠ 0` but reads as all-`X` -/
theorem nomenclature_needs_bytes :
    let c : O40 := ⟨0, 0, 0, 256, 0, 0, 0, 0, 0⟩
    c.nomenclature = Spec.b "CVSS-BE" ∧ ∀ m ∈ Spec.V4.environmental, (c.get m.abv).1 = Spec.b "X" := by
  decide +kernel

end Proofs.B40
