import Cvss.Proofs.Score3MonoDefs
/-! C12 (v3.1), Spec enumeration, family A (steps in MC MI MA CR IR AR MPR MUI), Modified attack vector code 1:
    4 chunks of 4,374 exact evaluations of the v3.1 modified base score. No code involved. -/
namespace Proofs.Score3.Mono
set_option maxRecDepth 20000 in
set_option maxHeartbeats 4000000 in
theorem monoA_0_1_0 : monoA true 0 1 0 = true := by decide +kernel
set_option maxRecDepth 20000 in
set_option maxHeartbeats 4000000 in
theorem monoA_0_1_1 : monoA true 0 1 1 = true := by decide +kernel
set_option maxRecDepth 20000 in
set_option maxHeartbeats 4000000 in
theorem monoA_1_1_0 : monoA true 1 1 0 = true := by decide +kernel
set_option maxRecDepth 20000 in
set_option maxHeartbeats 4000000 in
theorem monoA_1_1_1 : monoA true 1 1 1 = true := by decide +kernel
end Proofs.Score3.Mono
