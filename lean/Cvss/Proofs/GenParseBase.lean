import Cvss.Base.Go
import Cvss.Model.Parse
/-!
# Shared lemmas for the parser ties (`GenPxx.ParseVector = Model.parseXX`)

Facts about the combinators of `Cvss/Base/Go.lean` that the generated parsers use (`Go.forN`, `Go.index`,
`Go.slice…`, `Go.cut`, `Go.hasPrefix`) and list bookkeeping for index-based scans. Core only.
-/
namespace GenParse
open Model

/-! ## Boolean comparisons on `Nat` -/

theorem ble_true {a b : Nat} (h : a ≤ b) : Nat.ble a b = true := Nat.ble_eq_true_of_le h
theorem ble_false {a b : Nat} (h : b < a) : Nat.ble a b = false := by
  cases e : Nat.ble a b with
  | false => rfl
  | true => exact absurd (Nat.le_of_ble_eq_true e) (by omega)
theorem blt_true {a b : Nat} (h : a < b) : Nat.blt a b = true := ble_true h
theorem blt_false {a b : Nat} (h : b ≤ a) : Nat.blt a b = false := ble_false (by omega)
theorem beq_false {a b : Nat} (h : a ≠ b) : Nat.beq a b = false := by
  cases e : Nat.beq a b with
  | false => rfl
  | true => exact absurd (Nat.eq_of_beq_eq_true e) h
theorem beq_true {a b : Nat} (h : a = b) : Nat.beq a b = true := by subst h; exact Nat.beq_refl a

/-! ## checked operations -/

theorem index_some {α ρ : Type} {s : List α} {i : Nat} {x : α} (h : s[i]? = some x) (p : ρ) (k : α → ρ) :
    Go.index s i p k = k x := by simp [Go.index, h]

theorem index_none {α ρ : Type} {s : List α} {i : Nat} (h : s.length ≤ i) (p : ρ) (k : α → ρ) :
    Go.index s i p k = p := by
  have : s[i]? = none := List.getElem?_eq_none h
  simp [Go.index, this]

theorem slice_ok {α ρ : Type} (s : List α) {lo hi : Nat} (h1 : lo ≤ hi) (h2 : hi ≤ s.length) (p : ρ)
    (k : List α → ρ) : Go.slice s lo hi p k = k ((s.take hi).drop lo) := by
  have a : Nat.ble lo hi = true := Nat.ble_eq_true_of_le h1
  have b : Nat.ble hi s.length = true := Nat.ble_eq_true_of_le h2
  simp [Go.slice, a, b]

theorem sliceFrom_ok {α ρ : Type} (s : List α) {lo : Nat} (h : lo ≤ s.length) (p : ρ) (k : List α → ρ) :
    Go.sliceFrom s lo p k = k (s.drop lo) := by
  have a : Nat.ble lo s.length = true := Nat.ble_eq_true_of_le h
  simp [Go.sliceFrom, a]

theorem sliceTo_ok {α ρ : Type} (s : List α) {hi : Nat} (h : hi ≤ s.length) (p : ρ) (k : List α → ρ) :
    Go.sliceTo s hi p k = k (s.take hi) := by
  have a : Nat.ble hi s.length = true := Nat.ble_eq_true_of_le h
  simp [Go.sliceTo, a]

theorem setIndex_ok {α ρ : Type} (s : List α) {i : Nat} (v : α) (h : i < s.length) (p : ρ) (k : List α → ρ) :
    Go.setIndex s i v p k = k (s.set i v) := by
  have a : Nat.blt i s.length = true := blt_true h
  simp [Go.setIndex, a]

/-! ## `Go.forN` -/

theorem forN_zero {σ ρ : Type} (st : σ) (cnd : σ → Bool) (post : σ → σ) (body : σ → Go.Ctl σ ρ) :
    Go.forN 0 st cnd post body = .fuel := rfl

theorem forN_stop {σ ρ : Type} (n : Nat) (st : σ) (cnd : σ → Bool) (post : σ → σ) (body : σ → Go.Ctl σ ρ)
    (h : cnd st = false) : Go.forN (n + 1) st cnd post body = .done st := by
  simp [Go.forN, h]

theorem forN_next {σ ρ : Type} (n : Nat) (st s' : σ) (cnd : σ → Bool) (post : σ → σ) (body : σ → Go.Ctl σ ρ)
    (h : cnd st = true) (hb : body st = .next s') :
    Go.forN (n + 1) st cnd post body = Go.forN n (post s') cnd post body := by
  simp [Go.forN, h, hb]

theorem forN_brk {σ ρ : Type} (n : Nat) (st s' : σ) (cnd : σ → Bool) (post : σ → σ) (body : σ → Go.Ctl σ ρ)
    (h : cnd st = true) (hb : body st = .brk s') : Go.forN (n + 1) st cnd post body = .done s' := by
  simp [Go.forN, h, hb]

theorem forN_ret {σ ρ : Type} (n : Nat) (st : σ) (r : ρ) (cnd : σ → Bool) (post : σ → σ) (body : σ → Go.Ctl σ ρ)
    (h : cnd st = true) (hb : body st = .ret r) : Go.forN (n + 1) st cnd post body = .ret r := by
  simp [Go.forN, h, hb]

/-! ## list bookkeeping for scans: `v = pre ++ seg ++ rest`, position `pre.length + seg.length` -/

theorem getElem?_at {α : Type} (pre seg : List α) (x : α) (rest : List α) :
    (pre ++ seg ++ x :: rest)[pre.length + seg.length]? = some x := by
  rw [← List.length_append]
  simp

theorem take_drop_seg {α : Type} (pre seg rest : List α) :
    ((pre ++ seg ++ rest).take (pre.length + seg.length)).drop pre.length = seg := by
  rw [← List.length_append, List.take_left' rfl]
  simp

theorem drop_seg {α : Type} (pre rest : List α) : (pre ++ rest).drop pre.length = rest := by simp

/-! ## `strings.Cut` on `":"`, `strings.HasPrefix` -/

theorem cutAux_colon (s : Bytes) :
    Go.cutAux [58] s = if 58 ∈ s then some (cutColon s) else none := by
  induction s with
  | nil => simp [Go.cutAux]
  | cons c cs ih =>
    by_cases hc : c = 58
    · subst hc
      simp [Go.cutAux, cutColon, COLON, List.isPrefixOf]
    · have h1 : (58 == c) = false := by simpa using fun h => hc h.symm
      have h2 : ([58] : List Nat).isPrefixOf (c :: cs) = false := by
        simp [List.isPrefixOf, h1]
      by_cases hm : 58 ∈ cs
      · simp [Go.cutAux, h2, ih, hm, cutColon, COLON, hc]
      · have h3 : ¬ 58 = c := fun h => hc h.symm
        simp [Go.cutAux, h2, ih, hm, h3]

theorem cutColon_no_colon (s : Bytes) (h : 58 ∉ s) : cutColon s = (s, []) := by
  induction s with
  | nil => simp [cutColon]
  | cons c cs ih =>
    have hc : c ≠ 58 := fun e => h (by simp [e])
    have hcs : 58 ∉ cs := fun e => h (by simp [e])
    simp [cutColon, COLON, hc, ih hcs]

/-- `strings.Cut(pt, ":")` is `Model.cutColon` (plus the `found` flag) -/
theorem cut_colon (s : Bytes) : Go.cut s [58] = ((cutColon s).1, (cutColon s).2, decide (58 ∈ s)) := by
  unfold Go.cut
  rw [cutAux_colon]
  by_cases h : 58 ∈ s
  · simp [h]
  · simp [h, cutColon_no_colon s h]

theorem hasPrefix_eq (s p : Bytes) : Go.hasPrefix s p = Model.hasPrefix s p := rfl

theorem length_le_of_hasPrefix {s p : Bytes} (h : Go.hasPrefix s p = true) : p.length ≤ s.length := by
  have : p <+: s := List.isPrefixOf_iff_prefix.mp h
  exact this.length_le

/-! ## `Model.splitSlash` in accumulator form -/

theorem splitSlash_ne_nil (s : Bytes) : splitSlash s ≠ [] := by
  cases s with
  | nil => simp [splitSlash]
  | cons c cs =>
    unfold splitSlash
    split
    · simp
    · split <;> simp

theorem splitSlash_seg_nil (seg : Bytes) (h : 47 ∉ seg) : splitSlash seg = [seg] := by
  induction seg with
  | nil => simp [splitSlash]
  | cons c cs ih =>
    have hc : c ≠ 47 := fun e => h (by simp [e])
    have hcs : 47 ∉ cs := fun e => h (by simp [e])
    simp [splitSlash, SLASH, hc, ih hcs]

theorem splitSlash_seg_slash (seg rest : Bytes) (h : 47 ∉ seg) :
    splitSlash (seg ++ 47 :: rest) = seg :: splitSlash rest := by
  induction seg with
  | nil => simp [splitSlash, SLASH]
  | cons c cs ih =>
    have hc : c ≠ 47 := fun e => h (by simp [e])
    have hcs : 47 ∉ cs := fun e => h (by simp [e])
    simp [splitSlash, SLASH, hc, ih hcs]

/-! ## result conversion -/

/-- a generated result (`Go.Res` of the byte tuple) as a `Model.Res` of the object -/
def ofGo {α β : Type} (f : α → β) : Go.Res α → Model.Res β
  | .ok c => .ok (f c)
  | .err e => .err e
  | .panic => .panic

/-- map on `Model.Res` -/
def mapRes {α β : Type} (f : α → β) : Model.Res α → Model.Res β
  | .ok c => .ok (f c)
  | .err e => .err e
  | .panic => .panic

theorem mapRes_id {α : Type} (r : Model.Res α) : mapRes id r = r := by cases r <;> rfl
theorem mapRes_ofGo {α β γ : Type} (f : α → β) (g : β → γ) (r : Go.Res α) :
    mapRes g (ofGo f r) = ofGo (g ∘ f) r := by cases r <;> rfl

end GenParse
