import Cvss.Proofs.Bits31
import Cvss.Spec.Effective
/-!
# CVSS v3.1: the scores depend on the metrics only through their effective values (C10)

* `base_codes`, `temporal_codes`, `env_codes`: the generated `BaseScore`/`TemporalScore`/`EnvironmentalScore`
  are their `_core` functions applied to the field codes that `Get` decodes (`Bits31.codes`), by unfolding
  the generated wrappers (`rfl`): the parameter list of a core IS the set of reads of the Go method.
* `temporal_congr`, `env_congr`: by unfolding the generated cores, `TemporalScore_core` uses the E/RL/RC codes
  only as `exploitCodeMaturity e`, `remediationLevel rl`, `reportConfidence rc`, and `EnvironmentalScore_core`
  uses each base/Modified pair only as `mod_ base modified`, CR/IR/AR only as `ciar ·`.
* `effTab`, `dfltTab`: per metric, for in-range codes, the effective VALUE STRING determines the effective
  CODE `mod_ k m`, resp. the weight (`X` weighs as the default) - kernel enumerations over the generated
  `Get_core` (value strings), `mod_` and the weight functions.
* `base_eq`, `temporal_eq`, `env_eq`: equal Spec key on two well-formed objects ⇒ equal score (opaque terms).
(`Eff30.lean` is the same text for the v3.0 package.)
-/
set_option maxRecDepth 100000
namespace Eff31
open Bits Model Bits31
open Spec (b)

/-- the value string an object holds for a metric -/
def val (c : O31) : Bytes → Bytes := fun a => (c.get a).1

/-- field code `j` (Spec table order) -/
abbrev cd (c : O31) (j : Nat) : Nat := (codes c).getD j 0

/-! ## the generated scores as functions of the field codes -/

/-- `S` is read a second time, unshifted (`u0 & 2`), for the scope test: that is the `S` code shifted back -/
theorem scope_raw (u : Nat) : Nat.land u 2 = Nat.shiftLeft (Nat.shiftRight (Nat.land u 2) 1) 1 := by
  rw [land_mod256 u 2 (by decide)]
  have : ∀ w, w < 256 → Nat.land w 2 = Nat.shiftLeft (Nat.shiftRight (Nat.land w 2) 1) 1 := by decide +kernel
  exact this _ (Nat.mod_lt _ (by decide))

theorem base_codes (c : O31) : c.baseScore =
    GenV31.BaseScore_core (cd c 5) (cd c 6) (cd c 7) (Nat.shiftLeft (cd c 4) 1)
      (cd c 0) (cd c 1) (cd c 2) (cd c 4) (cd c 3) := by
  obtain ⟨u0, u1, u2, u3, u4, u5⟩ := c
  show _ = GenV31.BaseScore_core _ _ _ (Nat.shiftLeft (Nat.shiftRight (Nat.land u0 2) 1) 1) _ _ _ _ _
  rw [← scope_raw u0]; rfl

theorem temporal_codes (c : O31) : c.temporalScore =
    GenV31.TemporalScore_core (cd c 8) (cd c 9) (cd c 10) (cd c 5) (cd c 6) (cd c 7) (Nat.shiftLeft (cd c 4) 1)
      (cd c 0) (cd c 1) (cd c 2) (cd c 4) (cd c 3) := by
  obtain ⟨u0, u1, u2, u3, u4, u5⟩ := c
  show _ = GenV31.TemporalScore_core _ _ _ _ _ _ (Nat.shiftLeft (Nat.shiftRight (Nat.land u0 2) 1) 1) _ _ _ _ _
  rw [← scope_raw u0]; rfl

theorem env_codes (c : O31) : c.environmentalScore =
    GenV31.EnvironmentalScore_core (cd c 0) (cd c 14) (cd c 1) (cd c 15) (cd c 2) (cd c 16) (cd c 3) (cd c 17)
      (cd c 4) (cd c 18) (cd c 5) (cd c 19) (cd c 6) (cd c 20) (cd c 7) (cd c 21)
      (cd c 11) (cd c 12) (cd c 13) (cd c 8) (cd c 9) (cd c 10) := by
  obtain ⟨u0, u1, u2, u3, u4, u5⟩ := c; rfl

/-! ## what the cores do with the codes -/

/-- `TemporalScore_core` looks at E, RL, RC only through their weights -/
theorem temporal_congr {e rl rc e' rl' rc' : Nat} (r3 r4 r5 r6 r7 r8 r9 r10 r11 : Nat)
    (he : GenV31.exploitCodeMaturity e = GenV31.exploitCodeMaturity e')
    (hrl : GenV31.remediationLevel rl = GenV31.remediationLevel rl')
    (hrc : GenV31.reportConfidence rc = GenV31.reportConfidence rc') :
    GenV31.TemporalScore_core e rl rc r3 r4 r5 r6 r7 r8 r9 r10 r11 =
    GenV31.TemporalScore_core e' rl' rc' r3 r4 r5 r6 r7 r8 r9 r10 r11 := by
  simp only [GenV31.TemporalScore_core, flet_eq, he, hrl, hrc]

/-- `EnvironmentalScore_core` looks at each base/Modified pair only through `mod_ base modified`, at CR, IR, AR
    only through `ciar`, at E, RL, RC only through their weights -/
theorem env_congr {r0 r1 r2 r3 r4 r5 r6 r7 r8 r9 r10 r11 r12 r13 r14 r15 r16 r17 r18 r19 r20 r21 : Nat}
    {s0 s1 s2 s3 s4 s5 s6 s7 s8 s9 s10 s11 s12 s13 s14 s15 s16 s17 s18 s19 s20 s21 : Nat}
    (hav : GenV31.mod_ r0 r1 = GenV31.mod_ s0 s1) (hac : GenV31.mod_ r2 r3 = GenV31.mod_ s2 s3)
    (hpr : GenV31.mod_ r4 r5 = GenV31.mod_ s4 s5) (hui : GenV31.mod_ r6 r7 = GenV31.mod_ s6 s7)
    (hs : GenV31.mod_ r8 r9 = GenV31.mod_ s8 s9) (hc : GenV31.mod_ r10 r11 = GenV31.mod_ s10 s11)
    (hi : GenV31.mod_ r12 r13 = GenV31.mod_ s12 s13) (ha : GenV31.mod_ r14 r15 = GenV31.mod_ s14 s15)
    (hcr : GenV31.ciar r16 = GenV31.ciar s16) (hir : GenV31.ciar r17 = GenV31.ciar s17)
    (har : GenV31.ciar r18 = GenV31.ciar s18)
    (he : GenV31.exploitCodeMaturity r19 = GenV31.exploitCodeMaturity s19)
    (hrl : GenV31.remediationLevel r20 = GenV31.remediationLevel s20)
    (hrc : GenV31.reportConfidence r21 = GenV31.reportConfidence s21) :
    GenV31.EnvironmentalScore_core r0 r1 r2 r3 r4 r5 r6 r7 r8 r9 r10 r11 r12 r13 r14 r15 r16 r17 r18 r19 r20 r21 =
    GenV31.EnvironmentalScore_core s0 s1 s2 s3 s4 s5 s6 s7 s8 s9 s10 s11 s12 s13 s14 s15 s16 s17 s18 s19 s20 s21 := by
  simp only [GenV31.EnvironmentalScore_core, flet_eq, hav, hac, hpr, hui, hs, hc, hi, ha, hcr, hir, har, he, hrl, hrc]

/-! ## from value strings to codes -/

/-- effective value string of a base/Modified pair (table indices `j`, `jm`) holding the codes `k`, `m` -/
def effS (j jm k m : Nat) : Bytes :=
  if (vals jm).getD m [] = b "X" then (vals j).getD k [] else (vals jm).getD m []
/-- value string of metric `j` holding code `k`, `X` read as the default `d` -/
def dfltS (j : Nat) (d : Bytes) (k : Nat) : Bytes :=
  if (vals j).getD k [] = b "X" then d else (vals j).getD k []

theorem val_code (c : O31) (j : Nat) (hj : j < 22) : val c (mAt ms j).abv = (vals j).getD (cd c j) [] := by
  simp only [val, get_known j hj]

theorem eff_codes (c : O31) (j jm : Nat) (hj : j < 22) (hjm : jm < 22) :
    Spec.eff (val c) (mAt ms j).abv (mAt ms jm).abv = effS j jm (cd c j) (cd c jm) := by
  simp only [Spec.eff, effS, val_code c j hj, val_code c jm hjm]

theorem dflt_codes (c : O31) (j : Nat) (hj : j < 22) (d : Bytes) :
    Spec.dflt (val c) (mAt ms j).abv d = dfltS j d (cd c j) := by
  simp only [Spec.dflt, dfltS, val_code c j hj]

/-- for in-range codes of the pair (`j`, `jm`), the effective value string determines `mod_ base modified` -/
abbrev EffOK (j jm : Nat) : Prop :=
  ∀ k, k < (vals j).length → ∀ m, m < (vals jm).length → ∀ k', k' < (vals j).length → ∀ m', m' < (vals jm).length →
    effS j jm k m = effS j jm k' m' → GenV31.mod_ k m = GenV31.mod_ k' m'

/-- for in-range codes of metric `j`, the value string with `X` read as `d` determines the weight `w` -/
abbrev DfltOK (j : Nat) (d : Bytes) (w : Nat → Nat) : Prop :=
  ∀ k, k < (vals j).length → ∀ k', k' < (vals j).length → dfltS j d k = dfltS j d k' → w k = w k'

theorem tabAV : EffOK 0 14 := by decide +kernel
theorem tabAC : EffOK 1 15 := by decide +kernel
theorem tabPR : EffOK 2 16 := by decide +kernel
theorem tabUI : EffOK 3 17 := by decide +kernel
theorem tabS : EffOK 4 18 := by decide +kernel
theorem tabC : EffOK 5 19 := by decide +kernel
theorem tabI : EffOK 6 20 := by decide +kernel
theorem tabA : EffOK 7 21 := by decide +kernel

theorem tabCR : DfltOK 11 (b "M") GenV31.ciar := by decide +kernel
theorem tabIR : DfltOK 12 (b "M") GenV31.ciar := by decide +kernel
theorem tabAR : DfltOK 13 (b "M") GenV31.ciar := by decide +kernel
theorem tabE : DfltOK 8 (b "H") GenV31.exploitCodeMaturity := by decide +kernel
theorem tabRL : DfltOK 9 (b "U") GenV31.remediationLevel := by decide +kernel
theorem tabRC : DfltOK 10 (b "C") GenV31.reportConfidence := by decide +kernel

/-- equal value strings, equal codes (in range) -/
theorem code_of_val (j : Nat) (hj : j < 22) {k k' : Nat} (hk : k < (vals j).length) (hk' : k' < (vals j).length)
    (h : (vals j).getD k [] = (vals j).getD k' []) : k = k' :=
  nodup_getD_inj [] _ _ _ (vals_nodup j hj) hk hk' h

theorem wf_codes {c : O31} (h : c.wf = true) : ∀ j, j < 22 → cd c j < (vals j).length :=
  ((layout.wf_iff tableOK c).mp h).2.2

/-! ## the Spec keys in table indices -/

theorem baseKey_idx (v : Bytes → Bytes) : Spec.V3.baseKey v =
    [v (mAt ms 0).abv, v (mAt ms 1).abv, v (mAt ms 2).abv, v (mAt ms 3).abv, v (mAt ms 4).abv, v (mAt ms 5).abv,
     v (mAt ms 6).abv, v (mAt ms 7).abv] := rfl

theorem temporalKey_idx (v : Bytes → Bytes) : Spec.V3.temporalKey v =
    [v (mAt ms 0).abv, v (mAt ms 1).abv, v (mAt ms 2).abv, v (mAt ms 3).abv, v (mAt ms 4).abv, v (mAt ms 5).abv,
     v (mAt ms 6).abv, v (mAt ms 7).abv, Spec.dflt v (mAt ms 8).abv (b "H"), Spec.dflt v (mAt ms 9).abv (b "U"),
     Spec.dflt v (mAt ms 10).abv (b "C")] := rfl

theorem envKey_idx (v : Bytes → Bytes) : Spec.V3.envKey v =
    [Spec.eff v (mAt ms 0).abv (mAt ms 14).abv, Spec.eff v (mAt ms 1).abv (mAt ms 15).abv,
     Spec.eff v (mAt ms 2).abv (mAt ms 16).abv, Spec.eff v (mAt ms 3).abv (mAt ms 17).abv,
     Spec.eff v (mAt ms 4).abv (mAt ms 18).abv, Spec.eff v (mAt ms 5).abv (mAt ms 19).abv,
     Spec.eff v (mAt ms 6).abv (mAt ms 20).abv, Spec.eff v (mAt ms 7).abv (mAt ms 21).abv,
     Spec.dflt v (mAt ms 11).abv (b "M"), Spec.dflt v (mAt ms 12).abv (b "M"), Spec.dflt v (mAt ms 13).abv (b "M"),
     Spec.dflt v (mAt ms 8).abv (b "H"), Spec.dflt v (mAt ms 9).abv (b "U"), Spec.dflt v (mAt ms 10).abv (b "C")] := rfl

/-! ## the theorems -/

/-- equal value strings of metric `j` on two well-formed objects: equal codes -/
theorem code_eq {c c' : O31} (h : c.wf = true) (h' : c'.wf = true) (j : Nat) (hj : j < 22)
    (e : val c (mAt ms j).abv = val c' (mAt ms j).abv) : cd c j = cd c' j := by
  rw [val_code c j hj, val_code c' j hj] at e
  exact code_of_val j hj (wf_codes h j hj) (wf_codes h' j hj) e

theorem pair_eq {c c' : O31} (h : c.wf = true) (h' : c'.wf = true) {j jm : Nat} (hj : j < 22) (hjm : jm < 22)
    (T : EffOK j jm) (e : Spec.eff (val c) (mAt ms j).abv (mAt ms jm).abv = Spec.eff (val c') (mAt ms j).abv (mAt ms jm).abv) :
    GenV31.mod_ (cd c j) (cd c jm) = GenV31.mod_ (cd c' j) (cd c' jm) := by
  rw [eff_codes c j jm hj hjm, eff_codes c' j jm hj hjm] at e
  exact T _ (wf_codes h j hj) _ (wf_codes h jm hjm) _ (wf_codes h' j hj) _ (wf_codes h' jm hjm) e

theorem weight_eq {c c' : O31} (h : c.wf = true) (h' : c'.wf = true) {j : Nat} (hj : j < 22) {d : Bytes} {w : Nat → Nat}
    (T : DfltOK j d w) (e : Spec.dflt (val c) (mAt ms j).abv d = Spec.dflt (val c') (mAt ms j).abv d) :
    w (cd c j) = w (cd c' j) := by
  rw [dflt_codes c j hj, dflt_codes c' j hj] at e
  exact T _ (wf_codes h j hj) _ (wf_codes h' j hj) e

theorem base_eq {c c' : O31} (h : c.wf = true) (h' : c'.wf = true)
    (hk : Spec.V3.baseKey (val c) = Spec.V3.baseKey (val c')) : c.baseScore = c'.baseScore := by
  simp only [baseKey_idx, List.cons.injEq, and_true] at hk
  obtain ⟨e0, e1, e2, e3, e4, e5, e6, e7⟩ := hk
  rw [base_codes, base_codes, code_eq h h' 0 (by decide) e0, code_eq h h' 1 (by decide) e1,
    code_eq h h' 2 (by decide) e2, code_eq h h' 3 (by decide) e3, code_eq h h' 4 (by decide) e4,
    code_eq h h' 5 (by decide) e5, code_eq h h' 6 (by decide) e6, code_eq h h' 7 (by decide) e7]

theorem temporal_eq {c c' : O31} (h : c.wf = true) (h' : c'.wf = true)
    (hk : Spec.V3.temporalKey (val c) = Spec.V3.temporalKey (val c')) : c.temporalScore = c'.temporalScore := by
  simp only [temporalKey_idx, List.cons.injEq, and_true] at hk
  obtain ⟨e0, e1, e2, e3, e4, e5, e6, e7, e8, e9, e10⟩ := hk
  rw [temporal_codes, temporal_codes, code_eq h h' 0 (by decide) e0, code_eq h h' 1 (by decide) e1,
    code_eq h h' 2 (by decide) e2, code_eq h h' 3 (by decide) e3, code_eq h h' 4 (by decide) e4,
    code_eq h h' 5 (by decide) e5, code_eq h h' 6 (by decide) e6, code_eq h h' 7 (by decide) e7]
  exact temporal_congr _ _ _ _ _ _ _ _ _ (weight_eq h h' (by decide) tabE e8) (weight_eq h h' (by decide) tabRL e9)
    (weight_eq h h' (by decide) tabRC e10)

theorem env_eq {c c' : O31} (h : c.wf = true) (h' : c'.wf = true)
    (hk : Spec.V3.envKey (val c) = Spec.V3.envKey (val c')) : c.environmentalScore = c'.environmentalScore := by
  simp only [envKey_idx, List.cons.injEq, and_true] at hk
  obtain ⟨e0, e1, e2, e3, e4, e5, e6, e7, e8, e9, e10, e11, e12, e13⟩ := hk
  rw [env_codes, env_codes]
  exact env_congr (pair_eq h h' (by decide) (by decide) tabAV e0) (pair_eq h h' (by decide) (by decide) tabAC e1)
    (pair_eq h h' (by decide) (by decide) tabPR e2) (pair_eq h h' (by decide) (by decide) tabUI e3)
    (pair_eq h h' (by decide) (by decide) tabS e4) (pair_eq h h' (by decide) (by decide) tabC e5)
    (pair_eq h h' (by decide) (by decide) tabI e6) (pair_eq h h' (by decide) (by decide) tabA e7)
    (weight_eq h h' (by decide) tabCR e8) (weight_eq h h' (by decide) tabIR e9) (weight_eq h h' (by decide) tabAR e10)
    (weight_eq h h' (by decide) tabE e11) (weight_eq h h' (by decide) tabRL e12) (weight_eq h h' (by decide) tabRC e13)

end Eff31
