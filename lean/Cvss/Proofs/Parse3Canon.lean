import Cvss.Proofs.Parse3Loop
/-!
# v3 parser proofs, part 5: the canonical spelling (`Spec.canonPairs`, `Spec.V3.canonical`)

Spec-level facts (no model involved): `canonPairs` depends only on the `valueOf`s, keeps them, is therefore
idempotent, and turns every "good" pair list (every metric reads as one of its legal values) into a witness
list. Then the two sources of good lists: witness lists themselves, and `K.pairs c` of a well-formed object.
-/
namespace Proofs.Parse3
open Spec (Bytes Pair Metric render joinSlash legal isMetric findMetric abvs valueOf allLegal SLASH COLON canonPairs)

variable {O : Type}

/-- what `canonPairs` writes for one metric -/
def canonOf (ms : List Metric) (w : List Pair) (m : Metric) : Option Pair :=
  let v := valueOf ms w m.abv
  if m.mandatory || some v ≠ m.undef then some (m.abv, v) else none

theorem canonPairs_eq (ms : List Metric) (w : List Pair) : canonPairs ms w = ms.filterMap (canonOf ms w) := rfl

theorem canonOf_some {ms : List Metric} {w : List Pair} {m : Metric} {p : Pair} (h : canonOf ms w m = some p) :
    p = (m.abv, valueOf ms w m.abv) := by
  unfold canonOf at h
  simp only at h
  split at h
  · cases h; rfl
  · cases h

theorem canonOf_mandatory {ms : List Metric} {w : List Pair} {m : Metric} (h : m.mandatory = true) :
    canonOf ms w m = some (m.abv, valueOf ms w m.abv) := by
  simp [canonOf, h]

theorem canonOf_none {ms : List Metric} {w : List Pair} {m : Metric} (h : canonOf ms w m = none) :
    m.undef = some (valueOf ms w m.abv) := by
  unfold canonOf at h
  simp only at h
  split at h
  · cases h
  · rename_i hc
    rw [Bool.or_eq_true, not_or] at hc
    have := hc.2
    simp only [ne_eq, decide_not, Bool.not_eq_eq_eq_not, Bool.not_true, decide_eq_false_iff_not,
      Decidable.not_not] at this
    exact this.symm

theorem filterMap_congr' {α β : Type} (l : List α) (f g : α → Option β) (h : ∀ x ∈ l, f x = g x) :
    l.filterMap f = l.filterMap g := by
  induction l with
  | nil => rfl
  | cons x l ih =>
    simp only [List.filterMap_cons, h x (by simp), ih (fun y hy => h y (by simp [hy]))]

/-- `canonPairs` depends on the pair list only through `valueOf` -/
theorem canonPairs_congr (ms : List Metric) (w₁ w₂ : List Pair)
    (h : ∀ m ∈ ms, valueOf ms w₁ m.abv = valueOf ms w₂ m.abv) : canonPairs ms w₁ = canonPairs ms w₂ := by
  rw [canonPairs_eq, canonPairs_eq]
  apply filterMap_congr'
  intro m hm
  unfold canonOf
  rw [h m hm]

/-- looking up a metric in a `filterMap` over a table with pairwise distinct abbreviations -/
theorem find?_filterMap_abv (l : List Metric) (g : Metric → Option Pair)
    (hg : ∀ x p, g x = some p → p.1 = x.abv) (hn : (l.map (·.abv)).Nodup) (m : Metric) (hm : m ∈ l) :
    (l.filterMap g).find? (fun p => p.1 == m.abv) = g m := by
  induction l with
  | nil => cases hm
  | cons x l ih =>
    rw [List.map_cons, List.nodup_cons] at hn
    have hnone : ∀ a, a ∉ l.map (·.abv) → (l.filterMap g).find? (fun p => p.1 == a) = none := by
      intro a ha
      rw [List.find?_eq_none]
      intro p hp he
      obtain ⟨y, hy, hgy⟩ := List.mem_filterMap.mp hp
      have : p.1 = a := by simpa using he
      exact ha (List.mem_map.mpr ⟨y, hy, (hg y p hgy).symm.trans this⟩)
    by_cases hx : x = m
    · subst hx
      cases hgx : g x with
      | none => rw [List.filterMap_cons_none hgx]; exact hnone _ hn.1
      | some p =>
        rw [List.filterMap_cons_some hgx, List.find?_cons]
        have : (p.1 == x.abv) = true := by simp [hg x p hgx]
        rw [this]
    · have hml : m ∈ l := by
        rcases List.mem_cons.mp hm with h | h
        · exact absurd h.symm hx
        · exact h
      have hne : x.abv ≠ m.abv := fun he => hn.1 (he ▸ List.mem_map.mpr ⟨m, hml, rfl⟩)
      cases hgx : g x with
      | none => rw [List.filterMap_cons_none hgx]; exact ih hn.2 hml
      | some p =>
        rw [List.filterMap_cons_some hgx, List.find?_cons]
        have : (p.1 == m.abv) = false := by
          rw [beq_eq_false_iff_ne, hg x p hgx]; exact hne
        rw [this]
        exact ih hn.2 hml

theorem names_filterMap_sublist (l : List Metric) (g : Metric → Option Pair)
    (hg : ∀ x p, g x = some p → p.1 = x.abv) : ((l.filterMap g).map (·.1)).Sublist (l.map (·.abv)) := by
  induction l with
  | nil => exact List.Sublist.slnil
  | cons x l ih =>
    cases hgx : g x with
    | none => rw [List.filterMap_cons_none hgx]; exact List.Sublist.cons _ ih
    | some p =>
      rw [List.filterMap_cons_some hgx, List.map_cons, List.map_cons, hg x p hgx]
      exact List.Sublist.cons_cons _ ih

theorem canonOf_fst {ms : List Metric} {w : List Pair} : ∀ x p, canonOf ms w x = some p → p.1 = x.abv := by
  intro x p h; rw [canonOf_some h]

/-- `canonPairs` keeps every metric's value (v3 table) … -/
theorem valueOf_canonPairs (w : List Pair) : ∀ m ∈ Spec.V3.metrics,
    valueOf Spec.V3.metrics (canonPairs Spec.V3.metrics w) m.abv = valueOf Spec.V3.metrics w m.abv := by
  intro m hm
  have hf := find?_filterMap_abv Spec.V3.metrics (canonOf Spec.V3.metrics w) canonOf_fst tbl_nodup m hm
  rw [← canonPairs_eq] at hf
  conv => lhs; unfold valueOf
  rw [hf]
  cases hc : canonOf Spec.V3.metrics w m with
  | some p => simp only; rw [canonOf_some hc]
  | none => simp only [tbl_find_self m hm]; rw [canonOf_none hc]; rfl

/-- … hence is idempotent -/
theorem canonPairs_idem (w : List Pair) :
    canonPairs Spec.V3.metrics (canonPairs Spec.V3.metrics w) = canonPairs Spec.V3.metrics w :=
  canonPairs_congr _ _ _ (valueOf_canonPairs w)

theorem canonical_congr (hdr : Bytes) (w₁ w₂ : List Pair)
    (h : ∀ m ∈ Spec.V3.metrics, valueOf Spec.V3.metrics w₁ m.abv = valueOf Spec.V3.metrics w₂ m.abv) :
    Spec.V3.canonical hdr w₁ = Spec.V3.canonical hdr w₂ := by
  unfold Spec.V3.canonical
  rw [canonPairs_congr _ _ _ h]

/-- every metric reads as one of its legal values -/
def Good (w : List Pair) : Prop := ∀ m ∈ Spec.V3.metrics, valueOf Spec.V3.metrics w m.abv ∈ m.values

/-- the canonical pairs of a good list form a witness list -/
theorem isWit_canonPairs (w : List Pair) (hg : Good w) : IsWit (canonPairs Spec.V3.metrics w) := by
  refine ⟨?_, ?_, ?_⟩
  · intro p hp
    rw [canonPairs_eq] at hp
    obtain ⟨m, hm, hgm⟩ := List.mem_filterMap.mp hp
    rw [canonOf_some hgm]
    exact legal_iff.mpr ⟨m, tbl_find_self m hm, hg m hm⟩
  · exact tbl_nodup.sublist (names_filterMap_sublist _ _ canonOf_fst)
  · intro m hm
    obtain ⟨hms, hmand⟩ := tbl_base_sub m hm
    rw [canonPairs_eq]
    exact List.mem_map.mpr ⟨_, List.mem_filterMap.mpr ⟨m, hms, canonOf_mandatory hmand⟩, rfl⟩

/-- a witness list is good -/
theorem good_of_isWit (w : List Pair) (hw : IsWit w) : Good w := by
  intro m hm
  have hself := tbl_find_self m hm
  unfold valueOf
  cases hf : w.find? (fun p => p.1 == m.abv) with
  | some p =>
    have hp : p ∈ w := List.mem_of_find?_eq_some hf
    have hpa : p.1 = m.abv := by simpa using List.find?_some hf
    obtain ⟨m', hm', hv⟩ := legal_iff.mp (hw.1 p hp)
    rw [hpa, hself] at hm'
    cases hm'
    exact hv
  | none =>
    simp only [hself]
    rcases tbl_mand_or_undef m hm with ⟨_, hb⟩ | ⟨_, u, hu, huv⟩
    · exfalso
      obtain ⟨p, hp, hpa⟩ := List.mem_map.mp (hw.2.2 m hb)
      rw [List.find?_eq_none] at hf
      exact hf p hp (by simpa using hpa)
    · rw [hu]; exact huv

/-- reading a metric from the full pair list of an object -/
theorem valueOf_pairs (K : Contract O Spec.V3.metrics) (c : O) : ∀ m ∈ Spec.V3.metrics,
    valueOf Spec.V3.metrics (K.pairs c) m.abv = (K.get c m.abv).1 := by
  intro m hm
  have hself := tbl_find_self m hm
  unfold findMetric at hself
  unfold valueOf Contract.pairs
  rw [List.find?_map]
  have : ((fun p : Pair => p.1 == m.abv) ∘ fun m' : Metric => (m'.abv, (K.get c m'.abv).1)) =
      fun m' => m'.abv == m.abv := rfl
  rw [this, hself]
  rfl

/-- the pair list of a well-formed object is good -/
theorem good_pairs (K : Contract O Spec.V3.metrics) (c : O) (hc : K.WF c) : Good (K.pairs c) := by
  intro m hm
  rw [valueOf_pairs K c m hm]
  exact (K.wf_get c hc m hm).2

/-- the canonical spelling of a good list is grammatical -/
theorem canonical_witness (hdr : Bytes) (w : List Pair) (hg : Good w) :
    Spec.V3.Witness hdr (Spec.V3.canonical hdr w) (canonPairs Spec.V3.metrics w) :=
  (witness_iff _ _ _).mpr ⟨rfl, isWit_canonPairs w hg⟩

/-- parsing the canonical spelling of the pair list of a well-formed object gives the object back -/
theorem parse3_canonical_pairs (K : Contract O Spec.V3.metrics) (hdr : Bytes) (c : O) (hc : K.WF c) :
    Model.parse3 (hdr ++ [SLASH]) K.zero K.set (Spec.V3.canonical hdr (K.pairs c)) = .ok c := by
  have hw := isWit_canonPairs _ (good_pairs K c hc)
  unfold Spec.V3.canonical
  rw [parse3_witness K hdr _ hw]
  congr 1
  apply K.ext _ _ (wf_setAll K _ _ K.wf_zero) hc
  intro m hm
  rw [get_setAll_zero K _ hw m hm, valueOf_canonPairs _ m hm, valueOf_pairs K c m hm,
    ← (K.wf_get c hc m hm).1]

end Proofs.Parse3
