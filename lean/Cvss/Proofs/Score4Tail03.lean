import Cvss.Proofs.Score4TailDef
/-! GENERATED chunk 3 of the v4.0 float-tail obligation: for each MacroVector below and every severity
distance tuple within its depths, `roundup(eqsv − mean)` (the generated tail) is `F64.tenth` of the Spec's
exact half-up value. Kernel evaluation (`decide +kernel`), 2926 tuples. -/
namespace Proofs.Score4
set_option maxHeartbeats 2000000 in
theorem tail_000101 : tailOkMV 0 0 0 1 0 1 = true := by decide +kernel
set_option maxHeartbeats 2000000 in
theorem tail_001111 : tailOkMV 0 0 1 1 1 1 = true := by decide +kernel
set_option maxHeartbeats 2000000 in
theorem tail_010200 : tailOkMV 0 1 0 2 0 0 = true := by decide +kernel
set_option maxHeartbeats 2000000 in
theorem tail_011100 : tailOkMV 0 1 1 1 0 0 = true := by decide +kernel
set_option maxHeartbeats 2000000 in
theorem tail_011111 : tailOkMV 0 1 1 1 1 1 = true := by decide +kernel
set_option maxHeartbeats 2000000 in
theorem tail_101100 : tailOkMV 1 0 1 1 0 0 = true := by decide +kernel
set_option maxHeartbeats 2000000 in
theorem tail_111000 : tailOkMV 1 1 1 0 0 0 = true := by decide +kernel
set_option maxHeartbeats 2000000 in
theorem tail_111111 : tailOkMV 1 1 1 1 1 1 = true := by decide +kernel
set_option maxHeartbeats 2000000 in
theorem tail_111200 : tailOkMV 1 1 1 2 0 0 = true := by decide +kernel
set_option maxHeartbeats 2000000 in
theorem tail_200201 : tailOkMV 2 0 0 2 0 1 = true := by decide +kernel
set_option maxHeartbeats 2000000 in
theorem tail_201000 : tailOkMV 2 0 1 0 0 0 = true := by decide +kernel
set_option maxHeartbeats 2000000 in
theorem tail_201200 : tailOkMV 2 0 1 2 0 0 = true := by decide +kernel
set_option maxHeartbeats 2000000 in
theorem tail_202001 : tailOkMV 2 0 2 0 0 1 = true := by decide +kernel
set_option maxHeartbeats 2000000 in
theorem tail_202201 : tailOkMV 2 0 2 2 0 1 = true := by decide +kernel
set_option maxHeartbeats 2000000 in
theorem tail_212101 : tailOkMV 2 1 2 1 0 1 = true := by decide +kernel
end Proofs.Score4
