import Cvss.Proofs.Parse2Core
/-!
# v2.0 parser proofs, part 5: meaning of a parsed vector, canonical spelling, round trip
-/
namespace Proofs.Parse2
open Model (Bytes Res cutColon splitN)
open Spec (joinSlash render Pair abvs legal isMetric findMetric Metric valueOf allLegal)
open Spec.V2 (metrics base temporal environmental shapes Witness G groupPairs canonical)

/-! ## `valueOf` -/

theorem find_none_iff {w : List Pair} {a : Bytes} :
    w.find? (fun p => p.1 == a) = none ↔ a ∉ w.map (·.1) := by
  rw [List.find?_eq_none]
  simp only [beq_iff_eq, List.mem_map, not_exists, not_and]

/-- with distinct names, the value of a written pair is the written value -/
theorem valueOf_mem (ms : List Metric) {w : List Pair} (hn : (w.map (·.1)).Nodup) {p : Pair} (hp : p ∈ w) :
    valueOf ms w p.1 = p.2 := by
  unfold valueOf
  induction w with
  | nil => simp at hp
  | cons q w ih =>
    simp only [List.map_cons, List.nodup_cons] at hn
    by_cases hq : q.1 = p.1
    · simp only [List.find?_cons, hq, beq_self_eq_true]
      rcases List.mem_cons.mp hp with rfl | hp'
      · rfl
      · exact absurd (List.mem_map.mpr ⟨p, hp', hq.symm⟩) hn.1
    · have : (q.1 == p.1) = false := by simpa using hq
      simp only [List.find?_cons, this]
      rcases List.mem_cons.mp hp with rfl | hp'
      · exact absurd rfl hq
      · exact ih hn.2 hp'

/-- a metric that is not written reads as its not-defined value -/
theorem valueOf_not_mem {w : List Pair} {m : Metric} (hm : m ∈ metrics) (h : m.abv ∉ w.map (·.1)) :
    valueOf metrics w m.abv = m.undef.getD [] := by
  unfold valueOf
  rw [find_none_iff.mpr h, findMetric_self m hm]

theorem valueOf_legal {w : List Pair} (hsh : w.map (·.1) ∈ shapes) (hl : allLegal metrics w)
    {m : Metric} (hm : m ∈ metrics) : legal metrics m.abv (valueOf metrics w m.abv) = true := by
  by_cases h : m.abv ∈ w.map (·.1)
  · obtain ⟨p, hp, hpa⟩ := List.mem_map.mp h
    have := valueOf_mem metrics (shapes_nodup _ hsh) hp
    rw [← hpa, this]
    exact hl p hp
  · rw [valueOf_not_mem hm h]
    have hu := shapes_missing_undef _ hsh m hm h
    cases hund : m.undef with
    | none => simp [hund] at hu
    | some u => exact legal_of_mem hm (undef_mem_values m hm u hund)

/-! ## C06: what the parsed object holds -/

section contract
variable (K : Contract Model.O20 metrics)

theorem get_parsed {w : List Pair} (hsh : w.map (·.1) ∈ shapes) (hl : allLegal metrics w)
    {m : Metric} (hm : m ∈ metrics) :
    K.get (setAll K.set K.zero w) m.abv = (valueOf metrics w m.abv, Go.errNil) := by
  have hmet : isMetric metrics m.abv = true := isMetric_iff_mem.mpr (List.mem_map.mpr ⟨m, hm, rfl⟩)
  rw [get_setAll K w K.zero m.abv hl (shapes_nodup _ hsh) hmet]
  cases hf : w.find? (fun p => p.1 == m.abv) with
  | some p =>
    simp only [valueOf, hf]
  | none =>
    have hnot := find_none_iff.mp hf
    have hu := shapes_missing_undef _ hsh m hm hnot
    cases hund : m.undef with
    | none => simp [hund] at hu
    | some u =>
      simp only [valueOf, hf, findMetric_self m hm, hund, Option.getD_some]
      exact K.get_zero_opt m hm u hund

theorem parse_get {s : Bytes} {c : Model.O20} (h : parseK K s = .ok c) {w : List Pair} (hw : Witness s w)
    {m : Metric} (hm : m ∈ metrics) : K.get c m.abv = (valueOf metrics w m.abv, Go.errNil) := by
  obtain ⟨w0, hw0, hc⟩ := parse_sound K h
  have := witness_unique hw hw0
  subst this
  subst hc
  exact get_parsed K hw.2.1 hw.2.2 hm

theorem parse_wf {s : Bytes} {c : Model.O20} (h : parseK K s = .ok c) : K.WF c := by
  obtain ⟨w0, _, hc⟩ := parse_sound K h
  subst hc
  exact wf_setAll K _ _ K.wf_zero

end contract

/-! ## the canonical spelling -/

/-- the pair list `canonical` renders -/
def canonW (w : List Pair) : List Pair :=
  groupPairs base w ++ groupPairs temporal w ++ groupPairs environmental w

theorem canonical_eq (w : List Pair) : canonical w = joinSlash ((canonW w).map render) := rfl

/-- a group written in full -/
def fullGroup (g : List Metric) (w : List Pair) : List Pair := g.map fun m => (m.abv, valueOf metrics w m.abv)

theorem fullGroup_names (g : List Metric) (w : List Pair) : (fullGroup g w).map (·.1) = abvs g := by
  unfold fullGroup abvs
  rw [List.map_map]
  rfl

theorem groupPairs_eq (g : List Metric) (w : List Pair) :
    groupPairs g w =
      if (g.all fun m => m.mandatory) || (fullGroup g w).any (fun p => p.2 ≠ Spec.b "ND") then fullGroup g w
      else [] := rfl

theorem groupPairs_base (w : List Pair) : groupPairs base w = fullGroup base w := by
  rw [groupPairs_eq, base_mandatory]; rfl

theorem fullGroup_congr (g : List Metric) (hg : ∀ m ∈ g, m ∈ metrics) {w w' : List Pair}
    (h : ∀ m ∈ metrics, valueOf metrics w m.abv = valueOf metrics w' m.abv) : fullGroup g w = fullGroup g w' := by
  unfold fullGroup
  apply List.map_congr_left
  intro m hm
  rw [h m (hg m hm)]

/-- `canonical` depends on the witness only through the metric values -/
theorem canonW_congr {w w' : List Pair}
    (h : ∀ m ∈ metrics, valueOf metrics w m.abv = valueOf metrics w' m.abv) : canonW w = canonW w' := by
  unfold canonW
  simp only [groupPairs_eq, fullGroup_congr base base_sub h, fullGroup_congr temporal temporal_sub h,
    fullGroup_congr environmental environmental_sub h]

/-- what an optional group contributes: all of it, or nothing and then every value is `ND` -/
theorem groupPairs_opt (g : List Metric) (hopt : (g.all fun m => m.mandatory) = false) (w : List Pair) :
    groupPairs g w = fullGroup g w ∨
    (groupPairs g w = [] ∧ ∀ m ∈ g, valueOf metrics w m.abv = Spec.b "ND") := by
  rw [groupPairs_eq, hopt, Bool.false_or]
  cases hany : (fullGroup g w).any (fun p => p.2 ≠ Spec.b "ND") with
  | true => exact Or.inl rfl
  | false =>
    refine Or.inr ⟨rfl, ?_⟩
    intro m hm
    have := List.any_eq_false.mp hany (m.abv, valueOf metrics w m.abv)
      (List.mem_map.mpr ⟨m, hm, rfl⟩)
    simpa using this

/-- the canonical pair list of a grammatical vector is itself a witness, with the same metric values -/
theorem canonW_witness {w : List Pair} (hsh : w.map (·.1) ∈ shapes) (hl : allLegal metrics w) :
    Witness (canonical w) (canonW w) ∧ ∀ m ∈ metrics, valueOf metrics (canonW w) m.abv = valueOf metrics w m.abv := by
  -- the names of `canonW w`
  have hnames : ∃ nT ∈ [[], abvs temporal], ∃ nE ∈ [[], abvs environmental],
      (canonW w).map (·.1) = abvs base ++ nT ++ nE ∧
      (nT = [] → ∀ m ∈ temporal, valueOf metrics w m.abv = Spec.b "ND") ∧
      (nE = [] → ∀ m ∈ environmental, valueOf metrics w m.abv = Spec.b "ND") ∧
      (∀ p ∈ canonW w, ∃ m ∈ metrics, p = (m.abv, valueOf metrics w m.abv)) ∧
      (nT = abvs temporal → ∀ m ∈ temporal, (m.abv, valueOf metrics w m.abv) ∈ canonW w) ∧
      (nE = abvs environmental → ∀ m ∈ environmental, (m.abv, valueOf metrics w m.abv) ∈ canonW w) ∧
      (∀ m ∈ base, (m.abv, valueOf metrics w m.abv) ∈ canonW w) := by
    have hmemfull : ∀ (g : List Metric), (∀ m ∈ g, m ∈ metrics) → ∀ p ∈ fullGroup g w,
        ∃ m ∈ metrics, p = (m.abv, valueOf metrics w m.abv) := by
      intro g hg p hp
      obtain ⟨m, hm, rfl⟩ := List.mem_map.mp hp
      exact ⟨m, hg m hm, rfl⟩
    have hfullmem : ∀ (g : List Metric), ∀ m ∈ g, (m.abv, valueOf metrics w m.abv) ∈ fullGroup g w :=
      fun g m hm => List.mem_map.mpr ⟨m, hm, rfl⟩
    unfold canonW
    rw [groupPairs_base]
    rcases groupPairs_opt temporal temporal_optional w with hT | ⟨hT, hTv⟩ <;>
    rcases groupPairs_opt environmental environmental_optional w with hE | ⟨hE, hEv⟩
    · refine ⟨abvs temporal, by simp, abvs environmental, by simp, ?_, ?_, ?_, ?_, ?_, ?_, ?_⟩
      · rw [hT, hE]; simp only [List.map_append, fullGroup_names]
      · intro h; exact absurd h (by decide)
      · intro h; exact absurd h (by decide)
      · rw [hT, hE]; intro p hp
        rcases List.mem_append.mp hp with hp | hp
        · rcases List.mem_append.mp hp with hp | hp
          · exact hmemfull base base_sub p hp
          · exact hmemfull temporal temporal_sub p hp
        · exact hmemfull environmental environmental_sub p hp
      · intro _ m hm; rw [hT]; simp [hfullmem temporal m hm]
      · intro _ m hm; rw [hE]; simp [hfullmem environmental m hm]
      · intro m hm; simp [hfullmem base m hm]
    · refine ⟨abvs temporal, by simp, [], by simp, ?_, ?_, ?_, ?_, ?_, ?_, ?_⟩
      · rw [hT, hE]; simp only [List.map_append, fullGroup_names, List.map_nil]
      · intro h; exact absurd h (by decide)
      · intro _; exact hEv
      · rw [hT, hE]; intro p hp
        rw [List.append_nil] at hp
        rcases List.mem_append.mp hp with hp | hp
        · exact hmemfull base base_sub p hp
        · exact hmemfull temporal temporal_sub p hp
      · intro _ m hm; rw [hT]; simp [hfullmem temporal m hm]
      · intro h; exact absurd h (by decide)
      · intro m hm; simp [hfullmem base m hm]
    · refine ⟨[], by simp, abvs environmental, by simp, ?_, ?_, ?_, ?_, ?_, ?_, ?_⟩
      · rw [hT, hE]; simp only [List.map_append, fullGroup_names, List.map_nil]
      · intro _; exact hTv
      · intro h; exact absurd h (by decide)
      · rw [hT, hE]; intro p hp
        rw [List.append_nil] at hp
        rcases List.mem_append.mp hp with hp | hp
        · exact hmemfull base base_sub p hp
        · exact hmemfull environmental environmental_sub p hp
      · intro h; exact absurd h (by decide)
      · intro _ m hm; rw [hE]; simp [hfullmem environmental m hm]
      · intro m hm; simp [hfullmem base m hm]
    · refine ⟨[], by simp, [], by simp, ?_, ?_, ?_, ?_, ?_, ?_, ?_⟩
      · rw [hT, hE]; simp only [List.map_append, fullGroup_names, List.map_nil]
      · intro _; exact hTv
      · intro _; exact hEv
      · rw [hT, hE]; intro p hp
        rw [List.append_nil, List.append_nil] at hp
        exact hmemfull base base_sub p hp
      · intro h; exact absurd h (by decide)
      · intro h; exact absurd h (by decide)
      · intro m hm; simp [hfullmem base m hm]
  obtain ⟨nT, hnT, nE, hnE, hn, hTnd, hEnd, hall, hTin, hEin, hBin⟩ := hnames
  have hshape : (canonW w).map (·.1) ∈ shapes := by rw [hn]; exact shapes_cases nT hnT nE hnE
  have hlegal : allLegal metrics (canonW w) := by
    intro p hp
    obtain ⟨m, hm, rfl⟩ := hall p hp
    exact valueOf_legal hsh hl hm
  refine ⟨⟨canonical_eq w, hshape, hlegal⟩, ?_⟩
  intro m hm
  have hnd := shapes_nodup _ hshape
  -- which group is `m` in?
  have hcases : m ∈ base ∨ m ∈ temporal ∨ m ∈ environmental := by
    have : m ∈ base ++ temporal ++ environmental := hm
    simp only [List.mem_append] at this
    rcases this with (h | h) | h
    · exact Or.inl h
    · exact Or.inr (Or.inl h)
    · exact Or.inr (Or.inr h)
  have hwritten : (m.abv, valueOf metrics w m.abv) ∈ canonW w →
      valueOf metrics (canonW w) m.abv = valueOf metrics w m.abv :=
    fun hin => valueOf_mem metrics hnd hin
  have hundef : ∀ m ∈ temporal ++ environmental, m ∈ metrics → m.abv ∉ (canonW w).map (·.1) →
      valueOf metrics w m.abv = Spec.b "ND" → valueOf metrics (canonW w) m.abv = valueOf metrics w m.abv := by
    intro m hmo hm hnot hv
    rw [valueOf_not_mem hm hnot, opt_undef m hmo, hv]
    rfl
  rcases hcases with hb | ht | he
  · exact hwritten (hBin m hb)
  · simp only [List.mem_cons, List.not_mem_nil, or_false] at hnT
    rcases hnT with rfl | rfl
    · apply hundef m (by simp [ht]) hm _ (hTnd rfl m ht)
      rw [hn]
      have hd := temporal_disjoint m ht
      simp only [List.mem_cons, List.not_mem_nil, or_false] at hnE
      rcases hnE with rfl | rfl
      · simpa using hd.1
      · simp only [List.append_nil, List.mem_append, not_or]; exact ⟨hd.1, hd.2⟩
    · exact hwritten (hTin rfl m ht)
  · simp only [List.mem_cons, List.not_mem_nil, or_false] at hnE
    rcases hnE with rfl | rfl
    · apply hundef m (by simp [he]) hm _ (hEnd rfl m he)
      rw [hn]
      have hd := environmental_disjoint m he
      simp only [List.mem_cons, List.not_mem_nil, or_false] at hnT
      rcases hnT with rfl | rfl
      · simpa using hd.1
      · simp only [List.append_nil, List.mem_append, not_or]; exact ⟨hd.1, hd.2⟩
    · exact hwritten (hEin rfl m he)

/-- `canonical` is idempotent (on the pair list it renders) -/
theorem canonW_idem {w : List Pair} (hsh : w.map (·.1) ∈ shapes) (hl : allLegal metrics w) :
    canonW (canonW w) = canonW w :=
  canonW_congr (canonW_witness hsh hl).2

/-! ## all metrics written out -/

theorem valueOf_table (f : Bytes → Bytes) {m : Metric} (hm : m ∈ metrics) :
    valueOf metrics (metrics.map fun m => (m.abv, f m.abv)) m.abv = f m.abv := by
  have hn : ((metrics.map fun m => (m.abv, f m.abv)).map (·.1)).Nodup := by
    rw [List.map_map]; exact abvs_nodup
  exact valueOf_mem metrics hn (p := (m.abv, f m.abv)) (List.mem_map.mpr ⟨m, hm, rfl⟩)

section contract2
variable (K : Contract Model.O20 metrics)

theorem pairs_names (c : Model.O20) : (K.pairs c).map (·.1) = abvs metrics := by
  unfold Contract.pairs abvs
  rw [List.map_map]; rfl

theorem pairs_legal {c : Model.O20} (h : K.WF c) : allLegal metrics (K.pairs c) := by
  intro p hp
  obtain ⟨m, hm, rfl⟩ := List.mem_map.mp hp
  exact legal_of_mem hm (K.wf_get c h m hm).2

theorem valueOf_pairs (c : Model.O20) {m : Metric} (hm : m ∈ metrics) :
    valueOf metrics (K.pairs c) m.abv = (K.get c m.abv).1 :=
  valueOf_table (fun a => (K.get c a).1) hm

/-- C08 core: the canonical spelling of the parsed object's values is the canonical spelling of the witness -/
theorem canonical_pairs_parsed {s : Bytes} {c : Model.O20} (h : parseK K s = .ok c) {w : List Pair}
    (hw : Witness s w) : canonical (K.pairs c) = canonical w := by
  rw [canonical_eq, canonical_eq]
  congr 2
  apply canonW_congr
  intro m hm
  rw [valueOf_pairs K c hm, parse_get K h hw hm]

/-- C02 core: parsing the canonical spelling of a well-formed object's values gives the object back -/
theorem parse_canonical_pairs {c : Model.O20} (h : K.WF c) : parseK K (canonical (K.pairs c)) = .ok c := by
  have hsh : (K.pairs c).map (·.1) ∈ shapes := by rw [pairs_names]; exact abvs_metrics_shape
  have hl := pairs_legal K h
  obtain ⟨hwit, hval⟩ := canonW_witness hsh hl
  rw [parse_complete K hwit]
  congr 1
  apply K.ext _ _ (wf_setAll K _ _ K.wf_zero) h
  intro m hm
  rw [get_parsed K hwit.2.1 hwit.2.2 hm, hval m hm, valueOf_pairs K c hm]
  have := (K.wf_get c h m hm).1
  rw [← this]

end contract2
end Proofs.Parse2
