import Cvss.Proofs.Score3M31
/-! C03, v3.1, environmental-inner enumeration (c): Modified attack vector code 2; 4 chunks of 4,374 tuples.
    (Generated layout; each theorem evaluates the generated `roundup`, `pow13`, `cia`, `ciar` and weight functions.) -/
namespace Proofs.Score3.V31
set_option maxRecDepth 20000 in
set_option maxHeartbeats 4000000 in
theorem env_0_2_0 : chunkEnv 0 2 0 = true := by decide +kernel
set_option maxRecDepth 20000 in
set_option maxHeartbeats 4000000 in
theorem env_0_2_1 : chunkEnv 0 2 1 = true := by decide +kernel
set_option maxRecDepth 20000 in
set_option maxHeartbeats 4000000 in
theorem env_1_2_0 : chunkEnv 1 2 0 = true := by decide +kernel
set_option maxRecDepth 20000 in
set_option maxHeartbeats 4000000 in
theorem env_1_2_1 : chunkEnv 1 2 1 = true := by decide +kernel
end Proofs.Score3.V31
