import Cvss.Base.F64
/-!
# v4.0 monotonicity: a kernel-fast reformulation of the Spec's `scoreOf`

`scoreP q1 … q6 d1 d2 d36 d4` is `Spec.V4.scoreOf (q1,…,q6) d1 d2 d36 d4 0` written with primitive `Nat`
operations only (explicit `Nat.add/mul/div/…`, `cond`, forcing `flet`), one closed formula for the mean
`Σ aᵢ·dᵢ/Dᵢ / L` over the common denominator `D₁D₂D₃₆D₄·L`. The MacroVector lookup is a packed literal
(7 bits per entry, index `((((q1·2+q2)·3+q3)·3+q4)·3+q5)·2+q6`) transcribed by script from
`spec-data/v40_lookup_claircore.txt`. Nothing is trusted: `Proofs/Mono4Bridge*.lean` checks, by kernel
evaluation, that `scoreP` agrees with the readable Spec on every MacroVector and every distance tuple within the
depths (52,650 points).
-/
namespace Proofs.Mono4
open F64

def PACK : Nat := 425500159143050967822440313293086409869493988050589427823204040257621824560856214391948694415510361828595612445789340155928852361888438059303741032935855040953124693564351660420441231841827887769556376410187174530765280648492637417628812369518019970255505923638678077681643464360439328078640709969361719151378938785409954960735580923701285582827052001760846207976796508204735773673346239524015085730480904141349502484102673384974514687863525698184238383879225596794295130751562596374766845439346993000202289855352297351209260625717383644345149280425851804464746853923673486680824515806119322164807241888999555139982103940131215093361016564888602702998844285688195551104556290585060

def lookupK (q1 q2 q3 q4 q5 q6 : Nat) : Nat :=
  Nat.mod (Nat.shiftRight PACK (Nat.mul 7 (Nat.add (Nat.mul (Nat.add (Nat.mul (Nat.add (Nat.mul (Nat.add (Nat.mul (Nat.add (Nat.mul q1 2) q2) 3) q3) 3) q4) 3) q5) 2) q6))) 128

def D1 (q : Nat) : Nat := cond (Nat.beq q 0) 1 (cond (Nat.beq q 1) 4 5)
def D2 (q : Nat) : Nat := cond (Nat.beq q 0) 1 2
def D36 (q3 q6 : Nat) : Nat := cond (Nat.beq q3 0) (cond (Nat.beq q6 0) 7 6) (cond (Nat.beq q3 1) 8 10)
def D4 (q : Nat) : Nat := cond (Nat.beq q 0) 6 (cond (Nat.beq q 1) 5 4)

def scoreP (q1 q2 q3 q4 q5 q6 d1 d2 d36 d4 : Nat) : Nat :=
  flet (lookupK q1 q2 q3 q4 q5 q6) fun v =>
  flet (cond (Nat.blt q1 2) (Nat.sub v (lookupK (Nat.succ q1) q2 q3 q4 q5 q6)) 0) fun a1 =>
  flet (cond (Nat.blt q2 1) (Nat.sub v (lookupK q1 (Nat.succ q2) q3 q4 q5 q6)) 0) fun a2 =>
  flet (cond (Nat.blt q4 2) (Nat.sub v (lookupK q1 q2 q3 (Nat.succ q4) q5 q6)) 0) fun a4 =>
  flet (cond (Nat.beq q3 2) 0
        (cond (Nat.beq q3 0 && Nat.beq q6 0)
          (flet (lookupK q1 q2 1 q4 q5 0) fun x => flet (lookupK q1 q2 0 q4 q5 1) fun y => Nat.sub v (cond (Nat.ble x y) y x))
          (cond (Nat.beq q6 0) (Nat.sub v (lookupK q1 q2 q3 q4 q5 1)) (Nat.sub v (lookupK q1 q2 (Nat.succ q3) q4 q5 q6))))) fun a36 =>
  flet (Nat.add (Nat.add (Nat.add (Nat.add (cond (Nat.blt q1 2) 1 0) (cond (Nat.blt q2 1) 1 0)) (cond (Nat.beq q3 2) 0 1))
        (cond (Nat.blt q4 2) 1 0)) (cond (Nat.blt q5 2) 1 0)) fun L =>
  cond (Nat.beq L 0) v
  (flet (D1 q1) fun e1 => flet (D2 q2) fun e2 => flet (D36 q3 q6) fun e36 => flet (D4 q4) fun e4 =>
   flet (Nat.add (Nat.add (Nat.add (Nat.mul (Nat.mul a1 d1) (Nat.mul e2 (Nat.mul e36 e4))) (Nat.mul (Nat.mul a2 d2) (Nat.mul e1 (Nat.mul e36 e4))))
          (Nat.mul (Nat.mul a36 d36) (Nat.mul e1 (Nat.mul e2 e4)))) (Nat.mul (Nat.mul a4 d4) (Nat.mul e1 (Nat.mul e2 e36)))) fun num =>
   flet (Nat.mul (Nat.mul (Nat.mul e1 e2) (Nat.mul e36 e4)) L) fun den =>
   Nat.div (Nat.add (Nat.mul 2 (Nat.sub (Nat.mul v den) num)) den) (Nat.mul 2 den))

end Proofs.Mono4
