import Cvss.Proofs.Score4TailDef
/-! GENERATED chunk 4 of the v4.0 float-tail obligation: for each MacroVector below and every severity
distance tuple within its depths, `roundup(eqsv − mean)` (the generated tail) is `F64.tenth` of the Spec's
exact half-up value. Kernel evaluation (`decide +kernel`), 2926 tuples. -/
namespace Proofs.Score4
set_option maxHeartbeats 2000000 in
theorem tail_000111 : tailOkMV 0 0 0 1 1 1 = true := by decide +kernel
set_option maxHeartbeats 2000000 in
theorem tail_001120 : tailOkMV 0 0 1 1 2 0 = true := by decide +kernel
set_option maxHeartbeats 2000000 in
theorem tail_010210 : tailOkMV 0 1 0 2 1 0 = true := by decide +kernel
set_option maxHeartbeats 2000000 in
theorem tail_011101 : tailOkMV 0 1 1 1 0 1 = true := by decide +kernel
set_option maxHeartbeats 2000000 in
theorem tail_011120 : tailOkMV 0 1 1 1 2 0 = true := by decide +kernel
set_option maxHeartbeats 2000000 in
theorem tail_101101 : tailOkMV 1 0 1 1 0 1 = true := by decide +kernel
set_option maxHeartbeats 2000000 in
theorem tail_111001 : tailOkMV 1 1 1 0 0 1 = true := by decide +kernel
set_option maxHeartbeats 2000000 in
theorem tail_111120 : tailOkMV 1 1 1 1 2 0 = true := by decide +kernel
set_option maxHeartbeats 2000000 in
theorem tail_111201 : tailOkMV 1 1 1 2 0 1 = true := by decide +kernel
set_option maxHeartbeats 2000000 in
theorem tail_200211 : tailOkMV 2 0 0 2 1 1 = true := by decide +kernel
set_option maxHeartbeats 2000000 in
theorem tail_201001 : tailOkMV 2 0 1 0 0 1 = true := by decide +kernel
set_option maxHeartbeats 2000000 in
theorem tail_201201 : tailOkMV 2 0 1 2 0 1 = true := by decide +kernel
set_option maxHeartbeats 2000000 in
theorem tail_202011 : tailOkMV 2 0 2 0 1 1 = true := by decide +kernel
set_option maxHeartbeats 2000000 in
theorem tail_202211 : tailOkMV 2 0 2 2 1 1 = true := by decide +kernel
set_option maxHeartbeats 2000000 in
theorem tail_212111 : tailOkMV 2 1 2 1 1 1 = true := by decide +kernel
end Proofs.Score4
