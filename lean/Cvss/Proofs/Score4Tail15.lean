import Cvss.Proofs.Score4TailDef
/-! GENERATED chunk 15 of the v4.0 float-tail obligation: for each MacroVector below and every severity
distance tuple within its depths, `roundup(eqsv − mean)` (the generated tail) is `F64.tenth` of the Spec's
exact half-up value. Kernel evaluation (`decide +kernel`), 2926 tuples. -/
namespace Proofs.Score4
set_option maxHeartbeats 2000000 in
theorem tail_000001 : tailOkMV 0 0 0 0 0 1 = true := by decide +kernel
set_option maxHeartbeats 2000000 in
theorem tail_001211 : tailOkMV 0 0 1 2 1 1 = true := by decide +kernel
set_option maxHeartbeats 2000000 in
theorem tail_010101 : tailOkMV 0 1 0 1 0 1 = true := by decide +kernel
set_option maxHeartbeats 2000000 in
theorem tail_011211 : tailOkMV 0 1 1 2 1 1 = true := by decide +kernel
set_option maxHeartbeats 2000000 in
theorem tail_100100 : tailOkMV 1 0 0 1 0 0 = true := by decide +kernel
set_option maxHeartbeats 2000000 in
theorem tail_100201 : tailOkMV 1 0 0 2 0 1 = true := by decide +kernel
set_option maxHeartbeats 2000000 in
theorem tail_101200 : tailOkMV 1 0 1 2 0 0 = true := by decide +kernel
set_option maxHeartbeats 2000000 in
theorem tail_112101 : tailOkMV 1 1 2 1 0 1 = true := by decide +kernel
set_option maxHeartbeats 2000000 in
theorem tail_200000 : tailOkMV 2 0 0 0 0 0 = true := by decide +kernel
set_option maxHeartbeats 2000000 in
theorem tail_200001 : tailOkMV 2 0 0 0 0 1 = true := by decide +kernel
set_option maxHeartbeats 2000000 in
theorem tail_201100 : tailOkMV 2 0 1 1 0 0 = true := by decide +kernel
set_option maxHeartbeats 2000000 in
theorem tail_210000 : tailOkMV 2 1 0 0 0 0 = true := by decide +kernel
set_option maxHeartbeats 2000000 in
theorem tail_210001 : tailOkMV 2 1 0 0 0 1 = true := by decide +kernel
set_option maxHeartbeats 2000000 in
theorem tail_210200 : tailOkMV 2 1 0 2 0 0 = true := by decide +kernel
set_option maxHeartbeats 2000000 in
theorem tail_211200 : tailOkMV 2 1 1 2 0 0 = true := by decide +kernel
end Proofs.Score4
