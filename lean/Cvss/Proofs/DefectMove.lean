import Cvss.Spec.Errors
/-!
# List facts for the `move` defect (C18)

`Spec.Defect.move i j` turns `w` into `insertAt (w.eraseIdx i) j w[i]`: element `i` is taken out and put
back so that it ends up at position `j` of the result. Facts used by the v2.0 and v4.0 proofs: the
result has the same length and the same elements, the moved element sits at `j`, and its new neighbour
(`j+1` when moved to the front, `j-1` when moved to the back) is the element that was at position `j`
of the original list — so the two stand in the opposite order.
-/
namespace Proofs.Move
open Spec (insertAt)

theorem getElem?_insertAt {α} (xs : List α) (j : Nat) (x : α) (hj : j ≤ xs.length) (k : Nat) :
    (insertAt xs j x)[k]? = if k < j then xs[k]? else if k = j then some x else xs[k - 1]? := by
  unfold insertAt
  rw [List.getElem?_append, List.length_take, Nat.min_eq_left hj]
  by_cases h1 : k < j
  · rw [if_pos h1, if_pos h1, List.getElem?_take, if_pos h1]
  · rw [if_neg h1, if_neg h1, List.getElem?_cons]
    by_cases h2 : k = j
    · rw [if_pos h2, if_pos (by omega)]
    · rw [if_neg h2, if_neg (by omega), List.getElem?_drop]
      congr 1; omega

theorem length_insertAt {α} (xs : List α) (j : Nat) (x : α) : (insertAt xs j x).length = xs.length + 1 := by
  have : (insertAt xs j x).length = (xs.take j ++ xs.drop j).length + 1 := by
    simp only [insertAt, List.length_append, List.length_cons]; omega
  rw [this, List.take_append_drop]

theorem mem_insertAt {α} {xs : List α} {j : Nat} {x q : α} (h : q ∈ insertAt xs j x) : q ∈ xs ∨ q = x := by
  unfold insertAt at h
  rcases List.mem_append.mp h with h | h
  · exact Or.inl (List.mem_of_mem_take h)
  · rcases List.mem_cons.mp h with h | h
    · exact Or.inr h
    · exact Or.inl (List.mem_of_mem_drop h)

theorem map_insertAt {α β} (f : α → β) (xs : List α) (j : Nat) (x : α) :
    (insertAt xs j x).map f = insertAt (xs.map f) j (f x) := by
  unfold insertAt
  rw [List.map_append, List.map_cons, List.map_take, List.map_drop]

theorem map_eraseIdx {α β} (f : α → β) (xs : List α) (i : Nat) : (xs.eraseIdx i).map f = (xs.map f).eraseIdx i := by
  apply List.ext_getElem?
  intro k
  rw [List.getElem?_map, List.getElem?_eraseIdx, List.getElem?_eraseIdx]
  split <;> rw [List.getElem?_map]

section moved
variable {α : Type} {w : List α} {i j : Nat} {p : α}

/-- the moved list has the length of the original -/
theorem length_moved (hp : w[i]? = some p) : (insertAt (w.eraseIdx i) j p).length = w.length := by
  have hi := (List.getElem?_eq_some_iff.mp hp).1
  rw [length_insertAt, List.length_eraseIdx, if_pos hi]; omega

theorem mem_moved (hp : w[i]? = some p) {q : α} (h : q ∈ insertAt (w.eraseIdx i) j p) : q ∈ w := by
  rcases mem_insertAt h with h | rfl
  · exact List.mem_of_mem_eraseIdx h
  · exact List.mem_of_getElem? hp

/-- the moved element is at position `j` -/
theorem moved_at (hp : w[i]? = some p) (hj : j < w.length) : (insertAt (w.eraseIdx i) j p)[j]? = some p := by
  have hi := (List.getElem?_eq_some_iff.mp hp).1
  rw [getElem?_insertAt _ _ _ (by rw [List.length_eraseIdx, if_pos hi]; omega), if_neg (Nat.lt_irrefl _), if_pos rfl]

/-- moved towards the front: directly after it comes the element that was at position `j` -/
theorem moved_next (hp : w[i]? = some p) (hji : j < i) : (insertAt (w.eraseIdx i) j p)[j + 1]? = w[j]? := by
  have hi := (List.getElem?_eq_some_iff.mp hp).1
  rw [getElem?_insertAt _ _ _ (by rw [List.length_eraseIdx, if_pos hi]; omega), if_neg (by omega), if_neg (by omega),
    List.getElem?_eraseIdx, if_pos (by omega)]
  rfl

/-- moved towards the back: directly before it comes the element that was at position `j` -/
theorem moved_prev (hp : w[i]? = some p) (hij : i < j) (hj : j < w.length) :
    (insertAt (w.eraseIdx i) j p)[j - 1]? = w[j]? := by
  have hi := (List.getElem?_eq_some_iff.mp hp).1
  rw [getElem?_insertAt _ _ _ (by rw [List.length_eraseIdx, if_pos hi]; omega), if_pos (by omega),
    List.getElem?_eraseIdx, if_neg (by omega)]
  congr 1; omega

end moved

theorem pairwise_getElem? {α} {R : α → α → Prop} {l : List α} (h : l.Pairwise R) {a b : Nat} {x y : α}
    (hab : a < b) (hx : l[a]? = some x) (hy : l[b]? = some y) : R x y := by
  obtain ⟨ha, rfl⟩ := List.getElem?_eq_some_iff.mp hx
  obtain ⟨hb, rfl⟩ := List.getElem?_eq_some_iff.mp hy
  exact List.pairwise_iff_getElem.mp h a b ha hb hab

/-- a list strictly increasing for a rank function into `Nat` is no longer increasing after a move to a
    different position -/
theorem moved_not_increasing {α : Type} (rank : α → Nat) {w : List α} {i j : Nat} {p : α}
    (hw : w.Pairwise (fun a b => rank a < rank b)) (hp : w[i]? = some p) (hji : j ≠ i) (hj : j < w.length) :
    ¬ (insertAt (w.eraseIdx i) j p).Pairwise (fun a b => rank a < rank b) := by
  intro hr
  obtain ⟨q, hq⟩ : ∃ q, w[j]? = some q := ⟨w[j], List.getElem?_eq_getElem hj⟩
  have hat := moved_at hp hj
  rcases Nat.lt_or_gt_of_ne hji with h | h
  · have h1 := pairwise_getElem? hr (Nat.lt_succ_self j) hat ((moved_next hp h).trans hq)
    have h2 := pairwise_getElem? hw h hq hp
    omega
  · have h1 := pairwise_getElem? hr (show j - 1 < j by omega) ((moved_prev hp h hj).trans hq) hat
    have h2 := pairwise_getElem? hw h hp hq
    omega

end Proofs.Move
