import Cvss.Proofs.Bits40
import Cvss.Spec.Effective
/-!
# CVSS v4.0: `Score` depends on the metrics only through their effective values (C10)

* `score_codes`: the generated `Score` is `Score_core` applied to 26 of the field codes that `Get` decodes
  (`Proofs.B40.code`), by unfolding the generated wrapper (`rfl`); no supplemental code is among them.
* `sc_pairs` (+ `mv_pairs`): by unfolding the generated `Score_core` and `macroVector_core`, each base/Modified pair
  is used only as `mod_ base modified` - except that `macroVector_core` also tests the RAW Modified codes
  `MSI == 4`, `MSA == 4` (EQ4: "Safety").
* `sc_nX` (+ `mv_nX`): `Score_core … cr ir ar e = Score_core … (nX cr) (nX ir) (nX ar) (nX e)`: an undefined
  CR/IR/AR/E (code 0) is treated exactly as code 1 (H/H/H/A), in the severity distances (`crVal == ciar_x → ciar_h`)
  and in the EQ5/EQ6 tests of `macroVector_core` (definitional unfolding, the other 22+3 arguments symbolic).
* `tab*`: per metric, for in-range codes, the effective VALUE STRING determines `mod_ k m` (and, for SI/SA, the
  test `m == 4`: `S` exists only as a Modified value, so "MSI is S" is the same as "the effective SI is S");
  the string with `X` read as the default determines `nX k`.  Kernel enumerations over the generated `Get_core`
  (value strings) and `mod_`.
* `score_eq`: equal `Spec.V4.scoreKey` on two well-formed objects ⇒ equal `Score` (as opaque terms).
-/
set_option maxRecDepth 100000
namespace Eff40
open Proofs.B40 Model
open Spec (b)

/-- the value string an object holds for a metric -/
def val (c : O40) : Bytes → Bytes := fun a => (c.get a).1

/-- `X` (code 0) read as the first listed value (code 1): what an undefined E / CR / IR / AR resolves to -/
def nX (v : Nat) : Nat := cond (Nat.beq v 0) 1 v

/-! ## the generated `Score` as a function of the field codes -/

theorem score_codes (c : O40) : c.score =
    GenV40.Score_core (code 0 c) (code 15 c) (code 1 c) (code 16 c) (code 2 c) (code 17 c) (code 3 c) (code 18 c)
      (code 4 c) (code 19 c) (code 5 c) (code 20 c) (code 8 c) (code 23 c) (code 6 c) (code 21 c)
      (code 9 c) (code 24 c) (code 7 c) (code 22 c) (code 10 c) (code 25 c)
      (code 12 c) (code 13 c) (code 14 c) (code 11 c) := by
  obtain ⟨u0, u1, u2, u3, u4, u5, u6, u7, u8⟩ := c; rfl

/-! ## what `macroVector_core` does with the codes -/

theorem mv_pairs {r0 r1 r2 r3 r4 r5 r6 r7 r8 r9 r10 r11 r12 r13 r14 r15 r16 r17 r18 r19 r20 r21 : Nat}
    {s0 s1 s2 s3 s4 s5 s6 s7 s8 s9 s10 s11 s12 s13 s14 s15 s16 s17 s18 s19 s20 s21 : Nat} (e cr ir ar : Nat)
    (hav : GenV40.mod_ r0 r1 = GenV40.mod_ s0 s1) (hac : GenV40.mod_ r2 r3 = GenV40.mod_ s2 s3)
    (hat : GenV40.mod_ r4 r5 = GenV40.mod_ s4 s5) (hpr : GenV40.mod_ r6 r7 = GenV40.mod_ s6 s7)
    (hui : GenV40.mod_ r8 r9 = GenV40.mod_ s8 s9) (hvc : GenV40.mod_ r10 r11 = GenV40.mod_ s10 s11)
    (hsc : GenV40.mod_ r12 r13 = GenV40.mod_ s12 s13) (hvi : GenV40.mod_ r14 r15 = GenV40.mod_ s14 s15)
    (hsi : GenV40.mod_ r17 r16 = GenV40.mod_ s17 s16) (hva : GenV40.mod_ r18 r19 = GenV40.mod_ s18 s19)
    (hsa : GenV40.mod_ r21 r20 = GenV40.mod_ s21 s20)
    (hmsi : Nat.beq r16 4 = Nat.beq s16 4) (hmsa : Nat.beq r20 4 = Nat.beq s20 4) :
    GenV40.macroVector_core r0 r1 r2 r3 r4 r5 r6 r7 r8 r9 r10 r11 r12 r13 r14 r15 r16 r17 r18 r19 r20 r21 e cr ir ar =
    GenV40.macroVector_core s0 s1 s2 s3 s4 s5 s6 s7 s8 s9 s10 s11 s12 s13 s14 s15 s16 s17 s18 s19 s20 s21 e cr ir ar := by
  simp only [GenV40.macroVector_core, flet_eq, hav, hac, hat, hpr, hui, hvc, hsc, hvi, hsi, hva, hsa, hmsi, hmsa]

theorem mv_e0 (r0 r1 r2 r3 r4 r5 r6 r7 r8 r9 r10 r11 r12 r13 r14 r15 r16 r17 r18 r19 r20 r21 cr ir ar : Nat) :
    GenV40.macroVector_core r0 r1 r2 r3 r4 r5 r6 r7 r8 r9 r10 r11 r12 r13 r14 r15 r16 r17 r18 r19 r20 r21 0 cr ir ar =
    GenV40.macroVector_core r0 r1 r2 r3 r4 r5 r6 r7 r8 r9 r10 r11 r12 r13 r14 r15 r16 r17 r18 r19 r20 r21 1 cr ir ar := by
  rfl

theorem mv_cr0 (r0 r1 r2 r3 r4 r5 r6 r7 r8 r9 r10 r11 r12 r13 r14 r15 r16 r17 r18 r19 r20 r21 e ir ar : Nat) :
    GenV40.macroVector_core r0 r1 r2 r3 r4 r5 r6 r7 r8 r9 r10 r11 r12 r13 r14 r15 r16 r17 r18 r19 r20 r21 e 0 ir ar = GenV40.macroVector_core r0 r1 r2 r3 r4 r5 r6 r7 r8 r9 r10 r11 r12 r13 r14 r15 r16 r17 r18 r19 r20 r21 e 1 ir ar := by
  rfl
theorem mv_ir0 (r0 r1 r2 r3 r4 r5 r6 r7 r8 r9 r10 r11 r12 r13 r14 r15 r16 r17 r18 r19 r20 r21 e cr ar : Nat) :
    GenV40.macroVector_core r0 r1 r2 r3 r4 r5 r6 r7 r8 r9 r10 r11 r12 r13 r14 r15 r16 r17 r18 r19 r20 r21 e cr 0 ar = GenV40.macroVector_core r0 r1 r2 r3 r4 r5 r6 r7 r8 r9 r10 r11 r12 r13 r14 r15 r16 r17 r18 r19 r20 r21 e cr 1 ar := by
  rfl
theorem mv_ar0 (r0 r1 r2 r3 r4 r5 r6 r7 r8 r9 r10 r11 r12 r13 r14 r15 r16 r17 r18 r19 r20 r21 e cr ir : Nat) :
    GenV40.macroVector_core r0 r1 r2 r3 r4 r5 r6 r7 r8 r9 r10 r11 r12 r13 r14 r15 r16 r17 r18 r19 r20 r21 e cr ir 0 = GenV40.macroVector_core r0 r1 r2 r3 r4 r5 r6 r7 r8 r9 r10 r11 r12 r13 r14 r15 r16 r17 r18 r19 r20 r21 e cr ir 1 := by
  rfl

/-- `macroVector_core` reads an undefined E, CR, IR, AR (`X`, code 0) as the code-1 value (E:A, CR/IR/AR:H) -/
theorem mv_nX (r0 r1 r2 r3 r4 r5 r6 r7 r8 r9 r10 r11 r12 r13 r14 r15 r16 r17 r18 r19 r20 r21 e cr ir ar : Nat) :
    GenV40.macroVector_core r0 r1 r2 r3 r4 r5 r6 r7 r8 r9 r10 r11 r12 r13 r14 r15 r16 r17 r18 r19 r20 r21 e cr ir ar = GenV40.macroVector_core r0 r1 r2 r3 r4 r5 r6 r7 r8 r9 r10 r11 r12 r13 r14 r15 r16 r17 r18 r19 r20 r21 (nX e) (nX cr) (nX ir) (nX ar) := by
  have he : GenV40.macroVector_core r0 r1 r2 r3 r4 r5 r6 r7 r8 r9 r10 r11 r12 r13 r14 r15 r16 r17 r18 r19 r20 r21 e cr ir ar = GenV40.macroVector_core r0 r1 r2 r3 r4 r5 r6 r7 r8 r9 r10 r11 r12 r13 r14 r15 r16 r17 r18 r19 r20 r21 (nX e) cr ir ar := by
    cases e with
    | zero => exact mv_e0 ..
    | succ n => rfl
  have hcr : GenV40.macroVector_core r0 r1 r2 r3 r4 r5 r6 r7 r8 r9 r10 r11 r12 r13 r14 r15 r16 r17 r18 r19 r20 r21 (nX e) cr ir ar = GenV40.macroVector_core r0 r1 r2 r3 r4 r5 r6 r7 r8 r9 r10 r11 r12 r13 r14 r15 r16 r17 r18 r19 r20 r21 (nX e) (nX cr) ir ar := by
    cases cr with
    | zero => exact mv_cr0 ..
    | succ n => rfl
  have hir : GenV40.macroVector_core r0 r1 r2 r3 r4 r5 r6 r7 r8 r9 r10 r11 r12 r13 r14 r15 r16 r17 r18 r19 r20 r21 (nX e) (nX cr) ir ar = GenV40.macroVector_core r0 r1 r2 r3 r4 r5 r6 r7 r8 r9 r10 r11 r12 r13 r14 r15 r16 r17 r18 r19 r20 r21 (nX e) (nX cr) (nX ir) ar := by
    cases ir with
    | zero => exact mv_ir0 ..
    | succ n => rfl
  have har : GenV40.macroVector_core r0 r1 r2 r3 r4 r5 r6 r7 r8 r9 r10 r11 r12 r13 r14 r15 r16 r17 r18 r19 r20 r21 (nX e) (nX cr) (nX ir) ar = GenV40.macroVector_core r0 r1 r2 r3 r4 r5 r6 r7 r8 r9 r10 r11 r12 r13 r14 r15 r16 r17 r18 r19 r20 r21 (nX e) (nX cr) (nX ir) (nX ar) := by
    cases ar with
    | zero => exact mv_ar0 ..
    | succ n => rfl
  rw [he, hcr, hir, har]

/-! ## what `Score_core` does with the codes -/

theorem sc_cr0 (r0 r1 r2 r3 r4 r5 r6 r7 r8 r9 r10 r11 r12 r13 r14 r15 r16 r17 r18 r19 r20 r21 ir ar e : Nat) :
    GenV40.Score_core r0 r1 r2 r3 r4 r5 r6 r7 r8 r9 r10 r11 r12 r13 r14 r15 r16 r17 r18 r19 r20 r21 0 ir ar e = GenV40.Score_core r0 r1 r2 r3 r4 r5 r6 r7 r8 r9 r10 r11 r12 r13 r14 r15 r16 r17 r18 r19 r20 r21 1 ir ar e := by
  rfl
theorem sc_ir0 (r0 r1 r2 r3 r4 r5 r6 r7 r8 r9 r10 r11 r12 r13 r14 r15 r16 r17 r18 r19 r20 r21 cr ar e : Nat) :
    GenV40.Score_core r0 r1 r2 r3 r4 r5 r6 r7 r8 r9 r10 r11 r12 r13 r14 r15 r16 r17 r18 r19 r20 r21 cr 0 ar e = GenV40.Score_core r0 r1 r2 r3 r4 r5 r6 r7 r8 r9 r10 r11 r12 r13 r14 r15 r16 r17 r18 r19 r20 r21 cr 1 ar e := by
  rfl
theorem sc_ar0 (r0 r1 r2 r3 r4 r5 r6 r7 r8 r9 r10 r11 r12 r13 r14 r15 r16 r17 r18 r19 r20 r21 cr ir e : Nat) :
    GenV40.Score_core r0 r1 r2 r3 r4 r5 r6 r7 r8 r9 r10 r11 r12 r13 r14 r15 r16 r17 r18 r19 r20 r21 cr ir 0 e = GenV40.Score_core r0 r1 r2 r3 r4 r5 r6 r7 r8 r9 r10 r11 r12 r13 r14 r15 r16 r17 r18 r19 r20 r21 cr ir 1 e := by
  rfl
theorem sc_e0 (r0 r1 r2 r3 r4 r5 r6 r7 r8 r9 r10 r11 r12 r13 r14 r15 r16 r17 r18 r19 r20 r21 cr ir ar : Nat) :
    GenV40.Score_core r0 r1 r2 r3 r4 r5 r6 r7 r8 r9 r10 r11 r12 r13 r14 r15 r16 r17 r18 r19 r20 r21 cr ir ar 0 = GenV40.Score_core r0 r1 r2 r3 r4 r5 r6 r7 r8 r9 r10 r11 r12 r13 r14 r15 r16 r17 r18 r19 r20 r21 cr ir ar 1 := by
  rfl

/-- `Score_core` (with its call of `macroVector_core`) reads an undefined CR, IR, AR, E as H, H, H, A -/
theorem sc_nX (r0 r1 r2 r3 r4 r5 r6 r7 r8 r9 r10 r11 r12 r13 r14 r15 r16 r17 r18 r19 r20 r21 cr ir ar e : Nat) :
    GenV40.Score_core r0 r1 r2 r3 r4 r5 r6 r7 r8 r9 r10 r11 r12 r13 r14 r15 r16 r17 r18 r19 r20 r21 cr ir ar e = GenV40.Score_core r0 r1 r2 r3 r4 r5 r6 r7 r8 r9 r10 r11 r12 r13 r14 r15 r16 r17 r18 r19 r20 r21 (nX cr) (nX ir) (nX ar) (nX e) := by
  have hcr : GenV40.Score_core r0 r1 r2 r3 r4 r5 r6 r7 r8 r9 r10 r11 r12 r13 r14 r15 r16 r17 r18 r19 r20 r21 cr ir ar e = GenV40.Score_core r0 r1 r2 r3 r4 r5 r6 r7 r8 r9 r10 r11 r12 r13 r14 r15 r16 r17 r18 r19 r20 r21 (nX cr) ir ar e := by
    cases cr with
    | zero => exact sc_cr0 ..
    | succ n => rfl
  have hir : GenV40.Score_core r0 r1 r2 r3 r4 r5 r6 r7 r8 r9 r10 r11 r12 r13 r14 r15 r16 r17 r18 r19 r20 r21 (nX cr) ir ar e = GenV40.Score_core r0 r1 r2 r3 r4 r5 r6 r7 r8 r9 r10 r11 r12 r13 r14 r15 r16 r17 r18 r19 r20 r21 (nX cr) (nX ir) ar e := by
    cases ir with
    | zero => exact sc_ir0 ..
    | succ n => rfl
  have har : GenV40.Score_core r0 r1 r2 r3 r4 r5 r6 r7 r8 r9 r10 r11 r12 r13 r14 r15 r16 r17 r18 r19 r20 r21 (nX cr) (nX ir) ar e = GenV40.Score_core r0 r1 r2 r3 r4 r5 r6 r7 r8 r9 r10 r11 r12 r13 r14 r15 r16 r17 r18 r19 r20 r21 (nX cr) (nX ir) (nX ar) e := by
    cases ar with
    | zero => exact sc_ar0 ..
    | succ n => rfl
  have he : GenV40.Score_core r0 r1 r2 r3 r4 r5 r6 r7 r8 r9 r10 r11 r12 r13 r14 r15 r16 r17 r18 r19 r20 r21 (nX cr) (nX ir) (nX ar) e = GenV40.Score_core r0 r1 r2 r3 r4 r5 r6 r7 r8 r9 r10 r11 r12 r13 r14 r15 r16 r17 r18 r19 r20 r21 (nX cr) (nX ir) (nX ar) (nX e) := by
    cases e with
    | zero => exact sc_e0 ..
    | succ n => rfl
  rw [hcr, hir, har, he]

/-- `Score_core` looks at each base/Modified pair only through `mod_ base modified`, plus the tests
    `MSI == S`, `MSA == S` of EQ4 in `macroVector_core` -/
theorem sc_pairs {r0 r1 r2 r3 r4 r5 r6 r7 r8 r9 r10 r11 r12 r13 r14 r15 r16 r17 r18 r19 r20 r21 : Nat}
    {s0 s1 s2 s3 s4 s5 s6 s7 s8 s9 s10 s11 s12 s13 s14 s15 s16 s17 s18 s19 s20 s21 : Nat} (cr ir ar e : Nat)
    (hav : GenV40.mod_ r0 r1 = GenV40.mod_ s0 s1) (hac : GenV40.mod_ r2 r3 = GenV40.mod_ s2 s3)
    (hat : GenV40.mod_ r4 r5 = GenV40.mod_ s4 s5) (hpr : GenV40.mod_ r6 r7 = GenV40.mod_ s6 s7)
    (hui : GenV40.mod_ r8 r9 = GenV40.mod_ s8 s9) (hvc : GenV40.mod_ r10 r11 = GenV40.mod_ s10 s11)
    (hsc : GenV40.mod_ r12 r13 = GenV40.mod_ s12 s13) (hvi : GenV40.mod_ r14 r15 = GenV40.mod_ s14 s15)
    (hsi : GenV40.mod_ r16 r17 = GenV40.mod_ s16 s17) (hva : GenV40.mod_ r18 r19 = GenV40.mod_ s18 s19)
    (hsa : GenV40.mod_ r20 r21 = GenV40.mod_ s20 s21)
    (hmsi : Nat.beq r17 4 = Nat.beq s17 4) (hmsa : Nat.beq r21 4 = Nat.beq s21 4) :
    GenV40.Score_core r0 r1 r2 r3 r4 r5 r6 r7 r8 r9 r10 r11 r12 r13 r14 r15 r16 r17 r18 r19 r20 r21 cr ir ar e = GenV40.Score_core s0 s1 s2 s3 s4 s5 s6 s7 s8 s9 s10 s11 s12 s13 s14 s15 s16 s17 s18 s19 s20 s21 cr ir ar e := by
  simp only [GenV40.Score_core, flet_eq,
    mv_pairs e cr ir ar hav hac hat hpr hui hvc hsc hvi hsi hva hsa hmsi hmsa,
    hav, hac, hat, hpr, hui, hvc, hsc, hvi, hsi, hva, hsa]

/-- **what `Score` may depend on**, in codes -/
theorem score_congr {r0 r1 r2 r3 r4 r5 r6 r7 r8 r9 r10 r11 r12 r13 r14 r15 r16 r17 r18 r19 r20 r21 r22 r23 r24 r25 : Nat}
    {s0 s1 s2 s3 s4 s5 s6 s7 s8 s9 s10 s11 s12 s13 s14 s15 s16 s17 s18 s19 s20 s21 s22 s23 s24 s25 : Nat}
    (hav : GenV40.mod_ r0 r1 = GenV40.mod_ s0 s1) (hac : GenV40.mod_ r2 r3 = GenV40.mod_ s2 s3)
    (hat : GenV40.mod_ r4 r5 = GenV40.mod_ s4 s5) (hpr : GenV40.mod_ r6 r7 = GenV40.mod_ s6 s7)
    (hui : GenV40.mod_ r8 r9 = GenV40.mod_ s8 s9) (hvc : GenV40.mod_ r10 r11 = GenV40.mod_ s10 s11)
    (hsc : GenV40.mod_ r12 r13 = GenV40.mod_ s12 s13) (hvi : GenV40.mod_ r14 r15 = GenV40.mod_ s14 s15)
    (hsi : GenV40.mod_ r16 r17 = GenV40.mod_ s16 s17) (hva : GenV40.mod_ r18 r19 = GenV40.mod_ s18 s19)
    (hsa : GenV40.mod_ r20 r21 = GenV40.mod_ s20 s21)
    (hmsi : Nat.beq r17 4 = Nat.beq s17 4) (hmsa : Nat.beq r21 4 = Nat.beq s21 4)
    (hcr : nX r22 = nX s22) (hir : nX r23 = nX s23) (har : nX r24 = nX s24) (he : nX r25 = nX s25) :
    GenV40.Score_core r0 r1 r2 r3 r4 r5 r6 r7 r8 r9 r10 r11 r12 r13 r14 r15 r16 r17 r18 r19 r20 r21 r22 r23 r24 r25 = GenV40.Score_core s0 s1 s2 s3 s4 s5 s6 s7 s8 s9 s10 s11 s12 s13 s14 s15 s16 s17 s18 s19 s20 s21 s22 s23 s24 s25 := by
  rw [sc_nX, sc_nX (cr := s22), hcr, hir, har, he]
  exact sc_pairs _ _ _ _ hav hac hat hpr hui hvc hsc hvi hsi hva hsa hmsi hmsa

/-! ## from value strings to codes -/

/-- effective value string of a base/Modified pair (table indices `j`, `jm`) holding the codes `k`, `m` -/
def effS (j jm k m : Nat) : Bytes :=
  if (gvals jm).getD m [] = b "X" then (gvals j).getD k [] else (gvals jm).getD m []
/-- value string of metric `j` holding code `k`, `X` read as the default `d` -/
def dfltS (j : Nat) (d : Bytes) (k : Nat) : Bytes :=
  if (gvals j).getD k [] = b "X" then d else (gvals j).getD k []

theorem val_code (c : O40) (j : Nat) (hj : j < 32) : val c (abv j) = (gvals j).getD (code j c) [] := by
  simp only [val, get_idx c j hj]

theorem eff_codes (c : O40) (j jm : Nat) (hj : j < 32) (hjm : jm < 32) :
    Spec.eff (val c) (abv j) (abv jm) = effS j jm (code j c) (code jm c) := by
  simp only [Spec.eff, effS, val_code c j hj, val_code c jm hjm]

theorem dflt_codes (c : O40) (j : Nat) (hj : j < 32) (d : Bytes) :
    Spec.dflt (val c) (abv j) d = dfltS j d (code j c) := by
  simp only [Spec.dflt, dfltS, val_code c j hj]

/-- for in-range codes of the pair (`j`, `jm`), the effective value string determines `mod_ base modified` -/
abbrev EffOK (j jm : Nat) : Prop :=
  ∀ k, k < nv j → ∀ m, m < nv jm → ∀ k', k' < nv j → ∀ m', m' < nv jm →
    effS j jm k m = effS j jm k' m' → GenV40.mod_ k m = GenV40.mod_ k' m'

/-- for SI/MSI and SA/MSA, the effective value string also determines the EQ4 test `Modified == S` that `macroVector_core` makes on the raw
    Modified code (`S`, Safety, exists only as a Modified value, so "effective value is S" = "Modified is S") -/
abbrev EffOKS (j jm : Nat) : Prop :=
  ∀ k, k < nv j → ∀ m, m < nv jm → ∀ k', k' < nv j → ∀ m', m' < nv jm →
    effS j jm k m = effS j jm k' m' → Nat.beq m 4 = Nat.beq m' 4

/-- for in-range codes of metric `j`, the value string with `X` read as `d` determines the code up to `X ≡ code 1` -/
abbrev DfltOK (j : Nat) (d : Bytes) : Prop :=
  ∀ k, k < nv j → ∀ k', k' < nv j → dfltS j d k = dfltS j d k' → nX k = nX k'

theorem tabAV : EffOK 0 15 := by decide +kernel
theorem tabAC : EffOK 1 16 := by decide +kernel
theorem tabAT : EffOK 2 17 := by decide +kernel
theorem tabPR : EffOK 3 18 := by decide +kernel
theorem tabUI : EffOK 4 19 := by decide +kernel
theorem tabVC : EffOK 5 20 := by decide +kernel
theorem tabVI : EffOK 6 21 := by decide +kernel
theorem tabVA : EffOK 7 22 := by decide +kernel
theorem tabSC : EffOK 8 23 := by decide +kernel
theorem tabSI : EffOK 9 24 := by decide +kernel
theorem tabSA : EffOK 10 25 := by decide +kernel
theorem tabSIS : EffOKS 9 24 := by decide +kernel
theorem tabSAS : EffOKS 10 25 := by decide +kernel
theorem tabE : DfltOK 11 (b "A") := by decide +kernel
theorem tabCR : DfltOK 12 (b "H") := by decide +kernel
theorem tabIR : DfltOK 13 (b "H") := by decide +kernel
theorem tabAR : DfltOK 14 (b "H") := by decide +kernel

theorem wf_codes {c : O40} (h : c.wf = true) : ∀ j, j < 32 → code j c < nv j := ((wf_iff c).mp h).2.2

/-! ## the Spec key in table indices -/

theorem scoreKey_idx (v : Bytes → Bytes) : Spec.V4.scoreKey v =
    [Spec.eff v (abv 0) (abv 15), Spec.eff v (abv 1) (abv 16), Spec.eff v (abv 2) (abv 17),
     Spec.eff v (abv 3) (abv 18), Spec.eff v (abv 4) (abv 19), Spec.eff v (abv 5) (abv 20),
     Spec.eff v (abv 6) (abv 21), Spec.eff v (abv 7) (abv 22), Spec.eff v (abv 8) (abv 23),
     Spec.eff v (abv 9) (abv 24), Spec.eff v (abv 10) (abv 25),
     Spec.dflt v (abv 11) (b "A"), Spec.dflt v (abv 12) (b "H"), Spec.dflt v (abv 13) (b "H"),
     Spec.dflt v (abv 14) (b "H")] := rfl

/-! ## the theorem -/

theorem pair_eq {c c' : O40} (h : c.wf = true) (h' : c'.wf = true) {j jm : Nat} (hj : j < 32) (hjm : jm < 32)
    (T : EffOK j jm) (e : Spec.eff (val c) (abv j) (abv jm) = Spec.eff (val c') (abv j) (abv jm)) :
    GenV40.mod_ (code j c) (code jm c) = GenV40.mod_ (code j c') (code jm c') := by
  rw [eff_codes c j jm hj hjm, eff_codes c' j jm hj hjm] at e
  exact T _ (wf_codes h j hj) _ (wf_codes h jm hjm) _ (wf_codes h' j hj) _ (wf_codes h' jm hjm) e

theorem pairS_eq {c c' : O40} (h : c.wf = true) (h' : c'.wf = true) {j jm : Nat} (hj : j < 32) (hjm : jm < 32)
    (T : EffOKS j jm) (e : Spec.eff (val c) (abv j) (abv jm) = Spec.eff (val c') (abv j) (abv jm)) :
    Nat.beq (code jm c) 4 = Nat.beq (code jm c') 4 := by
  rw [eff_codes c j jm hj hjm, eff_codes c' j jm hj hjm] at e
  exact T _ (wf_codes h j hj) _ (wf_codes h jm hjm) _ (wf_codes h' j hj) _ (wf_codes h' jm hjm) e

theorem nX_eq {c c' : O40} (h : c.wf = true) (h' : c'.wf = true) {j : Nat} (hj : j < 32) {d : Bytes}
    (T : DfltOK j d) (e : Spec.dflt (val c) (abv j) d = Spec.dflt (val c') (abv j) d) :
    nX (code j c) = nX (code j c') := by
  rw [dflt_codes c j hj, dflt_codes c' j hj] at e
  exact T _ (wf_codes h j hj) _ (wf_codes h' j hj) e

theorem score_eq {c c' : O40} (h : c.wf = true) (h' : c'.wf = true)
    (hk : Spec.V4.scoreKey (val c) = Spec.V4.scoreKey (val c')) : c.score = c'.score := by
  simp only [scoreKey_idx, List.cons.injEq, and_true] at hk
  obtain ⟨e0, e1, e2, e3, e4, e5, e6, e7, e8, e9, e10, e11, e12, e13, e14⟩ := hk
  rw [score_codes, score_codes]
  exact score_congr (pair_eq h h' (by decide) (by decide) tabAV e0) (pair_eq h h' (by decide) (by decide) tabAC e1)
    (pair_eq h h' (by decide) (by decide) tabAT e2) (pair_eq h h' (by decide) (by decide) tabPR e3)
    (pair_eq h h' (by decide) (by decide) tabUI e4) (pair_eq h h' (by decide) (by decide) tabVC e5)
    (pair_eq h h' (by decide) (by decide) tabSC e8) (pair_eq h h' (by decide) (by decide) tabVI e6)
    (pair_eq h h' (by decide) (by decide) tabSI e9) (pair_eq h h' (by decide) (by decide) tabVA e7)
    (pair_eq h h' (by decide) (by decide) tabSA e10)
    (pairS_eq h h' (by decide) (by decide) tabSIS e9) (pairS_eq h h' (by decide) (by decide) tabSAS e10)
    (nX_eq h h' (by decide) tabCR e12) (nX_eq h h' (by decide) tabIR e13) (nX_eq h h' (by decide) tabAR e14)
    (nX_eq h h' (by decide) tabE e11)

end Eff40
