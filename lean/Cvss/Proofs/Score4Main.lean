import Cvss.Proofs.Score4Groups
import Cvss.Proofs.Score4TailAll
/-!
# v4.0 score: composition

`core`: for all raw codes in range, the generated `Score_core` is `F64.tenth` of the Spec's score on the
value strings those codes stand for. Steps: shape (`Score_core = ScoreH`, definitional), effective codes
(`mod_` vs `orElse`), MacroVector (`mvc_eq` + per-EQ enumerations), loops (`loops_eq` + per-EQ
enumerations), float tail (`tailOk_all`).
-/
set_option maxRecDepth 100000
namespace Proofs.Score4
open GenV40
open Spec.V4 (orElse)

/-- the six effective impact codes are all `N` -/
def allN (vcVal viVal vaVal scVal siVal saVal : Nat) : Bool :=
  ((((((Nat.beq vcVal (2 : Nat)) && (Nat.beq viVal (2 : Nat))) && (Nat.beq vaVal (2 : Nat))) && (Nat.beq scVal (2 : Nat))) && (Nat.beq siVal (2 : Nat))) && (Nat.beq saVal (2 : Nat)))

/-- after the MacroVector computation -/
def scoreMV (avVal acVal atVal prVal uiVal vcVal viVal vaVal scVal siVal saVal crVal irVal arVal : Nat)
    (mv : Nat × Nat × Nat × Nat × Nat × Nat) : Nat :=
  match mv with
  | (eq1, eq2, eq3, eq4, eq5, eq6) =>
    scoreTail avVal acVal atVal prVal uiVal vcVal viVal vaVal scVal siVal saVal crVal irVal arVal eq1 eq2 eq3 eq4 eq5 eq6

/-- `ScoreH` without the forcing lets -/
def ScoreH2 (r0 r1 r2 r3 r4 r5 r6 r7 r8 r9 r10 r11 r12 r13 r14 r15 r16 r17 r18 r19 r20 r21 r22 r23 r24 r25 : Nat) : Nat :=
  cond (allN (mod_ r10 r11) (mod_ r14 r15) (mod_ r18 r19) (mod_ r12 r13) (mod_ r16 r17) (mod_ r20 r21))
    (0x0000000000000000 : Nat)
    (scoreMV (mod_ r0 r1) (mod_ r2 r3) (mod_ r4 r5) (mod_ r6 r7) (mod_ r8 r9) (mod_ r10 r11) (mod_ r14 r15) (mod_ r18 r19)
      (mod_ r12 r13) (mod_ r16 r17) (mod_ r20 r21) (reqFix r22) (reqFix r23) (reqFix r24)
      (macroVector_core r0 r1 r2 r3 r4 r5 r6 r7 r8 r9 r10 r11 r12 r13 r14 r15 r17 r16 r18 r19 r21 r20 r25 r22 r23 r24))

theorem ScoreH_eq2 (r0 r1 r2 r3 r4 r5 r6 r7 r8 r9 r10 r11 r12 r13 r14 r15 r16 r17 r18 r19 r20 r21 r22 r23 r24 r25 : Nat) :
    ScoreH r0 r1 r2 r3 r4 r5 r6 r7 r8 r9 r10 r11 r12 r13 r14 r15 r16 r17 r18 r19 r20 r21 r22 r23 r24 r25 =
      ScoreH2 r0 r1 r2 r3 r4 r5 r6 r7 r8 r9 r10 r11 r12 r13 r14 r15 r16 r17 r18 r19 r20 r21 r22 r23 r24 r25 := by
  unfold ScoreH ScoreH2 allN reqFix scoreMV
  simp only [flet_eq]

/-- the Spec's score on fifteen effective value strings -/
def scoreS (AV AC AT PR UI VC VI VA SC SI SA E CR IR AR : List Nat) : Nat :=
  Spec.V4.scoreE ⟨AV, AC, AT, PR, UI, VC, VI, VA, SC, SI, SA, E, CR, IR, AR⟩

theorem scoreS_eq (AV AC AT PR UI VC VI VA SC SI SA E CR IR AR : List Nat) :
    scoreS AV AC AT PR UI VC VI VA SC SI SA E CR IR AR =
      if (Spec.V4.is VC "N" && Spec.V4.is VI "N" && Spec.V4.is VA "N" && Spec.V4.is SC "N" && Spec.V4.is SI "N" &&
          Spec.V4.is SA "N") = true then 0
      else Spec.V4.scoreOf (Spec.V4.eq1 AV PR UI, Spec.V4.eq2 AC AT, Spec.V4.eq3 VC VI VA, Spec.V4.eq4 SC SI SA,
            Spec.V4.eq5 E, Spec.V4.eq6 VC VI VA CR IR AR)
          (Spec.V4.dist1 AV PR UI) (Spec.V4.dist2 AC AT) (Spec.V4.dist36 VC VI VA CR IR AR) (Spec.V4.dist4 SC SI SA)
          (Spec.V4.dist5 E) := rfl

theorem fin_next (eqsv lower m1 m2 m36 m4 m5 eq1 eq2 eq3 eq4 eq5 eq6 d1 d2 d36 d4 d5 : Nat) :
    fin eqsv lower m1 m2 m36 m4 m5 eq1 eq2 eq3 eq4 eq5 eq6 (Go.Ctl.next (d1, d2, d36, d4, d5)) =
      post eqsv lower m1 m2 m36 m4 m5 eq1 eq2 eq3 eq4 eq5 eq6 d1 d2 d36 d4 d5 := rfl

/-- once the loops are known to end in integer distances, the tail is `tailF` -/
theorem scoreTail_eq (av ac at_ pr ui vc vi va sc si sa cr ir ar eq1 eq2 eq3 eq4 eq5 eq6 d1 d2 d36 d4 : Nat)
    (hl : loops av ac at_ pr ui vc vi va sc si sa cr ir ar eq1 eq2 eq3 eq4 eq6 =
      Go.Ctl.next (F64.ofNat d1, F64.ofNat d2, F64.ofNat d36, F64.ofNat d4, Z)) :
    scoreTail av ac at_ pr ui vc vi va sc si sa cr ir ar eq1 eq2 eq3 eq4 eq5 eq6 =
      tailF eq1 eq2 eq3 eq4 eq5 eq6 d1 d2 d36 d4 := by
  unfold scoreTail tailF
  rw [hl]
  simp only [fin_next]
  rfl

/-- **core**: the generated `Score_core` on raw codes in range against the Spec on the strings they denote -/
theorem core (r0 r1 r2 r3 r4 r5 r6 r7 r8 r9 r10 r11 r12 r13 r14 r15 r16 r17 r18 r19 r20 r21 r22 r23 r24 r25 : Nat)
    (h0 : r0 < 4) (h1 : r1 < 5) (h2 : r2 < 2) (h3 : r3 < 3) (h4 : r4 < 2) (h5 : r5 < 3) (h6 : r6 < 3) (h7 : r7 < 4)
    (h8 : r8 < 3) (h9 : r9 < 4) (h10 : r10 < 3) (h11 : r11 < 4) (h12 : r12 < 3) (h13 : r13 < 4) (h14 : r14 < 3)
    (h15 : r15 < 4) (h16 : r16 < 3) (h17 : r17 < 5) (h18 : r18 < 3) (h19 : r19 < 4) (h20 : r20 < 3) (h21 : r21 < 5)
    (h22 : r22 < 4) (h23 : r23 < 4) (h24 : r24 < 4) (h25 : r25 < 4) :
    F64.eq (Score_core r0 r1 r2 r3 r4 r5 r6 r7 r8 r9 r10 r11 r12 r13 r14 r15 r16 r17 r18 r19 r20 r21 r22 r23 r24 r25)
      (F64.tenth (scoreS (orElse (nmMAV r1) (nmAV r0)) (orElse (nmMAC r3) (nmAC r2)) (orElse (nmMAT r5) (nmAT r4))
        (orElse (nmMPR r7) (nmPR r6)) (orElse (nmMUI r9) (nmUI r8)) (orElse (nmMVC r11) (nmVC r10))
        (orElse (nmMVI r15) (nmVI r14)) (orElse (nmMVA r19) (nmVA r18)) (orElse (nmMSC r13) (nmSC r12))
        (orElse (nmMSI r17) (nmSI r16)) (orElse (nmMSA r21) (nmSA r20)) (orElse (nmE r25) (Spec.b "A"))
        (orElse (nmCR r22) (Spec.b "H")) (orElse (nmIR r23) (Spec.b "H")) (orElse (nmAR r24) (Spec.b "H")))) = true := by
  rw [Score_core_eq_ScoreH, ScoreH_eq2]
  unfold ScoreH2
  rw [mvc_eq]
  -- effective values
  obtain ⟨eAV, hav⟩ := st_AV h0 h1
  obtain ⟨eAC, hac⟩ := st_AC h2 h3
  obtain ⟨eAT, hat⟩ := st_AT h4 h5
  obtain ⟨ePR, hpr⟩ := st_PR h6 h7
  obtain ⟨eUI, hui⟩ := st_UI h8 h9
  obtain ⟨eVC, hvc⟩ := st_VC h10 h11
  obtain ⟨eVI, hvi⟩ := st_VI h14 h15
  obtain ⟨eVA, hva⟩ := st_VA h18 h19
  obtain ⟨eSC, hsc⟩ := st_SC h12 h13
  rw [eAV, eAC, eAT, ePR, eUI, eVC, eVI, eVA, eSC]
  generalize mod_ r0 r1 = av at hav ⊢
  generalize mod_ r2 r3 = ac at hac ⊢
  generalize mod_ r4 r5 = at_ at hat ⊢
  generalize mod_ r6 r7 = pr at hpr ⊢
  generalize mod_ r8 r9 = ui at hui ⊢
  generalize mod_ r10 r11 = vc at hvc ⊢
  generalize mod_ r14 r15 = vi at hvi ⊢
  generalize mod_ r18 r19 = va at hva ⊢
  generalize mod_ r12 r13 = sc at hsc ⊢
  -- per-EQ facts
  obtain ⟨x1, s1, p1, l1, d1, b1⟩ := g1 hav hpr hui
  obtain ⟨x2, s2, p2, l2, d2, b2⟩ := g2 hac hat
  obtain ⟨x3, s3, p3, l3, l6, d3, b3, b6, nx⟩ := g36 hvc hvi hva h22 h23 h24
  obtain ⟨x4, s4, p4, l4, d4, b4⟩ := g4 hsc h16 h17 h20 h21
  obtain ⟨l5, b5, d5⟩ := g5 h25
  obtain ⟨nVC, _, _, _⟩ := nN hvc
  obtain ⟨_, nVI, _, _⟩ := nN hvi
  obtain ⟨_, _, nVA, _⟩ := nN hva
  obtain ⟨_, _, _, nSC⟩ := nN hsc
  obtain ⟨nSI, _⟩ := nNS h16 h17
  obtain ⟨_, nSA⟩ := nNS h20 h21
  rw [scoreS_eq]
  unfold allN
  rw [nVC, nVI, nVA, nSC, nSI, nSA]
  unfold effS
  cases hN : (Spec.V4.is (nmVC vc) "N" && Spec.V4.is (nmVI vi) "N" && Spec.V4.is (nmVA va) "N" &&
      Spec.V4.is (nmSC sc) "N" && Spec.V4.is (orElse (nmMSI r17) (nmSI r16)) "N" &&
      Spec.V4.is (orElse (nmMSA r21) (nmSA r20)) "N")
  · -- some impact: the MacroVector algorithm
    rw [condF]
    unfold scoreMV
    simp only []
    have hl := loops_eq av ac at_ pr ui vc vi va sc (mod_ r16 r17) (mod_ r20 r21) (reqFix r22) (reqFix r23) (reqFix r24)
      (eq1c av pr ui) (eq2c ac at_) (eq3c vc vi va) (eq4r sc r17 r16 r21 r20) (eq6c vc vi va r22 r23 r24)
      x1 x2 x3 x4 s1 s2 s3 s4
    rw [p1, p2, p3, p4] at hl
    rw [scoreTail_eq _ _ _ _ _ _ _ _ _ _ _ _ _ _ _ _ _ _ _ _ _ _ _ _ hl]
    have ht := tailOk_all b1 b2 b3 b4 b5 b6 nx d1 d2 d3 d4
    unfold tailOk at ht
    unfold effS reqS at *
    rw [← l1, ← l2, ← l3, ← l4, ← l5, ← l6, d5]
    simpa using ht
  · -- no impact
    rw [condT]
    simp only [if_true]
    decide

end Proofs.Score4
