import Cvss.Proofs.Score3MonoDefs
/-! C12 (v3.1), Spec enumeration, family A (steps in MC MI MA CR IR AR MPR MUI), Modified attack vector code 2:
    4 chunks of 4,374 exact evaluations of the v3.1 modified base score. No code involved. -/
namespace Proofs.Score3.Mono
set_option maxRecDepth 20000 in
set_option maxHeartbeats 4000000 in
theorem monoA_0_2_0 : monoA true 0 2 0 = true := by decide +kernel
set_option maxRecDepth 20000 in
set_option maxHeartbeats 4000000 in
theorem monoA_0_2_1 : monoA true 0 2 1 = true := by decide +kernel
set_option maxRecDepth 20000 in
set_option maxHeartbeats 4000000 in
theorem monoA_1_2_0 : monoA true 1 2 0 = true := by decide +kernel
set_option maxRecDepth 20000 in
set_option maxHeartbeats 4000000 in
theorem monoA_1_2_1 : monoA true 1 2 1 = true := by decide +kernel
end Proofs.Score3.Mono
