import Cvss.Proofs.Score2Main
/-!
# C12 (v2.0) helpers: monotonicity of the generated Base and Temporal scores, on codes

From the chunks `mono_base_chunk` (each of the 729 Base tuples against every more severe value of every
metric), `mono_t2_chunk` (temporal step from one BaseScore value to the next and in each weight code),
`zero_t2_chunk`, `leB_chunk` (on the 102 BaseScore values `F64.le` is the order of the indices).
-/
namespace Proofs.Score2
open Model Spec.V2
set_option maxRecDepth 100000

/-! ## Base -/
theorem imp_of_or {p q : Bool} (h : (!p || q) = true) (hp : p = true) : q = true := by
  cases p <;> simp_all

theorem monoBase_elim {c i a av ac au : Nat} (h : monoBase c i a av ac au = true) (r : Nat) (hr : r < 3) :
    (sevC "C" sC c r = true → F64.le (GenV20.BaseScore_core c i a av ac au) (GenV20.BaseScore_core r i a av ac au) = true) ∧
    (sevC "I" sI i r = true → F64.le (GenV20.BaseScore_core c i a av ac au) (GenV20.BaseScore_core c r a av ac au) = true) ∧
    (sevC "A" sA a r = true → F64.le (GenV20.BaseScore_core c i a av ac au) (GenV20.BaseScore_core c i r av ac au) = true) ∧
    (sevC "AV" sAV av r = true → F64.le (GenV20.BaseScore_core c i a av ac au) (GenV20.BaseScore_core c i a r ac au) = true) ∧
    (sevC "AC" sAC ac r = true → F64.le (GenV20.BaseScore_core c i a av ac au) (GenV20.BaseScore_core c i a av r au) = true) ∧
    (sevC "Au" sAu au r = true → F64.le (GenV20.BaseScore_core c i a av ac au) (GenV20.BaseScore_core c i a av ac r) = true) := by
  simp only [monoBase, flet_eq] at h
  have := all_range h r hr
  simp only [Bool.and_eq_true] at this
  obtain ⟨⟨⟨⟨⟨h1, h2⟩, h3⟩, h4⟩, h5⟩, h6⟩ := this
  exact ⟨imp_of_or h1, imp_of_or h2, imp_of_or h3, imp_of_or h4, imp_of_or h5, imp_of_or h6⟩

/-! ## the BaseScore values -/
theorem inB_succ (n : Nat) : inB (n + 1) = F64.tenth n := by
  have : Nat.beq (n + 1) 0 = false := rfl
  simp [inB, this]
theorem inB_zero : inB 0 = NEG0 := rfl

theorem inB_of_bitsOK {fl : Nat} {k : Int} (h : bitsOK fl k = true) (l : 0 ≤ k) (u : k ≤ 100) :
    ∃ j, j < 102 ∧ fl = inB j := by
  rcases bitsOK_cases h with rfl | ⟨rfl, rfl⟩
  · obtain ⟨n, rfl⟩ := Int.eq_ofNat_of_zero_le l
    exact ⟨n + 1, by omega, (inB_succ n).symm⟩
  · exact ⟨0, by omega, rfl⟩

theorem bitsOK_inB {j : Nat} : bitsOK (inB j) (Int.ofNat (j - 1)) = true := by
  cases j with
  | zero => decide
  | succ n =>
    rw [inB_succ]
    simp only [bitsOK, Nat.add_sub_cancel, Bool.or_eq_true]
    left
    show Nat.beq (F64.tenth n) (F64.tenth n) = true
    exact Nat.beq_refl _

/-- `F64.le` on BaseScore values is the order of the indices, `-0.0` and `+0.0` being equal -/
theorem leB {i i' : Nat} (hi : i < 102) (hi' : i' < 102) :
    F64.le (inB i) (inB i') = true ↔ (i ≤ i' ∨ (i ≤ 1 ∧ i' ≤ 1)) := by
  have h := all_range leB_chunk i hi
  simp only [flet_eq] at h
  have h := all_range h i' hi'
  rw [beq_iff_eq] at h
  rw [h]
  simp [Bool.or_eq_true, Bool.and_eq_true, Nat.ble_eq]

theorem le_trans_B {i1 i2 i3 : Nat} (h1 : i1 < 102) (h2 : i2 < 102) (h3 : i3 < 102)
    (a : F64.le (inB i1) (inB i2) = true) (b : F64.le (inB i2) (inB i3) = true) :
    F64.le (inB i1) (inB i3) = true := by
  rw [leB h1 h2] at a; rw [leB h2 h3] at b; rw [leB h1 h3]; omega

/-! ## temporal step -/
theorem t2_closed {j : Nat} (hj : j < 102) {e rl rc : Nat} (he : e < 5) (hrl : rl < 5) (hrc : rc < 4) :
    ∃ i, i < 102 ∧ T2f (inB j) e rl rc = inB i := by
  have hb : bitsOK (inB j) (Int.ofNat (j - 1)) = true := bitsOK_inB
  have l : (0 : Int) ≤ Int.ofNat (j - 1) := Int.natCast_nonneg _
  have u : Int.ofNat (j - 1) ≤ 100 := by
    show ((j - 1 : Nat) : Int) ≤ 100
    omega
  have ht := t2_tbl (by omega) u hb he hrl hrc
  simp only [okT2, flet_eq, Bool.and_eq_true] at ht
  obtain ⟨kt, _, b2, l2, u2⟩ := okStep_elim ht.1
  rw [loT_nonneg l] at l2
  rw [hiT_nonneg l] at u2
  exact inB_of_bitsOK b2 l2 u2

structure MonoT2 (j e rl rc : Nat) : Prop where
  next : F64.le (T2f (inB j) e rl rc) (T2f (inB (j + 1)) e rl rc) = true
  inE : ∀ r, r < 5 → sevC "E" sE e r = true → F64.le (T2f (inB j) e rl rc) (T2f (inB j) r rl rc) = true
  inRL : ∀ r, r < 5 → sevC "RL" sRL rl r = true → F64.le (T2f (inB j) e rl rc) (T2f (inB j) e r rc) = true
  inRC : ∀ r, r < 4 → sevC "RC" sRC rc r = true → F64.le (T2f (inB j) e rl rc) (T2f (inB j) e rl r) = true

theorem monoT2_tbl {j : Nat} (hj : j < 102) {e rl rc : Nat} (he : e < 5) (hrl : rl < 5) (hrc : rc < 4) :
    MonoT2 j e rl rc := by
  have h := allW_elim (all_range mono_t2_chunk j hj) e he rl hrl rc hrc
  simp only [monoT2, flet_eq, Bool.and_eq_true] at h
  obtain ⟨⟨⟨h1, h2⟩, h3⟩, h4⟩ := h
  exact ⟨h1, fun r hr => imp_of_or (all_range h2 r hr), fun r hr => imp_of_or (all_range h3 r hr),
    fun r hr => imp_of_or (all_range h4 r hr)⟩

/-- monotone along the chain of BaseScore values -/
theorem t2_chain {e rl rc : Nat} (he : e < 5) (hrl : rl < 5) (hrc : rc < 4) (j : Nat) :
    ∀ d, j + d < 102 → F64.le (T2f (inB j) e rl rc) (T2f (inB (j + d)) e rl rc) = true := by
  intro d
  induction d with
  | zero =>
    intro hj
    obtain ⟨i, hi, e1⟩ := t2_closed hj he hrl hrc
    rw [Nat.add_zero] at e1 ⊢
    rw [e1, leB hi hi]; omega
  | succ d ih =>
    intro hj
    have hj' : j + d < 102 := by omega
    have hj0 : j < 102 := by omega
    obtain ⟨i1, hi1, e1⟩ := t2_closed hj0 he hrl hrc
    obtain ⟨i2, hi2, e2⟩ := t2_closed hj' he hrl hrc
    obtain ⟨i3, hi3, e3⟩ := t2_closed hj he hrl hrc
    have a := ih hj'
    have b := (monoT2_tbl hj' he hrl hrc).next
    have e3' : T2f (inB (j + d + 1)) e rl rc = inB i3 := e3
    rw [e1, e2] at a
    rw [e2, e3'] at b
    rw [e1, e3]
    exact le_trans_B hi1 hi2 hi3 a b

/-- the temporal step is monotone in its input, over all pairs of BaseScore values -/
theorem t2_mono_in {j j' : Nat} (hj : j < 102) (hj' : j' < 102) (h : F64.le (inB j) (inB j') = true)
    {e rl rc : Nat} (he : e < 5) (hrl : rl < 5) (hrc : rc < 4) :
    F64.le (T2f (inB j) e rl rc) (T2f (inB j') e rl rc) = true := by
  rw [leB hj hj'] at h
  by_cases hle : j ≤ j'
  · have := t2_chain he hrl hrc j (j' - j) (by omega)
    rwa [show j + (j' - j) = j' by omega] at this
  · have h1 : j = 1 := by omega
    have h0 : j' = 0 := by omega
    subst h1; subst h0
    exact allW_elim zero_t2_chunk e he rl hrl rc hrc

end Proofs.Score2
