import Cvss.Proofs.Score2Tables
import Cvss.Proofs.Score2Wf
import Cvss.Proofs.Score2Near
/-!
# C05/C11 (v2.0): from the tables to every well-formed object

`valOf c` is the metric assignment of the object (the strings its `Get` returns). The Spec quantities of
`valOf c` are, by unfolding, the code-level exact values `XB`, `XRB`, `XT`, `XF` of the object's codes; the
generated scores are, by unfolding and the shape lemmas, `BaseScore_core`, `T2f (BaseScore_core …) …` and
`Ff (T2f (RBf …) …) …` of the same codes; `wf` puts the codes in range; the tables do the rest.
-/
namespace Proofs.Score2
open Model Spec.V2
set_option maxRecDepth 100000

/-- the metric assignment of an object: the value string `Get` returns for each abbreviation -/
def valOf (c : O20) : Spec.Bytes → Spec.Bytes := fun a => (c.get a).1

/-! ## Spec quantities of `valOf c` on the codes of `c` (all by unfolding) -/
theorem impact_valOf (c : O20) : impact (valOf c) = XI (cC c) (cI c) (cA c) := rfl
theorem exploitability_valOf (c : O20) : exploitability (valOf c) = XE (cAV c) (cAC c) (cAu c) := rfl
theorem baseExact_valOf (c : O20) : baseExact (valOf c) = XB (cC c) (cI c) (cA c) (cAV c) (cAC c) (cAu c) := rfl
theorem recBase_valOf (c : O20) : recomputedBaseExact (valOf c) =
    XRB (cC c) (cI c) (cA c) (cCR c) (cIR c) (cAR c) (cAV c) (cAC c) (cAu c) := rfl
theorem temporalStep_valOf (c : O20) (x : Rat) :
    temporalStep (valOf c) x = temporalEq x (wE (cE c)) (wRL (cRL c)) (wRC (cRC c)) := rfl
theorem finalStep_valOf (c : O20) (x : Rat) :
    finalStep (valOf c) x = environmentalEq x (wCDP (cCDP c)) (wTD (cTD c)) := rfl
theorem wCDP_valOf (c : O20) : w (valOf c) "CDP" = wCDP (cCDP c) := rfl

/-! ## Base -/
theorem base_ok (c : O20) (h : c.wf = true) :
    okBase (cC c) (cI c) (cA c) (cAV c) (cAC c) (cAu c) = true :=
  let r := wf_inRange c h
  base_tbl r.hC r.hI r.hA r.hAV r.hAC r.hAu

theorem base_main (c : O20) (h : c.wf = true) :
    ∃ k : Int, Near (baseExact (valOf c)) k ∧ bitsOK c.baseScore k = true ∧ 0 ≤ k ∧ k ≤ 100 := by
  have hb := base_ok c h
  simp only [okBase, flet_eq, forceRat_eq, Bool.and_eq_true] at hb
  rw [baseExact_valOf, baseScore_codes]
  exact okStep_elim hb.1

/-- O1: `BaseScore` is `-0.0` exactly when Impact = 0 and 0.4·Exploitability < 1.5 -/
theorem base_neg0 (c : O20) (h : c.wf = true) :
    c.baseScore = NEG0 ↔ (impact (valOf c) = 0 ∧ 0.4 * exploitability (valOf c) < 1.5) := by
  have hb := base_ok c h
  simp only [okBase, flet_eq, forceRat_eq, Bool.and_eq_true, beq_iff_eq] at hb
  rw [baseScore_codes, impact_valOf, exploitability_valOf]
  have h2 := hb.2
  constructor
  · intro e
    rw [e] at h2
    have : (Nat.beq NEG0 NEG0) = true := by decide
    rw [this] at h2
    simpa using h2.symm
  · intro ⟨e1, e2⟩
    have : (decide (XI (cC c) (cI c) (cA c) = 0) && decide (0.4 * XE (cAV c) (cAC c) (cAu c) < 1.5)) = true := by
      simp [e1, e2]
    rw [this] at h2
    exact Nat.eq_of_beq_eq_true h2

/-! ## Temporal -/
theorem loT_nonneg {kb : Int} (h : 0 ≤ kb) : loT kb = 0 := by
  have : decide (kb < 0) = false := by simp; omega
  simp [loT, this]
theorem hiT_nonneg {kb : Int} (h : 0 ≤ kb) : hiT kb = 100 := by
  have : decide (kb < 0) = false := by simp; omega
  simp [hiT, this]
theorem loT_ge (kb : Int) : -2 ≤ loT kb := by
  unfold loT; cases decide (kb < 0) <;> simp
theorem hiT_le (kb : Int) : hiT kb ≤ 100 := by
  unfold hiT; cases decide (kb < 0) <;> simp
theorem hiT_neg {kb : Int} (h : kb < 0) : hiT kb = -1 := by
  have : decide (kb < 0) = true := by simp; omega
  simp [hiT, this]

theorem temporalScore_shape (c : O20) :
    c.temporalScore = T2f c.baseScore (cE c) (cRL c) (cRC c) := by
  rw [temporalScore_codes, temporal_shape, baseScore_codes]

theorem temporal_main (c : O20) (h : c.wf = true) :
    ∃ kb kt : Int, Near (baseExact (valOf c)) kb ∧ bitsOK c.baseScore kb = true ∧ 0 ≤ kb ∧ kb ≤ 100 ∧
      Near (temporalStep (valOf c) (score kb)) kt ∧ bitsOK c.temporalScore kt = true ∧ 0 ≤ kt ∧ kt ≤ 100 := by
  obtain ⟨kb, n1, b1, l1, u1⟩ := base_main c h
  have r := wf_inRange c h
  have ht := t2_tbl (by omega) u1 b1 r.hE r.hRL r.hRC
  simp only [okT2, flet_eq, Bool.and_eq_true] at ht
  obtain ⟨kt, n2, b2, l2, u2⟩ := okStep_elim ht.1
  rw [loT_nonneg l1] at l2
  rw [hiT_nonneg l1] at u2
  refine ⟨kb, kt, n1, b1, l1, u1, ?_, ?_, l2, u2⟩
  · exact n2
  · rw [temporalScore_shape]; exact b2

/-- O1: `TemporalScore` is `-0.0` exactly when `BaseScore` is -/
theorem temporal_neg0 (c : O20) (h : c.wf = true) : c.temporalScore = NEG0 ↔ c.baseScore = NEG0 := by
  obtain ⟨kb, _, b1, l1, u1⟩ := base_main c h
  have r := wf_inRange c h
  have ht := t2_tbl (by omega) u1 b1 r.hE r.hRL r.hRC
  simp only [okT2, flet_eq, Bool.and_eq_true, beq_iff_eq] at ht
  rw [temporalScore_shape]
  have h2 := ht.2
  constructor
  · intro e
    rw [e] at h2
    have : (Nat.beq NEG0 NEG0) = true := by decide
    rw [this] at h2
    exact Nat.eq_of_beq_eq_true h2.symm
  · intro e
    rw [e] at h2 ⊢
    have : (Nat.beq NEG0 NEG0) = true := by decide
    rw [this] at h2
    exact Nat.eq_of_beq_eq_true h2

/-! ## Environmental -/
theorem environmentalScore_shape (c : O20) :
    c.environmentalScore =
      Ff (T2f (RBf (cC c) (cI c) (cA c) (cCR c) (cIR c) (cAR c) (cAV c) (cAC c) (cAu c)) (cE c) (cRL c) (cRC c))
        (cCDP c) (cTD c) := by
  rw [environmentalScore_codes, env_shape]

/-- the whole chain, with everything the corollaries need: `kb`, `kt`, `k` are the tenths of the model's
    recomputed base, adjusted temporal and environmental score -/
theorem env_main (c : O20) (h : c.wf = true) :
    ∃ kb kt k : Int, Near (recomputedBaseExact (valOf c)) kb ∧ Near (temporalStep (valOf c) (score kb)) kt ∧
      Near (finalStep (valOf c) (score kt)) k ∧ bitsOK c.environmentalScore k = true ∧ -2 ≤ k ∧ k ≤ 100 ∧
      (c.environmentalScore = NEG0 → kb < 0 ∧ wCDP (cCDP c) = 0) := by
  have r := wf_inRange c h
  have h1 := rb_tbl r.hC r.hI r.hA r.hCR r.hIR r.hAR r.hAV r.hAC r.hAu
  simp only [okRB, flet_eq, forceRat_eq] at h1
  obtain ⟨kb, n1, b1, l1, u1⟩ := okStep_elim h1
  have h2 := t2_tbl l1 u1 b1 r.hE r.hRL r.hRC
  simp only [okT2, flet_eq, Bool.and_eq_true] at h2
  obtain ⟨kt, n2, b2, l2, u2⟩ := okStep_elim h2.1
  have l2' : -2 ≤ kt := Int.le_trans (loT_ge kb) l2
  have u2' : kt ≤ 100 := Int.le_trans u2 (hiT_le kb)
  have h3 := f_tbl l2' u2' b2 r.hCDP r.hTD
  simp only [okF, flet_eq, Bool.and_eq_true, beq_iff_eq] at h3
  obtain ⟨k, n3, b3, l3, u3⟩ := okStep_elim h3.1
  refine ⟨kb, kt, k, ?_, n2, n3, ?_, l3, u3, ?_⟩
  · rw [recBase_valOf]; exact n1
  · rw [environmentalScore_shape]; exact b3
  · intro e
    rw [environmentalScore_shape] at e
    have h4 := h3.2
    rw [e] at h4
    have : (Nat.beq NEG0 NEG0) = true := by decide
    rw [this] at h4
    have h5 := h4.symm
    simp only [Bool.and_eq_true, decide_eq_true_eq] at h5
    refine ⟨?_, h5.1.2⟩
    -- kt < 0 forces kb < 0 (the temporal step keeps the sign)
    by_cases hk : kb < 0
    · exact hk
    · rw [loT_nonneg (by omega)] at l2; have := h5.1.1; omega

end Proofs.Score2
