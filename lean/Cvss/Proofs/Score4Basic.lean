import Cvss.Base.F64
import Cvss.Base.Go
/-!
# Small rewriting lemmas for the v4.0 score proof

The rewrite lemmas below are deliberately *not* `rfl`-lemmas, so that `simp only`/`rw` use them as proper
rewrites: `dsimp`-style steps make the kernel re-check definitional equalities by evaluating terms such as
`Nat.sub x 4149` (unfolding `Nat.sub` on the literal: deep recursion).
-/
namespace Proofs.Score4

theorem flet_eq {α : Sort u} (x : Nat) (k : Nat → α) : F64.flet x k = k x := by cases x <;> rfl
theorem condT {α : Type} (a b : α) : cond true a b = a := by cases h : true <;> first | rfl | cases h
theorem condF {α : Type} (a b : α) : cond false a b = b := by cases h : false <;> first | rfl | cases h

theorem ble_true {a b : Nat} (h : a ≤ b) : Nat.ble a b = true := Nat.ble_eq_true_of_le h
theorem ble_false {a b : Nat} (h : b < a) : Nat.ble a b = false :=
  Bool.eq_false_iff.mpr (fun hb => absurd (Nat.le_of_ble_eq_true hb) (Nat.not_le.mpr h))
theorem blt_true {a b : Nat} (h : a < b) : Nat.blt a b = true := ble_true h
theorem blt_false {a b : Nat} (h : b ≤ a) : Nat.blt a b = false := ble_false (Nat.lt_succ_of_le h)
theorem beq_false {a b : Nat} (h : a ≠ b) : Nat.beq a b = false :=
  Bool.eq_false_iff.mpr (fun hb => h (Nat.eq_of_beq_eq_true hb))
theorem beq_true {a b : Nat} (h : a = b) : Nat.beq a b = true := by subst h; exact Nat.beq_refl a

end Proofs.Score4
