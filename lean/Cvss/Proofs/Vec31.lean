import Cvss.Proofs.VecCommon
/-!
# v3.1: the generated `Vector()` writes the Spec canonical form, and `lenVec()` is its length

* `vector_eq` (A): for **every** object `c` (no well-formedness, not even byte-sized fields needed)
  `c.vector = Spec.V3.canonical header31 (metrics.map fun m => (m.abv, (c.get m.abv).1))`.
  Proof: unfold the generated `Vector_core`, bring the two Go helpers into closed form
  (`mandatory b pre v = b ++ (pre ++ v)`, `notMandatory b pre v = b ++ opt pre v`), and let `simp`
  compare the resulting append chain with the Spec's piece list — emission order, prefixes and header
  all come from the generated text.
* `length_formula` (B, strongest form, every byte state):
  `c.vector.length + #{metrics that do not read as a legal value} = c.lenVec`.
  Per metric one enumeration of ONE byte (or of the two parts of a field split over two bytes) through the
  generated `Get`: "length of the Spec piece + (1 if the value is illegal) = `cond (mask ≠ 0) inc 0`", where
  mask and increment are those of the generated `lenVec_core` (the rewrite only succeeds if they coincide
  syntactically with the generated text).
* consequences: `length_eq` (C17: legal values ⇒ equality), `length_eq_iff` (for byte states equality holds
  **iff** every metric reads as a legal value), `length_le` (the pre-sized buffer is never outgrown, whatever
  the bytes), `length_ne_example`.
-/
namespace Proofs.Vec31
open Spec Proofs.Vec
open Model (O31)

/-! ## (A) shape -/

theorem mand_eq (b pre v : Spec.Bytes) : GenV31.mandatory b pre v = b ++ (pre ++ v) := by
  simp [GenV31.mandatory]

theorem nm_eq (b pre v : Spec.Bytes) : GenV31.notMandatory b pre v = b ++ opt pre v := by
  unfold GenV31.notMandatory opt Go.strEq
  by_cases h : v = [88] <;> simp [h, mand_eq]

set_option maxHeartbeats 1000000 in
theorem core_shape (r0 r1 r2 r3 r4 r5 r6 r7 r8 r9 r10 r11 r12 r13 r14 r15 r16 r17 r18 r19 r20 r21 r22 r23 r24
    r25 r26 r27 r28 r29 r30 r31 r32 r33 : Nat) :
    GenV31.Vector_core r0 r1 r2 r3 r4 r5 r6 r7 r8 r9 r10 r11 r12 r13 r14 r15 r16 r17 r18 r19 r20 r21 r22 r23 r24
      r25 r26 r27 r28 r29 r30 r31 r32 r33
    = V3.header31 ++ emit V3.metrics
        (GenV31.get_core r15 r16 r17 r18 r19 r20 r21 r22 r0 r23 r24 r25 r26 r27 r28 r12 r29 r30 r31 r8 r32 r33) := by
  simp only [GenV31.Vector_core, flet_eq, mand_eq, nm_eq]
  generalize GenV31.get_core r15 r16 r17 r18 r19 r20 r21 r22 r0 r23 r24 r25 r26 r27 r28 r12 r29 r30 r31 r8 r32 r33 = G
  simp [emit, piece, opt, render, V3.metrics, V3.base, V3.temporal, V3.environmental, V3.header31, mand, optX,
    Spec.b, SLASH, COLON]

/-- the private `get` of `Vector()` is the first component of the public `Get` -/
theorem get_fst (c : O31) : (fun a => (c.get a).1) = GenV31.get c.u0 c.u1 c.u2 c.u3 c.u4 c.u5 := rfl

theorem vector_shape (c : O31) : c.vector = V3.header31 ++ emit V3.metrics (fun a => (c.get a).1) := by
  rw [get_fst]
  unfold O31.vector GenV31.Vector GenV31.get
  rw [core_shape]

/-- **(A)** `Vector()` spells the canonical form of the object's own values — for every object. -/
theorem vector_eq (c : O31) :
    c.vector = V3.canonical V3.header31 (V3.metrics.map fun m => (m.abv, (c.get m.abv).1)) := by
  rw [vector_shape]; exact (V3_canonical_eq V3.header31 _).symm

/-! ## (B) length -/

abbrev M (a : String) : Metric := met V3.metrics a

/-- length of the piece the canonical form writes for metric `m` of object `c`, plus 1 if `m` reads as an
    illegal value -/
def plen (c : O31) (m : Metric) : Nat := (piece m (c.get m.abv).1).length + bad m (c.get m.abv).1

/-- the value `Get(a)` returns on the object whose byte `k` is `u` and whose other bytes are zero -/
def byteVal (k u : Nat) (a : Spec.Bytes) : Spec.Bytes :=
  (GenV31.Get (sel 0 k u) (sel 1 k u) (sel 2 k u) (sel 3 k u) (sel 4 k u) (sel 5 k u) a).1

/-- slot statement for a metric stored inside byte `k`: for every value `u` of that byte, the length of the
    piece written for the metric (+1 if the value it reads as is illegal) is `f u` -/
abbrev SlotB (a : String) (k : Nat) (f : Nat → Nat) : Prop :=
  ∀ u, u < 256 → (piece (M a) (byteVal k u (b a))).length + bad (M a) (byteVal k u (b a)) = f u

/-! mandatory metrics: `/abv:` and one letter (`lenVec` accounts for them in its constant) -/
theorem slot_AV : SlotB "AV" 0 (fun _ => 5) := by decide +kernel
theorem slot_AC : SlotB "AC" 0 (fun _ => 5) := by decide +kernel
theorem slot_PR : SlotB "PR" 0 (fun _ => 5) := by decide +kernel
theorem slot_UI : SlotB "UI" 0 (fun _ => 5) := by decide +kernel
theorem slot_S : SlotB "S" 0 (fun _ => 4) := by decide +kernel
theorem slot_I : SlotB "I" 1 (fun _ => 4) := by decide +kernel
theorem slot_A : SlotB "A" 1 (fun _ => 4) := by decide +kernel

/-! optional metrics: mask test and increment of the generated `lenVec` -/
theorem slot_E : SlotB "E" 1 (fun u => cond (!(Nat.beq (Nat.land u 7) 0)) 4 0) := by decide +kernel
theorem slot_RL : SlotB "RL" 2 (fun u => cond (!(Nat.beq (Nat.land u 224) 0)) 5 0) := by decide +kernel
theorem slot_RC : SlotB "RC" 2 (fun u => cond (!(Nat.beq (Nat.land u 24) 0)) 5 0) := by decide +kernel
theorem slot_CR : SlotB "CR" 2 (fun u => cond (!(Nat.beq (Nat.land u 6) 0)) 5 0) := by decide +kernel
theorem slot_AR : SlotB "AR" 3 (fun u => cond (!(Nat.beq (Nat.land u 96) 0)) 5 0) := by decide +kernel
theorem slot_MAV : SlotB "MAV" 3 (fun u => cond (!(Nat.beq (Nat.land u 28) 0)) 6 0) := by decide +kernel
theorem slot_MAC : SlotB "MAC" 3 (fun u => cond (!(Nat.beq (Nat.land u 3) 0)) 6 0) := by decide +kernel
theorem slot_MPR : SlotB "MPR" 4 (fun u => cond (!(Nat.beq (Nat.land u 192) 0)) 6 0) := by decide +kernel
theorem slot_MUI : SlotB "MUI" 4 (fun u => cond (!(Nat.beq (Nat.land u 48) 0)) 6 0) := by decide +kernel
theorem slot_MS : SlotB "MS" 4 (fun u => cond (!(Nat.beq (Nat.land u 12) 0)) 5 0) := by decide +kernel
theorem slot_MC : SlotB "MC" 4 (fun u => cond (!(Nat.beq (Nat.land u 3) 0)) 5 0) := by decide +kernel
theorem slot_MI : SlotB "MI" 5 (fun u => cond (!(Nat.beq (Nat.land u 192) 0)) 5 0) := by decide +kernel
theorem slot_MA : SlotB "MA" 5 (fun u => cond (!(Nat.beq (Nat.land u 48) 0)) 5 0) := by decide +kernel

/-! fields split over two bytes: `p` is bit 0 of the first byte, `q` bit 7 of the next one -/
def valC (p q : Nat) : Spec.Bytes := (GenV31.Get p q 0 0 0 0 (b "C")).1
theorem slot_C : ∀ p, p < 2 → ∀ q ∈ [0, 128],
    (piece (M "C") (valC p q)).length + bad (M "C") (valC p q) = 4 := by decide +kernel
theorem get_C (c : O31) : (c.get (M "C").abv).1 = valC (Nat.land c.u0 1) (Nat.land c.u1 128) := by
  unfold valC O31.get GenV31.Get
  rw [land_idem, land_idem]
  rfl

def valIR (p q : Nat) : Spec.Bytes := (GenV31.Get 0 0 p q 0 0 (b "IR")).1
theorem slot_IR : ∀ p, p < 2 → ∀ q ∈ [0, 128],
    (piece (M "IR") (valIR p q)).length + bad (M "IR") (valIR p q)
      = cond ((!(Nat.beq p 0)) || (!(Nat.beq q 0))) 5 0 := by decide +kernel
theorem get_IR (c : O31) : (c.get (M "IR").abv).1 = valIR (Nat.land c.u2 1) (Nat.land c.u3 128) := by
  unfold valIR O31.get GenV31.Get
  rw [land_idem, land_idem]
  rfl

theorem slot_apply (c : O31) (m : Metric) (n : Nat) (v' : Spec.Bytes)
    (hs : (piece m v').length + bad m v' = n) (hget : (c.get m.abv).1 = v') : plen c m = n := by
  unfold plen; rw [hget]; exact hs

theorem metrics_list : V3.metrics = ["AV", "AC", "PR", "UI", "S", "C", "I", "A", "E", "RL", "RC", "CR", "IR", "AR", "MAV", "MAC", "MPR", "MUI", "MS", "MC", "MI", "MA"].map M := by rfl

set_option maxHeartbeats 4000000 in
/-- **(B)** for every byte state: `len(Vector())` + number of metrics reading as an illegal value = `lenVec()` -/
theorem length_formula (c : O31) (hb : c.IsBytes) :
    c.vector.length + (V3.metrics.map fun m => bad m (c.get m.abv).1).sum = c.lenVec := by
  obtain ⟨h0, h1, h2, h3, h4, h5⟩ := hb
  have hAV := slot_apply c (M "AV") _ _ (slot_AV c.u0 h0) rfl
  have hAC := slot_apply c (M "AC") _ _ (slot_AC c.u0 h0) rfl
  have hPR := slot_apply c (M "PR") _ _ (slot_PR c.u0 h0) rfl
  have hUI := slot_apply c (M "UI") _ _ (slot_UI c.u0 h0) rfl
  have hS := slot_apply c (M "S") _ _ (slot_S c.u0 h0) rfl
  have hC := slot_apply c (M "C") _ _ (slot_C _ (land1_lt c.u0 h0) _ (land128_mem c.u1 h1)) (get_C c)
  have hI := slot_apply c (M "I") _ _ (slot_I c.u1 h1) rfl
  have hA := slot_apply c (M "A") _ _ (slot_A c.u1 h1) rfl
  have hE := slot_apply c (M "E") _ _ (slot_E c.u1 h1) rfl
  have hRL := slot_apply c (M "RL") _ _ (slot_RL c.u2 h2) rfl
  have hRC := slot_apply c (M "RC") _ _ (slot_RC c.u2 h2) rfl
  have hCR := slot_apply c (M "CR") _ _ (slot_CR c.u2 h2) rfl
  have hIR := slot_apply c (M "IR") _ _ (slot_IR _ (land1_lt c.u2 h2) _ (land128_mem c.u3 h3)) (get_IR c)
  have hAR := slot_apply c (M "AR") _ _ (slot_AR c.u3 h3) rfl
  have hMAV := slot_apply c (M "MAV") _ _ (slot_MAV c.u3 h3) rfl
  have hMAC := slot_apply c (M "MAC") _ _ (slot_MAC c.u3 h3) rfl
  have hMPR := slot_apply c (M "MPR") _ _ (slot_MPR c.u4 h4) rfl
  have hMUI := slot_apply c (M "MUI") _ _ (slot_MUI c.u4 h4) rfl
  have hMS := slot_apply c (M "MS") _ _ (slot_MS c.u4 h4) rfl
  have hMC := slot_apply c (M "MC") _ _ (slot_MC c.u4 h4) rfl
  have hMI := slot_apply c (M "MI") _ _ (slot_MI c.u5 h5) rfl
  have hMA := slot_apply c (M "MA") _ _ (slot_MA c.u5 h5) rfl
  have hhdr : V3.header31.length = 8 := by decide
  have hlen : c.vector.length + (V3.metrics.map fun m => bad m (c.get m.abv).1).sum
      = V3.header31.length + (V3.metrics.map (plen c)).sum := by
    rw [vector_shape, List.length_append, length_emit]
    unfold plen
    rw [sum_map_add]; omega
  dsimp only at hAV hAC hPR hUI hS hC hI hA hE hRL hRC hCR hIR hAR hMAV hMAC hMPR hMUI hMS hMC hMI hMA
  rw [hlen, hhdr, metrics_list]
  simp only [List.map, List.sum_cons, List.sum_nil, hAV, hAC, hPR, hUI, hS, hC, hI, hA]
  unfold O31.lenVec GenV31.lenVec
  simp only [GenV31.lenVec_core, flet_eq, cond_add]
  rw [← hE, ← hRL, ← hRC, ← hCR, ← hIR, ← hAR, ← hMAV, ← hMAC, ← hMPR, ← hMUI, ← hMS, ← hMC, ← hMI, ← hMA]
  generalize plen c (M "E") = x1
  generalize plen c (M "RL") = x2
  generalize plen c (M "RC") = x3
  generalize plen c (M "CR") = x4
  generalize plen c (M "IR") = x5
  generalize plen c (M "AR") = x6
  generalize plen c (M "MAV") = x7
  generalize plen c (M "MAC") = x8
  generalize plen c (M "MPR") = x9
  generalize plen c (M "MUI") = x10
  generalize plen c (M "MS") = x11
  generalize plen c (M "MC") = x12
  generalize plen c (M "MI") = x13
  generalize plen c (M "MA") = x14
  clear hAV hAC hPR hUI hS hC hI hA hE hRL hRC hCR hIR hAR hMAV hMAC hMPR hMUI hMS hMC hMI hMA hlen hhdr h0 h1 h2 h3 h4 h5
  omega

/-- **C17** for every byte state whose metrics all read as legal values (unused bits are irrelevant) -/
theorem length_eq (c : O31) (hb : c.IsBytes) (hv : ∀ m ∈ V3.metrics, (c.get m.abv).1 ∈ m.values) :
    c.vector.length = c.lenVec := by
  have h := length_formula c hb
  rw [(bad_sum_eq_zero_iff V3.metrics fun a => (c.get a).1).mpr hv] at h
  exact h

/-- for byte states, C17 holds **exactly** when every metric reads as a legal value -/
theorem length_eq_iff (c : O31) (hb : c.IsBytes) :
    c.vector.length = c.lenVec ↔ ∀ m ∈ V3.metrics, (c.get m.abv).1 ∈ m.values := by
  have h := length_formula c hb
  rw [← bad_sum_eq_zero_iff V3.metrics fun a => (c.get a).1]
  omega

/-- whatever the bytes, `Vector()` never outgrows the buffer pre-sized with `lenVec()` -/
theorem length_le (c : O31) (hb : c.IsBytes) : c.vector.length ≤ c.lenVec := by
  have h := length_formula c hb
  omega

theorem wf_bytes (c : O31) (h : c.wf = true) : c.IsBytes := by
  simp only [O31.wf, O31.bytes, List.all_cons, List.all_nil, Bool.and_eq_true, Nat.blt_eq] at h
  obtain ⟨⟨⟨h0, h1, h2, h3, h4, h5, _⟩, _⟩, _⟩ := h
  exact ⟨h0, h1, h2, h3, h4, h5⟩

theorem wf_legal (c : O31) (h : c.wf = true) : ∀ m ∈ V3.metrics, (c.get m.abv).1 ∈ m.values := by
  simp only [O31.wf, Bool.and_eq_true] at h
  exact legalGets_mem _ _ h.2

/-- **C17** for well-formed objects -/
theorem length_eq_wf (c : O31) (h : c.wf = true) : c.vector.length = c.lenVec :=
  length_eq c (wf_bytes c h) (wf_legal c h)

/-- the hypotheses are satisfiable by a non-trivial object -/
example : (⟨110, 194, 1, 16, 0, 48⟩ : O31).wf = true := by decide +kernel
example : (⟨110, 194, 1, 16, 0, 48⟩ : O31).vector
    = b "CVSS:3.1/AV:A/AC:H/PR:L/UI:R/S:C/C:L/I:N/A:H/E:F/IR:M/MAV:P/MA:N" := by decide +kernel

/-- On non-well-formed byte states the equality fails: code 5 in the `E` field reads as `""`; `lenVec` adds 4 for
    `/E:` + one letter, `Vector` writes only `/E:` (the buffer is over-allocated by one byte, never outgrown). -/
theorem length_ne_example :
    (⟨0, 5, 0, 0, 0, 0⟩ : O31).vector.length = 47 ∧ (⟨0, 5, 0, 0, 0, 0⟩ : O31).lenVec = 48 := by decide +kernel

end Proofs.Vec31
