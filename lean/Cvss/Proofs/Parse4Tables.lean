import Cvss.Proofs.Parse4Order
/-!
# v4.0 parser proofs, part 3: table facts

Closed facts tying the **regenerated** `GenV40.const_header` / `GenV40.tbl_order` to the Spec tables, and
closed facts about the Spec metric table itself. All by `decide`: a changed header literal or order
table in the Go source breaks the first two after regeneration.
-/
namespace Proofs.P4
open Spec

/-- the generated header literal is the specification's `CVSS:4.0` -/
theorem header_eq : GenV40.const_header = V4.header := by decide

/-- the generated `order` table is the specification's four groups, in Table 23 order -/
theorem order_eq : GenV40.tbl_order =
    [abvs V4.base, abvs V4.threat, abvs V4.environmental, abvs V4.supplemental] := by decide

theorem optional_flat : [abvs V4.threat, abvs V4.environmental, abvs V4.supplemental].flatten = abvs V4.optional := by
  decide

/-- the flattened, tagged order the parser walks -/
theorem ord0_eq : Model.flatOrder GenV40.tbl_order = mk (abvs V4.base) (abvs V4.optional) := by
  rw [order_eq, flatOrder_eq, optional_flat]

theorem metrics_eq : V4.metrics = V4.base ++ V4.optional := by decide

theorem abvs_metrics : abvs V4.metrics = abvs V4.base ++ abvs V4.optional := by
  rw [metrics_eq]; simp [abvs]

theorem base_length : (abvs V4.base).length = 11 := by decide

/-- no abbreviation contains `/` or `:`; no value contains `/`; no value is empty -/
theorem clean_tbl : ∀ m ∈ V4.metrics, COLON ∉ m.abv ∧ SLASH ∉ m.abv ∧ ∀ v ∈ m.values, SLASH ∉ v ∧ v ≠ [] := by
  decide

/-- abbreviations are pairwise distinct -/
theorem nodup_abvs : (abvs V4.metrics).Nodup := by decide

theorem find_self : ∀ m ∈ V4.metrics, findMetric V4.metrics m.abv = some m := by decide

theorem base_mandatory : ∀ m ∈ V4.base, m.mandatory = true := by decide

/-- every optional metric has a not-defined value, which is one of its legal values -/
theorem optional_undef : ∀ m ∈ V4.optional, m.mandatory = false ∧ ∃ u ∈ m.values, m.undef = some u := by decide

/-! ## consequences for `findMetric` / `legal` / `isMetric` -/

theorem findMetric_some {ms : List Metric} {a : Bytes} {m : Metric} (h : findMetric ms a = some m) :
    m ∈ ms ∧ m.abv = a := by
  unfold findMetric at h
  exact ⟨List.mem_of_find?_eq_some h, by simpa using List.find?_some h⟩

theorem legal_iff {ms : List Metric} {a v : Bytes} :
    legal ms a v = true ↔ ∃ m, findMetric ms a = some m ∧ v ∈ m.values := by
  unfold legal
  cases h : findMetric ms a with
  | none => simp
  | some m => simp

theorem isMetric_of_legal {ms : List Metric} {a v : Bytes} (h : legal ms a v = true) : isMetric ms a = true := by
  obtain ⟨m, h1, _⟩ := legal_iff.mp h
  simp [isMetric, h1]

theorem isMetric_iff {ms : List Metric} {a : Bytes} : isMetric ms a = true ↔ a ∈ abvs ms := by
  unfold isMetric
  constructor
  · intro h
    obtain ⟨m, hm⟩ := Option.isSome_iff_exists.mp h
    obtain ⟨h1, h2⟩ := findMetric_some hm
    exact List.mem_map.mpr ⟨m, h1, h2⟩
  · intro h
    obtain ⟨m, h1, h2⟩ := List.mem_map.mp h
    unfold findMetric
    rw [List.find?_isSome]
    exact ⟨m, h1, by simp [h2]⟩

theorem legal_self {m : Metric} (hm : m ∈ V4.metrics) (v : Bytes) : legal V4.metrics m.abv v = m.values.contains v := by
  unfold legal; rw [find_self m hm]

theorem unique_abv {m m' : Metric} (hm : m ∈ V4.metrics) (hm' : m' ∈ V4.metrics) (h : m.abv = m'.abv) : m = m' := by
  have := find_self m hm
  rw [h, find_self m' hm'] at this
  exact (Option.some.inj this).symm

/-- a legal pair can be lexed back: its abbreviation has no `:`/`/`, its value no `/`, and is not empty -/
theorem legal_clean {p : Pair} (h : legal V4.metrics p.1 p.2 = true) :
    COLON ∉ p.1 ∧ SLASH ∉ p.1 ∧ SLASH ∉ p.2 ∧ p.2 ≠ [] := by
  obtain ⟨m, h1, h2⟩ := legal_iff.mp h
  obtain ⟨hm, ha⟩ := findMetric_some h1
  obtain ⟨c1, c2, c3⟩ := clean_tbl m hm
  rw [ha] at c1 c2
  exact ⟨c1, c2, (c3 _ h2).1, (c3 _ h2).2⟩

theorem noslash_render {p : Pair} (h1 : SLASH ∉ p.1) (h2 : SLASH ∉ p.2) : SLASH ∉ render p := by
  unfold render
  intro hm
  rcases List.mem_append.mp hm with e | e
  · exact h1 e
  · rcases List.mem_cons.mp e with e | e
    · exact absurd e (by decide)
    · exact h2 e

end Proofs.P4
