import Cvss.Proofs.Score3Util
/-!
# No-panic proofs, CVSS v3.0 / v3.1: what both versions share

The generated twins (`Gen/K30.lean`, `Gen/K31.lean`) live in two namespaces and are different constants, so the facts about
them are stated per version; what is shared is (a) the shape of every twin of a weight helper — "a `switch` over the codes
`0 … n-1` whose `default` is the only `panic`" — captured once as `RangeOk`, (b) the range arithmetic of the effective code
`mod base modified`, stated for an arbitrary function that computes what the generated `mod_` computes, and (c) the
simp set that evaluates the verdict bookkeeping (`okResult := okResult && …`, `F64.flet`, `cond c ok ok`).
-/
namespace Proofs.NoPanic3

/-- the forcing combinator is the identity on the continuation's argument -/
theorem flet_eq {α : Sort u} (x : Nat) (k : Nat → α) : F64.flet x k = k x := Proofs.Score3.flet_eq x k

/-- both branches return the verdict unchanged -/
theorem cond_same {α : Sort u} (c : Bool) (x : α) : cond c x x = x := by cases c <;> rfl

/-- `f` is the twin of a helper that panics exactly outside the codes `0 … n-1` -/
def RangeOk (f : Nat → Bool) (n : Nat) : Prop := ∀ v, f v = Nat.blt v n

theorem RangeOk.ok {f : Nat → Bool} {n : Nat} (h : RangeOk f n) {v : Nat} (hv : v < n) : f v = true := by
  rw [h v]; exact (Nat.blt_eq).mpr hv

theorem RangeOk.bad {f : Nat → Bool} {n : Nat} (h : RangeOk f n) {v : Nat} (hv : n ≤ v) : f v = false := by
  rw [h v]
  cases hb : Nat.blt v n
  · rfl
  · exact absurd ((Nat.blt_eq).mp hb) (Nat.not_lt.mpr hv)

/-- a chain of `Nat.beq v k` tests, `k = 0 … n-1`, is the comparison `v < n` (the shapes the generated twins have) -/
theorem chain2 (v : Nat) : cond (Nat.beq v 0) true (cond (Nat.beq v 1) true false) = Nat.blt v 2 := by
  match v with
  | 0 | 1 => rfl
  | _ + 2 => rfl
theorem chain3 (v : Nat) : cond (Nat.beq v 0) true (cond (Nat.beq v 1) true (cond (Nat.beq v 2) true false)) = Nat.blt v 3 := by
  match v with
  | 0 | 1 | 2 => rfl
  | _ + 3 => rfl
theorem chain4 (v : Nat) : cond (Nat.beq v 0) true (cond (Nat.beq v 1) true (cond (Nat.beq v 2) true
    (cond (Nat.beq v 3) true false))) = Nat.blt v 4 := by
  match v with
  | 0 | 1 | 2 | 3 => rfl
  | _ + 4 => rfl
/-- … with the first case covering two codes (`case 0, 2:` of `ciar`) -/
theorem chain4' (v : Nat) : cond (Nat.beq v 0 || Nat.beq v 2) true (cond (Nat.beq v 1) true
    (cond (Nat.beq v 3) true false)) = Nat.blt v 4 := by
  match v with
  | 0 | 1 | 2 | 3 => rfl
  | _ + 4 => rfl
/-- … (`case 0, 1:` of `reportConfidence`) -/
theorem chain4'' (v : Nat) : cond (Nat.beq v 0 || Nat.beq v 1) true (cond (Nat.beq v 2) true
    (cond (Nat.beq v 3) true false)) = Nat.blt v 4 := by
  match v with
  | 0 | 1 | 2 | 3 => rfl
  | _ + 4 => rfl
/-- … (`case 0, 1:` of `exploitCodeMaturity`, `remediationLevel`) -/
theorem chain5 (v : Nat) : cond (Nat.beq v 0 || Nat.beq v 1) true (cond (Nat.beq v 2) true
    (cond (Nat.beq v 3) true (cond (Nat.beq v 4) true false))) = Nat.blt v 5 := by
  match v with
  | 0 | 1 | 2 | 3 | 4 => rfl
  | _ + 5 => rfl

/-- what the generated `mod_` computes: the Modified metric's code minus one when it is defined, else the Base code -/
def IsMod (m : Nat → Nat → Nat) : Prop :=
  ∀ base modified, m base modified = cond (!(Nat.beq modified 0)) (Nat.mod (Nat.sub (Nat.add modified 256) 1) 256) base

/-- the effective code stays in the Base metric's range when the Modified metric has one more value (`X`) than the Base one -/
theorem IsMod.lt {m : Nat → Nat → Nat} (h : IsMod m) {n b md : Nat} (hn : n < 256) (hb : b < n) (hm : md < n + 1) :
    m b md < n := by
  rw [h b md]
  match md with
  | 0 => exact hb
  | k + 1 =>
    show (k + 1 + 256 - 1) % 256 < n
    have : k + 1 + 256 - 1 = k + 256 := by omega
    rw [this, Nat.add_mod_right, Nat.mod_eq_of_lt (by omega)]
    omega

end Proofs.NoPanic3
