import Cvss.Proofs.Score3Util
/-!
# C12 (v3), specification side: enumeration predicates for monotonicity of the equations on codes

Nothing here looks at the Go code. Codes are value-table indices (`Score3Spec.lean`): for every metric except
Scope a *smaller* code is the more severe value (AV N0>A1>L2>P3, AC L0>H1, PR N0>L1>H2, UI N0>R1, C/I/A H0>L1>N2,
requirements H1>M2>L3, E H1>F2>P3>U4, RL U1>W2>T3>O4, RC C1>R2>U3); Scope: U0<C1.
All values are tenths as `Nat` (`Int.toNat` of the Spec value), so that the kernel compares literals and its
evaluation cache shares the value of a tuple between all the comparisons it takes part in.
-/
namespace Proofs.Score3.Mono
open Spec Spec.V3 Proofs.Score3

/-- modified base score (tenths) on effective codes; requirement *indices* `ci ii ai` ∈ {0,1,2} = codes H1, M2, L3 -/
def kI (v31 : Bool) (mav mac mpr mui ms mc mi ma ci ii ai : Nat) : Nat :=
  (specInner v31 mav mac mpr mui ms mc mi ma (Nat.succ ci) (Nat.succ ii) (Nat.succ ai)).toNat
/-- base score (tenths) -/
def kB (av ac pr ui s c i a : Nat) : Nat := (specBase av ac pr ui s c i a).toNat
/-- temporal step (tenths); temporal *indices* `e rl rc` = codes 1.. (`X` = code 0 weighs as code 1) -/
def kT (k e rl rc : Nat) : Nat := (specT (Int.ofNat k) (Nat.succ e) (Nat.succ rl) (Nat.succ rc)).toNat

/-- all more severe values `q ≤ p` of a component give at least `k` -/
@[inline] def allLE (p : Nat) (k : Nat) (f : Nat → Nat) : Bool := (List.range (Nat.succ p)).all fun q => Nat.ble k (f q)

/-- family A: Modified scope / attack vector / attack complexity fixed; steps in the other 8 components -/
def monoA (v31 : Bool) (ms mav mac : Nat) : Bool :=
  (List.range 3).all fun mc => (List.range 3).all fun mi => (List.range 3).all fun ma =>
  (List.range 3).all fun ci => (List.range 3).all fun ii => (List.range 3).all fun ai =>
  (List.range 3).all fun mpr => (List.range 2).all fun mui =>
  F64.flet (kI v31 mav mac mpr mui ms mc mi ma ci ii ai) fun k =>
    allLE mc k (fun q => kI v31 mav mac mpr mui ms q mi ma ci ii ai) &&
    allLE mi k (fun q => kI v31 mav mac mpr mui ms mc q ma ci ii ai) &&
    allLE ma k (fun q => kI v31 mav mac mpr mui ms mc mi q ci ii ai) &&
    allLE ci k (fun q => kI v31 mav mac mpr mui ms mc mi ma q ii ai) &&
    allLE ii k (fun q => kI v31 mav mac mpr mui ms mc mi ma ci q ai) &&
    allLE ai k (fun q => kI v31 mav mac mpr mui ms mc mi ma ci ii q) &&
    allLE mpr k (fun q => kI v31 mav mac q mui ms mc mi ma ci ii ai) &&
    allLE mui k (fun q => kI v31 mav mac mpr q ms mc mi ma ci ii ai)

/-- family B: two requirement indices fixed; steps in Modified scope (U→C), attack vector, attack complexity -/
def monoB (v31 : Bool) (ci ii : Nat) : Bool :=
  (List.range 3).all fun ai => (List.range 3).all fun mc => (List.range 3).all fun mi => (List.range 3).all fun ma =>
  (List.range 3).all fun mpr => (List.range 2).all fun mui =>
  (List.range 4).all fun mav => (List.range 2).all fun mac =>
  F64.flet (kI v31 mav mac mpr mui 0 mc mi ma ci ii ai) fun k0 =>
  F64.flet (kI v31 mav mac mpr mui 1 mc mi ma ci ii ai) fun k1 =>
    Nat.ble k0 k1 &&
    allLE mav k0 (fun q => kI v31 q mac mpr mui 0 mc mi ma ci ii ai) &&
    allLE mav k1 (fun q => kI v31 q mac mpr mui 1 mc mi ma ci ii ai) &&
    allLE mac k0 (fun q => kI v31 mav q mpr mui 0 mc mi ma ci ii ai) &&
    allLE mac k1 (fun q => kI v31 mav q mpr mui 1 mc mi ma ci ii ai)

/-- Base: all 2,592 tuples, steps in all 8 components (Scope U→C) -/
def monoBase : Bool :=
  (List.range 3).all fun c => (List.range 3).all fun i => (List.range 3).all fun a =>
  (List.range 4).all fun av => (List.range 2).all fun ac => (List.range 3).all fun pr => (List.range 2).all fun ui =>
  F64.flet (kB av ac pr ui 0 c i a) fun k0 =>
  F64.flet (kB av ac pr ui 1 c i a) fun k1 =>
    Nat.ble k0 k1 &&
    allLE c k0 (fun q => kB av ac pr ui 0 q i a) && allLE c k1 (fun q => kB av ac pr ui 1 q i a) &&
    allLE i k0 (fun q => kB av ac pr ui 0 c q a) && allLE i k1 (fun q => kB av ac pr ui 1 c q a) &&
    allLE a k0 (fun q => kB av ac pr ui 0 c i q) && allLE a k1 (fun q => kB av ac pr ui 1 c i q) &&
    allLE av k0 (fun q => kB q ac pr ui 0 c i a) && allLE av k1 (fun q => kB q ac pr ui 1 c i a) &&
    allLE ac k0 (fun q => kB av q pr ui 0 c i a) && allLE ac k1 (fun q => kB av q pr ui 1 c i a) &&
    allLE pr k0 (fun q => kB av ac q ui 0 c i a) && allLE pr k1 (fun q => kB av ac q ui 1 c i a) &&
    allLE ui k0 (fun q => kB av ac pr q 0 c i a) && allLE ui k1 (fun q => kB av ac pr q 1 c i a)

/-- Temporal step: monotone in the tenth `k` (adjacent, `k < 100`) and in the three temporal indices -/
def monoT : Bool :=
  (List.range 4).all fun e => (List.range 4).all fun rl => (List.range 3).all fun rc =>
  (List.range 101).all fun k =>
  F64.flet (kT k e rl rc) fun t =>
    Nat.ble t (kT (Nat.succ k) e rl rc) &&
    allLE e t (fun q => kT k q rl rc) && allLE rl t (fun q => kT k e q rc) && allLE rc t (fun q => kT k e rl q)

end Proofs.Score3.Mono
