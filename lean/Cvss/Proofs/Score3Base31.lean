import Cvss.Proofs.Score3M31
/-! C03, v3.1, enumeration (a): the generated `BaseScore_core` on all 2,592 base code tuples -/
namespace Proofs.Score3.V31
set_option maxRecDepth 20000 in
set_option maxHeartbeats 4000000 in
theorem base_all : allBase = true := by decide +kernel

theorem okBase_all {av ac pr ui s c i a : Nat} (hav : av < 4) (hac : ac < 2) (hpr : pr < 3) (hui : ui < 2) (hs : s < 2)
    (hc : c < 3) (hi : i < 3) (ha : a < 3) : okBase av ac pr ui s c i a = true :=
  all_range (all_range (all_range (all_range (all_range (all_range (all_range (all_range base_all
    s hs) c hc) i hi) a ha) av hav) ac hac) pr hpr) ui hui
end Proofs.Score3.V31
