import Cvss.Proofs.Parse4Run
/-!
# v4.0 parser proofs, part 5: acceptance, the recogniser, and the meaning of an accepted vector
-/
namespace Proofs.P4
open Spec (Pair render SLASH COLON legal isMetric allLegal abvs valueOf findMetric Metric)
open Model (Bytes O40 Res walk4 cutColon splitSlash)

/-- the conditions of `Spec.V4.Witness` that do not mention the string -/
def Valid (w : List Pair) : Prop :=
  allLegal Spec.V4.metrics w ∧ ∃ opt, opt.Sublist (abvs Spec.V4.optional) ∧ w.map (·.1) = abvs Spec.V4.base ++ opt

theorem witness_iff {s : Bytes} {w : List Pair} : Spec.V4.Witness s w ↔ s = Spec.V4.header ++ body w ∧ Valid w :=
  Iff.rfl

theorem Valid.lex {w : List Pair} (h : Valid w) : ∀ q ∈ w, Lex q := fun q hq => lex_of_legal (h.1 q hq)

theorem Valid.length {w : List Pair} (h : Valid w) : 11 ≤ w.length := by
  obtain ⟨_, opt, _, h2⟩ := h
  have := congrArg List.length h2
  simp only [List.length_map, List.length_append] at this
  rw [base_length] at this
  omega

theorem Valid.names_sublist {w : List Pair} (h : Valid w) : (w.map (·.1)).Sublist (abvs Spec.V4.metrics) := by
  obtain ⟨_, opt, h1, h2⟩ := h
  rw [h2, abvs_metrics]
  exact List.Sublist.append (List.Sublist.refl _) h1

theorem Valid.nodup {w : List Pair} (h : Valid w) : (w.map (·.1)).Nodup := h.names_sublist.nodup nodup_abvs

theorem Valid.walk {w : List Pair} (h : Valid w) : ∃ o, walkAll ord0 (w.map (·.1)) = some o ∧ o.any (·.1) = false := by
  obtain ⟨_, opt, h1, h2⟩ := h
  rw [h2]; exact walkAll_valid _ _ opt h1

theorem finish_ok {r : Except Go.Err (O40 × Ord)} {c : O40} :
    finish r = .ok c ↔ ∃ o, r = .ok (c, o) ∧ o.any (·.1) = false := by
  unfold finish
  constructor
  · intro h
    split at h
    · simp at h
    · rename_i c' o
      split at h
      · simp at h
      · rename_i hn
        simp only [Res.ok.injEq] at h
        subst h
        exact ⟨o, rfl, by simpa using hn⟩
  · rintro ⟨o, rfl, h⟩
    simp [h]

section K
variable (K : Contract O40 Spec.V4.metrics)

/-- completeness, with the object: a grammatical vector parses to the fold of `Set`s over its witness -/
theorem parseK_valid {w : List Pair} (h : Valid w) :
    parseK K (Spec.V4.header ++ body w) = .ok (setAll K K.zero w) := by
  rw [parseK_render K w h.lex]
  obtain ⟨o, h1, h2⟩ := h.walk
  rw [runP_good K w K.zero ord0 o h.1 h1]
  exact finish_ok.mpr ⟨o, rfl, h2⟩

theorem parseK_witness {s : Bytes} {w : List Pair} (h : Spec.V4.Witness s w) :
    parseK K s = .ok (setAll K K.zero w) := by
  obtain ⟨rfl, hv⟩ := witness_iff.mp h
  exact parseK_valid K hv

/-- soundness, with the object: an accepted string has a witness, and the object is the fold over it -/
theorem parseK_ok {s : Bytes} {c : O40} (h : parseK K s = .ok c) :
    ∃ w, Spec.V4.Witness s w ∧ c = setAll K K.zero w := by
  rcases parseK_cases K s with ⟨_, e⟩ | ⟨_, e⟩ | ⟨_, _, _, _, e⟩ | ⟨r, hs, e⟩
  · rw [e] at h; simp at h
  · rw [e] at h; simp at h
  · rw [e] at h; simp at h
  · rw [e] at h
    obtain ⟨o, h1, h2⟩ := finish_ok.mp h
    obtain ⟨hl, hw, hc⟩ := runP_ok K _ _ _ _ _ h1
    refine ⟨(splitSlash r).map cutColon, witness_iff.mpr ⟨?_, hl, ?_⟩, hc⟩
    · rw [hs]
      congr 1
      rw [← flatten_splitSlash r, body, List.map_map]
      congr 1
      apply List.map_congr_left
      intro el hel
      have hcol : COLON ∈ el := by
        apply Classical.byContradiction
        intro hn
        have hleg := hl (cutColon el) (List.mem_map.mpr ⟨el, hel, rfl⟩)
        exact (legal_clean hleg).2.2.2 (cutColon_snd_nil hn)
      simp only [Function.comp_apply]
      rw [render_cutColon hcol]
    · exact (walkAll_ok_iff _ _ _).mp ⟨o, hw, h2⟩

/-- C01: the parser accepts exactly the grammar -/
theorem parseK_isOk_iff (s : Bytes) : (parseK K s).isOk = true ↔ Spec.V4.G s := by
  constructor
  · intro h
    cases hp : parseK K s with
    | ok c => obtain ⟨w, hw, _⟩ := parseK_ok K hp; exact ⟨w, hw⟩
    | err e => rw [hp] at h; simp [Res.isOk] at h
    | panic => rw [hp] at h; simp [Res.isOk] at h
  · rintro ⟨w, hw⟩
    rw [parseK_witness K hw]; rfl

end K

/-! ## the executable recogniser -/

theorem allLegalB_iff (ms : List Metric) (w : List Pair) : Spec.allLegalB ms w = true ↔ allLegal ms w := by
  simp [Spec.allLegalB, allLegal, List.all_eq_true]

theorem stripPrefix_append (p r : Bytes) : Spec.stripPrefix p (p ++ r) = some r := by
  unfold Spec.stripPrefix
  rw [if_pos (isPrefixOf_append p r), List.drop_left]

theorem stripPrefix_some {p s r : Bytes} (h : Spec.stripPrefix p s = some r) : s = p ++ r := by
  unfold Spec.stripPrefix at h
  split at h
  · rename_i hp
    obtain ⟨t, rfl⟩ := List.isPrefixOf_iff_prefix.mp hp
    rw [List.drop_left] at h
    simp only [Option.some.injEq] at h
    rw [h]
  · simp at h

theorem read_of_valid {w : List Pair} (h : Valid w) : Spec.V4.read? (Spec.V4.header ++ body w) = some w := by
  have hlen := h.length
  obtain ⟨hl, opt, h1, h2⟩ := h
  cases w with
  | nil => simp at hlen
  | cons p w =>
    have hlex : ∀ q ∈ p :: w, Lex q := fun q hq => lex_of_legal (hl q hq)
    unfold Spec.V4.read?
    rw [stripPrefix_append, body_cons]
    simp only [ne_eq, not_true_eq_false, if_false]
    rw [← model_split_eq_spec, splitSlash_render_body w p (fun q hq => (hlex q hq).2)]
    rw [← List.map_cons, readPairs_render (p :: w) (fun q hq => (hlex q hq).1)]
    simp only
    rw [h2, List.take_left' base_length, List.drop_left' base_length, (allLegalB_iff _ _).mpr hl,
      (isSubseq_iff _ _).mpr h1]
    simp

theorem valid_of_read {s : Bytes} {w : List Pair} (h : Spec.V4.read? s = some w) : Spec.V4.Witness s w := by
  unfold Spec.V4.read? at h
  split at h
  · simp at h
  · rename_i rest hs
    have hs' := stripPrefix_some hs
    split at h
    · simp at h
    · rename_i c r
      split at h
      · simp at h
      · rename_i hc
        have hc' : c = SLASH := Classical.not_not.mp hc
        subst hc'
        split at h
        · rename_i w' hr
          dsimp only at h
          split at h
          · rename_i hcond
            simp only [Option.some.injEq] at h
            subst h
            simp only [Bool.and_eq_true, beq_iff_eq] at hcond
            obtain ⟨⟨hl, hb⟩, hsub⟩ := hcond
            obtain ⟨hels, _⟩ := readPairs_some hr
            refine witness_iff.mpr ⟨?_, (allLegalB_iff _ _).mp hl, (w'.map (·.1)).drop 11,
              (isSubseq_iff _ _).mp hsub, ?_⟩
            · rw [hs']
              congr 1
              rw [← flatten_splitSlash r, model_split_eq_spec, hels, body, List.map_map]
              rfl
            · rw [← hb]; exact (List.take_append_drop 11 _).symm
          · simp at h
        · simp at h

/-- the recogniser returns exactly the witness -/
theorem read_iff (s : Bytes) (w : List Pair) : Spec.V4.read? s = some w ↔ Spec.V4.Witness s w := by
  constructor
  · exact valid_of_read
  · intro h
    obtain ⟨rfl, hv⟩ := witness_iff.mp h
    exact read_of_valid hv

/-- a string has at most one witness -/
theorem witness_unique {s : Bytes} {w w' : List Pair} (h : Spec.V4.Witness s w) (h' : Spec.V4.Witness s w') : w = w' := by
  have := (read_iff s w).mpr h
  rw [(read_iff s w').mpr h'] at this
  exact (Option.some.inj this).symm

/-! ## what the fold of `Set`s holds (C06) -/
section K
variable (K : Contract O40 Spec.V4.metrics)

theorem get_setAll : ∀ (w : List Pair) (c : O40) (a : Bytes), allLegal Spec.V4.metrics w → (w.map (·.1)).Nodup →
    isMetric Spec.V4.metrics a = true →
    K.get (setAll K c w) a =
      match w.find? (fun p => p.1 == a) with
      | some p => (p.2, Go.errNil)
      | none => K.get c a
  | [], c, a, _, _, _ => rfl
  | p :: w, c, a, hl, hn, ha => by
    rw [List.map_cons, List.nodup_cons] at hn
    have hlp := hl p (by simp)
    have ih := get_setAll w (K.set c p.1 p.2).1 a (fun q hq => hl q (List.mem_cons_of_mem _ hq)) hn.2 ha
    rw [setAll_cons, ih]
    by_cases e : p.1 = a
    · have hnone : w.find? (fun q => q.1 == a) = none := by
        rw [List.find?_eq_none]
        intro q hq hqa
        exact hn.1 (List.mem_map.mpr ⟨q, hq, by rw [e]; simpa using hqa⟩)
      rw [hnone, List.find?_cons_of_pos (by simpa using e)]
      simp only
      rw [← e]; exact K.get_set_same c p.1 p.2 hlp
    · rw [List.find?_cons_of_neg (by simpa using e)]
      cases w.find? (fun q => q.1 == a) with
      | some q => rfl
      | none => exact K.get_set_other c p.1 p.2 a hlp ha (fun h => e h.symm)

/-- every metric of the fold over a valid witness reads as the witness says -/
theorem get_setAll_valid {w : List Pair} (h : Valid w) {m : Metric} (hm : m ∈ Spec.V4.metrics) :
    K.get (setAll K K.zero w) m.abv = (valueOf Spec.V4.metrics w m.abv, Go.errNil) := by
  have ha : isMetric Spec.V4.metrics m.abv = true := isMetric_iff.mpr (List.mem_map.mpr ⟨m, hm, rfl⟩)
  rw [get_setAll K w K.zero m.abv h.1 h.nodup ha]
  unfold valueOf
  cases hf : w.find? (fun p => p.1 == m.abv) with
  | some p => rfl
  | none =>
    simp only
    rw [find_self m hm]
    -- `m` is not written, so it is not a base metric
    have hnot : m.abv ∉ w.map (·.1) := by
      intro hin
      obtain ⟨q, hq, hqa⟩ := List.mem_map.mp hin
      rw [List.find?_eq_none] at hf
      exact hf q hq (by simpa using hqa)
    obtain ⟨_, opt, _, h2⟩ := h
    rw [h2] at hnot
    have hopt : m ∈ Spec.V4.optional := by
      rw [metrics_eq] at hm
      rcases List.mem_append.mp hm with e | e
      · exact absurd (List.mem_append_left _ (List.mem_map.mpr ⟨m, e, rfl⟩)) hnot
      · exact e
    obtain ⟨_, u, _, hu⟩ := optional_undef m hopt
    rw [K.get_zero_opt m hm u hu]
    simp only [hu, Option.getD_some]

end K
end Proofs.P4
