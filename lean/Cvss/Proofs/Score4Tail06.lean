import Cvss.Proofs.Score4TailDef
/-! GENERATED chunk 6 of the v4.0 float-tail obligation: for each MacroVector below and every severity
distance tuple within its depths, `roundup(eqsv − mean)` (the generated tail) is `F64.tenth` of the Spec's
exact half-up value. Kernel evaluation (`decide +kernel`), 2924 tuples. -/
namespace Proofs.Score4
set_option maxHeartbeats 2000000 in
theorem tail_000200 : tailOkMV 0 0 0 2 0 0 = true := by decide +kernel
set_option maxHeartbeats 2000000 in
theorem tail_002001 : tailOkMV 0 0 2 0 0 1 = true := by decide +kernel
set_option maxHeartbeats 2000000 in
theorem tail_002201 : tailOkMV 0 0 2 2 0 1 = true := by decide +kernel
set_option maxHeartbeats 2000000 in
theorem tail_011200 : tailOkMV 0 1 1 2 0 0 = true := by decide +kernel
set_option maxHeartbeats 2000000 in
theorem tail_012101 : tailOkMV 0 1 2 1 0 1 = true := by decide +kernel
set_option maxHeartbeats 2000000 in
theorem tail_100200 : tailOkMV 1 0 0 2 0 0 = true := by decide +kernel
set_option maxHeartbeats 2000000 in
theorem tail_101011 : tailOkMV 1 0 1 0 1 1 = true := by decide +kernel
set_option maxHeartbeats 2000000 in
theorem tail_101111 : tailOkMV 1 0 1 1 1 1 = true := by decide +kernel
set_option maxHeartbeats 2000000 in
theorem tail_110001 : tailOkMV 1 1 0 0 0 1 = true := by decide +kernel
set_option maxHeartbeats 2000000 in
theorem tail_112001 : tailOkMV 1 1 2 0 0 1 = true := by decide +kernel
set_option maxHeartbeats 2000000 in
theorem tail_201211 : tailOkMV 2 0 1 2 1 1 = true := by decide +kernel
set_option maxHeartbeats 2000000 in
theorem tail_202101 : tailOkMV 2 0 2 1 0 1 = true := by decide +kernel
set_option maxHeartbeats 2000000 in
theorem tail_210100 : tailOkMV 2 1 0 1 0 0 = true := by decide +kernel
set_option maxHeartbeats 2000000 in
theorem tail_210201 : tailOkMV 2 1 0 2 0 1 = true := by decide +kernel
set_option maxHeartbeats 2000000 in
theorem tail_211100 : tailOkMV 2 1 1 1 0 0 = true := by decide +kernel
end Proofs.Score4
