import Cvss.Model.Parse
import Cvss.Spec.Grammar
/-!
# The Get/Set contract

What the parser-level proofs (C01, C02, C06, C08, C13, C18) need to know about the generated
`Get`/`Set`/zero value of one version, stated against the **Spec** metric table `ms`.
`Proofs/Bits*.lean` proves one instance per version from the generated bit-field code (that is the
content of C07 and C09); the parser proofs are generic in a `Contract`.
-/
namespace Proofs
open Spec (Metric legal isMetric)
open Model (Bytes)

structure Contract (O : Type) (ms : List Metric) where
  zero : O
  get : O → Bytes → Bytes × Go.Err
  set : O → Bytes → Bytes → O × Go.Err
  /-- well-formed: every field holds the code of a legal value, unused bits are zero -/
  WF : O → Prop
  /-- Set succeeds exactly on (known metric, legal value) … -/
  set_ok : ∀ c a v, legal ms a v = true → (set c a v).2 = Go.errNil
  /-- … refuses an unknown abbreviation with `*ErrInvalidMetric{abv}` and leaves the object alone … -/
  set_unknown : ∀ c a v, isMetric ms a = false → set c a v = (c, Model.eInvalidMetric a)
  /-- … and refuses an illegal value with `ErrInvalidMetricValue`, leaving the object alone. -/
  set_illegal : ∀ c a v, isMetric ms a = true → legal ms a v = false → set c a v = (c, Model.eValue)
  get_unknown : ∀ c a, isMetric ms a = false → get c a = ([], Model.eInvalidMetric a)
  /-- after a successful `Set(a, v)`, `Get(a)` is `v` (as *strings*, against the Spec table) -/
  get_set_same : ∀ c a v, legal ms a v = true → get (set c a v).1 a = (v, Go.errNil)
  /-- … and every other metric is unchanged -/
  get_set_other : ∀ c a v a', legal ms a v = true → isMetric ms a' = true → a' ≠ a →
      get (set c a v).1 a' = get c a'
  /-- the zero object holds the not-defined value in every optional metric -/
  get_zero_opt : ∀ m ∈ ms, ∀ u, m.undef = some u → get zero m.abv = (u, Go.errNil)
  wf_zero : WF zero
  wf_set : ∀ c a v, WF c → WF (set c a v).1
  /-- on a well-formed object every metric reads as one of its legal values -/
  wf_get : ∀ c, WF c → ∀ m ∈ ms, (get c m.abv).2 = Go.errNil ∧ (get c m.abv).1 ∈ m.values
  /-- two well-formed objects with the same metric values are the same object (`==`) -/
  ext : ∀ c c', WF c → WF c' → (∀ m ∈ ms, get c m.abv = get c' m.abv) → c = c'

/-- every metric of the table written out with the value the object holds for it -/
def Contract.pairs {O : Type} {ms : List Metric} (K : Contract O ms) (c : O) : List Spec.Pair :=
  ms.map fun m => (m.abv, (K.get c m.abv).1)

/-- What the parser-level proofs need to know about the generated `Vector()`: on a well-formed object it
    spells the canonical form (`canon`, the version's `Spec.Vx.canonical`) of the object's own values.
    Proved per version from the generated `Vector`/`lenVec` code in `Proofs/Vec*.lean`. -/
structure VecContract (O : Type) (ms : List Metric) (K : Contract O ms) (canon : List Spec.Pair → Bytes) where
  vector : O → Bytes
  vector_eq : ∀ c, K.WF c → vector c = canon (K.pairs c)

end Proofs
