import Cvss.Model.WF
import Cvss.Proofs.Score3Spec
/-!
# C03 helpers shared by both versions: forcing combinator, range enumerations, outcome predicates
-/
namespace Proofs.Score3
open Spec Spec.V3

theorem flet_eq {α : Sort u} (x : Nat) (k : Nat → α) : F64.flet x k = k x := by cases x <;> rfl

theorem all_range {n : Nat} {f : Nat → Bool} (h : (List.range n).all f = true) : ∀ i, i < n → f i = true := by
  intro i hi
  exact List.all_eq_true.mp h i (List.mem_range.mpr hi)

/-- the model value `bits` is exactly the double nearest `k/10` for the Spec value `k` (a number of tenths),
    and `0 ≤ k ≤ 100` -/
def isTenth (bits : Nat) (k : Int) : Bool :=
  match k with
  | Int.ofNat K => Nat.beq bits (F64.tenth K) && Nat.ble K 100
  | Int.negSucc _ => false

theorem isTenth_elim {bits : Nat} {k : Int} (h : isTenth bits k = true) :
    ∃ K : Nat, k = Int.ofNat K ∧ bits = F64.tenth K ∧ K ≤ 100 := by
  cases k with
  | ofNat K =>
    simp only [isTenth, Bool.and_eq_true] at h
    exact ⟨K, rfl, Nat.eq_of_beq_eq_true h.1, Nat.le_of_ble_eq_true h.2⟩
  | negSucc n => simp [isTenth] at h

/-- `x·100000` is not half-way between two integers, so every reading of Appendix A's `round_to_nearest_integer`
    (ties up, down, to even, away from zero) gives the same `int_input` -/
def noTie (x : Dec) : Bool :=
  !((x.num * 200000) % (2 * ((10 ^ x.exp : Nat) : Int)) == ((10 ^ x.exp : Nat) : Int))
/-- real-number `Roundup` and Appendix-A `Roundup` agree on `x`, and Appendix A's rounding step has no tie -/
def agreeA (x : Dec) : Bool := decide (Roundup x = RoundupA x) && noTie x

/-- every tenth `k/10`, `k ≤ 100`, is a finite double, IEEE-equal to itself (so bit equality gives `F64.eq`) -/
theorem tenth_fin : ∀ k, k < 101 → (F64.eq (F64.tenth k) (F64.tenth k) && F64.isFin (F64.tenth k)
    && !(Nat.beq (F64.tenth k) 0x7FF8DEAD00000000)) = true := by decide +kernel

end Proofs.Score3
