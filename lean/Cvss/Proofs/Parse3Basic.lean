import Cvss.Proofs.Contract
import Cvss.Spec.Errors
/-!
# v3 parser proofs, part 1: byte-string lemmas and closed facts about the tables

* `splitSlash` / `joinSlash` round trips (for the Spec's and for the Model's copy of `splitSlash`),
* `cutColon` (model) and `splitColon` (spec) against `render`,
* `readPairs` (the `mapM splitColon` of the executable recogniser) against `map render`,
* closed facts about `Spec.V3.metrics`, `Model.kvmNames`, `Model.kvmMandatory` — all by `decide`.

Everything is for **all** byte strings; no length bound anywhere.
-/
namespace Proofs.Parse3
open Spec (Bytes Pair Metric render joinSlash legal isMetric findMetric abvs valueOf allLegal SLASH COLON)

/-! ## `splitSlash` and `joinSlash` -/

theorem model_SLASH : Model.SLASH = Spec.SLASH := rfl
theorem model_COLON : Model.COLON = Spec.COLON := rfl

/-- the Model's and the Spec's `splitSlash` are separate but identical definitions -/
theorem model_splitSlash_eq (s : Bytes) : Model.splitSlash s = Spec.splitSlash s := by
  induction s with
  | nil => rfl
  | cons c cs ih =>
    simp only [Model.splitSlash, Spec.splitSlash, ih, model_SLASH]
    split
    · rfl
    · cases Spec.splitSlash cs <;> rfl

theorem splitSlash_ne_nil (s : Bytes) : Spec.splitSlash s ≠ [] := by
  cases s with
  | nil => simp [Spec.splitSlash]
  | cons c cs =>
    simp only [Spec.splitSlash]
    split
    · simp
    · split <;> simp

theorem splitSlash_cons_slash (cs : Bytes) : Spec.splitSlash (SLASH :: cs) = [] :: Spec.splitSlash cs := by
  simp [Spec.splitSlash]

theorem splitSlash_cons_other {c : Nat} (cs : Bytes) (hc : c ≠ SLASH) :
    ∃ h t, Spec.splitSlash cs = h :: t ∧ Spec.splitSlash (c :: cs) = (c :: h) :: t := by
  cases hs : Spec.splitSlash cs with
  | nil => exact absurd hs (splitSlash_ne_nil cs)
  | cons h t => exact ⟨h, t, rfl, by simp [Spec.splitSlash, hc, hs]⟩

theorem joinSlash_cons_of_ne_nil (x : Bytes) {xs : List Bytes} (h : xs ≠ []) :
    joinSlash (x :: xs) = x ++ SLASH :: joinSlash xs := by
  cases xs with
  | nil => exact absurd rfl h
  | cons y ys => rfl

theorem joinSlash_cons_cons (c : Nat) (h : Bytes) (t : List Bytes) :
    joinSlash ((c :: h) :: t) = c :: joinSlash (h :: t) := by
  cases t with
  | nil => rfl
  | cons y ys => rfl

/-- joining what was split gives the string back -/
theorem joinSlash_splitSlash (s : Bytes) : joinSlash (Spec.splitSlash s) = s := by
  induction s with
  | nil => rfl
  | cons c cs ih =>
    by_cases hc : c = SLASH
    · subst hc
      rw [splitSlash_cons_slash, joinSlash_cons_of_ne_nil _ (splitSlash_ne_nil cs), ih]; rfl
    · obtain ⟨h, t, h1, h2⟩ := splitSlash_cons_other cs hc
      rw [h2, joinSlash_cons_cons, ← h1, ih]

theorem splitSlash_of_no_slash (x : Bytes) (hx : SLASH ∉ x) : Spec.splitSlash x = [x] := by
  induction x with
  | nil => rfl
  | cons c cs ih =>
    have hc : c ≠ SLASH := fun h => hx (by simp [h])
    have hcs : SLASH ∉ cs := fun h => hx (by simp [h])
    simp [Spec.splitSlash, hc, ih hcs]

theorem splitSlash_append_slash (x r : Bytes) (hx : SLASH ∉ x) :
    Spec.splitSlash (x ++ SLASH :: r) = x :: Spec.splitSlash r := by
  induction x with
  | nil => simp [Spec.splitSlash]
  | cons c cs ih =>
    have hc : c ≠ SLASH := fun h => hx (by simp [h])
    have hcs : SLASH ∉ cs := fun h => hx (by simp [h])
    simp [Spec.splitSlash, hc, ih hcs]

/-- splitting what was joined gives the parts back (parts non-empty list, no part contains `/`) -/
theorem splitSlash_joinSlash (parts : List Bytes) (hne : parts ≠ []) (hp : ∀ x ∈ parts, SLASH ∉ x) :
    Spec.splitSlash (joinSlash parts) = parts := by
  induction parts with
  | nil => exact absurd rfl hne
  | cons x xs ih =>
    cases xs with
    | nil => exact splitSlash_of_no_slash x (hp x (by simp))
    | cons y ys =>
      rw [joinSlash_cons_of_ne_nil _ (by simp), splitSlash_append_slash _ _ (hp x (by simp)),
        ih (by simp) (fun z hz => hp z (by simp [hz]))]

/-- a string ending in `/` has an empty last element -/
theorem splitSlash_snoc_slash (x : Bytes) : Spec.splitSlash (x ++ [SLASH]) = Spec.splitSlash x ++ [[]] := by
  induction x with
  | nil => simp [Spec.splitSlash]
  | cons c cs ih =>
    by_cases hc : c = SLASH
    · subst hc
      simp only [List.cons_append, splitSlash_cons_slash, ih]
    · obtain ⟨h, t, h1, h2⟩ := splitSlash_cons_other cs hc
      rw [h2, List.cons_append]
      simp [Spec.splitSlash, hc, ih, h1]

/-! ## `cutColon` (model) / `splitColon` (spec) against `render` -/

theorem cutColon_render (a v : Bytes) (h : COLON ∉ a) : Model.cutColon (a ++ COLON :: v) = (a, v) := by
  induction a with
  | nil => simp [Model.cutColon, model_COLON]
  | cons c cs ih =>
    have hc : c ≠ COLON := fun h' => h (by simp [h'])
    have hcs : COLON ∉ cs := fun h' => h (by simp [h'])
    simp [Model.cutColon, model_COLON, hc, ih hcs]

/-- if the part after the first colon is non-empty there *was* a colon, and the cut is a `render` -/
theorem render_cutColon (el : Bytes) (h : (Model.cutColon el).2 ≠ []) :
    render (Model.cutColon el) = el := by
  induction el with
  | nil => simp [Model.cutColon] at h
  | cons c cs ih =>
    by_cases hc : c = COLON
    · subst hc; simp [Model.cutColon, model_COLON, render]
    · simp only [Model.cutColon, model_COLON, hc, if_false] at h ⊢
      have := ih h
      simp only [render] at this ⊢
      simp [this]

theorem cutColon_fst_no_colon (el : Bytes) : COLON ∉ (Model.cutColon el).1 := by
  induction el with
  | nil => simp [Model.cutColon]
  | cons c cs ih =>
    by_cases hc : c = COLON
    · simp [Model.cutColon, model_COLON, hc]
    · simp only [Model.cutColon, model_COLON, hc, if_false, List.mem_cons, not_or]
      exact ⟨fun h => hc h.symm, ih⟩

theorem splitColon_render (a v : Bytes) (h : COLON ∉ a) : Spec.splitColon (a ++ COLON :: v) = some (a, v) := by
  induction a with
  | nil => simp [Spec.splitColon]
  | cons c cs ih =>
    have hc : c ≠ COLON := fun h' => h (by simp [h'])
    have hcs : COLON ∉ cs := fun h' => h (by simp [h'])
    simp [Spec.splitColon, hc, ih hcs]

theorem render_of_splitColon (el : Bytes) (p : Pair) (h : Spec.splitColon el = some p) :
    render p = el ∧ COLON ∉ p.1 := by
  induction el generalizing p with
  | nil => simp [Spec.splitColon] at h
  | cons c cs ih =>
    by_cases hc : c = COLON
    · subst hc
      simp only [Spec.splitColon, if_true, Option.some.injEq] at h
      subst h; simp [render]
    · simp only [Spec.splitColon, hc, if_false] at h
      cases hs : Spec.splitColon cs with
      | none => simp [hs] at h
      | some q =>
        obtain ⟨a, v⟩ := q
        simp only [hs, Option.some.injEq] at h
        subst h
        obtain ⟨h1, h2⟩ := ih (a, v) hs
        simp only [render] at h1 ⊢
        refine ⟨by simp [h1], ?_⟩
        simp only [List.mem_cons, not_or]
        exact ⟨fun h => hc h.symm, h2⟩

/-- the element list the recogniser reads back is the rendering of its result -/
theorem readPairs_sound (parts : List Bytes) (w : List Pair) (h : Spec.readPairs parts = some w) :
    parts = w.map render ∧ ∀ p ∈ w, COLON ∉ p.1 := by
  unfold Spec.readPairs at h
  induction parts generalizing w with
  | nil =>
    simp only [List.mapM_nil, pure, Option.some.injEq] at h
    subst h; simp
  | cons el els ih =>
    rw [List.mapM_cons] at h
    cases h1 : Spec.splitColon el with
    | none => simp [h1] at h
    | some p =>
      cases h2 : List.mapM Spec.splitColon els with
      | none => simp [h1, h2] at h
      | some ps =>
        simp only [h1, h2, bind, Option.bind, pure, Option.some.injEq] at h
        subst h
        obtain ⟨e1, e2⟩ := ih ps h2
        obtain ⟨r1, r2⟩ := render_of_splitColon el p h1
        refine ⟨by simp [r1, ← e1], ?_⟩
        intro q hq
        rcases List.mem_cons.mp hq with rfl | hq
        · exact r2
        · exact e2 q hq

theorem readPairs_complete (w : List Pair) (h : ∀ p ∈ w, COLON ∉ p.1) :
    Spec.readPairs (w.map render) = some w := by
  unfold Spec.readPairs
  induction w with
  | nil => rfl
  | cons p ps ih =>
    rw [List.map_cons, List.mapM_cons]
    have h1 : Spec.splitColon (render p) = some p := by
      have := splitColon_render p.1 p.2 (h p (by simp))
      simpa [render] using this
    rw [h1, ih (fun q hq => h q (by simp [hq]))]
    rfl

/-! ## prefix tests -/

theorem hasPrefix_iff (s p : Bytes) : Model.hasPrefix s p = true ↔ p <+: s := by
  simp [Model.hasPrefix]

theorem eq_append_drop_of_prefix {p s : Bytes} (h : p <+: s) : s = p ++ s.drop p.length := by
  obtain ⟨t, rfl⟩ := h
  simp

/-! ## closed facts about the tables (all by evaluation) -/

theorem kvmNames_eq : Model.kvmNames = abvs Spec.V3.metrics := by decide
theorem kvmMandatory_eq : Model.kvmMandatory = abvs Spec.V3.base := by decide

/-- no abbreviation contains `:` or `/`; no value contains `/`; no value is empty -/
theorem tbl_clean : ∀ m ∈ Spec.V3.metrics,
    COLON ∉ m.abv ∧ SLASH ∉ m.abv ∧ ∀ v ∈ m.values, SLASH ∉ v ∧ v ≠ [] := by decide

/-- … and no value contains `:` either (not needed by the parser proofs; stated for the reader) -/
theorem tbl_values_no_colon : ∀ m ∈ Spec.V3.metrics, ∀ v ∈ m.values, COLON ∉ v := by decide

/-- abbreviations are pairwise distinct -/
theorem tbl_nodup : (abvs Spec.V3.metrics).Nodup := by decide

theorem tbl_find_self : ∀ m ∈ Spec.V3.metrics, findMetric Spec.V3.metrics m.abv = some m := by decide

/-- a metric is either one of the eight mandatory base metrics, or optional with a not-defined value
    that is one of its legal values -/
theorem tbl_mand_or_undef : ∀ m ∈ Spec.V3.metrics,
    (m.mandatory = true ∧ m ∈ Spec.V3.base) ∨
    (m.mandatory = false ∧ ∃ u, m.undef = some u ∧ u ∈ m.values) := by decide

theorem tbl_base_sub : ∀ m ∈ Spec.V3.base, m ∈ Spec.V3.metrics ∧ m.mandatory = true := by decide

/-- every byte of every abbreviation and value is an upper-case ASCII letter -/
theorem tbl_upper : ∀ m ∈ Spec.V3.metrics,
    (∀ x ∈ m.abv, 65 ≤ x ∧ x ≤ 90) ∧ ∀ v ∈ m.values, ∀ x ∈ v, 65 ≤ x ∧ x ≤ 90 := by decide

/-- two distinct base abbreviations (used to show a witness list has at least two elements) -/
theorem tbl_two_base : Spec.b "AV" ∈ abvs Spec.V3.base ∧ Spec.b "AC" ∈ abvs Spec.V3.base ∧
    Spec.b "AV" ≠ Spec.b "AC" := by decide

/-! ## generic consequences about `findMetric` / `legal` / `isMetric` -/

theorem findMetric_some {ms : List Metric} {a : Bytes} {m : Metric} (h : findMetric ms a = some m) :
    m ∈ ms ∧ m.abv = a := by
  unfold findMetric at h
  exact ⟨List.mem_of_find?_eq_some h, by simpa using List.find?_some h⟩

theorem legal_iff {ms : List Metric} {a v : Bytes} :
    legal ms a v = true ↔ ∃ m, findMetric ms a = some m ∧ v ∈ m.values := by
  unfold legal
  cases h : findMetric ms a with
  | none => simp
  | some m => simp

theorem isMetric_of_legal {ms : List Metric} {a v : Bytes} (h : legal ms a v = true) :
    isMetric ms a = true := by
  obtain ⟨m, hm, _⟩ := legal_iff.mp h
  simp [isMetric, hm]

theorem isMetric_iff_mem_abvs {ms : List Metric} {a : Bytes} : isMetric ms a = true ↔ a ∈ abvs ms := by
  unfold isMetric findMetric abvs
  rw [List.find?_isSome]
  simp only [beq_iff_eq, List.mem_map]

/-- a legal pair of the v3 table: its metric, and cleanliness of both halves -/
theorem legal_v3 {a v : Bytes} (h : legal Spec.V3.metrics a v = true) :
    ∃ m ∈ Spec.V3.metrics, m.abv = a ∧ findMetric Spec.V3.metrics a = some m ∧ v ∈ m.values ∧
      COLON ∉ a ∧ SLASH ∉ a ∧ SLASH ∉ v ∧ v ≠ [] := by
  obtain ⟨m, hm, hv⟩ := legal_iff.mp h
  obtain ⟨hmem, habv⟩ := findMetric_some hm
  obtain ⟨c1, c2, c3⟩ := tbl_clean m hmem
  exact ⟨m, hmem, habv, hm, hv, habv ▸ c1, habv ▸ c2, (c3 v hv).1, (c3 v hv).2⟩

theorem render_no_slash {p : Pair} (h : legal Spec.V3.metrics p.1 p.2 = true) : SLASH ∉ render p := by
  obtain ⟨m, _, _, _, _, _, h2, h3, _⟩ := legal_v3 h
  intro hin
  rcases List.mem_append.mp hin with h' | h'
  · exact h2 h'
  · rcases List.mem_cons.mp h' with h' | h'
    · exact absurd h' (by decide)
    · exact h3 h'

theorem contains_kvmNames_iff (a : Bytes) : Model.kvmNames.contains a = true ↔ isMetric Spec.V3.metrics a = true := by
  rw [kvmNames_eq, isMetric_iff_mem_abvs, List.contains_iff_mem]

end Proofs.Parse3
