import Cvss.Proofs.Score4TailDef
/-! GENERATED chunk 1 of the v4.0 float-tail obligation: for each MacroVector below and every severity
distance tuple within its depths, `roundup(eqsv − mean)` (the generated tail) is `F64.tenth` of the Spec's
exact half-up value. Kernel evaluation (`decide +kernel`), 2927 tuples. -/
namespace Proofs.Score4
set_option maxHeartbeats 2000000 in
theorem tail_000110 : tailOkMV 0 0 0 1 1 0 = true := by decide +kernel
set_option maxHeartbeats 2000000 in
theorem tail_001101 : tailOkMV 0 0 1 1 0 1 = true := by decide +kernel
set_option maxHeartbeats 2000000 in
theorem tail_002111 : tailOkMV 0 0 2 1 1 1 = true := by decide +kernel
set_option maxHeartbeats 2000000 in
theorem tail_010110 : tailOkMV 0 1 0 1 1 0 = true := by decide +kernel
set_option maxHeartbeats 2000000 in
theorem tail_011020 : tailOkMV 0 1 1 0 2 0 = true := by decide +kernel
set_option maxHeartbeats 2000000 in
theorem tail_100111 : tailOkMV 1 0 0 1 1 1 = true := by decide +kernel
set_option maxHeartbeats 2000000 in
theorem tail_102111 : tailOkMV 1 0 2 1 1 1 = true := by decide +kernel
set_option maxHeartbeats 2000000 in
theorem tail_102211 : tailOkMV 1 0 2 2 1 1 = true := by decide +kernel
set_option maxHeartbeats 2000000 in
theorem tail_110110 : tailOkMV 1 1 0 1 1 0 = true := by decide +kernel
set_option maxHeartbeats 2000000 in
theorem tail_110111 : tailOkMV 1 1 0 1 1 1 = true := by decide +kernel
set_option maxHeartbeats 2000000 in
theorem tail_110211 : tailOkMV 1 1 0 2 1 1 = true := by decide +kernel
set_option maxHeartbeats 2000000 in
theorem tail_111020 : tailOkMV 1 1 1 0 2 0 = true := by decide +kernel
set_option maxHeartbeats 2000000 in
theorem tail_112211 : tailOkMV 1 1 2 2 1 1 = true := by decide +kernel
set_option maxHeartbeats 2000000 in
theorem tail_200210 : tailOkMV 2 0 0 2 1 0 = true := by decide +kernel
set_option maxHeartbeats 2000000 in
theorem tail_212011 : tailOkMV 2 1 2 0 1 1 = true := by decide +kernel
end Proofs.Score4
