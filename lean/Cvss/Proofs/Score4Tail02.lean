import Cvss.Proofs.Score4TailDef
/-! GENERATED chunk 2 of the v4.0 float-tail obligation: for each MacroVector below and every severity
distance tuple within its depths, `roundup(eqsv − mean)` (the generated tail) is `F64.tenth` of the Spec's
exact half-up value. Kernel evaluation (`decide +kernel`), 2927 tuples. -/
namespace Proofs.Score4
set_option maxHeartbeats 2000000 in
theorem tail_000120 : tailOkMV 0 0 0 1 2 0 = true := by decide +kernel
set_option maxHeartbeats 2000000 in
theorem tail_001110 : tailOkMV 0 0 1 1 1 0 = true := by decide +kernel
set_option maxHeartbeats 2000000 in
theorem tail_002121 : tailOkMV 0 0 2 1 2 1 = true := by decide +kernel
set_option maxHeartbeats 2000000 in
theorem tail_010120 : tailOkMV 0 1 0 1 2 0 = true := by decide +kernel
set_option maxHeartbeats 2000000 in
theorem tail_011021 : tailOkMV 0 1 1 0 2 1 = true := by decide +kernel
set_option maxHeartbeats 2000000 in
theorem tail_100121 : tailOkMV 1 0 0 1 2 1 = true := by decide +kernel
set_option maxHeartbeats 2000000 in
theorem tail_102121 : tailOkMV 1 0 2 1 2 1 = true := by decide +kernel
set_option maxHeartbeats 2000000 in
theorem tail_102221 : tailOkMV 1 0 2 2 2 1 = true := by decide +kernel
set_option maxHeartbeats 2000000 in
theorem tail_110120 : tailOkMV 1 1 0 1 2 0 = true := by decide +kernel
set_option maxHeartbeats 2000000 in
theorem tail_110121 : tailOkMV 1 1 0 1 2 1 = true := by decide +kernel
set_option maxHeartbeats 2000000 in
theorem tail_110221 : tailOkMV 1 1 0 2 2 1 = true := by decide +kernel
set_option maxHeartbeats 2000000 in
theorem tail_111021 : tailOkMV 1 1 1 0 2 1 = true := by decide +kernel
set_option maxHeartbeats 2000000 in
theorem tail_112221 : tailOkMV 1 1 2 2 2 1 = true := by decide +kernel
set_option maxHeartbeats 2000000 in
theorem tail_200220 : tailOkMV 2 0 0 2 2 0 = true := by decide +kernel
set_option maxHeartbeats 2000000 in
theorem tail_212021 : tailOkMV 2 1 2 0 2 1 = true := by decide +kernel
end Proofs.Score4
