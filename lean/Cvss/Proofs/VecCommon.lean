import Cvss.Model.WF
import Cvss.Spec.Grammar
/-!
# Common lemmas for the `Vector()` / `lenVec()` proofs (C17 and the `VecContract`)

Spec side only (plus two facts about the Go helpers): the canonical form of "every metric written with the
value `g abv`" is the header followed by one *piece* per metric, in specification order. The per-version
files `Vec20/30/31/40.lean` show that the generated `Vector` emits exactly these pieces, and that the
generated `lenVec` adds exactly their lengths.
-/
namespace Proofs.Vec
open Spec

theorem flet_eq {α : Sort u} (x : Nat) (k : Nat → α) : F64.flet x k = k x := by
  cases x <;> rfl

theorem land_idem (u m : Nat) : Nat.land (Nat.land u m) m = Nat.land u m := by
  show (u &&& m) &&& m = u &&& m
  rw [Nat.and_assoc, Nat.and_self]

/-- closed form of the generated `lenVec` step `if cond { l += k }` -/
theorem cond_add (c : Bool) (l k : Nat) : cond c (Nat.add l k) l = l + cond c k 0 := by
  cases c <;> rfl

/-- every metric of the table written with the value `g` gives for it -/
def pairsOf (ms : List Metric) (g : Bytes → Bytes) : List Pair := ms.map fun m => (m.abv, g m.abv)

theorem valueOf_pairsOf (ms ms' : List Metric) (g : Bytes → Bytes) (m : Metric) (hm : m ∈ ms') :
    valueOf ms (pairsOf ms' g) m.abv = g m.abv := by
  have key : ∀ l : List Metric, m ∈ l →
      (l.map fun m' => (m'.abv, g m'.abv)).find? (fun p => p.1 == m.abv) = some (m.abv, g m.abv) := by
    intro l
    induction l with
    | nil => intro h; cases h
    | cons x xs ih =>
      intro h
      by_cases hx : x.abv = m.abv
      · simp [hx]
      · have hm' : m ∈ xs := by
          cases h with
          | head => exact absurd rfl hx
          | tail _ h => exact h
        simp [hx, ih hm']
  unfold valueOf pairsOf
  rw [key ms' hm]

/-! ## v3 / v4: one piece per metric -/

/-- what a canonical v3/v4 vector writes for metric `m` holding value `v`: `/abv:v`, or nothing for an
    optional metric holding its not-defined value -/
def piece (m : Metric) (v : Bytes) : Bytes :=
  if m.mandatory || some v ≠ m.undef then SLASH :: render (m.abv, v) else []

def emit (ms : List Metric) (g : Bytes → Bytes) : Bytes := (ms.map fun m => piece m (g m.abv)).flatten

theorem canon_flatten_aux (ms ms' : List Metric) (g : Bytes → Bytes) (h : ∀ m ∈ ms', m ∈ ms) :
    (((ms'.filterMap fun m =>
        let v := valueOf ms (pairsOf ms g) m.abv
        if m.mandatory || some v ≠ m.undef then some (m.abv, v) else none)).map
          (fun p => SLASH :: render p)).flatten = emit ms' g := by
  induction ms' with
  | nil => rfl
  | cons x xs ih =>
    have hx : valueOf ms (pairsOf ms g) x.abv = g x.abv := valueOf_pairsOf ms ms g x (h x (List.mem_cons_self))
    have ih' := ih (fun m hm => h m (List.mem_cons_of_mem _ hm))
    unfold emit at ih' ⊢
    rw [List.map_cons, List.flatten_cons, ← ih']
    by_cases hc : (x.mandatory || decide (some (g x.abv) ≠ x.undef)) = true
    · rw [List.filterMap_cons_some (b := (x.abv, g x.abv)) (by simp only [hx]; rw [if_pos hc])]
      unfold piece; rw [if_pos hc]; rfl
    · rw [List.filterMap_cons_none (by simp only [hx]; rw [if_neg hc])]
      unfold piece; rw [if_neg hc]; rfl

theorem canon_flatten (ms : List Metric) (g : Bytes → Bytes) :
    ((canonPairs ms (pairsOf ms g)).map (fun p => SLASH :: render p)).flatten = emit ms g :=
  canon_flatten_aux ms ms g (fun _ h => h)

theorem slash_joinSlash (x : Bytes) (xs : List Bytes) :
    SLASH :: joinSlash (x :: xs) = ((x :: xs).map (fun y => SLASH :: y)).flatten := by
  induction xs generalizing x with
  | nil => simp [joinSlash]
  | cons y ys ih =>
    have : joinSlash (x :: y :: ys) = x ++ SLASH :: joinSlash (y :: ys) := rfl
    rw [this, ih y]
    simp

theorem slash_joinSlash_map {α} (f : α → Bytes) (l : List α) (h : l ≠ []) :
    SLASH :: joinSlash (l.map f) = (l.map (fun p => SLASH :: f p)).flatten := by
  cases l with
  | nil => exact absurd rfl h
  | cons x xs => rw [List.map_cons, slash_joinSlash]; simp [List.map_map, Function.comp_def]

theorem V4_canonical_eq (g : Bytes → Bytes) :
    V4.canonical (pairsOf V4.metrics g) = V4.header ++ emit V4.metrics g := by
  unfold V4.canonical; rw [canon_flatten]

theorem canonPairs_ne_nil (ms : List Metric) (w : List Pair) (m : Metric) (rest : List Metric)
    (h : ms = m :: rest) (hm : m.mandatory = true) : canonPairs ms w ≠ [] := by
  subst h
  simp [canonPairs, hm]

theorem V3_canonical_eq (hdr : Bytes) (g : Bytes → Bytes) :
    V3.canonical hdr (pairsOf V3.metrics g) = hdr ++ emit V3.metrics g := by
  unfold V3.canonical
  rw [slash_joinSlash_map render _ (canonPairs_ne_nil V3.metrics _ _ _ rfl rfl), canon_flatten]

/-- length of the emitted pieces -/
theorem length_emit (ms : List Metric) (g : Bytes → Bytes) :
    (emit ms g).length = (ms.map fun m => (piece m (g m.abv)).length).sum := by
  unfold emit
  rw [List.length_flatten, List.map_map]; rfl

/-! ## The Go helpers in closed form (`b` occurs once on the right, so unfolding a chain of calls does not
blow up) -/

/-- `notMandatory(&b, pre, v)` appends `opt pre v` -/
def opt (pre v : Bytes) : Bytes := if v = [88] then [] else pre ++ v

/-! ## v2: one piece per group -/

/-- what a canonical v2 vector writes for a metric group: all of `/abv:v`, or nothing when the group is
    optional and entirely not-defined -/
def gpiece (grp : List Metric) (g : Bytes → Bytes) : Bytes :=
  if grp.all (fun m => m.mandatory) || grp.any (fun m => g m.abv ≠ b "ND")
  then (grp.map fun m => SLASH :: render (m.abv, g m.abv)).flatten else []

theorem gpiece_congr (grp : List Metric) (g g' : Bytes → Bytes) (h : ∀ m ∈ grp, g m.abv = g' m.abv) :
    gpiece grp g = gpiece grp g' := by
  unfold gpiece
  have h1 : (grp.any fun m => decide (g m.abv ≠ b "ND")) = (grp.any fun m => decide (g' m.abv ≠ b "ND")) := by
    rw [List.any_eq, List.any_eq]
    apply decide_eq_decide.mpr
    constructor
    · rintro ⟨m, hm, hx⟩; exact ⟨m, hm, by rw [← h m hm]; exact hx⟩
    · rintro ⟨m, hm, hx⟩; exact ⟨m, hm, by rw [h m hm]; exact hx⟩
  have h2 : (grp.map fun m => SLASH :: render (m.abv, g m.abv)) = (grp.map fun m => SLASH :: render (m.abv, g' m.abv)) :=
    List.map_congr_left fun m hm => by rw [h m hm]
  rw [h1, h2]

theorem groupPairs_pairsOf (grp : List Metric) (g : Bytes → Bytes) (h : ∀ m ∈ grp, m ∈ V2.metrics) :
    ((V2.groupPairs grp (pairsOf V2.metrics g)).map (fun p => SLASH :: render p)).flatten = gpiece grp g := by
  have hmap : (grp.map fun m => (m.abv, valueOf V2.metrics (pairsOf V2.metrics g) m.abv))
      = grp.map fun m => (m.abv, g m.abv) := by
    apply List.map_congr_left
    intro m hm
    rw [valueOf_pairsOf _ _ _ _ (h m hm)]
  unfold V2.groupPairs gpiece
  simp only [hmap, List.any_map, Function.comp_def]
  split <;> simp [List.map_map, Function.comp_def]

theorem V2_canonical_eq (g : Bytes → Bytes) :
    SLASH :: V2.canonical (pairsOf V2.metrics g)
      = gpiece V2.base g ++ gpiece V2.temporal g ++ gpiece V2.environmental g := by
  unfold V2.canonical
  have hne : V2.groupPairs V2.base (pairsOf V2.metrics g) ++ V2.groupPairs V2.temporal (pairsOf V2.metrics g)
      ++ V2.groupPairs V2.environmental (pairsOf V2.metrics g) ≠ [] := by
    have hb : (V2.base.all fun m => m.mandatory) = true := by decide +kernel
    intro h
    have h1 := (List.append_eq_nil_iff.mp (List.append_eq_nil_iff.mp h).1).1
    unfold V2.groupPairs at h1
    simp only [hb, Bool.true_or, if_true] at h1
    exact absurd (congrArg List.length h1) (by simp [V2.base])
  rw [slash_joinSlash_map render _ hne, List.map_append, List.map_append, List.flatten_append,
    List.flatten_append,
    groupPairs_pairsOf V2.base g (by intro m hm; simp [V2.metrics, hm]),
    groupPairs_pairsOf V2.temporal g (by intro m hm; simp [V2.metrics, hm]),
    groupPairs_pairsOf V2.environmental g (by intro m hm; simp [V2.metrics, hm])]

/-! ## Helpers for the length proofs -/

/-- the metric of table `ms` with abbreviation `a` -/
def met (ms : List Metric) (a : String) : Metric := (findMetric ms (b a)).getD ⟨[], [], true, none⟩

/-- `u` at position `k`, zero elsewhere: used to build an object with one interesting byte -/
def sel (i k u : Nat) : Nat := if i = k then u else 0

theorem met_mem (ms : List Metric) (a : String) (h : (findMetric ms (b a)).isSome = true) : met ms a ∈ ms := by
  unfold met
  cases hf : findMetric ms (b a) with
  | none => rw [hf] at h; cases h
  | some m => exact List.mem_of_find?_eq_some hf

theorem legalGets_mem (ms : List Metric) (get : Bytes → Bytes × Go.Err) (h : Model.legalGets ms get = true) :
    ∀ m ∈ ms, (get m.abv).1 ∈ m.values := by
  intro m hm
  unfold Model.legalGets at h
  have := (List.all_eq_true.mp h) m hm
  simp only [Bool.and_eq_true] at this
  exact List.contains_iff_mem.mp this.2

theorem sum_map_congr {α} (l : List α) (f h : α → Nat) (hfh : ∀ x ∈ l, f x = h x) :
    (l.map f).sum = (l.map h).sum := by
  rw [List.map_congr_left hfh]

/-- 1 when `v` is not a legal value of `m` (only possible on non-well-formed objects) -/
def bad (m : Metric) (v : Bytes) : Nat := if v ∈ m.values then 0 else 1

theorem sum_map_add {α} (l : List α) (f g : α → Nat) :
    (l.map fun x => f x + g x).sum = (l.map f).sum + (l.map g).sum := by
  induction l with
  | nil => rfl
  | cons x xs ih => simp only [List.map_cons, List.sum_cons, ih]; omega

theorem bad_sum_eq_zero_iff (ms : List Metric) (g : Bytes → Bytes) :
    (ms.map fun m => bad m (g m.abv)).sum = 0 ↔ ∀ m ∈ ms, g m.abv ∈ m.values := by
  induction ms with
  | nil => simp
  | cons x xs ih =>
    simp only [List.map_cons, List.sum_cons, List.forall_mem_cons, ← ih]
    unfold bad
    by_cases h : g x.abv ∈ x.values <;> simp [h]

theorem land1_lt : ∀ u, u < 256 → Nat.land u 1 < 2 := by decide +kernel
theorem land128_mem : ∀ u, u < 256 → Nat.land u 128 ∈ [0, 128] := by decide +kernel
theorem land192_mem : ∀ u, u < 256 → Nat.land u 192 ∈ [0, 64, 128, 192] := by decide +kernel

end Proofs.Vec
