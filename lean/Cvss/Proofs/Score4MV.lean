import Cvss.Proofs.Score4Basic
import Cvss.Gen.V40
/-!
# v4.0 `macroVector`: one function per EQ, read off the generated `macroVector_core`

`eq1c av pr ui` etc. are **defined as components of the generated `macroVector_core`** evaluated on
canonical arguments (base code := the effective code, Modified code := 0 "not defined"), so nothing is
copied by hand. `mvc_eq` shows, by unfolding the generated definition, that `macroVector_core` on arbitrary
raw codes is the tuple of these components on the effective codes `mod_ base modified` (EQ4 additionally
reads the raw MSI/MSA codes, so its component keeps the raw SI/SA pairs).
-/
set_option maxRecDepth 100000
namespace Proofs.Score4
open GenV40

theorem mod_zero (e : Nat) : mod_ e 0 = e := rfl

def eq1c (av pr ui : Nat) : Nat := (macroVector_core av 0 0 0 0 0 pr 0 ui 0 0 0 0 0 0 0 0 0 0 0 0 0 0 0 0 0).1
def eq2c (ac at_ : Nat) : Nat := (macroVector_core 0 0 ac 0 at_ 0 0 0 0 0 0 0 0 0 0 0 0 0 0 0 0 0 0 0 0 0).2.1
def eq3c (vc vi va : Nat) : Nat := (macroVector_core 0 0 0 0 0 0 0 0 0 0 vc 0 0 0 vi 0 0 0 va 0 0 0 0 0 0 0).2.2.1
/-- `sc`: effective SC code; `msi`, `si`: raw MSI and SI codes; `msa`, `sa`: raw MSA and SA codes -/
def eq4r (sc msi si msa sa : Nat) : Nat :=
  (macroVector_core 0 0 0 0 0 0 0 0 0 0 0 0 sc 0 0 0 msi si 0 0 msa sa 0 0 0 0).2.2.2.1
def eq5c (e : Nat) : Nat := (macroVector_core 0 0 0 0 0 0 0 0 0 0 0 0 0 0 0 0 0 0 0 0 0 0 e 0 0 0).2.2.2.2.1
def eq6c (vc vi va cr ir ar : Nat) : Nat :=
  (macroVector_core 0 0 0 0 0 0 0 0 0 0 vc 0 0 0 vi 0 0 0 va 0 0 0 0 cr ir ar).2.2.2.2.2

/-- `macroVector_core` factors through the effective codes, component by component -/
theorem mvc_eq (m0 m1 m2 m3 m4 m5 m6 m7 m8 m9 m10 m11 m12 m13 m14 m15 m16 m17 m18 m19 m20 m21 m22 m23 m24 m25 : Nat) :
    macroVector_core m0 m1 m2 m3 m4 m5 m6 m7 m8 m9 m10 m11 m12 m13 m14 m15 m16 m17 m18 m19 m20 m21 m22 m23 m24 m25 =
      (eq1c (mod_ m0 m1) (mod_ m6 m7) (mod_ m8 m9), eq2c (mod_ m2 m3) (mod_ m4 m5),
       eq3c (mod_ m10 m11) (mod_ m14 m15) (mod_ m18 m19), eq4r (mod_ m12 m13) m16 m17 m20 m21, eq5c m22,
       eq6c (mod_ m10 m11) (mod_ m14 m15) (mod_ m18 m19) m23 m24 m25) := by
  simp only [macroVector_core, eq1c, eq2c, eq3c, eq4r, eq5c, eq6c, flet_eq, mod_zero]

end Proofs.Score4
