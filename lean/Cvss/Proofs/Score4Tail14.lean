import Cvss.Proofs.Score4TailDef
/-! GENERATED chunk 14 of the v4.0 float-tail obligation: for each MacroVector below and every severity
distance tuple within its depths, `roundup(eqsv − mean)` (the generated tail) is `F64.tenth` of the Spec's
exact half-up value. Kernel evaluation (`decide +kernel`), 2925 tuples. -/
namespace Proofs.Score4
set_option maxHeartbeats 2000000 in
theorem tail_000020 : tailOkMV 0 0 0 0 2 0 = true := by decide +kernel
set_option maxHeartbeats 2000000 in
theorem tail_001021 : tailOkMV 0 0 1 0 2 1 = true := by decide +kernel
set_option maxHeartbeats 2000000 in
theorem tail_001210 : tailOkMV 0 0 1 2 1 0 = true := by decide +kernel
set_option maxHeartbeats 2000000 in
theorem tail_010020 : tailOkMV 0 1 0 0 2 0 = true := by decide +kernel
set_option maxHeartbeats 2000000 in
theorem tail_012221 : tailOkMV 0 1 2 2 2 1 = true := by decide +kernel
set_option maxHeartbeats 2000000 in
theorem tail_100021 : tailOkMV 1 0 0 0 2 1 = true := by decide +kernel
set_option maxHeartbeats 2000000 in
theorem tail_101010 : tailOkMV 1 0 1 0 1 0 = true := by decide +kernel
set_option maxHeartbeats 2000000 in
theorem tail_101221 : tailOkMV 1 0 1 2 2 1 = true := by decide +kernel
set_option maxHeartbeats 2000000 in
theorem tail_102021 : tailOkMV 1 0 2 0 2 1 = true := by decide +kernel
set_option maxHeartbeats 2000000 in
theorem tail_111110 : tailOkMV 1 1 1 1 1 0 = true := by decide +kernel
set_option maxHeartbeats 2000000 in
theorem tail_200120 : tailOkMV 2 0 0 1 2 0 = true := by decide +kernel
set_option maxHeartbeats 2000000 in
theorem tail_201021 : tailOkMV 2 0 1 0 2 1 = true := by decide +kernel
set_option maxHeartbeats 2000000 in
theorem tail_211021 : tailOkMV 2 1 1 0 2 1 = true := by decide +kernel
set_option maxHeartbeats 2000000 in
theorem tail_211221 : tailOkMV 2 1 1 2 2 1 = true := by decide +kernel
set_option maxHeartbeats 2000000 in
theorem tail_212221 : tailOkMV 2 1 2 2 2 1 = true := by decide +kernel
end Proofs.Score4
