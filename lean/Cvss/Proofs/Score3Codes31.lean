import Cvss.Proofs.Score3Util
/-!
# C03, v3.1: from a well-formed object to codes, and from the strings `Get` returns to Spec weights

(e) `wf c →` every field code is in range; the Spec weight of the value string that the generated `Get` returns
for a code is the code-indexed weight; `mod base modified` is the code of the Spec's effective value.
All by one-variable case analysis on the generated `Get_core`.
(File generated from the v3.1 text for v3.0 by `scripts/score3_mk30.sh`.)
-/
namespace Proofs.Score3.V31
open Spec Spec.V3 GenV31

/-- the vector of an object with the given field codes, as the Spec sees it: metric ↦ value string of `Get` -/
def valOf (r0 r1 r2 r3 r4 r5 r6 r7 r8 r9 r10 r11 r12 r13 r14 r15 r16 r17 r18 r19 r20 r21 : Nat) : Bytes → Bytes := fun a =>
  (Get_core r0 r1 r2 r3 r4 r5 r6 r7 r8 r9 r10 r11 r12 r13 r14 r15 r16 r17 r18 r19 r20 r21 a).1

section strings
variable {r0 r1 r2 r3 r4 r5 r6 r7 r8 r9 r10 r11 r12 r13 r14 r15 r16 r17 r18 r19 r20 r21 : Nat}
local notation "V" => valOf r0 r1 r2 r3 r4 r5 r6 r7 r8 r9 r10 r11 r12 r13 r14 r15 r16 r17 r18 r19 r20 r21

theorem w_AV (h : r0 < 4) : wAV (V (b "AV")) = cAV r0 := by
  have : r0 = 0 ∨ r0 = 1 ∨ r0 = 2 ∨ r0 = 3 := by omega
  rcases this with rfl | rfl | rfl | rfl <;> rfl
theorem w_AC (h : r1 < 2) : wAC (V (b "AC")) = cAC r1 := by
  have : r1 = 0 ∨ r1 = 1 := by omega
  rcases this with rfl | rfl <;> rfl
theorem w_PR (h : r2 < 3) (ch : Bool) : wPR ch (V (b "PR")) = cPR r2 ch := by
  have : r2 = 0 ∨ r2 = 1 ∨ r2 = 2 := by omega
  rcases this with rfl | rfl | rfl <;> cases ch <;> rfl
theorem w_UI (h : r3 < 2) : wUI (V (b "UI")) = cUI r3 := by
  have : r3 = 0 ∨ r3 = 1 := by omega
  rcases this with rfl | rfl <;> rfl
theorem w_S (h : r4 < 2) : changed V = Nat.beq r4 1 := by
  have : r4 = 0 ∨ r4 = 1 := by omega
  rcases this with rfl | rfl <;> rfl
theorem w_C (h : r5 < 3) : wCIA (V (b "C")) = cCIA r5 := by
  have : r5 = 0 ∨ r5 = 1 ∨ r5 = 2 := by omega
  rcases this with rfl | rfl | rfl <;> rfl
theorem w_I (h : r6 < 3) : wCIA (V (b "I")) = cCIA r6 := by
  have : r6 = 0 ∨ r6 = 1 ∨ r6 = 2 := by omega
  rcases this with rfl | rfl | rfl <;> rfl
theorem w_A (h : r7 < 3) : wCIA (V (b "A")) = cCIA r7 := by
  have : r7 = 0 ∨ r7 = 1 ∨ r7 = 2 := by omega
  rcases this with rfl | rfl | rfl <;> rfl
theorem w_E (h : r8 < 5) : wE (V (b "E")) = cE r8 := by
  have : r8 = 0 ∨ r8 = 1 ∨ r8 = 2 ∨ r8 = 3 ∨ r8 = 4 := by omega
  rcases this with rfl | rfl | rfl | rfl | rfl <;> rfl
theorem w_RL (h : r9 < 5) : wRL (V (b "RL")) = cRL r9 := by
  have : r9 = 0 ∨ r9 = 1 ∨ r9 = 2 ∨ r9 = 3 ∨ r9 = 4 := by omega
  rcases this with rfl | rfl | rfl | rfl | rfl <;> rfl
theorem w_RC (h : r10 < 4) : wRC (V (b "RC")) = cRC r10 := by
  have : r10 = 0 ∨ r10 = 1 ∨ r10 = 2 ∨ r10 = 3 := by omega
  rcases this with rfl | rfl | rfl | rfl <;> rfl
theorem w_CR (h : r11 < 4) : wReq (V (b "CR")) = cReq r11 := by
  have : r11 = 0 ∨ r11 = 1 ∨ r11 = 2 ∨ r11 = 3 := by omega
  rcases this with rfl | rfl | rfl | rfl <;> rfl
theorem w_IR (h : r12 < 4) : wReq (V (b "IR")) = cReq r12 := by
  have : r12 = 0 ∨ r12 = 1 ∨ r12 = 2 ∨ r12 = 3 := by omega
  rcases this with rfl | rfl | rfl | rfl <;> rfl
theorem w_AR (h : r13 < 4) : wReq (V (b "AR")) = cReq r13 := by
  have : r13 = 0 ∨ r13 = 1 ∨ r13 = 2 ∨ r13 = 3 := by omega
  rcases this with rfl | rfl | rfl | rfl <;> rfl

/-! Modified metrics: the Spec's effective value (`X` ↦ Base metric's value) has the code `mod base modified` -/
theorem w_MAV (h : r0 < 4) (h' : r14 < 5) : wAV (modified V "MAV" "AV") = cAV (mod_ r0 r14) := by
  have : r0 = 0 ∨ r0 = 1 ∨ r0 = 2 ∨ r0 = 3 := by omega
  have : r14 = 0 ∨ r14 = 1 ∨ r14 = 2 ∨ r14 = 3 ∨ r14 = 4 := by omega
  rcases ‹r0 = 0 ∨ _› with rfl | rfl | rfl | rfl <;> rcases ‹r14 = 0 ∨ _› with rfl | rfl | rfl | rfl | rfl <;> rfl
theorem w_MAC (h : r1 < 2) (h' : r15 < 3) : wAC (modified V "MAC" "AC") = cAC (mod_ r1 r15) := by
  have : r1 = 0 ∨ r1 = 1 := by omega
  have : r15 = 0 ∨ r15 = 1 ∨ r15 = 2 := by omega
  rcases ‹r1 = 0 ∨ _› with rfl | rfl <;> rcases ‹r15 = 0 ∨ _› with rfl | rfl | rfl <;> rfl
theorem w_MPR (h : r2 < 3) (h' : r16 < 4) (ch : Bool) : wPR ch (modified V "MPR" "PR") = cPR (mod_ r2 r16) ch := by
  have : r2 = 0 ∨ r2 = 1 ∨ r2 = 2 := by omega
  have : r16 = 0 ∨ r16 = 1 ∨ r16 = 2 ∨ r16 = 3 := by omega
  rcases ‹r2 = 0 ∨ _› with rfl | rfl | rfl <;> rcases ‹r16 = 0 ∨ _› with rfl | rfl | rfl | rfl <;> cases ch <;> rfl
theorem w_MUI (h : r3 < 2) (h' : r17 < 3) : wUI (modified V "MUI" "UI") = cUI (mod_ r3 r17) := by
  have : r3 = 0 ∨ r3 = 1 := by omega
  have : r17 = 0 ∨ r17 = 1 ∨ r17 = 2 := by omega
  rcases ‹r3 = 0 ∨ _› with rfl | rfl <;> rcases ‹r17 = 0 ∨ _› with rfl | rfl | rfl <;> rfl
theorem w_MS (h : r4 < 2) (h' : r18 < 3) : modifiedChanged V = Nat.beq (mod_ r4 r18) 1 := by
  have : r4 = 0 ∨ r4 = 1 := by omega
  have : r18 = 0 ∨ r18 = 1 ∨ r18 = 2 := by omega
  rcases ‹r4 = 0 ∨ _› with rfl | rfl <;> rcases ‹r18 = 0 ∨ _› with rfl | rfl | rfl <;> rfl
theorem w_MC (h : r5 < 3) (h' : r19 < 4) : wCIA (modified V "MC" "C") = cCIA (mod_ r5 r19) := by
  have : r5 = 0 ∨ r5 = 1 ∨ r5 = 2 := by omega
  have : r19 = 0 ∨ r19 = 1 ∨ r19 = 2 ∨ r19 = 3 := by omega
  rcases ‹r5 = 0 ∨ _› with rfl | rfl | rfl <;> rcases ‹r19 = 0 ∨ _› with rfl | rfl | rfl | rfl <;> rfl
theorem w_MI (h : r6 < 3) (h' : r20 < 4) : wCIA (modified V "MI" "I") = cCIA (mod_ r6 r20) := by
  have : r6 = 0 ∨ r6 = 1 ∨ r6 = 2 := by omega
  have : r20 = 0 ∨ r20 = 1 ∨ r20 = 2 ∨ r20 = 3 := by omega
  rcases ‹r6 = 0 ∨ _› with rfl | rfl | rfl <;> rcases ‹r20 = 0 ∨ _› with rfl | rfl | rfl | rfl <;> rfl
theorem w_MA (h : r7 < 3) (h' : r21 < 4) : wCIA (modified V "MA" "A") = cCIA (mod_ r7 r21) := by
  have : r7 = 0 ∨ r7 = 1 ∨ r7 = 2 := by omega
  have : r21 = 0 ∨ r21 = 1 ∨ r21 = 2 ∨ r21 = 3 := by omega
  rcases ‹r7 = 0 ∨ _› with rfl | rfl | rfl <;> rcases ‹r21 = 0 ∨ _› with rfl | rfl | rfl | rfl <;> rfl

/-! the unrounded sub-scores on strings = on codes -/
theorem spec_impact (h4 : r4 < 2) (h5 : r5 < 3) (h6 : r6 < 3) (h7 : r7 < 3) : impactD V = specImpact r4 r5 r6 r7 := by
  simp only [impactD, specImpact, w_S h4, w_C h5, w_I h6, w_A h7]
theorem spec_expl (h0 : r0 < 4) (h1 : r1 < 2) (h2 : r2 < 3) (h3 : r3 < 2) (h4 : r4 < 2) :
    exploitabilityD V = specExpl r0 r1 r2 r3 r4 := by
  simp only [exploitabilityD, specExpl, w_S h4, w_AV h0, w_AC h1, w_PR h2, w_UI h3]
end strings

/-- effective codes stay in the Base metric's range -/
theorem mod_lt : (∀ b, b < 4 → ∀ m, m < 5 → mod_ b m < 4) ∧ (∀ b, b < 2 → ∀ m, m < 3 → mod_ b m < 2) ∧
    (∀ b, b < 3 → ∀ m, m < 4 → mod_ b m < 3) := by decide


/-! ## Field codes of an object -/
section codes
variable (c : Model.O31)
def k0  : Nat := Nat.shiftRight (Nat.land c.u0 (192 : Nat)) (6 : Nat)     -- AV
def k1  : Nat := Nat.shiftRight (Nat.land c.u0 (32 : Nat)) (5 : Nat)      -- AC
def k2  : Nat := Nat.shiftRight (Nat.land c.u0 (24 : Nat)) (3 : Nat)      -- PR
def k3  : Nat := Nat.shiftRight (Nat.land c.u0 (4 : Nat)) (2 : Nat)       -- UI
def k4  : Nat := Nat.shiftRight (Nat.land c.u0 (2 : Nat)) (1 : Nat)       -- S
def k5  : Nat := Nat.lor (Nat.mod (Nat.shiftLeft (Nat.land c.u0 (1 : Nat)) (1 : Nat)) 256) (Nat.shiftRight (Nat.land c.u1 (128 : Nat)) (7 : Nat))  -- C
def k6  : Nat := Nat.shiftRight (Nat.land c.u1 (96 : Nat)) (5 : Nat)      -- I
def k7  : Nat := Nat.shiftRight (Nat.land c.u1 (24 : Nat)) (3 : Nat)      -- A
def k8  : Nat := Nat.land c.u1 (7 : Nat)                                  -- E
def k9  : Nat := Nat.shiftRight (Nat.land c.u2 (224 : Nat)) (5 : Nat)     -- RL
def k10 : Nat := Nat.shiftRight (Nat.land c.u2 (24 : Nat)) (3 : Nat)      -- RC
def k11 : Nat := Nat.shiftRight (Nat.land c.u2 (6 : Nat)) (1 : Nat)       -- CR
def k12 : Nat := Nat.lor (Nat.mod (Nat.shiftLeft (Nat.land c.u2 (1 : Nat)) (1 : Nat)) 256) (Nat.shiftRight (Nat.land c.u3 (128 : Nat)) (7 : Nat))  -- IR
def k13 : Nat := Nat.shiftRight (Nat.land c.u3 (96 : Nat)) (5 : Nat)      -- AR
def k14 : Nat := Nat.shiftRight (Nat.land c.u3 (28 : Nat)) (2 : Nat)      -- MAV
def k15 : Nat := Nat.land c.u3 (3 : Nat)                                  -- MAC
def k16 : Nat := Nat.shiftRight (Nat.land c.u4 (192 : Nat)) (6 : Nat)     -- MPR
def k17 : Nat := Nat.shiftRight (Nat.land c.u4 (48 : Nat)) (4 : Nat)      -- MUI
def k18 : Nat := Nat.shiftRight (Nat.land c.u4 (12 : Nat)) (2 : Nat)      -- MS
def k19 : Nat := Nat.land c.u4 (3 : Nat)                                  -- MC
def k20 : Nat := Nat.shiftRight (Nat.land c.u5 (192 : Nat)) (6 : Nat)     -- MI
def k21 : Nat := Nat.shiftRight (Nat.land c.u5 (48 : Nat)) (4 : Nat)      -- MA
/-- the scope field as `Impact`/`BaseScore` read it (not shifted) -/
def kS  : Nat := Nat.land c.u0 (2 : Nat)

/-- the vector of `c` as the Spec sees it -/
def val : Bytes → Bytes := fun a => (c.get a).1

/-! hoisting: every generated method is its `_core` on these codes (definitional) -/
theorem get_eq (a : Bytes) : c.get a =
    Get_core (k0 c) (k1 c) (k2 c) (k3 c) (k4 c) (k5 c) (k6 c) (k7 c) (k8 c) (k9 c) (k10 c) (k11 c) (k12 c) (k13 c)
      (k14 c) (k15 c) (k16 c) (k17 c) (k18 c) (k19 c) (k20 c) (k21 c) a := rfl
theorem val_eq : val c = valOf (k0 c) (k1 c) (k2 c) (k3 c) (k4 c) (k5 c) (k6 c) (k7 c) (k8 c) (k9 c) (k10 c) (k11 c)
    (k12 c) (k13 c) (k14 c) (k15 c) (k16 c) (k17 c) (k18 c) (k19 c) (k20 c) (k21 c) := rfl
theorem baseScore_eq : c.baseScore = BaseScore_core (k5 c) (k6 c) (k7 c) (kS c) (k0 c) (k1 c) (k2 c) (k4 c) (k3 c) := rfl
theorem temporalScore_eq : c.temporalScore =
    TemporalScore_core (k8 c) (k9 c) (k10 c) (k5 c) (k6 c) (k7 c) (kS c) (k0 c) (k1 c) (k2 c) (k4 c) (k3 c) := rfl
theorem environmentalScore_eq : c.environmentalScore =
    EnvironmentalScore_core (k0 c) (k14 c) (k1 c) (k15 c) (k2 c) (k16 c) (k3 c) (k17 c) (k4 c) (k18 c) (k5 c) (k19 c)
      (k6 c) (k20 c) (k7 c) (k21 c) (k11 c) (k12 c) (k13 c) (k8 c) (k9 c) (k10 c) := rfl
theorem impact_eq : c.impact = Impact_core (k5 c) (k6 c) (k7 c) (kS c) := rfl
theorem exploitability_eq : c.exploitability = Exploitability_core (k0 c) (k1 c) (k2 c) (k4 c) (k3 c) := rfl
end codes

/-! ranges from the field widths (one byte at a time) -/
theorem byte_rng : ∀ u, u < 256 →
    Nat.shiftRight (Nat.land u 192) 6 < 4 ∧ Nat.shiftRight (Nat.land u 32) 5 < 2 ∧ Nat.shiftRight (Nat.land u 24) 3 < 4 ∧
    Nat.shiftRight (Nat.land u 4) 2 < 2 ∧ Nat.shiftRight (Nat.land u 2) 1 < 2 ∧ Nat.land u 1 < 2 ∧
    Nat.shiftRight (Nat.land u 128) 7 < 2 ∧ Nat.shiftRight (Nat.land u 96) 5 < 4 ∧ Nat.land u 7 < 8 ∧
    Nat.shiftRight (Nat.land u 224) 5 < 8 ∧ Nat.shiftRight (Nat.land u 6) 1 < 4 ∧ Nat.shiftRight (Nat.land u 28) 2 < 8 ∧
    Nat.land u 3 < 4 ∧ Nat.shiftRight (Nat.land u 48) 4 < 4 ∧ Nat.shiftRight (Nat.land u 12) 2 < 4 ∧
    Nat.beq (Nat.land u 2) 0 = Nat.beq (Nat.shiftRight (Nat.land u 2) 1) 0 := by decide +kernel
theorem join_rng : ∀ a, a < 2 → ∀ b, b < 2 → Nat.lor (Nat.mod (Nat.shiftLeft a 1) 256) b < 4 := by decide

section refine
variable {r0 r1 r2 r3 r4 r5 r6 r7 r8 r9 r10 r11 r12 r13 r14 r15 r16 r17 r18 r19 r20 r21 : Nat}
local notation "G" => Get_core r0 r1 r2 r3 r4 r5 r6 r7 r8 r9 r10 r11 r12 r13 r14 r15 r16 r17 r18 r19 r20 r21
/-! a code outside the value table reads as the empty string, which is not a legal value -/
theorem rf_PR (hr : r2 < 4) (h : ([b "N", b "L", b "H"] : List Bytes).contains (G (b "PR")).1 = true) : r2 < 3 := by
  have : r2 = 0 ∨ r2 = 1 ∨ r2 = 2 ∨ r2 = 3 := by omega
  rcases this with rfl | rfl | rfl | rfl <;> first | omega | exact absurd (show false = true from h) (by decide)
theorem rf_C (hr : r5 < 4) (h : ([b "H", b "L", b "N"] : List Bytes).contains (G (b "C")).1 = true) : r5 < 3 := by
  have : r5 = 0 ∨ r5 = 1 ∨ r5 = 2 ∨ r5 = 3 := by omega
  rcases this with rfl | rfl | rfl | rfl <;> first | omega | exact absurd (show false = true from h) (by decide)
theorem rf_I (hr : r6 < 4) (h : ([b "H", b "L", b "N"] : List Bytes).contains (G (b "I")).1 = true) : r6 < 3 := by
  have : r6 = 0 ∨ r6 = 1 ∨ r6 = 2 ∨ r6 = 3 := by omega
  rcases this with rfl | rfl | rfl | rfl <;> first | omega | exact absurd (show false = true from h) (by decide)
theorem rf_A (hr : r7 < 4) (h : ([b "H", b "L", b "N"] : List Bytes).contains (G (b "A")).1 = true) : r7 < 3 := by
  have : r7 = 0 ∨ r7 = 1 ∨ r7 = 2 ∨ r7 = 3 := by omega
  rcases this with rfl | rfl | rfl | rfl <;> first | omega | exact absurd (show false = true from h) (by decide)
theorem rf_E (hr : r8 < 8) (h : ([b "X", b "H", b "F", b "P", b "U"] : List Bytes).contains (G (b "E")).1 = true) : r8 < 5 := by
  have : r8 = 0 ∨ r8 = 1 ∨ r8 = 2 ∨ r8 = 3 ∨ r8 = 4 ∨ r8 = 5 ∨ r8 = 6 ∨ r8 = 7 := by omega
  rcases this with rfl | rfl | rfl | rfl | rfl | rfl | rfl | rfl <;>
    first | omega | exact absurd (show false = true from h) (by decide)
theorem rf_RL (hr : r9 < 8) (h : ([b "X", b "U", b "W", b "T", b "O"] : List Bytes).contains (G (b "RL")).1 = true) : r9 < 5 := by
  have : r9 = 0 ∨ r9 = 1 ∨ r9 = 2 ∨ r9 = 3 ∨ r9 = 4 ∨ r9 = 5 ∨ r9 = 6 ∨ r9 = 7 := by omega
  rcases this with rfl | rfl | rfl | rfl | rfl | rfl | rfl | rfl <;>
    first | omega | exact absurd (show false = true from h) (by decide)
theorem rf_MAV (hr : r14 < 8) (h : ([b "X", b "N", b "A", b "L", b "P"] : List Bytes).contains (G (b "MAV")).1 = true) : r14 < 5 := by
  have : r14 = 0 ∨ r14 = 1 ∨ r14 = 2 ∨ r14 = 3 ∨ r14 = 4 ∨ r14 = 5 ∨ r14 = 6 ∨ r14 = 7 := by omega
  rcases this with rfl | rfl | rfl | rfl | rfl | rfl | rfl | rfl <;>
    first | omega | exact absurd (show false = true from h) (by decide)
theorem rf_MAC (hr : r15 < 4) (h : ([b "X", b "L", b "H"] : List Bytes).contains (G (b "MAC")).1 = true) : r15 < 3 := by
  have : r15 = 0 ∨ r15 = 1 ∨ r15 = 2 ∨ r15 = 3 := by omega
  rcases this with rfl | rfl | rfl | rfl <;> first | omega | exact absurd (show false = true from h) (by decide)
theorem rf_MUI (hr : r17 < 4) (h : ([b "X", b "N", b "R"] : List Bytes).contains (G (b "MUI")).1 = true) : r17 < 3 := by
  have : r17 = 0 ∨ r17 = 1 ∨ r17 = 2 ∨ r17 = 3 := by omega
  rcases this with rfl | rfl | rfl | rfl <;> first | omega | exact absurd (show false = true from h) (by decide)
theorem rf_MS (hr : r18 < 4) (h : ([b "X", b "U", b "C"] : List Bytes).contains (G (b "MS")).1 = true) : r18 < 3 := by
  have : r18 = 0 ∨ r18 = 1 ∨ r18 = 2 ∨ r18 = 3 := by omega
  rcases this with rfl | rfl | rfl | rfl <;> first | omega | exact absurd (show false = true from h) (by decide)
end refine

/-- what `wf` says about one metric of the Spec table -/
theorem legal_of_wf (c : Model.O31) (h : c.wf = true) (m : Spec.Metric) (hm : m ∈ Spec.V3.metrics) :
    m.values.contains (c.get m.abv).1 = true := by
  simp only [Model.O31.wf, Model.legalGets, Bool.and_eq_true, List.all_eq_true] at h
  exact (h.2 m hm).2

/-- all field codes of a well-formed object are in range -/
structure InRange (c : Model.O31) : Prop where
  h0 : k0 c < 4
  h1 : k1 c < 2
  h2 : k2 c < 3
  h3 : k3 c < 2
  h4 : k4 c < 2
  h5 : k5 c < 3
  h6 : k6 c < 3
  h7 : k7 c < 3
  h8 : k8 c < 5
  h9 : k9 c < 5
  h10 : k10 c < 4
  h11 : k11 c < 4
  h12 : k12 c < 4
  h13 : k13 c < 4
  h14 : k14 c < 5
  h15 : k15 c < 3
  h16 : k16 c < 4
  h17 : k17 c < 3
  h18 : k18 c < 3
  h19 : k19 c < 4
  h20 : k20 c < 4
  h21 : k21 c < 4
  hS : Nat.beq (kS c) 0 = Nat.beq (k4 c) 0

theorem inRange_of_wf (c : Model.O31) (h : c.wf = true) : InRange c := by
  have hb : c.u0 < 256 ∧ c.u1 < 256 ∧ c.u2 < 256 ∧ c.u3 < 256 ∧ c.u4 < 256 ∧ c.u5 < 256 := by
    have h' := h
    simp only [Model.O31.wf, Model.O31.bytes, Bool.and_eq_true, List.all_cons, List.all_nil, Bool.and_true,
      Nat.blt_eq] at h'
    exact ⟨h'.1.1.1, h'.1.1.2.1, h'.1.1.2.2.1, h'.1.1.2.2.2.1, h'.1.1.2.2.2.2.1, h'.1.1.2.2.2.2.2⟩
  obtain ⟨b0, b1, b2, b3, b4, b5⟩ := hb
  have B0 := byte_rng _ b0; have B1 := byte_rng _ b1; have B2 := byte_rng _ b2
  have B3 := byte_rng _ b3; have B4 := byte_rng _ b4; have B5 := byte_rng _ b5
  have L := legal_of_wf c h
  have g := get_eq c
  exact {
    h0 := B0.1
    h1 := B0.2.1
    h2 := rf_PR B0.2.2.1 (g _ ▸ L (mand "PR" ["N", "L", "H"]) (by decide))
    h3 := B0.2.2.2.1
    h4 := B0.2.2.2.2.1
    h5 := rf_C (join_rng _ B0.2.2.2.2.2.1 _ B1.2.2.2.2.2.2.1)
            (g _ ▸ L (mand "C" ["H", "L", "N"]) (by decide))
    h6 := rf_I B1.2.2.2.2.2.2.2.1 (g _ ▸ L (mand "I" ["H", "L", "N"]) (by decide))
    h7 := rf_A B1.2.2.1 (g _ ▸ L (mand "A" ["H", "L", "N"]) (by decide))
    h8 := rf_E B1.2.2.2.2.2.2.2.2.1 (g _ ▸ L (optX "E" ["H", "F", "P", "U"]) (by decide))
    h9 := rf_RL B2.2.2.2.2.2.2.2.2.2.1 (g _ ▸ L (optX "RL" ["U", "W", "T", "O"]) (by decide))
    h10 := B2.2.2.1
    h11 := B2.2.2.2.2.2.2.2.2.2.2.1
    h12 := join_rng _ B2.2.2.2.2.2.1 _ B3.2.2.2.2.2.2.1
    h13 := B3.2.2.2.2.2.2.2.1
    h14 := rf_MAV B3.2.2.2.2.2.2.2.2.2.2.2.1 (g _ ▸ L (optX "MAV" ["N", "A", "L", "P"]) (by decide))
    h15 := rf_MAC B3.2.2.2.2.2.2.2.2.2.2.2.2.1 (g _ ▸ L (optX "MAC" ["L", "H"]) (by decide))
    h16 := B4.1
    h17 := rf_MUI B4.2.2.2.2.2.2.2.2.2.2.2.2.2.1 (g _ ▸ L (optX "MUI" ["N", "R"]) (by decide))
    h18 := rf_MS B4.2.2.2.2.2.2.2.2.2.2.2.2.2.2.1 (g _ ▸ L (optX "MS" ["U", "C"]) (by decide))
    h19 := B4.2.2.2.2.2.2.2.2.2.2.2.2.1
    h20 := B5.1
    h21 := B5.2.2.2.2.2.2.2.2.2.2.2.2.2.1
    hS := B0.2.2.2.2.2.2.2.2.2.2.2.2.2.2.2 }

end Proofs.Score3.V31
