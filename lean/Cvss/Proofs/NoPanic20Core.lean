import Cvss.Gen.K20
import Cvss.Proofs.Bits20
import Cvss.Proofs.Score2Wf
/-!
# CVSS v2.0 no-panic twins (`GenK20.*_ok`): helper lemmas on the decoded field codes

`GenK20.X_ok_core` is the regenerated "returns normally" twin of method `X` over the field codes. Each weight
helper twin (`cia_ok`, `accessVector_ok`, …) is `true` exactly on the legal codes of its metric (by `decide` over
the regenerated definition, so a weight helper that loses a `case` breaks a proof here); the method twins are
conjunctions of those (by unfolding the regenerated definitions).
-/
set_option maxRecDepth 100000
namespace Proofs.NoPanic20
open Bits (flet_eq)

/-! ## the weight helpers return normally on every legal code (and panic just beyond) -/
theorem cia_ok : ∀ v, v < 3 → GenK20.cia_ok v = true := by decide
theorem accessVector_ok : ∀ v, v < 3 → GenK20.accessVector_ok v = true := by decide
theorem accessComplexity_ok : ∀ v, v < 3 → GenK20.accessComplexity_ok v = true := by decide
theorem authentication_ok : ∀ v, v < 3 → GenK20.authentication_ok v = true := by decide
theorem ciar_ok : ∀ v, v < 4 → GenK20.ciar_ok v = true := by decide
theorem exploitability_ok : ∀ v, v < 5 → GenK20.exploitability_ok v = true := by decide
theorem remediationLevel_ok : ∀ v, v < 5 → GenK20.remediationLevel_ok v = true := by decide
theorem reportConfidence_ok : ∀ v, v < 4 → GenK20.reportConfidence_ok v = true := by decide
theorem collateralDamagePotential_ok : ∀ v, v < 6 → GenK20.collateralDamagePotential_ok v = true := by decide
theorem targetDistribution_ok : ∀ v, v < 5 → GenK20.targetDistribution_ok v = true := by decide

/-- … and every `uint8` beyond the legal codes reaches the `panic` of the `default:` arm
    (so the ranges above are exact; `reportConfidence`/`ciar` accept all four 2-bit codes) -/
theorem helpers_exact : ∀ v, v < 256 →
    GenK20.cia_ok v = Nat.blt v 3 ∧ GenK20.accessVector_ok v = Nat.blt v 3 ∧
    GenK20.accessComplexity_ok v = Nat.blt v 3 ∧ GenK20.authentication_ok v = Nat.blt v 3 ∧
    GenK20.ciar_ok v = Nat.blt v 4 ∧ GenK20.exploitability_ok v = Nat.blt v 5 ∧
    GenK20.remediationLevel_ok v = Nat.blt v 5 ∧ GenK20.reportConfidence_ok v = Nat.blt v 4 ∧
    GenK20.collateralDamagePotential_ok v = Nat.blt v 6 ∧ GenK20.targetDistribution_ok v = Nat.blt v 5 := by
  decide +kernel

/-- the twin of a weight helper says `false` exactly where the ordinary translation (`Gen/V20.lean`) returns its panic
    sentinel `0x7FF8DEAD00000000` -/
theorem helpers_sentinel : ∀ v, v < 256 →
    GenK20.cia_ok v = !Nat.beq (GenV20.cia v) 0x7FF8DEAD00000000 ∧
    GenK20.accessVector_ok v = !Nat.beq (GenV20.accessVector v) 0x7FF8DEAD00000000 ∧
    GenK20.accessComplexity_ok v = !Nat.beq (GenV20.accessComplexity v) 0x7FF8DEAD00000000 ∧
    GenK20.authentication_ok v = !Nat.beq (GenV20.authentication v) 0x7FF8DEAD00000000 ∧
    GenK20.ciar_ok v = !Nat.beq (GenV20.ciar v) 0x7FF8DEAD00000000 ∧
    GenK20.exploitability_ok v = !Nat.beq (GenV20.exploitability v) 0x7FF8DEAD00000000 ∧
    GenK20.remediationLevel_ok v = !Nat.beq (GenV20.remediationLevel v) 0x7FF8DEAD00000000 ∧
    GenK20.reportConfidence_ok v = !Nat.beq (GenV20.reportConfidence v) 0x7FF8DEAD00000000 ∧
    GenK20.collateralDamagePotential_ok v = !Nat.beq (GenV20.collateralDamagePotential v) 0x7FF8DEAD00000000 ∧
    GenK20.targetDistribution_ok v = !Nat.beq (GenV20.targetDistribution v) 0x7FF8DEAD00000000 := by
  decide +kernel

/-! ## the method twins over the codes -/

theorem impact_ok_core (r0 r1 r2 : Nat) (h0 : r0 < 3) (h1 : r1 < 3) (h2 : r2 < 3) :
    GenK20.Impact_ok_core r0 r1 r2 = true := by
  simp only [GenK20.Impact_ok_core, flet_eq, cia_ok _ h0, cia_ok _ h1, cia_ok _ h2, Bool.and_self]

theorem exploitability_ok_core (r0 r1 r2 : Nat) (h0 : r0 < 3) (h1 : r1 < 3) (h2 : r2 < 3) :
    GenK20.Exploitability_ok_core r0 r1 r2 = true := by
  simp only [GenK20.Exploitability_ok_core, flet_eq, accessVector_ok _ h0, accessComplexity_ok _ h1,
    authentication_ok _ h2, Bool.and_self]

theorem baseScore_ok_core (r0 r1 r2 r3 r4 r5 : Nat) (h0 : r0 < 3) (h1 : r1 < 3) (h2 : r2 < 3)
    (h3 : r3 < 3) (h4 : r4 < 3) (h5 : r5 < 3) : GenK20.BaseScore_ok_core r0 r1 r2 r3 r4 r5 = true := by
  simp only [GenK20.BaseScore_ok_core, flet_eq, impact_ok_core _ _ _ h0 h1 h2,
    exploitability_ok_core _ _ _ h3 h4 h5, Bool.and_self]

theorem temporalScore_ok_core (r0 r1 r2 r3 r4 r5 r6 r7 r8 : Nat) (h0 : r0 < 5) (h1 : r1 < 5) (h2 : r2 < 4)
    (h3 : r3 < 3) (h4 : r4 < 3) (h5 : r5 < 3) (h6 : r6 < 3) (h7 : r7 < 3) (h8 : r8 < 3) :
    GenK20.TemporalScore_ok_core r0 r1 r2 r3 r4 r5 r6 r7 r8 = true := by
  simp only [GenK20.TemporalScore_ok_core, flet_eq, exploitability_ok _ h0, remediationLevel_ok _ h1,
    reportConfidence_ok _ h2, baseScore_ok_core _ _ _ _ _ _ h3 h4 h5 h6 h7 h8, Bool.and_self]

theorem environmentalScore_ok_core (r0 r1 r2 r3 r4 r5 r6 r7 r8 r9 r10 r11 r12 r13 : Nat)
    (h0 : r0 < 3) (h1 : r1 < 3) (h2 : r2 < 3) (h3 : r3 < 4) (h4 : r4 < 4) (h5 : r5 < 4)
    (h6 : r6 < 3) (h7 : r7 < 3) (h8 : r8 < 3) (h9 : r9 < 5) (h10 : r10 < 5) (h11 : r11 < 4)
    (h12 : r12 < 6) (h13 : r13 < 5) :
    GenK20.EnvironmentalScore_ok_core r0 r1 r2 r3 r4 r5 r6 r7 r8 r9 r10 r11 r12 r13 = true := by
  simp only [GenK20.EnvironmentalScore_ok_core, flet_eq, cia_ok _ h0, cia_ok _ h1, cia_ok _ h2,
    ciar_ok _ h3, ciar_ok _ h4, ciar_ok _ h5, exploitability_ok_core _ _ _ h6 h7 h8,
    exploitability_ok _ h9, remediationLevel_ok _ h10, reportConfidence_ok _ h11,
    collateralDamagePotential_ok _ h12, targetDistribution_ok _ h13, Bool.and_self]

end Proofs.NoPanic20
