import Cvss.Proofs.IEEE.Mag
/-!
# The core: `F64.rnd` rounds to nearest even

`F64.rnd sbit m e` returns `sbit + p` where `p` is the RNE image (`IsRNEMag`) of `m · 2^e / 2^(4096+1075)`,
for every `m > 0` and every `e`: subnormal results, carry to the next binade and overflow to ∞ included.
The statement is slightly more general (`Sticky`): the rounded value may be any rational that `m` represents
"with a sticky bit" (used by the division).
-/
namespace IEEE
open F64Order

/-! ## primitives → ordinary notation -/

theorem cond_ble {α : Sort u} (a b : Nat) (x y : α) : cond (Nat.ble a b) x y = if a ≤ b then x else y := by
  by_cases h : a ≤ b
  · rw [if_pos h, (Nat.ble_eq.mpr h : Nat.ble a b = true)]; rfl
  · rw [if_neg h]; cases hb : Nat.ble a b
    · rfl
    · exact absurd (Nat.ble_eq.mp hb) h

theorem cond_blt {α : Sort u} (a b : Nat) (x y : α) : cond (Nat.blt a b) x y = if a < b then x else y := by
  by_cases h : a < b
  · rw [if_pos h, (Nat.blt_eq.mpr h : Nat.blt a b = true)]; rfl
  · rw [if_neg h]; cases hb : Nat.blt a b
    · rfl
    · exact absurd (Nat.blt_eq.mp hb) h

theorem cond_beq {α : Sort u} (a b : Nat) (x y : α) : cond (Nat.beq a b) x y = if a = b then x else y := by
  by_cases h : a = b
  · rw [if_pos h, ((nbeq a b).mpr h : Nat.beq a b = true)]; rfl
  · rw [if_neg h]; cases hb : Nat.beq a b
    · rfl
    · exact absurd ((nbeq a b).mp hb) h

theorem nshl (a b : Nat) : Nat.shiftLeft a b = a * 2^b := Nat.shiftLeft_eq a b

/-! ## packing: the pattern with exponent field `E` and integer significand `q` -/

/-- the value of the packed pattern `(E-1)·2^52 + q` is `q · 2^E`: subnormal (`E = 1`, `q < 2^52`), normal
    (`2^52 ≤ q < 2^53`) and the carry case `q = 2^53` alike; `E` is unbounded -/
theorem wp_pack (E q : Nat) (hE : 1 ≤ E) (hq : q ≤ 2 * P52) (h : E = 1 ∨ P52 ≤ q) :
    wp ((E - 1) * P52 + q) = q * 2^E := by
  have wp_of : ∀ a e f, a / P52 = e → a % P52 = f → wp a = w e f := by
    intro a e f h1 h2; subst h1; subst h2; rfl
  by_cases h1 : q < P52
  · have hE1 : E = 1 := by simp only [P52] at *; omega
    subst hE1
    rw [wp_of _ 0 q (by simp only [P52] at *; omega) (by simp only [P52] at *; omega)]
    unfold w; rw [if_pos rfl]
  · by_cases h2 : q = 2 * P52
    · subst h2
      rw [wp_of _ (E+1) 0 (by simp only [P52] at *; omega) (by simp only [P52] at *; omega)]
      unfold w; rw [if_neg (by omega), Nat.pow_succ]
      generalize 2^E = X
      simp only [P52]; omega
    · rw [wp_of _ E (q - P52) (by simp only [P52] at *; omega) (by simp only [P52] at *; omega)]
      unfold w; rw [if_neg (by omega)]
      have e : P52 + (q - P52) = q := by omega
      rw [e]

/-- `F64.fin3` packs, saturating at +∞ -/
theorem fin3_eq (sbit E q : Nat) (hE : 1 ≤ E) (h : E = 1 ∨ P52 ≤ q) :
    F64.fin3 sbit E q = sbit + min PINF ((E - 1) * P52 + q) := by
  unfold F64.fin3
  simp only [flet_eq, cond_blt, cond_ble, Nat.add_eq, Nat.sub_eq, Nat.mul_eq, F64.P52, F64.PINF, PINF, P52] at *
  by_cases h1 : q < 4503599627370496
  · have hE1 : E = 1 := by omega
    subst hE1
    rw [if_pos h1]; omega
  · rw [if_neg h1]
    split <;> omega

/-! ## `F64.rnd` in ordinary notation -/

theorem rndF_eq (sbit E q rem sh : Nat) :
    F64.rndF sbit E q rem sh =
      F64.fin3 sbit E (if 2^(sh-1) < rem ∨ (rem = 2^(sh-1) ∧ q % 2 = 1) then q+1 else q) := by
  unfold F64.rndF
  rw [flet_eq, nshl, Nat.one_mul, Nat.sub_eq, nmod, Nat.succ_eq_add_one]
  congr 1
  by_cases h1 : 2^(sh-1) < rem
  · rw [if_pos (Or.inl h1), (Nat.blt_eq.mpr h1 : Nat.blt _ _ = true)]; rfl
  · have hb : Nat.blt (2^(sh-1)) rem = false := by
      cases hb : Nat.blt (2^(sh-1)) rem
      · rfl
      · exact absurd (Nat.blt_eq.mp hb) h1
    rw [hb, cond_false, cond_beq]
    by_cases h2 : rem = 2^(sh-1)
    · rw [if_pos h2, cond_beq]
      by_cases h3 : q % 2 = 1
      · rw [if_pos h3, if_pos (Or.inr ⟨h2, h3⟩)]
      · rw [if_neg h3, if_neg (by intro h; rcases h with h | h; exact h1 h; exact h3 h.2)]
    · rw [if_neg h2, if_neg (by intro h; rcases h with h | h; exact h1 h; exact h2 h.1)]; rfl

theorem rnd_unfold (sbit m e len E : Nat) (hm : 0 < m) (hlen : len = Nat.log2 m + 1)
    (hE : E = if e + len ≤ 4150 then 1 else e + len - 4149) :
    F64.rnd sbit m e =
      if 4096 + E ≤ e then F64.fin3 sbit E (m * 2^(e - (4096 + E)))
      else F64.fin3 sbit E
        (if 2^(4096 + E - e - 1) < m - m / 2^(4096 + E - e) * 2^(4096 + E - e) ∨
            (m - m / 2^(4096 + E - e) * 2^(4096 + E - e) = 2^(4096 + E - e - 1) ∧ (m / 2^(4096 + E - e)) % 2 = 1)
         then m / 2^(4096 + E - e) + 1 else m / 2^(4096 + E - e)) := by
  rw [F64.rnd_eq_log2]
  simp only [flet_eq, cond_beq]
  rw [if_neg (by omega)]
  unfold F64.rndB
  simp only [flet_eq, cond_ble, Nat.add_eq, Nat.sub_eq, Nat.succ_eq_add_one]
  unfold F64.rndC
  simp only [flet_eq, cond_ble, Nat.add_eq, Nat.sub_eq, nshl]
  rw [← hlen, ← hE]
  unfold F64.rndD F64.rndE
  simp only [flet_eq, rndF_eq, nshr, nshl, Nat.sub_eq]
/-! ## the value represented by `(m, e)`, possibly with a sticky bit -/

/-- `a/d` is the value `m · 2^e / 2^(4096+1075)`, exactly, or with `m` carrying a sticky bit: `m` is odd, has
    at least 56 bits, and the true value lies strictly between `(m-1)` and `(m+1)` in the same unit -/
def Rep (a d m e : Nat) : Prop :=
  a * 2^4096 * den = m * (2^e * d) ∨
  (m % 2 = 1 ∧ 2^55 ≤ m ∧ (m - 1) * (2^e * d) < a * 2^4096 * den ∧ a * 2^4096 * den < (m + 1) * (2^e * d))

theorem rep_cmp {a d m e : Nat} (T : Nat) (hd : 0 < d) (h : Rep a d m e)
    (hT : a * 2^4096 * den = m * (2^e * d) ∨ T % 2 = 0) :
    (T < m → T * (2^e * d) < a * 2^4096 * den) ∧ (m < T → a * 2^4096 * den < T * (2^e * d)) ∧
    (T = m → T * (2^e * d) = a * 2^4096 * den) := by
  have hX : 0 < 2^e * d := Nat.mul_pos (Nat.pow_pos (by decide)) hd
  unfold Rep at h
  generalize 2^e * d = X at *
  generalize a * 2^4096 * den = AK at *
  have ex : AK = m * X → ((T < m → T * X < AK) ∧ (m < T → AK < T * X) ∧ (T = m → T * X = AK)) := by
    intro hx
    refine ⟨fun h1 => ?_, fun h1 => ?_, fun h1 => ?_⟩
    · rw [hx]; exact Nat.mul_lt_mul_of_pos_right h1 hX
    · rw [hx]; exact Nat.mul_lt_mul_of_pos_right h1 hX
    · rw [hx, h1]
  rcases h with hx | ⟨hodd, _, hl, hu⟩
  · exact ex hx
  · rcases hT with hx | hev
    · exact ex hx
    · refine ⟨fun h1 => ?_, fun h1 => ?_, fun h1 => ?_⟩
      · have : T * X ≤ (m - 1) * X := Nat.mul_le_mul_right _ (by omega)
        omega
      · have : (m + 1) * X ≤ T * X := Nat.mul_le_mul_right _ (by omega)
        omega
      · omega

theorem scale_eq (c E P sh e d : Nat) (h : 2^E * P = 2^sh * 2^e) :
    (c * 2^E) * (d * P) = (c * 2^sh) * (2^e * d) := by
  calc (c * 2^E) * (d * P) = c * d * (2^E * P) := by ac_rfl
    _ = c * d * (2^sh * 2^e) := by rw [h]
    _ = (c * 2^sh) * (2^e * d) := by ac_rfl


theorem p53 : (2:Nat)^53 = 2 * P52 := by decide
theorem p52 : (2:Nat)^52 = P52 := by decide

set_option maxHeartbeats 1000000 in
/-- **the core lemma**: `F64.rnd` is round-to-nearest-even of the value represented by `(m, e)` -/
theorem rnd_rne (sbit m e a d : Nat) (hm : 0 < m) (hd : 0 < d) (h : Rep a d m e) :
    ∃ p, F64.rnd sbit m e = sbit + p ∧ IsRNEMag a d p := by
  have hlo : 2 ^ Nat.log2 m ≤ m := Nat.log2_self_le (by omega)
  have hhi : m < 2 ^ (Nat.log2 m + 1) := Nat.lt_log2_self
  generalize hlen : Nat.log2 m + 1 = len at hhi
  have hlo' : 2^(len - 1) ≤ m := by
    have : len - 1 = Nat.log2 m := by omega
    rw [this]; exact hlo
  clear hlo
  generalize hE : (if e + len ≤ 4150 then 1 else e + len - 4149) = E
  have hEc : (e + len ≤ 4150 ∧ E = 1) ∨ (4150 < e + len ∧ E = e + len - 4149) := by
    rw [← hE]; split <;> omega
  have hE1 : 1 ≤ E := by omega
  have hlen1 : 1 ≤ len := by omega
  rw [rnd_unfold sbit m e len E hm hlen.symm hE.symm]
  clear hE hlen
  have hcmp := fun T hT => rep_cmp (a := a) (d := d) (m := m) (e := e) T hd h hT
  unfold Rep at h
  have hP : 0 < 2^4096 := Nat.two_pow_pos 4096
  have hPE : ∀ E sh e : Nat, E + 4096 = sh + e → 2^E * 2^4096 = 2^sh * 2^e := by
    intro E sh e h; rw [← Nat.pow_add, ← Nat.pow_add, h]
  have hPA : ∀ E : Nat, 2^(E + 4096) = 2^E * 2^4096 := fun E => Nat.pow_add _ _ _
  generalize (2:Nat)^4096 = P at *
  have hdP : 0 < d * P := Nat.mul_pos hd hP
  have back : ∀ p, IsRNEMag (a * P) (d * P) p → IsRNEMag a d p := by
    intro p hp
    exact hp.congr hdP hd (by ac_rfl)
  have hX : 0 < 2^e * d := Nat.mul_pos (Nat.pow_pos (by decide)) hd
  by_cases hA : 4096 + E ≤ e
  · -- exact: shift left
    rw [if_pos hA]
    have hlen53 : len ≤ 53 := by omega
    generalize hk : e - (4096 + E) = k
    have hlk : len + k ≤ 53 := by omega
    have hq : m * 2^k < 2 * P52 := by
      rw [← p53]
      calc m * 2^k < 2^len * 2^k := Nat.mul_lt_mul_of_pos_right hhi (Nat.pow_pos (by decide))
        _ = 2^(len + k) := (Nat.pow_add _ _ _).symm
        _ ≤ 2^53 := Nat.pow_le_pow_right (by decide) hlk
    have hq2 : E = 1 ∨ P52 ≤ m * 2^k := by
      by_cases h1 : E = 1
      · exact Or.inl h1
      · right
        have : len - 1 + k = 52 := by omega
        rw [← p52, ← this, Nat.pow_add]
        exact Nat.mul_le_mul_right _ hlo'
    rw [fin3_eq sbit E _ hE1 hq2]
    refine ⟨_, rfl, back _ ?_⟩
    have hex : a * P * den = m * (2^e * d) := by
      rcases h with h | ⟨_, h55, _, _⟩
      · exact h
      · have : 2^len ≤ 2^55 := Nat.pow_le_pow_right (by decide) (by omega)
        omega
    have he : 2^e = 2^k * (2^E * P) := by
      have : e = k + (E + 4096) := by omega
      rw [this, Nat.pow_add, hPA]
    have hW0 := wp_pack E (m * 2^k) hE1 (by omega) hq2
    have hlo2 : wp ((E - 1) * P52 + m * 2^k) * (d * P) = a * P * den := by
      rw [hW0, hex, he]; ac_rfl
    have hst := wpd_strict (d * P) hdP (Nat.lt_add_one ((E - 1) * P52 + m * 2^k))
    refine bracket (a * P) (d * P) _ _ hdP (by omega) (by omega) (Or.inr ⟨?_, rfl⟩)
    unfold roundUp
    rw [Nat.add_mul]
    omega
  · -- shift right by sh ≥ 1, round on the remainder
    rw [if_neg hA]
    generalize hsh : 4096 + E - e = sh
    have hsh1 : 1 ≤ sh := by omega
    have hlsh : len ≤ sh + 53 := by omega
    have hS : 0 < 2^sh := Nat.two_pow_pos sh
    have hhalf : 2^sh = 2 * 2^(sh - 1) := by
      have : sh = (sh - 1) + 1 := by omega
      rw [this, Nat.pow_succ]; simp only [Nat.add_sub_cancel]; omega
    have hq0 : m / 2^sh * 2^sh ≤ m := Nat.div_mul_le_self m (2^sh)
    have hq1 : m < (m / 2^sh + 1) * 2^sh := by
      have h1 := Nat.div_add_mod m (2^sh)
      have h2 := Nat.mod_lt m hS
      rw [Nat.add_mul, Nat.one_mul, Nat.mul_comm]; omega
    have hq : m / 2^sh < 2 * P52 := by
      rw [← p53, Nat.div_lt_iff_lt_mul hS, ← Nat.pow_add]
      exact Nat.lt_of_lt_of_le hhi (Nat.pow_le_pow_right (by decide) (by omega))
    have hq2 : E = 1 ∨ P52 ≤ m / 2^sh := by
      by_cases h1 : E = 1
      · exact Or.inl h1
      · right
        have : len - 1 = 52 + sh := by omega
        rw [← p52, Nat.le_div_iff_mul_le hS, ← Nat.pow_add, ← this]
        exact hlo'
    generalize hqd : m / 2^sh = q at *
    -- scaled comparisons
    have hsc := hPE E sh e (by omega)
    have S0 := scale_eq q E P sh e d hsc
    have S1 := scale_eq (q + 1) E P sh e d hsc
    have hW0 := wp_pack E q hE1 (by omega) hq2
    have hW1 := wp_pack E (q + 1) hE1 (by omega) (by omega)
    have hp1 : (E - 1) * P52 + q + 1 = (E - 1) * P52 + (q + 1) := by omega
    -- thresholds in units of m
    have hsh3 : (a * P * den = m * (2^e * d)) ∨ 3 ≤ sh := by
      rcases h with h | ⟨_, h55, _, _⟩
      · exact Or.inl h
      · right
        apply Classical.byContradiction
        intro hn
        have : 2^len ≤ 2^55 := Nat.pow_le_pow_right (by decide) (by omega)
        omega
    have hev : ∀ T c, T = c * 2^(sh - 1) → (a * P * den = m * (2^e * d)) ∨ T % 2 = 0 := by
      intro T c hT
      rcases hsh3 with h | h3
      · exact Or.inl h
      · right
        have : sh - 1 = (sh - 2) + 1 := by omega
        rw [hT, this, Nat.pow_succ, ← Nat.mul_assoc]; omega
    have c0 := hcmp (q * 2^sh) (hev _ (q * 2) (by rw [hhalf, Nat.mul_assoc]))
    have c1 := hcmp ((q + 1) * 2^sh) (hev _ ((q + 1) * 2) (by rw [hhalf, Nat.mul_assoc]))
    have ch := hcmp ((2 * q + 1) * 2^(sh - 1)) (hev _ (2 * q + 1) rfl)
    -- products as atoms
    have e1 : (q + 1) * 2^sh * (2^e * d) = q * 2^sh * (2^e * d) + 2 * (2^(sh - 1) * (2^e * d)) := by
      rw [hhalf, Nat.add_mul, Nat.add_mul, Nat.one_mul, Nat.mul_assoc 2]
    have eh : (2 * q + 1) * 2^(sh - 1) * (2^e * d) = q * 2^sh * (2^e * d) + 2^(sh - 1) * (2^e * d) := by
      rw [hhalf, Nat.add_mul, Nat.add_mul, Nat.one_mul]
      congr 1
      ac_rfl
    have t1 : (q + 1) * 2^sh = q * 2^sh + 2 * 2^(sh - 1) := by
      rw [hhalf, Nat.add_mul, Nat.one_mul]
    have th : (2 * q + 1) * 2^(sh - 1) = q * 2^sh + 2^(sh - 1) := by
      rw [hhalf, Nat.add_mul, Nat.one_mul]; congr 1; ac_rfl
    have hpar : ((E - 1) * P52 + q) % 2 = q % 2 := by
      show ((E - 1) * 4503599627370496 + q) % 2 = q % 2
      omega
    have hlo2 : wp ((E - 1) * P52 + q) * (d * P) ≤ a * P * den := by
      rw [hW0, S0]; omega
    have hhi2 : a * P * den < wp ((E - 1) * P52 + q + 1) * (d * P) := by
      rw [hp1, hW1, S1]; omega
    by_cases hC : 2^(sh - 1) < m - q * 2^sh ∨ (m - q * 2^sh = 2^(sh - 1) ∧ q % 2 = 1)
    · rw [if_pos hC, fin3_eq sbit E _ hE1 (by omega)]
      refine ⟨_, rfl, back _ ?_⟩
      refine bracket (a * P) (d * P) ((E - 1) * P52 + q) _ hdP hlo2 hhi2 (Or.inl ⟨?_, by rw [hp1]⟩)
      unfold roundUp
      rw [Nat.add_mul, hp1, hW0, hW1, S0, S1, hpar]
      omega
    · rw [if_neg hC, fin3_eq sbit E _ hE1 hq2]
      refine ⟨_, rfl, back _ ?_⟩
      refine bracket (a * P) (d * P) ((E - 1) * P52 + q) _ hdP hlo2 hhi2 (Or.inr ⟨?_, rfl⟩)
      unfold roundUp
      rw [Nat.add_mul, hp1, hW0, hW1, S0, S1, hpar]
      omega

/-- zero significand: the signed zero -/
theorem rnd_zero (sbit e : Nat) : F64.rnd sbit 0 e = sbit := by
  unfold F64.rnd
  rw [flet_eq, flet_eq]
  rfl

end IEEE
