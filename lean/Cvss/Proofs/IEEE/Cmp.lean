import Cvss.Proofs.IEEE.Neg
/-!
# `F64.eq`, `F64.min`, `F64.max` on finite operands (`F64.lt`, `F64.le` are in `Proofs/F64Order.lean`)
-/
namespace IEEE
open Spec F64Order

theorem p64_pow : P64 = 2^64 := by decide

/-- the signed key of `F64Order` is the value, on finite patterns -/
theorem sval_fin (x : Nat) (vx : Int) (hx : x < 2^64) (h : F64Val.ofBits x = .fin vx) : sval x = vx := by
  have hn : F64.isNaN x = false := by
    cases hh : F64.isNaN x
    · rfl
    · rw [(ofBits_nan_iff x).mpr hh] at h; cases h
  rcases ofBits_cases x (by rw [p64_pow]; exact hx) hn with ⟨a, _, _⟩ | ⟨a, _⟩ | ⟨a, _⟩
  · rw [h] at a; exact (F64Val.fin.inj a).symm
  · rw [h] at a; cases a
  · rw [h] at a; cases a

theorem isFin2_true (x y : Nat) (hx : F64.ebits x < 2047) (hy : F64.ebits y < 2047) :
    F64.isFin2 x y = true := by
  unfold F64.isFin2; exact fin2_true x y hx hy

/-- equal values: identical patterns, or two zeros -/
theorem val_eq_iff (x y : Nat) (vx vy : Int) (hx : x < 2^64) (hy : y < 2^64)
    (hvx : F64Val.ofBits x = .fin vx) (hvy : F64Val.ofBits y = .fin vy) :
    vx = vy ↔ (x = y ∨ (x % P63 = 0 ∧ y % P63 = 0)) := by
  obtain ⟨_, dx⟩ := decode x vx hx hvx
  obtain ⟨_, dy⟩ := decode y vy hy hvy
  have hzx := dx.mod_zero_iff
  have hzy := dy.mod_zero_iff
  have hvzx := dec_zero_iff dx
  have hvzy := dec_zero_iff dy
  constructor
  · intro h
    by_cases h0 : vx = 0
    · right; exact ⟨hzx.mpr (hvzx.mp h0), hzy.mpr (hvzy.mp (h ▸ h0))⟩
    · left
      have e1 := dx.val; have e2 := dy.val
      rw [← dx.wp_eq] at e1; rw [← dy.wp_eq] at e2
      have hsx := dx.s_le; have hsy := dy.s_le
      have hw : wp ((F64.exf (F64.ebits x) - 1) * P52 + F64.mant x (F64.ebits x)) =
          wp ((F64.exf (F64.ebits y) - 1) * P52 + F64.mant y (F64.ebits y)) := by
        rw [e1, e2] at h; split at h <;> split at h <;> omega
      have hp : (F64.exf (F64.ebits x) - 1) * P52 + F64.mant x (F64.ebits x) =
          (F64.exf (F64.ebits y) - 1) * P52 + F64.mant y (F64.ebits y) := by
        have a := wp_le_iff ((F64.exf (F64.ebits x) - 1) * P52 + F64.mant x (F64.ebits x))
          ((F64.exf (F64.ebits y) - 1) * P52 + F64.mant y (F64.ebits y))
        have b := wp_le_iff ((F64.exf (F64.ebits y) - 1) * P52 + F64.mant y (F64.ebits y))
          ((F64.exf (F64.ebits x) - 1) * P52 + F64.mant x (F64.ebits x))
        omega
      have hs : sgn x = sgn y := by
        rw [e1, e2, hw] at h
        rw [e1] at h0
        have : sgn x = 0 ∨ sgn x = 1 := by omega
        have : sgn y = 0 ∨ sgn y = 1 := by omega
        split at h <;> split at h <;> split at h0 <;> omega
      rw [dx.bits, dy.bits, hs, hp]
  · intro h
    rcases h with h | ⟨h1, h2⟩
    · subst h; rw [hvx] at hvy; exact F64Val.fin.inj hvy
    · rw [hvzx.mpr (hzx.mp h1), hvzy.mpr (hzy.mp h2)]

/-- **`F64.eq` is numeric equality** of the values (`−0 = +0`), for finite operands -/
theorem eq_spec (x y : Nat) (vx vy : Int) (hx : x < 2^64) (hy : y < 2^64)
    (hvx : F64Val.ofBits x = .fin vx) (hvy : F64Val.ofBits y = .fin vy) :
    F64.eq x y = decide (vx = vy) := by
  obtain ⟨hex, _⟩ := decode x vx hx hvx
  obtain ⟨hey, _⟩ := decode y vy hy hvy
  unfold F64.eq
  rw [flet_eq, flet_eq, isFin2_true x y hex hey, cond_true]
  unfold F64.mag
  rw [Bool.eq_iff_iff, decide_eq_true_iff, val_eq_iff x y vx vy hx hy hvx hvy, Bool.or_eq_true,
    Bool.and_eq_true, nbeq, nbeq, nbeq]
  rfl

theorem ltF_val (x y : Nat) (vx vy : Int) (hx : x < 2^64) (hy : y < 2^64)
    (hvx : F64Val.ofBits x = .fin vx) (hvy : F64Val.ofBits y = .fin vy) :
    F64.ltF x y = true ↔ vx < vy := by
  rw [ltF_iff x y (by rw [p64_pow]; exact hx) (by rw [p64_pow]; exact hy),
    sval_fin x vx hx hvx, sval_fin y vy hy hvy]

/-- **`F64.min` is Go's `math.Min`** on finite operands: the smaller value; of two zeros, `−0` if there is one -/
theorem min_spec (x y : Nat) (vx vy : Int) (hx : x < 2^64) (hy : y < 2^64)
    (hvx : F64Val.ofBits x = .fin vx) (hvy : F64Val.ofBits y = .fin vy) :
    F64.min x y = if vx < vy then x else if vy < vx then y else if signBit x = 1 then x else y := by
  obtain ⟨hex, dx⟩ := decode x vx hx hvx
  obtain ⟨hey, dy⟩ := decode y vy hy hvy
  have hlt := ltF_val x y vx vy hx hy hvx hvy
  have heq := val_eq_iff x y vx vy hx hy hvx hvy
  have hzx := (dec_zero_iff dx).trans dx.mod_zero_iff.symm
  have hzy := (dec_zero_iff dy).trans dy.mod_zero_iff.symm
  unfold F64.min
  rw [flet_eq, flet_eq, isFin2_true x y hex hey, cond_true]
  unfold F64.mag
  rw [nmod, nmod]
  have hP : F64.P63 = P63 := rfl
  rw [hP]
  by_cases hz : x % P63 = 0 ∧ y % P63 = 0
  · have e1 : (Nat.beq (x % P63) 0 && Nat.beq (y % P63) 0) = true := by
      rw [Bool.and_eq_true, nbeq, nbeq]; exact hz
    rw [e1, cond_true, cond_ble]
    have h1 : vx = 0 := hzx.mpr hz.1
    have h2 : vy = 0 := hzy.mpr hz.2
    rw [h1, h2, if_neg (show ¬ (0:Int) < 0 by omega), if_neg (show ¬ (0:Int) < 0 by omega)]
    have : P63 ≤ x ↔ signBit x = 1 := by unfold signBit; simp only [P63]; omega
    by_cases h : P63 ≤ x
    · rw [if_pos h, if_pos (this.mp h)]
    · rw [if_neg h, if_neg (fun h' => h (this.mpr h'))]
  · have e1 : (Nat.beq (x % P63) 0 && Nat.beq (y % P63) 0) = false := by
      cases hb : (Nat.beq (x % P63) 0 && Nat.beq (y % P63) 0)
      · rfl
      · rw [Bool.and_eq_true, nbeq, nbeq] at hb; exact absurd hb hz
    rw [e1, cond_false]
    by_cases h : vx < vy
    · rw [hlt.mpr h, cond_true, if_pos h]
    · have : F64.ltF x y = false := by
        cases hb : F64.ltF x y
        · rfl
        · exact absurd (hlt.mp hb) h
      rw [this, cond_false, if_neg h]
      by_cases h2 : vy < vx
      · rw [if_pos h2]
      · rw [if_neg h2]
        have : vx = vy := by omega
        rcases heq.mp this with h | h
        · subst h; split <;> rfl
        · exact absurd h hz

theorem signBit_le (x : Nat) : signBit x ≤ 1 := by unfold signBit; omega

/-- **`F64.max` is Go's `math.Max`** on finite operands: the larger value; of two zeros, `+0` if there is one -/
theorem max_spec (x y : Nat) (vx vy : Int) (hx : x < 2^64) (hy : y < 2^64)
    (hvx : F64Val.ofBits x = .fin vx) (hvy : F64Val.ofBits y = .fin vy) :
    F64.max x y = if vy < vx then x else if vx < vy then y else if signBit x = 0 then x else y := by
  obtain ⟨hnx, hsx, _, _⟩ := neg_fields x hx
  obtain ⟨hny, _, _, _⟩ := neg_fields y hy
  unfold F64.max
  rw [min_spec (F64.neg x) (F64.neg y) (-vx) (-vy) hnx hny (neg_fin x vx hx hvx) (neg_fin y vy hy hvy), hsx]
  have := signBit_le x
  by_cases h1 : vy < vx
  · rw [if_pos (by omega), if_pos h1, neg_neg x hx]
  · rw [if_neg (by omega), if_neg h1]
    by_cases h2 : vx < vy
    · rw [if_pos (by omega), if_pos h2, neg_neg y hy]
    · rw [if_neg (by omega), if_neg h2]
      by_cases h3 : signBit x = 0
      · rw [if_pos (by omega), if_pos h3, neg_neg x hx]
      · rw [if_neg (by omega), if_neg h3, neg_neg y hy]

end IEEE
