import Cvss.Proofs.IEEE.Spec
/-!
# Sanity of the specification: `IsRNE` determines its result
-/
namespace IEEE
open Spec F64Order

/-- split a 64-bit pattern into sign and sign-less part -/
theorem split63 (r : Nat) (hr : r < 2^64) : r = (r / P63) * P63 + r % P63 ∧ r / P63 ≤ 1 ∧ r % P63 < P63 := by
  simp only [P63]; omega

theorem nan_of_gt (s p : Nat) (_hs : s ≤ 1) (hp : PINF < p) (hp2 : p < P63) :
    F64Val.ofBits (s * P63 + p) = .nan := by
  rw [ofBits_nan_iff, isNaN_iff]
  unfold Spec.expField Spec.fracField
  simp only [P63, PINF] at *
  omega

/-- **from the declarative predicate back to the magnitude formulation** -/
theorem IsRNE.mag {n : Int} {d r : Nat} (hd : 0 < d) (h : IsRNE n d r) :
    IsRNEMag n.natAbs d (r % P63) ∧ (n < 0 → r / P63 = 1) ∧ (0 < n → r / P63 = 0) := by
  obtain ⟨hsplit, hs, hp63⟩ := split63 r h.bits
  generalize hsd : r / P63 = s at *
  generalize hpd : r % P63 = p at *
  have hsign : (n < 0 → s = 1) ∧ (0 < n → s = 0) := by
    have hsb : signBit r = s := by
      rw [hsplit]; unfold signBit; simp only [P63] at *; omega
    rw [← hsb]; exact h.sign
  refine ⟨?_, hsign⟩
  have hn : n = if s = 0 then ((n.natAbs : Nat) : Int) else -((n.natAbs : Nat) : Int) := by
    have : s = 0 ∨ s = 1 := by omega
    rcases this with rfl | rfl <;> simp <;> omega
  generalize n.natAbs = a at *
  have hmid : wp (PINF - 1) * d + wp PINF * d = 2 * ((ovf * d) * den) := by
    rw [← Nat.add_mul, ovf_mid, ← den_eq]; generalize ovf = O; generalize den = D; ac_rfl
  have hs1 := wpd_strict d hd (show PINF - 1 < PINF by decide)
  have hdp := den_pos
  have hcmp : (ovf * d ≤ a → (ovf * d) * den ≤ a * den) ∧ (a < ovf * d → a * den < (ovf * d) * den) :=
    ⟨fun h => Nat.mul_le_mul_right _ h, fun h => Nat.mul_lt_mul_of_pos_right h hdp⟩
  have hs01 : s = 0 ∨ s = 1 := by omega
  rcases Nat.lt_trichotomy p PINF with hlt | heq | hgt
  · -- finite result
    have hob := ofBits_pack s p hs hlt
    rw [← hsplit] at hob
    have hnear := h.nearest _ hob
    have heven := h.even _ hob
    have hsame : ∀ q, q < PINF → adist (wp p * d) (a * den) ≤ adist (wp q * d) (a * den) ∧
        (q ≠ p → adist (wp p * d) (a * den) = adist (wp q * d) (a * den) → p % 2 = 0) := by
      intro q hq
      have h1 := hnear (s * P63 + q) _ (ofBits_pack s q hs hq)
      have h2 := heven (s * P63 + q) _ (ofBits_pack s q hs hq)
      rw [hn, dist_same, dist_same] at h1
      rw [hn, dist_same, dist_same] at h2
      refine ⟨h1, fun hne heq => ?_⟩
      have hw : wp q ≠ wp p := by
        intro hw
        rcases Nat.lt_or_gt_of_ne hne with h | h
        · have := wp_strict h; omega
        · have := wp_strict h; omega
      have hr2 : r % 2 = 0 := by
        apply h2 _ heq
        rcases hs01 with rfl | rfl <;> simp <;> omega
      have := p63_even
      rw [hsplit] at hr2
      generalize P63 = X at *
      rcases hs01 with rfl | rfl <;> omega
    -- below the overflow threshold
    have hnov : a < ovf * d := by
      have h1 := h.posInf
      have h2 := h.negInf
      rw [hob] at h1 h2
      simp at h1 h2
      rcases hs01 with rfl | rfl
      · simp at hn; omega
      · simp at hn; omega
    have hmax := (hsame (PINF - 1) (by decide)).1
    refine ⟨by omega, ?_, ?_⟩
    · intro q hq
      by_cases hqp : q = PINF
      · subst hqp
        have := hcmp.2 hnov
        generalize ovf * d = OD at *
        unfold adist at hmax ⊢
        omega
      · exact (hsame q (by omega)).1
    · intro q hq hne
      by_cases hqp : q = PINF
      · subst hqp
        have := hcmp.2 hnov
        generalize ovf * d = OD at *
        unfold adist at hmax ⊢
        omega
      · exact (hsame q (by omega)).2 hne
  · -- infinite result
    subst heq
    have hob := ofBits_pack_inf s hs
    rw [← hsplit] at hob
    have hov : ovf * d ≤ a := by
      have h1 := h.posInf
      have h2 := h.negInf
      rw [hob] at h1 h2
      rcases hs01 with rfl | rfl
      · simp at h1 hn; omega
      · simp at h2 hn; omega
    have := hcmp.1 hov
    refine ⟨Nat.le_refl _, ?_, fun _ _ _ _ => pinf_even⟩
    intro q hq
    by_cases hqp : q = PINF
    · subst hqp; exact Nat.le_refl _
    · have := wpd_mono d (show q ≤ PINF - 1 by omega)
      generalize ovf * d = OD at *
      unfold adist
      omega
  · -- would be a NaN
    exact absurd (by rw [hsplit]; exact nan_of_gt s p hs hgt hp63) h.notNaN

/-- **uniqueness of the correctly rounded result**: the value is determined, and so is the bit pattern
    unless the exact value is zero (where `+0` and `−0` both qualify) -/
theorem IsRNE.unique {n : Int} {d r r' : Nat} (hd : 0 < d) (h : IsRNE n d r) (h' : IsRNE n d r') :
    F64Val.ofBits r = F64Val.ofBits r' ∧ (n ≠ 0 → r = r') ∧ r % 2^63 = r' % 2^63 := by
  obtain ⟨m1, s1, s1'⟩ := h.mag hd
  obtain ⟨m2, s2, s2'⟩ := h'.mag hd
  have hp := m1.unique hd m2
  obtain ⟨e1, l1, _⟩ := split63 r h.bits
  obtain ⟨e2, l2, _⟩ := split63 r' h'.bits
  have hne : n ≠ 0 → r = r' := by
    intro hn
    have : r / P63 = r' / P63 := by
      rcases Int.lt_or_gt_of_ne hn with h | h
      · rw [s1 h, s2 h]
      · rw [s1' h, s2' h]
    rw [e1, e2, this, hp]
  have hP : (2:Nat)^63 = P63 := by decide
  refine ⟨?_, hne, by rw [hP]; exact hp⟩
  by_cases hn : n = 0
  · -- both are zeros
    subst hn
    have hz : IsRNEMag 0 d 0 := by
      have h := IsRNEMag.exact 0 (by decide)
      rw [wp_zero] at h
      exact h.congr den_pos hd (by omega)
    have z1 : r % P63 = 0 := m1.unique hd hz
    have z2 : r' % P63 = 0 := m2.unique hd hz
    rw [e1, e2, z1, z2, ofBits_pack _ 0 l1 (by decide), ofBits_pack _ 0 l2 (by decide), wp_zero]
    congr 1
    split <;> split <;> rfl
  · rw [hne hn]

end IEEE
