import Cvss.Proofs.IEEE.Add
/-!
# `F64.neg`, `F64.abs` are exact sign operations; `F64.sub` is the correctly rounded difference
-/
namespace IEEE
open Spec F64Order

theorem neg_eq (x : Nat) : F64.neg x = if P63 ≤ x then x - P63 else x + P63 := by
  unfold F64.neg; rw [cond_ble]; rfl

/-- `F64.neg` flips the sign bit and nothing else -/
theorem neg_fields (x : Nat) (hx : x < 2^64) :
    F64.neg x < 2^64 ∧ signBit (F64.neg x) = 1 - signBit x ∧
    expField (F64.neg x) = expField x ∧ fracField (F64.neg x) = fracField x := by
  rw [neg_eq]
  unfold signBit expField fracField
  by_cases h : P63 ≤ x
  · rw [if_pos h]; simp only [P63] at *; omega
  · rw [if_neg h]; simp only [P63] at *; omega

/-- decoding as a function of the three fields -/
def decF (s e f : Nat) : F64Val :=
  if e = 2047 then (if f = 0 then (if s = 0 then .posInf else .negInf) else .nan)
  else .fin (if s = 0 then ((if e = 0 then f * 2 else (2^52 + f) * 2^e : Nat) : Int)
             else -((if e = 0 then f * 2 else (2^52 + f) * 2^e : Nat) : Int))

theorem ofBits_decF (x : Nat) : F64Val.ofBits x = decF (signBit x) (expField x) (fracField x) := rfl

def negV : F64Val → F64Val
  | .fin v => .fin (-v) | .posInf => .negInf | .negInf => .posInf | .nan => .nan
def absV : F64Val → F64Val
  | .fin v => .fin (v.natAbs : Int) | .posInf => .posInf | .negInf => .posInf | .nan => .nan

theorem decF_neg (s e f : Nat) (hs : s ≤ 1) : decF (1 - s) e f = negV (decF s e f) := by
  have : s = 0 ∨ s = 1 := by omega
  unfold decF
  rcases this with rfl | rfl <;> by_cases he : e = 2047 <;> by_cases hf : f = 0 <;>
    simp [he, hf, negV]

theorem decF_abs (s e f : Nat) (hs : s ≤ 1) : decF 0 e f = absV (decF s e f) := by
  have : s = 0 ∨ s = 1 := by omega
  unfold decF
  rcases this with rfl | rfl <;> by_cases he : e = 2047 <;> by_cases hf : f = 0 <;>
    simp [he, hf, absV]

/-- **negation is exact**: finite `v ↦ −v`, `±∞ ↦ ∓∞`, NaN ↦ NaN -/
theorem neg_val (x : Nat) (hx : x < 2^64) : F64Val.ofBits (F64.neg x) = negV (F64Val.ofBits x) := by
  obtain ⟨_, hs, he, hf⟩ := neg_fields x hx
  rw [ofBits_decF, ofBits_decF, hs, he, hf]
  exact decF_neg _ _ _ (by unfold signBit; omega)

theorem neg_fin (x : Nat) (v : Int) (hx : x < 2^64) (h : F64Val.ofBits x = .fin v) :
    F64Val.ofBits (F64.neg x) = .fin (-v) := by
  rw [neg_val x hx, h]; rfl

theorem neg_neg (x : Nat) (hx : x < 2^64) : F64.neg (F64.neg x) = x := by
  rw [neg_eq, neg_eq]
  by_cases h : P63 ≤ x
  · rw [if_pos h, if_neg (by simp only [P63] at *; omega)]; omega
  · rw [if_neg h, if_pos (by omega)]; omega

/-- `F64.abs` clears the sign bit and nothing else -/
theorem abs_fields (x : Nat) :
    F64.abs x < 2^63 ∧ signBit (F64.abs x) = 0 ∧
    expField (F64.abs x) = expField x ∧ fracField (F64.abs x) = fracField x := by
  unfold F64.abs
  rw [nmod]
  unfold signBit expField fracField
  simp only [F64.P63]
  omega

/-- **absolute value is exact**: finite `v ↦ |v|`, `±∞ ↦ +∞`, NaN ↦ NaN -/
theorem abs_val (x : Nat) : F64Val.ofBits (F64.abs x) = absV (F64Val.ofBits x) := by
  obtain ⟨_, hs, he, hf⟩ := abs_fields x
  rw [ofBits_decF, ofBits_decF, hs, he, hf]
  exact decF_abs _ _ _ (by unfold signBit; omega)

/-- **subtraction**: for finite `x`, `y`, `F64.sub x y` is the round-to-nearest-even image of the exact
    difference; an exact zero difference is `+0`, except `(−0) − (+0) = −0`. -/
theorem sub_rne (x y : Nat) (vx vy : Int) (hx : x < 2^64) (hy : y < 2^64)
    (hvx : F64Val.ofBits x = .fin vx) (hvy : F64Val.ofBits y = .fin vy) :
    IsRNE (vx - vy) den (F64.sub x y) ∧
    (vx - vy = 0 → F64.sub x y = if signBit x = 1 ∧ signBit y = 0 then 2^63 else 0) := by
  obtain ⟨hn, hs, _, _⟩ := neg_fields y hy
  have := add_rne x (F64.neg y) vx (-vy) hx hn hvx (neg_fin y vy hy hvy)
  rw [hs, ← Int.sub_eq_add_neg] at this
  unfold F64.sub
  have hsb : signBit y = 0 ∨ signBit y = 1 := by unfold signBit; omega
  refine ⟨this.1, fun h => ?_⟩
  rw [this.2 h]
  rcases hsb with h | h <;> rw [h] <;> simp

end IEEE
