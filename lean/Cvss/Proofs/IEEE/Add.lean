import Cvss.Proofs.IEEE.Div
/-!
# `F64.add` is the correctly rounded sum, for all finite operands (shortcuts and signed zeros included)
-/
namespace IEEE
open Spec F64Order
/-- **an exactly representable value rounds to itself** (bit pattern included, so `−0` stays `−0`) -/
theorem isRNE_self {x : Nat} {vx : Int} {s E m : Nat} (h : Dec x vx s E m) : IsRNE vx den x := by
  have hW := h.wp_eq
  have hlt := h.pat_lt
  have hn : vx = if s = 0 then ((wp ((E - 1) * P52 + m) : Nat) : Int) else -((wp ((E - 1) * P52 + m) : Nat) : Int) := by
    rw [hW]; exact h.val
  have := isRNE_of_mag s _ den _ vx h.s_le den_pos hn (IsRNEMag.exact _ (by omega))
  rw [← h.bits] at this
  exact this

theorem rep_add (m e : Nat) : Rep (m * 2^e) den m (e + 4096) := by
  apply rep_exact
  rw [Nat.pow_add, h4096]
  generalize den = D; generalize (2:Nat)^3021 = Q
  ac_rfl

theorem p63_inj (a b : Nat) : (a * P63 = b * P63) ↔ a = b := by
  simp only [P63]; omega

theorem addC_eq (sx sy e a b : Nat) :
    F64.addC (sx * P63) (sy * P63) e a b =
      if sx = sy then (if a + b = 0 then sx * P63 else F64.rnd (sx * P63) (a + b) (e + 4096))
      else if a = b then 0
      else if b < a then F64.rnd (sx * P63) (a - b) (e + 4096) else F64.rnd (sy * P63) (b - a) (e + 4096) := by
  unfold F64.addC
  simp only [cond_beq, cond_blt, Nat.add_eq, Nat.sub_eq, p63_inj]

/-- signed value `σ·v` -/
def sv (s : Nat) (v : Nat) : Int := if s = 0 then (v : Int) else -(v : Int)

/-- the aligned addition: exact sum of `σx·a·2^e` and `σy·b·2^e`, rounded; zero sums get the IEEE sign -/
theorem addC_rne (sx sy e a b : Nat) (hsx : sx ≤ 1) (hsy : sy ≤ 1) :
    IsRNE (sv sx (a * 2^e) + sv sy (b * 2^e)) den (F64.addC (sx * P63) (sy * P63) e a b) ∧
    (sv sx (a * 2^e) + sv sy (b * 2^e) = 0 →
      F64.addC (sx * P63) (sy * P63) e a b = if sx = 1 ∧ sy = 1 then P63 else 0) := by
  have hp : 0 < 2^e := Nat.two_pow_pos e
  have hdp := den_pos
  rw [addC_eq]
  have rndcase : ∀ s m n, s ≤ 1 → 0 < m → n = sv s (m * 2^e) →
      IsRNE n den (F64.rnd (s * P63) m (e + 4096)) := by
    intro s m n hs hm hn
    obtain ⟨p, hp, hr⟩ := rnd_rne (s * P63) m (e + 4096) _ _ hm hdp (rep_add m e)
    rw [hp]
    exact isRNE_of_mag s _ _ p n hs hdp hn hr
  have zerocase : ∀ s, s ≤ 1 → IsRNE 0 den (s * P63) := by
    intro s hs
    have := isRNE_of_mag s 0 den 0 0 hs hdp (by simp) (IsRNEMag.zero _ hdp)
    rw [Nat.add_zero] at this
    exact this
  have hpos : ∀ m, 0 < m → 0 < m * 2^e := fun m hm => Nat.mul_pos hm hp
  have hs01 : sx = 0 ∨ sx = 1 := by omega
  have hs01' : sy = 0 ∨ sy = 1 := by omega
  by_cases hs : sx = sy
  · subst hs
    rw [if_pos rfl]
    by_cases h0 : a + b = 0
    · have ha : a = 0 := by omega
      have hb : b = 0 := by omega
      subst ha; subst hb
      rw [if_pos rfl]
      have : sv sx (0 * 2^e) + sv sx (0 * 2^e) = 0 := by unfold sv; simp
      rw [this]
      refine ⟨zerocase sx hsx, fun _ => ?_⟩
      rcases hs01 with rfl | rfl <;> simp
    · rw [if_neg h0]
      have hn : sv sx (a * 2^e) + sv sx (b * 2^e) = sv sx ((a + b) * 2^e) := by
        unfold sv; rw [Nat.add_mul]; split <;> omega
      have := hpos (a + b) (by omega)
      refine ⟨rndcase sx (a + b) _ hsx (by omega) hn, fun hz => ?_⟩
      rw [hn] at hz; unfold sv at hz; split at hz <;> omega
  · rw [if_neg hs]
    by_cases hab : a = b
    · subst hab
      rw [if_pos rfl]
      have : sv sx (a * 2^e) + sv sy (a * 2^e) = 0 := by
        unfold sv; rcases hs01 with rfl | rfl <;> rcases hs01' with rfl | rfl <;> simp at hs ⊢ <;> omega
      rw [this]
      have h0 := zerocase 0 (by decide)
      rw [Nat.zero_mul] at h0
      refine ⟨h0, fun _ => ?_⟩
      rw [if_neg (by omega)]
    · rw [if_neg hab]
      by_cases hlt : b < a
      · rw [if_pos hlt]
        have hn : sv sx (a * 2^e) + sv sy (b * 2^e) = sv sx ((a - b) * 2^e) := by
          unfold sv; rw [Nat.sub_mul]
          have : b * 2^e ≤ a * 2^e := Nat.mul_le_mul_right _ (by omega)
          generalize a * 2^e = A at *; generalize b * 2^e = B at *
          rcases hs01 with rfl | rfl <;> rcases hs01' with rfl | rfl <;> simp at hs ⊢ <;> omega
        have := hpos (a - b) (by omega)
        refine ⟨rndcase sx (a - b) _ hsx (by omega) hn, fun hz => ?_⟩
        rw [hn] at hz; unfold sv at hz; split at hz <;> omega
      · rw [if_neg hlt]
        have hn : sv sx (a * 2^e) + sv sy (b * 2^e) = sv sy ((b - a) * 2^e) := by
          unfold sv; rw [Nat.sub_mul]
          have : a * 2^e ≤ b * 2^e := Nat.mul_le_mul_right _ (by omega)
          generalize a * 2^e = A at *; generalize b * 2^e = B at *
          rcases hs01 with rfl | rfl <;> rcases hs01' with rfl | rfl <;> simp at hs ⊢ <;> omega
        have := hpos (b - a) (by omega)
        refine ⟨rndcase sy (b - a) _ hsy (by omega) hn, fun hz => ?_⟩
        rw [hn] at hz; unfold sv at hz; split at hz <;> omega


/-- the double just below a normal `px` is at least half an ulp of `px` away -/
theorem pred_gap (Ex mx : Nat) (hEx : 2 ≤ Ex) (h1 : P52 ≤ mx) (h2 : mx < 2 * P52) :
    wp ((Ex - 1) * P52 + mx - 1) + 2^(Ex - 1) ≤ mx * 2^Ex := by
  have hG : 2^Ex = 2 * 2^(Ex - 1) := by
    have : Ex = (Ex - 1) + 1 := by omega
    rw [this, Nat.pow_succ]; simp only [Nat.add_sub_cancel]; omega
  by_cases hm : mx = P52
  · subst hm
    have e : (Ex - 1) * P52 + P52 - 1 = (Ex - 1 - 1) * P52 + (2 * P52 - 1) := by
      simp only [P52]; omega
    rw [e, wp_pack (Ex - 1) (2 * P52 - 1) (by omega) (by omega) (by right; simp only [P52]; omega), hG]
    have : (2 * P52 - 1) * 2^(Ex - 1) + 2^(Ex - 1) = 2 * P52 * 2^(Ex - 1) := by
      have : 2 * P52 = (2 * P52 - 1) + 1 := by simp only [P52]
      rw [this, Nat.add_mul, Nat.one_mul]; simp only [Nat.add_sub_cancel]
    rw [this]
    have : P52 * (2 * 2^(Ex - 1)) = 2 * P52 * 2^(Ex - 1) := by ac_rfl
    omega
  · have e : (Ex - 1) * P52 + mx - 1 = (Ex - 1) * P52 + (mx - 1) := by omega
    rw [e, wp_pack Ex (mx - 1) (by omega) (by omega) (by right; omega)]
    have : mx * 2^Ex = (mx - 1) * 2^Ex + 2^Ex := by
      have : mx = (mx - 1) + 1 := by omega
      rw [this, Nat.add_mul, Nat.one_mul]; simp only [Nat.add_sub_cancel]
    omega

/-- exponent gap ≥ 56: the sum rounds to the larger operand -/
theorem far_rne (sx sy Ex mx Ey my : Nat) (hsx : sx ≤ 1) (hsy : sy ≤ 1) (hE : Ey + 56 ≤ Ex)
    (hEx : Ex ≤ 2046) (h1 : P52 ≤ mx) (h2 : mx < 2 * P52) (hmy0 : 0 < my) (hmy : my < 2 * P52) :
    IsRNE (sv sx (mx * 2^Ex) + sv sy (my * 2^Ey)) den (sx * P63 + ((Ex - 1) * P52 + mx)) := by
  have hD := den_pos
  have hG : 2^Ex = 2 * 2^(Ex - 1) := by
    have : Ex = (Ex - 1) + 1 := by omega
    rw [this, Nat.pow_succ]; simp only [Nat.add_sub_cancel]; omega
  have hδ : 8 * (my * 2^Ey) < 2^Ex := by
    have h3 : my * 2^Ey < 2^53 * 2^Ey := Nat.mul_lt_mul_of_pos_right (by rw [p53]; exact hmy) (Nat.two_pow_pos _)
    have h4 : 8 * (2^53 * 2^Ey) = 2^(Ey + 56) := by
      rw [Nat.pow_add]; generalize (2:Nat)^Ey = Y; omega
    have h5 : 2^(Ey + 56) ≤ 2^Ex := Nat.pow_le_pow_right (by decide) hE
    omega
  have hδ0 : 0 < my * 2^Ey := Nat.mul_pos hmy0 (Nat.two_pow_pos _)
  have hW := wp_pack Ex mx (by omega) (by omega) (Or.inr h1)
  have hW1 := wp_pack Ex (mx + 1) (by omega) (by omega) (Or.inr (by omega))
  have hpg := pred_gap Ex mx (by omega) h1 h2
  have hWG : 2^Ex ≤ mx * 2^Ex := Nat.le_mul_of_pos_left _ (by simp only [P52] at h1; omega)
  have hpx : (Ex - 1) * P52 + mx < PINF := by simp only [P52, PINF] at *; omega
  have hW1' : wp ((Ex - 1) * P52 + mx + 1) = mx * 2^Ex + 2^Ex := by
    rw [Nat.add_assoc, hW1, Nat.add_mul, Nat.one_mul]
  generalize hpxd : (Ex - 1) * P52 + mx = px at *
  generalize mx * 2^Ex = W at *
  generalize my * 2^Ey = δ at *
  generalize (2:Nat)^Ex = G at *
  generalize (2:Nat)^(Ex - 1) = H at *
  by_cases hs : sx = sy
  · -- same sign: W + δ, bracket [px, px+1]
    have hn : sv sx W + sv sy δ = sv sx (W + δ) := by
      subst hs; unfold sv; split <;> omega
    rw [hn]
    refine isRNE_of_mag sx (W + δ) den px _ hsx hD rfl ?_
    refine bracket (W + δ) den px px hD ?_ ?_ (Or.inr ⟨?_, by omega⟩)
    · rw [hW]; exact Nat.mul_le_mul_right _ (by omega)
    · rw [hW1']; exact Nat.mul_lt_mul_of_pos_right (by omega) hD
    · unfold roundUp
      rw [hW, hW1', ← Nat.mul_assoc]
      intro h
      rcases h with h | ⟨h, _⟩
      · exact absurd (Nat.lt_of_mul_lt_mul_right h) (by omega)
      · exact absurd (Nat.eq_of_mul_eq_mul_right hD h) (by omega)
  · -- opposite signs: W − δ, bracket [px−1, px]
    have hn : sv sx W + sv sy δ = sv sx (W - δ) := by
      have h1 : sx = 0 ∨ sx = 1 := by omega
      have h2 : sy = 0 ∨ sy = 1 := by omega
      unfold sv
      rcases h1 with rfl | rfl <;> rcases h2 with rfl | rfl <;> simp at hs ⊢ <;> omega
    rw [hn]
    refine isRNE_of_mag sx (W - δ) den px _ hsx hD rfl ?_
    have hpx1 : px - 1 + 1 = px := by
      have : 0 < px := by rw [← hpxd]; simp only [P52] at *; omega
      omega
    refine bracket (W - δ) den (px - 1) px hD ?_ ?_ (Or.inl ⟨?_, by rw [hpx1]; omega⟩)
    · exact Nat.mul_le_mul_right _ (by omega)
    · rw [hpx1, hW]; exact Nat.mul_lt_mul_of_pos_right (by omega) hD
    · unfold roundUp
      left
      rw [hpx1, hW, ← Nat.mul_assoc]
      exact Nat.mul_lt_mul_of_pos_right (by omega) hD


theorem addB_eq (x y ex ey e : Nat) :
    F64.addB x y ex ey e =
      F64.addC (sgn x * P63) (sgn y * P63) e (F64.mant x ex * 2^(F64.exf ex - e)) (F64.mant y ey * 2^(F64.exf ey - e)) := by
  unfold F64.addB
  simp only [flet_eq, nshl, Nat.sub_eq, Nat.mul_eq]
  rfl

theorem addA_eq (x y ex ey : Nat) :
    F64.addA x y ex ey =
      if y % P63 = 0 then (if x % P63 = 0 then F64.addB x y ex ey 1 else x)
      else if x % P63 = 0 then y
      else if F64.exf ey + 56 ≤ F64.exf ex then x
      else if F64.exf ex + 56 ≤ F64.exf ey then y
      else F64.addB x y ex ey (if F64.exf ex ≤ F64.exf ey then F64.exf ex else F64.exf ey) := by
  unfold F64.addA
  simp only [flet_eq, cond_beq, cond_ble, Nat.add_eq, nmod]
  rfl

theorem add_unfold (x y : Nat) (hx : F64.ebits x < 2047) (hy : F64.ebits y < 2047) :
    F64.add x y = F64.addA x y (F64.ebits x) (F64.ebits y) := by
  unfold F64.add
  simp only [flet_eq]
  rw [fin2_true x y hx hy, cond_true]

theorem Dec.mod_eq {x vx s E m} (h : Dec x vx s E m) : x % P63 = (E - 1) * P52 + m := by
  have := h.pat_lt; have := h.s_le
  rw [h.bits]; simp only [P63, PINF] at *; omega

theorem Dec.mod_zero_iff {x vx s E m} (h : Dec x vx s E m) : x % P63 = 0 ↔ m = 0 := by
  rw [h.mod_eq]
  have := h.norm; have := h.E_ge
  constructor
  · intro h0; omega
  · intro h0; subst h0
    have : E = 1 := by simp only [P52] at *; omega
    subst this; simp

theorem Dec.sv_eq {x vx s E m} (h : Dec x vx s E m) : vx = sv s (m * 2^E) := h.val

theorem shift_back (m E e : Nat) (h : e ≤ E) : m * 2^(E - e) * 2^e = m * 2^E := by
  rw [Nat.mul_assoc, ← Nat.pow_add]; congr 2; omega

theorem p63_pow : P63 = 2^63 := by decide

/-- **addition**: for finite `x`, `y`, `F64.add x y` is the round-to-nearest-even image of the exact sum
    `(vx + vy)/den`; an exact zero sum is `+0`, except `(−0) + (−0) = −0`. -/
theorem add_rne (x y : Nat) (vx vy : Int) (hx : x < 2^64) (hy : y < 2^64)
    (hvx : F64Val.ofBits x = .fin vx) (hvy : F64Val.ofBits y = .fin vy) :
    IsRNE (vx + vy) den (F64.add x y) ∧
    (vx + vy = 0 → F64.add x y = if signBit x = 1 ∧ signBit y = 1 then 2^63 else 0) := by
  obtain ⟨hex, dx⟩ := decode x vx hx hvx
  obtain ⟨hey, dy⟩ := decode y vy hy hvy
  rw [← sgn_eq_signBit x hx, ← sgn_eq_signBit y hy, add_unfold x y hex hey, addA_eq, ← p63_pow]
  have hzx := dx.mod_zero_iff
  have hzy := dy.mod_zero_iff
  have hvzx := dec_zero_iff dx
  have hvzy := dec_zero_iff dy
  have general : ∀ e, 1 ≤ e → e ≤ F64.exf (F64.ebits x) → e ≤ F64.exf (F64.ebits y) →
      (IsRNE (vx + vy) den (F64.addB x y (F64.ebits x) (F64.ebits y) e) ∧
       (vx + vy = 0 → F64.addB x y (F64.ebits x) (F64.ebits y) e = if sgn x = 1 ∧ sgn y = 1 then P63 else 0)) := by
    intro e _ h1 h2
    rw [addB_eq]
    have := addC_rne (sgn x) (sgn y) e (F64.mant x (F64.ebits x) * 2^(F64.exf (F64.ebits x) - e))
      (F64.mant y (F64.ebits y) * 2^(F64.exf (F64.ebits y) - e)) dx.s_le dy.s_le
    rw [shift_back _ _ _ h1, shift_back _ _ _ h2, ← dx.sv_eq, ← dy.sv_eq] at this
    exact this
  by_cases hy0 : y % P63 = 0
  · rw [if_pos hy0]
    by_cases hx0 : x % P63 = 0
    · rw [if_pos hx0]
      have h1 : F64.exf (F64.ebits x) = 1 := by
        have := dx.norm; have := hzx.mp hx0; simp only [P52] at *; omega
      have h2 : F64.exf (F64.ebits y) = 1 := by
        have := dy.norm; have := hzy.mp hy0; simp only [P52] at *; omega
      exact general 1 (by omega) (by omega) (by omega)
    · rw [if_neg hx0]
      have hvy0 : vy = 0 := hvzy.mpr (hzy.mp hy0)
      rw [hvy0, Int.add_zero]
      refine ⟨isRNE_self dx, fun h => ?_⟩
      exact absurd (hzx.mpr (hvzx.mp h)) hx0
  · rw [if_neg hy0]
    by_cases hx0 : x % P63 = 0
    · rw [if_pos hx0]
      have hvx0 : vx = 0 := hvzx.mpr (hzx.mp hx0)
      rw [hvx0, Int.zero_add]
      refine ⟨isRNE_self dy, fun h => ?_⟩
      exact absurd (hzy.mpr (hvzy.mp h)) hy0
    · rw [if_neg hx0]
      have hmx0 : F64.mant x (F64.ebits x) ≠ 0 := fun h => hx0 (hzx.mpr h)
      have hmy0 : F64.mant y (F64.ebits y) ≠ 0 := fun h => hy0 (hzy.mpr h)
      by_cases hf1 : F64.exf (F64.ebits y) + 56 ≤ F64.exf (F64.ebits x)
      · rw [if_pos hf1]
        have hn1 : P52 ≤ F64.mant x (F64.ebits x) := by have := dx.norm; have := dy.E_ge; omega
        have := far_rne (sgn x) (sgn y) _ _ _ _ dx.s_le dy.s_le hf1 dx.E_le hn1 dx.m_lt (by omega) dy.m_lt
        rw [← dx.sv_eq, ← dy.sv_eq, ← dx.bits] at this
        refine ⟨this, fun h => ?_⟩
        -- the sum cannot be zero: |vx| > |vy|
        exfalso
        have hne := this.sign
        have hb := this.nearest
        rw [h] at this
        have hz := this.nearest vx hvx 0 0 (by decide)
        unfold dist at hz
        have hvne : vx ≠ 0 := fun h => hmx0 (hvzx.mp h)
        have hD := den_pos
        generalize den = D at *
        simp at hz
        rcases Int.mul_eq_zero.mp hz with h | h
        · exact hvne h
        · omega
      · rw [if_neg hf1]
        by_cases hf2 : F64.exf (F64.ebits x) + 56 ≤ F64.exf (F64.ebits y)
        · rw [if_pos hf2]
          have hn1 : P52 ≤ F64.mant y (F64.ebits y) := by have := dy.norm; have := dx.E_ge; omega
          have := far_rne (sgn y) (sgn x) _ _ _ _ dy.s_le dx.s_le hf2 dy.E_le hn1 dy.m_lt (by omega) dx.m_lt
          rw [← dx.sv_eq, ← dy.sv_eq, ← dy.bits, Int.add_comm] at this
          refine ⟨this, fun h => ?_⟩
          exfalso
          rw [h] at this
          have hz := this.nearest vy hvy 0 0 (by decide)
          unfold dist at hz
          have hvne : vy ≠ 0 := fun h => hmy0 (hvzy.mp h)
          have hD := den_pos
          generalize den = D at *
          simp at hz
          rcases Int.mul_eq_zero.mp hz with h | h
          · exact hvne h
          · omega
        · rw [if_neg hf2]
          have := dx.E_ge; have := dy.E_ge
          apply general <;> split <;> omega

end IEEE
