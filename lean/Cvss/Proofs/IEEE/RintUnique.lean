import Cvss.Proofs.IEEE.Rint
/-!
# The rounding relations `IsFloor/IsCeil/IsTrunc/IsRoundAway/IsRoundEven` determine their integer
-/
namespace IEEE
open Spec F64Order

theorem step_mul (a b D : Int) (hD : 0 < D) (h : a < b) : a * D + D ≤ b * D := by
  have : (a + 1) * D ≤ b * D := Int.mul_le_mul_of_nonneg_right (by omega) (by omega)
  rw [Int.add_mul, Int.one_mul] at this
  exact this

theorem IsFloor.unique {v K K' : Int} (h : IsFloor v K) (h' : IsFloor v K') : K = K' := by
  have hD : (0:Int) < den := by have := den_pos; omega
  unfold IsFloor at h h'
  rw [Int.add_mul, Int.one_mul] at h h'
  rcases Int.lt_trichotomy K K' with hl | he | hg
  · have := step_mul K K' den hD hl; omega
  · exact he
  · have := step_mul K' K den hD hg; omega

theorem IsCeil.unique {v K K' : Int} (h : IsCeil v K) (h' : IsCeil v K') : K = K' := by
  have hD : (0:Int) < den := by have := den_pos; omega
  unfold IsCeil at h h'
  rw [Int.sub_mul, Int.one_mul] at h h'
  rcases Int.lt_trichotomy K K' with hl | he | hg
  · have := step_mul K K' den hD hl; omega
  · exact he
  · have := step_mul K' K den hD hg; omega

theorem IsRoundEven.unique {v K K' : Int} (h : IsRoundEven v K) (h' : IsRoundEven v K') : K = K' := by
  have hD : (0:Int) < den := by have := den_pos; omega
  unfold IsRoundEven at h h'
  have key : ∀ K K' : Int, K < K' → 2 * (K * den - v).natAbs ≤ den → 2 * (K' * den - v).natAbs ≤ den →
      (2 * (K * den - v).natAbs = den → K % 2 = 0) → (2 * (K' * den - v).natAbs = den → K' % 2 = 0) → False := by
    intro K K' hl a b c d
    have s1 := step_mul K K' den hD hl
    by_cases h2 : K + 1 < K'
    · have s2 := step_mul (K + 1) K' den hD h2
      rw [Int.add_mul, Int.one_mul] at s2
      omega
    · have : K' = K + 1 := by omega
      subst this
      rw [Int.add_mul, Int.one_mul] at *
      omega
  rcases Int.lt_trichotomy K K' with hl | he | hg
  · exact (key K K' hl h.1 h'.1 h.2 h'.2).elim
  · exact he
  · exact (key K' K hg h'.1 h.1 h'.2 h.2).elim

theorem natAbs_mul_den (K : Int) :
    (0 ≤ K → ((K.natAbs * den : Nat) : Int) = K * den) ∧ (K ≤ 0 → ((K.natAbs * den : Nat) : Int) = -(K * den)) := by
  constructor
  · intro h; rw [Int.natCast_mul, Int.natAbs_of_nonneg h]
  · intro h
    rw [Int.natCast_mul, Int.ofNat_natAbs_of_nonpos h, Int.neg_mul]

theorem IsRoundAway.unique {v K K' : Int} (h : IsRoundAway v K) (h' : IsRoundAway v K') : K = K' := by
  have hD : (0:Int) < den := by have := den_pos; omega
  unfold IsRoundAway at h h'
  have key : ∀ K K' : Int, K < K' → 2 * (K * den - v).natAbs ≤ den → 2 * (K' * den - v).natAbs ≤ den →
      (2 * (K * den - v).natAbs = den → v.natAbs < K.natAbs * den) →
      (2 * (K' * den - v).natAbs = den → v.natAbs < K'.natAbs * den) → False := by
    intro K K' hl a b c d
    have s1 := step_mul K K' den hD hl
    by_cases h2 : K + 1 < K'
    · have s2 := step_mul (K + 1) K' den hD h2
      rw [Int.add_mul, Int.one_mul] at s2
      omega
    · have : K' = K + 1 := by omega
      subst this
      have n1 := natAbs_mul_den K
      have n2 := natAbs_mul_den (K + 1)
      have p1 : 0 ≤ K → 0 ≤ K * (den : Int) := fun h => Int.mul_nonneg h (by omega)
      have p2 : K + 1 ≤ 0 → (K + 1) * (den : Int) ≤ 0 := fun h => Int.mul_nonpos_of_nonpos_of_nonneg h (by omega)
      rw [Int.add_mul, Int.one_mul] at *
      generalize K.natAbs * den = N1 at *
      generalize (K + 1).natAbs * den = N2 at *
      by_cases hK : 0 ≤ K
      · have := n1.1 hK; have := p1 hK; omega
      · have := n2.2 (by omega); have := p2 (by omega); omega
  rcases Int.lt_trichotomy K K' with hl | he | hg
  · exact (key K K' hl h.1 h'.1 h.2 h'.2).elim
  · exact he
  · exact (key K' K hg h'.1 h.1 h'.2 h.2).elim

theorem IsTrunc.unique {v K K' : Int} (h : IsTrunc v K) (h' : IsTrunc v K') : K = K' := by
  unfold IsTrunc at h h'
  have hD := den_pos
  have hab : K.natAbs = K'.natAbs := by
    rcases Nat.lt_trichotomy K.natAbs K'.natAbs with hl | he | hg
    · have : (K.natAbs + 1) * den ≤ K'.natAbs * den := Nat.mul_le_mul_right _ hl
      omega
    · exact he
    · have : (K'.natAbs + 1) * den ≤ K.natAbs * den := Nat.mul_le_mul_right _ hg
      omega
  omega

end IEEE
