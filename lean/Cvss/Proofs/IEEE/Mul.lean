import Cvss.Proofs.IEEE.Decode
/-!
# `F64.mul` is the correctly rounded product, for all finite operands
-/
namespace IEEE
open Spec F64Order

theorem fin2_true (x y : Nat) (hx : F64.ebits x < 2047) (hy : F64.ebits y < 2047) :
    (Nat.blt (F64.ebits x) 2047 && Nat.blt (F64.ebits y) 2047) = true := by
  rw [Bool.and_eq_true, Nat.blt_eq, Nat.blt_eq]; exact ⟨hx, hy⟩

/-- zero rounds to zero -/
theorem IsRNEMag.zero (d : Nat) (hd : 0 < d) : IsRNEMag 0 d 0 := by
  have h := IsRNEMag.exact 0 (by decide)
  rw [wp_zero] at h
  exact h.congr den_pos hd (by omega)

/-- sign of a product of signed magnitudes -/
theorem sign_mul (sx sy A C : Nat) (hsx : sx ≤ 1) (hsy : sy ≤ 1) :
    (if sx = 0 then (A:Int) else -(A:Int)) * (if sy = 0 then (C:Int) else -(C:Int)) =
      if (sx + sy) % 2 = 0 then ((A * C : Nat) : Int) else -((A * C : Nat) : Int) := by
  have h1 : sx = 0 ∨ sx = 1 := by omega
  have h2 : sy = 0 ∨ sy = 1 := by omega
  rcases h1 with rfl | rfl <;> rcases h2 with rfl | rfl <;> simp [Int.natCast_mul, Int.mul_neg, Int.neg_mul]

/-- **multiplication**: for finite `x`, `y` (values `vx/den`, `vy/den`), `F64.mul x y` is the
    round-to-nearest-even image of the exact product `vx·vy / den²`, and its sign bit is the xor of the
    operands' sign bits (also for zero results). -/
theorem mul_rne (x y : Nat) (vx vy : Int) (hx : x < 2^64) (hy : y < 2^64)
    (hvx : F64Val.ofBits x = .fin vx) (hvy : F64Val.ofBits y = .fin vy) :
    IsRNE (vx * vy) (den * den) (F64.mul x y) ∧
    signBit (F64.mul x y) = (signBit x + signBit y) % 2 := by
  obtain ⟨hex, dx⟩ := decode x vx hx hvx
  obtain ⟨hey, dy⟩ := decode y vy hy hvy
  have hdd : 0 < den * den := Nat.mul_pos den_pos den_pos
  rw [← sgn_eq_signBit x hx, ← sgn_eq_signBit y hy]
  unfold F64.mul
  simp only [flet_eq]
  rw [fin2_true x y hex hey, cond_true]
  unfold F64.mulF
  simp only [Nat.add_eq, Nat.mul_eq, nmod]
  change IsRNE (vx * vy) (den * den) (F64.rnd ((sgn x + sgn y) % 2 * F64.P63) _ _) ∧
    signBit (F64.rnd ((sgn x + sgn y) % 2 * F64.P63) _ _) = _
  generalize sgn x = sx at *
  generalize sgn y = sy at *
  generalize F64.exf (F64.ebits x) = Ex at *
  generalize F64.exf (F64.ebits y) = Ey at *
  generalize F64.mant x (F64.ebits x) = mx at *
  generalize F64.mant y (F64.ebits y) = my at *
  have hs : (sx + sy) % 2 ≤ 1 := by omega
  have hn : vx * vy = if (sx + sy) % 2 = 0 then ((mx * 2^Ex * (my * 2^Ey) : Nat) : Int)
      else -((mx * 2^Ex * (my * 2^Ey) : Nat) : Int) := by
    rw [dx.val, dy.val]; exact sign_mul sx sy _ _ dx.s_le dy.s_le
  have hP : F64.P63 = P63 := rfl
  rw [hP]
  generalize (sx + sy) % 2 = s at *
  by_cases hm0 : mx * my = 0
  · rw [hm0, rnd_zero]
    have ha : mx * 2^Ex * (my * 2^Ey) = 0 := by
      rcases Nat.mul_eq_zero.mp hm0 with h | h <;> rw [h] <;> simp
    rw [ha] at hn
    have := isRNE_of_mag s 0 (den * den) 0 (vx * vy) hs hdd hn (IsRNEMag.zero _ hdd)
    have h2 := signBit_pack s 0 hs (Nat.zero_le _)
    rw [Nat.add_zero] at this h2
    exact ⟨this, h2⟩
  · have hrep : Rep (mx * 2^Ex * (my * 2^Ey)) (den * den) (mx * my) (Ex + Ey + 3021) := by
      apply rep_exact
      rw [Nat.pow_add, Nat.pow_add]
      generalize den = D
      generalize (2:Nat)^3021 = Q
      ac_rfl
    obtain ⟨p, hp, hr⟩ := rnd_rne (s * P63) (mx * my) (Ex + Ey + 3021) _ _ (by omega) hdd hrep
    rw [hp]
    exact ⟨isRNE_of_mag s _ _ p _ hs hdd hn hr, signBit_pack s p hs hr.1⟩

end IEEE
