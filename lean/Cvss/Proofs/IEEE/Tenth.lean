import Cvss.Proofs.IEEE.Rint
/-!
# `IsRNE` is invariant under rewriting the fraction; `F64.ofNat` is exact up to `2^53`; `F64.tenth`
-/
namespace IEEE
open Spec F64Order

/-- the same rational written with another numerator/denominator has the same rounding -/
theorem IsRNE.congr {n n' : Int} {d d' r : Nat} (hd : 0 < d) (hd' : 0 < d') (he : n * d' = n' * d)
    (h : IsRNE n d r) : IsRNE n' d' r := by
  obtain ⟨m, s1, s2⟩ := h.mag hd
  obtain ⟨hsplit, hs, _⟩ := split63 r h.bits
  have hab : n.natAbs * d' = n'.natAbs * d := by
    have := congrArg Int.natAbs he
    rw [Int.natAbs_mul, Int.natAbs_mul, Int.natAbs_natCast, Int.natAbs_natCast] at this
    exact this
  have m' := m.congr hd hd' hab
  have hsgn : (n' < 0 → n < 0) ∧ (0 < n' → 0 < n) := by
    constructor
    · intro h'
      have : n' * (d : Int) < 0 := Int.mul_neg_of_neg_of_pos h' (show (0:Int) < d by omega)
      apply Classical.byContradiction; intro hn
      have : 0 ≤ n * (d' : Int) := Int.mul_nonneg (show 0 ≤ n by omega) (show (0:Int) ≤ d' by omega)
      omega
    · intro h'
      have : 0 < n' * (d : Int) := Int.mul_pos h' (show (0:Int) < d by omega)
      apply Classical.byContradiction; intro hn
      have : n * (d' : Int) ≤ 0 := Int.mul_nonpos_of_nonpos_of_nonneg (show n ≤ 0 by omega) (show (0:Int) ≤ d' by omega)
      omega
  generalize r / P63 = s at *
  have hn' : n' = if s = 0 then ((n'.natAbs : Nat) : Int) else -((n'.natAbs : Nat) : Int) := by
    have h01 : s = 0 ∨ s = 1 := by omega
    rcases Int.lt_trichotomy n' 0 with h | h | h
    · rw [s1 (hsgn.1 h)]; simp; omega
    · rw [h]; simp
    · rw [s2 (hsgn.2 h)]; simp; omega
  have := isRNE_of_mag s n'.natAbs d' (r % P63) n' hs hd' hn' m'
  rw [← hsplit] at this
  exact this

/-- `F64.ofNat k` is exact for `k ≤ 2^53` -/
theorem ofNat_exact (k : Nat) (hk : k ≤ 2^53) :
    F64Val.ofBits (F64.ofNat k) = .fin ((k : Int) * den) ∧ F64.ofNat k < 2^64 := by
  have := rnd_int 0 k (by decide) (by rw [← p53]; exact hk)
  unfold F64.ofNat
  rw [Nat.add_eq]
  rw [Nat.zero_mul] at this
  refine ⟨?_, this.2.2⟩
  rw [this.1]; unfold sv; simp

/-- **`F64.tenth k` is the double nearest to `k/10`** (ties to even), for `k ≤ 2^53`: the decimal constants
    `0.1 … 10.0` of the scoring code, built by one correctly rounded division of two exact integers -/
theorem tenth_rne (k : Nat) (hk : k ≤ 2^53) : IsRNE (k : Int) 10 (F64.tenth k) := by
  obtain ⟨h1, h1'⟩ := ofNat_exact k hk
  obtain ⟨h2, h2'⟩ := ofNat_exact 10 (by decide)
  have hD := den_pos
  have := (div_rne (F64.ofNat k) (F64.ofNat 10) _ _ h1' h2' h1 h2 (by simp; omega)).1
  unfold F64.tenth
  have hpos : ¬ ((10 : Nat) : Int) * (den : Int) < 0 := by omega
  rw [if_neg hpos] at this
  refine this.congr (by simp; omega) (by decide) ?_
  rw [Int.natAbs_mul]
  simp
  generalize (den : Int) = D
  rw [Int.mul_assoc, Int.mul_comm D 10]

end IEEE
