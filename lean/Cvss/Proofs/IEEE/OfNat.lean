import Cvss.Proofs.IEEE.Mul
/-!
# `F64.ofNat n` is the correctly rounded natural number `n` (every `n`; overflow to +∞ from `2^1024 − 2^970`)
-/
namespace IEEE
open Spec F64Order

set_option exponentiation.threshold 6000 in
theorem h5171 : (2:Nat)^(4096 + 1075) = 2^3021 * den * den := by
  rw [den_eq]; unfold Spec.F64Val.den
  rw [← Nat.pow_add, ← Nat.pow_add]

theorem ofNat_zero : F64.ofNat 0 = 0 := by decide

/-- **conversion from naturals**: `F64.ofNat n` is the round-to-nearest-even image of `n` (as `n/1`), with
    sign bit 0; in particular `ofNat 0 = +0`, and `n ≥ 2^1024 − 2^970` gives `+∞`. -/
theorem ofNat_rne (n : Nat) : IsRNE (n : Int) 1 (F64.ofNat n) ∧ signBit (F64.ofNat n) = 0 := by
  by_cases h0 : n = 0
  · subst h0
    rw [ofNat_zero]
    have := isRNE_of_mag 0 0 1 0 ((0:Nat):Int) (by decide) (by decide) (by simp) (IsRNEMag.zero 1 (by decide))
    exact ⟨this, by decide⟩
  · unfold F64.ofNat
    rw [Nat.add_eq]
    have hrep : Rep n 1 n (4096 + 1075) := by
      apply rep_exact
      rw [h5171]
      generalize den = D
      generalize (2:Nat)^3021 = Q
      rw [Nat.mul_one]; ac_rfl
    obtain ⟨p, hp, hr⟩ := rnd_rne 0 n (4096 + 1075) n 1 (by omega) (by decide) hrep
    rw [hp]
    have := isRNE_of_mag 0 n 1 p (n : Int) (by decide) (by decide) (by simp) hr
    have h2 := signBit_pack 0 p (by decide) hr.1
    rw [Nat.zero_mul] at this h2
    exact ⟨this, h2⟩

end IEEE
