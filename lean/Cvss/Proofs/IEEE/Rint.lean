import Cvss.Proofs.IEEE.Cmp
import Cvss.Proofs.IEEE.Unique
/-!
# The integer roundings `F64.round/roundToEven/floor/ceil/trunc` and `F64.truncAbs`

For a finite operand with value `v/den`, each function returns the exactly represented integer `K`
(`ofBits result = fin (K·den)`) that Go's `math.Round/RoundToEven/Floor/Ceil/Trunc` specify, with the
operand's sign bit (so zero results keep the sign, as in Go).
-/
namespace IEEE
open Spec F64Order

theorem den_pow : den = 2^1075 := by rw [den_eq]; unfold Spec.F64Val.den; rfl

/-- every integer `1 … 2^53` is a finite double -/
theorem int_pattern (k : Nat) (hk0 : 0 < k) (hk : k ≤ 2 * P52) : ∃ p, p < PINF ∧ wp p = k * den := by
  by_cases hmax : k = 2 * P52
  · subst hmax
    refine ⟨(1075 - 1) * P52 + 2 * P52, by decide, ?_⟩
    rw [wp_pack 1075 (2 * P52) (by decide) (Nat.le_refl _) (Or.inr (by decide)), den_pow]
  · have hlo : 2 ^ Nat.log2 k ≤ k := Nat.log2_self_le (by omega)
    have hhi : k < 2 ^ (Nat.log2 k + 1) := Nat.lt_log2_self
    have hL : Nat.log2 k < 53 := (Nat.log2_lt (by omega)).mpr (by rw [p53]; omega)
    generalize Nat.log2 k = L at *
    have h1 : P52 ≤ k * 2^(52 - L) := by
      have : 2^L * 2^(52 - L) = P52 := by rw [← Nat.pow_add, ← p52]; congr 1; omega
      rw [← this]; exact Nat.mul_le_mul_right _ hlo
    have h2 : k * 2^(52 - L) < 2 * P52 := by
      have : 2^(L+1) * 2^(52 - L) = 2 * P52 := by rw [← Nat.pow_add, ← p53]; congr 1; omega
      rw [← this]; exact Nat.mul_lt_mul_of_pos_right hhi (Nat.two_pow_pos _)
    refine ⟨(1023 + L - 1) * P52 + k * 2^(52 - L), ?_, ?_⟩
    · simp only [P52, PINF] at *; omega
    · rw [wp_pack (1023 + L) _ (by omega) (by omega) (Or.inr h1), den_pow, Nat.mul_assoc, ← Nat.pow_add]
      congr 2; omega

theorem sv_mul (s k D : Nat) : sv s (k * D) = sv s k * (D : Int) := by
  unfold sv; split <;> simp [Int.natCast_mul, Int.neg_mul]

/-- rounding an integer `k ≤ 2^53` at exponent 0 is exact -/
theorem rnd_int (s k : Nat) (hs : s ≤ 1) (hk : k ≤ 2 * P52) :
    F64Val.ofBits (F64.rnd (s * P63) k (4096 + 1075)) = .fin (sv s k * (den : Int)) ∧
    signBit (F64.rnd (s * P63) k (4096 + 1075)) = s ∧ F64.rnd (s * P63) k (4096 + 1075) < 2^64 := by
  rw [← sv_mul]
  by_cases h0 : k = 0
  · subst h0
    rw [rnd_zero]
    have h1 := ofBits_pack s 0 hs (by decide)
    have h2 := signBit_pack s 0 hs (by decide)
    rw [Nat.add_zero, wp_zero] at h1
    rw [Nat.add_zero] at h2
    refine ⟨?_, h2, by simp only [P63]; omega⟩
    rw [h1]; unfold sv; simp
  · have hrep : Rep k 1 k (4096 + 1075) := by
      apply rep_exact
      rw [h5171]
      generalize den = D; generalize (2:Nat)^3021 = Q
      rw [Nat.mul_one]; ac_rfl
    obtain ⟨p, hp, hr⟩ := rnd_rne (s * P63) k (4096 + 1075) k 1 (by omega) (by decide) hrep
    obtain ⟨p', hp', hw⟩ := int_pattern k (by omega) hk
    have hex : IsRNEMag k 1 p' := by
      have := IsRNEMag.exact p' (by omega)
      exact this.congr den_pos (by decide) (by rw [hw, Nat.mul_one])
    have : p = p' := hr.unique (by decide) hex
    subst this
    rw [hp, ofBits_pack s p hs hp', hw]
    refine ⟨rfl, signBit_pack s p hs (by omega), ?_⟩
    simp only [P63, PINF] at *; omega


/-! ## the integer roundings -/

theorem cond_true_iff {α : Sort u} (b : Bool) (p : Prop) [Decidable p] (h : b = true ↔ p) (x y : α) :
    cond b x y = if p then x else y := by
  cases b
  · rw [if_neg (fun hp => by have := h.mpr hp; cases this)]; rfl
  · rw [if_pos (h.mp rfl)]; rfl

/-- the integer chosen by `rintB`: mode 0 half-to-even, 1 half-away, otherwise toward −∞ (on the magnitude:
    up iff negative and inexact) -/
def rintK (mode s q rem half : Nat) : Nat :=
  if mode = 0 then (if half < rem ∨ (rem = half ∧ q % 2 = 1) then q + 1 else q)
  else if mode = 1 then (if half ≤ rem then q + 1 else q)
  else (if s = 1 ∧ 0 < rem then q + 1 else q)

theorem rintB_eq (mode s q rem half : Nat) (hs : s ≤ 1) :
    F64.rintB mode (s * P63) q rem half = F64.rnd (s * P63) (rintK mode s q rem half) (4096 + 1075) := by
  unfold F64.rintB rintK
  rw [cond_beq, cond_beq, Nat.add_eq, Nat.succ_eq_add_one]
  congr 1
  have e0 : cond (Nat.blt half rem || (Nat.beq rem half && Nat.beq (Nat.mod q 2) 1)) (q + 1) q =
      if half < rem ∨ (rem = half ∧ q % 2 = 1) then q + 1 else q :=
    cond_true_iff _ _ (by rw [Bool.or_eq_true, Bool.and_eq_true, Nat.blt_eq, nbeq, nbeq]; rfl) _ _
  have e1 : cond (Nat.ble half rem) (q + 1) q = if half ≤ rem then q + 1 else q := cond_ble _ _ _ _
  have e2 : cond (Nat.blt 0 (s * P63) && Nat.blt 0 rem) (q + 1) q = if s = 1 ∧ 0 < rem then q + 1 else q :=
    cond_true_iff _ _ (by
      rw [Bool.and_eq_true, Nat.blt_eq, Nat.blt_eq]
      have : 0 < s * P63 ↔ s = 1 := by simp only [P63]; omega
      rw [this]) _ _
  rw [e0, e1, e2]

/-- the integer chosen by `rintC`: mode 3 toward +∞ (up iff positive and inexact), otherwise toward zero -/
def rintK2 (mode s q rem : Nat) : Nat :=
  if mode = 3 then (if s = 0 ∧ 0 < rem then q + 1 else q) else q

theorem rintC_eq (mode s q rem : Nat) (_hs : s ≤ 1) :
    F64.rintC mode (s * P63) q rem = F64.rnd (s * P63) (rintK2 mode s q rem) (4096 + 1075) := by
  unfold F64.rintC rintK2
  rw [cond_beq, Nat.add_eq, Nat.succ_eq_add_one]
  congr 1
  have e2 : cond (Nat.beq (s * P63) 0 && Nat.blt 0 rem) (q + 1) q = if s = 0 ∧ 0 < rem then q + 1 else q :=
    cond_true_iff _ _ (by
      rw [Bool.and_eq_true, Nat.blt_eq, nbeq]
      have : s * P63 = 0 ↔ s = 0 := by simp only [P63]; omega
      rw [this]) _ _
  rw [e2]

theorem rintA_eq (mode x ex : Nat) :
    F64.rintA mode x ex =
      if 1075 ≤ F64.exf ex then x
      else F64.rintB mode (sgn x * P63) (F64.mant x ex / 2^(1075 - F64.exf ex))
        (F64.mant x ex - F64.mant x ex / 2^(1075 - F64.exf ex) * 2^(1075 - F64.exf ex))
        (2^(1075 - F64.exf ex - 1)) := by
  unfold F64.rintA
  simp only [flet_eq, cond_ble, nshr, nshl, Nat.sub_eq, Nat.mul_eq, Nat.one_mul]
  rw [show sgn x = x / 2^63 by unfold sgn; rw [nshr], show P63 = F64.P63 from rfl]

theorem rintD_eq (mode x ex : Nat) :
    F64.rintD mode x ex =
      if 1075 ≤ F64.exf ex then x
      else F64.rintC mode (sgn x * P63) (F64.mant x ex / 2^(1075 - F64.exf ex))
        (F64.mant x ex - F64.mant x ex / 2^(1075 - F64.exf ex) * 2^(1075 - F64.exf ex)) := by
  unfold F64.rintD
  simp only [flet_eq, cond_ble, nshr, nshl, Nat.sub_eq, Nat.mul_eq]
  rw [show sgn x = x / 2^63 by unfold sgn; rw [nshr], show P63 = F64.P63 from rfl]

theorem rint_unfold (mode x : Nat) (hx : F64.ebits x < 2047) : F64.rint mode x = F64.rintA mode x (F64.ebits x) := by
  unfold F64.rint
  rw [flet_eq, flet_eq, cond_blt, if_pos hx]

theorem rint2_unfold (mode x : Nat) (hx : F64.ebits x < 2047) : F64.rint2 mode x = F64.rintD mode x (F64.ebits x) := by
  unfold F64.rint2
  rw [flet_eq, flet_eq, cond_blt, if_pos hx]

/-- the significand split at the binary point: `m·2^E = q·den + ρ`, `ρ = rem·2^E < den`, `half·2^E = den/2` -/
theorem rint_arith (m E : Nat) (h1 : 1 ≤ E) (h2 : E < 1075) :
    m * 2^E = m / 2^(1075 - E) * den + (m - m / 2^(1075 - E) * 2^(1075 - E)) * 2^E ∧
    2 * (2^(1075 - E - 1) * 2^E) = den ∧
    m - m / 2^(1075 - E) * 2^(1075 - E) < 2 * 2^(1075 - E - 1) := by
  have hd : 2^(1075 - E) * 2^E = den := by rw [den_pow, ← Nat.pow_add]; congr 1; omega
  have hh : 2^(1075 - E) = 2 * 2^(1075 - E - 1) := by
    have : 1075 - E = (1075 - E - 1) + 1 := by omega
    rw [this, Nat.pow_succ]; simp only [Nat.add_sub_cancel]; omega
  have hdm := Nat.div_add_mod m (2^(1075 - E))
  have hml := Nat.mod_lt m (Nat.two_pow_pos (1075 - E))
  rw [Nat.mul_comm] at hdm
  refine ⟨?_, ?_, ?_⟩
  · rw [← hd]
    have : m / 2^(1075 - E) * (2^(1075 - E) * 2^E) = m / 2^(1075 - E) * 2^(1075 - E) * 2^E := by ac_rfl
    rw [this, ← Nat.add_mul]
    congr 1
    omega
  · rw [← hd, hh]; ac_rfl
  · omega


/-! ## what Go's `math.Floor/Ceil/Trunc/Round/RoundToEven` return, as relations between the value `v/den`
and the integer `K` -/

/-- `K = ⌊v/den⌋` -/
def IsFloor (v K : Int) : Prop := K * den ≤ v ∧ v < (K + 1) * den
/-- `K = ⌈v/den⌉` -/
def IsCeil (v K : Int) : Prop := (K - 1) * den < v ∧ v ≤ K * den
/-- `K` = `v/den` rounded toward zero -/
def IsTrunc (v K : Int) : Prop :=
  K.natAbs * den ≤ v.natAbs ∧ v.natAbs < (K.natAbs + 1) * den ∧ (0 ≤ v → 0 ≤ K) ∧ (v ≤ 0 → K ≤ 0)
/-- `K` = nearest integer to `v/den`, halfway cases away from zero (`math.Round`) -/
def IsRoundAway (v K : Int) : Prop :=
  2 * (K * den - v).natAbs ≤ den ∧ (2 * (K * den - v).natAbs = den → v.natAbs < K.natAbs * den)
/-- `K` = nearest integer to `v/den`, halfway cases to the even integer (`math.RoundToEven`) -/
def IsRoundEven (v K : Int) : Prop :=
  2 * (K * den - v).natAbs ≤ den ∧ (2 * (K * den - v).natAbs = den → K % 2 = 0)

theorem sv_natAbs (s k : Nat) : (sv s k).natAbs = k := by unfold sv; split <;> simp
theorem sv_even (s k : Nat) (h : k % 2 = 0) : sv s k % 2 = 0 := by unfold sv; split <;> omega
theorem sv_nonneg (s k : Nat) (h : s = 0) : 0 ≤ sv s k := by unfold sv; rw [if_pos h]; omega
theorem sv_nonpos (s k : Nat) (h : s ≠ 0) : sv s k ≤ 0 := by unfold sv; rw [if_neg h]; omega

/-- an integral value satisfies all five relations with itself -/
theorem int_all (K : Int) :
    IsFloor (K * den) K ∧ IsCeil (K * den) K ∧ IsTrunc (K * den) K ∧ IsRoundAway (K * den) K ∧ IsRoundEven (K * den) K := by
  have hD := den_pos
  unfold IsFloor IsCeil IsTrunc IsRoundAway IsRoundEven
  rw [Int.add_mul, Int.sub_mul, Int.one_mul, Int.natAbs_mul, Int.natAbs_natCast, Nat.add_mul, Nat.one_mul,
    Int.sub_self]
  have h1 : 0 ≤ K → 0 ≤ K * (den : Int) := fun h => Int.mul_nonneg h (by omega)
  have h2 : K ≤ 0 → K * (den : Int) ≤ 0 := fun h => Int.mul_nonpos_of_nonpos_of_nonneg h (by omega)
  have h3 : 0 ≤ K * (den : Int) → 0 ≤ K := by
    intro h
    apply Classical.byContradiction; intro hn
    have : K * (den : Int) < 0 := Int.mul_neg_of_neg_of_pos (by omega) (by omega)
    omega
  have h4 : K * (den : Int) ≤ 0 → K ≤ 0 := by
    intro h
    apply Classical.byContradiction; intro hn
    have : 0 < K * (den : Int) := Int.mul_pos (by omega) (by omega)
    omega
  generalize K * (den : Int) = KD at *
  generalize K.natAbs * den = KN at *
  generalize den = D at *
  simp
  omega


/-- the five rounding rules on a value `σ·(q·den + ρ)`, `0 ≤ ρ < den = 2·Hh` -/
theorem frac_all (s q ρ Hh : Nat) (hs : s ≤ 1) (hD : den = 2 * Hh) (hρ : ρ < den) :
    IsRoundEven (sv s (q * den + ρ)) (sv s (if Hh < ρ ∨ (ρ = Hh ∧ q % 2 = 1) then q + 1 else q)) ∧
    IsRoundAway (sv s (q * den + ρ)) (sv s (if Hh ≤ ρ then q + 1 else q)) ∧
    IsFloor (sv s (q * den + ρ)) (sv s (if s = 1 ∧ 0 < ρ then q + 1 else q)) ∧
    IsCeil (sv s (q * den + ρ)) (sv s (if s = 0 ∧ 0 < ρ then q + 1 else q)) ∧
    IsTrunc (sv s (q * den + ρ)) (sv s q) := by
  have hs01 : s = 0 ∨ s = 1 := by omega
  have hq1 : (q + 1) * den = q * den + den := by rw [Nat.add_mul, Nat.one_mul]
  have hq0 : q * den = 0 → q = 0 := by
    intro h; rcases Nat.mul_eq_zero.mp h with h | h <;> omega
  unfold IsFloor IsCeil IsTrunc IsRoundAway IsRoundEven
  simp only [Int.add_mul, Int.sub_mul, Int.one_mul, ← sv_mul, sv_natAbs]
  refine ⟨?_, ?_, ?_, ?_, ?_⟩
  · split
    · rw [hq1]
      refine ⟨?_, fun h => sv_even _ _ ?_⟩
      · generalize q * den = QD at *; generalize den = D at *
        unfold sv; rcases hs01 with rfl | rfl <;> simp <;> omega
      · generalize q * den = QD at *; generalize den = D at *
        unfold sv at h; rcases hs01 with rfl | rfl <;> simp at h <;> omega
    · refine ⟨?_, fun h => sv_even _ _ ?_⟩
      · generalize q * den = QD at *; generalize den = D at *
        unfold sv; rcases hs01 with rfl | rfl <;> simp <;> omega
      · generalize q * den = QD at *; generalize den = D at *
        unfold sv at h; rcases hs01 with rfl | rfl <;> simp at h <;> omega
  · split
    · rw [hq1]
      generalize q * den = QD at *; generalize den = D at *
      unfold sv; rcases hs01 with rfl | rfl <;> simp <;> omega
    · generalize q * den = QD at *; generalize den = D at *
      unfold sv; rcases hs01 with rfl | rfl <;> simp <;> omega
  · split
    · rw [hq1]
      generalize q * den = QD at *; generalize den = D at *
      unfold sv; rcases hs01 with rfl | rfl <;> simp <;> omega
    · generalize q * den = QD at *; generalize den = D at *
      unfold sv; rcases hs01 with rfl | rfl <;> simp <;> omega
  · split
    · rw [hq1]
      generalize q * den = QD at *; generalize den = D at *
      unfold sv; rcases hs01 with rfl | rfl <;> simp <;> omega
    · generalize q * den = QD at *; generalize den = D at *
      unfold sv; rcases hs01 with rfl | rfl <;> simp <;> omega
  · rw [hq1]
    refine ⟨by omega, by omega, fun h => ?_, fun h => ?_⟩
    · generalize q * den = QD at *; generalize den = D at *
      unfold sv at h ⊢; rcases hs01 with rfl | rfl <;> simp at h ⊢ <;> omega
    · generalize q * den = QD at *; generalize den = D at *
      unfold sv at h ⊢; rcases hs01 with rfl | rfl <;> simp at h ⊢ <;> omega


theorem mul_cmp (a b G : Nat) (hG : 0 < G) :
    (a * G < b * G ↔ a < b) ∧ (a * G = b * G ↔ a = b) ∧ (a * G ≤ b * G ↔ a ≤ b) := by
  refine ⟨⟨Nat.lt_of_mul_lt_mul_right, fun h => Nat.mul_lt_mul_of_pos_right h hG⟩,
    ⟨Nat.eq_of_mul_eq_mul_right hG, fun h => by rw [h]⟩,
    ⟨fun h => Nat.le_of_mul_le_mul_right h hG, fun h => Nat.mul_le_mul_right _ h⟩⟩

/-- common part of the integer roundings: an integral operand is returned unchanged, otherwise the operand
    splits as `σ·(q·den + ρ)` and the result is an exactly represented `σ·k`, `k ∈ {q, q+1}` chosen by `pick` -/
theorem rint_common (x : Nat) (vx : Int) (hx : x < 2^64) (hvx : F64Val.ofBits x = .fin vx)
    (r : Nat) (pick : Nat → Nat → Nat → Nat → Nat)
    (hpick : ∀ s q rem half, pick s q rem half = q ∨ pick s q rem half = q + 1)
    (hr : r = if 1075 ≤ F64.exf (F64.ebits x) then x
      else F64.rnd (sgn x * P63)
        (pick (sgn x) (F64.mant x (F64.ebits x) / 2^(1075 - F64.exf (F64.ebits x)))
          (F64.mant x (F64.ebits x) - F64.mant x (F64.ebits x) / 2^(1075 - F64.exf (F64.ebits x)) * 2^(1075 - F64.exf (F64.ebits x)))
          (2^(1075 - F64.exf (F64.ebits x) - 1))) (4096 + 1075)) :
    signBit r = signBit x ∧ r < 2^64 ∧
    ((∃ K : Int, vx = K * den ∧ r = x) ∨
     (∃ s q rem half G, s ≤ 1 ∧ 0 < G ∧ den = 2 * (half * G) ∧ rem * G < den ∧ vx = sv s (q * den + rem * G) ∧
        s = sgn x ∧ F64Val.ofBits r = .fin (sv s (pick s q rem half) * (den : Int)))) := by
  obtain ⟨hex, dx⟩ := decode x vx hx hvx
  generalize F64.exf (F64.ebits x) = E at *
  generalize F64.mant x (F64.ebits x) = m at *
  have hsx := dx.s_le
  have hval := dx.sv_eq
  by_cases hbig : 1075 ≤ E
  · rw [if_pos hbig] at hr
    rw [hr]
    refine ⟨rfl, hx, Or.inl ⟨sv (sgn x) (m * 2^(E - 1075)), ?_, rfl⟩⟩
    rw [← sv_mul, hval, den_pow, Nat.mul_assoc, ← Nat.pow_add]
    congr 3; omega
  · rw [if_neg hbig] at hr
    have hE1 := dx.E_ge
    obtain ⟨ha1, ha2, ha3⟩ := rint_arith m E hE1 (by omega)
    have hqm : m / 2^(1075 - E) ≤ m := Nat.div_le_self _ _
    generalize m / 2^(1075 - E) = q at *
    generalize hrem : m - q * 2^(1075 - E) = rem at *
    generalize (2:Nat)^(1075 - E - 1) = half at *
    have hG : 0 < 2^E := Nat.two_pow_pos E
    generalize (2:Nat)^E = G at *
    have hk : pick (sgn x) q rem half ≤ 2 * P52 := by
      have := dx.m_lt
      rcases hpick (sgn x) q rem half with h | h <;> omega
    obtain ⟨h1, h2, h3⟩ := rnd_int (sgn x) _ dx.s_le hk
    rw [← hr] at h1 h2 h3
    refine ⟨by rw [h2, sgn_eq_signBit x hx], h3, Or.inr ⟨sgn x, q, rem, half, G, dx.s_le, hG, ?_, ?_, ?_, rfl, h1⟩⟩
    · rw [← ha2]
    · rw [← ha2, ← Nat.mul_assoc]; exact Nat.mul_lt_mul_of_pos_right ha3 hG
    · rw [hval, ha1]


theorem pos_mul (a G : Nat) (hG : 0 < G) : 0 < a * G ↔ 0 < a := by
  constructor
  · intro h; apply Classical.byContradiction; intro hn
    have : a = 0 := by omega
    rw [this, Nat.zero_mul] at h; omega
  · intro h; exact Nat.mul_pos h hG

theorem rint_eq (mode x : Nat) (hex : F64.ebits x < 2047) (hs : sgn x ≤ 1) :
    F64.rint mode x = if 1075 ≤ F64.exf (F64.ebits x) then x
      else F64.rnd (sgn x * P63)
        (rintK mode (sgn x) (F64.mant x (F64.ebits x) / 2^(1075 - F64.exf (F64.ebits x)))
          (F64.mant x (F64.ebits x) - F64.mant x (F64.ebits x) / 2^(1075 - F64.exf (F64.ebits x)) * 2^(1075 - F64.exf (F64.ebits x)))
          (2^(1075 - F64.exf (F64.ebits x) - 1))) (4096 + 1075) := by
  rw [rint_unfold mode x hex, rintA_eq]
  by_cases h : 1075 ≤ F64.exf (F64.ebits x)
  · rw [if_pos h, if_pos h]
  · rw [if_neg h, if_neg h, rintB_eq _ _ _ _ _ hs]

theorem rint2_eq (mode x : Nat) (hex : F64.ebits x < 2047) (hs : sgn x ≤ 1) :
    F64.rint2 mode x = if 1075 ≤ F64.exf (F64.ebits x) then x
      else F64.rnd (sgn x * P63)
        ((fun s q rem _ => rintK2 mode s q rem) (sgn x) (F64.mant x (F64.ebits x) / 2^(1075 - F64.exf (F64.ebits x)))
          (F64.mant x (F64.ebits x) - F64.mant x (F64.ebits x) / 2^(1075 - F64.exf (F64.ebits x)) * 2^(1075 - F64.exf (F64.ebits x)))
          (2^(1075 - F64.exf (F64.ebits x) - 1))) (4096 + 1075) := by
  rw [rint2_unfold mode x hex, rintD_eq]
  by_cases h : 1075 ≤ F64.exf (F64.ebits x)
  · rw [if_pos h, if_pos h]
  · rw [if_neg h, if_neg h, rintC_eq _ _ _ _ hs]

theorem rintK_pick (mode s q rem half : Nat) : rintK mode s q rem half = q ∨ rintK mode s q rem half = q + 1 := by
  unfold rintK; repeat' split
  all_goals first | exact Or.inl rfl | exact Or.inr rfl

theorem rintK2_pick (mode s q rem : Nat) : rintK2 mode s q rem = q ∨ rintK2 mode s q rem = q + 1 := by
  unfold rintK2; repeat' split
  all_goals first | exact Or.inl rfl | exact Or.inr rfl

/-- **`math.RoundToEven`**: the result is the exactly represented integer nearest to the operand, halfway
    cases to even, with the operand's sign bit (so `−0.3 ↦ −0`) -/
theorem roundToEven_spec (x : Nat) (vx : Int) (hx : x < 2^64) (hvx : F64Val.ofBits x = .fin vx) :
    ∃ K : Int, F64Val.ofBits (F64.roundToEven x) = .fin (K * den) ∧ IsRoundEven vx K ∧
      signBit (F64.roundToEven x) = signBit x ∧ F64.roundToEven x < 2^64 := by
  obtain ⟨hex, dx⟩ := decode x vx hx hvx
  obtain ⟨h1, h2, h3⟩ := rint_common x vx hx hvx (F64.roundToEven x) (rintK 0) (rintK_pick 0)
    (rint_eq 0 x hex dx.s_le)
  rcases h3 with ⟨K, hK, hr⟩ | ⟨s, q, rem, half, G, hs, hG, hD, hρ, hv, _, hob⟩
  · refine ⟨K, by rw [hr, hvx, hK], ?_, h1, h2⟩
    rw [hK]; exact (int_all K).2.2.2.2
  · refine ⟨_, hob, ?_, h1, h2⟩
    have := (frac_all s q (rem * G) (half * G) hs hD hρ).1
    simp only [(mul_cmp half rem G hG).1, (mul_cmp rem half G hG).2.1] at this
    rw [← hv] at this
    unfold rintK; rw [if_pos rfl]; exact this

/-- **`math.Round`**: nearest integer, halfway cases away from zero, sign bit preserved -/
theorem round_spec (x : Nat) (vx : Int) (hx : x < 2^64) (hvx : F64Val.ofBits x = .fin vx) :
    ∃ K : Int, F64Val.ofBits (F64.round x) = .fin (K * den) ∧ IsRoundAway vx K ∧
      signBit (F64.round x) = signBit x ∧ F64.round x < 2^64 := by
  obtain ⟨hex, dx⟩ := decode x vx hx hvx
  obtain ⟨h1, h2, h3⟩ := rint_common x vx hx hvx (F64.round x) (rintK 1) (rintK_pick 1)
    (rint_eq 1 x hex dx.s_le)
  rcases h3 with ⟨K, hK, hr⟩ | ⟨s, q, rem, half, G, hs, hG, hD, hρ, hv, _, hob⟩
  · refine ⟨K, by rw [hr, hvx, hK], ?_, h1, h2⟩
    rw [hK]; exact (int_all K).2.2.2.1
  · refine ⟨_, hob, ?_, h1, h2⟩
    have := (frac_all s q (rem * G) (half * G) hs hD hρ).2.1
    simp only [(mul_cmp half rem G hG).2.2] at this
    rw [← hv] at this
    unfold rintK; rw [if_neg (by decide), if_pos rfl]; exact this

/-- **`math.Floor`**: the greatest integer `≤` the operand, sign bit preserved (`Floor(−0) = −0`) -/
theorem floor_spec (x : Nat) (vx : Int) (hx : x < 2^64) (hvx : F64Val.ofBits x = .fin vx) :
    ∃ K : Int, F64Val.ofBits (F64.floor x) = .fin (K * den) ∧ IsFloor vx K ∧
      signBit (F64.floor x) = signBit x ∧ F64.floor x < 2^64 := by
  obtain ⟨hex, dx⟩ := decode x vx hx hvx
  obtain ⟨h1, h2, h3⟩ := rint_common x vx hx hvx (F64.floor x) (rintK 2) (rintK_pick 2)
    (rint_eq 2 x hex dx.s_le)
  rcases h3 with ⟨K, hK, hr⟩ | ⟨s, q, rem, half, G, hs, hG, hD, hρ, hv, _, hob⟩
  · refine ⟨K, by rw [hr, hvx, hK], ?_, h1, h2⟩
    rw [hK]; exact (int_all K).1
  · refine ⟨_, hob, ?_, h1, h2⟩
    have := (frac_all s q (rem * G) (half * G) hs hD hρ).2.2.1
    simp only [pos_mul rem G hG] at this
    rw [← hv] at this
    unfold rintK; rw [if_neg (by decide), if_neg (by decide)]; exact this

/-- **`math.Ceil`**: the least integer `≥` the operand, sign bit preserved (`Ceil(−0.3) = −0`) -/
theorem ceil_spec (x : Nat) (vx : Int) (hx : x < 2^64) (hvx : F64Val.ofBits x = .fin vx) :
    ∃ K : Int, F64Val.ofBits (F64.ceil x) = .fin (K * den) ∧ IsCeil vx K ∧
      signBit (F64.ceil x) = signBit x ∧ F64.ceil x < 2^64 := by
  obtain ⟨hex, dx⟩ := decode x vx hx hvx
  obtain ⟨h1, h2, h3⟩ := rint_common x vx hx hvx (F64.ceil x) (fun s q rem _ => rintK2 3 s q rem)
    (fun s q rem _ => rintK2_pick 3 s q rem) (rint2_eq 3 x hex dx.s_le)
  rcases h3 with ⟨K, hK, hr⟩ | ⟨s, q, rem, half, G, hs, hG, hD, hρ, hv, _, hob⟩
  · refine ⟨K, by rw [hr, hvx, hK], ?_, h1, h2⟩
    rw [hK]; exact (int_all K).2.1
  · refine ⟨_, hob, ?_, h1, h2⟩
    have := (frac_all s q (rem * G) (half * G) hs hD hρ).2.2.2.1
    simp only [pos_mul rem G hG] at this
    rw [← hv] at this
    show IsCeil vx (sv s (rintK2 3 s q rem))
    unfold rintK2; rw [if_pos rfl]; exact this

/-- **`math.Trunc`**: the operand rounded toward zero, sign bit preserved -/
theorem trunc_spec (x : Nat) (vx : Int) (hx : x < 2^64) (hvx : F64Val.ofBits x = .fin vx) :
    ∃ K : Int, F64Val.ofBits (F64.trunc x) = .fin (K * den) ∧ IsTrunc vx K ∧
      signBit (F64.trunc x) = signBit x ∧ F64.trunc x < 2^64 := by
  obtain ⟨hex, dx⟩ := decode x vx hx hvx
  obtain ⟨h1, h2, h3⟩ := rint_common x vx hx hvx (F64.trunc x) (fun s q rem _ => rintK2 4 s q rem)
    (fun s q rem _ => rintK2_pick 4 s q rem) (rint2_eq 4 x hex dx.s_le)
  rcases h3 with ⟨K, hK, hr⟩ | ⟨s, q, rem, half, G, hs, hG, hD, hρ, hv, _, hob⟩
  · refine ⟨K, by rw [hr, hvx, hK], ?_, h1, h2⟩
    rw [hK]; exact (int_all K).2.2.1
  · refine ⟨_, hob, ?_, h1, h2⟩
    have := (frac_all s q (rem * G) (half * G) hs hD hρ).2.2.2.2
    rw [← hv] at this
    show IsTrunc vx (sv s (rintK2 4 s q rem))
    unfold rintK2; rw [if_neg (by decide)]; exact this

/-- **`F64.truncAbs x = ⌊|v|/den⌋`**, the magnitude of the operand truncated to a natural number -/
theorem truncAbs_spec (x : Nat) (vx : Int) (hx : x < 2^64) (hvx : F64Val.ofBits x = .fin vx) :
    F64.truncAbs x = vx.natAbs / den := by
  obtain ⟨hex, dx⟩ := decode x vx hx hvx
  unfold F64.truncAbs
  rw [flet_eq, flet_eq, cond_ble, nshl, nshr, Nat.sub_eq, Nat.sub_eq, dx.sv_eq, sv_natAbs]
  generalize F64.exf (F64.ebits x) = E
  generalize F64.mant x (F64.ebits x) = m
  by_cases h : 1075 ≤ E
  · rw [if_pos h]
    have : m * 2^E = m * 2^(E - 1075) * den := by
      rw [den_pow, Nat.mul_assoc, ← Nat.pow_add]; congr 2; omega
    rw [this, Nat.mul_div_cancel _ den_pos]
  · rw [if_neg h]
    have : den = 2^(1075 - E) * 2^E := by rw [den_pow, ← Nat.pow_add]; congr 1; omega
    rw [this, Nat.mul_div_mul_right _ _ (Nat.two_pow_pos E)]

end IEEE
