import Cvss.Proofs.IEEE.Spec
import Cvss.Proofs.IEEE.Rnd
/-!
# Decoding finite operands: what `F64.ebits/mant/exf` read is the value `Spec.F64Val.ofBits` denotes
-/
namespace IEEE
open Spec F64Order

/-- sign bit as computed by the soft-float -/
def sgn (x : Nat) : Nat := Nat.shiftRight x 63

/-- what the soft-float reads off a finite operand: sign `s`, exponent `E = max 1 field`, significand `m` -/
structure Dec (x : Nat) (vx : Int) (s E m : Nat) : Prop where
  s_le : s ≤ 1
  E_ge : 1 ≤ E
  E_le : E ≤ 2046
  m_lt : m < 2 * P52
  norm : E = 1 ∨ P52 ≤ m
  bits : x = s * P63 + ((E - 1) * P52 + m)
  val : vx = if s = 0 then ((m * 2^E : Nat) : Int) else -((m * 2^E : Nat) : Int)

theorem decode (x : Nat) (vx : Int) (hx : x < 2^64) (h : F64Val.ofBits x = .fin vx) :
    F64.ebits x < 2047 ∧ Dec x vx (sgn x) (F64.exf (F64.ebits x)) (F64.mant x (F64.ebits x)) := by
  have hE := expField_lt x
  have hF := fracField_lt x
  unfold F64Val.ofBits at h
  by_cases he : Spec.expField x = 2047
  · rw [if_pos he] at h; split at h
    · split at h <;> cases h
    · cases h
  rw [if_neg he] at h
  have h := F64Val.fin.inj h
  rw [ebits_eq]
  refine ⟨by omega, ?_⟩
  unfold F64.mant F64.exf sgn
  rw [cond_beq, cond_beq, frac_eq, nshr]
  have hsb : Spec.signBit x = x / 2^63 := by unfold Spec.signBit; omega
  rw [hsb] at h
  unfold Spec.magnitude at h
  unfold Spec.expField Spec.fracField at *
  by_cases h0 : x / 2^52 % 2048 = 0
  · rw [if_pos h0] at h ⊢
    rw [if_pos h0]
    refine ⟨by omega, by omega, by omega, by simp only [P52] at *; omega, Or.inl rfl, ?_, ?_⟩
    · simp only [P52, P63]; omega
    · rw [← h, Nat.pow_one]
  · rw [if_neg h0] at h ⊢
    rw [if_neg h0, Nat.add_eq]
    have hP : F64.P52 = P52 := rfl
    rw [hP]
    refine ⟨by omega, by omega, by omega, by simp only [P52] at *; omega, Or.inr (by simp only [P52]; omega), ?_, ?_⟩
    · simp only [P52, P63]; omega
    · rw [← h]
      have : (2:Nat)^52 + x % 2^52 = x % 2^52 + P52 := by
        simp only [P52]; omega
      rw [this]

theorem Dec.wp_eq {x vx s E m} (h : Dec x vx s E m) : wp ((E - 1) * P52 + m) = m * 2^E :=
  wp_pack E m h.E_ge (by have := h.m_lt; omega) h.norm

theorem Dec.pat_lt {x vx s E m} (h : Dec x vx s E m) : (E - 1) * P52 + m < PINF := by
  have := h.m_lt; have := h.E_le; have := h.E_ge
  simp only [P52, PINF] at *; omega

theorem sgn_eq_signBit (x : Nat) (hx : x < 2^64) : sgn x = Spec.signBit x := by
  unfold sgn Spec.signBit; rw [nshr]; omega

set_option exponentiation.threshold 5000 in
theorem h4096 : (2:Nat)^4096 = 2^3021 * den := by
  rw [den_eq]; unfold Spec.F64Val.den
  rw [← Nat.pow_add]

/-- exact representation, with the constant `2^4096` split as `2^3021 · 2^1075` -/
theorem rep_exact (a d m e : Nat) (h : a * (2^3021 * den) * den = m * (2^e * d)) : Rep a d m e := by
  unfold Rep; left; rw [h4096]; exact h

/-- sticky representation -/
theorem rep_sticky (a d m e : Nat) (h1 : m % 2 = 1) (h2 : 2^55 ≤ m)
    (h3 : (m - 1) * (2^e * d) < a * (2^3021 * den) * den) (h4 : a * (2^3021 * den) * den < (m + 1) * (2^e * d)) :
    Rep a d m e := by
  unfold Rep; right; rw [h4096]; exact ⟨h1, h2, h3, h4⟩

end IEEE
