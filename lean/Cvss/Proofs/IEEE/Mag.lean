import Cvss.Proofs.F64Order
import Cvss.Proofs.F64Lg
/-!
# Round-to-nearest-even on magnitudes (sign-less patterns), in integer arithmetic

`F64Order.wp p` is the exact magnitude (scaled by `2^1075`) denoted by the sign-less pattern `p`; it is
strictly monotone in `p`, and it is also defined beyond `PINF = 0x7FF0…0` where it continues the binary64
format with an unbounded exponent (`wp PINF = 2^1024 · 2^1075`).  IEEE-754 rounds "as if the exponent range
were unbounded" and then replaces results of magnitude `≥ 2^1024` by ∞; equivalently: round to the nearest
among the patterns `0 … PINF`, where `PINF` stands for `2^1024` (even significand).
-/
namespace IEEE
open F64Order

def PINF : Nat := 0x7FF0000000000000
/-- the common denominator `2^1075` of `Spec.F64Val` -/
@[irreducible] def den : Nat := Spec.F64Val.den

set_option exponentiation.threshold 2000 in
theorem den_eq : den = Spec.F64Val.den := by with_unfolding_all exact rfl
theorem den_pos : 0 < den := by rw [den_eq]; exact Nat.pow_pos (by decide : 0 < 2)

/-- `|x − y|` on naturals -/
def adist (x y : Nat) : Nat := (x - y) + (y - x)

theorem adist_mul (x y k : Nat) : adist (x * k) (y * k) = adist x y * k := by
  unfold adist; rw [Nat.add_mul, Nat.sub_mul, Nat.sub_mul]

/-- `p` (sign-less pattern, `≤ PINF`) is the round-to-nearest-even image of the non-negative rational `a/d`:
    no pattern in `0 … PINF` denotes a value closer to `a/d`, and if another one is equally close then `p` is
    even (its significand is even: the lowest fraction bit is the lowest pattern bit).
    Values are compared after scaling by `den · d`: `wp q / den` versus `a / d`. -/
def IsRNEMag (a d p : Nat) : Prop :=
  p ≤ PINF ∧
  (∀ q, q ≤ PINF → adist (wp p * d) (a * den) ≤ adist (wp q * d) (a * den)) ∧
  (∀ q, q ≤ PINF → q ≠ p → adist (wp p * d) (a * den) = adist (wp q * d) (a * den) → p % 2 = 0)

theorem wpd_mono (d : Nat) {q q' : Nat} (h : q ≤ q') : wp q * d ≤ wp q' * d :=
  Nat.mul_le_mul_right _ ((wp_le_iff _ _).mp h)
theorem wpd_strict (d : Nat) (hd : 0 < d) {q q' : Nat} (h : q < q') : wp q * d < wp q' * d :=
  Nat.mul_lt_mul_of_pos_right ((wp_lt_iff _ _).mp h) hd

/-- the rounding decision between the two neighbours `p0`, `p0+1` that bracket `a/d`: above the midpoint, or
    on the midpoint with `p0` odd -/
def roundUp (a d p0 : Nat) : Prop :=
  (wp p0 + wp (p0+1)) * d < 2 * (a * den) ∨ ((wp p0 + wp (p0+1)) * d = 2 * (a * den) ∧ p0 % 2 = 1)

/-- **bracket lemma**: if `p0` is the largest pattern (unbounded exponent) whose value is `≤ a/d`, the
    RNE result is `p0` or `p0+1` by the midpoint rule, saturated at `PINF`. -/
theorem bracket (a d p0 p : Nat) (hd : 0 < d) (hlo : wp p0 * d ≤ a * den) (hhi : a * den < wp (p0+1) * d)
    (hp : (roundUp a d p0 ∧ p = min PINF (p0+1)) ∨ (¬ roundUp a d p0 ∧ p = min PINF p0)) :
    IsRNEMag a d p := by
  have hmid : (wp p0 + wp (p0+1)) * d = wp p0 * d + wp (p0+1) * d := Nat.add_mul _ _ _
  have hmono : ∀ q q', q ≤ q' → wp q * d ≤ wp q' * d := fun q q' h => wpd_mono d h
  have hstr : ∀ q q', q < q' → wp q * d < wp q' * d := fun q q' h => wpd_strict d hd h
  unfold roundUp at hp
  rw [hmid] at hp
  unfold IsRNEMag
  generalize a * den = A at *
  by_cases hpi : PINF ≤ p0
  · -- overflow: everything in range is below the value
    have hmin : p = PINF := by omega
    rw [hmin]
    refine ⟨Nat.le_refl _, ?_, ?_⟩
    · intro q hq
      have h1 := hmono q PINF hq
      have h2 := hmono PINF p0 hpi
      unfold adist; omega
    · intro q hq hne
      have h1 := hstr q PINF (by omega)
      have h2 := hmono PINF p0 hpi
      unfold adist; omega
  · have hp' : p0 + 1 ≤ PINF := by omega
    rcases hp with ⟨hup, rfl⟩ | ⟨hup, rfl⟩
    · rw [Nat.min_eq_right hp']
      refine ⟨hp', ?_, ?_⟩
      · intro q hq
        by_cases hq' : q ≤ p0
        · have := hmono q p0 hq'; unfold adist; omega
        · have := hmono (p0+1) q (by omega); unfold adist; omega
      · intro q hq hne
        by_cases hq' : q ≤ p0
        · have := hmono q p0 hq'; unfold adist; omega
        · have := hstr (p0+1) q (by omega); unfold adist; omega
    · rw [Nat.min_eq_right (by omega)]
      refine ⟨by omega, ?_, ?_⟩
      · intro q hq
        by_cases hq' : q ≤ p0
        · have := hmono q p0 hq'; unfold adist; omega
        · have := hmono (p0+1) q (by omega); unfold adist; omega
      · intro q hq hne
        by_cases hq' : q < p0
        · have := hstr q p0 hq'; unfold adist; omega
        · have := hmono (p0+1) q (by omega); unfold adist; omega

/-- **uniqueness** of the rounded magnitude -/
theorem IsRNEMag.unique {a d p p' : Nat} (hd : 0 < d) (h : IsRNEMag a d p) (h' : IsRNEMag a d p') : p = p' := by
  obtain ⟨hp, hn, ht⟩ := h
  obtain ⟨hp', hn', ht'⟩ := h'
  have hstr : ∀ q q', q < q' → wp q * d < wp q' * d := fun q q' h => wpd_strict d hd h
  apply Classical.byContradiction
  intro hne
  have e1 := hn p' hp'
  have e2 := hn' p hp
  have t1 := ht p' hp' (fun h => hne h.symm) (by omega)
  have t2 := ht' p hp hne (by omega)
  generalize a * den = A at *
  rcases Nat.lt_or_ge p p' with hlt | hge
  · have s := hstr p p' hlt
    by_cases hadj : p + 1 < p'
    · have s1 := hstr p (p+1) (by omega)
      have s2 := hstr (p+1) p' hadj
      have n1 := hn (p+1) (by omega)
      unfold adist at *; omega
    · omega
  · have hlt : p' < p := by omega
    have s := hstr p' p hlt
    by_cases hadj : p' + 1 < p
    · have s1 := hstr p' (p'+1) (by omega)
      have s2 := hstr (p'+1) p hadj
      have n1 := hn (p'+1) (by omega)
      unfold adist at *; omega
    · omega

/-- the same rational written with another numerator/denominator rounds to the same pattern -/
theorem IsRNEMag.congr {a d a' d' p : Nat} (hd : 0 < d) (hd' : 0 < d') (he : a * d' = a' * d)
    (h : IsRNEMag a d p) : IsRNEMag a' d' p := by
  obtain ⟨hp, hn, ht⟩ := h
  have key : ∀ q, adist (wp q * d') (a' * den) * d = adist (wp q * d) (a * den) * d' := by
    intro q
    rw [← adist_mul, ← adist_mul]
    generalize den = D
    have e1 : wp q * d' * d = wp q * d * d' := by ac_rfl
    have e2 : a' * D * d = a * D * d' := by
      calc a' * D * d = (a' * d) * D := by ac_rfl
        _ = (a * d') * D := by rw [he]
        _ = a * D * d' := by ac_rfl
    rw [e1, e2]
  refine ⟨hp, ?_, ?_⟩
  · intro q hq
    have h1 := hn q hq
    have h2 : adist (wp p * d) (a * den) * d' ≤ adist (wp q * d) (a * den) * d' := Nat.mul_le_mul_right _ h1
    rw [← key, ← key] at h2
    exact Nat.le_of_mul_le_mul_right h2 hd
  · intro q hq hne heq
    apply ht q hq hne
    have h2 : adist (wp p * d') (a' * den) * d = adist (wp q * d') (a' * den) * d := by rw [heq]
    rw [key, key] at h2
    exact Nat.eq_of_mul_eq_mul_right hd' h2

/-- a representable magnitude rounds to itself -/
theorem IsRNEMag.exact (p : Nat) (hp : p ≤ PINF) : IsRNEMag (wp p) den p := by
  have hd := den_pos
  have hstr : ∀ q q', q < q' → wp q * den < wp q' * den := fun q q' h => wpd_strict den hd h
  unfold IsRNEMag
  generalize den = D at *
  refine ⟨hp, ?_, ?_⟩
  · intro q _; unfold adist; omega
  · intro q _ hne
    rcases Nat.lt_or_ge q p with h | h
    · have := hstr q p h; unfold adist; omega
    · have := hstr p q (by omega); unfold adist; omega

end IEEE
