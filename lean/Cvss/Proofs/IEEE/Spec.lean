import Cvss.Proofs.IEEE.Mag
/-!
# Correct rounding, stated on `Spec.F64Val.ofBits`

`IsRNE n d r`: the 64-bit pattern `r` is the IEEE-754 binary64 round-to-nearest-even image of the rational
number `n / d` (`n : Int`, `d : Nat`, `d > 0`).  No real numbers: every comparison is cross-multiplied.
-/
namespace IEEE
open Spec F64Order

/-- `|m/den − n/d|`, scaled by `den · d` -/
def dist (n : Int) (d : Nat) (m : Int) : Nat := (m * d - n * den).natAbs

/-- the overflow threshold `2^1024 − 2^970 = (2^54 − 1) · 2^970`: the midpoint between the largest finite
    double `(2^53 − 1) · 2^971` and `2^1024`.  A value of magnitude `≥ ovf` rounds to ∞ (IEEE-754 §4.3.1). -/
def ovf : Nat := (2^54 - 1) * 2^970

/-- **`r` is `n/d` rounded to nearest, ties to even** (binary64, overflow to ±∞):
  * `r` is a 64-bit pattern and not a NaN;
  * `r` is `+∞` iff `n/d ≥ 2^1024 − 2^970`, `−∞` iff `n/d ≤ −(2^1024 − 2^970)`;
  * otherwise `r` is finite with value `m/den`, and no finite double is strictly closer to `n/d`; if another
    finite double value `m' ≠ m` is equally close, the significand of `r` is even (lowest bit of the pattern);
  * a non-zero `n/d` gives its sign to `r` (also when the result is a zero).
  For `n = 0` both `+0` and `−0` satisfy the predicate; the theorems about the operations state the sign
  of zero results separately. -/
structure IsRNE (n : Int) (d : Nat) (r : Nat) : Prop where
  bits : r < 2^64
  notNaN : F64Val.ofBits r ≠ .nan
  posInf : F64Val.ofBits r = .posInf ↔ (ovf : Int) * d ≤ n
  negInf : F64Val.ofBits r = .negInf ↔ n ≤ -((ovf : Int) * d)
  nearest : ∀ m, F64Val.ofBits r = .fin m → ∀ q m', F64Val.ofBits q = .fin m' → dist n d m ≤ dist n d m'
  even : ∀ m, F64Val.ofBits r = .fin m → ∀ q m', F64Val.ofBits q = .fin m' → m' ≠ m →
    dist n d m = dist n d m' → r % 2 = 0
  sign : (n < 0 → signBit r = 1) ∧ (0 < n → signBit r = 0)

/-! ## decoding packed patterns -/

theorem pinf_lt : PINF < P63 := by decide

theorem wp_pinf_eq_B : wp PINF = B := rfl

theorem pack_notNaN (s p : Nat) (_hs : s ≤ 1) (hp : p ≤ PINF) : F64.isNaN (s * P63 + p) = false := by
  cases hh : F64.isNaN (s * P63 + p)
  · rfl
  · have := (isNaN_iff _).mp hh
    unfold Spec.expField Spec.fracField at this
    simp only [P63, PINF] at *
    omega

theorem sval_pack (s p : Nat) (hs : s ≤ 1) (hp : p ≤ PINF) :
    sval (s * P63 + p) = if s = 0 then (wp p : Int) else - (wp p : Int) := by
  unfold sval
  have := pinf_lt
  by_cases h : s = 0
  · subst h; rw [if_pos (by omega), if_pos rfl]; simp
  · have h1 : s = 1 := by omega
    subst h1
    rw [if_neg (by omega), if_neg (by omega)]
    have : 1 * P63 + p - P63 = p := by omega
    rw [this]

/-- a packed finite pattern denotes `± wp p / den` -/
theorem ofBits_pack (s p : Nat) (hs : s ≤ 1) (hp : p < PINF) :
    F64Val.ofBits (s * P63 + p) = .fin (if s = 0 then (wp p : Int) else - (wp p : Int)) := by
  have hx : s * P63 + p < P64 := by simp only [P63, P64, PINF] at *; omega
  have hlt : wp p < B := by rw [← wp_pinf_eq_B]; exact wp_strict hp
  have hsv := sval_pack s p hs (by omega)
  rcases ofBits_cases _ hx (pack_notNaN s p hs (by omega)) with ⟨a, _, _⟩ | ⟨_, a⟩ | ⟨_, a⟩
  · rw [a, hsv]
  · rw [hsv] at a; split at a <;> omega
  · rw [hsv] at a; split at a <;> omega

theorem ofBits_pack_inf (s : Nat) (hs : s ≤ 1) :
    F64Val.ofBits (s * P63 + PINF) = if s = 0 then .posInf else .negInf := by
  have : s = 0 ∨ s = 1 := by omega
  rcases this with rfl | rfl <;> decide +kernel

theorem signBit_pack (s p : Nat) (hs : s ≤ 1) (hp : p ≤ PINF) : signBit (s * P63 + p) = s := by
  unfold signBit; simp only [P63, PINF] at *; omega

/-- every finite value is `± wp q0` for a sign-less finite pattern `q0` -/
theorem fin_decomp (q : Nat) (m' : Int) (h : F64Val.ofBits q = .fin m') :
    ∃ q0, q0 < PINF ∧ (m' = (wp q0 : Int) ∨ m' = - (wp q0 : Int)) := by
  unfold F64Val.ofBits at h
  have hE := expField_lt q
  have hF := fracField_lt q
  by_cases he : Spec.expField q = 2047
  · rw [if_pos he] at h; split at h
    · split at h <;> cases h
    · cases h
  · rw [if_neg he, magnitude_eq] at h
    have h := F64Val.fin.inj h
    refine ⟨Spec.expField q * P52 + Spec.fracField q, ?_, ?_⟩
    · simp only [P52, PINF] at *; omega
    · have e1 : (Spec.expField q * P52 + Spec.fracField q) / P52 = Spec.expField q := by
        simp only [P52] at *; omega
      have e2 : (Spec.expField q * P52 + Spec.fracField q) % P52 = Spec.fracField q := by
        simp only [P52] at *; omega
      unfold wp; rw [e1, e2, ← h]
      split
      · exact Or.inl rfl
      · exact Or.inr rfl

/-! ## from the magnitude formulation (`IsRNEMag`) to `IsRNE` -/

theorem ovf_mid : wp (PINF - 1) + wp PINF = 2 * (ovf * Spec.F64Val.den) := by decide +kernel
theorem ovf_pos : 0 < ovf := by decide +kernel
theorem pinf_pred_odd : (PINF - 1) % 2 = 1 := by decide
theorem pinf_even : PINF % 2 = 0 := by decide
theorem p63_even : P63 % 2 = 0 := by decide

theorem dist_pp (a d W : Nat) : dist (a:Int) d (W:Int) = adist (W * d) (a * den) := by
  unfold dist adist; generalize den = D; omega
theorem dist_nn (a d W : Nat) : dist (-(a:Int)) d (-(W:Int)) = adist (W * d) (a * den) := by
  unfold dist adist; generalize den = D; rw [Int.neg_mul, Int.neg_mul]; omega
theorem dist_pn (a d W : Nat) : dist (a:Int) d (-(W:Int)) = W * d + a * den := by
  unfold dist; generalize den = D; rw [Int.neg_mul]; omega
theorem dist_np (a d W : Nat) : dist (-(a:Int)) d (W:Int) = W * d + a * den := by
  unfold dist; generalize den = D; rw [Int.neg_mul]; omega

/-- distance of the value `σ·W` from `σ·a/d`, and of `−σ·W` -/
theorem dist_same (s a d W : Nat) :
    dist (if s = 0 then (a:Int) else -(a:Int)) d (if s = 0 then (W:Int) else -(W:Int)) = adist (W * d) (a * den) := by
  split
  · exact dist_pp a d W
  · exact dist_nn a d W
theorem dist_opp (s a d W : Nat) :
    dist (if s = 0 then (a:Int) else -(a:Int)) d (if s = 0 then -(W:Int) else (W:Int)) = W * d + a * den := by
  split
  · exact dist_pn a d W
  · exact dist_np a d W

/-- overflow threshold, on magnitudes: the rounded pattern is `PINF` iff `a/d ≥ 2^1024 − 2^970` -/
theorem IsRNEMag.inf_iff {a d p : Nat} (hd : 0 < d) (h : IsRNEMag a d p) : p = PINF ↔ ovf * d ≤ a := by
  obtain ⟨hp, hn, ht⟩ := h
  have hmid : wp (PINF - 1) * d + wp PINF * d = 2 * ((ovf * d) * den) := by
    rw [← Nat.add_mul, ovf_mid, ← den_eq]; generalize ovf = O; generalize den = D; ac_rfl
  have hs1 := wpd_strict d hd (show PINF - 1 < PINF by decide)
  have hdp := den_pos
  have hcmp : (ovf * d ≤ a → (ovf * d) * den ≤ a * den) ∧ (a < ovf * d → a * den < (ovf * d) * den) :=
    ⟨fun h => Nat.mul_le_mul_right _ h, fun h => Nat.mul_lt_mul_of_pos_right h hdp⟩
  generalize ovf * d = OD at *
  constructor
  · intro hpi
    subst hpi
    have h1 := hn (PINF - 1) (by omega)
    apply Classical.byContradiction
    intro hc
    have := hcmp.2 (by omega)
    unfold adist at h1
    omega
  · intro hle
    apply Classical.byContradiction
    intro hne
    have hlt : p ≤ PINF - 1 := by omega
    have h1 := hn PINF (Nat.le_refl _)
    have h2 := wpd_mono d hlt
    have := hcmp.1 hle
    have ht1 := ht PINF (Nat.le_refl _) (fun h => hne h.symm)
    by_cases hpm : p = PINF - 1
    · subst hpm
      have := pinf_pred_odd
      unfold adist at h1 ht1
      omega
    · have h3 := wpd_strict d hd (show p < PINF - 1 by omega)
      unfold adist at h1
      omega

theorem isRNE_of_mag (s a d p : Nat) (n : Int) (hs : s ≤ 1) (hd : 0 < d)
    (hn : n = if s = 0 then (a:Int) else -(a:Int)) (h : IsRNEMag a d p) : IsRNE n d (s * P63 + p) := by
  have hinf := h.inf_iff hd
  obtain ⟨hp, hnear, htie⟩ := h
  have hovd : 0 < ovf * d := Nat.mul_pos ovf_pos hd
  have hsb := signBit_pack s p hs hp
  have hbits : s * P63 + p < 2^64 := by simp only [P63, PINF] at *; omega
  have hs01 : s = 0 ∨ s = 1 := by omega
  by_cases hpi : p = PINF
  · have hle := hinf.mp hpi
    subst hpi
    have hob := ofBits_pack_inf s hs
    refine ⟨hbits, ?_, ?_, ?_, ?_, ?_, ?_⟩
    · rw [hob]; split <;> intro h <;> cases h
    · rw [hob, hn]; rcases hs01 with rfl | rfl <;> simp <;> omega
    · rw [hob, hn]; rcases hs01 with rfl | rfl <;> simp <;> omega
    · intro m hm; rw [hob] at hm; split at hm <;> cases hm
    · intro m hm; rw [hob] at hm; split at hm <;> cases hm
    · rw [hsb, hn]; rcases hs01 with rfl | rfl <;> simp <;> omega
  · have hlt : p < PINF := by omega
    have hnle : ¬ ovf * d ≤ a := fun h => hpi (hinf.mpr h)
    have hob := ofBits_pack s p hs hlt
    have h0 := hnear 0 (by decide)
    rw [wp_zero, Nat.zero_mul] at h0
    have key : ∀ q m', F64Val.ofBits q = .fin m' →
        dist n d (if s = 0 then (wp p : Int) else -(wp p : Int)) ≤ dist n d m' ∧
        (m' ≠ (if s = 0 then (wp p : Int) else -(wp p : Int)) →
          dist n d (if s = 0 then (wp p : Int) else -(wp p : Int)) = dist n d m' → p % 2 = 0) := by
      intro q m' hq
      obtain ⟨q0, hq0, hm'⟩ := fin_decomp q m' hq
      have hsame : ∀ q0, q0 < PINF → m' = (if s = 0 then (wp q0 : Int) else -(wp q0 : Int)) →
          (dist n d (if s = 0 then (wp p : Int) else -(wp p : Int)) ≤ dist n d m' ∧
          (m' ≠ (if s = 0 then (wp p : Int) else -(wp p : Int)) →
            dist n d (if s = 0 then (wp p : Int) else -(wp p : Int)) = dist n d m' → p % 2 = 0)) := by
        intro q0 hq0 hm'
        rw [hn, hm', dist_same, dist_same]
        refine ⟨hnear q0 (by omega), fun hne heq => htie q0 (by omega) ?_ heq⟩
        intro h; rw [h] at hne; exact hne rfl
      by_cases hz : wp q0 = 0
      · have : q0 = 0 := (wp_eq_zero_iff q0).mp hz
        subst this
        apply hsame 0 (by decide)
        rw [wp_zero] at hm' ⊢
        rcases hm' with h | h <;> rw [h] <;> split <;> rfl
      · by_cases hsm : m' = (if s = 0 then (wp q0 : Int) else -(wp q0 : Int))
        · exact hsame q0 hq0 hsm
        · have hopp : m' = (if s = 0 then -(wp q0 : Int) else (wp q0 : Int)) := by
            rcases hs01 with rfl | rfl <;> simp at hsm ⊢ <;> omega
          rw [hn, hopp, dist_same, dist_opp]
          have : 0 < wp q0 * d := Nat.mul_pos (by omega) hd
          unfold adist at h0 ⊢
          refine ⟨by omega, fun _ h => ?_⟩
          omega
    refine ⟨hbits, ?_, ?_, ?_, ?_, ?_, ?_⟩
    · rw [hob]; intro h; cases h
    · rw [hob, hn]; rcases hs01 with rfl | rfl <;> simp <;> omega
    · rw [hob, hn]; rcases hs01 with rfl | rfl <;> simp <;> omega
    · intro m hm q m' hq
      rw [hob] at hm; have hm := F64Val.fin.inj hm; rw [← hm]
      exact (key q m' hq).1
    · intro m hm q m' hq hne heq
      rw [hob] at hm; have hm := F64Val.fin.inj hm; rw [← hm] at hne heq
      have := (key q m' hq).2 hne heq
      have := p63_even
      generalize P63 = X at *
      rcases hs01 with rfl | rfl <;> omega
    · rw [hsb, hn]; rcases hs01 with rfl | rfl <;> simp <;> omega

end IEEE
