import Cvss.Proofs.IEEE.OfNat
/-!
# `F64.div` is the correctly rounded quotient, for all finite operands with a non-zero divisor
(and `x/0 = ±∞`, `0/0 = NaN`)
-/
namespace IEEE
open Spec F64Order

/-- the quotient with a sticky bit represents `mx·2^Ex / (my·2^Ey)` -/
theorem div_rep (mx my Ex Ey k q : Nat) (hmx : 0 < mx) (hmy : 0 < my) (hmy53 : my < 2 * P52)
    (hEx : 1 ≤ Ex) (hEy : Ey ≤ 2046) (hk : k = 65 + Nat.log2 my) (hq : q = mx * 2^k / my) :
    Rep (mx * 2^Ex) (my * 2^Ey) (if mx * 2^k - q * my = 0 then 2 * q else 2 * q + 1)
      (Ex + 4096 + 1075 - Ey - (k + 1)) ∧ 2^64 ≤ q := by
  have hL1 : 2^(Nat.log2 my) ≤ my := Nat.log2_self_le (by omega)
  have hL2 : my < 2^(Nat.log2 my + 1) := Nat.lt_log2_self
  have hL : Nat.log2 my < 53 := (Nat.log2_lt (by omega)).mpr (by rw [p53]; exact hmy53)
  generalize Nat.log2 my = L at *
  -- q ≥ 2^64
  have hq64 : 2^64 ≤ q := by
    rw [hq, Nat.le_div_iff_mul_le hmy]
    have h1 : 2^64 * my ≤ 2^64 * 2^(L+1) := Nat.mul_le_mul_left _ (by omega)
    have h2 : 2^64 * 2^(L+1) = 2^k := by rw [← Nat.pow_add, hk]; congr 1; omega
    have h3 : 2^k ≤ mx * 2^k := Nat.le_mul_of_pos_left _ hmx
    omega
  refine ⟨?_, hq64⟩
  -- n = q·my + r
  have hdm := Nat.div_add_mod (mx * 2^k) my
  have hml := Nat.mod_lt (mx * 2^k) hmy
  rw [← hq, Nat.mul_comm my q] at hdm
  generalize hr : mx * 2^k % my = r at *
  generalize he : Ex + 4096 + 1075 - Ey - (k + 1) = e
  have hsum : (k + 1) + e + Ey = Ex + (4096 + 1075) := by omega
  have hkey : 2 * 2^k * (2^e * 2^Ey) = 2^Ex * (2^3021 * den * den) := by
    have h1 : 2^Ex * 2^(4096 + 1075) = 2^(k + 1 + e + Ey) := by rw [← Nat.pow_add, hsum]
    rw [← h5171, h1, Nat.pow_add, Nat.pow_add, Nat.pow_succ]
    generalize (2:Nat)^k = K
    generalize (2:Nat)^e = X
    generalize (2:Nat)^Ey = Y
    ac_rfl
  have hZ : 0 < 2^e * 2^Ey := Nat.mul_pos (Nat.two_pow_pos _) (Nat.two_pow_pos _)
  generalize hZd : 2^e * 2^Ey = Z at *
  have hL : mx * 2^Ex * (2^3021 * den) * den = (2 * (mx * 2^k)) * Z := by
    calc mx * 2^Ex * (2^3021 * den) * den = mx * (2^Ex * (2^3021 * den * den)) := by
          generalize den = D; generalize (2:Nat)^3021 = Q; ac_rfl
      _ = mx * (2 * 2^k * Z) := by rw [hkey]
      _ = (2 * (mx * 2^k)) * Z := by ac_rfl
  have hR : ∀ c, c * (2^e * (my * 2^Ey)) = (c * my) * Z := by
    intro c; rw [← hZd]; ac_rfl
  by_cases h0 : mx * 2^k - q * my = 0
  · rw [if_pos h0]
    apply rep_exact
    rw [hL, hR]
    have : mx * 2^k = q * my := by omega
    rw [this]; ac_rfl
  · rw [if_neg h0]
    have hr0 : 0 < r := by omega
    apply rep_sticky
    · omega
    · omega
    · rw [hL, hR]
      apply Nat.mul_lt_mul_of_pos_right _ hZ
      have : (2 * q + 1 - 1) * my = 2 * (q * my) := by
        have : 2 * q + 1 - 1 = 2 * q := by omega
        rw [this, Nat.mul_assoc]
      omega
    · rw [hL, hR]
      apply Nat.mul_lt_mul_of_pos_right _ hZ
      have : (2 * q + 1 + 1) * my = 2 * (q * my) + 2 * my := by
        have : 2 * q + 1 + 1 = 2 * (q + 1) := by omega
        rw [this, Nat.mul_assoc, Nat.add_mul, Nat.one_mul, Nat.mul_add]
      omega

theorem divF_eq (x y ex ey : Nat) :
    F64.divF x y ex ey =
      if F64.mant y ey = 0 then (if F64.mant x ex = 0 then FB.NAN else (sgn x + sgn y) % 2 * P63 + PINF)
      else if F64.mant x ex = 0 then (sgn x + sgn y) % 2 * P63
      else F64.rnd ((sgn x + sgn y) % 2 * P63)
        (if F64.mant x ex * 2^(65 + Nat.log2 (F64.mant y ey))
              - F64.mant x ex * 2^(65 + Nat.log2 (F64.mant y ey)) / F64.mant y ey * F64.mant y ey = 0
         then 2 * (F64.mant x ex * 2^(65 + Nat.log2 (F64.mant y ey)) / F64.mant y ey)
         else 2 * (F64.mant x ex * 2^(65 + Nat.log2 (F64.mant y ey)) / F64.mant y ey) + 1)
        (F64.exf ex + 4096 + 1075 - F64.exf ey - (65 + Nat.log2 (F64.mant y ey) + 1)) := by
  unfold F64.divF
  simp only [flet_eq, cond_beq, F64.lg_eq_log2, nshl, Nat.add_eq, Nat.sub_eq, Nat.mul_eq, nmod,
    Nat.succ_eq_add_one]
  rfl

theorem div_unfold (x y : Nat) (hx : F64.ebits x < 2047) (hy : F64.ebits y < 2047) :
    F64.div x y = F64.divF x y (F64.ebits x) (F64.ebits y) := by
  unfold F64.div
  simp only [flet_eq]
  rw [fin2_true x y hx hy, cond_true]

/-- the signed quotient `vx / vy` as a fraction with positive denominator -/
theorem sign_div (sx sy A C : Nat) (hsx : sx ≤ 1) (hsy : sy ≤ 1) (hC : 0 < C) :
    (if (if sy = 0 then (C:Int) else -(C:Int)) < 0 then -(if sx = 0 then (A:Int) else -(A:Int))
      else (if sx = 0 then (A:Int) else -(A:Int))) =
      (if (sx + sy) % 2 = 0 then (A : Int) else -(A : Int)) ∧
    (if sy = 0 then (C:Int) else -(C:Int)).natAbs = C := by
  have h1 : sx = 0 ∨ sx = 1 := by omega
  have h2 : sy = 0 ∨ sy = 1 := by omega
  rcases h1 with rfl | rfl <;> rcases h2 with rfl | rfl <;> simp <;> omega

theorem dec_zero_iff {x vx s E m} (h : Dec x vx s E m) : vx = 0 ↔ m = 0 := by
  have hp : 0 < 2^E := Nat.two_pow_pos E
  rw [h.val]
  constructor
  · intro h0
    have : m * 2^E = 0 := by split at h0 <;> omega
    rcases Nat.mul_eq_zero.mp this with h | h <;> omega
  · intro h0; rw [h0]; simp

/-- **division**: for finite `x`, `y` with `y ≠ ±0`, `F64.div x y` is the round-to-nearest-even image of
    the exact quotient `vx / vy` (written with the positive denominator `|vy|`), and its sign bit is the xor
    of the operands' sign bits (also for zero results). -/
theorem div_rne (x y : Nat) (vx vy : Int) (hx : x < 2^64) (hy : y < 2^64)
    (hvx : F64Val.ofBits x = .fin vx) (hvy : F64Val.ofBits y = .fin vy) (hy0 : vy ≠ 0) :
    IsRNE (if vy < 0 then -vx else vx) vy.natAbs (F64.div x y) ∧
    signBit (F64.div x y) = (signBit x + signBit y) % 2 := by
  obtain ⟨hex, dx⟩ := decode x vx hx hvx
  obtain ⟨hey, dy⟩ := decode y vy hy hvy
  rw [← sgn_eq_signBit x hx, ← sgn_eq_signBit y hy, div_unfold x y hex hey, divF_eq]
  have hmy0 : F64.mant y (F64.ebits y) ≠ 0 := fun h => hy0 ((dec_zero_iff dy).mpr h)
  have hmx0 := dec_zero_iff dx
  rw [if_neg hmy0]
  generalize sgn x = sx at *
  generalize sgn y = sy at *
  generalize F64.exf (F64.ebits x) = Ex at *
  generalize F64.exf (F64.ebits y) = Ey at *
  generalize F64.mant x (F64.ebits x) = mx at *
  generalize F64.mant y (F64.ebits y) = my at *
  have hC : 0 < my * 2^Ey := Nat.mul_pos (by omega) (Nat.two_pow_pos _)
  have hs : (sx + sy) % 2 ≤ 1 := by omega
  obtain ⟨hn, hd⟩ := sign_div sx sy (mx * 2^Ex) (my * 2^Ey) dx.s_le dy.s_le hC
  rw [← dx.val, ← dy.val] at hn
  rw [← dy.val] at hd
  rw [hd]
  generalize (sx + sy) % 2 = s at *
  by_cases hm0 : mx = 0
  · rw [if_pos hm0]
    rw [hm0, Nat.zero_mul] at hn
    have := isRNE_of_mag s 0 _ 0 _ hs hC hn (IsRNEMag.zero _ hC)
    have h2 := signBit_pack s 0 hs (Nat.zero_le _)
    rw [Nat.add_zero] at this h2
    exact ⟨this, h2⟩
  · rw [if_neg hm0]
    obtain ⟨hrep, hq64⟩ := div_rep mx my Ex Ey _ _ (by omega) (by omega) dy.m_lt dx.E_ge dy.E_le rfl rfl
    have hpos : 0 < (if mx * 2^(65 + Nat.log2 my) - mx * 2^(65 + Nat.log2 my) / my * my = 0
        then 2 * (mx * 2^(65 + Nat.log2 my) / my) else 2 * (mx * 2^(65 + Nat.log2 my) / my) + 1) := by
      split <;> omega
    obtain ⟨p, hp, hr⟩ := rnd_rne (s * P63) _ _ _ _ hpos hC hrep
    rw [hp]
    exact ⟨isRNE_of_mag s _ _ p _ hs hC hn hr, signBit_pack s p hs hr.1⟩

/-- `0 / 0` is NaN -/
theorem div_zero_zero (x y : Nat) (hx : x < 2^64) (hy : y < 2^64)
    (hvx : F64Val.ofBits x = .fin 0) (hvy : F64Val.ofBits y = .fin 0) :
    F64.div x y = FB.NAN ∧ F64Val.ofBits (F64.div x y) = .nan := by
  obtain ⟨hex, dx⟩ := decode x 0 hx hvx
  obtain ⟨hey, dy⟩ := decode y 0 hy hvy
  rw [div_unfold x y hex hey, divF_eq, if_pos ((dec_zero_iff dy).mp rfl), if_pos ((dec_zero_iff dx).mp rfl)]
  exact ⟨rfl, by decide +kernel⟩

/-- `x / 0` for a finite non-zero `x` is `±∞`, the sign being the xor of the sign bits -/
theorem div_by_zero (x y : Nat) (vx : Int) (hx : x < 2^64) (hy : y < 2^64)
    (hvx : F64Val.ofBits x = .fin vx) (hvy : F64Val.ofBits y = .fin 0) (hx0 : vx ≠ 0) :
    F64Val.ofBits (F64.div x y) = if (signBit x + signBit y) % 2 = 0 then .posInf else .negInf := by
  obtain ⟨hex, dx⟩ := decode x vx hx hvx
  obtain ⟨hey, dy⟩ := decode y 0 hy hvy
  rw [div_unfold x y hex hey, divF_eq, if_pos ((dec_zero_iff dy).mp rfl),
    if_neg (fun h => hx0 ((dec_zero_iff dx).mpr h)), ← sgn_eq_signBit x hx, ← sgn_eq_signBit y hy]
  have := dx.s_le; have := dy.s_le
  exact ofBits_pack_inf _ (by omega)

end IEEE
