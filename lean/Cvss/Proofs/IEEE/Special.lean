import Cvss.Proofs.IEEE.Tenth
/-!
# The few special-operand facts proved: NaN operands give NaN
(everything else about `FB.*` on NaN/±∞ operands stays trusted / validated by differential testing)
-/
namespace IEEE
open Spec F64Order

theorem ofBits_NAN : F64Val.ofBits FB.NAN = .nan := by decide +kernel

theorem not_fin2_of_nan (x y : Nat) (h : F64.isNaN x = true ∨ F64.isNaN y = true) :
    (Nat.blt (F64.ebits x) 2047 && Nat.blt (F64.ebits y) 2047) = false := by
  cases hb : (Nat.blt (F64.ebits x) 2047 && Nat.blt (F64.ebits y) 2047)
  · rfl
  · rw [Bool.and_eq_true, Nat.blt_eq, Nat.blt_eq, ebits_eq, ebits_eq] at hb
    rcases h with h | h
    · have := ((isNaN_iff x).mp h).1; omega
    · have := ((isNaN_iff y).mp h).1; omega

theorem fb_nan_or (x y : Nat) (h : F64.isNaN x = true ∨ F64.isNaN y = true) :
    (FB.isNaN x || FB.isNaN y) = true := by
  rw [fb_isNaN_eq, fb_isNaN_eq, Bool.or_eq_true]; exact h

/-- NaN operands give NaN: `mul`, `add`, `div` -/
theorem mul_nan (x y : Nat) (h : F64Val.ofBits x = .nan ∨ F64Val.ofBits y = .nan) :
    F64Val.ofBits (F64.mul x y) = .nan := by
  rw [ofBits_nan_iff, ofBits_nan_iff] at h
  unfold F64.mul
  simp only [flet_eq]
  rw [not_fin2_of_nan x y h, cond_false]
  unfold FB.mul
  rw [if_pos (fb_nan_or x y h)]
  exact ofBits_NAN

theorem add_nan (x y : Nat) (h : F64Val.ofBits x = .nan ∨ F64Val.ofBits y = .nan) :
    F64Val.ofBits (F64.add x y) = .nan := by
  rw [ofBits_nan_iff, ofBits_nan_iff] at h
  unfold F64.add
  simp only [flet_eq]
  rw [not_fin2_of_nan x y h, cond_false]
  unfold FB.add
  rw [if_pos (fb_nan_or x y h)]
  exact ofBits_NAN

theorem div_nan (x y : Nat) (h : F64Val.ofBits x = .nan ∨ F64Val.ofBits y = .nan) :
    F64Val.ofBits (F64.div x y) = .nan := by
  rw [ofBits_nan_iff, ofBits_nan_iff] at h
  unfold F64.div
  simp only [flet_eq]
  rw [not_fin2_of_nan x y h, cond_false]
  unfold FB.div
  rw [if_pos (fb_nan_or x y h)]
  exact ofBits_NAN

theorem sub_nan (x y : Nat) (hy : y < 2^64) (h : F64Val.ofBits x = .nan ∨ F64Val.ofBits y = .nan) :
    F64Val.ofBits (F64.sub x y) = .nan := by
  unfold F64.sub
  apply add_nan
  rcases h with h | h
  · exact Or.inl h
  · right; rw [neg_val y hy, h]; rfl

end IEEE
