import Cvss.Proofs.Parse2Split
/-!
# v2.0 parser proofs, part 2: the loop generalised to an arbitrary `set`, and its name automaton

`parse20With order zero set` mirrors `Model.parse20` with the table, the zero object and the `Set`
function as parameters; `Model.parse20` is the instance at the regenerated table and `O20.set`.
The walk over `(slci, i)` is factored into the *name automaton* `nstep` (which looks only at the
abbreviation) and the stores through `set`.
-/
namespace Proofs.Parse2
open Model (Bytes Res cutColon splitN idx2 eValue eOrder eTooShort)
open Spec (joinSlash render Pair)

/-! ## the generalised model -/

def step2With {O : Type} (order : List (List Bytes)) (set : O → Bytes → Bytes → O × Go.Err)
    (slci i : Nat) (c : O) (pt : Bytes) : Res (Nat × Nat × O) :=
  let av := cutColon pt
  let abv := av.1
  let sel : Option (Nat × Option Bytes) :=
    if slci = 0 ∨ slci = 2 then some (slci, idx2 order slci i)
    else if slci = 1 then
      (if i = 0 ∧ idx2 order 1 i ≠ some abv then some (2, idx2 order 2 0) else some (1, idx2 order 1 i))
    else none
  match sel with
  | none => .err eValue
  | some (_, none) => .panic
  | some (slci, some tgt) =>
    if abv ≠ tgt then .err eOrder else
    match set c abv av.2 with
    | (c', e) =>
      if e ≠ Go.errNil then .err e else
      let i := i + 1
      if i = (order.getD slci []).length then .ok (slci + 1, 0, c') else .ok (slci, i, c')

def loop2With {O : Type} (order : List (List Bytes)) (set : O → Bytes → Bytes → O × Go.Err) :
    List Bytes → Nat → Nat → O → Res O
  | [], _, i, c => if i ≠ 0 then .err eTooShort else .ok c
  | pt :: rest, slci, i, c =>
    match step2With order set slci i c pt with
    | .ok (slci', i', c') => loop2With order set rest slci' i' c'
    | .err e => .err e
    | .panic => .panic

def parse20With {O : Type} (order : List (List Bytes)) (zero : O) (set : O → Bytes → Bytes → O × Go.Err)
    (s : Bytes) : Res O :=
  loop2With order set (splitN 13 s) 0 0 zero

theorem step2_eq (order : List (List Bytes)) :
    Model.step2 order = step2With order Model.O20.set := rfl

theorem loop2_eq (order : List (List Bytes)) (pts : List Bytes) (g i : Nat) (c : Model.O20) :
    Model.loop2 order pts g i c = loop2With order Model.O20.set pts g i c := by
  induction pts generalizing g i c with
  | nil => rfl
  | cons pt rest ih =>
    simp only [Model.loop2, loop2With, step2_eq]
    split <;> simp_all

/-- the model is the instance of the generalised parser at the regenerated table and `Set` -/
theorem parse20_eq : Model.parse20 = parse20With GenV20.tbl_order Model.O20.zero Model.O20.set := by
  funext s
  exact loop2_eq _ _ _ _ _

/-- the parser of an abstract contract -/
def parseK (K : Contract Model.O20 Spec.V2.metrics) : Bytes → Res Model.O20 :=
  parse20With GenV20.tbl_order K.zero K.set

theorem parse20_eq_parseK (K : Contract Model.O20 Spec.V2.metrics)
    (hz : K.zero = Model.O20.zero) (hs : K.set = Model.O20.set) : Model.parse20 = parseK K := by
  rw [parse20_eq, parseK, hz, hs]

/-! ## the name automaton -/

/-- the part of `step2` that looks only at the abbreviation: next state, or the error -/
def nstep (order : List (List Bytes)) (slci i : Nat) (abv : Bytes) : Res (Nat × Nat) :=
  let sel : Option (Nat × Option Bytes) :=
    if slci = 0 ∨ slci = 2 then some (slci, idx2 order slci i)
    else if slci = 1 then
      (if i = 0 ∧ idx2 order 1 i ≠ some abv then some (2, idx2 order 2 0) else some (1, idx2 order 1 i))
    else none
  match sel with
  | none => .err eValue
  | some (_, none) => .panic
  | some (slci, some tgt) =>
    if abv ≠ tgt then .err eOrder else
      if i + 1 = (order.getD slci []).length then .ok (slci + 1, 0) else .ok (slci, i + 1)

theorem step2With_eq {O : Type} (order : List (List Bytes)) (set : O → Bytes → Bytes → O × Go.Err)
    (g i : Nat) (c : O) (pt : Bytes) :
    step2With order set g i c pt =
      match nstep order g i (cutColon pt).1 with
      | .ok (g', i') =>
        if (set c (cutColon pt).1 (cutColon pt).2).2 ≠ Go.errNil then .err (set c (cutColon pt).1 (cutColon pt).2).2
        else .ok (g', i', (set c (cutColon pt).1 (cutColon pt).2).1)
      | .err e => .err e
      | .panic => .panic := by
  unfold step2With nstep
  dsimp only
  generalize set c (cutColon pt).1 (cutColon pt).2 = r
  obtain ⟨c', e⟩ := r
  dsimp only
  split
  · rfl
  · rfl
  · rename_i g' tgt hsel
    split
    · rfl
    · by_cases hl : i + 1 = (order.getD g' []).length
      · simp only [hl, if_true]
      · simp only [hl, if_false]

def nrun (order : List (List Bytes)) : List Bytes → Nat → Nat → Res (Nat × Nat)
  | [], g, i => .ok (g, i)
  | a :: rest, g, i =>
    match nstep order g i a with
    | .ok (g', i') => nrun order rest g' i'
    | .err e => .err e
    | .panic => .panic

def setAll {O : Type} (set : O → Bytes → Bytes → O × Go.Err) (c : O) (ps : List Pair) : O :=
  ps.foldl (fun c p => (set c p.1 p.2).1) c

theorem nrun_append (order : List (List Bytes)) (l1 l2 : List Bytes) (g i : Nat) :
    nrun order (l1 ++ l2) g i =
      match nrun order l1 g i with
      | .ok (g', i') => nrun order l2 g' i'
      | .err e => .err e
      | .panic => .panic := by
  induction l1 generalizing g i with
  | nil => rfl
  | cons a l1 ih =>
    simp only [List.cons_append, nrun]
    cases nstep order g i a with
    | ok st => exact ih st.1 st.2
    | err e => rfl
    | panic => rfl

/-- running over a prefix of rendered pairs whose stores all succeed -/
theorem loop_prefix {O : Type} (order : List (List Bytes)) (set : O → Bytes → Bytes → O × Go.Err)
    (ps : List Pair) (rest : List Bytes) (g i : Nat) (c : O)
    (hcolon : ∀ p ∈ ps, 58 ∉ p.1) (hset : ∀ p ∈ ps, ∀ c, (set c p.1 p.2).2 = Go.errNil) :
    loop2With order set (ps.map render ++ rest) g i c =
      match nrun order (ps.map (·.1)) g i with
      | .ok (g', i') => loop2With order set rest g' i' (setAll set c ps)
      | .err e => .err e
      | .panic => .panic := by
  induction ps generalizing g i c with
  | nil => rfl
  | cons p ps ih =>
    simp only [List.map_cons, List.cons_append, loop2With, nrun, step2With_eq]
    rw [cutColon_render_pair p (hcolon p (by simp))]
    cases hn : nstep order g i p.1 with
    | ok st =>
      simp only [hset p (by simp) c, ne_eq, not_true_eq_false, if_false]
      exact ih st.1 st.2 _ (fun q hq => hcolon q (by simp [hq])) (fun q hq => hset q (by simp [hq]))
    | err e => rfl
    | panic => rfl

/-- the head part is refused by the name automaton -/
theorem loop_head_nerr {O : Type} (order : List (List Bytes)) (set : O → Bytes → Bytes → O × Go.Err)
    (y : Bytes) (rest : List Bytes) (g i : Nat) (c : O) (e : Go.Err)
    (h : nstep order g i (cutColon y).1 = .err e) : loop2With order set (y :: rest) g i c = .err e := by
  simp only [loop2With, step2With_eq, h]

/-- the head part passes the name automaton but its store fails -/
theorem loop_head_seterr {O : Type} (order : List (List Bytes)) (set : O → Bytes → Bytes → O × Go.Err)
    (y : Bytes) (rest : List Bytes) (g i : Nat) (c : O) (st : Nat × Nat)
    (h : nstep order g i (cutColon y).1 = .ok st)
    (he : (set c (cutColon y).1 (cutColon y).2).2 ≠ Go.errNil) :
    loop2With order set (y :: rest) g i c = .err (set c (cutColon y).1 (cutColon y).2).2 := by
  simp only [loop2With, step2With_eq, h, he, ne_eq, not_false_eq_true, if_true]

/-! ## generic facts about `nstep` -/

theorem idx2_mem {order : List (List Bytes)} {g i : Nat} {t : Bytes} (h : idx2 order g i = some t) :
    t ∈ order.flatten := by
  unfold idx2 at h
  have h1 : t ∈ order.getD g [] := List.mem_of_getElem? h
  rw [List.getD_eq_getElem?_getD] at h1
  cases hg : order[g]? with
  | none => simp [hg] at h1
  | some l =>
    simp [hg] at h1
    exact List.mem_flatten.mpr ⟨l, List.mem_of_getElem? hg, h1⟩

/-- an abbreviation that is accepted is one of the table's -/
theorem nstep_ok_mem {order : List (List Bytes)} {g i : Nat} {a : Bytes} {st : Nat × Nat}
    (h : nstep order g i a = .ok st) : a ∈ order.flatten := by
  unfold nstep at h
  dsimp only at h
  split at h
  · cases h
  · cases h
  · rename_i g' tgt hsel
    split at h
    · cases h
    · rename_i hne
      have hat : a = tgt := Classical.not_not.mp hne
      subst hat
      split at hsel
      · simp only [Option.some.injEq, Prod.mk.injEq] at hsel
        exact idx2_mem hsel.2
      · split at hsel
        · split at hsel
          · simp only [Option.some.injEq, Prod.mk.injEq] at hsel
            exact idx2_mem hsel.2
          · simp only [Option.some.injEq, Prod.mk.injEq] at hsel
            exact idx2_mem hsel.2
        · cases hsel

/-- all abbreviations outside the table are treated alike -/
theorem nstep_unknown {order : List (List Bytes)} (g i : Nat) {a a' : Bytes}
    (ha : a ∉ order.flatten) (ha' : a' ∉ order.flatten) : nstep order g i a = nstep order g i a' := by
  have key : ∀ g i (x : Bytes), x ∉ order.flatten → idx2 order g i ≠ some x :=
    fun g i x hx h => hx (idx2_mem h)
  have key2 : ∀ (x : Bytes), x ∉ order.flatten → ∀ (o : Option Bytes) (g' i' : Nat), o = idx2 order g' i' →
      ∀ t, o = some t → x ≠ t := by
    intro x hx o g' i' ho t ht
    intro hxt; subst hxt
    exact key g' i' x hx (ho ▸ ht)
  unfold nstep
  dsimp only
  by_cases h02 : g = 0 ∨ g = 2
  · simp only [h02, if_true]
    cases hi : idx2 order g i with
    | none => rfl
    | some t =>
      have h1 : a ≠ t := fun h => key g i a ha (h ▸ hi)
      have h2 : a' ≠ t := fun h => key g i a' ha' (h ▸ hi)
      simp only [h1, h2, ne_eq, not_false_eq_true, if_true]
  · simp only [h02, if_false]
    by_cases h1 : g = 1
    · simp only [h1, if_true]
      have e1 : (idx2 order 1 i ≠ some a) = True := eq_true (key 1 i a ha)
      have e2 : (idx2 order 1 i ≠ some a') = True := eq_true (key 1 i a' ha')
      simp only [e1, e2]
      split
      · rfl
      · rfl
      · rename_i g' tgt hsel
        have hmem : tgt ∈ order.flatten := by
          split at hsel
          · simp only [Option.some.injEq, Prod.mk.injEq] at hsel
            exact idx2_mem hsel.2
          · simp only [Option.some.injEq, Prod.mk.injEq] at hsel
            exact idx2_mem hsel.2
        have h1 : a ≠ tgt := fun h => ha (h ▸ hmem)
        have h2 : a' ≠ tgt := fun h => ha' (h ▸ hmem)
        simp only [h1, h2, ne_eq, not_false_eq_true, if_true]
    · simp only [h1, if_false]

theorem nstep_ge3 (order : List (List Bytes)) (g i : Nat) (a : Bytes) (hg : 3 ≤ g) :
    nstep order g i a = .err eValue := by
  unfold nstep
  have h1 : ¬ (g = 0 ∨ g = 2) := by omega
  have h2 : ¬ g = 1 := by omega
  simp only [h1, h2, if_false]

/-! ## the first failing position of the name automaton -/

def nfail (order : List (List Bytes)) : List Bytes → Nat → Nat → Option (Nat × Go.Err)
  | [], _, _ => none
  | a :: rest, g, i =>
    match nstep order g i a with
    | .ok (g', i') => (nfail order rest g' i').map (fun pe => (pe.1 + 1, pe.2))
    | .err e => some (0, e)
    | .panic => none

theorem nfail_spec (order : List (List Bytes)) (names : List Bytes) (g i : Nat) (p : Nat) (e : Go.Err)
    (h : nfail order names g i = some (p, e)) :
    ∃ (hp : p < names.length) (st : Nat × Nat),
      nrun order (names.take p) g i = .ok st ∧ nstep order st.1 st.2 names[p] = .err e := by
  induction names generalizing g i p e with
  | nil => simp [nfail] at h
  | cons a rest ih =>
    simp only [nfail] at h
    cases hn : nstep order g i a with
    | ok st =>
      simp only [hn, Option.map_eq_some_iff] at h
      obtain ⟨⟨p', e'⟩, h1, h2⟩ := h
      simp only [Prod.mk.injEq] at h2
      obtain ⟨hp1, he⟩ := h2
      obtain ⟨hp, st', h3, h4⟩ := ih st.1 st.2 p' e' h1
      subst hp1
      refine ⟨by simp; omega, st', ?_, ?_⟩
      · simp only [List.take_succ_cons, nrun, hn]; exact h3
      · rw [← he]; simpa using h4
    | err e' =>
      simp only [hn, Option.some.injEq, Prod.mk.injEq] at h
      obtain ⟨rfl, rfl⟩ := h
      exact ⟨by simp, (g, i), rfl, by simpa using hn⟩
    | panic => simp [hn] at h

end Proofs.Parse2
