import Cvss.Proofs.Mono4BridgeDef
/-! GENERATED: bridge check (`scoreP` = Spec `scoreOf`, and ≥ 1), chunk 4, 8776 points -/
namespace Proofs.Mono4
set_option maxHeartbeats 2000000 in
theorem bridge_000010 : bridgeOkMV 0 0 0 0 1 0 = true := by decide +kernel
set_option maxHeartbeats 2000000 in
theorem bridge_000111 : bridgeOkMV 0 0 0 1 1 1 = true := by decide +kernel
set_option maxHeartbeats 2000000 in
theorem bridge_000210 : bridgeOkMV 0 0 0 2 1 0 = true := by decide +kernel
set_option maxHeartbeats 2000000 in
theorem bridge_001020 : bridgeOkMV 0 0 1 0 2 0 = true := by decide +kernel
set_option maxHeartbeats 2000000 in
theorem bridge_001101 : bridgeOkMV 0 0 1 1 0 1 = true := by decide +kernel
set_option maxHeartbeats 2000000 in
theorem bridge_001201 : bridgeOkMV 0 0 1 2 0 1 = true := by decide +kernel
set_option maxHeartbeats 2000000 in
theorem bridge_002011 : bridgeOkMV 0 0 2 0 1 1 = true := by decide +kernel
set_option maxHeartbeats 2000000 in
theorem bridge_002211 : bridgeOkMV 0 0 2 2 1 1 = true := by decide +kernel
set_option maxHeartbeats 2000000 in
theorem bridge_010010 : bridgeOkMV 0 1 0 0 1 0 = true := by decide +kernel
set_option maxHeartbeats 2000000 in
theorem bridge_010110 : bridgeOkMV 0 1 0 1 1 0 = true := by decide +kernel
set_option maxHeartbeats 2000000 in
theorem bridge_010210 : bridgeOkMV 0 1 0 2 1 0 = true := by decide +kernel
set_option maxHeartbeats 2000000 in
theorem bridge_011020 : bridgeOkMV 0 1 1 0 2 0 = true := by decide +kernel
set_option maxHeartbeats 2000000 in
theorem bridge_011201 : bridgeOkMV 0 1 1 2 0 1 = true := by decide +kernel
set_option maxHeartbeats 2000000 in
theorem bridge_012111 : bridgeOkMV 0 1 2 1 1 1 = true := by decide +kernel
set_option maxHeartbeats 2000000 in
theorem bridge_012211 : bridgeOkMV 0 1 2 2 1 1 = true := by decide +kernel
set_option maxHeartbeats 2000000 in
theorem bridge_100111 : bridgeOkMV 1 0 0 1 1 1 = true := by decide +kernel
set_option maxHeartbeats 2000000 in
theorem bridge_100210 : bridgeOkMV 1 0 0 2 1 0 = true := by decide +kernel
set_option maxHeartbeats 2000000 in
theorem bridge_101001 : bridgeOkMV 1 0 1 0 0 1 = true := by decide +kernel
set_option maxHeartbeats 2000000 in
theorem bridge_101020 : bridgeOkMV 1 0 1 0 2 0 = true := by decide +kernel
set_option maxHeartbeats 2000000 in
theorem bridge_101101 : bridgeOkMV 1 0 1 1 0 1 = true := by decide +kernel
set_option maxHeartbeats 2000000 in
theorem bridge_101120 : bridgeOkMV 1 0 1 1 2 0 = true := by decide +kernel
set_option maxHeartbeats 2000000 in
theorem bridge_101220 : bridgeOkMV 1 0 1 2 2 0 = true := by decide +kernel
set_option maxHeartbeats 2000000 in
theorem bridge_110010 : bridgeOkMV 1 1 0 0 1 0 = true := by decide +kernel
set_option maxHeartbeats 2000000 in
theorem bridge_110011 : bridgeOkMV 1 1 0 0 1 1 = true := by decide +kernel
set_option maxHeartbeats 2000000 in
theorem bridge_110111 : bridgeOkMV 1 1 0 1 1 1 = true := by decide +kernel
set_option maxHeartbeats 2000000 in
theorem bridge_110210 : bridgeOkMV 1 1 0 2 1 0 = true := by decide +kernel
set_option maxHeartbeats 2000000 in
theorem bridge_111001 : bridgeOkMV 1 1 1 0 0 1 = true := by decide +kernel
set_option maxHeartbeats 2000000 in
theorem bridge_111120 : bridgeOkMV 1 1 1 1 2 0 = true := by decide +kernel
set_option maxHeartbeats 2000000 in
theorem bridge_112011 : bridgeOkMV 1 1 2 0 1 1 = true := by decide +kernel
set_option maxHeartbeats 2000000 in
theorem bridge_112111 : bridgeOkMV 1 1 2 1 1 1 = true := by decide +kernel
set_option maxHeartbeats 2000000 in
theorem bridge_200010 : bridgeOkMV 2 0 0 0 1 0 = true := by decide +kernel
set_option maxHeartbeats 2000000 in
theorem bridge_200011 : bridgeOkMV 2 0 0 0 1 1 = true := by decide +kernel
set_option maxHeartbeats 2000000 in
theorem bridge_200111 : bridgeOkMV 2 0 0 1 1 1 = true := by decide +kernel
set_option maxHeartbeats 2000000 in
theorem bridge_200210 : bridgeOkMV 2 0 0 2 1 0 = true := by decide +kernel
set_option maxHeartbeats 2000000 in
theorem bridge_201020 : bridgeOkMV 2 0 1 0 2 0 = true := by decide +kernel
set_option maxHeartbeats 2000000 in
theorem bridge_201120 : bridgeOkMV 2 0 1 1 2 0 = true := by decide +kernel
set_option maxHeartbeats 2000000 in
theorem bridge_201201 : bridgeOkMV 2 0 1 2 0 1 = true := by decide +kernel
set_option maxHeartbeats 2000000 in
theorem bridge_202011 : bridgeOkMV 2 0 2 0 1 1 = true := by decide +kernel
set_option maxHeartbeats 2000000 in
theorem bridge_202111 : bridgeOkMV 2 0 2 1 1 1 = true := by decide +kernel
set_option maxHeartbeats 2000000 in
theorem bridge_210011 : bridgeOkMV 2 1 0 0 1 1 = true := by decide +kernel
set_option maxHeartbeats 2000000 in
theorem bridge_210210 : bridgeOkMV 2 1 0 2 1 0 = true := by decide +kernel
set_option maxHeartbeats 2000000 in
theorem bridge_211020 : bridgeOkMV 2 1 1 0 2 0 = true := by decide +kernel
set_option maxHeartbeats 2000000 in
theorem bridge_211120 : bridgeOkMV 2 1 1 1 2 0 = true := by decide +kernel
set_option maxHeartbeats 2000000 in
theorem bridge_211201 : bridgeOkMV 2 1 1 2 0 1 = true := by decide +kernel
set_option maxHeartbeats 2000000 in
theorem bridge_212111 : bridgeOkMV 2 1 2 1 1 1 = true := by decide +kernel
end Proofs.Mono4
