import Cvss.Proofs.Parse4Main
/-!
# v4.0 parser proofs, part 7: the canonical spelling (C08, C02)
-/
namespace Proofs.P4
open Spec (Pair render SLASH COLON legal isMetric allLegal abvs valueOf findMetric Metric canonPairs)
open Model (Bytes O40 Res)

/-- is metric `m` written in the canonical form of `w` -/
def written (ms : List Metric) (w : List Pair) (m : Metric) : Bool :=
  m.mandatory || decide (some (valueOf ms w m.abv) ≠ m.undef)

theorem filterMap_ite {α β : Type} (c : α → Bool) (g : α → β) : ∀ l : List α,
    l.filterMap (fun m => if c m = true then some (g m) else none) = (l.filter c).map g
  | [] => rfl
  | x :: l => by
    rw [List.filterMap_cons, List.filter_cons]
    cases h : c x <;> simp [filterMap_ite c g l]

/-- the canonical pairs: the written metrics, in table order, each with its value -/
theorem canonPairs_eq (ms : List Metric) (w : List Pair) :
    canonPairs ms w = (ms.filter (written ms w)).map (fun m => (m.abv, valueOf ms w m.abv)) := by
  rw [← filterMap_ite]; rfl

theorem canonical_eq (w : List Pair) : Spec.V4.canonical w = Spec.V4.header ++ body (canonPairs Spec.V4.metrics w) := rfl

theorem mem_canon {ms : List Metric} {w : List Pair} {p : Pair} :
    p ∈ canonPairs ms w ↔ ∃ m ∈ ms, written ms w m = true ∧ p = (m.abv, valueOf ms w m.abv) := by
  rw [canonPairs_eq, List.mem_map]
  constructor
  · rintro ⟨m, hm, rfl⟩
    obtain ⟨h1, h2⟩ := List.mem_filter.mp hm
    exact ⟨m, h1, h2, rfl⟩
  · rintro ⟨m, h1, h2, rfl⟩
    exact ⟨m, List.mem_filter.mpr ⟨h1, h2⟩, rfl⟩

/-- two witness lists that give every metric the same value have the same canonical pairs -/
theorem canonPairs_congr {ms : List Metric} {w₁ w₂ : List Pair}
    (h : ∀ m ∈ ms, valueOf ms w₁ m.abv = valueOf ms w₂ m.abv) : canonPairs ms w₁ = canonPairs ms w₂ := by
  rw [canonPairs_eq, canonPairs_eq]
  have hf : ms.filter (written ms w₁) = ms.filter (written ms w₂) := by
    apply List.filter_congr
    intro m hm
    simp only [written, h m hm]
  rw [hf]
  apply List.map_congr_left
  intro m hm
  rw [h m (List.mem_filter.mp hm).1]

/-- the value list `ms.map (abv, f abv)` gives every metric of the table the value `f` -/
theorem valueOf_table (ms : List Metric) (f : Bytes → Bytes) : ∀ (l : List Metric) (a : Bytes), a ∈ abvs l →
    valueOf ms (l.map fun m => (m.abv, f m.abv)) a = f a
  | [], a, h => by simp [abvs] at h
  | m :: l, a, h => by
    unfold valueOf
    by_cases e : m.abv = a
    · rw [List.map_cons, List.find?_cons_of_pos (by simpa using e)]
      simp only [e]
    · rw [List.map_cons, List.find?_cons_of_neg (by simpa using e)]
      have ha : a ∈ abvs l := by
        simp only [abvs, List.map_cons, List.mem_cons] at h
        rcases h with h | h
        · exact absurd h.symm e
        · exact h
      have := valueOf_table ms f l a ha
      unfold valueOf at this
      exact this

/-- the canonical pairs say the same about every metric as the original list -/
theorem valueOf_canon (w : List Pair) {m : Metric} (hm : m ∈ Spec.V4.metrics) :
    valueOf Spec.V4.metrics (canonPairs Spec.V4.metrics w) m.abv = valueOf Spec.V4.metrics w m.abv := by
  generalize hcp : canonPairs Spec.V4.metrics w = cp
  rw [valueOf]
  cases hf : cp.find? (fun p => p.1 == m.abv) with
  | some p =>
    have h1 : p ∈ cp := List.mem_of_find?_eq_some hf
    have h2 : p.1 = m.abv := by simpa using List.find?_some hf
    rw [← hcp] at h1
    obtain ⟨m', _, _, rfl⟩ := mem_canon.mp h1
    simp only at h2 ⊢
    rw [h2]
  | none =>
    simp only
    rw [find_self m hm]
    simp only
    have hnw : written Spec.V4.metrics w m = false := by
      cases hw : written Spec.V4.metrics w m with
      | false => rfl
      | true =>
        have : (m.abv, valueOf Spec.V4.metrics w m.abv) ∈ cp := by
          rw [← hcp]; exact mem_canon.mpr ⟨m, hm, hw, rfl⟩
        rw [List.find?_eq_none] at hf
        exact absurd (hf _ this) (by simp)
    simp only [written, Bool.or_eq_false_iff, decide_eq_false_iff_not, ne_eq, Classical.not_not] at hnw
    rw [← hnw.2]; rfl

theorem canonPairs_idem (w : List Pair) :
    canonPairs Spec.V4.metrics (canonPairs Spec.V4.metrics w) = canonPairs Spec.V4.metrics w :=
  canonPairs_congr (fun _ hm => valueOf_canon w hm)

/-- what a valid witness says about a metric: a written legal value, or the not-defined value of an optional metric -/
theorem valueOf_valid {w : List Pair} (h : Valid w) {m : Metric} (hm : m ∈ Spec.V4.metrics) :
    valueOf Spec.V4.metrics w m.abv ∈ m.values := by
  unfold valueOf
  cases hf : w.find? (fun p => p.1 == m.abv) with
  | some p =>
    have h1 : p ∈ w := List.mem_of_find?_eq_some hf
    have h2 : p.1 = m.abv := by simpa using List.find?_some hf
    have hl := h.1 p h1
    rw [h2, legal_self hm] at hl
    simpa using hl
  | none =>
    simp only
    rw [find_self m hm]
    have hnot : m.abv ∉ w.map (·.1) := by
      intro hin
      obtain ⟨q, hq, hqa⟩ := List.mem_map.mp hin
      rw [List.find?_eq_none] at hf
      exact hf q hq (by simpa using hqa)
    obtain ⟨_, opt, _, h2⟩ := h
    rw [h2] at hnot
    have hopt : m ∈ Spec.V4.optional := by
      rw [metrics_eq] at hm
      rcases List.mem_append.mp hm with e | e
      · exact absurd (List.mem_append_left _ (List.mem_map.mpr ⟨m, e, rfl⟩)) hnot
      · exact e
    obtain ⟨_, u, hu1, hu⟩ := optional_undef m hopt
    simp only [hu, Option.getD_some]
    exact hu1

/-- the canonical pairs of any list whose values are legal form a valid witness list -/
theorem valid_canon {w : List Pair} (h : ∀ m ∈ Spec.V4.metrics, valueOf Spec.V4.metrics w m.abv ∈ m.values) :
    Valid (canonPairs Spec.V4.metrics w) := by
  constructor
  · intro p hp
    obtain ⟨m, hm, _, rfl⟩ := mem_canon.mp hp
    simp only
    rw [legal_self hm]
    simpa using h m hm
  · refine ⟨abvs (Spec.V4.optional.filter (written Spec.V4.metrics w)), ?_, ?_⟩
    · exact List.Sublist.map _ List.filter_sublist
    · rw [canonPairs_eq, List.map_map]
      conv => lhs; rw [metrics_eq]
      rw [List.filter_append, List.map_append]
      have hb : Spec.V4.base.filter (written (Spec.V4.base ++ Spec.V4.optional) w) = Spec.V4.base :=
        List.filter_eq_self.mpr (fun m hm => by simp [written, base_mandatory m hm])
      rw [hb]
      rfl

theorem valid_canon_of_valid {w : List Pair} (h : Valid w) : Valid (canonPairs Spec.V4.metrics w) :=
  valid_canon (fun _ hm => valueOf_valid h hm)

/-- the canonical spelling of a grammatical vector is grammatical, with the canonical pairs as witness -/
theorem witness_canonical {w : List Pair} (h : Valid w) :
    Spec.V4.Witness (Spec.V4.canonical w) (canonPairs Spec.V4.metrics w) :=
  witness_iff.mpr ⟨canonical_eq w, valid_canon_of_valid h⟩

section K
variable (K : Contract O40 Spec.V4.metrics)

theorem valueOf_pairs (c : O40) {m : Metric} (hm : m ∈ Spec.V4.metrics) :
    valueOf Spec.V4.metrics (K.pairs c) m.abv = (K.get c m.abv).1 :=
  valueOf_table Spec.V4.metrics (fun a => (K.get c a).1) Spec.V4.metrics m.abv (List.mem_map.mpr ⟨m, hm, rfl⟩)

/-- C08 core: the pairs of the parsed object have the canonical pairs of the witness -/
theorem canon_pairs_setAll {w : List Pair} (h : Valid w) :
    canonPairs Spec.V4.metrics (K.pairs (setAll K K.zero w)) = canonPairs Spec.V4.metrics w := by
  apply canonPairs_congr
  intro m hm
  rw [valueOf_pairs K _ hm, get_setAll_valid K h hm]

/-- C02 core: parsing the canonical spelling of a well-formed object's values gives the object back -/
theorem parseK_canonical_pairs {c : O40} (hc : K.WF c) :
    parseK K (Spec.V4.canonical (K.pairs c)) = .ok c := by
  have hvals : ∀ m ∈ Spec.V4.metrics, valueOf Spec.V4.metrics (K.pairs c) m.abv ∈ m.values := by
    intro m hm
    rw [valueOf_pairs K c hm]; exact (K.wf_get c hc m hm).2
  have hv := valid_canon hvals
  rw [canonical_eq, parseK_valid K hv]
  congr 1
  apply K.ext _ _ (wf_setAll K _ _ K.wf_zero) hc
  intro m hm
  rw [get_setAll_valid K hv hm, valueOf_canon _ hm, valueOf_pairs K c hm, ← (K.wf_get c hc m hm).1]

end K
end Proofs.P4
