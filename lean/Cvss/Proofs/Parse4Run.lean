import Cvss.Proofs.Parse4Tables
/-!
# v4.0 parser proofs, part 4: the parser model as "lex, then run"

* `parse40With hdr order zero set` — `Model.parse40` with the header, the order table, the zero object and
  the `Set` function abstracted (`parse40_eq : Model.parse40 = parse40With … O40.zero O40.set`, by `rfl`);
  `parseK K` instantiates it with the regenerated header/order and the `zero`/`set` of a `Contract`.
* `runP` — the element loop on already-cut pairs, returning the state `(object, remaining order)`;
  `Model.loop4 set els = finish (runP set (els.map cutColon))`.
* the run on legal pairs is the fold of `Set`s and the order walk (`runP_good`, `runP_ok`), and fails with the
  specific error at the first defect (`runP_order_err`, `runP_value_err`).
* `parseK_render` — on a string that *is* a rendering of pairs, the parser is `finish ∘ runP` on those pairs;
  `parseK_cases` — on an arbitrary byte string.
-/
namespace Proofs.P4
open Spec (Pair render SLASH COLON legal isMetric allLegal abvs)
open Model (Bytes O40 Res walk4 cutColon splitSlash)

/-- `Model.parse40` with header, order table, zero object and `Set` abstracted -/
def parse40With (hdr : Bytes) (order : List (List Bytes)) (zero : O40)
    (set : O40 → Bytes → Bytes → O40 × Go.Err) (s : Bytes) : Res O40 :=
  if Model.hasPrefix s hdr then
    match s.drop hdr.length with
    | [] => .err Model.eTooShort
    | c :: rest =>
      if c = Model.SLASH then Model.loop4 set (splitSlash rest) zero (Model.flatOrder order)
      else .err Model.eHeader
  else .err Model.eHeader

/-- the hand-written model is the instance at the regenerated tables and the generated `Set` -/
theorem parse40_eq : Model.parse40 = parse40With GenV40.const_header GenV40.tbl_order O40.zero O40.set := rfl

/-- the parser over an abstract Get/Set contract (regenerated header and order table) -/
def parseK (K : Contract O40 Spec.V4.metrics) : Bytes → Res O40 :=
  parse40With GenV40.const_header GenV40.tbl_order K.zero K.set

/-- the model is `parseK` of any contract whose `zero`/`set` are the generated ones -/
theorem parse40_eq_parseK (K : Contract O40 Spec.V4.metrics) (hz : K.zero = O40.zero) (hs : K.set = O40.set) :
    Model.parse40 = parseK K := by
  rw [parse40_eq, parseK, hz, hs]

/-- the order the walk starts from -/
abbrev ord0 : Ord := mk (abvs Spec.V4.base) (abvs Spec.V4.optional)

/-! ## the loop on pairs -/

def runP (set : O40 → Bytes → Bytes → O40 × Go.Err) : List Pair → O40 → Ord → Except Go.Err (O40 × Ord)
  | [], c, ord => .ok (c, ord)
  | p :: rest, c, ord =>
    match walk4 ord p.1 with
    | none => .error Model.eOrder
    | some ord' =>
      match set c p.1 p.2 with
      | (c', e) => if e = Go.errNil then runP set rest c' ord' else .error e

/-- the end of the loop: still inside the base group ⇒ `ErrTooShortVector` -/
def finish : Except Go.Err (O40 × Ord) → Res O40
  | .error e => .err e
  | .ok (c, ord) => if ord.any (·.1) then .err Model.eTooShort else .ok c

theorem loop4_eq (set : O40 → Bytes → Bytes → O40 × Go.Err) : ∀ (els : List Bytes) (c : O40) (ord : Ord),
    Model.loop4 set els c ord = finish (runP set (els.map cutColon) c ord)
  | [], c, ord => by simp [Model.loop4, runP, finish]
  | el :: rest, c, ord => by
    simp only [Model.loop4, List.map_cons, runP]
    cases walk4 ord (cutColon el).1 with
    | none => rfl
    | some o =>
      simp only
      cases set c (cutColon el).1 (cutColon el).2 with
      | mk c' e =>
        simp only
        by_cases he : e = Go.errNil
        · simp only [he, if_true]; exact loop4_eq set rest c' o
        · simp only [he, if_false]; rfl

theorem finish_ne_panic (r : Except Go.Err (O40 × Ord)) : finish r ≠ .panic := by
  unfold finish
  split
  · simp
  · split <;> simp

theorem runP_cons (set : O40 → Bytes → Bytes → O40 × Go.Err) (p : Pair) (rest : List Pair) (c : O40) (ord : Ord) :
    runP set (p :: rest) c ord =
      match walk4 ord p.1 with
      | none => .error Model.eOrder
      | some ord' => if (set c p.1 p.2).2 = Go.errNil then runP set rest (set c p.1 p.2).1 ord' else .error (set c p.1 p.2).2 := by
  rw [runP]

theorem runP_append (set : O40 → Bytes → Bytes → O40 × Go.Err) : ∀ (xs ys : List Pair) (c : O40) (ord : Ord),
    runP set (xs ++ ys) c ord =
      match runP set xs c ord with
      | .error e => .error e
      | .ok (c', ord') => runP set ys c' ord'
  | [], ys, c, ord => by simp [runP]
  | p :: xs, ys, c, ord => by
    rw [List.cons_append, runP_cons, runP_cons]
    cases walk4 ord p.1 with
    | none => rfl
    | some o =>
      simp only
      by_cases he : (set c p.1 p.2).2 = Go.errNil
      · simp only [he, if_true]; exact runP_append set xs ys _ o
      · simp only [he, if_false]

/-! ## with a contract -/
section K
variable (K : Contract O40 Spec.V4.metrics)

theorem eValue_ne_nil : Model.eValue ≠ Go.errNil := by decide

/-- `Set` succeeds exactly on a legal (metric, value) pair of the Spec table -/
theorem set_nil_iff (c : O40) (a v : Bytes) : (K.set c a v).2 = Go.errNil ↔ legal Spec.V4.metrics a v = true := by
  constructor
  · intro h
    cases hm : isMetric Spec.V4.metrics a with
    | false =>
      rw [K.set_unknown c a v hm] at h
      exact absurd h (by simp [Model.eInvalidMetric, Go.errNil])
    | true =>
      cases hl : legal Spec.V4.metrics a v with
      | true => rfl
      | false =>
        rw [K.set_illegal c a v hm hl] at h
        exact absurd h eValue_ne_nil
  · exact K.set_ok c a v

/-- the fold of `Set`s over a pair list -/
def setAll (c : O40) (w : List Pair) : O40 := w.foldl (fun c p => (K.set c p.1 p.2).1) c

@[simp] theorem setAll_nil (c : O40) : setAll K c [] = c := rfl
@[simp] theorem setAll_cons (c : O40) (p : Pair) (w : List Pair) :
    setAll K c (p :: w) = setAll K (K.set c p.1 p.2).1 w := rfl

theorem wf_setAll : ∀ (w : List Pair) (c : O40), K.WF c → K.WF (setAll K c w)
  | [], _, h => h
  | p :: w, c, h => wf_setAll w _ (K.wf_set c p.1 p.2 h)

/-- legal pairs in walkable order: the run is the fold of `Set`s -/
theorem runP_good : ∀ (w : List Pair) (c : O40) (ord o : Ord), allLegal Spec.V4.metrics w →
    walkAll ord (w.map (·.1)) = some o → runP K.set w c ord = .ok (setAll K c w, o)
  | [], c, ord, o, _, h => by
    simp only [List.map_nil, walkAll_nil, Option.some.injEq] at h
    subst h; rfl
  | p :: w, c, ord, o, hl, h => by
    rw [List.map_cons, walkAll_cons] at h
    rw [runP_cons]
    cases hw : walk4 ord p.1 with
    | none => rw [hw] at h; simp at h
    | some o1 =>
      rw [hw] at h
      simp only [Option.bind_some] at h
      simp only
      rw [if_pos ((set_nil_iff K c p.1 p.2).mpr (hl p (by simp)))]
      exact runP_good w _ o1 o (fun q hq => hl q (List.mem_cons_of_mem _ hq)) h

/-- a successful run: all pairs legal, the abbreviations walk the order, the object is the fold -/
theorem runP_ok : ∀ (w : List Pair) (c : O40) (ord : Ord) (c' : O40) (o : Ord),
    runP K.set w c ord = .ok (c', o) →
    allLegal Spec.V4.metrics w ∧ walkAll ord (w.map (·.1)) = some o ∧ c' = setAll K c w
  | [], c, ord, c', o, h => by
    simp only [runP, Except.ok.injEq, Prod.mk.injEq] at h
    obtain ⟨rfl, rfl⟩ := h
    exact ⟨by intro p hp; simp at hp, by simp, rfl⟩
  | p :: w, c, ord, c', o, h => by
    rw [runP_cons] at h
    cases hw : walk4 ord p.1 with
    | none => rw [hw] at h; simp at h
    | some o1 =>
      rw [hw] at h
      simp only at h
      by_cases he : (K.set c p.1 p.2).2 = Go.errNil
      · rw [if_pos he] at h
        obtain ⟨h1, h2, h3⟩ := runP_ok w _ o1 c' o h
        refine ⟨?_, ?_, h3⟩
        · intro q hq
          rcases List.mem_cons.mp hq with e | e
          · subst e; exact (set_nil_iff K c _ _).mp he
          · exact h1 q e
        · rw [List.map_cons, walkAll_cons, hw]; exact h2
      · rw [if_neg he] at h; simp at h

/-- legal pairs up to an abbreviation the walk refuses: `ErrInvalidMetricOrder` -/
theorem runP_order_err (pre : List Pair) (p : Pair) (post : List Pair) (c : O40) (ord : Ord)
    (hl : allLegal Spec.V4.metrics pre) (h : walkAll ord ((pre ++ [p]).map (·.1)) = none) :
    runP K.set (pre ++ p :: post) c ord = .error Model.eOrder := by
  rw [List.map_append, walkAll_append] at h
  cases hw : walkAll ord (pre.map (·.1)) with
  | none =>
    -- the walk already fails inside `pre`: peel the last good prefix
    clear h
    induction pre generalizing c ord with
    | nil => simp at hw
    | cons q pre ih =>
      rw [List.cons_append, runP_cons]
      rw [List.map_cons, walkAll_cons] at hw
      cases hq : walk4 ord q.1 with
      | none => rfl
      | some o1 =>
        rw [hq] at hw
        simp only [Option.bind_some] at hw
        simp only
        rw [if_pos ((set_nil_iff K c q.1 q.2).mpr (hl q (by simp)))]
        exact ih _ o1 (fun x hx => hl x (List.mem_cons_of_mem _ hx)) hw
  | some mid =>
    rw [hw] at h
    simp only [Option.bind_some, List.map_cons, List.map_nil, walkAll_cons, walkAll_nil] at h
    rw [runP_append, runP_good K pre c ord mid hl hw]
    simp only
    rw [runP_cons]
    cases hp : walk4 mid p.1 with
    | none => rfl
    | some o => rw [hp] at h; simp at h

/-- legal pairs up to a pair in walkable position whose value is illegal: `ErrInvalidMetricValue` -/
theorem runP_value_err (pre : List Pair) (p : Pair) (post : List Pair) (c : O40) (ord o : Ord)
    (hl : allLegal Spec.V4.metrics pre) (h : walkAll ord ((pre ++ [p]).map (·.1)) = some o)
    (hm : isMetric Spec.V4.metrics p.1 = true) (hv : legal Spec.V4.metrics p.1 p.2 = false) :
    runP K.set (pre ++ p :: post) c ord = .error Model.eValue := by
  rw [List.map_append, walkAll_append] at h
  cases hw : walkAll ord (pre.map (·.1)) with
  | none => rw [hw] at h; simp at h
  | some mid =>
    rw [hw] at h
    simp only [Option.bind_some, List.map_cons, List.map_nil, walkAll_cons, walkAll_nil] at h
    rw [runP_append, runP_good K pre c ord mid hl hw]
    simp only
    rw [runP_cons]
    cases hp : walk4 mid p.1 with
    | none => rw [hp] at h; simp at h
    | some o' =>
      simp only
      rw [K.set_illegal _ p.1 p.2 hm hv]
      rw [if_neg eValue_ne_nil]

/-! ## the parser on renderings and on arbitrary strings -/

theorem parseK_unfold (s : Bytes) : parseK K s =
    if Spec.V4.header.isPrefixOf s then
      match s.drop Spec.V4.header.length with
      | [] => .err Model.eTooShort
      | c :: rest =>
        if c = SLASH then finish (runP K.set ((splitSlash rest).map cutColon) K.zero ord0)
        else .err Model.eHeader
    else .err Model.eHeader := by
  unfold parseK parse40With Model.hasPrefix
  rw [header_eq, ord0_eq]
  simp only [loop4_eq, mslash]

theorem isPrefixOf_append (h r : Bytes) : h.isPrefixOf (h ++ r) = true :=
  List.isPrefixOf_iff_prefix.mpr (List.prefix_append h r)

theorem parseK_header_append (r : Bytes) : parseK K (Spec.V4.header ++ r) =
    match r with
    | [] => .err Model.eTooShort
    | c :: rest =>
      if c = SLASH then finish (runP K.set ((splitSlash rest).map cutColon) K.zero ord0)
      else .err Model.eHeader := by
  rw [parseK_unfold, if_pos (isPrefixOf_append _ _), List.drop_left]
  cases r <;> rfl

/-- a pair that the lexer gives back unchanged -/
def Lex (p : Pair) : Prop := COLON ∉ p.1 ∧ SLASH ∉ render p

theorem lex_of_legal {p : Pair} (h : legal Spec.V4.metrics p.1 p.2 = true) : Lex p := by
  obtain ⟨h1, h2, h3, _⟩ := legal_clean h
  exact ⟨h1, noslash_render h2 h3⟩

theorem lexP_body (p : Pair) (w : List Pair) (h : ∀ q ∈ p :: w, Lex q) :
    (splitSlash (render p ++ body w)).map cutColon = p :: w := by
  rw [splitSlash_render_body w p (fun q hq => (h q hq).2)]
  rw [List.map_cons, List.map_map, cutColon_render' p (h p (by simp)).1]
  congr 1
  rw [List.map_congr_left (g := id)]
  · simp
  · intro q hq
    exact cutColon_render' q (h q (List.mem_cons_of_mem _ hq)).1

/-- on the rendering of lexable pairs (valid or not) the parser is the run on those pairs -/
theorem parseK_render (w : List Pair) (h : ∀ q ∈ w, Lex q) :
    parseK K (Spec.V4.header ++ body w) = finish (runP K.set w K.zero ord0) := by
  rw [parseK_header_append]
  cases w with
  | nil => rfl
  | cons p w =>
    rw [body_cons]
    simp only [if_true]
    rw [lexP_body p w h]

/-- the parser on an arbitrary byte string -/
theorem parseK_cases (s : Bytes) :
    (¬ Spec.V4.header <+: s ∧ parseK K s = .err Model.eHeader) ∨
    (s = Spec.V4.header ∧ parseK K s = .err Model.eTooShort) ∨
    (∃ c r, s = Spec.V4.header ++ c :: r ∧ c ≠ SLASH ∧ parseK K s = .err Model.eHeader) ∨
    (∃ r, s = Spec.V4.header ++ SLASH :: r ∧
      parseK K s = finish (runP K.set ((splitSlash r).map cutColon) K.zero ord0)) := by
  by_cases hp : Spec.V4.header.isPrefixOf s = true
  · obtain ⟨t, rfl⟩ := List.isPrefixOf_iff_prefix.mp hp
    right
    rw [parseK_header_append]
    cases t with
    | nil => left; exact ⟨by simp, rfl⟩
    | cons c r =>
      right
      by_cases hc : c = SLASH
      · right; subst hc; exact ⟨r, rfl, by simp⟩
      · left; exact ⟨c, r, rfl, hc, by simp [hc]⟩
  · left
    refine ⟨fun h => hp (List.isPrefixOf_iff_prefix.mpr h), ?_⟩
    rw [parseK_unfold, if_neg hp]

theorem parseK_ne_panic (s : Bytes) : parseK K s ≠ .panic := by
  rcases parseK_cases K s with ⟨_, h⟩ | ⟨_, h⟩ | ⟨_, _, _, _, h⟩ | ⟨_, _, h⟩
  · rw [h]; simp
  · rw [h]; simp
  · rw [h]; simp
  · rw [h]; exact finish_ne_panic _

end K
end Proofs.P4
