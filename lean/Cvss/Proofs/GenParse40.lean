import Cvss.Proofs.GenParseBase
import Cvss.Gen.P40
/-!
# The regenerated v4.0 parser equals the hand-written model

`GenP40.ParseVector` (translated from `/repo/40/cvss40.go` by `tools/gen`, parser mode) is proved equal, on **every**
byte string (any `List Nat`), to `Model.parse40`:

* the pair `(slci, orderi)` of the Go code is a position in the regenerated table `GenV40.tbl_order`; `remOrd` is
  what `Model.flatOrder` has left at that position; the facts about positions (`pos_step`, `pos_any`) are decided
  on the regenerated table;
* `walk_spec` — the inner `for { … }` (run with the translator's fuel 64) computes `Model.walk4` and never runs
  out of fuel;
* `loop_inv` — loop invariant of `for i := 1; i <= len(vector); i++`: at position `|pre| + 1 + |seg|` with
  `cut = |pre|` and `vector[cut] = x`, what remains is `Model.loop4` on `splitSlash (seg ++ rest)` if `x = '/'`
  and `ErrInvalidMetricValue` otherwise.
-/
set_option linter.unusedSimpArgs false
namespace GenParse40
open Model GenParse

/-! ## positions in `order` -/

abbrev ord40 : List (List Bytes) := GenV40.tbl_order

/-- `(slci, orderi)` points at an entry, or is the end position `(len(order), 0)` -/
def valid (slci orderi : Nat) : Bool :=
  (Nat.blt slci ord40.length && Nat.blt orderi (ord40.getD slci []).length) ||
  (Nat.beq slci ord40.length && Nat.beq orderi 0)

/-- the part of `Model.flatOrder order` from position `(slci, orderi)` on -/
def remOrd (slci orderi : Nat) : List (Bool × Bytes) :=
  ((ord40.getD slci []).drop orderi).map (fun a => (Nat.beq slci 0, a)) ++
  (ord40.drop (slci + 1)).flatten.map (fun a => (false, a))

/-- `orderi++; if orderi == len(order[slci]) { slci++; orderi = 0 }` -/
def nextPos (slci orderi : Nat) : Nat × Nat :=
  cond (Nat.beq (orderi + 1) (ord40.getD slci []).length) (slci + 1, 0) (slci, orderi + 1)

theorem remOrd_start : remOrd 0 0 = flatOrder GenV40.tbl_order := by decide +kernel

theorem valid_start : valid 0 0 = true := by decide +kernel

theorem valid_bound {slci orderi : Nat} (h : valid slci orderi = true) : slci < 5 ∧ orderi < 15 := by
  have hg : ∀ s < 4, (ord40.getD s []).length < 15 := by decide +kernel
  have hl : ord40.length = 4 := by decide +kernel
  simp only [valid, hl, Bool.or_eq_true, Bool.and_eq_true] at h
  rcases h with ⟨h1, h2⟩ | ⟨h1, h2⟩
  · have h1 := Nat.le_of_ble_eq_true h1
    have h2 := Nat.le_of_ble_eq_true h2
    have := hg slci (by omega)
    omega
  · have h1 := Nat.eq_of_beq_eq_true h1
    have h2 := Nat.eq_of_beq_eq_true h2
    omega

set_option synthInstance.maxSize 2000 in
set_option synthInstance.maxHeartbeats 200000 in
/-- at a position that is not the end: the entry, the rest, and the next position (decided on the table) -/
theorem pos_step_all : ∀ slci < 5, ∀ orderi < 15, (valid slci orderi && Nat.blt slci ord40.length) = true →
    ord40[slci]? = some (ord40.getD slci []) ∧
    (ord40.getD slci [])[orderi]? = some ((ord40.getD slci []).getD orderi []) ∧
    remOrd slci orderi = (Nat.beq slci 0, (ord40.getD slci []).getD orderi []) ::
      remOrd (nextPos slci orderi).1 (nextPos slci orderi).2 ∧
    valid (nextPos slci orderi).1 (nextPos slci orderi).2 = true := by decide +kernel

theorem pos_any_all : ∀ slci < 5, ∀ orderi < 15, valid slci orderi = true →
    (remOrd slci orderi).any (·.1) = Nat.beq slci 0 := by decide +kernel

theorem pos_end_all : ∀ slci < 5, ∀ orderi < 15, (valid slci orderi && !Nat.blt slci ord40.length) = true →
    slci = ord40.length ∧ orderi = 0 ∧ remOrd slci orderi = [] := by decide +kernel

theorem pos_step {slci orderi : Nat} (hv : valid slci orderi = true) (hl : Nat.blt slci ord40.length = true) :
    ord40[slci]? = some (ord40.getD slci []) ∧
    (ord40.getD slci [])[orderi]? = some ((ord40.getD slci []).getD orderi []) ∧
    remOrd slci orderi = (Nat.beq slci 0, (ord40.getD slci []).getD orderi []) ::
      remOrd (nextPos slci orderi).1 (nextPos slci orderi).2 ∧
    valid (nextPos slci orderi).1 (nextPos slci orderi).2 = true :=
  pos_step_all slci (valid_bound hv).1 orderi (valid_bound hv).2 (by simp [hv, hl])

theorem pos_any {slci orderi : Nat} (hv : valid slci orderi = true) :
    (remOrd slci orderi).any (·.1) = Nat.beq slci 0 :=
  pos_any_all slci (valid_bound hv).1 orderi (valid_bound hv).2 hv

theorem pos_end {slci orderi : Nat} (hv : valid slci orderi = true) (hl : Nat.blt slci ord40.length = false) :
    slci = ord40.length ∧ orderi = 0 ∧ remOrd slci orderi = [] :=
  pos_end_all slci (valid_bound hv).1 orderi (valid_bound hv).2 (by simp [hv, hl])

theorem ord40_zero : ord40[0]? = some (ord40.getD 0 []) := by decide +kernel

/-! ## the inner `for { … }`: walking through `order` -/

abbrev T9 := Nat × Nat × Nat × Nat × Nat × Nat × Nat × Nat × Nat
abbrev R4 := Go.Res T9

theorem strEq_eq (a b : Bytes) : Go.strEq a b = decide (a = b) := rfl

/-- one iteration at an entry -/
theorem for2_step (abv : Bytes) {slci orderi : Nat} (hv : valid slci orderi = true)
    (hl : Nat.blt slci ord40.length = true) :
    GenP40.ParseVector_for2 abv (orderi, slci) =
      cond (Nat.beq slci 0 && !Go.strEq abv ((ord40.getD slci []).getD orderi []))
        (.ret (.err eOrder))
        (cond (Go.strEq abv ((ord40.getD slci []).getD orderi []))
          (.brk ((nextPos slci orderi).2, (nextPos slci orderi).1))
          (.next ((nextPos slci orderi).2, (nextPos slci orderi).1))) := by
  obtain ⟨h1, h2, -, -⟩ := pos_step hv hl
  have hne : Nat.beq slci (List.length GenV40.tbl_order) = false :=
    beq_false (Nat.ne_of_lt (Nat.le_of_ble_eq_true hl))
  simp only [GenP40.ParseVector_for2]
  cases h0 : Nat.beq slci 0
  · simp only [cond_false, Bool.false_and, Bool.false_or, hne]
    rw [index_some h1, index_some h2, index_some h1]
    simp only [nextPos, eOrder]
  · have hs : slci = 0 := Nat.eq_of_beq_eq_true h0
    subst hs
    simp only [cond_true, Bool.true_and]
    rw [index_some h1, index_some h2]
    simp only [hne, Bool.or_false]
    cases hq : Go.strEq abv ((ord40.getD 0 []).getD orderi [])
    · simp [eOrder]
    · simp only [Bool.not_true, cond_false]
      rw [index_some h1, index_some h2, index_some h1]
      simp only [nextPos, hq]

/-- at the end position -/
theorem for2_end (abv : Bytes) : GenP40.ParseVector_for2 abv (0, ord40.length) = .ret (.err eOrder) := by
  have h1 : Nat.beq ord40.length 0 = false := by decide +kernel
  simp only [GenP40.ParseVector_for2, h1, cond_false, Nat.beq_refl, Bool.or_true, cond_true, eOrder]

/-- **the inner loop is `Model.walk4`**; the fuel is never exhausted -/
theorem walk_spec (abv : Bytes) (cnd : Nat × Nat → Bool) (post : Nat × Nat → Nat × Nat)
    (hcnd : ∀ st, cnd st = true) (hpost : ∀ st, post st = st) (ord : List (Bool × Bytes)) :
    ∀ (slci orderi fuel : Nat), valid slci orderi = true → remOrd slci orderi = ord → ord.length + 1 ≤ fuel →
    match walk4 ord abv with
    | none => Go.forN fuel (orderi, slci) cnd post (GenP40.ParseVector_for2 abv) = .ret (.err eOrder)
    | some ord' => ∃ s' o', valid s' o' = true ∧ remOrd s' o' = ord' ∧
        Go.forN fuel (orderi, slci) cnd post (GenP40.ParseVector_for2 abv) = .done (o', s') := by
  induction ord with
  | nil =>
    intro slci orderi fuel hv hr hf
    obtain ⟨n, rfl⟩ : ∃ n, fuel = n + 1 := ⟨fuel - 1, by omega⟩
    cases hl : Nat.blt slci ord40.length
    · obtain ⟨rfl, rfl, -⟩ := pos_end hv hl
      simp only [walk4]
      rw [forN_ret (h := hcnd _) (hb := for2_end abv)]
    · have := (pos_step hv hl).2.2.1
      rw [hr] at this
      cases this
  | cons x ord' ih =>
    intro slci orderi fuel hv hr hf
    obtain ⟨n, rfl⟩ : ∃ n, fuel = n + 1 := ⟨fuel - 1, by omega⟩
    cases hl : Nat.blt slci ord40.length
    · have := (pos_end hv hl).2.2
      rw [hr] at this
      cases this
    · obtain ⟨-, -, h3, h4⟩ := pos_step hv hl
      rw [hr] at h3
      injection h3 with hx hrest
      subst hx
      have hb := for2_step abv hv hl
      simp only [walk4]
      cases hq : Go.strEq abv ((ord40.getD slci []).getD orderi [])
      · have hne : abv ≠ (ord40.getD slci []).getD orderi [] := by simpa [strEq_eq] using hq
        cases h0 : Nat.beq slci 0
        · simp only [hq, h0, Bool.false_and, cond_false] at hb
          simp only [hne, ne_eq, not_false_eq_true, decide_true, Bool.and_true, if_false, Bool.false_eq_true]
          have := ih (nextPos slci orderi).1 (nextPos slci orderi).2 n h4 hrest.symm (by simp at hf; omega)
          rw [forN_next (h := hcnd _) (hb := hb), hpost]
          exact this
        · simp only [hq, h0, Bool.true_and, Bool.not_false, cond_true] at hb
          simp only [hne, ne_eq, not_false_eq_true, decide_true, Bool.and_true, if_true]
          rw [forN_ret (h := hcnd _) (hb := hb)]
      · have he : abv = (ord40.getD slci []).getD orderi [] := by simpa [strEq_eq] using hq
        simp only [hq, Bool.not_true, Bool.and_false, cond_false, cond_true] at hb
        simp only [← he, ne_eq, not_true_eq_false, decide_false, Bool.and_false, if_false, Bool.false_eq_true, if_true]
        refine ⟨_, _, h4, hrest.symm, ?_⟩
        rw [forN_brk (h := hcnd _) (hb := hb)]

/-! ## the element loop -/

abbrev St4 := Nat × Nat × Nat × Nat × Nat × Nat × Nat × Nat × Nat × Nat × Nat × Nat × Nat

/-- loop state `(i, cut, orderi, slci, u0 … u8)` -/
def st4 (i cut slci orderi : Nat) (c : O40) : St4 :=
  (i, cut, orderi, slci, c.u0, c.u1, c.u2, c.u3, c.u4, c.u5, c.u6, c.u7, c.u8)

def tup9 (c : O40) : T9 := (c.u0, c.u1, c.u2, c.u3, c.u4, c.u5, c.u6, c.u7, c.u8)

/-- `Model.loop4` without the final "base group complete" check: object and remaining order after all elements -/
def loop4' (set : O40 → Bytes → Bytes → O40 × Go.Err) :
    List Bytes → O40 → List (Bool × Bytes) → Except Go.Err (O40 × List (Bool × Bytes))
  | [], c, ord => .ok (c, ord)
  | el :: rest, c, ord =>
    match walk4 ord (cutColon el).1 with
    | none => .error eOrder
    | some ord' =>
      match set c (cutColon el).1 (cutColon el).2 with
      | (c', e) => cond (Go.Err.beq e Go.errNil) (loop4' set rest c' ord') (.error e)

theorem loop4_eq (set : O40 → Bytes → Bytes → O40 × Go.Err) (els : List Bytes) :
    ∀ (c : O40) (ord : List (Bool × Bytes)),
    loop4 set els c ord = match loop4' set els c ord with
      | .error e => .err e
      | .ok (c', ord') => if ord'.any (·.1) then .err eTooShort else .ok c' := by
  induction els with
  | nil => intro c ord; simp only [loop4, loop4']
  | cons el rest ih =>
    intro c ord
    simp only [loop4, loop4']
    cases walk4 ord (cutColon el).1 with
    | none => rfl
    | some ord' =>
      simp only []
      cases hs : set c (cutColon el).1 (cutColon el).2 with
      | mk c' e =>
        simp only []
        by_cases he : e = Go.errNil
        · simp [he, ih, Go.Err.beq]
        · simp [he, Go.Err.beq]

theorem pos_len_all' : ∀ slci < 5, ∀ orderi < 15, valid slci orderi = true →
    Nat.ble ((remOrd slci orderi).length + 1) 64 = true := by decide +kernel
theorem pos_len_all (slci : Nat) (h1 : slci < 5) (orderi : Nat) (h2 : orderi < 15) (h : valid slci orderi = true) :
    (remOrd slci orderi).length + 1 ≤ 64 := Nat.le_of_ble_eq_true (pos_len_all' slci h1 orderi h2 h)

theorem errBeq_eq (e : Go.Err) : Go.Err.beq e Go.errNil = decide (e = Go.errNil) := rfl

/-- what the loop body does when position `i = |pre| + |x :: seg|` is the end of the string or holds a `/`:
    the element is `vector[cut:i] = x :: seg` -/
theorem elem40 (v pre seg rest : Bytes) (x : Nat) (c : O40) (slci orderi : Nat)
    (hv : v = pre ++ x :: seg ++ rest) (hval : valid slci orderi = true)
    (hb : rest = [] ∨ ∃ ys, rest = 47 :: ys) :
    (x ≠ 47 → GenP40.ParseVector_for1 v (st4 (pre.length + (x :: seg).length) pre.length slci orderi c)
        = .ret (.err eValue)) ∧
    (x = 47 → match walk4 (remOrd slci orderi) (cutColon seg).1 with
      | none => GenP40.ParseVector_for1 v (st4 (pre.length + (x :: seg).length) pre.length slci orderi c)
          = .ret (.err eOrder)
      | some ord' => ∃ s' o', valid s' o' = true ∧ remOrd s' o' = ord' ∧
          GenP40.ParseVector_for1 v (st4 (pre.length + (x :: seg).length) pre.length slci orderi c)
          = (match O40.set c (cutColon seg).1 (cutColon seg).2 with
             | (c', e) => cond (Go.Err.beq e Go.errNil)
                 (.next (st4 (pre.length + (x :: seg).length) (pre.length + (x :: seg).length) s' o' c'))
                 (.ret (.err e)))) := by
  obtain ⟨u0, u1, u2, u3, u4, u5, u6, u7, u8⟩ := c
  have hle : pre.length + (x :: seg).length ≤ v.length := by simp [hv]
  have hc2 : (cond (!(Nat.beq (pre.length + (x :: seg).length) (List.length v)))
      (Go.index v (pre.length + (x :: seg).length) none fun t1 => some (!(Nat.beq t1 47)))
      (some false) : Option Bool) = some false := by
    rcases hb with rfl | ⟨ys, rfl⟩
    · have : pre.length + (x :: seg).length = v.length := by simp [hv]
      simp only [this, Nat.beq_refl, Bool.not_true, cond_false]
    · have hne : pre.length + (x :: seg).length ≠ v.length := by simp [hv]
      have hix : v[pre.length + (x :: seg).length]? = some 47 := by rw [hv]; exact getElem?_at pre (x :: seg) 47 ys
      simp only [beq_false hne, Bool.not_false, cond_true]
      rw [index_some hix]
      simp
  have hsl : ∀ (p : Go.Ctl St4 R4) (k : Bytes → Go.Ctl St4 R4),
      Go.slice v pre.length (pre.length + (x :: seg).length) p k = k (x :: seg) := by
    intro p k
    rw [slice_ok v (by omega) hle, hv, take_drop_seg]
  constructor
  · intro hx
    have hp : Go.hasPrefix (x :: seg) [47] = false := by
      simp [Go.hasPrefix, List.isPrefixOf, Ne.symm hx]
    simp only [st4, GenP40.ParseVector_for1]
    rw [hc2]
    simp only [cond_false, blt_false hle]
    rw [hsl]
    simp only [hp, Bool.not_false, cond_true, eValue]
  · intro hx
    subst hx
    have hp : Go.hasPrefix (47 :: seg) [47] = true := by simp [Go.hasPrefix, List.isPrefixOf]
    have hw := walk_spec (cutColon seg).1 (fun _ => true) (fun st => st) (fun _ => rfl) (fun _ => rfl)
      (remOrd slci orderi) slci orderi 64 hval rfl
      (pos_len_all slci (valid_bound hval).1 orderi (valid_bound hval).2 hval)
    have hred : ∀ (F : Go.Loop (Nat × Nat) R4),
        Go.forN 64 (orderi, slci) (fun _ => true) (fun st => st) (GenP40.ParseVector_for2 (cutColon seg).1) = F →
        GenP40.ParseVector_for1 v (st4 (pre.length + (47 :: seg).length) pre.length slci orderi
          ⟨u0, u1, u2, u3, u4, u5, u6, u7, u8⟩) =
        (match F with
         | Go.Loop.ret r => Go.Ctl.ret r
         | Go.Loop.fuel => Go.Ctl.ret Go.Res.panic
         | Go.Loop.done (o', s') =>
           match O40.set ⟨u0, u1, u2, u3, u4, u5, u6, u7, u8⟩ (cutColon seg).1 (cutColon seg).2 with
           | (c', e) => cond (Go.Err.beq e Go.errNil)
               (.next (st4 (pre.length + (47 :: seg).length) (pre.length + (47 :: seg).length) s' o' c'))
               (.ret (.err e))) := by
      intro F hF
      simp only [st4, GenP40.ParseVector_for1]
      rw [hc2]
      simp only [cond_false, blt_false hle]
      rw [hsl]
      simp only [hp, Bool.not_true, cond_false]
      rw [sliceFrom_ok _ (by simp)]
      simp only [List.drop_succ_cons, List.drop_zero, cut_colon]
      rw [hF]
      cases F with
      | ret r => rfl
      | fuel => rfl
      | done st =>
        obtain ⟨o', s'⟩ := st
        simp only [O40.set]
        generalize GenV40.Set u0 u1 u2 u3 u4 u5 u6 u7 u8 (cutColon seg).1 (cutColon seg).2 = r
        obtain ⟨a0, a1, a2, a3, a4, a5, a6, a7, a8, e⟩ := r
        cases he : Go.Err.beq e Go.errNil <;> simp [he, st4]
    cases hwk : walk4 (remOrd slci orderi) (cutColon seg).1 with
    | none =>
      rw [hwk] at hw
      simp only [] at hw ⊢
      rw [hred _ hw]
    | some ord' =>
      rw [hwk] at hw
      obtain ⟨s', o', hv', hr', hF⟩ := hw
      exact ⟨s', o', hv', hr', hred _ hF⟩

/-- a position holding any other byte is skipped (`continue`) -/
theorem skip40 (v pre seg ys : Bytes) (x y : Nat) (c : O40) (slci orderi : Nat)
    (hv : v = pre ++ x :: seg ++ y :: ys) (hy : y ≠ 47) :
    GenP40.ParseVector_for1 v (st4 (pre.length + (x :: seg).length) pre.length slci orderi c)
      = .next (st4 (pre.length + (x :: seg).length) pre.length slci orderi c) := by
  have hne : pre.length + (x :: seg).length ≠ v.length := by simp [hv]
  have hix : v[pre.length + (x :: seg).length]? = some y := by rw [hv]; exact getElem?_at pre (x :: seg) y ys
  simp only [st4, GenP40.ParseVector_for1, beq_false hne, Bool.not_false, cond_true]
  rw [index_some hix]
  simp [beq_false hy]

/-- outcome of the generated loop `L` against the model's `r` (`n = len(vector)`): same error, or the same object
    in a final state whose `(slci, orderi)` is a position with the model's remaining order -/
def Out (n : Nat) (r : Except Go.Err (O40 × List (Bool × Bytes))) (L : Go.Loop St4 R4) : Prop :=
  match r with
  | .error e => L = .ret (.err e)
  | .ok (c', ord') => ∃ s' o', valid s' o' = true ∧ remOrd s' o' = ord' ∧ L = .done (st4 (n + 1) n s' o' c')

section Loop
variable (v : Bytes) (cnd : St4 → Bool) (post : St4 → St4)
  (hcnd : ∀ i cut s o c, cnd (st4 i cut s o c) = Nat.ble i v.length)
  (hpost : ∀ i cut s o c, post (st4 i cut s o c) = st4 (i + 1) cut s o c)
include hcnd hpost

/-- **loop invariant** of `for i := 1; i <= len(vector); i++`: `cut = |pre|`, `vector[cut] = x`,
    `i = |pre| + |x :: seg|`, no `/` in `seg` -/
theorem loop_inv (rest : Bytes) : ∀ (seg pre : Bytes) (x : Nat) (c : O40) (slci orderi fuel : Nat),
    v = pre ++ x :: seg ++ rest → 47 ∉ seg → valid slci orderi = true → rest.length + 2 ≤ fuel →
    (x = 47 → Out v.length (loop4' O40.set (splitSlash (seg ++ rest)) c (remOrd slci orderi))
      (Go.forN fuel (st4 (pre.length + (x :: seg).length) pre.length slci orderi c) cnd post
        (GenP40.ParseVector_for1 v))) ∧
    (x ≠ 47 → Go.forN fuel (st4 (pre.length + (x :: seg).length) pre.length slci orderi c) cnd post
        (GenP40.ParseVector_for1 v) = .ret (.err eValue)) := by
  induction rest with
  | nil =>
    intro seg pre x c slci orderi fuel hv hseg hval hf
    obtain ⟨n, rfl⟩ : ∃ n, fuel = n + 2 := ⟨fuel - 2, by omega⟩
    have hl : v.length = pre.length + (x :: seg).length := by simp [hv]
    have hc : cnd (st4 (pre.length + (x :: seg).length) pre.length slci orderi c) = true := by
      rw [hcnd]; exact ble_true (by omega)
    obtain ⟨he1, he2⟩ := elem40 v pre seg [] x c slci orderi hv hval (Or.inl rfl)
    constructor
    · intro hx
      have he2 := he2 hx
      simp only [List.append_nil, splitSlash_seg_nil seg hseg, loop4']
      cases hw : walk4 (remOrd slci orderi) (cutColon seg).1 with
      | none =>
        rw [hw] at he2
        simp only [Out]
        rw [forN_ret (h := hc) (hb := he2)]
      | some ord' =>
        rw [hw] at he2
        obtain ⟨s', o', hv', hr', hb⟩ := he2
        simp only []
        cases hs : O40.set c (cutColon seg).1 (cutColon seg).2 with
        | mk c' e =>
          rw [hs] at hb
          simp only [] at hb ⊢
          cases hee : Go.Err.beq e Go.errNil
          · simp only [hee, cond_false] at hb ⊢
            simp only [Out]
            rw [forN_ret (h := hc) (hb := hb)]
          · simp only [hee, cond_true] at hb ⊢
            simp only [Out]
            refine ⟨s', o', hv', hr', ?_⟩
            rw [forN_next (h := hc) (hb := hb), hpost, forN_stop]
            · rw [hl]
            · rw [hcnd]; exact ble_false (by omega)
    · intro hx
      rw [forN_ret (h := hc) (hb := he1 hx)]
  | cons y ys ih =>
    intro seg pre x c slci orderi fuel hv hseg hval hf
    obtain ⟨n, rfl⟩ : ∃ n, fuel = n + 1 := ⟨fuel - 1, by omega⟩
    have hl : pre.length + (x :: seg).length < v.length := by simp [hv]
    have hc : cnd (st4 (pre.length + (x :: seg).length) pre.length slci orderi c) = true := by
      rw [hcnd]; exact ble_true (by omega)
    by_cases hy : y = 47
    · subst hy
      obtain ⟨he1, he2⟩ := elem40 v pre seg (47 :: ys) x c slci orderi hv hval (Or.inr ⟨ys, rfl⟩)
      constructor
      · intro hx
        have he2 := he2 hx
        rw [splitSlash_seg_slash seg ys hseg]
        simp only [loop4']
        cases hw : walk4 (remOrd slci orderi) (cutColon seg).1 with
        | none =>
          rw [hw] at he2
          simp only [Out]
          rw [forN_ret (h := hc) (hb := he2)]
        | some ord' =>
          rw [hw] at he2
          obtain ⟨s', o', hv', hr', hb⟩ := he2
          simp only []
          cases hs : O40.set c (cutColon seg).1 (cutColon seg).2 with
          | mk c' e =>
            rw [hs] at hb
            simp only [] at hb ⊢
            cases hee : Go.Err.beq e Go.errNil
            · simp only [hee, cond_false] at hb ⊢
              simp only [Out]
              rw [forN_ret (h := hc) (hb := hb)]
            · simp only [hee, cond_true] at hb ⊢
              rw [forN_next (h := hc) (hb := hb), hpost]
              have := (ih [] (pre ++ x :: seg) 47 c' s' o' n (by simp [hv]) (by simp) hv'
                (by simp at hf; omega)).1 rfl
              simp only [List.length_append, List.length_singleton, List.nil_append, ← hr'] at this ⊢
              exact this
      · intro hx
        rw [forN_ret (h := hc) (hb := he1 hx)]
    · have hb := skip40 v pre seg ys x y c slci orderi hv hy
      have := ih (seg ++ [y]) pre x c slci orderi n (by simp [hv]) (by simp [hseg, Ne.symm hy]) hval
        (by simp at hf; omega)
      simp only [List.append_assoc, List.singleton_append, List.length_cons, List.length_append,
        List.length_singleton, ← Nat.add_assoc] at this
      constructor
      · intro hx
        rw [forN_next (h := hc) (hb := hb), hpost]
        simpa [Nat.add_assoc] using this.1 hx
      · intro hx
        rw [forN_next (h := hc) (hb := hb), hpost]
        simpa [Nat.add_assoc] using this.2 hx

end Loop

/-- the whole scan, from the initial state as it appears in the generated text (`L` is the value of the loop).
    Since the repair of finding F4 `ParseVector` only enters the loop when the first byte is `/` (or there is none),
    so the second conjunct (the loop's own leading-`/` test fires) describes code that is no longer reachable. -/
theorem scan40 (v : Bytes) (x : Nat) (rest : Bytes) (hv : v = x :: rest) (fuel : Nat) (st : St4)
    (cnd : St4 → Bool) (post : St4 → St4) (L : Go.Loop St4 R4)
    (hL : Go.forN fuel st cnd post (GenP40.ParseVector_for1 v) = L)
    (hst : st = st4 1 0 0 0 O40.zero)
    (hcnd : ∀ i cut s o c, cnd (st4 i cut s o c) = Nat.ble i v.length)
    (hpost : ∀ i cut s o c, post (st4 i cut s o c) = st4 (i + 1) cut s o c)
    (hf : v.length + 2 ≤ fuel) :
    (x = 47 → Out v.length (loop4' O40.set (splitSlash rest) O40.zero (flatOrder GenV40.tbl_order)) L) ∧
    (x ≠ 47 → L = .ret (.err eValue)) := by
  subst hst
  have := loop_inv v cnd post hcnd hpost rest [] [] x O40.zero 0 0 fuel (by simp [hv]) (by simp) valid_start
    (by simp [hv] at hf; omega)
  simp only [List.length_nil, List.length_cons, Nat.zero_add, List.nil_append, remOrd_start] at this
  rw [hL] at this
  exact this

def dec40 : T9 → O40 | (a, b, c, d, e, f, g, h, i) => ⟨a, b, c, d, e, f, g, h, i⟩

/-- **v4.0**: on every byte string the regenerated parser returns the same object / the same error as the
    hand-written model, and it does not panic -/
theorem genParse40 (s : Bytes) : ofGo dec40 (GenP40.ParseVector s) = parse40 s := by
  unfold GenP40.ParseVector parse40
  simp only [GenV40.const_header, ← hasPrefix_eq, List.length_cons, List.length_nil, Nat.zero_add, Nat.reduceAdd]
  by_cases h : Go.hasPrefix s [67, 86, 83, 83, 58, 52, 46, 48] = true
  · have hlen : 8 ≤ s.length := by simpa using length_le_of_hasPrefix h
    simp only [h, Bool.not_true, cond_false, if_true]
    cases hd : List.drop 8 s with
    | nil =>
      -- the bare header: the separator test is skipped (`len(vector) > len(header)` is false), the loop never runs
      have hl : s.length ≤ 8 := by simpa using hd
      rw [blt_false hl]
      simp only [cond_false]
      rw [sliceFrom_ok _ hlen, hd]
      rfl
    | cons x rest =>
      have hl : 8 < s.length := by
        have := congrArg List.length hd
        simp at this; omega
      have hx8 : s[8]? = some x := by
        have := congrArg List.head? hd
        simpa [List.head?_drop] using this
      rw [blt_true hl]
      simp only [cond_true]
      rw [index_some hx8]
      by_cases hx : x = 47
      · simp only [beq_true hx, Bool.not_true, cond_false]
        rw [sliceFrom_ok _ hlen, hd]
        generalize hL : Go.forN _ _ _ _ (GenP40.ParseVector_for1 _) = L
        obtain ⟨H1, _⟩ := scan40 (x :: rest) x rest rfl _ _ _ _ L hL rfl
          (by intro i cut s o c; rfl) (by intro i cut s o c; rfl) (by simp only [Nat.add_eq]; omega)
        have H := H1 hx
        rw [loop4_eq]
        simp only [hx, if_true]
        cases hr : loop4' O40.set (splitSlash rest) O40.zero (flatOrder GenV40.tbl_order) with
        | error e =>
          rw [hr] at H
          simp only [Out] at H
          subst H
          rfl
        | ok r =>
          obtain ⟨c', ord'⟩ := r
          rw [hr] at H
          simp only [Out] at H
          obtain ⟨s', o', hv', hr', hLL⟩ := H
          subst hLL
          simp only [st4, ← hr', pos_any hv']
          cases Nat.beq s' 0
          · obtain ⟨u0, u1, u2, u3, u4, u5, u6, u7, u8⟩ := c'
            rfl
          · rfl
      · -- the header followed by a byte other than the separator: ErrInvalidCVSSHeader
        have hx' : ¬ x = SLASH := hx
        simp [beq_false hx, hx', ofGo, eHeader]
  · simp [h, ofGo, eHeader]

end GenParse40
