import Cvss.Proofs.Score3Env31_0
import Cvss.Proofs.Score3Env31_1
import Cvss.Proofs.Score3Env31_2
import Cvss.Proofs.Score3Env31_3
import Cvss.Proofs.Score3T31
import Cvss.Proofs.Score3Base31
import Cvss.Proofs.Score3Codes31
/-!
# C03, v3.1: composition — the three scores of every well-formed object are the Spec's tenths

enumerations (a) `okBase_all`, (b) `okT_all`, (c) `env_all` + shape lemmas (d) + codes/strings (e).
(File generated from the v3.1 text for v3.0 by `scripts/score3_mk30.sh`.)
-/
namespace Proofs.Score3.V31
open Spec Spec.V3 GenV31

theorem okT_all {k e rl rc : Nat} (hk : k ≤ 100) (he : e < 5) (hrl : rl < 5) (hrc : rc < 4) : okT k e rl rc = true := by
  have h : chunkT rc = true := by
    have : rc = 0 ∨ rc = 1 ∨ rc = 2 ∨ rc = 3 := by omega
    rcases this with rfl | rfl | rfl | rfl
    · exact t_0
    · exact t_1
    · exact t_2
    · exact t_3
  exact all_range (all_range (all_range h k (by omega)) e he) rl hrl

theorem env_all {ms mav mac : Nat} (hms : ms < 2) (hmav : mav < 4) (hmac : mac < 2) : chunkEnv ms mav mac = true := by
  have : ms = 0 ∨ ms = 1 := by omega
  have : mav = 0 ∨ mav = 1 ∨ mav = 2 ∨ mav = 3 := by omega
  have : mac = 0 ∨ mac = 1 := by omega
  rcases ‹ms = 0 ∨ _› with rfl | rfl <;> rcases ‹mav = 0 ∨ _› with rfl | rfl | rfl | rfl <;>
    rcases ‹mac = 0 ∨ _› with rfl | rfl
  · exact env_0_0_0
  · exact env_0_0_1
  · exact env_0_1_0
  · exact env_0_1_1
  · exact env_0_2_0
  · exact env_0_2_1
  · exact env_0_3_0
  · exact env_0_3_1
  · exact env_1_0_0
  · exact env_1_0_1
  · exact env_1_1_0
  · exact env_1_1_1
  · exact env_1_2_0
  · exact env_1_2_1
  · exact env_1_3_0
  · exact env_1_3_1

theorem nR_rng : ∀ r, r < 4 → 1 ≤ nR r ∧ nR r ≤ 3 := by decide

theorem specInner_nR (mav mac mpr mui ms mc mi ma cr ir ar : Nat) :
    specInner ver mav mac mpr mui ms mc mi ma cr ir ar =
    specInner ver mav mac mpr mui ms mc mi ma (nR cr) (nR ir) (nR ar) := by
  simp only [specInner, specMImpact, ← cReq_nR]

/-- (c) on every effective code tuple: the modified base score is the Spec's, a tenth `K/10 ≤ 10` -/
theorem inner_ok {mav mac mpr mui ms mc mi ma cr ir ar : Nat} (hmav : mav < 4) (hmac : mac < 2) (hmpr : mpr < 3)
    (hmui : mui < 2) (hms : ms < 2) (hmc : mc < 3) (hmi : mi < 3) (hma : ma < 3) (hcr : cr < 4) (hir : ir < 4) (har : ar < 4) :
    ∃ K : Nat, specInner ver mav mac mpr mui ms mc mi ma cr ir ar = Int.ofNat K ∧
      Inner mav mac mpr mui ms mc mi ma cr ir ar = F64.tenth K ∧ K ≤ 100 := by
  have h := chunkEnv_elim (env_all hms hmav hmac) hmpr hmui hmc hmi hma (nR_rng cr hcr) (nR_rng ir hir) (nR_rng ar har)
  simp only [okInner, Bool.and_eq_true] at h
  rw [Inner_nR _ _ _ _ _ _ _ _ _ _ _ hcr hir har, specInner_nR]
  exact isTenth_elim h.1

/-- (b) the Temporal step on a tenth -/
theorem t_ok {k e rl rc : Nat} (hk : k ≤ 100) (he : e < 5) (hrl : rl < 5) (hrc : rc < 4) :
    ∃ K : Nat, specT (Int.ofNat k) e rl rc = Int.ofNat K ∧
      T (F64.tenth k) (exploitCodeMaturity e) (remediationLevel rl) (reportConfidence rc) = F64.tenth K ∧ K ≤ 100 := by
  have h := okT_all hk he hrl hrc
  simp only [okT, Bool.and_eq_true] at h
  exact isTenth_elim h.1

/-- (a) Base -/
theorem base_ok {av ac pr ui s c i a : Nat} (hav : av < 4) (hac : ac < 2) (hpr : pr < 3) (hui : ui < 2) (hs : s < 2)
    (hc : c < 3) (hi : i < 3) (ha : a < 3) :
    ∃ K : Nat, specBase av ac pr ui s c i a = Int.ofNat K ∧ BaseScore_core c i a s av ac pr s ui = F64.tenth K ∧ K ≤ 100 := by
  have h := okBase_all hav hac hpr hui hs hc hi ha
  simp only [okBase, Bool.and_eq_true] at h
  exact isTenth_elim h.1

/-! ## The Spec on the strings that `Get` returns = the Spec on codes -/
section spec
variable {r0 r1 r2 r3 r4 r5 r6 r7 r8 r9 r10 r11 r12 r13 r14 r15 r16 r17 r18 r19 r20 r21 : Nat}
local notation "V" => valOf r0 r1 r2 r3 r4 r5 r6 r7 r8 r9 r10 r11 r12 r13 r14 r15 r16 r17 r18 r19 r20 r21

theorem spec_base (h0 : r0 < 4) (h1 : r1 < 2) (h2 : r2 < 3) (h3 : r3 < 2) (h4 : r4 < 2) (h5 : r5 < 3) (h6 : r6 < 3)
    (h7 : r7 < 3) : baseK ver V = (specBase r0 r1 r2 r3 r4 r5 r6 r7).toNat := by
  simp only [baseK, specBase, spec_impact h4 h5 h6 h7, spec_expl h0 h1 h2 h3 h4, w_S h4]
theorem spec_temporal (h8 : r8 < 5) (h9 : r9 < 5) (h10 : r10 < 4) :
    temporalK ver V = (specT (Int.ofNat (baseK ver V)) r8 r9 r10).toNat := by
  simp only [temporalK, specT, w_E h8, w_RL h9, w_RC h10]; rfl
theorem spec_env (h0 : r0 < 4) (h1 : r1 < 2) (h2 : r2 < 3) (h3 : r3 < 2) (h4 : r4 < 2) (h5 : r5 < 3) (h6 : r6 < 3)
    (h7 : r7 < 3) (h8 : r8 < 5) (h9 : r9 < 5) (h10 : r10 < 4) (h11 : r11 < 4) (h12 : r12 < 4) (h13 : r13 < 4)
    (h14 : r14 < 5) (h15 : r15 < 3) (h16 : r16 < 4) (h17 : r17 < 3) (h18 : r18 < 3) (h19 : r19 < 4) (h20 : r20 < 4)
    (h21 : r21 < 4) :
    environmentalK ver V = (specT (specInner ver (mod_ r0 r14) (mod_ r1 r15) (mod_ r2 r16) (mod_ r3 r17) (mod_ r4 r18)
      (mod_ r5 r19) (mod_ r6 r20) (mod_ r7 r21) r11 r12 r13) r8 r9 r10).toNat := by
  simp only [environmentalK, modifiedImpactD, modifiedExploitabilityD, specT, specInner, specMImpact, specExpl,
    EnvironmentalScore_eq, w_MS h4 h18, w_MAV h0 h14, w_MAC h1 h15, w_MPR h2 h16, w_MUI h3 h17, w_MC h5 h19,
    w_MI h6 h20, w_MA h7 h21, w_CR h11, w_IR h12, w_AR h13, w_E h8, w_RL h9, w_RC h10]
end spec

/-! ## On codes -/
section codes
variable {r0 r1 r2 r3 r4 r5 r6 r7 r8 r9 r10 r11 r12 r13 r14 r15 r16 r17 r18 r19 r20 r21 : Nat}
local notation "V" => valOf r0 r1 r2 r3 r4 r5 r6 r7 r8 r9 r10 r11 r12 r13 r14 r15 r16 r17 r18 r19 r20 r21

theorem base_codes (h0 : r0 < 4) (h1 : r1 < 2) (h2 : r2 < 3) (h3 : r3 < 2) (h4 : r4 < 2) (h5 : r5 < 3) (h6 : r6 < 3)
    (h7 : r7 < 3) :
    BaseScore_core r5 r6 r7 r4 r0 r1 r2 r4 r3 = F64.tenth (baseK ver V) ∧ baseK ver V ≤ 100 := by
  obtain ⟨K, hs, hm, hK⟩ := base_ok h0 h1 h2 h3 h4 h5 h6 h7
  rw [spec_base h0 h1 h2 h3 h4 h5 h6 h7, hs]
  exact ⟨hm, hK⟩

theorem temporal_codes (h0 : r0 < 4) (h1 : r1 < 2) (h2 : r2 < 3) (h3 : r3 < 2) (h4 : r4 < 2) (h5 : r5 < 3) (h6 : r6 < 3)
    (h7 : r7 < 3) (h8 : r8 < 5) (h9 : r9 < 5) (h10 : r10 < 4) :
    TemporalScore_core r8 r9 r10 r5 r6 r7 r4 r0 r1 r2 r4 r3 = F64.tenth (temporalK ver V) ∧ temporalK ver V ≤ 100 := by
  obtain ⟨hb, hK⟩ := base_codes (r8 := r8) (r9 := r9) (r10 := r10) (r11 := r11) (r12 := r12) (r13 := r13) (r14 := r14)
    (r15 := r15) (r16 := r16) (r17 := r17) (r18 := r18) (r19 := r19) (r20 := r20) (r21 := r21) h0 h1 h2 h3 h4 h5 h6 h7
  obtain ⟨K', hs', hm', hK'⟩ := t_ok hK h8 h9 h10
  rw [temporal_shape, hb, spec_temporal h8 h9 h10, hs']
  exact ⟨hm', hK'⟩

theorem env_codes (h0 : r0 < 4) (h1 : r1 < 2) (h2 : r2 < 3) (h3 : r3 < 2) (h4 : r4 < 2) (h5 : r5 < 3) (h6 : r6 < 3)
    (h7 : r7 < 3) (h8 : r8 < 5) (h9 : r9 < 5) (h10 : r10 < 4) (h11 : r11 < 4) (h12 : r12 < 4) (h13 : r13 < 4)
    (h14 : r14 < 5) (h15 : r15 < 3) (h16 : r16 < 4) (h17 : r17 < 3) (h18 : r18 < 3) (h19 : r19 < 4) (h20 : r20 < 4)
    (h21 : r21 < 4) :
    EnvironmentalScore_core r0 r14 r1 r15 r2 r16 r3 r17 r4 r18 r5 r19 r6 r20 r7 r21 r11 r12 r13 r8 r9 r10 =
      F64.tenth (environmentalK ver V) ∧ environmentalK ver V ≤ 100 := by
  obtain ⟨K, hs, hm, hK⟩ := inner_ok (mod_lt.1 r0 h0 r14 h14) (mod_lt.2.1 r1 h1 r15 h15) (mod_lt.2.2 r2 h2 r16 h16)
    (mod_lt.2.1 r3 h3 r17 h17) (mod_lt.2.1 r4 h4 r18 h18) (mod_lt.2.2 r5 h5 r19 h19) (mod_lt.2.2 r6 h6 r20 h20)
    (mod_lt.2.2 r7 h7 r21 h21) h11 h12 h13
  obtain ⟨K', hs', hm', hK'⟩ := t_ok hK h8 h9 h10
  rw [env_shape _ _ _ _ _ _ _ _ _ _ _ _ _ _ _ _ _ _ _ _ _ _ h8 h9 h10, hm,
    spec_env h0 h1 h2 h3 h4 h5 h6 h7 h8 h9 h10 h11 h12 h13 h14 h15 h16 h17 h18 h19 h20 h21, hs, hs']
  exact ⟨hm', hK'⟩
end codes

/-! ## On well-formed objects -/
theorem base_obj (c : Model.O31) (h : c.wf = true) :
    c.baseScore = F64.tenth (baseK ver (val c)) ∧ baseK ver (val c) ≤ 100 := by
  have R := inRange_of_wf c h
  rw [baseScore_eq, val_eq, base_scope _ _ _ _ _ _ _ _ _ R.hS]
  exact base_codes R.h0 R.h1 R.h2 R.h3 R.h4 R.h5 R.h6 R.h7

theorem temporal_obj (c : Model.O31) (h : c.wf = true) :
    c.temporalScore = F64.tenth (temporalK ver (val c)) ∧ temporalK ver (val c) ≤ 100 := by
  have R := inRange_of_wf c h
  rw [temporalScore_eq, val_eq, temporal_shape, base_scope _ _ _ _ _ _ _ _ _ R.hS, ← temporal_shape]
  exact temporal_codes R.h0 R.h1 R.h2 R.h3 R.h4 R.h5 R.h6 R.h7 R.h8 R.h9 R.h10

theorem env_obj (c : Model.O31) (h : c.wf = true) :
    c.environmentalScore = F64.tenth (environmentalK ver (val c)) ∧ environmentalK ver (val c) ≤ 100 := by
  have R := inRange_of_wf c h
  rw [environmentalScore_eq, val_eq]
  exact env_codes R.h0 R.h1 R.h2 R.h3 R.h4 R.h5 R.h6 R.h7 R.h8 R.h9 R.h10 R.h11 R.h12 R.h13 R.h14 R.h15 R.h16 R.h17
    R.h18 R.h19 R.h20 R.h21


/-! ## Appendix A: the integer-based `Roundup` agrees with the real-number `Roundup` on every argument the
    equations produce, and its `round_to_nearest_integer` step never meets a tie (same enumerations; no code involved in the statements) -/
theorem agree_of {p : Prop} [Decidable p] {x : Dec} (h : (decide p || agreeA x) = true) :
    p ∨ (Roundup x = RoundupA x ∧ noTie x = true) := by
  simp only [Bool.or_eq_true, Bool.and_eq_true, decide_eq_true_eq, agreeA] at h; exact h

theorem appendixA_base {av ac pr ui s c i a : Nat} (hav : av < 4) (hac : ac < 2) (hpr : pr < 3) (hui : ui < 2) (hs : s < 2)
    (hc : c < 3) (hi : i < 3) (ha : a < 3) :
    specImpact s c i a ≤ 0 ∨
    (Roundup (baseArg (Nat.beq s 1) (specImpact s c i a) (specExpl av ac pr ui s)) =
      RoundupA (baseArg (Nat.beq s 1) (specImpact s c i a) (specExpl av ac pr ui s)) ∧
     noTie (baseArg (Nat.beq s 1) (specImpact s c i a) (specExpl av ac pr ui s)) = true) := by
  have h := okBase_all hav hac hpr hui hs hc hi ha
  simp only [okBase, Bool.and_eq_true] at h
  exact agree_of h.2

theorem appendixA_temporal {k e rl rc : Nat} (hk : k ≤ 100) (he : e < 5) (hrl : rl < 5) (hrc : rc < 4) :
    Roundup (tenths (Int.ofNat k) * cE e * cRL rl * cRC rc) = RoundupA (tenths (Int.ofNat k) * cE e * cRL rl * cRC rc) ∧
    noTie (tenths (Int.ofNat k) * cE e * cRL rl * cRC rc) = true := by
  have h := okT_all hk he hrl hrc
  simp only [okT, Bool.and_eq_true, agreeA, decide_eq_true_eq] at h
  exact h.2

theorem appendixA_inner {mav mac mpr mui ms mc mi ma cr ir ar : Nat} (hmav : mav < 4) (hmac : mac < 2) (hmpr : mpr < 3)
    (hmui : mui < 2) (hms : ms < 2) (hmc : mc < 3) (hmi : mi < 3) (hma : ma < 3) (hcr : cr < 4) (hir : ir < 4) (har : ar < 4) :
    specMImpact ver ms mc mi ma cr ir ar ≤ 0 ∨
    (Roundup (baseArg (Nat.beq ms 1) (specMImpact ver ms mc mi ma cr ir ar) (specExpl mav mac mpr mui ms)) =
      RoundupA (baseArg (Nat.beq ms 1) (specMImpact ver ms mc mi ma cr ir ar) (specExpl mav mac mpr mui ms)) ∧
     noTie (baseArg (Nat.beq ms 1) (specMImpact ver ms mc mi ma cr ir ar) (specExpl mav mac mpr mui ms)) = true) := by
  have h := chunkEnv_elim (env_all hms hmav hmac) hmpr hmui hmc hmi hma (nR_rng cr hcr) (nR_rng ir hir) (nR_rng ar har)
  simp only [okInner, Bool.and_eq_true] at h
  have e : specMImpact ver ms mc mi ma cr ir ar = specMImpact ver ms mc mi ma (nR cr) (nR ir) (nR ar) := by
    simp only [specMImpact, ← cReq_nR]
  rw [e]
  exact agree_of h.2

end Proofs.Score3.V31
