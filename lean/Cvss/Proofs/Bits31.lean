import Cvss.Proofs.BitsCommon
/-!
# CVSS v3.1: the generated bit-field `Get`/`Set` satisfy the contract (C07, C09)

`codes` and `upd` transcribe the field extraction of `GenV31.Get` and the byte updates of `GenV31.Set`;
`get_core`/`set_known` tie them to the generated definitions (by unfolding those), so any change of a mask,
shift, literal or value list in the Go source breaks a proof below.  The bit facts are proved for ALL
`Nat`-valued fields (in particular all byte states), one byte at a time by kernel enumeration.
(Same text as `Bits30.lean`, for the v3.1 package.)
-/
set_option maxRecDepth 100000
namespace Bits31
open Bits Model
open Spec (Metric legal isMetric)

abbrev ms : List Metric := Spec.V3.metrics

theorem tableOK : TableOK ms where
  nodup := by decide
  vne := by decide

/-- field codes in Spec table order, as `GenV31.Get` extracts them -/
def codes : O31 → List Nat
  | ⟨u0, u1, u2, u3, u4, u5⟩ =>
    [ Nat.shiftRight (Nat.land u0 192) 6,
      Nat.shiftRight (Nat.land u0 32) 5,
      Nat.shiftRight (Nat.land u0 24) 3,
      Nat.shiftRight (Nat.land u0 4) 2,
      Nat.shiftRight (Nat.land u0 2) 1,
      Nat.lor (Nat.mod (Nat.shiftLeft (Nat.land u0 1) 1) 256) (Nat.shiftRight (Nat.land u1 128) 7),
      Nat.shiftRight (Nat.land u1 96) 5,
      Nat.shiftRight (Nat.land u1 24) 3,
      Nat.land u1 7,
      Nat.shiftRight (Nat.land u2 224) 5,
      Nat.shiftRight (Nat.land u2 24) 3,
      Nat.shiftRight (Nat.land u2 6) 1,
      Nat.lor (Nat.mod (Nat.shiftLeft (Nat.land u2 1) 1) 256) (Nat.shiftRight (Nat.land u3 128) 7),
      Nat.shiftRight (Nat.land u3 96) 5,
      Nat.shiftRight (Nat.land u3 28) 2,
      Nat.land u3 3,
      Nat.shiftRight (Nat.land u4 192) 6,
      Nat.shiftRight (Nat.land u4 48) 4,
      Nat.shiftRight (Nat.land u4 12) 2,
      Nat.land u4 3,
      Nat.shiftRight (Nat.land u5 192) 6,
      Nat.shiftRight (Nat.land u5 48) 4 ]

/-- the byte update of arm `j` of `GenV31.Set` for value index `k` -/
def upd : Nat → O31 → Nat → O31
  | 0, ⟨u0, u1, u2, u3, u4, u5⟩, k => ⟨Nat.lor (Nat.land u0 63) (Nat.mod (Nat.shiftLeft k 6) 256), u1, u2, u3, u4, u5⟩  -- AV
  | 1, ⟨u0, u1, u2, u3, u4, u5⟩, k => ⟨Nat.lor (Nat.land u0 223) (Nat.mod (Nat.shiftLeft k 5) 256), u1, u2, u3, u4, u5⟩  -- AC
  | 2, ⟨u0, u1, u2, u3, u4, u5⟩, k => ⟨Nat.lor (Nat.land u0 231) (Nat.mod (Nat.shiftLeft k 3) 256), u1, u2, u3, u4, u5⟩  -- PR
  | 3, ⟨u0, u1, u2, u3, u4, u5⟩, k => ⟨Nat.lor (Nat.land u0 251) (Nat.mod (Nat.shiftLeft k 2) 256), u1, u2, u3, u4, u5⟩  -- UI
  | 4, ⟨u0, u1, u2, u3, u4, u5⟩, k => ⟨Nat.lor (Nat.land u0 253) (Nat.mod (Nat.shiftLeft k 1) 256), u1, u2, u3, u4, u5⟩  -- S
  | 5, ⟨u0, u1, u2, u3, u4, u5⟩, k => ⟨Nat.lor (Nat.land u0 254) (Nat.shiftRight (Nat.land k 2) 1), Nat.lor (Nat.land u1 127) (Nat.mod (Nat.shiftLeft (Nat.land k 1) 7) 256), u2, u3, u4, u5⟩  -- C
  | 6, ⟨u0, u1, u2, u3, u4, u5⟩, k => ⟨u0, Nat.lor (Nat.land u1 159) (Nat.mod (Nat.shiftLeft k 5) 256), u2, u3, u4, u5⟩  -- I
  | 7, ⟨u0, u1, u2, u3, u4, u5⟩, k => ⟨u0, Nat.lor (Nat.land u1 231) (Nat.mod (Nat.shiftLeft k 3) 256), u2, u3, u4, u5⟩  -- A
  | 8, ⟨u0, u1, u2, u3, u4, u5⟩, k => ⟨u0, Nat.lor (Nat.land u1 248) k, u2, u3, u4, u5⟩  -- E
  | 9, ⟨u0, u1, u2, u3, u4, u5⟩, k => ⟨u0, u1, Nat.lor (Nat.land u2 31) (Nat.mod (Nat.shiftLeft k 5) 256), u3, u4, u5⟩  -- RL
  | 10, ⟨u0, u1, u2, u3, u4, u5⟩, k => ⟨u0, u1, Nat.lor (Nat.land u2 231) (Nat.mod (Nat.shiftLeft k 3) 256), u3, u4, u5⟩  -- RC
  | 11, ⟨u0, u1, u2, u3, u4, u5⟩, k => ⟨u0, u1, Nat.lor (Nat.land u2 249) (Nat.mod (Nat.shiftLeft k 1) 256), u3, u4, u5⟩  -- CR
  | 12, ⟨u0, u1, u2, u3, u4, u5⟩, k => ⟨u0, u1, Nat.lor (Nat.land u2 254) (Nat.shiftRight (Nat.land k 2) 1), Nat.lor (Nat.land u3 127) (Nat.mod (Nat.shiftLeft (Nat.land k 1) 7) 256), u4, u5⟩  -- IR
  | 13, ⟨u0, u1, u2, u3, u4, u5⟩, k => ⟨u0, u1, u2, Nat.lor (Nat.land u3 159) (Nat.mod (Nat.shiftLeft k 5) 256), u4, u5⟩  -- AR
  | 14, ⟨u0, u1, u2, u3, u4, u5⟩, k => ⟨u0, u1, u2, Nat.lor (Nat.land u3 227) (Nat.mod (Nat.shiftLeft k 2) 256), u4, u5⟩  -- MAV
  | 15, ⟨u0, u1, u2, u3, u4, u5⟩, k => ⟨u0, u1, u2, Nat.lor (Nat.land u3 252) k, u4, u5⟩  -- MAC
  | 16, ⟨u0, u1, u2, u3, u4, u5⟩, k => ⟨u0, u1, u2, u3, Nat.lor (Nat.land u4 63) (Nat.mod (Nat.shiftLeft k 6) 256), u5⟩  -- MPR
  | 17, ⟨u0, u1, u2, u3, u4, u5⟩, k => ⟨u0, u1, u2, u3, Nat.lor (Nat.land u4 207) (Nat.mod (Nat.shiftLeft k 4) 256), u5⟩  -- MUI
  | 18, ⟨u0, u1, u2, u3, u4, u5⟩, k => ⟨u0, u1, u2, u3, Nat.lor (Nat.land u4 243) (Nat.mod (Nat.shiftLeft k 2) 256), u5⟩  -- MS
  | 19, ⟨u0, u1, u2, u3, u4, u5⟩, k => ⟨u0, u1, u2, u3, Nat.lor (Nat.land u4 252) k, u5⟩  -- MC
  | 20, ⟨u0, u1, u2, u3, u4, u5⟩, k => ⟨u0, u1, u2, u3, u4, Nat.lor (Nat.land u5 63) (Nat.mod (Nat.shiftLeft k 6) 256)⟩  -- MI
  | 21, ⟨u0, u1, u2, u3, u4, u5⟩, k => ⟨u0, u1, u2, u3, u4, Nat.lor (Nat.land u5 192) (Nat.mod (Nat.shiftLeft k 4) 256)⟩  -- MA
  | _, c, _ => c

/-! ## ties to the generated code -/

/-- `GenV31.Get_core` as a function of the code list -/
def core (rs : List Nat) (abv : Bytes) : Bytes × Go.Err :=
  GenV31.Get_core (rs.getD 0 0) (rs.getD 1 0) (rs.getD 2 0) (rs.getD 3 0) (rs.getD 4 0) (rs.getD 5 0) (rs.getD 6 0)
    (rs.getD 7 0) (rs.getD 8 0) (rs.getD 9 0) (rs.getD 10 0) (rs.getD 11 0) (rs.getD 12 0) (rs.getD 13 0)
    (rs.getD 14 0) (rs.getD 15 0) (rs.getD 16 0) (rs.getD 17 0) (rs.getD 18 0) (rs.getD 19 0) (rs.getD 20 0)
    (rs.getD 21 0) abv

/-- the generated `Get` is `Get_core` on `codes` (by unfolding `GenV31.Get`) -/
theorem get_core (c : O31) (abv : Bytes) : c.get abv = core (codes c) abv := by
  obtain ⟨u0, u1, u2, u3, u4, u5⟩ := c; rfl

theorem codes_len (c : O31) : (codes c).length = ms.length := by
  obtain ⟨u0, u1, u2, u3, u4, u5⟩ := c; rfl

/-- the value strings of metric `j` in the code's numbering, read off the generated `Get_core`
    (decode codes 0, 1, … until the empty string) -/
def vals (j : Nat) : List Bytes :=
  ((List.range 8).map fun x => (core (List.replicate 22 x) (mAt ms j).abv).1).takeWhile (fun v => !v.isEmpty)

theorem vals_nodup : ∀ j, j < 22 → (vals j).Nodup := by decide
theorem vals_len : ∀ j, j < 22 → (vals j).length ≤ 256 := by decide
/-- the code's value strings are exactly the Spec's -/
theorem vals_spec : ∀ j, j < 22 → ∀ v, v ∈ vals j ↔ v ∈ (mAt ms j).values := by
  have h : ∀ j, j < 22 → sameMembers (vals j) (mAt ms j).values = true := by decide
  exact fun j hj => sameMembers_iff (h j hj)

/-- arm `j` of the generated `Get_core` decodes code `x` as the `x`-th value string of metric `j` (`""` beyond) -/
theorem core_known : ∀ j, j < 22 → ∀ rs : List Nat,
    core rs (mAt ms j).abv = ((vals j).getD (rs.getD j 0) [], Go.errNil) := by
  split_lt <;> (
    intro rs
    simp only [core, GenV31.Get_core, flet_eq, reduceStrEq, cond_true, cond_false]
    generalize rs.getD _ 0 = x
    match x with
    | 0 | 1 | 2 | 3 | 4 | 5 | 6 | 7 => rfl
    | n+8 => rfl)

theorem get_known (j : Nat) (hj : j < ms.length) (c : O31) :
    c.get (mAt ms j).abv = ((vals j).getD ((codes c).getD j 0) [], Go.errNil) := by
  rw [get_core]; exact core_known j hj _

/-- an abbreviation outside the Spec table reaches the `default:` arm of `Get` -/
theorem get_default (c : O31) (a : Bytes) (h : a ∉ ms.map (·.abv)) : c.get a = ([], eInvalidMetric a) := by
  obtain ⟨u0, u1, u2, u3, u4, u5⟩ := c
  simp (disch := exact ne_of_not_mem h (by decide)) only
    [O31.get, GenV31.Get, GenV31.Get_core, cond_strEq_ne]
  rfl

/-- … and of `Set`, which leaves the object alone -/
theorem set_default (c : O31) (a v : Bytes) (h : a ∉ ms.map (·.abv)) : c.set a v = (c, eInvalidMetric a) := by
  obtain ⟨u0, u1, u2, u3, u4, u5⟩ := c
  simp (disch := exact ne_of_not_mem h (by decide)) only
    [O31.set, GenV31.Set, cond_strEq_ne]
  rfl

/-- arm `j` of the generated `Set`: `validate` against the same value list that `Get` decodes with, then `upd j` -/
theorem set_known : ∀ j, j < 22 → ∀ (c : O31) (v : Bytes), c.set (mAt ms j).abv v =
    (match validate v (vals j) with
     | (k, err) => cond (!(Go.Err.beq err Go.errNil)) (c, err) (upd j c k, Go.errNil)) := by
  split_lt <;> (
    rintro ⟨u0, u1, u2, u3, u4, u5⟩ v
    generalize hp : validate v (vals _) = p
    simp only [O31.set, GenV31.Set, flet_eq, reduceStrEq, cond_true, cond_false]
    generalize hq : GenV31.validate v _ = q
    obtain rfl : q = p := hq.symm.trans hp
    obtain ⟨k, err⟩ := q
    cases Go.Err.beq err Go.errNil <;> rfl)

/-! ## bit facts (all `Nat` fields; one byte at a time) -/

set_option hygiene false in
macro "byte_any" : tactic => `(tactic| first
  | rfl | assumption
  | byte_enum u0 | byte_enum u1 | byte_enum u2 | byte_enum u3 | byte_enum u4 | byte_enum u5)
set_option hygiene false in
macro "byte_tac" : tactic => `(tactic| first
  | byte_any
  | split_enum u0 u1 2 1 | split_enum u2 u3 2 1
  | (refine Bits.congr2 Nat.lor ?_ ?_ <;> byte_any))

/-- `upd j c k` sets code `j` to `k` and leaves every other code alone -/
theorem upd_codes : ∀ j, j < 22 → ∀ (c : O31) (k : Nat), k < (vals j).length →
    codes (upd j c k) = (codes c).set j k := by
  split_lt <;> (
    rintro ⟨u0, u1, u2, u3, u4, u5⟩ k hk
    simp only [upd, codes]
    list_eq <;> byte_tac)

theorem upd_isB : ∀ j, j < 22 → ∀ (c : O31) (k : Nat), k < (vals j).length →
    c.IsBytes → (upd j c k).IsBytes := by
  split_lt <;> (
    rintro ⟨u0, u1, u2, u3, u4, u5⟩ k hk ⟨h0, h1, h2, h3, h4, h5⟩
    simp only [upd, O31.IsBytes]
    refine ⟨?_, ?_, ?_, ?_, ?_, ?_⟩ <;> byte_tac)

/-- the low 4 bits of `u5` belong to no metric -/
def Spare (c : O31) : Prop := c.u5 % 16 = 0

theorem upd_spare : ∀ j, j < 22 → ∀ (c : O31) (k : Nat), k < (vals j).length →
    Spare c → Spare (upd j c k) := by
  split_lt <;> (
    rintro ⟨u0, u1, u2, u3, u4, u5⟩ k hk hs
    simp only [upd, Spare] at hs ⊢
    first
    | exact hs
    | (have key : ∀ w, w < 256 → ∀ k, k < (vals 21).length →
          Nat.lor (Nat.land w 192) (Nat.mod (Nat.shiftLeft k 4) 256) % 16 = 0 := by decide +kernel
       rw [land_mod256 u5 192 (by decide)]
       exact key _ (Nat.mod_lt _ (by decide)) k hk)
    | (have key : ∀ w, w < 256 → ∀ k, k < (vals 20).length →
          Nat.lor (Nat.land w 63) (Nat.mod (Nat.shiftLeft k 6) 256) % 16 = w % 16 := by decide +kernel
       rw [land_mod256 u5 63 (by decide), key _ (Nat.mod_lt _ (by decide)) k hk,
         Nat.mod_mod_of_dvd u5 (by decide : 16 ∣ 256)]
       exact hs))

/-- the bytes are determined by the codes (given that the unused bits are zero) -/
def recon (rs : List Nat) : O31 :=
  ⟨rs.getD 0 0 * 64 + rs.getD 1 0 * 32 + rs.getD 2 0 * 8 + rs.getD 3 0 * 4 + rs.getD 4 0 * 2 + rs.getD 5 0 / 2,
   rs.getD 5 0 % 2 * 128 + rs.getD 6 0 * 32 + rs.getD 7 0 * 8 + rs.getD 8 0,
   rs.getD 9 0 * 32 + rs.getD 10 0 * 8 + rs.getD 11 0 * 2 + rs.getD 12 0 / 2,
   rs.getD 12 0 % 2 * 128 + rs.getD 13 0 * 32 + rs.getD 14 0 * 4 + rs.getD 15 0,
   rs.getD 16 0 * 64 + rs.getD 17 0 * 16 + rs.getD 18 0 * 4 + rs.getD 19 0,
   rs.getD 20 0 * 64 + rs.getD 21 0 * 16⟩

theorem recon_codes (c : O31) (h : c.IsBytes) (hs : Spare c) : recon (codes c) = c := by
  obtain ⟨u0, u1, u2, u3, u4, u5⟩ := c
  obtain ⟨h0, h1, h2, h3, h4, h5⟩ := h
  have lo : ∀ u, u < 256 → Nat.shiftRight (Nat.land u 128) 7 < 2 := by decide +kernel
  have hi : ∀ u, u < 256 → Nat.mod (Nat.shiftLeft (Nat.land u 1) 1) 256 = 0 ∨
      Nat.mod (Nat.shiftLeft (Nat.land u 1) 1) 256 = 2 := by decide +kernel
  have e0 : ∀ u, u < 256 → ∀ x, x < 2 → Nat.shiftRight (Nat.land u 192) 6 * 64 + Nat.shiftRight (Nat.land u 32) 5 * 32 +
      Nat.shiftRight (Nat.land u 24) 3 * 8 + Nat.shiftRight (Nat.land u 4) 2 * 4 + Nat.shiftRight (Nat.land u 2) 1 * 2 +
      Nat.lor (Nat.mod (Nat.shiftLeft (Nat.land u 1) 1) 256) x / 2 = u := by decide +kernel
  have e1 : ∀ u, u < 256 → ∀ y, y < 3 → (y = 0 ∨ y = 2) →
      Nat.lor y (Nat.shiftRight (Nat.land u 128) 7) % 2 * 128 + Nat.shiftRight (Nat.land u 96) 5 * 32 +
      Nat.shiftRight (Nat.land u 24) 3 * 8 + Nat.land u 7 = u := by decide +kernel
  have e2 : ∀ u, u < 256 → ∀ x, x < 2 → Nat.shiftRight (Nat.land u 224) 5 * 32 + Nat.shiftRight (Nat.land u 24) 3 * 8 +
      Nat.shiftRight (Nat.land u 6) 1 * 2 + Nat.lor (Nat.mod (Nat.shiftLeft (Nat.land u 1) 1) 256) x / 2 = u := by
    decide +kernel
  have e3 : ∀ u, u < 256 → ∀ y, y < 3 → (y = 0 ∨ y = 2) →
      Nat.lor y (Nat.shiftRight (Nat.land u 128) 7) % 2 * 128 + Nat.shiftRight (Nat.land u 96) 5 * 32 +
      Nat.shiftRight (Nat.land u 28) 2 * 4 + Nat.land u 3 = u := by decide +kernel
  have e4 : ∀ u, u < 256 → Nat.shiftRight (Nat.land u 192) 6 * 64 + Nat.shiftRight (Nat.land u 48) 4 * 16 +
      Nat.shiftRight (Nat.land u 12) 2 * 4 + Nat.land u 3 = u := by decide +kernel
  have e5 : ∀ u, u < 256 → u % 16 = 0 →
      Nat.shiftRight (Nat.land u 192) 6 * 64 + Nat.shiftRight (Nat.land u 48) 4 * 16 = u := by decide +kernel
  have lt3 : ∀ {y}, (y = 0 ∨ y = 2) → y < 3 := by rintro y (rfl | rfl) <;> decide
  show O31.mk _ _ _ _ _ _ = _
  congr 1
  · exact e0 u0 h0 _ (lo u1 h1)
  · exact e1 u1 h1 _ (lt3 (hi u0 h0)) (hi u0 h0)
  · exact e2 u2 h2 _ (lo u3 h3)
  · exact e3 u3 h3 _ (lt3 (hi u2 h2)) (hi u2 h2)
  · exact e4 u4 h4
  · exact e5 u5 h5 hs

theorem codes_inj (c c' : O31) (h : c.IsBytes) (h' : c'.IsBytes) (hs : Spare c) (hs' : Spare c')
    (e : codes c = codes c') : c = c' := by
  rw [← recon_codes c h hs, ← recon_codes c' h' hs', e]

theorem wfB_iff (c : O31) : c.wf = true ↔ c.IsBytes ∧ Spare c ∧ legalGets ms c.get = true := by
  obtain ⟨u0, u1, u2, u3, u4, u5⟩ := c
  simp [O31.wf, O31.bytes, O31.IsBytes, Spare, and_assoc]

/-- everything the generic development needs about the generated v3.1 code -/
def layout : Layout O31 ms where
  zero := O31.zero
  get := O31.get
  set := O31.set
  wfB := O31.wf
  IsB := O31.IsBytes
  Spare := Spare
  codes := codes
  upd := upd
  vals := vals
  vals_nodup := vals_nodup
  vals_len := vals_len
  vals_spec := vals_spec
  codes_len := codes_len
  get_known := get_known
  get_default := get_default
  set_known := set_known
  set_default := set_default
  upd_codes := upd_codes
  upd_isB := upd_isB
  upd_spare := upd_spare
  codes_inj := codes_inj
  wfB_iff := wfB_iff
  wf_zero := by decide
  zero_opt := by decide

/-- **the v3.1 Get/Set contract**, with `WF c := c.wf = true` -/
def contract31 : Proofs.Contract O31 Spec.V3.metrics := layout.contract tableOK

/-! ## the named facts (for ALL states, in particular all byte states `c.IsBytes`; no well-formedness needed) -/

/-- a legal `Set` succeeds and `Get` then returns the value that was set -/
theorem set_same (c : O31) (a v : Bytes) (h : legal ms a v = true) :
    (c.set a v).2 = Go.errNil ∧ (c.set a v).1.get a = (v, Go.errNil) :=
  ⟨contract31.set_ok c a v h, contract31.get_set_same c a v h⟩

/-- … and every other metric reads as before -/
theorem set_other (c : O31) (a v a' : Bytes) (h : legal ms a v = true) (hm : isMetric ms a' = true)
    (hne : a' ≠ a) : (c.set a v).1.get a' = c.get a' := contract31.get_set_other c a v a' h hm hne

theorem set_unknown (c : O31) (a v : Bytes) (h : isMetric ms a = false) : c.set a v = (c, eInvalidMetric a) :=
  contract31.set_unknown c a v h

theorem get_unknown (c : O31) (a : Bytes) (h : isMetric ms a = false) : c.get a = ([], eInvalidMetric a) :=
  contract31.get_unknown c a h

theorem set_illegal (c : O31) (a v : Bytes) (hm : isMetric ms a = true) (h : legal ms a v = false) :
    c.set a v = (c, eValue) := contract31.set_illegal c a v hm h

/-- the three outcomes of `Set` -/
theorem set_cases (c : O31) (a v : Bytes) :
    (legal ms a v = true ∧ (c.set a v).2 = Go.errNil) ∨
    (isMetric ms a = false ∧ c.set a v = (c, eInvalidMetric a)) ∨
    (isMetric ms a = true ∧ legal ms a v = false ∧ c.set a v = (c, eValue)) := Bits.set_cases contract31 c a v

/-- `Set` keeps bytes bytes -/
theorem isBytes_set (c : O31) (a v : Bytes) (h : c.IsBytes) : (c.set a v).1.IsBytes :=
  layout.isB_set tableOK c a v h

/-- a `Get` of a Spec metric never fails (on any state); on an out-of-range field code it returns `""` -/
theorem get_known_err (c : O31) (a : Bytes) (h : isMetric ms a = true) : (c.get a).2 = Go.errNil := by
  obtain ⟨j, hj, rfl⟩ := isMetric_at h
  rw [get_known j hj]

/-- `Get` recognises exactly the Spec abbreviations (on any state) -/
theorem get_ok_iff (c : O31) (a : Bytes) : (c.get a).2 = Go.errNil ↔ isMetric ms a = true := by
  constructor
  · intro h
    cases hm : isMetric ms a with
    | true => rfl
    | false => rw [get_unknown c a hm] at h; exact absurd h (eInvalidMetric_ne_nil a)
  · exact get_known_err c a

theorem wf_zero : O31.zero.wf = true := contract31.wf_zero
theorem wf_set (c : O31) (a v : Bytes) (h : c.wf = true) : (c.set a v).1.wf = true := contract31.wf_set c a v h

/-- on a well-formed object every `Get` of a Spec metric returns one of its legal (non-empty) values, nil error -/
theorem wf_get (c : O31) (h : c.wf = true) :
    ∀ m ∈ ms, (c.get m.abv).2 = Go.errNil ∧ (c.get m.abv).1 ∈ m.values ∧ (c.get m.abv).1 ≠ [] := by
  intro m hm
  have := contract31.wf_get c h m hm
  exact ⟨this.1, this.2, fun e => tableOK.vne m hm (e ▸ this.2)⟩

/-- two well-formed objects holding the same metric values are the same object (Go `==` on the struct) -/
theorem ext (c c' : O31) (h : c.wf = true) (h' : c'.wf = true)
    (he : ∀ m ∈ ms, c.get m.abv = c'.get m.abv) : c = c' := contract31.ext c c' h h' he

theorem reachable_iff_reach (c : O31) : O31.Reachable c ↔ Reach contract31 c := by
  constructor
  · intro h
    induction h with
    | zero => exact Reach.zero
    | set c a v _ ih => exact Reach.set c a v ih
  · intro h
    induction h with
    | zero => exact O31.Reachable.zero
    | set c a v _ ih => exact O31.Reachable.set c a v ih

/-- **reachable = well-formed**: `→` by induction over the history of `Set` calls; `←` by `Set`ting every
    metric of the Spec table, in order, on the zero value (`Bits.rebuild`) -/
theorem reachable_iff_wf (c : O31) : O31.Reachable c ↔ c.wf = true :=
  (reachable_iff_reach c).trans (reach_iff_wf contract31 tableOK c)

/-- the explicit `Set` sequence that reaches a well-formed `c` -/
theorem rebuild_eq (c : O31) (h : c.wf = true) : rebuild contract31 c ms O31.zero = c :=
  Bits.rebuild_eq contract31 tableOK c h

end Bits31
