import Cvss.Model.Pool
/-!
# Proofs for C14: the pooled buffer is invisible

1. `split14With_spec`, `parse20With_eq`: whatever 14 strings the buffer holds, `split` leaves
   `splitN 13 s` in slots `0..ei`, `ei ≤ 13`, and the parser reads only those.
2. `Pool.Inv`, `Pool.inv_apply`, `Pool.inv_run`: an invariant of the ownership machine, preserved by
   every legal action, which implies that each finished call returned `Model.parse20` of its input.
-/
namespace Model

/-! ## sequential part -/

theorem splitN_ne_nil : ∀ (n : Nat) (s : Bytes), splitN n s ≠ []
  | 0, s => by simp [splitN]
  | _ + 1, [] => by simp [splitN]
  | n + 1, c :: cs => by
    unfold splitN
    split
    · simp
    · split <;> simp

/-- glue the partial segment in front of the first element -/
def pre (seg : Bytes) : List Bytes → List Bytes
  | [] => [seg]
  | h :: t => (seg ++ h) :: t

theorem pre_nil_of_ne_nil {l : List Bytes} (h : l ≠ []) : pre [] l = l := by
  cases l with
  | nil => exact absurd rfl h
  | cons a t => simp [pre]

theorem take_set_succ {α} (l : List α) (i : Nat) (x : α) (h : i < l.length) :
    (l.set i x).take (i + 1) = l.take i ++ [x] := by
  induction l generalizing i with
  | nil => simp at h
  | cons a t ih =>
    cases i with
    | zero => simp
    | succ j =>
      have hj : j < t.length := by simpa using h
      simp [List.set, ih j hj]

/-- what `split` leaves in the buffer: length unchanged, `ei ≤ 13`, slots `0..ei` are the already written
    prefix followed by the split of the rest of the input at its first `13 - curr` slashes -/
theorem splitGo_spec (rest : Bytes) : ∀ (buf : Buf) (curr n : Nat) (seg : Bytes),
    buf.length = 14 → curr + (n + 1) = 13 →
    (splitGo buf curr seg rest).1.length = 14 ∧ (splitGo buf curr seg rest).2 ≤ 13 ∧
    (splitGo buf curr seg rest).1.take ((splitGo buf curr seg rest).2 + 1)
      = buf.take curr ++ pre seg (splitN (n + 1) rest) := by
  induction rest with
  | nil =>
    intro buf curr n seg hl hc
    have hlt : curr < buf.length := by omega
    refine ⟨by simp [splitGo, hl], by simp [splitGo]; omega, ?_⟩
    simp [splitGo, splitN, pre, take_set_succ _ _ _ hlt]
  | cons c cs ih =>
    intro buf curr n seg hl hc
    have hlt : curr < buf.length := by omega
    unfold splitGo
    by_cases hs : c = SLASH
    · simp only [hs, if_true]
      by_cases h13 : curr + 1 = 13
      · have hn : n = 0 := by omega
        subst hn
        simp only [h13, if_true]
        have hlt' : 13 < (buf.set curr seg).length := by simp [hl]
        have h12 : curr = 12 := by omega
        subst h12
        refine ⟨by simp [hl], Nat.le_refl _, ?_⟩
        rw [take_set_succ _ _ _ hlt', take_set_succ _ _ _ hlt]
        simp [splitN, pre]
      · simp only [h13, if_false]
        obtain ⟨m, rfl⟩ : ∃ m, n = m + 1 := ⟨n - 1, by omega⟩
        have := ih (buf.set curr seg) (curr + 1) m [] (by simp [hl]) (by omega)
        refine ⟨this.1, this.2.1, ?_⟩
        rw [this.2.2, take_set_succ _ _ _ hlt, pre_nil_of_ne_nil (splitN_ne_nil _ _)]
        simp [splitN, pre]
    · simp only [hs, if_false]
      have := ih buf curr n (seg ++ [c]) hl hc
      refine ⟨this.1, this.2.1, ?_⟩
      rw [this.2.2]
      congr 1
      conv => rhs; unfold splitN
      simp only [hs, if_false]
      cases splitN (n + 1) cs <;> simp [pre]

/-- **`split` into a stale buffer**: 14 slots remain, `ei ≤ 13`, and slots `0..ei` are exactly the pool-free
    `splitN 13 s`, whatever the buffer held before. -/
theorem split14With_spec (buf : Buf) (s : Bytes) (hl : buf.length = 14) :
    (split14With buf s).1.length = 14 ∧ (split14With buf s).2 ≤ 13 ∧
    (split14With buf s).1.take ((split14With buf s).2 + 1) = splitN 13 s := by
  have := splitGo_spec s buf 0 12 [] hl rfl
  refine ⟨this.1, this.2.1, ?_⟩
  unfold split14With
  rw [this.2.2, pre_nil_of_ne_nil (splitN_ne_nil _ _)]
  simp

/-- slots beyond `ei` are not written: they keep their stale content -/
theorem splitGo_untouched (rest : Bytes) : ∀ (buf : Buf) (curr : Nat) (seg : Bytes) (j : Nat),
    (splitGo buf curr seg rest).2 < j → (splitGo buf curr seg rest).1[j]? = buf[j]? := by
  induction rest with
  | nil =>
    intro buf curr seg j h
    simp only [splitGo] at h ⊢
    rw [List.getElem?_set_ne (by omega)]
  | cons c cs ih =>
    intro buf curr seg j
    unfold splitGo
    by_cases hs : c = SLASH
    · simp only [hs, if_true]
      by_cases h13 : curr + 1 = 13
      · simp only [h13, if_true]
        intro h
        rw [List.getElem?_set_ne (by omega), List.getElem?_set_ne (by omega)]
      · simp only [h13, if_false]
        intro h
        have hm := splitGo_curr_le cs (buf.set curr seg) (curr + 1) []
        rw [ih _ _ _ _ h, List.getElem?_set_ne (by omega)]
    · simp only [hs, if_false]
      exact ih _ _ _ _
where
  splitGo_curr_le (rest : Bytes) : ∀ (buf : Buf) (curr : Nat) (seg : Bytes),
      curr ≤ (splitGo buf curr seg rest).2 := by
    induction rest with
    | nil => intro buf curr seg; simp [splitGo]
    | cons c cs ih =>
      intro buf curr seg
      unfold splitGo
      by_cases hs : c = SLASH
      · simp only [hs, if_true]
        by_cases h13 : curr + 1 = 13
        · simp only [h13, if_true]; omega
        · simp only [h13, if_false]
          exact Nat.le_trans (Nat.le_succ _) (ih _ _ _)
      · simp only [hs, if_false]; exact ih _ _ _

/-- **the pool is invisible to a single call**: with any 14 stale strings in the buffer the result is that
    of the pool-free model -/
theorem parse20With_eq (buf : Buf) (s : Bytes) (hl : buf.length = 14) :
    (parse20With buf s).1 = parse20 s := by
  unfold parse20With parse20
  simp only [(split14With_spec buf s hl).2.2]

/-- the buffer that goes back into the pool again has 14 slots -/
theorem parse20With_buf_len (buf : Buf) (s : Bytes) (hl : buf.length = 14) :
    (parse20With buf s).2.length = 14 := (split14With_spec buf s hl).1


/-! ## the ownership machine -/
namespace Pool

theorem upd_same (h : Addr → Buf) (a : Addr) (b : Buf) : upd h a b a = b := by simp [upd]
theorem upd_other (h : Addr → Buf) {a x : Addr} (b : Buf) (hx : x ≠ a) : upd h a b x = h x := by
  simp [upd, hx]

/-- inside `split`: the buffer has 14 slots, the write index is in range, and *finishing* the split from here
    leaves `splitN 13 inp` in slots `0..ei` -/
def SplitInv (buf : Buf) (curr : Nat) (seg rest inp : Bytes) : Prop :=
  buf.length = 14 ∧ curr ≤ 13 ∧ (curr = 13 → rest = []) ∧
  (splitGo buf curr seg rest).1.take ((splitGo buf curr seg rest).2 + 1) = splitN 13 inp

/-- inside the `range` loop: continuing the sequential loop from here on the slots not yet visited gives the
    sequential result -/
def LoopInv (buf : Buf) (ei k slci i : Nat) (c : O20) (inp : Bytes) : Prop :=
  buf.length = 14 ∧ ei ≤ 13 ∧ k ≤ ei + 1 ∧
  loop2 GenV20.tbl_order ((buf.take (ei + 1)).drop k) slci i c = parse20 inp

/-- what a thread's phase promises about its own buffer -/
def PhaseOK (h : Addr → Buf) : Phase → Prop
  | .idle => True
  | .split a inp curr seg rest => SplitInv (h a) curr seg rest inp
  | .loop a inp ei k slci i c => LoopInv (h a) ei k slci i c inp
  | .ret a inp r => (h a).length = 14 ∧ r = parse20 inp
  | .crashed => False

/-- `PhaseOK` looks at the heap only at the buffer the thread owns -/
theorem PhaseOK_congr {h h' : Addr → Buf} {ph : Phase}
    (hh : ∀ a, ph.owner = some a → h' a = h a) (hok : PhaseOK h ph) : PhaseOK h' ph := by
  cases ph <;> simp only [PhaseOK, Phase.owner, Option.some.injEq, forall_eq'] at * <;>
    first | trivial | (rw [hh]; exact hok)

/-- the start of a call on any 14-slot buffer satisfies the split invariant -/
theorem splitInv_start (buf : Buf) (inp : Bytes) (hl : buf.length = 14) : SplitInv buf 0 [] inp inp :=
  ⟨hl, by omega, by omega, (split14With_spec buf inp hl).2.2⟩

/-- **one local step keeps the promise** (and never crashes, and keeps the buffer) -/
theorem tick_ok {h : Addr → Buf} {ph : Phase} {a : Addr} (hok : PhaseOK h ph) (ho : ph.owner = some a) :
    PhaseOK (upd h a (tick ph (h a)).2) (tick ph (h a)).1 ∧ (tick ph (h a)).1.owner = some a := by
  cases ph with
  | idle => simp [Phase.owner] at ho
  | crashed => simp [Phase.owner] at ho
  | ret a' inp r =>
    simp only [Phase.owner, Option.some.injEq] at ho; subst ho
    simp only [tick, PhaseOK, upd_same, Phase.owner] at *
    exact ⟨hok, trivial⟩
  | split a' inp curr seg rest =>
    simp only [Phase.owner, Option.some.injEq] at ho; subst ho
    obtain ⟨hl, hc, h13, hsp⟩ := hok
    have hlt : curr < (h a').length := by omega
    cases rest with
    | nil =>
      simp only [tick, hlt, if_true, PhaseOK, upd_same, Phase.owner, and_true]
      refine ⟨by simp [hl], hc, Nat.zero_le _, ?_⟩
      simp only [splitGo] at hsp
      rw [List.drop_zero, hsp]; rfl
    | cons c cs =>
      have hc' : curr < 13 := by
        rcases Nat.lt_or_ge curr 13 with h | h
        · exact h
        · exact absurd (h13 (by omega)) (by simp)
      by_cases hs : c = SLASH
      · by_cases h13' : curr + 1 = 13
        · simp only [tick, hs, hlt, h13', if_true, PhaseOK, upd_same, Phase.owner, and_true]
          refine ⟨by simp [hl], by omega, fun _ => rfl, ?_⟩
          simpa [splitGo, hs, h13'] using hsp
        · simp only [tick, hs, hlt, h13', if_true, if_false, PhaseOK, upd_same, Phase.owner, and_true]
          refine ⟨by simp [hl], by omega, fun h => absurd h h13', ?_⟩
          simpa [splitGo, hs, h13'] using hsp
      · simp only [tick, hs, if_false, PhaseOK, upd_same, Phase.owner, and_true]
        refine ⟨hl, hc, fun h => absurd h (by omega), ?_⟩
        simpa [splitGo, hs] using hsp
  | loop a' inp ei k slci i c =>
    simp only [Phase.owner, Option.some.injEq] at ho; subst ho
    obtain ⟨hl, he, hk, hlp⟩ := hok
    by_cases hlt : k < ei + 1
    · have hkl : k < (h a').length := by omega
      have hkt : k < ((h a').take (ei + 1)).length := by simp [List.length_take]; omega
      rw [List.drop_eq_getElem_cons hkt, List.getElem_take] at hlp
      simp only [tick, hlt, if_true, List.getElem?_eq_getElem hkl]
      simp only [loop2] at hlp
      cases hst : step2 GenV20.tbl_order slci i c (h a')[k] with
      | ok v =>
        obtain ⟨s', i', c'⟩ := v
        rw [hst] at hlp
        simp only [PhaseOK, upd_same, Phase.owner, and_true]
        exact ⟨hl, he, by omega, hlp⟩
      | err e =>
        rw [hst] at hlp
        simp only [PhaseOK, upd_same, Phase.owner, and_true]
        exact ⟨hl, hlp⟩
      | panic =>
        rw [hst] at hlp
        simp only [PhaseOK, upd_same, Phase.owner, and_true]
        exact ⟨hl, hlp⟩
    · have hk' : k = ei + 1 := by omega
      subst hk'
      rw [List.drop_take_self] at hlp
      simp only [tick, hlt, if_false, PhaseOK, upd_same, Phase.owner, and_true]
      exact ⟨hl, by simpa [loop2] using hlp⟩

/-- The invariant of the machine.
    `heldNotFree`/`heldDistinct` are the ownership discipline: a held buffer is not free and is held by exactly
    one thread; `phaseOK` is what each thread's own buffer must satisfy; `logOK` is the claim. -/
structure Inv (σ : St) : Prop where
  poolLen : ∀ a ∈ σ.pool, (σ.heap a).length = 14
  poolNodup : σ.pool.Nodup
  heldNotFree : ∀ (t : Nat) (ph : Phase) (a : Addr), σ.thr[t]? = some ph → ph.owner = some a → a ∉ σ.pool
  heldDistinct : ∀ (t t' : Nat) (ph ph' : Phase) (a : Addr), σ.thr[t]? = some ph → σ.thr[t']? = some ph' →
    ph.owner = some a → ph'.owner = some a → t = t'
  phaseOK : ∀ (t : Nat) (ph : Phase), σ.thr[t]? = some ph → PhaseOK σ.heap ph
  logOK : ∀ e ∈ σ.log, e.2.2 = parse20 e.2.1

theorem getElem?_set_some {α} {l : List α} {t t' : Nat} {x ph : α} (h : (l.set t x)[t']? = some ph) :
    (t' = t ∧ ph = x) ∨ (t' ≠ t ∧ l[t']? = some ph) := by
  rw [List.getElem?_set] at h
  by_cases e : t = t'
  · subst e
    simp only [if_true] at h
    split at h
    · exact .inl ⟨rfl, (Option.some.inj h).symm⟩
    · cases h
  · simp only [e, if_false] at h
    exact .inr ⟨fun h' => e h'.symm, h⟩

theorem init_inv {σ : St} (hi : Init σ) : Inv σ where
  poolLen := hi.len
  poolNodup := hi.nodup
  heldNotFree t ph a ht ho := by
    rw [hi.idle ph (List.mem_of_getElem? ht)] at ho; simp [Phase.owner] at ho
  heldDistinct t t' ph ph' a ht _ ho _ := by
    rw [hi.idle ph (List.mem_of_getElem? ht)] at ho; simp [Phase.owner] at ho
  phaseOK t ph ht := by rw [hi.idle ph (List.mem_of_getElem? ht)]; trivial
  logOK e he := by rw [hi.log] at he; cases he

/-- Thread `t` moves to a phase owning `a`, where `a` is exclusively `t`'s (not in the new pool, owned by no
    other thread), the heap changes at most at `a`, and the pool can only shrink: the invariant is kept
    **because no other thread's buffer is touched**. -/
theorem inv_thread_step {σ : St} (hI : Inv σ) {t : Nat} {ph1 : Phase} {h' : Addr → Buf}
    {p' : List Addr} {a : Addr}
    (hown1 : ph1.owner = some a) (hnp : a ∉ p')
    (hothers : ∀ t' ph', t' ≠ t → σ.thr[t']? = some ph' → ph'.owner ≠ some a)
    (hheap : ∀ x, x ≠ a → h' x = σ.heap x)
    (hpool : ∀ x, x ∈ p' → x ∈ σ.pool) (hnd : p'.Nodup)
    (hok : PhaseOK h' ph1) :
    Inv { heap := h', pool := p', thr := σ.thr.set t ph1, log := σ.log } where
  poolLen x hx := by
    have : x ≠ a := fun e => hnp (e ▸ hx)
    simp only [hheap x this]; exact hI.poolLen x (hpool x hx)
  poolNodup := hnd
  heldNotFree t' ph' a' ht' ho' := by
    rcases getElem?_set_some ht' with ⟨_, rfl⟩ | ⟨_, hold⟩
    · rw [hown1] at ho'; cases ho'; exact hnp
    · exact fun hm => hI.heldNotFree t' ph' a' hold ho' (hpool _ hm)
  heldDistinct t1 t2 ph ph' a' h1 h2 ho1 ho2 := by
    rcases getElem?_set_some h1 with ⟨e1, rfl⟩ | ⟨n1, hold1⟩ <;>
      rcases getElem?_set_some h2 with ⟨e2, rfl⟩ | ⟨n2, hold2⟩
    · rw [e1, e2]
    · rw [hown1] at ho1; cases ho1; exact absurd ho2 (hothers t2 ph' n2 hold2)
    · rw [hown1] at ho2; cases ho2; exact absurd ho1 (hothers t1 ph n1 hold1)
    · exact hI.heldDistinct t1 t2 ph ph' a' hold1 hold2 ho1 ho2
  phaseOK t' ph' ht' := by
    rcases getElem?_set_some ht' with ⟨_, rfl⟩ | ⟨n, hold⟩
    · exact hok
    · refine PhaseOK_congr (fun x hx => hheap x ?_) (hI.phaseOK t' ph' hold)
      intro e; subst e; exact hothers t' ph' n hold hx
  logOK := hI.logOK

/-- **every legal action preserves the invariant** -/
theorem inv_apply {σ σ' : St} {act : Act} (hI : Inv σ) (hl : act.legal = true)
    (hs : apply σ act = some σ') : Inv σ' := by
  cases act with
  | getAliased t inp a => simp [Act.legal] at hl
  | getPool t inp a =>
    simp only [apply] at hs
    split at hs
    next ht =>
      split at hs
      next hm =>
        cases hs
        refine inv_thread_step hI (a := a) rfl ?_ ?_ (fun _ _ => rfl)
          (fun x hx => List.mem_of_mem_erase hx) (hI.poolNodup.erase a) ?_
        · exact fun hm' => ((hI.poolNodup.mem_erase_iff).1 hm').1 rfl
        · exact fun t' ph' _ ht' ho => hI.heldNotFree t' ph' a ht' ho hm
        · exact splitInv_start _ _ (hI.poolLen a hm)
      next => cases hs
    next => cases hs
  | getNew t inp a content =>
    simp only [apply] at hs
    split at hs
    next ht =>
      split at hs
      next hf =>
        cases hs
        obtain ⟨hf, hlen⟩ := hf
        simp only [St.fresh, Bool.and_eq_true, Bool.not_eq_true', List.all_eq_true] at hf
        have hnp : a ∉ σ.pool := by
          intro hm; have := List.contains_iff_mem.2 hm; rw [hf.1] at this; cases this
        refine inv_thread_step hI (a := a) rfl hnp ?_ (fun x hx => upd_other _ _ hx)
          (fun _ hx => hx) hI.poolNodup ?_
        · intro t' ph' _ ht' ho
          have := hf.2 ph' (List.mem_of_getElem? ht')
          simp [ho] at this
        · simp only [PhaseOK, upd_same]; exact splitInv_start _ _ hlen
      next => cases hs
    next => cases hs
  | tick t =>
    simp only [apply] at hs
    split at hs
    next ph ht =>
      split at hs
      next a ho =>
        cases hs
        have hk := tick_ok (hI.phaseOK t ph ht) ho
        refine inv_thread_step hI (a := a) hk.2 (hI.heldNotFree t ph a ht ho) ?_
          (fun x hx => upd_other _ _ hx) (fun _ hx => hx) hI.poolNodup hk.1
        intro t' ph' hn ht' ho'
        exact hn (hI.heldDistinct t' t ph' ph a ht' ht ho' ho)
      next => cases hs
    next => cases hs
  | put t =>
    simp only [apply] at hs
    split at hs
    next a inp r ht =>
      cases hs
      have hok := hI.phaseOK t _ ht
      have hnf : a ∉ σ.pool := hI.heldNotFree t _ a ht rfl
      refine ⟨?_, ?_, ?_, ?_, ?_, ?_⟩
      · intro x hx
        rcases List.mem_cons.1 hx with rfl | hx
        · exact hok.1
        · exact hI.poolLen x hx
      · exact List.nodup_cons.2 ⟨hnf, hI.poolNodup⟩
      · intro t' ph' a' ht' ho'
        rcases getElem?_set_some ht' with ⟨_, rfl⟩ | ⟨n, hold⟩
        · simp [Phase.owner] at ho'
        · intro hm
          rcases List.mem_cons.1 hm with rfl | hm
          · exact n (hI.heldDistinct t' t ph' _ a' hold ht ho' rfl)
          · exact hI.heldNotFree t' ph' a' hold ho' hm
      · intro t1 t2 ph ph' a' h1 h2 ho1 ho2
        rcases getElem?_set_some h1 with ⟨_, rfl⟩ | ⟨_, hold1⟩
        · simp [Phase.owner] at ho1
        · rcases getElem?_set_some h2 with ⟨_, rfl⟩ | ⟨_, hold2⟩
          · simp [Phase.owner] at ho2
          · exact hI.heldDistinct t1 t2 ph ph' a' hold1 hold2 ho1 ho2
      · intro t' ph' ht'
        rcases getElem?_set_some ht' with ⟨_, rfl⟩ | ⟨_, hold⟩
        · trivial
        · exact hI.phaseOK t' ph' hold
      · intro e he
        rcases List.mem_cons.1 he with rfl | he
        · exact hok.2
        · exact hI.logOK e he
    next => cases hs
  | gc a =>
    simp only [apply] at hs
    split at hs
    next hm =>
      cases hs
      exact ⟨fun x hx => hI.poolLen x (List.mem_of_mem_erase hx), hI.poolNodup.erase a,
        fun t ph a' ht ho hm' => hI.heldNotFree t ph a' ht ho (List.mem_of_mem_erase hm'),
        hI.heldDistinct, hI.phaseOK, hI.logOK⟩
    next => cases hs

/-- the invariant holds after every schedule of legal actions -/
theorem inv_run : ∀ (acts : List Act) {σ σ' : St}, Inv σ → (∀ x ∈ acts, x.legal = true) →
    run σ acts = some σ' → Inv σ'
  | [], σ, σ', hI, _, hr => by simp only [run, Option.some.injEq] at hr; exact hr ▸ hI
  | x :: xs, σ, σ', hI, hl, hr => by
    simp only [run] at hr
    split at hr
    next σ1 h1 =>
      exact inv_run xs (inv_apply hI (hl x (List.mem_cons_self ..)) h1)
        (fun y hy => hl y (List.mem_cons_of_mem _ hy)) hr
    next => cases hr

end Pool
end Model
