import Cvss.Proofs.Score3Util
/-!
# C03, v3.1: shape of the generated score functions and the enumeration predicates

`T` is the common last step of `TemporalScore` and `EnvironmentalScore` (`roundup (b·e·rl·rc)`), `Inner` the
"modified base score" inside `EnvironmentalScore` (0 when ModifiedImpact ≤ 0). Both only *call* generated
functions; the shape lemmas tie them to the generated bodies by unfolding, so a change of a constant or operator
in those Go bodies (after regeneration) breaks a shape lemma, and a change in a called function (`roundup`,
`pow13`, the weight tables, `cia`, `ciar`, `mod`) or in `BaseScore`/`Impact`/`Exploitability` breaks an enumeration.
(File generated from the v3.1 text for v3.0 by `scripts/score3_mk30.sh`.)
-/
namespace Proofs.Score3.V31
open Spec Spec.V3 GenV31

/-- `true` for v3.1 -/
abbrev ver : Bool := true

/-- last step of Temporal and Environmental: `roundup (((b·e)·rl)·rc)` -/
def T (b e rl rc : Nat) : Nat := roundup (F64.mul (F64.mul (F64.mul b e) rl) rc)

/-- the modified base score computed inside `EnvironmentalScore`, from the *effective* codes -/
def Inner (mav mac mpr mui ms mc mi ma cr ir ar : Nat) : Nat :=
  F64.flet (F64.min (F64.sub (0x3ff0000000000000 : Nat) (F64.mul (F64.mul (F64.sub (0x3ff0000000000000 : Nat) (F64.mul (ciar cr) (cia mc))) (F64.sub (0x3ff0000000000000 : Nat) (F64.mul (ciar ir) (cia mi)))) (F64.sub (0x3ff0000000000000 : Nat) (F64.mul (ciar ar) (cia ma))))) (0x3fed47ae147ae148 : Nat)) fun miss =>
  F64.flet (cond (Nat.beq ms (0 : Nat))
      (F64.mul (0x4019ae147ae147ae : Nat) miss)
      (F64.sub (F64.mul (0x401e147ae147ae14 : Nat) (F64.sub miss (0x3f9db22d0e560419 : Nat))) (F64.mul (0x400a000000000000 : Nat) (pow13 (F64.sub (F64.mul miss (0x3fef23a29c779a6b : Nat)) (0x3f947ae147ae147b : Nat)))))) fun modifiedImpact =>
  F64.flet (F64.mul (F64.mul (F64.mul (F64.mul (0x402070a3d70a3d71 : Nat) (attackVector mav)) (attackComplexity mac)) (privilegesRequired mpr ms)) (userInteraction mui)) fun modifiedExploitability =>
  cond (F64.le modifiedImpact (0x0000000000000000 : Nat))
    (0x0000000000000000 : Nat)
    (cond (Nat.beq ms (0 : Nat))
      (roundup (F64.min (F64.add modifiedImpact modifiedExploitability) (0x4024000000000000 : Nat)))
      (roundup (F64.min (F64.mul (0x3ff147ae147ae148 : Nat) (F64.add modifiedImpact modifiedExploitability)) (0x4024000000000000 : Nat))))

theorem T_zero : ∀ e, e < 5 → ∀ rl, rl < 5 → ∀ rc, rc < 4 →
    T 0 (exploitCodeMaturity e) (remediationLevel rl) (reportConfidence rc) = 0 := by decide +kernel

theorem env_shape (r0 r1 r2 r3 r4 r5 r6 r7 r8 r9 r10 r11 r12 r13 r14 r15 r16 r17 r18 r19 r20 r21 : Nat)
    (h19 : r19 < 5) (h20 : r20 < 5) (h21 : r21 < 4) :
    EnvironmentalScore_core r0 r1 r2 r3 r4 r5 r6 r7 r8 r9 r10 r11 r12 r13 r14 r15 r16 r17 r18 r19 r20 r21 =
    T (Inner (mod_ r0 r1) (mod_ r2 r3) (mod_ r4 r5) (mod_ r6 r7) (mod_ r8 r9) (mod_ r10 r11) (mod_ r12 r13) (mod_ r14 r15) r16 r17 r18)
      (exploitCodeMaturity r19) (remediationLevel r20) (reportConfidence r21) := by
  simp only [EnvironmentalScore_core, flet_eq, Inner]
  cases h1 : F64.le _ (0x0000000000000000 : Nat) with
  | true =>
    simp only [cond_true]
    exact (T_zero r19 h19 r20 h20 r21 h21).symm
  | false =>
    simp only [cond_false]
    cases h2 : Nat.beq (mod_ r8 r9) 0 <;> simp only [cond_true, cond_false, T]

theorem temporal_shape (r0 r1 r2 r3 r4 r5 r6 r7 r8 r9 r10 r11 : Nat) :
    TemporalScore_core r0 r1 r2 r3 r4 r5 r6 r7 r8 r9 r10 r11 =
    T (BaseScore_core r3 r4 r5 r6 r7 r8 r9 r10 r11) (exploitCodeMaturity r0) (remediationLevel r1) (reportConfidence r2) := by
  simp only [TemporalScore_core, flet_eq, T]

/-- `ciar X = ciar M` -/
theorem ciar_nR : ∀ r, r < 4 → ciar r = ciar (nR r) := by decide
theorem Inner_nR (mav mac mpr mui ms mc mi ma cr ir ar : Nat) (hcr : cr < 4) (hir : ir < 4) (har : ar < 4) :
    Inner mav mac mpr mui ms mc mi ma cr ir ar = Inner mav mac mpr mui ms mc mi ma (nR cr) (nR ir) (nR ar) := by
  simp only [Inner, ← ciar_nR cr hcr, ← ciar_nR ir hir, ← ciar_nR ar har]

/-- the scope code in `BaseScore_core`/`Impact_core` is only tested for zero -/
theorem base_scope (c i a su av ac pr s ui : Nat) (h : Nat.beq su 0 = Nat.beq s 0) :
    BaseScore_core c i a su av ac pr s ui = BaseScore_core c i a s av ac pr s ui := by
  simp only [BaseScore_core, Impact_core, h]
theorem impact_scope (c i a su s : Nat) (h : Nat.beq su 0 = Nat.beq s 0) :
    Impact_core c i a su = Impact_core c i a s := by
  simp only [Impact_core, h]

/-! ## Enumeration predicates -/

/-- (a) Base: model = tenth (Spec), and both readings of `Roundup` agree -/
def okBase (av ac pr ui s c i a : Nat) : Bool :=
  isTenth (BaseScore_core c i a s av ac pr s ui) (specBase av ac pr ui s c i a) &&
  (decide (specImpact s c i a ≤ 0) || agreeA (baseArg (Nat.beq s 1) (specImpact s c i a) (specExpl av ac pr ui s)))
def allBase : Bool :=
  (List.range 2).all fun s => (List.range 3).all fun c => (List.range 3).all fun i => (List.range 3).all fun a =>
  (List.range 4).all fun av => (List.range 2).all fun ac => (List.range 3).all fun pr => (List.range 2).all fun ui =>
    okBase av ac pr ui s c i a

/-- (b) the Temporal step on a tenth `k/10` -/
def okT (k e rl rc : Nat) : Bool :=
  isTenth (T (F64.tenth k) (exploitCodeMaturity e) (remediationLevel rl) (reportConfidence rc)) (specT (Int.ofNat k) e rl rc) &&
  agreeA (tenths (Int.ofNat k) * cE e * cRL rl * cRC rc)
def chunkT (rc : Nat) : Bool :=
  (List.range 101).all fun k => (List.range 5).all fun e => (List.range 5).all fun rl => okT k e rl rc

/-- (c) the modified base score inside Environmental -/
def okInner (mav mac mpr mui ms mc mi ma cr ir ar : Nat) : Bool :=
  isTenth (Inner mav mac mpr mui ms mc mi ma cr ir ar) (specInner ver mav mac mpr mui ms mc mi ma cr ir ar) &&
  (decide (specMImpact ver ms mc mi ma cr ir ar ≤ 0) ||
    agreeA (baseArg (Nat.beq ms 1) (specMImpact ver ms mc mi ma cr ir ar) (specExpl mav mac mpr mui ms)))
/-- one chunk: Modified scope, attack vector and complexity fixed; 729 impact/requirement classes (requirement
    codes 1..3, `X` is covered by `Inner_nR`) × 6 (privileges, user interaction) = 4,374 tuples -/
def chunkEnv (ms mav mac : Nat) : Bool :=
  (List.range 3).all fun mc => (List.range 3).all fun mi => (List.range 3).all fun ma =>
  (List.range 3).all fun cr => (List.range 3).all fun ir => (List.range 3).all fun ar =>
  (List.range 3).all fun mpr => (List.range 2).all fun mui =>
    okInner mav mac mpr mui ms mc mi ma (Nat.succ cr) (Nat.succ ir) (Nat.succ ar)

theorem chunkEnv_elim {ms mav mac : Nat} (h : chunkEnv ms mav mac = true)
    {mpr mui mc mi ma cr ir ar : Nat} (hmpr : mpr < 3) (hmui : mui < 2) (hmc : mc < 3) (hmi : mi < 3) (hma : ma < 3)
    (hcr : 1 ≤ cr ∧ cr ≤ 3) (hir : 1 ≤ ir ∧ ir ≤ 3) (har : 1 ≤ ar ∧ ar ≤ 3) :
    okInner mav mac mpr mui ms mc mi ma cr ir ar = true := by
  have := all_range (all_range (all_range (all_range (all_range (all_range (all_range (all_range h
    mc hmc) mi hmi) ma hma) (cr - 1) (by omega)) (ir - 1) (by omega)) (ar - 1) (by omega)) mpr hmpr) mui hmui
  have e1 : Nat.succ (cr - 1) = cr := by omega
  have e2 : Nat.succ (ir - 1) = ir := by omega
  have e3 : Nat.succ (ar - 1) = ar := by omega
  rwa [e1, e2, e3] at this

end Proofs.Score3.V31
