import Cvss.Proofs.Parse3Basic
import Cvss.Proofs.Parse4Run
/-!
# ErrInvalidCVSSHeader is returned for a wrong header only (converse of the header clause of C18)

Once the header test has passed (v4.0: the prefix `CVSS:4.0` *and* the separator test behind it), no later step of the
v3 / v4.0 parser models returns code 1: the element
loops return ErrInvalidMetricOrder / ErrTooShortVector / `*ErrDefinedN` / `*ErrMissing` / `*ErrInvalidMetric`
themselves, and whatever `Set` returns — for any `Set` satisfying the contract that is `nil`,
ErrInvalidMetricValue or `*ErrInvalidMetric`.
-/
namespace Proofs.HeaderErr
open Model (Bytes Res)
open Spec (Pair legal isMetric)

theorem set_code_ne_one {O : Type} {ms : List Spec.Metric} (K : Contract O ms) (c : O) (a v : Bytes) :
    (K.set c a v).2.code ≠ 1 := by
  cases hm : isMetric ms a with
  | false => rw [K.set_unknown c a v hm]; simp [Model.eInvalidMetric]
  | true =>
    cases hl : legal ms a v with
    | false => rw [K.set_illegal c a v hm hl]; simp [Model.eValue]
    | true => rw [K.set_ok c a v hl]; simp [Go.errNil]

/-! ## v3 -/

theorem loop3_code_ne_one {O : Type} (K : Contract O Spec.V3.metrics) :
    ∀ (els : List Bytes) (c : O) (seen : List Bytes) (e : Go.Err),
      Model.loop3 K.set els c seen = .err e → e.code ≠ 1
  | [], c, seen, e, h => by
    simp only [Model.loop3] at h
    split at h
    · cases h; simp [Model.eMissing]
    · cases h
  | el :: rest, c, seen, e, h => by
    simp only [Model.loop3] at h
    split at h
    · rename_i e' hk
      cases h
      unfold Model.kvmSet at hk
      split at hk
      · cases hk; simp [Model.eInvalidMetric]
      · split at hk
        · cases hk; simp [Model.eDefinedN]
        · cases hk
    · rename_i seen' _
      have hne := set_code_ne_one K c (Model.cutColon el).1 (Model.cutColon el).2
      split at h
      · exact loop3_code_ne_one K rest _ seen' e h
      · cases h; exact hne

/-- v3: ErrInvalidCVSSHeader ⇔ the string does not begin with the prefix literal (`CVSS:3.x/`) -/
theorem parse3_header_iff {O : Type} (K : Contract O Spec.V3.metrics) (header s : Bytes) :
    Model.parse3 header K.zero K.set s = .err Model.eHeader ↔ ¬ header <+: s := by
  unfold Model.parse3
  by_cases hp : Model.hasPrefix s header = true
  · rw [if_pos hp]
    constructor
    · intro h
      exact absurd rfl (loop3_code_ne_one K _ _ _ _ h)
    · intro h
      exact absurd ((Parse3.hasPrefix_iff s header).mp hp) h
  · rw [if_neg hp]
    constructor
    · intro _ h
      exact hp ((Parse3.hasPrefix_iff s header).mpr h)
    · intro _; rfl

/-! ## v4.0 -/

theorem runP_code_ne_one (K : Contract Model.O40 Spec.V4.metrics) :
    ∀ (w : List Pair) (c : Model.O40) (ord : P4.Ord) (e : Go.Err), P4.runP K.set w c ord = .error e → e.code ≠ 1
  | [], c, ord, e, h => by simp [P4.runP] at h
  | p :: w, c, ord, e, h => by
    rw [P4.runP_cons] at h
    split at h
    · cases h; simp [Model.eOrder]
    · split at h
      · exact runP_code_ne_one K w _ _ e h
      · cases h; exact set_code_ne_one K c p.1 p.2

theorem finish_code_ne_one (K : Contract Model.O40 Spec.V4.metrics) (w : List Pair) (e : Go.Err)
    (h : P4.finish (P4.runP K.set w K.zero P4.ord0) = .err e) : e.code ≠ 1 := by
  unfold P4.finish at h
  split at h
  · rename_i e' he
    cases h
    exact runP_code_ne_one K w _ _ _ he
  · split at h
    · cases h; simp [Model.eTooShort]
    · cases h

/-- v4.0: ErrInvalidCVSSHeader ⇔ the string is neither the bare `CVSS:4.0` nor begins with `CVSS:4.0/` -/
theorem parseK_header_iff (K : Contract Model.O40 Spec.V4.metrics) (s : Bytes) :
    P4.parseK K s = .err Model.eHeader ↔ ¬ (s = Spec.V4.header ∨ (Spec.V4.header ++ [47]) <+: s) := by
  rcases P4.parseK_cases K s with ⟨hn, e⟩ | ⟨hs, e⟩ | ⟨c, r, hs, hc, e⟩ | ⟨r, hs, e⟩
  · refine ⟨fun _ h => hn ?_, fun _ => e⟩
    rcases h with rfl | h
    · exact List.prefix_refl _
    · exact (List.prefix_append _ _).trans h
  · rw [e]
    exact ⟨fun h => absurd h (by decide), fun h => absurd (Or.inl hs) h⟩
  · refine ⟨fun _ h => ?_, fun _ => e⟩
    subst hs
    rcases h with h | h
    · have := congrArg List.length h
      simp at this
    · rw [List.prefix_append_right_inj] at h
      obtain ⟨t, ht⟩ := h
      simp only [List.singleton_append, List.cons.injEq] at ht
      exact hc ht.1.symm
  · rw [e]
    constructor
    · intro h
      exact absurd rfl (finish_code_ne_one K _ _ h)
    · intro h
      exact absurd (Or.inr ⟨r, by simp [hs, Spec.SLASH]⟩) h

end Proofs.HeaderErr
