import Cvss.Proofs.Mono4Cover
/-! GENERATED: coverage of the EQ3+EQ6 transition list, vectors with VC:L -/
namespace Proofs.Mono4
set_option maxHeartbeats 4000000 in
theorem cov36_L : cov36At (Spec.b "L") = true := by decide +kernel
end Proofs.Mono4
