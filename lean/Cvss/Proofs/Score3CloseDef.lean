import Cvss.Proofs.Score3Util
/-!
# C03: closeness of an unrounded double to an exact decimal
-/
namespace Proofs.Score3
open Spec Spec.V3

/-- `bits` is a finite double whose exact value `v = ±m·2^(e−1075)` satisfies `|v − n/10^k| ≤ 10^-d`, decided in exact
    integer arithmetic after clearing denominators: with `v = s·M/2^b` (`M = m·2^(e−1075)`, `b = 0` when `e ≥ 1075`,
    else `M = m`, `b = 1075−e`):  `|s·M·10^k − n·2^b| · 10^d ≤ 2^b · 10^k`. -/
def withinPow10 (d : Nat) (bits : Nat) (x : Int × Nat) : Bool :=
  let eb := F64.ebits bits
  let e := F64.exf eb
  let M : Nat := F64.mant bits eb * 2 ^ (e - 1075)
  let b : Nat := 1075 - e
  let v : Int := if F64.P63 ≤ bits then -(M : Int) else (M : Int)
  F64.isFin bits && decide ((v * ((10 ^ x.2 : Nat) : Int) - x.1 * ((2 ^ b : Nat) : Int)).natAbs * 10 ^ d ≤ 2 ^ b * 10 ^ x.2)

/-- `|value(bits) − n/10^k| ≤ 10^-12` -/
abbrev within12 := withinPow10 12

example : within12 0x3ff8000000000000 (15, 1) = true := by decide   -- 1.5
example : within12 0x3fb999999999999a (1, 1) = true := by decide    -- 0.1 (nearest double)
example : within12 0xbfb999999999999a (-1, 1) = true := by decide   -- -0.1
example : within12 0x3fb999999999999a (-1, 1) = false := by decide
example : within12 0x3fb999999999999a (100001, 6) = false := by decide  -- 0.100001 is 10^-6 away
example : within12 0x7FF8DEAD00000000 (0, 0) = false := by decide   -- poison is not finite

end Proofs.Score3
