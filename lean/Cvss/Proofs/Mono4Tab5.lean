import Cvss.Proofs.Mono4Lists
/-! GENERATED: kernel evaluation of the monotonicity check for EQ5 (all transitions × all contexts) -/
namespace Proofs.Mono4
set_option maxHeartbeats 4000000 in
theorem mono5_all : (S1.all fun s1 => mono5Ok s1) = true := by decide +kernel
end Proofs.Mono4
