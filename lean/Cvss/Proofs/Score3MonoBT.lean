import Cvss.Proofs.Score3MonoDefs
/-! C12 (v3.0 and v3.1), Spec enumeration: Base (2 × 1,296 tuples, all 8 components) and the Temporal step -/
namespace Proofs.Score3.Mono
set_option maxRecDepth 20000 in
set_option maxHeartbeats 4000000 in
theorem monoBase_ok : monoBase = true := by decide +kernel
set_option maxRecDepth 20000 in
set_option maxHeartbeats 4000000 in
theorem monoT_ok : monoT = true := by decide +kernel
end Proofs.Score3.Mono
