import Cvss.Proofs.VecCommon
/-!
# v4.0: the generated `Vector()` writes the Spec canonical form, and `lenVec()` is its length

* `vector_eq` (A): for **every** object `c` (no well-formedness needed)
  `c.vector = Spec.V4.canonical (metrics.map fun m => (m.abv, (c.get m.abv).1))`.
* `length_formula` (B, strongest form, every byte state):
  `c.vector.length + #{metrics reading as an illegal value} = c.lenVec + 4·[U reads as an illegal value]`.
  Per metric one enumeration of ONE byte (or of the two parts of a field split over two bytes) through the
  generated `Get`; the `U` metric's values have different lengths (`Clear/Green/Amber` add 8, `Red` adds 6) and is
  compared with the generated `switch`. A `U` code 5..7 reads as `""`, which is not `"X"`: `Vector` writes `/U:`
  (3 bytes) for it but `lenVec` reserves nothing.
* consequences: `length_eq` (C17: legal values ⇒ equality), `length_le` / `length_eq_iff` (when `U` reads as a
  legal value the buffer is never outgrown, and equality holds iff all metrics are legal),
  `length_gt_example` (a non-well-formed byte state where `Vector()` OUTGROWS the pre-sized buffer).
-/
namespace Proofs.Vec40
open Spec Proofs.Vec
open Model (O40)

/-! ## (A) shape -/

theorem mand_eq (b pre v : Spec.Bytes) : GenV40.mandatory b pre v = b ++ (pre ++ v) := by
  simp [GenV40.mandatory]

theorem nm_eq (b pre v : Spec.Bytes) : GenV40.notMandatory b pre v = b ++ opt pre v := by
  unfold GenV40.notMandatory opt Go.strEq
  by_cases h : v = [88] <;> simp [h, mand_eq]

set_option maxHeartbeats 2000000 in
theorem core_shape (r0 r1 r2 r3 r4 r5 r6 r7 r8 r9 r10 r11 r12 r13 r14 r15 r16 r17 r18 r19 r20 r21 r22 r23 r24 r25 r26 r27 r28 r29 r30 r31 r32 r33 r34 r35 r36 r37 r38 r39 r40 r41 r42 r43 r44 r45 r46 r47 r48 r49 r50 r51 r52 r53 r54 : Nat) :
    GenV40.Vector_core r0 r1 r2 r3 r4 r5 r6 r7 r8 r9 r10 r11 r12 r13 r14 r15 r16 r17 r18 r19 r20 r21 r22 r23 r24 r25 r26 r27 r28 r29 r30 r31 r32 r33 r34 r35 r36 r37 r38 r39 r40 r41 r42 r43 r44 r45 r46 r47 r48 r49 r50 r51 r52 r53 r54
    = V4.header ++ emit V4.metrics
        (GenV40.get_core r25 r26 r27 r28 r29 r30 r31 r32 r33 r34 r35 r36 r1 r37 r38 r39 r40 r41 r42 r43 r44 r45 r46 r47 r48 r49 r50 r51 r52 r53 r54 r24) := by
  simp only [GenV40.Vector_core, flet_eq, mand_eq, nm_eq]
  generalize GenV40.get_core r25 r26 r27 r28 r29 r30 r31 r32 r33 r34 r35 r36 r1 r37 r38 r39 r40 r41 r42 r43 r44 r45 r46 r47 r48 r49 r50 r51 r52 r53 r54 r24 = G
  simp [emit, piece, opt, render, V4.metrics, V4.base, V4.threat, V4.environmental, V4.supplemental, V4.header,
    mand, optX, Spec.b, SLASH, COLON]

/-- the private `get` of `Vector()` is the first component of the public `Get` -/
theorem get_fst (c : O40) :
    (fun a => (c.get a).1) = GenV40.get c.u0 c.u1 c.u2 c.u3 c.u4 c.u5 c.u6 c.u7 c.u8 := rfl

theorem vector_shape (c : O40) : c.vector = V4.header ++ emit V4.metrics (fun a => (c.get a).1) := by
  rw [get_fst]
  unfold O40.vector GenV40.Vector GenV40.get
  rw [core_shape]

/-- **(A)** `Vector()` spells the canonical form of the object's own values — for every object. -/
theorem vector_eq (c : O40) :
    c.vector = V4.canonical (V4.metrics.map fun m => (m.abv, (c.get m.abv).1)) := by
  rw [vector_shape]; exact (V4_canonical_eq _).symm

/-! ## (B) length -/

abbrev M (a : String) : Metric := met V4.metrics a

/-- length of the piece the canonical form writes for metric `m` of object `c`, plus 1 if `m` reads as an
    illegal value -/
def plen (c : O40) (m : Metric) : Nat := (piece m (c.get m.abv).1).length + bad m (c.get m.abv).1

/-- the value `Get(a)` returns on the object whose byte `k` is `u` and whose other bytes are zero -/
def byteVal (k u : Nat) (a : Spec.Bytes) : Spec.Bytes :=
  (GenV40.Get (sel 0 k u) (sel 1 k u) (sel 2 k u) (sel 3 k u) (sel 4 k u) (sel 5 k u) (sel 6 k u) (sel 7 k u)
    (sel 8 k u) a).1

/-- slot statement for a metric stored inside byte `k`: for every value `u` of that byte, the length of the
    piece written for the metric (+1 if the value it reads as is illegal) is `f u` -/
abbrev SlotB (a : String) (k : Nat) (f : Nat → Nat) : Prop :=
  ∀ u, u < 256 → (piece (M a) (byteVal k u (b a))).length + bad (M a) (byteVal k u (b a)) = f u

/-! mandatory metrics: `/abv:` and one letter (`lenVec` accounts for them in its constant) -/
theorem slot_AV : SlotB "AV" 0 (fun _ => 5) := by decide +kernel
theorem slot_AC : SlotB "AC" 0 (fun _ => 5) := by decide +kernel
theorem slot_AT : SlotB "AT" 0 (fun _ => 5) := by decide +kernel
theorem slot_PR : SlotB "PR" 0 (fun _ => 5) := by decide +kernel
theorem slot_UI : SlotB "UI" 0 (fun _ => 5) := by decide +kernel
theorem slot_VC : SlotB "VC" 1 (fun _ => 5) := by decide +kernel
theorem slot_VI : SlotB "VI" 1 (fun _ => 5) := by decide +kernel
theorem slot_VA : SlotB "VA" 2 (fun _ => 5) := by decide +kernel
theorem slot_SC : SlotB "SC" 1 (fun _ => 5) := by decide +kernel
theorem slot_SI : SlotB "SI" 1 (fun _ => 5) := by decide +kernel
theorem slot_SA : SlotB "SA" 2 (fun _ => 5) := by decide +kernel

/-! optional metrics: mask test and increment of the generated `lenVec` -/
theorem slot_E : SlotB "E" 2 (fun u => cond (!(Nat.beq (Nat.land u 12) 0)) 4 0) := by decide +kernel
theorem slot_CR : SlotB "CR" 2 (fun u => cond (!(Nat.beq (Nat.land u 3) 0)) 5 0) := by decide +kernel
theorem slot_IR : SlotB "IR" 3 (fun u => cond (!(Nat.beq (Nat.land u 192) 0)) 5 0) := by decide +kernel
theorem slot_AR : SlotB "AR" 3 (fun u => cond (!(Nat.beq (Nat.land u 48) 0)) 5 0) := by decide +kernel
theorem slot_MAV : SlotB "MAV" 3 (fun u => cond (!(Nat.beq (Nat.land u 14) 0)) 6 0) := by decide +kernel
theorem slot_MAT : SlotB "MAT" 4 (fun u => cond (!(Nat.beq (Nat.land u 96) 0)) 6 0) := by decide +kernel
theorem slot_MPR : SlotB "MPR" 4 (fun u => cond (!(Nat.beq (Nat.land u 24) 0)) 6 0) := by decide +kernel
theorem slot_MUI : SlotB "MUI" 4 (fun u => cond (!(Nat.beq (Nat.land u 6) 0)) 6 0) := by decide +kernel
theorem slot_MVI : SlotB "MVI" 5 (fun u => cond (!(Nat.beq (Nat.land u 96) 0)) 6 0) := by decide +kernel
theorem slot_MVA : SlotB "MVA" 5 (fun u => cond (!(Nat.beq (Nat.land u 24) 0)) 6 0) := by decide +kernel
theorem slot_MSC : SlotB "MSC" 5 (fun u => cond (!(Nat.beq (Nat.land u 6) 0)) 6 0) := by decide +kernel
theorem slot_MSA : SlotB "MSA" 6 (fun u => cond (!(Nat.beq (Nat.land u 56) 0)) 6 0) := by decide +kernel
theorem slot_S : SlotB "S" 6 (fun u => cond (!(Nat.beq (Nat.land u 6) 0)) 4 0) := by decide +kernel
theorem slot_R : SlotB "R" 7 (fun u => cond (!(Nat.beq (Nat.land u 96) 0)) 4 0) := by decide +kernel
theorem slot_V : SlotB "V" 7 (fun u => cond (!(Nat.beq (Nat.land u 24) 0)) 4 0) := by decide +kernel
theorem slot_RE : SlotB "RE" 7 (fun u => cond (!(Nat.beq (Nat.land u 6) 0)) 5 0) := by decide +kernel

/-! fields split over two bytes: `p` is bit 0 of the first byte, `q` the top bit(s) of the next one -/
def valMAC (p q : Nat) : Spec.Bytes := (GenV40.Get 0 0 0 p q 0 0 0 0 (b "MAC")).1
theorem slot_MAC : ∀ p, p < 2 → ∀ q ∈ [0, 128],
    (piece (M "MAC") (valMAC p q)).length + bad (M "MAC") (valMAC p q)
      = cond ((!(Nat.beq p 0)) || (!(Nat.beq q 0))) 6 0 := by decide +kernel
theorem get_MAC (c : O40) : (c.get (M "MAC").abv).1 = valMAC (Nat.land c.u3 1) (Nat.land c.u4 128) := by
  unfold valMAC O40.get GenV40.Get
  rw [land_idem, land_idem]
  rfl

def valMVC (p q : Nat) : Spec.Bytes := (GenV40.Get 0 0 0 0 p q 0 0 0 (b "MVC")).1
theorem slot_MVC : ∀ p, p < 2 → ∀ q ∈ [0, 128],
    (piece (M "MVC") (valMVC p q)).length + bad (M "MVC") (valMVC p q)
      = cond ((!(Nat.beq p 0)) || (!(Nat.beq q 0))) 6 0 := by decide +kernel
theorem get_MVC (c : O40) : (c.get (M "MVC").abv).1 = valMVC (Nat.land c.u4 1) (Nat.land c.u5 128) := by
  unfold valMVC O40.get GenV40.Get
  rw [land_idem, land_idem]
  rfl

def valMSI (p q : Nat) : Spec.Bytes := (GenV40.Get 0 0 0 0 0 p q 0 0 (b "MSI")).1
theorem slot_MSI : ∀ p, p < 2 → ∀ q ∈ [0, 64, 128, 192],
    (piece (M "MSI") (valMSI p q)).length + bad (M "MSI") (valMSI p q)
      = cond ((!(Nat.beq p 0)) || (!(Nat.beq q 0))) 6 0 := by decide +kernel
theorem get_MSI (c : O40) : (c.get (M "MSI").abv).1 = valMSI (Nat.land c.u5 1) (Nat.land c.u6 192) := by
  unfold valMSI O40.get GenV40.Get
  rw [land_idem, land_idem]
  rfl

def valAU (p q : Nat) : Spec.Bytes := (GenV40.Get 0 0 0 0 0 0 p q 0 (b "AU")).1
theorem slot_AU : ∀ p, p < 2 → ∀ q ∈ [0, 128],
    (piece (M "AU") (valAU p q)).length + bad (M "AU") (valAU p q)
      = cond ((!(Nat.beq p 0)) || (!(Nat.beq q 0))) 5 0 := by decide +kernel
theorem get_AU (c : O40) : (c.get (M "AU").abv).1 = valAU (Nat.land c.u6 1) (Nat.land c.u7 128) := by
  unfold valAU O40.get GenV40.Get
  rw [land_idem, land_idem]
  rfl

/-- `U` (bit 0 of `u7`, top two bits of `u8`): `lenVec` switches on the code -/
def valU (p q : Nat) : Spec.Bytes := (GenV40.Get 0 0 0 0 0 0 0 p q (b "U")).1
/-- the code of `U` as `lenVec` computes it -/
abbrev codeU (p q : Nat) : Nat := Nat.lor (Nat.mod (Nat.shiftLeft p 2) 256) (Nat.shiftRight q 6)
/-- … and here the illegal codes are NOT covered by `lenVec`: `/U:` (3 bytes, +1 for being illegal) on the left,
    nothing on the right -/
theorem slot_U : ∀ p, p < 2 → ∀ q ∈ [0, 64, 128, 192],
    (piece (M "U") (valU p q)).length + bad (M "U") (valU p q)
      = cond ((Nat.beq (codeU p q) 1) || (Nat.beq (codeU p q) 2) || (Nat.beq (codeU p q) 3)) 8
          (cond (Nat.beq (codeU p q) 4) 6 0) + 4 * bad (M "U") (valU p q) := by decide +kernel
theorem get_U (c : O40) : (c.get (b "U")).1 = valU (Nat.land c.u7 1) (Nat.land c.u8 192) := by
  unfold valU O40.get GenV40.Get
  rw [land_idem, land_idem]
  rfl

/-- closed form of the generated two-way `switch` step of `lenVec` -/
theorem cond_add2 (c : Bool) (l k x : Nat) : cond c (Nat.add l k) (l + x) = l + cond c k x := by
  cases c <;> rfl

theorem slot_apply (c : O40) (m : Metric) (n : Nat) (v' : Spec.Bytes)
    (hs : (piece m v').length + bad m v' = n) (hget : (c.get m.abv).1 = v') : plen c m = n := by
  unfold plen; rw [hget]; exact hs

theorem metrics_list : V4.metrics = ["AV", "AC", "AT", "PR", "UI", "VC", "VI", "VA", "SC", "SI", "SA", "E", "CR", "IR", "AR", "MAV", "MAC", "MAT", "MPR", "MUI", "MVC", "MVI", "MVA", "MSC", "MSI", "MSA", "S", "AU", "R", "V", "RE", "U"].map M := by rfl

set_option maxHeartbeats 4000000 in
/-- **(B)** for every byte state: `len(Vector())` + number of metrics reading as an illegal value
    = `lenVec()` + 4 if `U` reads as an illegal value -/
theorem length_formula (c : O40) (hb : c.IsBytes) :
    c.vector.length + (V4.metrics.map fun m => bad m (c.get m.abv).1).sum
      = c.lenVec + 4 * bad (M "U") (c.get (b "U")).1 := by
  obtain ⟨h0, h1, h2, h3, h4, h5, h6, h7, h8⟩ := hb
  have hAV := slot_apply c (M "AV") _ _ (slot_AV c.u0 h0) rfl
  have hAC := slot_apply c (M "AC") _ _ (slot_AC c.u0 h0) rfl
  have hAT := slot_apply c (M "AT") _ _ (slot_AT c.u0 h0) rfl
  have hPR := slot_apply c (M "PR") _ _ (slot_PR c.u0 h0) rfl
  have hUI := slot_apply c (M "UI") _ _ (slot_UI c.u0 h0) rfl
  have hVC := slot_apply c (M "VC") _ _ (slot_VC c.u1 h1) rfl
  have hVI := slot_apply c (M "VI") _ _ (slot_VI c.u1 h1) rfl
  have hVA := slot_apply c (M "VA") _ _ (slot_VA c.u2 h2) rfl
  have hSC := slot_apply c (M "SC") _ _ (slot_SC c.u1 h1) rfl
  have hSI := slot_apply c (M "SI") _ _ (slot_SI c.u1 h1) rfl
  have hSA := slot_apply c (M "SA") _ _ (slot_SA c.u2 h2) rfl
  have hE := slot_apply c (M "E") _ _ (slot_E c.u2 h2) rfl
  have hCR := slot_apply c (M "CR") _ _ (slot_CR c.u2 h2) rfl
  have hIR := slot_apply c (M "IR") _ _ (slot_IR c.u3 h3) rfl
  have hAR := slot_apply c (M "AR") _ _ (slot_AR c.u3 h3) rfl
  have hMAV := slot_apply c (M "MAV") _ _ (slot_MAV c.u3 h3) rfl
  have hMAT := slot_apply c (M "MAT") _ _ (slot_MAT c.u4 h4) rfl
  have hMPR := slot_apply c (M "MPR") _ _ (slot_MPR c.u4 h4) rfl
  have hMUI := slot_apply c (M "MUI") _ _ (slot_MUI c.u4 h4) rfl
  have hMVI := slot_apply c (M "MVI") _ _ (slot_MVI c.u5 h5) rfl
  have hMVA := slot_apply c (M "MVA") _ _ (slot_MVA c.u5 h5) rfl
  have hMSC := slot_apply c (M "MSC") _ _ (slot_MSC c.u5 h5) rfl
  have hMSA := slot_apply c (M "MSA") _ _ (slot_MSA c.u6 h6) rfl
  have hS := slot_apply c (M "S") _ _ (slot_S c.u6 h6) rfl
  have hR := slot_apply c (M "R") _ _ (slot_R c.u7 h7) rfl
  have hV := slot_apply c (M "V") _ _ (slot_V c.u7 h7) rfl
  have hRE := slot_apply c (M "RE") _ _ (slot_RE c.u7 h7) rfl
  have hMAC := slot_apply c (M "MAC") _ _
    (slot_MAC _ (land1_lt c.u3 h3) _ (land128_mem c.u4 h4)) (get_MAC c)
  have hMVC := slot_apply c (M "MVC") _ _
    (slot_MVC _ (land1_lt c.u4 h4) _ (land128_mem c.u5 h5)) (get_MVC c)
  have hMSI := slot_apply c (M "MSI") _ _
    (slot_MSI _ (land1_lt c.u5 h5) _ (land192_mem c.u6 h6)) (get_MSI c)
  have hAU := slot_apply c (M "AU") _ _
    (slot_AU _ (land1_lt c.u6 h6) _ (land128_mem c.u7 h7)) (get_AU c)
  have hU := slot_apply c (M "U") _ _
    (slot_U _ (land1_lt c.u7 h7) _ (land192_mem c.u8 h8)) (get_U c)
  have hhdr : V4.header.length = 8 := by decide
  have hlen : c.vector.length + (V4.metrics.map fun m => bad m (c.get m.abv).1).sum
      = V4.header.length + (V4.metrics.map (plen c)).sum := by
    rw [vector_shape, List.length_append, length_emit]
    unfold plen
    rw [sum_map_add]; omega
  dsimp only [codeU] at hAV hAC hAT hPR hUI hVC hVI hVA hSC hSI hSA hE hCR hIR hAR hMAV hMAC hMAT hMPR hMUI hMVC hMVI hMVA hMSC hMSI hMSA hS hAU hR hV hRE hU
  rw [hlen, hhdr, metrics_list, get_U c]
  simp only [List.map, List.sum_cons, List.sum_nil, hAV, hAC, hAT, hPR, hUI, hVC, hVI, hVA, hSC, hSI, hSA, hU]
  unfold O40.lenVec GenV40.lenVec
  simp only [GenV40.lenVec_core, flet_eq, cond_add, cond_add2]
  rw [← hE, ← hCR, ← hIR, ← hAR, ← hMAV, ← hMAC, ← hMAT, ← hMPR, ← hMUI, ← hMVC, ← hMVI, ← hMVA, ← hMSC, ← hMSI, ← hMSA, ← hS, ← hAU, ← hR, ← hV, ← hRE]
  generalize plen c (M "E") = x1
  generalize plen c (M "CR") = x2
  generalize plen c (M "IR") = x3
  generalize plen c (M "AR") = x4
  generalize plen c (M "MAV") = x5
  generalize plen c (M "MAC") = x6
  generalize plen c (M "MAT") = x7
  generalize plen c (M "MPR") = x8
  generalize plen c (M "MUI") = x9
  generalize plen c (M "MVC") = x10
  generalize plen c (M "MVI") = x11
  generalize plen c (M "MVA") = x12
  generalize plen c (M "MSC") = x13
  generalize plen c (M "MSI") = x14
  generalize plen c (M "MSA") = x15
  generalize plen c (M "S") = x16
  generalize plen c (M "AU") = x17
  generalize plen c (M "R") = x18
  generalize plen c (M "V") = x19
  generalize plen c (M "RE") = x20
  generalize bad (M "U") (valU (Nat.land c.u7 1) (Nat.land c.u8 192)) = bU
  clear hAV hAC hAT hPR hUI hVC hVI hVA hSC hSI hSA hE hCR hIR hAR hMAV hMAC hMAT hMPR hMUI hMVC hMVI hMVA hMSC hMSI hMSA hS hAU hR hV hRE hU hlen hhdr h0 h1 h2 h3 h4 h5 h6 h7 h8
  omega

theorem mem_U : M "U" ∈ V4.metrics := met_mem _ _ (by decide +kernel)

/-- **C17** for every byte state whose metrics all read as legal values (unused bits are irrelevant) -/
theorem length_eq (c : O40) (hb : c.IsBytes) (hv : ∀ m ∈ V4.metrics, (c.get m.abv).1 ∈ m.values) :
    c.vector.length = c.lenVec := by
  have h := length_formula c hb
  have hU : bad (M "U") (c.get (b "U")).1 = 0 := by
    unfold bad; exact if_pos (hv (M "U") mem_U)
  rw [(bad_sum_eq_zero_iff V4.metrics fun a => (c.get a).1).mpr hv, hU] at h
  exact h

/-- if `U` reads as a legal value, `Vector()` never outgrows the buffer pre-sized with `lenVec()` … -/
theorem length_le (c : O40) (hb : c.IsBytes) (hU : (c.get (b "U")).1 ∈ (M "U").values) :
    c.vector.length ≤ c.lenVec := by
  have h := length_formula c hb
  have hU' : bad (M "U") (c.get (b "U")).1 = 0 := by unfold bad; rw [if_pos hU]
  omega

/-- … and C17 holds exactly when every metric reads as a legal value -/
theorem length_eq_iff (c : O40) (hb : c.IsBytes) (hU : (c.get (b "U")).1 ∈ (M "U").values) :
    c.vector.length = c.lenVec ↔ ∀ m ∈ V4.metrics, (c.get m.abv).1 ∈ m.values := by
  have h := length_formula c hb
  have hU' : bad (M "U") (c.get (b "U")).1 = 0 := by unfold bad; rw [if_pos hU]
  rw [← bad_sum_eq_zero_iff V4.metrics fun a => (c.get a).1]
  omega

theorem wf_bytes (c : O40) (h : c.wf = true) : c.IsBytes := by
  simp only [O40.wf, O40.bytes, List.all_cons, List.all_nil, Bool.and_eq_true, Nat.blt_eq] at h
  obtain ⟨⟨⟨h0, h1, h2, h3, h4, h5, h6, h7, h8, _⟩, _⟩, _⟩ := h
  exact ⟨h0, h1, h2, h3, h4, h5, h6, h7, h8⟩

theorem wf_legal (c : O40) (h : c.wf = true) : ∀ m ∈ V4.metrics, (c.get m.abv).1 ∈ m.values := by
  simp only [O40.wf, Bool.and_eq_true] at h
  exact legalGets_mem _ _ h.2

/-- **C17** for well-formed objects -/
theorem length_eq_wf (c : O40) (h : c.wf = true) : c.vector.length = c.lenVec :=
  length_eq c (wf_bytes c h) (wf_legal c h)

/-- the hypotheses are satisfiable by a non-trivial object (with the short `U:Red`) -/
example : (⟨86, 88, 40, 0, 64, 1, 1, 1, 0⟩ : O40).wf = true := by decide +kernel
example : (⟨86, 88, 40, 0, 64, 1, 1, 1, 0⟩ : O40).vector
    = b "CVSS:4.0/AV:A/AC:H/AT:P/PR:L/UI:A/VC:L/VI:N/VA:H/SC:L/SI:H/SA:N/E:P/MAT:P/MSI:S/AU:Y/U:Red" := by
  decide +kernel

/-- On a non-well-formed byte state the equality fails, and in the bad direction: `U` code 5 (`u7 = 1`,
    `u8 = 0x40`) makes `Vector()` write `/U:` (66 bytes) into a buffer pre-sized by `lenVec()` to 63. -/
theorem length_gt_example :
    (⟨0, 0, 0, 0, 0, 0, 0, 1, 64⟩ : O40).vector.length = 66 ∧ (⟨0, 0, 0, 0, 0, 0, 0, 1, 64⟩ : O40).lenVec = 63 := by
  decide +kernel

end Proofs.Vec40
