import Cvss.Proofs.Mono4Lists
import Cvss.Spec.V4
/-!
# v4.0 monotonicity: `scoreP` (primitive) is the Spec's `scoreOf` on all 52,650 points, and is ≥ 1 there
-/
namespace Proofs.Mono4

/-- one MacroVector, all distance tuples within its depths -/
def bridgeOkMV (q1 q2 q3 q4 q5 q6 : Nat) : Bool :=
  (List.range (Spec.V4.depth1P1 q1)).all fun d1 =>
  (List.range (Spec.V4.depth2P1 q2)).all fun d2 =>
  (List.range (Spec.V4.depth36P1 q3 q6)).all fun d36 =>
  (List.range (Spec.V4.depth4P1 q4)).all fun d4 =>
    F64.flet (scoreP q1 q2 q3 q4 q5 q6 d1 d2 d36 d4) fun k =>
      Nat.beq (Spec.V4.scoreOf (q1, q2, q3, q4, q5, q6) d1 d2 d36 d4 0) k && Nat.ble 1 k

end Proofs.Mono4
