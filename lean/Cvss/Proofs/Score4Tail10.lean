import Cvss.Proofs.Score4TailDef
/-! GENERATED chunk 10 of the v4.0 float-tail obligation: for each MacroVector below and every severity
distance tuple within its depths, `roundup(eqsv − mean)` (the generated tail) is `F64.tenth` of the Spec's
exact half-up value. Kernel evaluation (`decide +kernel`), 2922 tuples. -/
namespace Proofs.Score4
set_option maxHeartbeats 2000000 in
theorem tail_000211 : tailOkMV 0 0 0 2 1 1 = true := by decide +kernel
set_option maxHeartbeats 2000000 in
theorem tail_001001 : tailOkMV 0 0 1 0 0 1 = true := by decide +kernel
set_option maxHeartbeats 2000000 in
theorem tail_010011 : tailOkMV 0 1 0 0 1 1 = true := by decide +kernel
set_option maxHeartbeats 2000000 in
theorem tail_010211 : tailOkMV 0 1 0 2 1 1 = true := by decide +kernel
set_option maxHeartbeats 2000000 in
theorem tail_011001 : tailOkMV 0 1 1 0 0 1 = true := by decide +kernel
set_option maxHeartbeats 2000000 in
theorem tail_012011 : tailOkMV 0 1 2 0 1 1 = true := by decide +kernel
set_option maxHeartbeats 2000000 in
theorem tail_100010 : tailOkMV 1 0 0 0 1 0 = true := by decide +kernel
set_option maxHeartbeats 2000000 in
theorem tail_110010 : tailOkMV 1 1 0 0 1 0 = true := by decide +kernel
set_option maxHeartbeats 2000000 in
theorem tail_110210 : tailOkMV 1 1 0 2 1 0 = true := by decide +kernel
set_option maxHeartbeats 2000000 in
theorem tail_111220 : tailOkMV 1 1 1 2 2 0 = true := by decide +kernel
set_option maxHeartbeats 2000000 in
theorem tail_200111 : tailOkMV 2 0 0 1 1 1 = true := by decide +kernel
set_option maxHeartbeats 2000000 in
theorem tail_201120 : tailOkMV 2 0 1 1 2 0 = true := by decide +kernel
set_option maxHeartbeats 2000000 in
theorem tail_210111 : tailOkMV 2 1 0 1 1 1 = true := by decide +kernel
set_option maxHeartbeats 2000000 in
theorem tail_211001 : tailOkMV 2 1 1 0 0 1 = true := by decide +kernel
set_option maxHeartbeats 2000000 in
theorem tail_211120 : tailOkMV 2 1 1 1 2 0 = true := by decide +kernel
end Proofs.Score4
