import Cvss.Proofs.Mono4BridgeDef
/-! GENERATED: bridge check (`scoreP` = Spec `scoreOf`, and ≥ 1), chunk 5, 8776 points -/
namespace Proofs.Mono4
set_option maxHeartbeats 2000000 in
theorem bridge_000020 : bridgeOkMV 0 0 0 0 2 0 = true := by decide +kernel
set_option maxHeartbeats 2000000 in
theorem bridge_000121 : bridgeOkMV 0 0 0 1 2 1 = true := by decide +kernel
set_option maxHeartbeats 2000000 in
theorem bridge_000220 : bridgeOkMV 0 0 0 2 2 0 = true := by decide +kernel
set_option maxHeartbeats 2000000 in
theorem bridge_001021 : bridgeOkMV 0 0 1 0 2 1 = true := by decide +kernel
set_option maxHeartbeats 2000000 in
theorem bridge_001110 : bridgeOkMV 0 0 1 1 1 0 = true := by decide +kernel
set_option maxHeartbeats 2000000 in
theorem bridge_001210 : bridgeOkMV 0 0 1 2 1 0 = true := by decide +kernel
set_option maxHeartbeats 2000000 in
theorem bridge_002021 : bridgeOkMV 0 0 2 0 2 1 = true := by decide +kernel
set_option maxHeartbeats 2000000 in
theorem bridge_002221 : bridgeOkMV 0 0 2 2 2 1 = true := by decide +kernel
set_option maxHeartbeats 2000000 in
theorem bridge_010020 : bridgeOkMV 0 1 0 0 2 0 = true := by decide +kernel
set_option maxHeartbeats 2000000 in
theorem bridge_010120 : bridgeOkMV 0 1 0 1 2 0 = true := by decide +kernel
set_option maxHeartbeats 2000000 in
theorem bridge_010220 : bridgeOkMV 0 1 0 2 2 0 = true := by decide +kernel
set_option maxHeartbeats 2000000 in
theorem bridge_011021 : bridgeOkMV 0 1 1 0 2 1 = true := by decide +kernel
set_option maxHeartbeats 2000000 in
theorem bridge_011210 : bridgeOkMV 0 1 1 2 1 0 = true := by decide +kernel
set_option maxHeartbeats 2000000 in
theorem bridge_012121 : bridgeOkMV 0 1 2 1 2 1 = true := by decide +kernel
set_option maxHeartbeats 2000000 in
theorem bridge_012221 : bridgeOkMV 0 1 2 2 2 1 = true := by decide +kernel
set_option maxHeartbeats 2000000 in
theorem bridge_100121 : bridgeOkMV 1 0 0 1 2 1 = true := by decide +kernel
set_option maxHeartbeats 2000000 in
theorem bridge_100220 : bridgeOkMV 1 0 0 2 2 0 = true := by decide +kernel
set_option maxHeartbeats 2000000 in
theorem bridge_101010 : bridgeOkMV 1 0 1 0 1 0 = true := by decide +kernel
set_option maxHeartbeats 2000000 in
theorem bridge_101021 : bridgeOkMV 1 0 1 0 2 1 = true := by decide +kernel
set_option maxHeartbeats 2000000 in
theorem bridge_101110 : bridgeOkMV 1 0 1 1 1 0 = true := by decide +kernel
set_option maxHeartbeats 2000000 in
theorem bridge_101121 : bridgeOkMV 1 0 1 1 2 1 = true := by decide +kernel
set_option maxHeartbeats 2000000 in
theorem bridge_101221 : bridgeOkMV 1 0 1 2 2 1 = true := by decide +kernel
set_option maxHeartbeats 2000000 in
theorem bridge_110020 : bridgeOkMV 1 1 0 0 2 0 = true := by decide +kernel
set_option maxHeartbeats 2000000 in
theorem bridge_110021 : bridgeOkMV 1 1 0 0 2 1 = true := by decide +kernel
set_option maxHeartbeats 2000000 in
theorem bridge_110121 : bridgeOkMV 1 1 0 1 2 1 = true := by decide +kernel
set_option maxHeartbeats 2000000 in
theorem bridge_110220 : bridgeOkMV 1 1 0 2 2 0 = true := by decide +kernel
set_option maxHeartbeats 2000000 in
theorem bridge_111010 : bridgeOkMV 1 1 1 0 1 0 = true := by decide +kernel
set_option maxHeartbeats 2000000 in
theorem bridge_111121 : bridgeOkMV 1 1 1 1 2 1 = true := by decide +kernel
set_option maxHeartbeats 2000000 in
theorem bridge_112021 : bridgeOkMV 1 1 2 0 2 1 = true := by decide +kernel
set_option maxHeartbeats 2000000 in
theorem bridge_112121 : bridgeOkMV 1 1 2 1 2 1 = true := by decide +kernel
set_option maxHeartbeats 2000000 in
theorem bridge_200020 : bridgeOkMV 2 0 0 0 2 0 = true := by decide +kernel
set_option maxHeartbeats 2000000 in
theorem bridge_200021 : bridgeOkMV 2 0 0 0 2 1 = true := by decide +kernel
set_option maxHeartbeats 2000000 in
theorem bridge_200121 : bridgeOkMV 2 0 0 1 2 1 = true := by decide +kernel
set_option maxHeartbeats 2000000 in
theorem bridge_200220 : bridgeOkMV 2 0 0 2 2 0 = true := by decide +kernel
set_option maxHeartbeats 2000000 in
theorem bridge_201021 : bridgeOkMV 2 0 1 0 2 1 = true := by decide +kernel
set_option maxHeartbeats 2000000 in
theorem bridge_201121 : bridgeOkMV 2 0 1 1 2 1 = true := by decide +kernel
set_option maxHeartbeats 2000000 in
theorem bridge_201210 : bridgeOkMV 2 0 1 2 1 0 = true := by decide +kernel
set_option maxHeartbeats 2000000 in
theorem bridge_202021 : bridgeOkMV 2 0 2 0 2 1 = true := by decide +kernel
set_option maxHeartbeats 2000000 in
theorem bridge_202121 : bridgeOkMV 2 0 2 1 2 1 = true := by decide +kernel
set_option maxHeartbeats 2000000 in
theorem bridge_210021 : bridgeOkMV 2 1 0 0 2 1 = true := by decide +kernel
set_option maxHeartbeats 2000000 in
theorem bridge_210220 : bridgeOkMV 2 1 0 2 2 0 = true := by decide +kernel
set_option maxHeartbeats 2000000 in
theorem bridge_211021 : bridgeOkMV 2 1 1 0 2 1 = true := by decide +kernel
set_option maxHeartbeats 2000000 in
theorem bridge_211121 : bridgeOkMV 2 1 1 1 2 1 = true := by decide +kernel
set_option maxHeartbeats 2000000 in
theorem bridge_211210 : bridgeOkMV 2 1 1 2 1 0 = true := by decide +kernel
set_option maxHeartbeats 2000000 in
theorem bridge_212121 : bridgeOkMV 2 1 2 1 2 1 = true := by decide +kernel
end Proofs.Mono4
