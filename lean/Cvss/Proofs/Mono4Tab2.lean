import Cvss.Proofs.Mono4Lists
/-! GENERATED: kernel evaluation of the monotonicity check for EQ group 2 (all transitions × all contexts) -/
namespace Proofs.Mono4
set_option maxHeartbeats 4000000 in
theorem mono2_q0 : mono2Ok 0 = true := by decide +kernel
set_option maxHeartbeats 4000000 in
theorem mono2_q1 : mono2Ok 1 = true := by decide +kernel
set_option maxHeartbeats 4000000 in
theorem mono2_q2 : mono2Ok 2 = true := by decide +kernel
end Proofs.Mono4
