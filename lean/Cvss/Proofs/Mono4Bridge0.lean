import Cvss.Proofs.Mono4BridgeDef
/-! GENERATED: bridge check (`scoreP` = Spec `scoreOf`, and ≥ 1), chunk 0, 8774 points -/
namespace Proofs.Mono4
set_option maxHeartbeats 2000000 in
theorem bridge_000001 : bridgeOkMV 0 0 0 0 0 1 = true := by decide +kernel
set_option maxHeartbeats 2000000 in
theorem bridge_000100 : bridgeOkMV 0 0 0 1 0 0 = true := by decide +kernel
set_option maxHeartbeats 2000000 in
theorem bridge_000201 : bridgeOkMV 0 0 0 2 0 1 = true := by decide +kernel
set_option maxHeartbeats 2000000 in
theorem bridge_001000 : bridgeOkMV 0 0 1 0 0 0 = true := by decide +kernel
set_option maxHeartbeats 2000000 in
theorem bridge_001111 : bridgeOkMV 0 0 1 1 1 1 = true := by decide +kernel
set_option maxHeartbeats 2000000 in
theorem bridge_001211 : bridgeOkMV 0 0 1 2 1 1 = true := by decide +kernel
set_option maxHeartbeats 2000000 in
theorem bridge_002101 : bridgeOkMV 0 0 2 1 0 1 = true := by decide +kernel
set_option maxHeartbeats 2000000 in
theorem bridge_010001 : bridgeOkMV 0 1 0 0 0 1 = true := by decide +kernel
set_option maxHeartbeats 2000000 in
theorem bridge_010101 : bridgeOkMV 0 1 0 1 0 1 = true := by decide +kernel
set_option maxHeartbeats 2000000 in
theorem bridge_010201 : bridgeOkMV 0 1 0 2 0 1 = true := by decide +kernel
set_option maxHeartbeats 2000000 in
theorem bridge_011000 : bridgeOkMV 0 1 1 0 0 0 = true := by decide +kernel
set_option maxHeartbeats 2000000 in
theorem bridge_011100 : bridgeOkMV 0 1 1 1 0 0 = true := by decide +kernel
set_option maxHeartbeats 2000000 in
theorem bridge_011111 : bridgeOkMV 0 1 1 1 1 1 = true := by decide +kernel
set_option maxHeartbeats 2000000 in
theorem bridge_011211 : bridgeOkMV 0 1 1 2 1 1 = true := by decide +kernel
set_option maxHeartbeats 2000000 in
theorem bridge_012001 : bridgeOkMV 0 1 2 0 0 1 = true := by decide +kernel
set_option maxHeartbeats 2000000 in
theorem bridge_100000 : bridgeOkMV 1 0 0 0 0 0 = true := by decide +kernel
set_option maxHeartbeats 2000000 in
theorem bridge_100001 : bridgeOkMV 1 0 0 0 0 1 = true := by decide +kernel
set_option maxHeartbeats 2000000 in
theorem bridge_100100 : bridgeOkMV 1 0 0 1 0 0 = true := by decide +kernel
set_option maxHeartbeats 2000000 in
theorem bridge_100201 : bridgeOkMV 1 0 0 2 0 1 = true := by decide +kernel
set_option maxHeartbeats 2000000 in
theorem bridge_101200 : bridgeOkMV 1 0 1 2 0 0 = true := by decide +kernel
set_option maxHeartbeats 2000000 in
theorem bridge_102001 : bridgeOkMV 1 0 2 0 0 1 = true := by decide +kernel
set_option maxHeartbeats 2000000 in
theorem bridge_102101 : bridgeOkMV 1 0 2 1 0 1 = true := by decide +kernel
set_option maxHeartbeats 2000000 in
theorem bridge_102201 : bridgeOkMV 1 0 2 2 0 1 = true := by decide +kernel
set_option maxHeartbeats 2000000 in
theorem bridge_110100 : bridgeOkMV 1 1 0 1 0 0 = true := by decide +kernel
set_option maxHeartbeats 2000000 in
theorem bridge_110201 : bridgeOkMV 1 1 0 2 0 1 = true := by decide +kernel
set_option maxHeartbeats 2000000 in
theorem bridge_111011 : bridgeOkMV 1 1 1 0 1 1 = true := by decide +kernel
set_option maxHeartbeats 2000000 in
theorem bridge_111100 : bridgeOkMV 1 1 1 1 0 0 = true := by decide +kernel
set_option maxHeartbeats 2000000 in
theorem bridge_111200 : bridgeOkMV 1 1 1 2 0 0 = true := by decide +kernel
set_option maxHeartbeats 2000000 in
theorem bridge_111211 : bridgeOkMV 1 1 1 2 1 1 = true := by decide +kernel
set_option maxHeartbeats 2000000 in
theorem bridge_112201 : bridgeOkMV 1 1 2 2 0 1 = true := by decide +kernel
set_option maxHeartbeats 2000000 in
theorem bridge_200100 : bridgeOkMV 2 0 0 1 0 0 = true := by decide +kernel
set_option maxHeartbeats 2000000 in
theorem bridge_200201 : bridgeOkMV 2 0 0 2 0 1 = true := by decide +kernel
set_option maxHeartbeats 2000000 in
theorem bridge_201000 : bridgeOkMV 2 0 1 0 0 0 = true := by decide +kernel
set_option maxHeartbeats 2000000 in
theorem bridge_201100 : bridgeOkMV 2 0 1 1 0 0 = true := by decide +kernel
set_option maxHeartbeats 2000000 in
theorem bridge_201211 : bridgeOkMV 2 0 1 2 1 1 = true := by decide +kernel
set_option maxHeartbeats 2000000 in
theorem bridge_202201 : bridgeOkMV 2 0 2 2 0 1 = true := by decide +kernel
set_option maxHeartbeats 2000000 in
theorem bridge_210000 : bridgeOkMV 2 1 0 0 0 0 = true := by decide +kernel
set_option maxHeartbeats 2000000 in
theorem bridge_210100 : bridgeOkMV 2 1 0 1 0 0 = true := by decide +kernel
set_option maxHeartbeats 2000000 in
theorem bridge_210101 : bridgeOkMV 2 1 0 1 0 1 = true := by decide +kernel
set_option maxHeartbeats 2000000 in
theorem bridge_210201 : bridgeOkMV 2 1 0 2 0 1 = true := by decide +kernel
set_option maxHeartbeats 2000000 in
theorem bridge_211000 : bridgeOkMV 2 1 1 0 0 0 = true := by decide +kernel
set_option maxHeartbeats 2000000 in
theorem bridge_211100 : bridgeOkMV 2 1 1 1 0 0 = true := by decide +kernel
set_option maxHeartbeats 2000000 in
theorem bridge_211211 : bridgeOkMV 2 1 1 2 1 1 = true := by decide +kernel
set_option maxHeartbeats 2000000 in
theorem bridge_212001 : bridgeOkMV 2 1 2 0 0 1 = true := by decide +kernel
set_option maxHeartbeats 2000000 in
theorem bridge_212201 : bridgeOkMV 2 1 2 2 0 1 = true := by decide +kernel
end Proofs.Mono4
