import Cvss.Proofs.Parse2Loop
/-!
# v2.0 parser proofs, part 3: closed facts about the tables (all by evaluation)

Everything here is a closed term about the Spec metric table `Spec.V2.metrics`, the Spec `shapes` and the
**regenerated** `GenV20.tbl_order`; it is re-evaluated on every check, so a mutated table makes these fail.
-/
namespace Proofs.Parse2
open Model (Bytes Res cutColon splitN idx2 eValue eOrder eTooShort)
open Spec (joinSlash render Pair abvs legal isMetric findMetric Metric valueOf)
open Spec.V2 (metrics base temporal environmental shapes)

abbrev tbl : List (List Bytes) := GenV20.tbl_order

/-! ## the tie of the regenerated order table to the Spec -/

theorem tbl_eq : GenV20.tbl_order = [abvs base, abvs temporal, abvs environmental] := by decide

theorem tbl_flatten : GenV20.tbl_order.flatten = abvs metrics := by decide

/-! ## the metric table -/

theorem metrics_clean : ∀ m ∈ metrics, 58 ∉ m.abv ∧ 47 ∉ m.abv ∧ ∀ v ∈ m.values, 47 ∉ v ∧ 58 ∉ v ∧ v ≠ [] := by
  decide

theorem abvs_nodup : (abvs metrics).Nodup := by decide

theorem findMetric_self : ∀ m ∈ metrics, findMetric metrics m.abv = some m := by decide

theorem undef_mem_values : ∀ m ∈ metrics, ∀ u, m.undef = some u → u ∈ m.values := by decide

theorem base_mandatory : (base.all fun m => m.mandatory) = true := by decide
theorem temporal_optional : (temporal.all fun m => m.mandatory) = false := by decide
theorem environmental_optional : (environmental.all fun m => m.mandatory) = false := by decide

theorem opt_undef : ∀ m ∈ temporal ++ environmental, m.undef = some (Spec.b "ND") := by decide

theorem temporal_disjoint : ∀ m ∈ temporal, m.abv ∉ abvs base ∧ m.abv ∉ abvs environmental := by decide
theorem environmental_disjoint : ∀ m ∈ environmental, m.abv ∉ abvs base ∧ m.abv ∉ abvs temporal := by decide

theorem base_sub : ∀ m ∈ base, m ∈ metrics := by decide
theorem temporal_sub : ∀ m ∈ temporal, m ∈ metrics := by decide
theorem environmental_sub : ∀ m ∈ environmental, m ∈ metrics := by decide

theorem empty_not_metric : ([] : Bytes) ∉ abvs metrics := by decide

/-! ## the shapes -/

theorem shapes_len : ∀ sh ∈ shapes, sh ≠ [] ∧ sh.length ≤ 14 := by decide

theorem shapes_nodup : ∀ sh ∈ shapes, sh.Nodup := by decide

theorem shapes_sub : ∀ sh ∈ shapes, ∀ a ∈ sh, a ∈ abvs metrics := by decide

theorem shapes_head : ∀ sh ∈ shapes, sh.head? = some [65, 86] := by decide

/-- a metric not written in a grammatical vector has a not-defined value -/
theorem shapes_missing_undef : ∀ sh ∈ shapes, ∀ m ∈ metrics, m.abv ∉ sh → m.undef.isSome = true := by decide

theorem shapes_cases : ∀ nT ∈ [[], abvs temporal], ∀ nE ∈ [[], abvs environmental],
    abvs base ++ nT ++ nE ∈ shapes := by decide

theorem abvs_metrics_shape : abvs metrics ∈ shapes := by decide

/-! ## the name automaton on the regenerated table -/

/-- the state reached from `(0,0)` (`(4,0)` if the run fails) -/
def after (names : List Bytes) : Nat × Nat :=
  match nrun tbl names 0 0 with
  | .ok st => st
  | _ => (4, 0)

/-- every prefix of a shape is run without error -/
theorem F_run : ∀ sh ∈ shapes, ∀ k < sh.length + 1, nrun tbl (sh.take k) 0 0 = .ok (after (sh.take k)) := by
  decide +kernel

/-- a complete shape ends with `i = 0` -/
theorem F_complete : ∀ sh ∈ shapes, (after sh).2 = 0 := by decide +kernel

/-- in a shape, every element is what the automaton accepts at its position -/
theorem F_match : ∀ sh ∈ shapes, ∀ k < sh.length,
    (nstep tbl (after (sh.take k)).1 (after (sh.take k)).2 (sh.getD k [])).isOk = true := by decide +kernel

/-- the language of the automaton from state `(g,i)`, for lists of length ≤ fuel -/
def lang (order : List (List Bytes)) : Nat → Nat → Nat → List (List Bytes)
  | 0, _, i => if i = 0 then [[]] else []
  | fuel + 1, g, i =>
    (if i = 0 then [[]] else []) ++
      order.flatten.flatMap (fun a =>
        match nstep order g i a with
        | .ok (g', i') => (lang order fuel g' i').map (a :: ·)
        | _ => [])

theorem nrun_ok_lang (order : List (List Bytes)) (names : List Bytes) (fuel g i g' : Nat)
    (h : nrun order names g i = .ok (g', 0)) (hlen : names.length ≤ fuel) :
    names ∈ lang order fuel g i := by
  induction names generalizing fuel g i with
  | nil =>
    simp only [nrun, Res.ok.injEq, Prod.mk.injEq] at h
    cases fuel <;> simp [lang, h.2]
  | cons a rest ih =>
    cases fuel with
    | zero => simp at hlen
    | succ fuel =>
      simp only [nrun] at h
      cases hn : nstep order g i a with
      | ok st =>
        rw [hn] at h
        have hmem := nstep_ok_mem hn
        have := ih fuel st.1 st.2 h (by simpa using hlen)
        simp only [lang, List.mem_append, List.mem_flatMap]
        refine Or.inr ⟨a, hmem, ?_⟩
        rw [hn]
        exact List.mem_map.mpr ⟨rest, this, rfl⟩
      | err e => rw [hn] at h; cases h
      | panic => rw [hn] at h; cases h

/-- what the automaton accepts (within the 14 parts `split` can produce) is a shape -/
theorem lang_shapes : ∀ l ∈ lang tbl 14 0 0, l ≠ [] → l ∈ shapes := by decide +kernel

theorem nrun_ok_shapes (names : List Bytes) (g' : Nat) (h : nrun tbl names 0 0 = .ok (g', 0))
    (hlen : names.length ≤ 14) (hne : names ≠ []) : names ∈ shapes :=
  lang_shapes names (nrun_ok_lang tbl names 14 0 0 g' h hlen) hne

/-! ## facts for the error contract (C18) -/

def endsEnv (names : List Bytes) : Bool := (abvs environmental).isSuffixOf names

def good3 (o : Option (Nat × Go.Err)) : Bool :=
  match o with
  | some (p, e) => decide (p ≤ 13) && decide (e = eOrder)
  | none => false

theorem good3_spec {o : Option (Nat × Go.Err)} (h : good3 o = true) : ∃ p, p ≤ 13 ∧ o = some (p, eOrder) := by
  unfold good3 at h
  split at h
  · rename_i p e
    simp only [Bool.and_eq_true, decide_eq_true_eq] at h
    exact ⟨p, h.1, by rw [h.2]⟩
  · cases h

def swapNames (sh : List Bytes) (k : Nat) : List Bytes :=
  (sh.set k (sh.getD (k + 1) [])).set (k + 1) (sh.getD k [])

theorem F_swap : ∀ sh ∈ shapes, ∀ k < sh.length, k + 1 < sh.length →
    good3 (nfail tbl (swapNames sh k) 0 0) = true := by decide +kernel

/-- an element taken out and put back at another position: refused by the name automaton, always with
    `ErrInvalidMetricOrder` and within the first 14 parts (no exception: the result has the length of the
    shape, so nothing ever lands *after* a complete environmental group) -/
theorem F_move : ∀ sh ∈ shapes, ∀ i < sh.length, ∀ j < sh.length, j ≠ i →
    good3 (nfail tbl (Spec.insertAt (sh.eraseIdx i) j (sh.getD i [])) 0 0) = true := by decide +kernel

/-- positions at which an inserted element lands after a complete environmental group -/
def afterEnvPos (names : List Bytes) (i j : Nat) : Bool :=
  endsEnv names && (j == names.length || (i + 1 == names.length && j + 1 == names.length))

theorem F_rep : ∀ sh ∈ shapes, ∀ i < sh.length, ∀ j < sh.length + 1, afterEnvPos sh i j = false →
    good3 (nfail tbl (Spec.insertAt sh j (sh.getD i [])) 0 0) = true := by decide +kernel

theorem F_unk : ∀ sh ∈ shapes, ∀ j < sh.length + 1, (endsEnv sh && j == sh.length) = false →
    j ≤ 13 ∧ nstep tbl (after (sh.take j)).1 (after (sh.take j)).2 [] = .err eOrder := by decide +kernel

theorem F_trunc : ∀ sh ∈ shapes, ∀ n < sh.length, 1 ≤ n → Spec.V2.completeLengths.contains n = false →
    (after (sh.take n)).2 ≠ 0 := by decide +kernel

/-- exact version: a proper non-empty prefix of a shape that is not itself a shape ends inside a group -/
theorem F_trunc_exact : ∀ sh ∈ shapes, ∀ n < sh.length, 1 ≤ n → sh.take n ∉ shapes →
    (after (sh.take n)).2 ≠ 0 := by decide +kernel

theorem F_env : ∀ sh ∈ shapes, endsEnv sh = true →
    (after sh).1 = 3 ∧ (sh.length = 11 ∨ sh.length = 14) := by decide +kernel

/-- the last element of a vector ending with the environmental group, repeated -/
theorem F_env_last : ∀ sh ∈ shapes, endsEnv sh = true →
    sh.take (sh.length - 1) ++ [sh.getD (sh.length - 1) []] = sh := by decide +kernel

end Proofs.Parse2
