import Cvss.Proofs.Mono4All
import Cvss.Proofs.Mono4Cover36
import Cvss.Spec.V4Lemmas
/-!
# v4.0 monotonicity on effective values (Spec level)

`effMono_X`: for a vector of legal effective values, replacing the value of ONE metric `X` by an at least as
severe legal value does not decrease `Spec.V4.scoreE`. From the coverage of the transition lists
(`Mono4Cover`), the monotonicity tables and the primitive form of `scoreOf` (`Mono4All`).
-/
namespace Proofs.Mono4
open Spec Spec.V4

/-- every effective value is a legal effective value of its metric -/
structure LegalE (e : Eff) : Prop where
  AV : e.AV ∈ Vof "AV"
  AC : e.AC ∈ Vof "AC"
  AT : e.AT ∈ Vof "AT"
  PR : e.PR ∈ Vof "PR"
  UI : e.UI ∈ Vof "UI"
  VC : e.VC ∈ Vof "VC"
  VI : e.VI ∈ Vof "VI"
  VA : e.VA ∈ Vof "VA"
  SC : e.SC ∈ Vof "SC"
  SI : e.SI ∈ Vof "SI"
  SA : e.SA ∈ Vof "SA"
  E : e.E ∈ Vof "E"
  CR : e.CR ∈ Vof "CR"
  IR : e.IR ∈ Vof "IR"
  AR : e.AR ∈ Vof "AR"

theorem eq5_mem (x : Bytes) : eq5 x ∈ S5 := by
  unfold eq5 S5
  split
  · simp
  · split <;> simp

theorem dist5_eq_zero {x : Bytes} (h : x ∈ Vof "E") : dist5 x = 0 := by
  have := List.all_eq_true.mp dist5_zero x h
  simpa using this

theorem mem_of_contains {σ : Type} [BEq σ] [LawfulBEq σ] {S : List σ} {s : σ} (h : S.contains s = true) : s ∈ S :=
  List.contains_iff_mem.mp h

/-- the Spec's score on legal effective values, in primitive form on the group summaries -/
theorem scoreE_sum (e : Eff) (h : LegalE e) :
    scoreE e = (if noImpact e = true then 0 else
      scoreSum (sum1 e.AV e.PR e.UI) (sum2 e.AC e.AT) (sum36 e.VC e.VI e.VA e.CR e.IR e.AR) (sum4 e.SC e.SI e.SA) (eq5 e.E)) ∧
    sum1 e.AV e.PR e.UI ∈ S1 ∧ sum2 e.AC e.AT ∈ S2 ∧ sum36 e.VC e.VI e.VA e.CR e.IR e.AR ∈ S36 ∧
    sum4 e.SC e.SI e.SA ∈ S4 ∧ (noImpact e = false → 1 ≤ scoreE e) := by
  have m1 := mem_of_contains (cov1_at h.AV h.PR h.UI).1
  have m2 := mem_of_contains (cov2_at h.AC h.AT).1
  have m36 := mem_of_contains (cov36_at h.VC h.VI h.VA h.CR h.IR h.AR).1
  have m4 := mem_of_contains (cov4_at h.SC h.SI h.SA).1
  have hb := bridge_sum m1 m2 m36 m4 (eq5_mem e.E)
  have hE : scoreE e = (if noImpact e = true then 0 else
      scoreSum (sum1 e.AV e.PR e.UI) (sum2 e.AC e.AT) (sum36 e.VC e.VI e.VA e.CR e.IR e.AR) (sum4 e.SC e.SI e.SA) (eq5 e.E)) := by
    unfold scoreE
    split
    · rfl
    · rw [dist5_eq_zero h.E]
      exact hb.1
  refine ⟨hE, m1, m2, m36, m4, ?_⟩
  intro hn
  rw [hE, hn]
  exact hb.2

theorem ite_le {p q : Bool} {a b : Nat} (hq : q = true → p = true) (hab : p = false → q = false → a ≤ b) :
    (if p = true then 0 else a) ≤ (if q = true then 0 else b) := by
  cases p <;> cases q <;> simp_all

theorem effMono_AV (e : Eff) (x : Bytes) (h : LegalE e) (hx : x ∈ Vof "AV")
    (hs : sev (b "AV") x ≤ sev (b "AV") e.AV) : scoreE e ≤ scoreE { e with AV := x } := by
  have h' : LegalE { e with AV := x } := { h with AV := hx }
  obtain ⟨⟨t, ht, e1, e2⟩, himp⟩ := stepOk_elim (cov1_at h.AV h.PR h.UI).2.1 hx hs
  obtain ⟨hE, ms⟩ := scoreE_sum e h
  obtain ⟨hE', _⟩ := scoreE_sum _ h'
  rw [hE, hE']
  apply ite_le
  · intro hq; exact hq
  · intro _ _
    show scoreSum _ _ _ _ _ ≤ scoreSum _ _ _ _ _
    have := mono1 ms.2.1 ms.2.2.1 ms.2.2.2.1 (eq5_mem e.E) ht
    rw [e1, e2] at this
    exact this

theorem effMono_PR (e : Eff) (x : Bytes) (h : LegalE e) (hx : x ∈ Vof "PR")
    (hs : sev (b "PR") x ≤ sev (b "PR") e.PR) : scoreE e ≤ scoreE { e with PR := x } := by
  have h' : LegalE { e with PR := x } := { h with PR := hx }
  obtain ⟨⟨t, ht, e1, e2⟩, himp⟩ := stepOk_elim (cov1_at h.AV h.PR h.UI).2.2.1 hx hs
  obtain ⟨hE, ms⟩ := scoreE_sum e h
  obtain ⟨hE', _⟩ := scoreE_sum _ h'
  rw [hE, hE']
  apply ite_le
  · intro hq; exact hq
  · intro _ _
    show scoreSum _ _ _ _ _ ≤ scoreSum _ _ _ _ _
    have := mono1 ms.2.1 ms.2.2.1 ms.2.2.2.1 (eq5_mem e.E) ht
    rw [e1, e2] at this
    exact this

theorem effMono_UI (e : Eff) (x : Bytes) (h : LegalE e) (hx : x ∈ Vof "UI")
    (hs : sev (b "UI") x ≤ sev (b "UI") e.UI) : scoreE e ≤ scoreE { e with UI := x } := by
  have h' : LegalE { e with UI := x } := { h with UI := hx }
  obtain ⟨⟨t, ht, e1, e2⟩, himp⟩ := stepOk_elim (cov1_at h.AV h.PR h.UI).2.2.2 hx hs
  obtain ⟨hE, ms⟩ := scoreE_sum e h
  obtain ⟨hE', _⟩ := scoreE_sum _ h'
  rw [hE, hE']
  apply ite_le
  · intro hq; exact hq
  · intro _ _
    show scoreSum _ _ _ _ _ ≤ scoreSum _ _ _ _ _
    have := mono1 ms.2.1 ms.2.2.1 ms.2.2.2.1 (eq5_mem e.E) ht
    rw [e1, e2] at this
    exact this

theorem effMono_AC (e : Eff) (x : Bytes) (h : LegalE e) (hx : x ∈ Vof "AC")
    (hs : sev (b "AC") x ≤ sev (b "AC") e.AC) : scoreE e ≤ scoreE { e with AC := x } := by
  have h' : LegalE { e with AC := x } := { h with AC := hx }
  obtain ⟨⟨t, ht, e1, e2⟩, himp⟩ := stepOk_elim (cov2_at h.AC h.AT).2.1 hx hs
  obtain ⟨hE, ms⟩ := scoreE_sum e h
  obtain ⟨hE', _⟩ := scoreE_sum _ h'
  rw [hE, hE']
  apply ite_le
  · intro hq; exact hq
  · intro _ _
    show scoreSum _ _ _ _ _ ≤ scoreSum _ _ _ _ _
    have := mono2 ms.1 ms.2.2.1 ms.2.2.2.1 (eq5_mem e.E) ht
    rw [e1, e2] at this
    exact this

theorem effMono_AT (e : Eff) (x : Bytes) (h : LegalE e) (hx : x ∈ Vof "AT")
    (hs : sev (b "AT") x ≤ sev (b "AT") e.AT) : scoreE e ≤ scoreE { e with AT := x } := by
  have h' : LegalE { e with AT := x } := { h with AT := hx }
  obtain ⟨⟨t, ht, e1, e2⟩, himp⟩ := stepOk_elim (cov2_at h.AC h.AT).2.2 hx hs
  obtain ⟨hE, ms⟩ := scoreE_sum e h
  obtain ⟨hE', _⟩ := scoreE_sum _ h'
  rw [hE, hE']
  apply ite_le
  · intro hq; exact hq
  · intro _ _
    show scoreSum _ _ _ _ _ ≤ scoreSum _ _ _ _ _
    have := mono2 ms.1 ms.2.2.1 ms.2.2.2.1 (eq5_mem e.E) ht
    rw [e1, e2] at this
    exact this

theorem effMono_VC (e : Eff) (x : Bytes) (h : LegalE e) (hx : x ∈ Vof "VC")
    (hs : sev (b "VC") x ≤ sev (b "VC") e.VC) : scoreE e ≤ scoreE { e with VC := x } := by
  have h' : LegalE { e with VC := x } := { h with VC := hx }
  obtain ⟨⟨t, ht, e1, e2⟩, himp⟩ := stepOk_elim (cov36_at h.VC h.VI h.VA h.CR h.IR h.AR).2.1 hx hs
  obtain ⟨hE, ms⟩ := scoreE_sum e h
  obtain ⟨hE', _⟩ := scoreE_sum _ h'
  rw [hE, hE']
  apply ite_le
  · intro hq
    unfold noImpact at hq ⊢
    simp only [Bool.and_eq_true] at hq ⊢
    have := himp rfl (by first | exact hq.1.1.1.1.1 | exact hq.1.1.1.1.2 | exact hq.1.1.1.2 | exact hq.1.1.2 | exact hq.1.2 | exact hq.2)
    simp_all
  · intro _ _
    show scoreSum _ _ _ _ _ ≤ scoreSum _ _ _ _ _
    have := mono36 ms.1 ms.2.1 ms.2.2.2.1 (eq5_mem e.E) ht
    rw [e1, e2] at this
    exact this

theorem effMono_VI (e : Eff) (x : Bytes) (h : LegalE e) (hx : x ∈ Vof "VI")
    (hs : sev (b "VI") x ≤ sev (b "VI") e.VI) : scoreE e ≤ scoreE { e with VI := x } := by
  have h' : LegalE { e with VI := x } := { h with VI := hx }
  obtain ⟨⟨t, ht, e1, e2⟩, himp⟩ := stepOk_elim (cov36_at h.VC h.VI h.VA h.CR h.IR h.AR).2.2.1 hx hs
  obtain ⟨hE, ms⟩ := scoreE_sum e h
  obtain ⟨hE', _⟩ := scoreE_sum _ h'
  rw [hE, hE']
  apply ite_le
  · intro hq
    unfold noImpact at hq ⊢
    simp only [Bool.and_eq_true] at hq ⊢
    have := himp rfl (by first | exact hq.1.1.1.1.1 | exact hq.1.1.1.1.2 | exact hq.1.1.1.2 | exact hq.1.1.2 | exact hq.1.2 | exact hq.2)
    simp_all
  · intro _ _
    show scoreSum _ _ _ _ _ ≤ scoreSum _ _ _ _ _
    have := mono36 ms.1 ms.2.1 ms.2.2.2.1 (eq5_mem e.E) ht
    rw [e1, e2] at this
    exact this

theorem effMono_VA (e : Eff) (x : Bytes) (h : LegalE e) (hx : x ∈ Vof "VA")
    (hs : sev (b "VA") x ≤ sev (b "VA") e.VA) : scoreE e ≤ scoreE { e with VA := x } := by
  have h' : LegalE { e with VA := x } := { h with VA := hx }
  obtain ⟨⟨t, ht, e1, e2⟩, himp⟩ := stepOk_elim (cov36_at h.VC h.VI h.VA h.CR h.IR h.AR).2.2.2.1 hx hs
  obtain ⟨hE, ms⟩ := scoreE_sum e h
  obtain ⟨hE', _⟩ := scoreE_sum _ h'
  rw [hE, hE']
  apply ite_le
  · intro hq
    unfold noImpact at hq ⊢
    simp only [Bool.and_eq_true] at hq ⊢
    have := himp rfl (by first | exact hq.1.1.1.1.1 | exact hq.1.1.1.1.2 | exact hq.1.1.1.2 | exact hq.1.1.2 | exact hq.1.2 | exact hq.2)
    simp_all
  · intro _ _
    show scoreSum _ _ _ _ _ ≤ scoreSum _ _ _ _ _
    have := mono36 ms.1 ms.2.1 ms.2.2.2.1 (eq5_mem e.E) ht
    rw [e1, e2] at this
    exact this

theorem effMono_CR (e : Eff) (x : Bytes) (h : LegalE e) (hx : x ∈ Vof "CR")
    (hs : sev (b "CR") x ≤ sev (b "CR") e.CR) : scoreE e ≤ scoreE { e with CR := x } := by
  have h' : LegalE { e with CR := x } := { h with CR := hx }
  obtain ⟨⟨t, ht, e1, e2⟩, himp⟩ := stepOk_elim (cov36_at h.VC h.VI h.VA h.CR h.IR h.AR).2.2.2.2.1 hx hs
  obtain ⟨hE, ms⟩ := scoreE_sum e h
  obtain ⟨hE', _⟩ := scoreE_sum _ h'
  rw [hE, hE']
  apply ite_le
  · intro hq; exact hq
  · intro _ _
    show scoreSum _ _ _ _ _ ≤ scoreSum _ _ _ _ _
    have := mono36 ms.1 ms.2.1 ms.2.2.2.1 (eq5_mem e.E) ht
    rw [e1, e2] at this
    exact this

theorem effMono_IR (e : Eff) (x : Bytes) (h : LegalE e) (hx : x ∈ Vof "IR")
    (hs : sev (b "IR") x ≤ sev (b "IR") e.IR) : scoreE e ≤ scoreE { e with IR := x } := by
  have h' : LegalE { e with IR := x } := { h with IR := hx }
  obtain ⟨⟨t, ht, e1, e2⟩, himp⟩ := stepOk_elim (cov36_at h.VC h.VI h.VA h.CR h.IR h.AR).2.2.2.2.2.1 hx hs
  obtain ⟨hE, ms⟩ := scoreE_sum e h
  obtain ⟨hE', _⟩ := scoreE_sum _ h'
  rw [hE, hE']
  apply ite_le
  · intro hq; exact hq
  · intro _ _
    show scoreSum _ _ _ _ _ ≤ scoreSum _ _ _ _ _
    have := mono36 ms.1 ms.2.1 ms.2.2.2.1 (eq5_mem e.E) ht
    rw [e1, e2] at this
    exact this

theorem effMono_AR (e : Eff) (x : Bytes) (h : LegalE e) (hx : x ∈ Vof "AR")
    (hs : sev (b "AR") x ≤ sev (b "AR") e.AR) : scoreE e ≤ scoreE { e with AR := x } := by
  have h' : LegalE { e with AR := x } := { h with AR := hx }
  obtain ⟨⟨t, ht, e1, e2⟩, himp⟩ := stepOk_elim (cov36_at h.VC h.VI h.VA h.CR h.IR h.AR).2.2.2.2.2.2 hx hs
  obtain ⟨hE, ms⟩ := scoreE_sum e h
  obtain ⟨hE', _⟩ := scoreE_sum _ h'
  rw [hE, hE']
  apply ite_le
  · intro hq; exact hq
  · intro _ _
    show scoreSum _ _ _ _ _ ≤ scoreSum _ _ _ _ _
    have := mono36 ms.1 ms.2.1 ms.2.2.2.1 (eq5_mem e.E) ht
    rw [e1, e2] at this
    exact this

theorem effMono_SC (e : Eff) (x : Bytes) (h : LegalE e) (hx : x ∈ Vof "SC")
    (hs : sev (b "SC") x ≤ sev (b "SC") e.SC) : scoreE e ≤ scoreE { e with SC := x } := by
  have h' : LegalE { e with SC := x } := { h with SC := hx }
  obtain ⟨⟨t, ht, e1, e2⟩, himp⟩ := stepOk_elim (cov4_at h.SC h.SI h.SA).2.1 hx hs
  obtain ⟨hE, ms⟩ := scoreE_sum e h
  obtain ⟨hE', _⟩ := scoreE_sum _ h'
  rw [hE, hE']
  apply ite_le
  · intro hq
    unfold noImpact at hq ⊢
    simp only [Bool.and_eq_true] at hq ⊢
    have := himp rfl (by first | exact hq.1.1.1.1.1 | exact hq.1.1.1.1.2 | exact hq.1.1.1.2 | exact hq.1.1.2 | exact hq.1.2 | exact hq.2)
    simp_all
  · intro _ _
    show scoreSum _ _ _ _ _ ≤ scoreSum _ _ _ _ _
    have := mono4 ms.1 ms.2.1 ms.2.2.1 (eq5_mem e.E) ht
    rw [e1, e2] at this
    exact this

theorem effMono_SI (e : Eff) (x : Bytes) (h : LegalE e) (hx : x ∈ Vof "SI")
    (hs : sev (b "SI") x ≤ sev (b "SI") e.SI) : scoreE e ≤ scoreE { e with SI := x } := by
  have h' : LegalE { e with SI := x } := { h with SI := hx }
  obtain ⟨⟨t, ht, e1, e2⟩, himp⟩ := stepOk_elim (cov4_at h.SC h.SI h.SA).2.2.1 hx hs
  obtain ⟨hE, ms⟩ := scoreE_sum e h
  obtain ⟨hE', _⟩ := scoreE_sum _ h'
  rw [hE, hE']
  apply ite_le
  · intro hq
    unfold noImpact at hq ⊢
    simp only [Bool.and_eq_true] at hq ⊢
    have := himp rfl (by first | exact hq.1.1.1.1.1 | exact hq.1.1.1.1.2 | exact hq.1.1.1.2 | exact hq.1.1.2 | exact hq.1.2 | exact hq.2)
    simp_all
  · intro _ _
    show scoreSum _ _ _ _ _ ≤ scoreSum _ _ _ _ _
    have := mono4 ms.1 ms.2.1 ms.2.2.1 (eq5_mem e.E) ht
    rw [e1, e2] at this
    exact this

theorem effMono_SA (e : Eff) (x : Bytes) (h : LegalE e) (hx : x ∈ Vof "SA")
    (hs : sev (b "SA") x ≤ sev (b "SA") e.SA) : scoreE e ≤ scoreE { e with SA := x } := by
  have h' : LegalE { e with SA := x } := { h with SA := hx }
  obtain ⟨⟨t, ht, e1, e2⟩, himp⟩ := stepOk_elim (cov4_at h.SC h.SI h.SA).2.2.2 hx hs
  obtain ⟨hE, ms⟩ := scoreE_sum e h
  obtain ⟨hE', _⟩ := scoreE_sum _ h'
  rw [hE, hE']
  apply ite_le
  · intro hq
    unfold noImpact at hq ⊢
    simp only [Bool.and_eq_true] at hq ⊢
    have := himp rfl (by first | exact hq.1.1.1.1.1 | exact hq.1.1.1.1.2 | exact hq.1.1.1.2 | exact hq.1.1.2 | exact hq.1.2 | exact hq.2)
    simp_all
  · intro _ _
    show scoreSum _ _ _ _ _ ≤ scoreSum _ _ _ _ _
    have := mono4 ms.1 ms.2.1 ms.2.2.1 (eq5_mem e.E) ht
    rw [e1, e2] at this
    exact this

/-- EQ5 transitions: a more severe E value has a lower or equal level -/
def cov5 : Bool := (Vof "E").all fun e => (Vof "E").all fun x =>
  !(Nat.ble (sev (b "E") x) (sev (b "E") e)) || tr5.contains (eq5 e, eq5 x)
theorem cov5_ok : cov5 = true := by decide +kernel

theorem effMono_E (e : Eff) (x : Bytes) (h : LegalE e) (hx : x ∈ Vof "E")
    (hs : sev (b "E") x ≤ sev (b "E") e.E) : scoreE e ≤ scoreE { e with E := x } := by
  have h' : LegalE { e with E := x } := { h with E := hx }
  have hc := List.all_eq_true.mp (List.all_eq_true.mp cov5_ok e.E h.E) x hx
  rw [Nat.ble_eq_true_of_le hs] at hc
  simp only [Bool.not_true, Bool.false_or, List.contains_iff_mem] at hc
  obtain ⟨hE, ms⟩ := scoreE_sum e h
  obtain ⟨hE', _⟩ := scoreE_sum _ h'
  rw [hE, hE']
  apply ite_le
  · intro hq; exact hq
  · intro _ _
    show scoreSum _ _ _ _ _ ≤ scoreSum _ _ _ _ _
    have hlt : ∀ y : Bytes, eq5 y < 3 := fun y => by
      have := eq5_mem y; simp only [S5, List.mem_cons, List.not_mem_nil, or_false] at this; omega
    have hg : ∀ n, n < 3 → S5.getD n 0 = n := by decide
    have := mono5 ms.1 ms.2.1 ms.2.2.1 ms.2.2.2.1 hc
    rw [hg _ (hlt _), hg _ (hlt _)] at this
    exact this

end Proofs.Mono4
