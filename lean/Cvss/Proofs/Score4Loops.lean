import Cvss.Proofs.Score4Nest
/-!
# The loops of v4.0 `Score` in separable form

The body of the innermost loop (`body`, a piece of the generated `Score_core`) rejects a combination of
highest severity vectors when one of 14 severity distances is negative; the 14 tests fall into four groups,
one per loop variable, and the payload is a tuple with one component per loop variable. `loops_eq` is
`nest_eq` instantiated on it.
-/
set_option maxRecDepth 100000
namespace Proofs.Score4
open GenV40

/-- decimal digit extraction as the generated code does it: `uint8((x % m) / d)` -/
def dig (x m d : Nat) : Nat := Nat.mod (Nat.div (Nat.mod x m) d) 256

def Z : Nat := (0x0000000000000000 : Nat)

/-! EQ1: AV (metric 0), PR (3), UI (4) -/
def bad1 (av pr ui x : Nat) : Bool :=
  ((F64.lt (severityDistance 0 av (dig x 1000 100)) Z) || (F64.lt (severityDistance 3 pr (dig x 100 10)) Z)) ||
    (F64.lt (severityDistance 4 ui (dig x 10 1)) Z)
def pay1 (av pr ui x : Nat) : Nat :=
  F64.add (F64.add (severityDistance 0 av (dig x 1000 100)) (severityDistance 3 pr (dig x 100 10)))
    (severityDistance 4 ui (dig x 10 1))

/-! EQ2: AC (1), AT (2) -/
def bad2 (ac at_ x : Nat) : Bool :=
  (F64.lt (severityDistance 1 ac (dig x 100 10)) Z) || (F64.lt (severityDistance 2 at_ (dig x 10 1)) Z)
def pay2 (ac at_ x : Nat) : Nat :=
  F64.add (severityDistance 1 ac (dig x 100 10)) (severityDistance 2 at_ (dig x 10 1))

/-! EQ3+EQ6: VC (5), VI (6), VA (7), CR (12), IR (13), AR (14) -/
def bad36 (vc vi va cr ir ar x : Nat) : Bool :=
  (((((F64.lt (severityDistance 5 vc (dig x 1000000 100000)) Z) || (F64.lt (severityDistance 6 vi (dig x 100000 10000)) Z)) ||
    (F64.lt (severityDistance 7 va (dig x 10000 1000)) Z)) || (F64.lt (severityDistance 12 cr (dig x 1000 100)) Z)) ||
    (F64.lt (severityDistance 13 ir (dig x 100 10)) Z)) || (F64.lt (severityDistance 14 ar (dig x 10 1)) Z)
def pay36 (vc vi va cr ir ar x : Nat) : Nat :=
  F64.add (F64.add (F64.add (F64.add (F64.add (severityDistance 5 vc (dig x 1000000 100000))
    (severityDistance 6 vi (dig x 100000 10000))) (severityDistance 7 va (dig x 10000 1000)))
    (severityDistance 12 cr (dig x 1000 100))) (severityDistance 13 ir (dig x 100 10)))
    (severityDistance 14 ar (dig x 10 1))

/-! EQ4: SC (8), SI (9), SA (10) -/
def bad4 (sc si sa x : Nat) : Bool :=
  ((F64.lt (severityDistance 8 sc (dig x 1000 100)) Z) || (F64.lt (severityDistance 9 si (dig x 100 10)) Z)) ||
    (F64.lt (severityDistance 10 sa (dig x 10 1)) Z)
def pay4 (sc si sa x : Nat) : Nat :=
  F64.add (F64.add (severityDistance 8 sc (dig x 1000 100)) (severityDistance 9 si (dig x 100 10)))
    (severityDistance 10 sa (dig x 10 1))

/-- regrouping the 14 tests by loop variable -/
theorem or14 (av pr ui ac at_ vc vi va sc si sa cr ir ar : Bool) :
    (((((((((((((av || pr) || ui) || ac) || at_) || vc) || vi) || va) || sc) || si) || sa) || cr) || ir) || ar) =
    (((((av || pr) || ui) || (ac || at_)) || ((((((vc || vi) || va) || cr) || ir) || ar))) || ((sc || si) || sa)) := by
  cases av <;> cases pr <;> cases ui <;> cases ac <;> cases at_ <;> simp <;>
  cases vc <;> cases vi <;> cases va <;> simp <;> cases sc <;> cases si <;> cases sa <;> simp

theorem body_eq (av ac at_ pr ui vc vi va sc si sa cr ir ar : Nat) (x1 x2 x3 x4 : Nat) (st : S) :
    body av ac at_ pr ui vc vi va sc si sa cr ir ar x1 x2 x3 x4 st =
      cond (bad1 av pr ui x1 || bad2 ac at_ x2 || bad36 vc vi va cr ir ar x3 || bad4 sc si sa x4)
        (Go.Ctl.next st)
        (Go.Ctl.brk (pay1 av pr ui x1, pay2 ac at_ x2, pay36 vc vi va cr ir ar x3, pay4 sc si sa x4, Z)) := by
  obtain ⟨a, b, c, d, e⟩ := st
  unfold body
  simp only [flet_eq]
  rw [or14]
  rfl

/-- **the loops of `Score`**: last good highest severity vector of EQ1, EQ2, EQ3+EQ6, first good one of EQ4 -/
theorem loops_eq (av ac at_ pr ui vc vi va sc si sa cr ir ar : Nat) (eq1 eq2 eq3 eq4 eq6 : Nat)
    (x1 x2 x3 x4 : Nat)
    (h1 : lastSat (fun x => !bad1 av pr ui x) (Go.idx (Go.idx tbl_highestSeverityVectors 1) eq1) = some x1)
    (h2 : lastSat (fun x => !bad2 ac at_ x) (Go.idx (Go.idx tbl_highestSeverityVectors 2) eq2) = some x2)
    (h3 : lastSat (fun x => !bad36 vc vi va cr ir ar x) (Go.idx (Go.idx tbl_highestSeverityVectorsEQ3EQ6 eq3) eq6) = some x3)
    (h4 : (Go.idx (Go.idx tbl_highestSeverityVectors 4) eq4).find? (fun x => !bad4 sc si sa x) = some x4) :
    loops av ac at_ pr ui vc vi va sc si sa cr ir ar eq1 eq2 eq3 eq4 eq6 =
      Go.Ctl.next (pay1 av pr ui x1, pay2 ac at_ x2, pay36 vc vi va cr ir ar x3, pay4 sc si sa x4, Z) := by
  unfold loops
  exact nest_eq _ (bad1 av pr ui) (bad2 ac at_) (bad36 vc vi va cr ir ar) (bad4 sc si sa)
    (fun x1 x2 x3 x4 => (pay1 av pr ui x1, pay2 ac at_ x2, pay36 vc vi va cr ir ar x3, pay4 sc si sa x4, Z))
    (body_eq av ac at_ pr ui vc vi va sc si sa cr ir ar) _ _ _ _ x1 x2 x3 x4 h1 h2 h3 h4 _

end Proofs.Score4
