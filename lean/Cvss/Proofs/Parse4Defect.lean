import Cvss.Proofs.Parse4Main
import Cvss.Spec.Errors
import Cvss.Proofs.DefectMove
/-!
# v4.0 parser proofs, part 6: the documented error values (C18)

One lemma per defect kind of `Spec.Defect`, on a valid witness list, then `defect_v4` dispatching
`Defect.apply .v40`.
-/
namespace Proofs.P4
open Spec (Pair render SLASH COLON legal isMetric allLegal abvs Metric)
open Model (Bytes O40 Res walk4 cutColon splitSlash)

/-! ## order-walk facts used by the defects -/

theorem walkAll_prefix {ord o : Ord} {xs ys : List Bytes} (h : walkAll ord (xs ++ ys) = some o) :
    ∃ mid, walkAll ord xs = some mid ∧ walkAll mid ys = some o := by
  rw [walkAll_append] at h
  cases hx : walkAll ord xs with
  | none => rw [hx] at h; simp at h
  | some mid => rw [hx] at h; exact ⟨mid, rfl, h⟩

/-- every abbreviation a successful walk consumed occurs in the order -/
theorem walkAll_mem : ∀ {xs : List Bytes} {ord o : Ord}, walkAll ord xs = some o → ∀ a ∈ xs, a ∈ ord.map (·.2)
  | [], _, _, _, a, ha => by simp at ha
  | x :: xs, ord, o, h, a, ha => by
    rw [walkAll_cons] at h
    cases hw : walk4 ord x with
    | none => rw [hw] at h; simp at h
    | some o1 =>
      rw [hw] at h
      simp only [Option.bind_some] at h
      obtain ⟨pre, t, e⟩ := walk4_some hw
      rcases List.mem_cons.mp ha with e' | e'
      · subst e'; rw [e]; simp
      · have := walkAll_mem h a e'
        rw [e]
        simp only [List.map_append, List.map_cons, List.mem_append, List.mem_cons]
        exact Or.inr (Or.inr this)

theorem ord0_names : ord0.map (·.2) = abvs Spec.V4.metrics := by
  rw [abvs_metrics]; simp [mk, Function.comp_def]

/-- a walk over at least eleven abbreviations succeeds only on a sub-sequence of the metric table -/
theorem walk_long_sublist {names : List Bytes} {o : Ord} (h : walkAll ord0 names = some o) (hlen : 11 ≤ names.length) :
    names.Sublist (abvs Spec.V4.metrics) := by
  rcases walkAll_some _ _ names o h with ⟨h1, _⟩ | ⟨opt, h1, h2, _⟩
  · rw [base_length] at h1; omega
  · rw [h1, abvs_metrics]; exact List.Sublist.append (List.Sublist.refl _) h2

/-- position in the metric table orders the abbreviations -/
theorem rank_sorted : (abvs Spec.V4.metrics).Pairwise
    (fun a b => (abvs Spec.V4.metrics).idxOf a < (abvs Spec.V4.metrics).idxOf b) := by decide

section K
variable (K : Contract O40 Spec.V4.metrics)

/-- all pairs legal but the abbreviations do not walk: `ErrInvalidMetricOrder` -/
theorem runP_legal_none : ∀ (w : List Pair) (c : O40) (ord : Ord), allLegal Spec.V4.metrics w →
    walkAll ord (w.map (·.1)) = none → runP K.set w c ord = .error Model.eOrder
  | [], _, _, _, h => by simp at h
  | p :: w, c, ord, hl, h => by
    rw [List.map_cons, walkAll_cons] at h
    rw [runP_cons]
    cases hw : walk4 ord p.1 with
    | none => rfl
    | some o1 =>
      rw [hw] at h
      simp only [Option.bind_some] at h
      simp only
      rw [if_pos ((set_nil_iff K c p.1 p.2).mpr (hl p (by simp)))]
      exact runP_legal_none w _ o1 (fun q hq => hl q (List.mem_cons_of_mem _ hq)) h

/-! ## the defects -/

theorem err_header {s : Bytes} (h : ¬ Spec.V4.header.isPrefixOf s = true) : parseK K s = .err Model.eHeader := by
  rw [parseK_unfold, if_neg h]

/-- header defect in the Spec's terms: the part of the string before its first `/` is not `CVSS:4.0`
    (no header, another header, or the header followed by junk) -/
theorem err_header_headOf {s : Bytes} (h : Spec.headOf s ≠ Spec.V4.header) : parseK K s = .err Model.eHeader := by
  have hh : SLASH ∉ Spec.V4.header := by decide
  rcases parseK_cases K s with ⟨_, e⟩ | ⟨hs, _⟩ | ⟨_, _, _, _, e⟩ | ⟨r, hs, _⟩
  · exact e
  · exact absurd ((Spec.headOf_eq_iff s _ hh).mpr (Or.inl hs)) h
  · exact e
  · exact absurd ((Spec.headOf_eq_iff s _ hh).mpr (Or.inr ⟨r, by rw [hs]; simp⟩)) h

theorem getElem?_split {w : List Pair} {i : Nat} {p : Pair} (h : w[i]? = some p) :
    i < w.length ∧ w = w.take i ++ p :: w.drop (i + 1) := by
  obtain ⟨hi, e⟩ := List.getElem?_eq_some_iff.mp h
  refine ⟨hi, ?_⟩
  rw [← e, ← List.drop_eq_getElem_cons hi, List.take_append_drop]

theorem err_illegal {w : List Pair} (hv : Valid w) {i : Nat} {a x v : Bytes} (hi : w[i]? = some (a, x))
    (hl : legal Spec.V4.metrics a v = false) (hs : SLASH ∉ v) :
    parseK K (Spec.V4.header ++ body (w.set i (a, v))) = .err Model.eValue := by
  obtain ⟨hlt, hw⟩ := getElem?_split hi
  have hax : legal Spec.V4.metrics a x = true := hv.1 (a, x) (List.mem_of_getElem? hi)
  obtain ⟨c1, c2, _, _⟩ := legal_clean (p := (a, x)) hax
  rw [List.set_eq_take_append_cons_drop, if_pos hlt]
  have hpre : allLegal Spec.V4.metrics (w.take i) := fun q hq => hv.1 q (List.mem_of_mem_take hq)
  rw [parseK_render]
  · obtain ⟨o, ho, _⟩ := hv.walk
    have hnames : (w.map (·.1)) = ((w.take i ++ [((a, v) : Pair)]).map (·.1)) ++ (w.drop (i + 1)).map (·.1) := by
      conv => lhs; rw [hw]
      simp
    rw [hnames] at ho
    obtain ⟨mid, hmid, _⟩ := walkAll_prefix ho
    rw [runP_value_err K (w.take i) (a, v) (w.drop (i + 1)) K.zero ord0 mid hpre hmid (isMetric_of_legal hax) hl]
    rfl
  · intro q hq
    rcases List.mem_append.mp hq with e | e
    · exact hv.lex q (List.mem_of_mem_take e)
    · rcases List.mem_cons.mp e with e | e
      · subst e; exact ⟨c1, noslash_render c2 hs⟩
      · exact hv.lex q (List.mem_of_mem_drop e)

/-- legal pairs, at least eleven of them, whose abbreviations are not a sub-sequence of the table -/
theorem err_order_of_legal {w' : List Pair} (hl : allLegal Spec.V4.metrics w') (hlen : 11 ≤ w'.length)
    (hns : ¬ (w'.map (·.1)).Sublist (abvs Spec.V4.metrics)) :
    parseK K (Spec.V4.header ++ body w') = .err Model.eOrder := by
  rw [parseK_render K w' (fun q hq => lex_of_legal (hl q hq))]
  cases hw : walkAll ord0 (w'.map (·.1)) with
  | none => rw [runP_legal_none K w' K.zero ord0 hl hw]; rfl
  | some o => exact absurd (walk_long_sublist hw (by simpa using hlen)) hns

theorem err_repeated {w : List Pair} (hv : Valid w) {i j : Nat} {a x v : Bytes} (hi : w[i]? = some (a, x))
    (hl : legal Spec.V4.metrics a v = true) :
    parseK K (Spec.V4.header ++ body (Spec.insertAt w j (a, v))) = .err Model.eOrder := by
  have hlen := hv.length
  apply err_order_of_legal
  · intro q hq
    rcases List.mem_append.mp hq with e | e
    · exact hv.1 q (List.mem_of_mem_take e)
    · rcases List.mem_cons.mp e with e | e
      · subst e; exact hl
      · exact hv.1 q (List.mem_of_mem_drop e)
  · have : (Spec.insertAt w j (a, v)).length = (w.take j ++ w.drop j).length + 1 := by
      simp only [Spec.insertAt, List.length_append, List.length_cons]; omega
    rw [this, List.take_append_drop]; omega
  · intro hsub
    have hnd := hsub.nodup nodup_abvs
    simp only [Spec.insertAt, List.map_append, List.map_cons] at hnd
    have hmem : a ∈ (w.take j ++ w.drop j).map (·.1) := by
      rw [List.take_append_drop]
      exact List.mem_map.mpr ⟨(a, x), List.mem_of_getElem? hi, rfl⟩
    rw [List.map_append] at hmem
    obtain ⟨_, h2, h3⟩ := List.nodup_append.mp hnd
    rcases List.mem_append.mp hmem with e | e
    · exact h3 a e a (by simp) rfl
    · exact (List.nodup_cons.mp h2).1 e

theorem err_unknown {w : List Pair} (hv : Valid w) {j : Nat} {a v : Bytes}
    (ha : isMetric Spec.V4.metrics a = false) (hc : Spec.clean a = true) (hs : SLASH ∉ v) :
    parseK K (Spec.V4.header ++ body (Spec.insertAt w j (a, v))) = .err Model.eOrder := by
  have hca : SLASH ∉ a ∧ COLON ∉ a := by
    simpa [Spec.clean] using hc
  unfold Spec.insertAt
  rw [parseK_render]
  · rw [runP_order_err K (w.take j) (a, v) (w.drop j) K.zero ord0
      (fun q hq => hv.1 q (List.mem_of_mem_take hq))]
    · rfl
    · cases hw : walkAll ord0 ((w.take j ++ [((a, v) : Pair)]).map (·.1)) with
      | none => rfl
      | some o =>
        have := walkAll_mem hw a (by simp)
        rw [ord0_names] at this
        rw [isMetric_iff.mpr this] at ha
        exact absurd ha (by simp)
  · intro q hq
    rcases List.mem_append.mp hq with e | e
    · exact hv.lex q (List.mem_of_mem_take e)
    · rcases List.mem_cons.mp e with e | e
      · subst e; exact ⟨hca.2, noslash_render hca.1 hs⟩
      · exact hv.lex q (List.mem_of_mem_drop e)

theorem err_swap {w : List Pair} (hv : Valid w) {i : Nat} {p q : Pair} (hp : w[i]? = some p) (hq : w[i + 1]? = some q) :
    parseK K (Spec.V4.header ++ body ((w.set i q).set (i + 1) p)) = .err Model.eOrder := by
  obtain ⟨hi, ep⟩ := List.getElem?_eq_some_iff.mp hp
  obtain ⟨hi1, eq⟩ := List.getElem?_eq_some_iff.mp hq
  apply err_order_of_legal
  · intro x hx
    rcases List.mem_or_eq_of_mem_set hx with e | e
    · rcases List.mem_or_eq_of_mem_set e with e | e
      · exact hv.1 x e
      · subst e; exact hv.1 _ (List.mem_of_getElem? hq)
    · subst e; exact hv.1 _ (List.mem_of_getElem? hp)
  · simpa using hv.length
  · intro hsub
    have h1 := List.Pairwise.sublist hsub rank_sorted
    have h2 := List.Pairwise.sublist hv.names_sublist rank_sorted
    rw [List.pairwise_iff_getElem] at h1 h2
    have a1 := h1 i (i + 1) (by simpa using hi) (by simpa using hi1) (Nat.lt_succ_self i)
    have a2 := h2 i (i + 1) (by simpa using hi) (by simpa using hi1) (Nat.lt_succ_self i)
    simp only [List.getElem_map, List.getElem_set, ep, eq] at a1 a2
    simp at a1
    omega

/-- "misplaced", in general: element `i` taken out and put back at position `j ≠ i` -/
theorem err_move {w : List Pair} (hv : Valid w) {i j : Nat} {p : Pair} (hp : w[i]? = some p) (hji : j ≠ i)
    (hj : j < w.length) :
    parseK K (Spec.V4.header ++ body (Spec.insertAt (w.eraseIdx i) j p)) = .err Model.eOrder := by
  apply err_order_of_legal
  · intro x hx
    exact hv.1 x (Move.mem_moved hp hx)
  · rw [Move.length_moved hp]; exact hv.length
  · intro hsub
    have h1 := List.Pairwise.sublist hsub rank_sorted
    have h2 := List.Pairwise.sublist hv.names_sublist rank_sorted
    rw [Move.map_insertAt, Move.map_eraseIdx] at h1
    exact Move.moved_not_increasing (fun a => (abvs Spec.V4.metrics).idxOf a) h2 (i := i) (p := p.1)
      (by rw [List.getElem?_map, hp]; rfl) hji (by simpa using hj) h1

theorem err_truncate {w : List Pair} (hv : Valid w) {n : Nat} (hn : n < 11) :
    parseK K (Spec.V4.header ++ body (w.take n)) = .err Model.eTooShort := by
  rw [parseK_render K _ (fun q hq => hv.lex q (List.mem_of_mem_take hq))]
  have hleg : allLegal Spec.V4.metrics (w.take n) := fun q hq => hv.1 q (List.mem_of_mem_take hq)
  obtain ⟨_, opt, _, h2⟩ := hv
  have hnames : (w.take n).map (·.1) = (abvs Spec.V4.base).take n := by
    rw [List.map_take, h2, List.take_append_of_le_length (by rw [base_length]; omega)]
  have hwalk := walkAll_take (abvs Spec.V4.base) (abvs Spec.V4.optional) n
  rw [← hnames] at hwalk
  rw [runP_good K _ K.zero ord0 _ hleg hwalk]
  have hne : (abvs Spec.V4.base).drop n ≠ [] := by
    intro e
    have := congrArg List.length e
    simp only [List.length_drop, List.length_nil] at this
    rw [base_length] at this; omega
  cases hd : (abvs Spec.V4.base).drop n with
  | nil => exact absurd hd hne
  | cons x xs => simp [finish, any_mk_cons]

/-- **C18 (v4.0).** every applicable defect of a grammatical vector yields exactly the promised error -/
theorem defect_v4 {w : List Pair} (hv : Valid w) (d : Spec.Defect) (s : Bytes) (e : Spec.ErrVal)
    (h : d.apply .v40 w = some (s, e)) : parseK K s = .err ⟨e.1, e.2⟩ := by
  cases d with
  | header p =>
    simp only [Spec.Defect.apply, reduceCtorEq, if_false] at h
    split at h
    · simp at h
    · rename_i hp
      simp only [Option.some.injEq, Prod.mk.injEq] at h
      obtain ⟨rfl, rfl⟩ := h
      exact err_header_headOf K hp
  | illegalValue i v =>
    simp only [Spec.Defect.apply] at h
    split at h
    · simp at h
    · rename_i a x hi
      split at h
      · simp at h
      · rename_i hc
        simp only [Bool.or_eq_true, not_or, Bool.not_eq_true, List.contains_eq_mem, decide_eq_false_iff_not] at hc
        simp only [Option.some.injEq, Prod.mk.injEq] at h
        obtain ⟨rfl, rfl⟩ := h
        exact err_illegal K hv hi hc.1 hc.2
  | removeMandatory i =>
    simp only [Spec.Defect.apply] at h
    exact absurd h (by simp)
  | repeated i j v =>
    simp only [Spec.Defect.apply] at h
    split at h
    · simp at h
    · rename_i a x hi
      split at h
      · simp at h
      · rename_i hc
        have hl : legal Spec.V4.metrics a v = true := by
          cases hx : legal Spec.V4.metrics a v with
          | true => rfl
          | false =>
            have hx' : legal (Spec.Version.metrics .v40) a v = false := hx
            exact absurd (by simp [hx']) hc
        simp only [Option.some.injEq, Prod.mk.injEq] at h
        obtain ⟨rfl, rfl⟩ := h
        exact err_repeated K hv hi hl
  | unknown j a v =>
    simp only [Spec.Defect.apply] at h
    split at h
    · simp at h
    · rename_i hc
      have h1 : isMetric Spec.V4.metrics a = false := by
        cases hx : isMetric Spec.V4.metrics a with
        | false => rfl
        | true =>
          have hx' : isMetric (Spec.Version.metrics .v40) a = true := hx
          exact absurd (by simp [hx']) hc
      have h2 : Spec.clean a = true := by
        cases hx : Spec.clean a with
        | true => rfl
        | false => exact absurd (by simp [hx]) hc
      have h3 : SLASH ∉ v := by
        intro hx
        exact absurd (by simp [hx]) hc
      simp only [Option.some.injEq, Prod.mk.injEq] at h
      obtain ⟨rfl, rfl⟩ := h
      exact err_unknown K hv h1 h2 h3
  | swap i =>
    simp only [Spec.Defect.apply] at h
    split at h
    · simp at h
    · simp at h
    · rename_i p q hp hq _ _
      simp only [Option.some.injEq, Prod.mk.injEq] at h
      obtain ⟨rfl, rfl⟩ := h
      exact err_swap K hv hp hq
    · simp at h
  | truncate n =>
    simp only [Spec.Defect.apply] at h
    split at h
    · rename_i hn
      simp only [Option.some.injEq, Prod.mk.injEq] at h
      obtain ⟨rfl, rfl⟩ := h
      exact err_truncate K hv hn
    · simp at h
  | move i j =>
    simp only [Spec.Defect.apply] at h
    split at h
    · simp at h
    · rename_i p hp
      split at h
      · simp at h
      · rename_i hc
        simp only [Option.some.injEq, Prod.mk.injEq] at h
        obtain ⟨rfl, rfl⟩ := h
        exact err_move K hv hp (by omega) (by omega)

end K
end Proofs.P4
