import Cvss.Proofs.F64Order
import Cvss.Proofs.Score2Ok
import Cvss.Proofs.Score3CloseDef
/-!
# `F64.tenth k` IS the double nearest `k/10`; the three decoders of a bit pattern agree

All score theorems (C03, C04, C05, C11*) are stated as `score = F64.tenth K` with
`F64.tenth k := F64.div (F64.ofNat k) (F64.ofNat 10)`, described as "the double nearest `k/10`".  Three files
decode a bit pattern into an exact number by hand: `Spec.F64Val.ofBits` (`Spec/Rating.lean`, value
`num / 2^1075`, used by C15 and by `Proofs/F64Order.lean`), `Proofs.Score2.toRat` (`Score2Ok.lean`, used by
`closeTo`/`isNearest` of C05) and `Proofs.Score3.withinPow10` (`Score3CloseDef.lean`, used by `within12` of C03).

## What is proved here (kernel-checked; axioms `propext`, `Quot.sound`, `Classical.choice` only)

(a) `tenth_nearest : ∀ k ≤ 100, IsNearestTenth (F64.tenth k) k` where `IsNearestTenth x k` says: `x` decodes
    (`Spec.F64Val.ofBits`) to a finite value `num/2^1075`, and **every** 64-bit pattern (indeed every `Nat`)
    decoding to a different finite value is *strictly* farther from `k/10`
    (`|10·num − k·2^1075| < |10·m − k·2^1075|`): the value of `F64.tenth k` is the unique nearest double.
    The proof evaluates, for the 101 values of `k`, the pattern `F64.tenth k` and its two neighbours (pattern
    ∓ 1) in the kernel (`nearTable`), and extends from the neighbours to all patterns by the monotonicity of the
    decoding (`F64Order.wp_lt_iff`).  Also: the sign bit is clear and `F64.tenth 0 = 0` (`+0.0`);
    `tenth_neighbours` (the neighbour form: bracket `below < k/10 < above` and strictly closer than both);
    `tenth_half_ulp` (`2·|10·num − k·den| ≤ 10·(gap to the next double above)`);
    `tenth_exact_iff` (`10·num = k·den ↔ k % 5 = 0`: exact precisely for the multiples of 1/2);
    `negTenth_nearest` (`F64.negTenth k` is the double nearest `−k/10`, all `k ≤ 100`, in particular −0.1, −0.2);
    `tenthI_nearest` (`Proofs.Score2.tenthI k` for `−100 ≤ k ≤ 100`);
    `tenth_strictMono`, `tenth_injective`, `tenth_val_lt`, `tenth_val_le`, `tenth_lt`, `tenth_le`
    (patterns, exact values and `F64.lt/le` are ordered like `k`).
(b) `toRat_eq`: for every `x < 2^64` with `ofBits x = .fin num`, `Proofs.Score2.toRat x = num / 2^1075` (all
    finite patterns, structural proof, no enumeration); `closeTo_iff`, `isNearest_iff` restate C05's predicates
    on that value; `bitsOK_nearest`: C05's `bitsOK fl k` implies `IsNearestTenth fl k` (`−100 ≤ k ≤ 100`).
    `withinPow10_iff`: for `x < 2^64`, `withinPow10 d x (n, e) = true` iff `ofBits x = .fin num` for some
    `num` with `|num·10^e − n·2^1075| · 10^d ≤ 2^1075 · 10^e`, i.e. `|num/2^1075 − n/10^e| ≤ 10^-d`;
    `withinPow10_iff_rat` states it with fractions (`Rat`), `withinPow10_iff_toRat` through `toRat`, and
    `within12_eq_closeTo`: C03's `within12 x (n, e)` and C05's `closeTo x (n/10^e)` are the same Boolean.
    `tenth_one_eq_TENTH`: the constant of C15 (`F64Order.TENTH`) is `F64.tenth 1`.

## What remains trusted

* `Spec.F64Val.ofBits` itself, i.e. that the 30-line decoding in `Spec/Rating.lean` is IEEE-754 binary64 (§3.4).
* The correctness of the soft-float operations (`F64.add/mul/div/…`) *in general*: no theorem says that
  `F64.div x y` is the correctly rounded quotient for all `x y`.  What is kernel-checked is their *results*:
  on `F64.tenth k` (this file: the result is the nearest double, whatever `F64.div`/`F64.ofNat` do inside), and
  on the evaluated tables of the score proofs, whose outputs are compared with `F64.tenth K` for the exact `K`
  computed from the Spec equations.  Outside Lean the soft-float is compared with the Go hardware on
  random and special operands (DESIGN §5, §6, §10) — testing, not proof.
-/
namespace F64Tenth
open Spec F64Order

/-! ## the value of a pattern, in the fast kernel style -/

/-- `F64Order.wp` (= `value · 2^1075` of a sign-less pattern) with explicit `Nat` primitives -/
def wpN (a : Nat) : Nat :=
  F64.flet (Nat.div a F64.P52) fun e => F64.flet (Nat.mod a F64.P52) fun f =>
  cond (Nat.beq e 0) (Nat.mul f 2) (Nat.mul (Nat.add F64.P52 f) (Nat.shiftLeft 1 e))

theorem wpN_eq (a : Nat) : wpN a = wp a := by
  unfold wpN wp w
  rw [flet_eq, flet_eq]
  show cond (Nat.beq (a / P52) 0) ((a % P52) * 2) ((P52 + a % P52) * (1 <<< (a / P52))) = _
  by_cases h : a / P52 = 0
  · rw [h, if_pos rfl]; rfl
  · rw [if_neg h, Nat.one_shiftLeft]
    have : Nat.beq (a / P52) 0 = false := by
      cases hh : Nat.beq (a / P52) 0
      · rfl
      · rw [nbeq] at hh; exact absurd hh h
    rw [this]; rfl

/-- `2^1075`, the common denominator -/
def DEN : Nat := Nat.shiftLeft 1 1075
theorem DEN_eq : DEN = F64Val.den := by
  unfold DEN F64Val.den
  exact Nat.one_shiftLeft 1075

/-! ## the table -/

/-- `|v − t|` on naturals -/
def adist (v t : Nat) : Nat := Nat.add (Nat.sub v t) (Nat.sub t v)

/-- the facts about one `k`, with `a, v, b` = 10 × (value·den) of the patterns `x − 1, x, x + 1`, `t = k·den` -/
def nearC (k a v b t : Nat) : Bool :=
  Nat.blt a t && Nat.blt t b &&
  Nat.blt (adist v t) (Nat.sub t a) && Nat.blt (adist v t) (Nat.sub b t) &&
  Nat.ble (Nat.mul 2 (adist v t)) (Nat.sub b v) &&
  cond (Nat.beq v t) (Nat.beq (Nat.mod k 5) 0) (!(Nat.beq (Nat.mod k 5) 0))

/-- `x = F64.tenth k`: for `k = 0` it is `+0.0`; otherwise a positive finite pattern below the largest finite
    one, whose neighbours bracket `k/10` and are strictly farther from it -/
def nearB (k x : Nat) : Bool :=
  cond (Nat.beq k 0) (Nat.beq x 0)
    (Nat.blt 0 x && Nat.blt (Nat.succ x) F64.PINF &&
      F64.flet (Nat.mul 10 (wpN (Nat.pred x))) fun a =>
      F64.flet (Nat.mul 10 (wpN x)) fun v =>
      F64.flet (Nat.mul 10 (wpN (Nat.succ x))) fun b =>
      F64.flet (Nat.mul k DEN) fun t => nearC k a v b t)

def nearOK (k : Nat) : Bool := F64.flet (F64.tenth k) (nearB k)

/-- kernel evaluation: 101 correctly rounded divisions and 303 decodings of ~1100-bit numbers -/
theorem nearTable : (List.range 101).all nearOK = true := by decide +kernel

/-- `F64.tenth k < F64.tenth (k+1)` as bit patterns -/
def stepOK (k : Nat) : Bool := Nat.blt (F64.tenth k) (F64.tenth (Nat.succ k))
theorem stepTable : (List.range 100).all stepOK = true := by decide +kernel

theorem nearOK_of_le {k : Nat} (h : k ≤ 100) : nearOK k = true :=
  List.all_eq_true.mp nearTable k (List.mem_range.mpr (by omega))

/-! ## decoding lemmas -/

/-- the decoder only looks at the low 64 bits -/
theorem ofBits_mod (y : Nat) : F64Val.ofBits (y % 18446744073709551616) = F64Val.ofBits y := by
  have a : Spec.expField (y % 18446744073709551616) = Spec.expField y := by
    unfold Spec.expField; omega
  have b : Spec.fracField (y % 18446744073709551616) = Spec.fracField y := by
    unfold Spec.fracField; omega
  have c : Spec.signBit (y % 18446744073709551616) = Spec.signBit y := by
    unfold Spec.signBit; omega
  unfold F64Val.ofBits Spec.magnitude
  rw [a, b, c]

/-- a pattern that decodes to a finite value decodes to its signed key -/
theorem fin_sval (y : Nat) (hy : y < P64) (m : Int) (h : F64Val.ofBits y = .fin m) :
    m = sval y ∧ Spec.expField y < 2047 := by
  have hs := sval_eq y hy
  unfold F64Val.ofBits at h
  by_cases he : Spec.expField y = 2047
  · rw [if_pos he] at h
    split at h
    · split at h <;> cases h
    · cases h
  · rw [if_neg he, magnitude_eq, ← hs] at h
    injection h with h
    exact ⟨h.symm, by have := expField_lt y; omega⟩

/-- a finite pattern decodes to its signed key -/
theorem ofBits_fin (y : Nat) (hy : y < P64) (he : Spec.expField y < 2047) :
    F64Val.ofBits y = .fin (sval y) := by
  unfold F64Val.ofBits
  rw [if_neg (by omega), magnitude_eq, ← sval_eq y hy]

theorem expField_lt_of_lt {x : Nat} (h : x < F64.PINF) : Spec.expField x < 2047 := by
  unfold Spec.expField; simp only [F64.PINF] at h; omega

/-- non-negative finite patterns decode to `wp` -/
theorem ofBits_pos (x : Nat) (h : x < F64.PINF) : F64Val.ofBits x = .fin (wp x : Int) := by
  have h' : x < 9223372036854775808 := by simp only [F64.PINF] at h; omega
  rw [ofBits_fin x (by simp only [P64]; omega) (expField_lt_of_lt h)]
  unfold sval
  rw [if_pos (by simp only [P63]; exact h')]

/-- every finite value is `≤ 0` or `wp` of a non-negative pattern -/
theorem fin_cases (y : Nat) (m : Int) (h : F64Val.ofBits y = .fin m) :
    m ≤ 0 ∨ ∃ z, z < P63 ∧ m = (wp z : Int) := by
  rw [← ofBits_mod] at h
  have hy : y % 18446744073709551616 < P64 := Nat.mod_lt _ (by decide)
  have ⟨hm, _⟩ := fin_sval _ hy m h
  unfold sval at hm
  split at hm
  · exact Or.inr ⟨_, ‹_›, hm⟩
  · exact Or.inl (by omega)

/-! ## nearest -/

/-- `|10·num − k·den|`: the distance of `num/den` from `k/10`, scaled by `10·den` -/
def dist10 (num k : Int) : Nat := (10 * num - k * (F64Val.den : Int)).natAbs

/-- `x` denotes a finite number `num/2^1075`, and every pattern `y` denoting another finite number `m/2^1075` is
    strictly farther from `k/10`: `x` is **the** double nearest `k/10` (`|v − k/10| = dist10 v k / (10·2^1075)`) -/
def IsNearestTenth (x : Nat) (k : Int) : Prop :=
  ∃ num : Int, F64Val.ofBits x = .fin num ∧
    ∀ (y : Nat) (m : Int), F64Val.ofBits y = .fin m → m ≠ num → dist10 num k < dist10 m k

/-- the value is determined: two nearest doubles of the same `k/10` denote the same number -/
theorem IsNearestTenth.value_unique {x x' : Nat} {k : Int} (h : IsNearestTenth x k) (h' : IsNearestTenth x' k) :
    F64Val.ofBits x = F64Val.ofBits x' := by
  obtain ⟨n, hn, hmin⟩ := h
  obtain ⟨n', hn', hmin'⟩ := h'
  by_cases e : n' = n
  · rw [hn, hn', e]
  · have a := hmin x' n' hn' e
    have b := hmin' x n hn (fun h => e h.symm)
    omega

/-- from the two neighbours to all patterns -/
theorem nearest_of_neighbours (x : Nat) (t : Nat) (hx0 : 0 < x) (hx1 : x + 1 < F64.PINF)
    (ha : 10 * wp (x - 1) < t) (hb : t < 10 * wp (x + 1))
    (da : adist (10 * wp x) t < t - 10 * wp (x - 1)) (db : adist (10 * wp x) t < 10 * wp (x + 1) - t)
    (y : Nat) (m : Int) (hy : F64Val.ofBits y = .fin m) (hne : m ≠ (wp x : Int)) :
    (10 * (wp x : Int) - (t : Int)).natAbs < (10 * m - (t : Int)).natAbs := by
  unfold adist at da db
  simp only [Nat.add_eq, Nat.sub_eq] at da db
  rcases fin_cases y m hy with h | ⟨z, hz, rfl⟩
  · omega
  · rcases Nat.lt_trichotomy z x with h | h | h
    · have : wp z ≤ wp (x - 1) := (wp_le_iff z (x - 1)).mp (by omega)
      omega
    · subst h; exact absurd rfl hne
    · have : wp (x + 1) ≤ wp z := (wp_le_iff (x + 1) z).mp (by omega)
      omega

/-- the facts read off the table, as propositions -/
structure Facts (k x : Nat) : Prop where
  pos : 0 < x
  fin : x + 1 < F64.PINF
  lo : 10 * wp (x - 1) < k * F64Val.den
  hi : k * F64Val.den < 10 * wp (x + 1)
  dlo : adist (10 * wp x) (k * F64Val.den) < k * F64Val.den - 10 * wp (x - 1)
  dhi : adist (10 * wp x) (k * F64Val.den) < 10 * wp (x + 1) - k * F64Val.den
  ulp : 2 * adist (10 * wp x) (k * F64Val.den) ≤ 10 * wp (x + 1) - 10 * wp x
  exact : 10 * wp x = k * F64Val.den ↔ k % 5 = 0

theorem tenth_zero : F64.tenth 0 = 0 := by
  have h := nearOK_of_le (k := 0) (by omega)
  unfold nearOK nearB at h
  rw [flet_eq] at h
  exact Nat.eq_of_beq_eq_true h

theorem facts {k : Nat} (hk : k ≤ 100) (hk0 : k ≠ 0) : Facts k (F64.tenth k) := by
  have h := nearOK_of_le hk
  unfold nearOK nearB at h
  have k0 : Nat.beq k 0 = false := by
    cases hh : Nat.beq k 0
    · rfl
    · rw [nbeq] at hh; exact absurd hh hk0
  rw [flet_eq, k0, cond_false] at h
  generalize F64.tenth k = x at h
  simp only [flet_eq, wpN_eq, DEN_eq, nearC, Bool.and_eq_true, Nat.blt_eq, Nat.ble_eq, Nat.mul_eq,
    Nat.sub_eq, Nat.succ_eq_add_one, Nat.pred_eq_sub_one] at h
  obtain ⟨⟨h1, h2⟩, ⟨⟨⟨⟨h3, h4⟩, h5⟩, h6⟩, h7⟩, h8⟩ := h
  refine ⟨h1, h2, h3, h4, h5, h6, h7, ?_⟩
  cases hv : Nat.beq (10 * wp x) (k * F64Val.den) <;> rw [hv] at h8
  · rw [cond_false, Bool.not_eq_true', ← Bool.not_eq_true, nbeq] at h8
    have : ¬ (10 * wp x = k * F64Val.den) := by rw [← nbeq, hv]; decide
    exact ⟨fun h => absurd h this, fun h => absurd h h8⟩
  · rw [cond_true, nbeq] at h8
    rw [nbeq] at hv
    exact ⟨fun _ => h8, fun _ => hv⟩

/-- the sign bit of `F64.tenth k` is clear and the pattern is finite -/
theorem tenth_lt_PINF {k : Nat} (hk : k ≤ 100) : F64.tenth k < F64.PINF := by
  by_cases h0 : k = 0
  · subst h0; rw [tenth_zero]; decide
  · have := (facts hk h0).fin; omega

/-- **`F64.tenth k` denotes the non-negative finite number `wp (F64.tenth k) / 2^1075`** -/
theorem tenth_val {k : Nat} (hk : k ≤ 100) :
    F64Val.ofBits (F64.tenth k) = .fin (wp (F64.tenth k) : Int) :=
  ofBits_pos _ (tenth_lt_PINF hk)

theorem natCast_kden (k : Nat) : ((k : Nat) : Int) * (F64Val.den : Int) = ((k * F64Val.den : Nat) : Int) :=
  (Int.natCast_mul k F64Val.den).symm

/-- **(a) `F64.tenth k` is the double nearest `k/10`**, `0 ≤ k ≤ 100` -/
theorem tenth_nearest : ∀ k : Nat, k ≤ 100 → IsNearestTenth (F64.tenth k) k := by
  intro k hk
  refine ⟨_, tenth_val hk, ?_⟩
  intro y m hy hne
  unfold dist10
  rw [natCast_kden]
  by_cases h0 : k = 0
  · subst h0
    rw [tenth_zero, wp_zero] at hne ⊢
    omega
  · have f := facts hk h0
    exact nearest_of_neighbours _ _ f.pos f.fin f.lo f.hi f.dlo f.dhi y m hy hne

/-- the value is non-negative, the pattern has a clear sign bit (`+0.0` for `k = 0`) and is finite -/
theorem tenth_nonneg {k : Nat} (hk : k ≤ 100) :
    ∃ num : Int, F64Val.ofBits (F64.tenth k) = .fin num ∧ 0 ≤ num ∧ F64.tenth k < 2^63 ∧
      F64.isFin (F64.tenth k) = true := by
  refine ⟨_, tenth_val hk, Int.natCast_nonneg _, ?_, ?_⟩
  · have := tenth_lt_PINF hk; simp only [F64.PINF] at this; omega
  · unfold F64.isFin
    rw [ebits_eq, Nat.blt_eq]
    exact expField_lt_of_lt (tenth_lt_PINF hk)

/-- **neighbour form**: for `1 ≤ k ≤ 100` the next smaller and next larger double (bit pattern ∓ 1) are finite,
    bracket `k/10` strictly, and are both strictly farther from `k/10` than `F64.tenth k` -/
theorem tenth_neighbours {k : Nat} (hk : k ≤ 100) (hk0 : k ≠ 0) :
    ∃ a num b : Int,
      F64Val.ofBits (F64.tenth k - 1) = .fin a ∧ F64Val.ofBits (F64.tenth k) = .fin num ∧
      F64Val.ofBits (F64.tenth k + 1) = .fin b ∧
      a < num ∧ num < b ∧ 10 * a < k * (F64Val.den : Int) ∧ k * (F64Val.den : Int) < 10 * b ∧
      dist10 num k < dist10 a k ∧ dist10 num k < dist10 b k := by
  have f := facts hk hk0
  have hp := f.pos
  have hf := f.fin
  have hlo := f.lo
  have hhi := f.hi
  have hdlo := f.dlo
  have hdhi := f.dhi
  refine ⟨_, _, _, ofBits_pos _ (by omega), tenth_val hk, ofBits_pos _ hf, ?_, ?_, ?_, ?_, ?_, ?_⟩
  · have := wp_strict (a := F64.tenth k - 1) (b := F64.tenth k) (by omega); omega
  · have := wp_strict (a := F64.tenth k) (b := F64.tenth k + 1) (by omega); omega
  · rw [natCast_kden]; generalize k * F64Val.den = t at *; omega
  · rw [natCast_kden]; generalize k * F64Val.den = t at *; omega
  · unfold dist10; rw [natCast_kden]
    unfold adist at hdlo
    simp only [Nat.add_eq, Nat.sub_eq] at hdlo
    generalize k * F64Val.den = t at *
    omega
  · unfold dist10; rw [natCast_kden]
    unfold adist at hdhi
    simp only [Nat.add_eq, Nat.sub_eq] at hdhi
    generalize k * F64Val.den = t at *
    omega

/-- **half-ulp form**: twice the error is at most the gap to the next double above
    (`2·|10·num − k·den| ≤ 10·(b − num)`, `b − num` = one unit in the last place of `F64.tenth k`) -/
theorem tenth_half_ulp {k : Nat} (hk : k ≤ 100) (hk0 : k ≠ 0) :
    ∃ num b : Int, F64Val.ofBits (F64.tenth k) = .fin num ∧ F64Val.ofBits (F64.tenth k + 1) = .fin b ∧
      2 * dist10 num k ≤ 10 * (b - num) := by
  have f := facts hk hk0
  have hu := f.ulp
  have := wp_strict (a := F64.tenth k) (b := F64.tenth k + 1) (by omega)
  refine ⟨_, _, tenth_val hk, ofBits_pos _ f.fin, ?_⟩
  unfold dist10; rw [natCast_kden]
  unfold adist at hu
  simp only [Nat.add_eq, Nat.sub_eq] at hu
  generalize k * F64Val.den = t at *
  omega

/-- **exactness**: `F64.tenth k` equals `k/10` exactly iff `k` is a multiple of 5 (`k/10` a multiple of 1/2) -/
theorem tenth_exact_iff {k : Nat} (hk : k ≤ 100) :
    ∃ num : Int, F64Val.ofBits (F64.tenth k) = .fin num ∧
      (10 * num = k * (F64Val.den : Int) ↔ k % 5 = 0) := by
  refine ⟨_, tenth_val hk, ?_⟩
  rw [natCast_kden]
  by_cases h0 : k = 0
  · subst h0; rw [tenth_zero, wp_zero]; simp
  · have e := (facts hk h0).exact
    constructor
    · intro h; exact e.mp (by omega)
    · intro h; have := e.mpr h; omega

/-! ## negative tenths -/

/-- flipping the sign bit negates the value -/
theorem ofBits_flip (x : Nat) (hx : x < F64.P63) (m : Int) (h : F64Val.ofBits x = .fin m) :
    F64Val.ofBits (x + F64.P63) = .fin (-m) := by
  simp only [F64.P63] at hx ⊢
  have a : Spec.expField (x + 9223372036854775808) = Spec.expField x := by
    unfold Spec.expField; omega
  have b : Spec.fracField (x + 9223372036854775808) = Spec.fracField x := by
    unfold Spec.fracField; omega
  have c : Spec.signBit (x + 9223372036854775808) = 1 := by
    unfold Spec.signBit; omega
  have d : Spec.signBit x = 0 := by
    unfold Spec.signBit; omega
  have e : Spec.magnitude (x + 9223372036854775808) = Spec.magnitude x := by
    unfold Spec.magnitude; rw [a, b]
  unfold F64Val.ofBits at h ⊢
  rw [a, c, e]
  rw [d] at h
  by_cases he : Spec.expField x = 2047
  · rw [if_pos he] at h
    split at h <;> cases h
  · rw [if_neg he, if_pos rfl] at h
    rw [if_neg he, if_neg Nat.one_ne_zero]
    rw [F64Val.fin.inj h]

theorem ofBits_unflip (x : Nat) (hx0 : F64.P63 ≤ x) (hx : x < P64) (m : Int) (h : F64Val.ofBits x = .fin m) :
    F64Val.ofBits (x - F64.P63) = .fin (-m) := by
  simp only [F64.P63, P64] at hx hx0 ⊢
  have a : Spec.expField (x - 9223372036854775808) = Spec.expField x := by
    unfold Spec.expField; omega
  have b : Spec.fracField (x - 9223372036854775808) = Spec.fracField x := by
    unfold Spec.fracField; omega
  have c : Spec.signBit (x - 9223372036854775808) = 0 := by
    unfold Spec.signBit; omega
  have d : Spec.signBit x = 1 := by
    unfold Spec.signBit; omega
  have e : Spec.magnitude (x - 9223372036854775808) = Spec.magnitude x := by
    unfold Spec.magnitude; rw [a, b]
  unfold F64Val.ofBits at h ⊢
  rw [a, c, e]
  rw [d] at h
  by_cases he : Spec.expField x = 2047
  · rw [if_pos he] at h
    split at h <;> cases h
  · rw [if_neg he, if_neg Nat.one_ne_zero] at h
    rw [if_neg he, if_pos rfl]
    rw [← F64Val.fin.inj h, Int.neg_neg]

/-- every finite value has its negative among the finite values -/
theorem fin_neg (y : Nat) (m : Int) (h : F64Val.ofBits y = .fin m) : ∃ y', F64Val.ofBits y' = .fin (-m) := by
  rw [← ofBits_mod] at h
  have hy : y % 18446744073709551616 < P64 := Nat.mod_lt _ (by decide)
  by_cases hs : y % 18446744073709551616 < F64.P63
  · exact ⟨_, ofBits_flip _ hs m h⟩
  · exact ⟨_, ofBits_unflip _ (by omega) hy m h⟩

theorem dist10_neg (m k : Int) : dist10 (-m) (-k) = dist10 m k := by
  unfold dist10
  rw [Int.neg_mul]
  generalize k * (F64Val.den : Int) = t
  omega

/-- the mirror image of a nearest double is the nearest double of the mirrored number -/
theorem IsNearestTenth.neg {x : Nat} {k : Int} (h : IsNearestTenth x k) (hx : x < F64.P63) :
    IsNearestTenth (F64.neg x) (-k) := by
  obtain ⟨n, hn, hmin⟩ := h
  have e : F64.neg x = x + F64.P63 := by
    unfold F64.neg
    have : Nat.ble F64.P63 x = false := by
      cases hh : Nat.ble F64.P63 x
      · rfl
      · rw [Nat.ble_eq] at hh; omega
    rw [this]; rfl
  rw [e]
  refine ⟨-n, ofBits_flip x hx n hn, ?_⟩
  intro y m hy hne
  obtain ⟨y', hy'⟩ := fin_neg y m hy
  have := hmin y' (-m) hy' (by omega)
  rw [← dist10_neg n k, ← dist10_neg (-m) k, Int.neg_neg] at this
  exact this

/-- **`F64.negTenth k` is the double nearest `−k/10`**, `0 ≤ k ≤ 100` (`k = 0`: the pattern is `−0.0`,
    which denotes the number 0) -/
theorem negTenth_nearest : ∀ k : Nat, k ≤ 100 → IsNearestTenth (F64.negTenth k) (-(k : Int)) := by
  intro k hk
  have h := (tenth_nearest k hk).neg (by
    have := tenth_lt_PINF hk; simp only [F64.PINF, F64.P63] at this ⊢; omega)
  exact h

/-- −0.1 and −0.2 -/
theorem negTenth_one : IsNearestTenth (F64.negTenth 1) (-1) := by
  have h := negTenth_nearest 1 (by omega)
  rw [show (-((1 : Nat) : Int)) = -1 from rfl] at h
  exact h
theorem negTenth_two : IsNearestTenth (F64.negTenth 2) (-2) := by
  have h := negTenth_nearest 2 (by omega)
  rw [show (-((2 : Nat) : Int)) = -2 from rfl] at h
  exact h

/-- the signed form used by the v2 proofs -/
theorem tenthI_nearest (k : Int) (h1 : -100 ≤ k) (h2 : k ≤ 100) :
    IsNearestTenth (Proofs.Score2.tenthI k) k := by
  cases k with
  | ofNat n => exact tenth_nearest n (Int.ofNat_le.mp h2)
  | negSucc n =>
    have := negTenth_nearest (n + 1) (by rw [Int.negSucc_eq] at h1; omega)
    rw [Int.negSucc_eq, ← Int.natCast_succ]
    exact this

/-- `-0.0` -/
theorem negTenth_zero : F64.negTenth 0 = Proofs.Score2.NEG0 := by
  unfold F64.negTenth
  rw [tenth_zero]
  decide

/-- C05's `bitsOK fl k` (`fl` is `tenthI k`, or `-0.0` when `k = 0`) implies that `fl` denotes the number
    nearest `k/10` -/
theorem bitsOK_nearest (fl : Nat) (k : Int) (h1 : -100 ≤ k) (h2 : k ≤ 100)
    (h : Proofs.Score2.bitsOK fl k = true) : IsNearestTenth fl k := by
  unfold Proofs.Score2.bitsOK at h
  rw [Bool.or_eq_true, Bool.and_eq_true, nbeq, nbeq, decide_eq_true_iff] at h
  rcases h with h | ⟨hk, h⟩
  · rw [h]; exact tenthI_nearest k h1 h2
  · subst hk
    rw [h, ← negTenth_zero]
    exact negTenth_nearest 0 (by omega)

/-- the threshold constant of C15 (`F64Order.TENTH = 0x3fb999999999999a`) is `F64.tenth 1` -/
theorem tenth_one_eq_TENTH : F64.tenth 1 = F64Order.TENTH := by decide +kernel


/-! ## order -/

theorem tenth_step {k : Nat} (hk : k < 100) : F64.tenth k < F64.tenth (k + 1) := by
  have := List.all_eq_true.mp stepTable k (List.mem_range.mpr hk)
  unfold stepOK at this
  rw [Nat.blt_eq] at this
  exact this

/-- the bit patterns are strictly increasing in `k` -/
theorem tenth_strictMono {k₁ k₂ : Nat} (h : k₁ < k₂) (h2 : k₂ ≤ 100) : F64.tenth k₁ < F64.tenth k₂ := by
  induction k₂ with
  | zero => omega
  | succ n ih =>
    have s := tenth_step (k := n) (by omega)
    by_cases e : k₁ = n
    · subst e; exact s
    · have := ih (by omega) (by omega); omega

theorem tenth_injective {k₁ k₂ : Nat} (h1 : k₁ ≤ 100) (h2 : k₂ ≤ 100) (h : F64.tenth k₁ = F64.tenth k₂) :
    k₁ = k₂ := by
  rcases Nat.lt_trichotomy k₁ k₂ with a | a | a
  · have := tenth_strictMono a h2; omega
  · exact a
  · have := tenth_strictMono a h1; omega

/-- the exact values are strictly increasing in `k` -/
theorem tenth_val_lt {k₁ k₂ : Nat} (h : k₁ < k₂) (h2 : k₂ ≤ 100) :
    F64Val.lt (F64Val.ofBits (F64.tenth k₁)) (F64Val.ofBits (F64.tenth k₂)) := by
  rw [tenth_val (k := k₁) (by omega), tenth_val h2]
  show (wp _ : Int) < (wp _ : Int)
  have := wp_strict (tenth_strictMono h h2)
  omega

theorem tenth_val_le {k₁ k₂ : Nat} (h : k₁ ≤ k₂) (h2 : k₂ ≤ 100) :
    F64Val.le (F64Val.ofBits (F64.tenth k₁)) (F64Val.ofBits (F64.tenth k₂)) := by
  rw [tenth_val (k := k₁) (by omega), tenth_val h2]
  show (wp _ : Int) ≤ (wp _ : Int)
  by_cases e : k₁ = k₂
  · subst e; omega
  · have := wp_strict (tenth_strictMono (k₁ := k₁) (k₂ := k₂) (by omega) h2)
    omega

theorem tenth_lt_P64 {k : Nat} (hk : k ≤ 100) : F64.tenth k < P64 := by
  have := tenth_lt_PINF hk; simp only [F64.PINF, P64] at this ⊢; omega

/-- the model's comparisons order the tenths like `k` -/
theorem tenth_lt {k₁ k₂ : Nat} (h1 : k₁ ≤ 100) (h2 : k₂ ≤ 100) :
    F64.lt (F64.tenth k₁) (F64.tenth k₂) = decide (k₁ < k₂) := by
  rw [lt_eq_spec _ _ (tenth_lt_P64 h1) (tenth_lt_P64 h2)]
  by_cases h : k₁ < k₂
  · rw [decide_eq_true h, decide_eq_true (tenth_val_lt h h2)]
  · rw [decide_eq_false h, decide_eq_false]
    intro hlt
    have hle := tenth_val_le (k₁ := k₂) (k₂ := k₁) (by omega) h1
    rw [tenth_val h1, tenth_val h2] at hlt hle
    have a : (wp (F64.tenth k₁) : Int) < (wp (F64.tenth k₂) : Int) := hlt
    have b : (wp (F64.tenth k₂) : Int) ≤ (wp (F64.tenth k₁) : Int) := hle
    omega

theorem tenth_le {k₁ k₂ : Nat} (h1 : k₁ ≤ 100) (h2 : k₂ ≤ 100) :
    F64.le (F64.tenth k₁) (F64.tenth k₂) = decide (k₁ ≤ k₂) := by
  rw [le_eq_spec _ _ (tenth_lt_P64 h1) (tenth_lt_P64 h2)]
  by_cases h : k₁ ≤ k₂
  · rw [decide_eq_true h, decide_eq_true (tenth_val_le h h2)]
  · rw [decide_eq_false h, decide_eq_false]
    intro hle
    have hlt := tenth_val_lt (k₁ := k₂) (k₂ := k₁) (by omega) h1
    rw [tenth_val h1, tenth_val h2] at hlt hle
    have a : (wp (F64.tenth k₂) : Int) < (wp (F64.tenth k₁) : Int) := hlt
    have b : (wp (F64.tenth k₁) : Int) ≤ (wp (F64.tenth k₂) : Int) := hle
    omega

/-! ## (b) the decoders agree -/

theorem beq_false_of_ne {a b : Nat} (h : a ≠ b) : Nat.beq a b = false := by
  cases hh : Nat.beq a b
  · rfl
  · rw [nbeq] at hh; exact absurd hh h

/-- `Spec.magnitude` is the integer significand times `2^exponent` of the soft-float's field accessors -/
theorem magnitude_mant (x : Nat) :
    Spec.magnitude x = F64.mant x (Spec.expField x) * 2 ^ F64.exf (Spec.expField x) := by
  unfold Spec.magnitude F64.mant F64.exf
  rw [frac_eq]
  have p : (2:Nat)^52 = F64.P52 := by decide
  by_cases h : Spec.expField x = 0
  · rw [if_pos h, h]
    have : Nat.beq 0 0 = true := rfl
    rw [this, cond_true, cond_true, Nat.pow_one]
  · rw [if_neg h, beq_false_of_ne h, cond_false, cond_false, p, Nat.add_eq, Nat.add_comm]

/-- the decoded numerator of a finite pattern, through the soft-float's accessors -/
theorem fin_num (x : Nat) (hx : x < 2^64) (num : Int) (h : F64Val.ofBits x = .fin num) :
    Spec.expField x < 2047 ∧
    num = (if x < F64.P63 then (1 : Int) else -1) *
      ((F64.mant x (F64.ebits x) * 2 ^ F64.exf (F64.ebits x) : Nat) : Int) := by
  have hx' : x < P64 := hx
  have ⟨_, he⟩ := fin_sval x hx' num h
  refine ⟨he, ?_⟩
  unfold F64Val.ofBits at h
  rw [if_neg (by omega), magnitude_mant, ← ebits_eq] at h
  have hn := F64Val.fin.inj h
  rw [← hn]
  by_cases hs : x < F64.P63
  · have : Spec.signBit x = 0 := by
      unfold Spec.signBit; simp only [F64.P63] at hs; omega
    rw [if_pos this, if_pos hs, Int.one_mul]
  · have : ¬ Spec.signBit x = 0 := by
      unfold Spec.signBit; simp only [F64.P63, P64] at hs hx'; omega
    rw [if_neg this, if_neg hs, Int.neg_mul, Int.one_mul]

theorem zpow_split (E : Nat) : (2:Rat)^((E:Int) - 1075) = (2:Rat)^E / (2:Rat)^(1075:Nat) := by
  rw [Int.sub_eq_add_neg, Rat.zpow_add (by decide), Rat.zpow_neg, Rat.zpow_natCast, Rat.div_def,
    ← Rat.zpow_natCast 2 1075]
  rfl

set_option exponentiation.threshold 1100 in
theorem den_cast : ((F64Val.den : Nat) : Rat) = (2:Rat)^(1075:Nat) := by
  exact (Rat.natCast_pow 2 1075).trans (congrArg (· ^ (1075 : Nat)) Rat.natCast_ofNat)

/-- **(b) `Proofs.Score2.toRat` is the value of `Spec.F64Val.ofBits`**: for every finite 64-bit pattern,
    `toRat x = num / 2^1075` -/
theorem toRat_eq (x : Nat) (hx : x < 2^64) (num : Int) (h : F64Val.ofBits x = .fin num) :
    Proofs.Score2.toRat x = (num : Rat) / ((F64Val.den : Nat) : Rat) := by
  have ⟨_, hn⟩ := fin_num x hx num h
  unfold Proofs.Score2.toRat
  rw [hn, zpow_split, den_cast, Rat.intCast_mul, Rat.intCast_natCast, Rat.natCast_mul, Rat.natCast_pow]
  by_cases hs : x < F64.P63
  · rw [if_pos hs, if_pos hs]
    show _ = ((1:Int):Rat) * _ / _
    rw [Rat.intCast_one]
    show _ * _ * (_ / _) = 1 * (_ * ((2:Nat):Rat) ^ _) / _
    rw [Rat.natCast_ofNat]
    grind
  · rw [if_neg hs, if_neg hs]
    show _ = ((-1:Int):Rat) * _ / _
    rw [Rat.intCast_neg, Rat.intCast_one]
    show _ * _ * (_ / _) = -1 * (_ * ((2:Nat):Rat) ^ _) / _
    rw [Rat.natCast_ofNat]
    grind


theorem isFin_iff (x : Nat) : F64.isFin x = true ↔ Spec.expField x < 2047 := by
  unfold F64.isFin; rw [ebits_eq, Nat.blt_eq]

/-- finite ↔ decodes to a finite value -/
theorem isFin_iff_fin (x : Nat) (hx : x < 2^64) : F64.isFin x = true ↔ ∃ num, F64Val.ofBits x = .fin num := by
  rw [isFin_iff]
  constructor
  · intro h; exact ⟨_, ofBits_fin x hx h⟩
  · rintro ⟨num, h⟩; exact (fin_sval x hx num h).2

set_option exponentiation.threshold 1100 in
theorem scale_split (E : Nat) : ∃ c : Nat, 0 < c ∧ 2^E = 2^(E-1075) * c ∧ 2^1075 = 2^(1075-E) * c := by
  by_cases h : E ≤ 1075
  · refine ⟨2^E, Nat.two_pow_pos _, ?_, ?_⟩
    · rw [Nat.sub_eq_zero_of_le h, Nat.pow_zero, Nat.one_mul]
    · rw [← Nat.pow_add]; congr 1; omega
  · refine ⟨F64Val.den, Nat.two_pow_pos 1075, ?_, ?_⟩
    · unfold F64Val.den; rw [← Nat.pow_add]; congr 1; omega
    · unfold F64Val.den; rw [Nat.sub_eq_zero_of_le (by omega), Nat.pow_zero, Nat.one_mul]

theorem within_core (v n : Int) (c Bp T P : Nat) (hc : 0 < c) :
    ((v * (c : Int)) * (T : Int) - n * ((Bp * c : Nat) : Int)).natAbs * P ≤ (Bp * c) * T ↔
      (v * (T : Int) - n * (Bp : Int)).natAbs * P ≤ Bp * T := by
  have e : (v * (c : Int)) * (T : Int) - n * ((Bp * c : Nat) : Int) = (c : Int) * (v * T - n * Bp) := by
    rw [Int.natCast_mul]; grind
  rw [e, Int.natAbs_mul, Int.natAbs_natCast]
  have : c * (v * (T : Int) - n * (Bp : Int)).natAbs * P ≤ Bp * c * T ↔
      c * ((v * (T : Int) - n * (Bp : Int)).natAbs * P) ≤ c * (Bp * T) := by
    rw [Nat.mul_assoc, Nat.mul_comm Bp c, Nat.mul_assoc]
  rw [this]; exact Nat.mul_le_mul_left_iff hc

/-- the inequality decided by `withinPow10` is the closeness of the decoded value, denominators cleared -/
theorem within_ineq (d x : Nat) (hx : x < 2^64) (n : Int) (e : Nat) (num : Int) (h : F64Val.ofBits x = .fin num) :
    ((if F64.P63 ≤ x then -((F64.mant x (F64.ebits x) * 2 ^ (F64.exf (F64.ebits x) - 1075) : Nat) : Int)
        else ((F64.mant x (F64.ebits x) * 2 ^ (F64.exf (F64.ebits x) - 1075) : Nat) : Int)) * ((10 ^ e : Nat) : Int)
        - n * ((2 ^ (1075 - F64.exf (F64.ebits x)) : Nat) : Int)).natAbs * 10 ^ d
      ≤ 2 ^ (1075 - F64.exf (F64.ebits x)) * 10 ^ e ↔
    (num * ((10^e : Nat) : Int) - n * ((F64Val.den : Nat) : Int)).natAbs * 10^d ≤ F64Val.den * 10^e := by
  have ⟨_, hn⟩ := fin_num x hx num h
  obtain ⟨c, hc, h1, h2⟩ := scale_split (F64.exf (F64.ebits x))
  generalize F64.exf (F64.ebits x) = E at *
  generalize F64.mant x (F64.ebits x) = m at *
  unfold F64Val.den
  rw [h2]
  rw [h1] at hn
  generalize (2:Nat) ^ (E - 1075) = A at *
  generalize (2:Nat) ^ (1075 - E) = Bp at *
  generalize (10:Nat) ^ e = T at *
  have hv : num = (if F64.P63 ≤ x then -((m * A : Nat) : Int) else ((m * A : Nat) : Int)) * (c : Int) := by
    rw [hn]
    by_cases hs : x < F64.P63
    · rw [if_pos hs, if_neg (by omega), ← Nat.mul_assoc, Int.natCast_mul (m * A) c, Int.one_mul]
    · rw [if_neg hs, if_pos (by omega), ← Nat.mul_assoc, Int.natCast_mul (m * A) c, Int.neg_mul, Int.neg_mul,
        Int.one_mul]
  rw [hv]
  exact (within_core _ n c Bp T (10 ^ d) hc).symm

/-- **(b) `Proofs.Score3.withinPow10` on the value of `Spec.F64Val.ofBits`**: `withinPow10 d x (n, e)` holds iff
    `x` decodes to a finite `num/2^1075` with `|num/2^1075 − n/10^e| ≤ 10^-d`, written without fractions as
    `|num·10^e − n·2^1075| · 10^d ≤ 2^1075 · 10^e` -/
theorem withinPow10_iff (d x : Nat) (hx : x < 2^64) (n : Int) (e : Nat) :
    Proofs.Score3.withinPow10 d x (n, e) = true ↔ ∃ num : Int, F64Val.ofBits x = .fin num ∧
      (num * ((10^e : Nat) : Int) - n * ((F64Val.den : Nat) : Int)).natAbs * 10^d ≤ F64Val.den * 10^e := by
  unfold Proofs.Score3.withinPow10
  simp only [Bool.and_eq_true, decide_eq_true_eq]
  constructor
  · rintro ⟨hf, hi⟩
    obtain ⟨num, h⟩ := (isFin_iff_fin x hx).mp hf
    exact ⟨num, h, (within_ineq d x hx n e num h).mp hi⟩
  · rintro ⟨num, h, hi⟩
    exact ⟨(isFin_iff_fin x hx).mpr ⟨num, h⟩, (within_ineq d x hx n e num h).mpr hi⟩

/-- `closeTo fl x`: `fl` decodes to a finite `num/2^1075` within `10^-12` of `x` -/
theorem closeTo_iff (fl : Nat) (hfl : fl < 2^64) (x : Rat) :
    Proofs.Score2.closeTo fl x = true ↔ ∃ num : Int, F64Val.ofBits fl = .fin num ∧
      (num : Rat) / ((F64Val.den : Nat) : Rat) - x ≤ 1 / 1000000000000 ∧
      -((num : Rat) / ((F64Val.den : Nat) : Rat) - x) ≤ 1 / 1000000000000 := by
  unfold Proofs.Score2.closeTo
  rw [Proofs.Score2.forceRat_eq]
  simp only [Bool.and_eq_true, decide_eq_true_eq]
  constructor
  · rintro ⟨hf, hi⟩
    obtain ⟨num, h⟩ := (isFin_iff_fin fl hfl).mp hf
    rw [toRat_eq fl hfl num h] at hi
    exact ⟨num, h, hi⟩
  · rintro ⟨num, h, hi⟩
    rw [← toRat_eq fl hfl num h] at hi
    exact ⟨(isFin_iff_fin fl hfl).mpr ⟨num, h⟩, hi⟩

/-- `isNearest fl x` (C05 weights): `fl` decodes to a finite `num/2^1075` within `2^(E−1076)` of `x`, where `E` is
    the exponent field (1 for subnormals) — half a unit in the last place of `fl` -/
theorem isNearest_iff (fl : Nat) (hfl : fl < 2^64) (x : Rat) :
    Proofs.Score2.isNearest fl x = true ↔ ∃ num : Int, F64Val.ofBits fl = .fin num ∧
      (num : Rat) / ((F64Val.den : Nat) : Rat) - x ≤ (2 : Rat) ^ ((F64.exf (F64.ebits fl) : Int) - 1076) ∧
      -((num : Rat) / ((F64Val.den : Nat) : Rat) - x) ≤ (2 : Rat) ^ ((F64.exf (F64.ebits fl) : Int) - 1076) := by
  unfold Proofs.Score2.isNearest
  rw [Proofs.Score2.forceRat_eq, Proofs.Score2.forceRat_eq]
  simp only [Bool.and_eq_true, decide_eq_true_eq]
  constructor
  · rintro ⟨hf, hi⟩
    obtain ⟨num, h⟩ := (isFin_iff_fin fl hfl).mp hf
    rw [toRat_eq fl hfl num h] at hi
    exact ⟨num, h, hi⟩
  · rintro ⟨num, h, hi⟩
    rw [← toRat_eq fl hfl num h] at hi
    exact ⟨(isFin_iff_fin fl hfl).mpr ⟨num, h⟩, hi⟩

/-! ### with fractions -/

theorem rat_mul_le_iff {a b c : Rat} (hc : 0 < c) : a ≤ b ↔ a * c ≤ b * c :=
  ⟨fun h => Rat.mul_le_mul_of_nonneg_right h (Rat.le_of_lt hc), fun h => Rat.le_of_mul_le_mul_right h hc⟩

/-- clearing denominators in `num/D − n/T ≤ 1/P` -/
theorem rat_le_iff (num n : Int) (D T P : Nat) (hD : 0 < D) (hT : 0 < T) (hP : 0 < P) :
    (num : Rat) / (D : Rat) - (n : Rat) / (T : Rat) ≤ 1 / (P : Rat) ↔
      (num * (T : Int) - n * (D : Int)) * (P : Int) ≤ ((D * T : Nat) : Int) := by
  have hD' : (0 : Rat) < (D : Rat) := Rat.natCast_pos.mpr hD
  have hT' : (0 : Rat) < (T : Rat) := Rat.natCast_pos.mpr hT
  have hP' : (0 : Rat) < (P : Rat) := Rat.natCast_pos.mpr hP
  have hK : (0 : Rat) < (D : Rat) * (T : Rat) * (P : Rat) := Rat.mul_pos (Rat.mul_pos hD' hT') hP'
  have e1 : (num : Rat) / (D : Rat) * (D : Rat) = num := Rat.div_mul_cancel (Rat.ne_of_gt hD')
  have e2 : (n : Rat) / (T : Rat) * (T : Rat) = n := Rat.div_mul_cancel (Rat.ne_of_gt hT')
  have e3 : (1 : Rat) / (P : Rat) * (P : Rat) = 1 := Rat.div_mul_cancel (Rat.ne_of_gt hP')
  rw [rat_mul_le_iff hK, ← Rat.intCast_le_intCast]
  have l : ((num : Rat) / (D : Rat) - (n : Rat) / (T : Rat)) * ((D : Rat) * (T : Rat) * (P : Rat)) =
      (((num * (T : Int) - n * (D : Int)) * (P : Int) : Int) : Rat) := by
    rw [Rat.intCast_mul, Rat.intCast_sub, Rat.intCast_mul, Rat.intCast_mul, Rat.intCast_natCast,
      Rat.intCast_natCast, Rat.intCast_natCast]
    generalize (num : Rat) / (D : Rat) = a at *
    generalize (n : Rat) / (T : Rat) = q at *
    rw [← e1, ← e2]
    grind
  have r : (1 : Rat) / (P : Rat) * ((D : Rat) * (T : Rat) * (P : Rat)) = (((D * T : Nat) : Int) : Rat) := by
    rw [Rat.intCast_natCast, Rat.natCast_mul]
    generalize (1 : Rat) / (P : Rat) = u at *
    have : u * ((D : Rat) * (T : Rat) * (P : Rat)) = (u * (P : Rat)) * ((D : Rat) * (T : Rat)) := by grind
    rw [this, e3, Rat.one_mul]
  rw [l, r]

/-- `|num·T − n·D| · P ≤ D·T` is `|num/D − n/T| ≤ 1/P` -/
theorem abs_clear (num n : Int) (D T P : Nat) (hD : 0 < D) (hT : 0 < T) (hP : 0 < P) :
    (num * (T : Int) - n * (D : Int)).natAbs * P ≤ D * T ↔
      ((num : Rat) / (D : Rat) - (n : Rat) / (T : Rat) ≤ 1 / (P : Rat) ∧
       -((num : Rat) / (D : Rat) - (n : Rat) / (T : Rat)) ≤ 1 / (P : Rat)) := by
  have hneg : -((num : Rat) / (D : Rat) - (n : Rat) / (T : Rat)) =
      ((-num : Int) : Rat) / (D : Rat) - ((-n : Int) : Rat) / (T : Rat) := by
    rw [Rat.intCast_neg, Rat.intCast_neg]; grind
  rw [hneg, rat_le_iff num n D T P hD hT hP, rat_le_iff (-num) (-n) D T P hD hT hP]
  have e : (-num * (T : Int) - -n * (D : Int)) * (P : Int) = -((num * (T : Int) - n * (D : Int)) * (P : Int)) := by
    grind
  rw [e]
  have a : (num * (T : Int) - n * (D : Int)).natAbs * P = ((num * (T : Int) - n * (D : Int)) * (P : Int)).natAbs := by
    rw [Int.natAbs_mul, Int.natAbs_natCast]
  rw [a]
  generalize (num * (T : Int) - n * (D : Int)) * (P : Int) = Z
  generalize D * T = W
  omega

/-- **(b) `withinPow10` with fractions**: `withinPow10 d x (n, e)` holds iff `x` decodes to a finite `num/2^1075`
    with `−10^-d ≤ num/2^1075 − n/10^e ≤ 10^-d` -/
theorem withinPow10_iff_rat (d x : Nat) (hx : x < 2^64) (n : Int) (e : Nat) :
    Proofs.Score3.withinPow10 d x (n, e) = true ↔ ∃ num : Int, F64Val.ofBits x = .fin num ∧
      (num : Rat) / ((F64Val.den : Nat) : Rat) - (n : Rat) / ((10^e : Nat) : Rat) ≤ 1 / ((10^d : Nat) : Rat) ∧
      -((num : Rat) / ((F64Val.den : Nat) : Rat) - (n : Rat) / ((10^e : Nat) : Rat)) ≤ 1 / ((10^d : Nat) : Rat) := by
  rw [withinPow10_iff d x hx n e]
  have hD : 0 < F64Val.den := by unfold F64Val.den; exact Nat.two_pow_pos 1075
  have hT : 0 < 10^e := Nat.pow_pos (by decide)
  have hP : 0 < 10^d := Nat.pow_pos (by decide)
  constructor
  · rintro ⟨num, h, hi⟩
    exact ⟨num, h, (abs_clear num n _ _ _ hD hT hP).mp hi⟩
  · rintro ⟨num, h, hi⟩
    exact ⟨num, h, (abs_clear num n _ _ _ hD hT hP).mpr hi⟩

/-- the same through `Proofs.Score2.toRat`: the v3 closeness predicate (`within12` = `withinPow10 12`) and the v2
    one (`closeTo`) measure the same distance on the same decoded value -/
theorem withinPow10_iff_toRat (d x : Nat) (hx : x < 2^64) (n : Int) (e : Nat) :
    Proofs.Score3.withinPow10 d x (n, e) = true ↔ F64.isFin x = true ∧
      Proofs.Score2.toRat x - (n : Rat) / ((10^e : Nat) : Rat) ≤ 1 / ((10^d : Nat) : Rat) ∧
      -(Proofs.Score2.toRat x - (n : Rat) / ((10^e : Nat) : Rat)) ≤ 1 / ((10^d : Nat) : Rat) := by
  rw [withinPow10_iff_rat d x hx n e]
  constructor
  · rintro ⟨num, h, hi⟩
    rw [← toRat_eq x hx num h] at hi
    exact ⟨(isFin_iff_fin x hx).mpr ⟨num, h⟩, hi⟩
  · rintro ⟨hf, hi⟩
    obtain ⟨num, h⟩ := (isFin_iff_fin x hx).mp hf
    rw [toRat_eq x hx num h] at hi
    exact ⟨num, h, hi⟩

/-- `within12 x (n, e)` and `closeTo x (n/10^e)` are the same predicate -/
theorem within12_eq_closeTo (x : Nat) (hx : x < 2^64) (n : Int) (e : Nat) :
    Proofs.Score3.within12 x (n, e) = Proofs.Score2.closeTo x ((n : Rat) / ((10^e : Nat) : Rat)) := by
  rw [Bool.eq_iff_iff]
  show Proofs.Score3.withinPow10 12 x (n, e) = true ↔ _
  rw [withinPow10_iff_rat 12 x hx n e, closeTo_iff x hx]
  have : ((10^12 : Nat) : Rat) = 1000000000000 := by rw [Rat.natCast_pow]; rfl
  rw [this]

end F64Tenth
