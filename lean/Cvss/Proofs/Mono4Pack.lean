import Cvss.Base.F64
/-!
# Packing a list of small numbers into one `Nat` (so that the kernel computes each entry exactly once)

`packL [x₀, x₁, …] = x₀ + 128·x₁ + 128²·x₂ + …`; `digit p i` reads entry `i` back. A Boolean check of the form
`flet (packL (S.map f)) fun p => chkP p tr` evaluates `f` once per element of `S` (the forcing `flet` turns the
packed number into a literal) and then compares entries pairwise; `chkP_elim` turns it into
`f (S[i]) ≤ f (S[j])` for every listed pair.
-/
namespace Proofs.Mono4

theorem flet_eq {α : Sort u} (x : Nat) (k : Nat → α) : F64.flet x k = k x := by cases x <;> rfl

def packL : List Nat → Nat
  | [] => 0
  | x :: r => Nat.add x (Nat.mul 128 (packL r))

def digit (p i : Nat) : Nat := Nat.mod (Nat.shiftRight p (Nat.mul 7 i)) 128

theorem digit_eq (p i : Nat) : digit p i = p / 128 ^ i % 128 := by
  unfold digit
  show (p >>> (7 * i)) % 128 = _
  rw [Nat.shiftRight_eq_div_pow, Nat.pow_mul]

theorem digit_packL (L : List Nat) (h : ∀ x ∈ L, x < 128) (i : Nat) (hi : i < L.length) :
    digit (packL L) i = L.getD i 0 := by
  rw [digit_eq]
  induction L generalizing i with
  | nil => simp at hi
  | cons x r ih =>
    have hx : x < 128 := h x (List.mem_cons_self ..)
    have hr : ∀ y ∈ r, y < 128 := fun y hy => h y (List.mem_cons_of_mem _ hy)
    show (x + 128 * packL r) / 128 ^ i % 128 = _
    cases i with
    | zero =>
      simp only [Nat.pow_zero, Nat.div_one, List.getD_cons_zero]
      omega
    | succ j =>
      have hj : j < r.length := by simpa using hi
      rw [Nat.pow_succ, Nat.mul_comm (128 ^ j) 128, ← Nat.div_div_eq_div_mul]
      have : (x + 128 * packL r) / 128 = packL r := by omega
      rw [this, ih hr j hj]
      simp

/-- pairwise `≤` checks on a packed list -/
def chkP (p : Nat) (tr : List (Nat × Nat)) : Bool := tr.all fun t => Nat.ble (digit p t.1) (digit p t.2)

theorem chkP_elim {α : Type} (f : α → Nat) (S : List α) (d : α) (hf : ∀ x, f x < 128) (tr : List (Nat × Nat))
    (h : F64.flet (packL (S.map f)) (fun p => chkP p tr) = true) (t : Nat × Nat) (ht : t ∈ tr)
    (h1 : t.1 < S.length) (h2 : t.2 < S.length) : f (S.getD t.1 d) ≤ f (S.getD t.2 d) := by
  rw [flet_eq] at h
  have := List.all_eq_true.mp h t ht
  have hm : ∀ x ∈ S.map f, x < 128 := by
    intro x hx
    obtain ⟨y, _, rfl⟩ := List.mem_map.mp hx
    exact hf y
  rw [digit_packL _ hm _ (by simpa using h1), digit_packL _ hm _ (by simpa using h2)] at this
  have e1 : (S.map f).getD t.1 0 = f (S.getD t.1 d) := by
    simp [List.getD, List.getElem?_map, List.getElem?_eq_getElem h1]
  have e2 : (S.map f).getD t.2 0 = f (S.getD t.2 d) := by
    simp [List.getD, List.getElem?_map, List.getElem?_eq_getElem h2]
  rw [e1, e2] at this
  exact Nat.le_of_ble_eq_true this

end Proofs.Mono4
