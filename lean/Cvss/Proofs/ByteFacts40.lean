import Cvss.Proofs.Layout40
/-!
# One-byte facts about the v4.0 layout (all by enumeration of a single byte)

* `B‹k›…`  : writing code `i` (any legal code of metric `k`) with the `Set` update `W‹k›` changes exactly the
  piece of metric `k` in that byte (to `i`, or to the high/low part of `i` for a split field) and keeps the
  byte a byte; stated for **every** `Nat` (the masks only look at the low 8 bits: `D‹b›_mod`, `W‹k›_mod`);
* `J‹k›`   : the two parts of a split field recombine to the code;
* `E‹b›`   : the pieces determine the byte (`enc‹b›` is a left inverse of `D‹b›`);
* `SPh/SPl‹k›` : both parts of a split field can be read back from the code;
* `CU‹k›`  : `codes (upd k c i) = (codes c).set k i` — the heart of C07;
* `UB‹k›`  : `upd` keeps bytes bytes and the unused bits of `u8` zero.
(File produced by tools/gen_layout40.py at authoring time; it is ordinary checked Lean.)
-/
set_option maxRecDepth 100000
namespace Proofs.B40
open Model (O40)

theorem D0_mod (u : Nat) : D0 (u % 256) = D0 u := by
  simp (config := {decide := true}) only [D0, land_mod]
theorem D1_mod (u : Nat) : D1 (u % 256) = D1 u := by
  simp (config := {decide := true}) only [D1, land_mod]
theorem D2_mod (u : Nat) : D2 (u % 256) = D2 u := by
  simp (config := {decide := true}) only [D2, land_mod]
theorem D3_mod (u : Nat) : D3 (u % 256) = D3 u := by
  simp (config := {decide := true}) only [D3, land_mod]
theorem D4_mod (u : Nat) : D4 (u % 256) = D4 u := by
  simp (config := {decide := true}) only [D4, land_mod]
theorem D5_mod (u : Nat) : D5 (u % 256) = D5 u := by
  simp (config := {decide := true}) only [D5, land_mod]
theorem D6_mod (u : Nat) : D6 (u % 256) = D6 u := by
  simp (config := {decide := true}) only [D6, land_mod]
theorem D7_mod (u : Nat) : D7 (u % 256) = D7 u := by
  simp (config := {decide := true}) only [D7, land_mod]
theorem D8_mod (u : Nat) : D8 (u % 256) = D8 u := by
  simp (config := {decide := true}) only [D8, land_mod]

theorem W0_mod (u i : Nat) : W0 (u % 256) i = W0 u i := by
  simp (config := {decide := true}) only [W0, land_mod]
theorem B0' : ∀ u, u < 256 → ∀ i, i < nv 0 →
    D0 (W0 u i) = (D0 u).set 0 (i) ∧ W0 u i < 256 := by decide +kernel
theorem B0 (u i : Nat) (hi : i < nv 0) : D0 (W0 u i) = (D0 u).set 0 (i) := by
  rw [← W0_mod, ← D0_mod u]; exact (B0' _ (Nat.mod_lt _ (by decide)) i hi).1
theorem W1_mod (u i : Nat) : W1 (u % 256) i = W1 u i := by
  simp (config := {decide := true}) only [W1, land_mod]
theorem B1' : ∀ u, u < 256 → ∀ i, i < nv 1 →
    D0 (W1 u i) = (D0 u).set 1 (i) ∧ W1 u i < 256 := by decide +kernel
theorem B1 (u i : Nat) (hi : i < nv 1) : D0 (W1 u i) = (D0 u).set 1 (i) := by
  rw [← W1_mod, ← D0_mod u]; exact (B1' _ (Nat.mod_lt _ (by decide)) i hi).1
theorem W2_mod (u i : Nat) : W2 (u % 256) i = W2 u i := by
  simp (config := {decide := true}) only [W2, land_mod]
theorem B2' : ∀ u, u < 256 → ∀ i, i < nv 2 →
    D0 (W2 u i) = (D0 u).set 2 (i) ∧ W2 u i < 256 := by decide +kernel
theorem B2 (u i : Nat) (hi : i < nv 2) : D0 (W2 u i) = (D0 u).set 2 (i) := by
  rw [← W2_mod, ← D0_mod u]; exact (B2' _ (Nat.mod_lt _ (by decide)) i hi).1
theorem W3_mod (u i : Nat) : W3 (u % 256) i = W3 u i := by
  simp (config := {decide := true}) only [W3, land_mod]
theorem B3' : ∀ u, u < 256 → ∀ i, i < nv 3 →
    D0 (W3 u i) = (D0 u).set 3 (i) ∧ W3 u i < 256 := by decide +kernel
theorem B3 (u i : Nat) (hi : i < nv 3) : D0 (W3 u i) = (D0 u).set 3 (i) := by
  rw [← W3_mod, ← D0_mod u]; exact (B3' _ (Nat.mod_lt _ (by decide)) i hi).1
theorem W4_mod (u i : Nat) : W4 (u % 256) i = W4 u i := by
  simp (config := {decide := true}) only [W4, land_mod]
theorem B4' : ∀ u, u < 256 → ∀ i, i < nv 4 →
    D0 (W4 u i) = (D0 u).set 4 (i) ∧ W4 u i < 256 := by decide +kernel
theorem B4 (u i : Nat) (hi : i < nv 4) : D0 (W4 u i) = (D0 u).set 4 (i) := by
  rw [← W4_mod, ← D0_mod u]; exact (B4' _ (Nat.mod_lt _ (by decide)) i hi).1
theorem W5_mod (u i : Nat) : W5 (u % 256) i = W5 u i := by
  simp (config := {decide := true}) only [W5, land_mod]
theorem B5' : ∀ u, u < 256 → ∀ i, i < nv 5 →
    D1 (W5 u i) = (D1 u).set 0 (i) ∧ W5 u i < 256 := by decide +kernel
theorem B5 (u i : Nat) (hi : i < nv 5) : D1 (W5 u i) = (D1 u).set 0 (i) := by
  rw [← W5_mod, ← D1_mod u]; exact (B5' _ (Nat.mod_lt _ (by decide)) i hi).1
theorem W6_mod (u i : Nat) : W6 (u % 256) i = W6 u i := by
  simp (config := {decide := true}) only [W6, land_mod]
theorem B6' : ∀ u, u < 256 → ∀ i, i < nv 6 →
    D1 (W6 u i) = (D1 u).set 2 (i) ∧ W6 u i < 256 := by decide +kernel
theorem B6 (u i : Nat) (hi : i < nv 6) : D1 (W6 u i) = (D1 u).set 2 (i) := by
  rw [← W6_mod, ← D1_mod u]; exact (B6' _ (Nat.mod_lt _ (by decide)) i hi).1
theorem W7_mod (u i : Nat) : W7 (u % 256) i = W7 u i := by
  simp (config := {decide := true}) only [W7, land_mod]
theorem B7' : ∀ u, u < 256 → ∀ i, i < nv 7 →
    D2 (W7 u i) = (D2 u).set 0 (i) ∧ W7 u i < 256 := by decide +kernel
theorem B7 (u i : Nat) (hi : i < nv 7) : D2 (W7 u i) = (D2 u).set 0 (i) := by
  rw [← W7_mod, ← D2_mod u]; exact (B7' _ (Nat.mod_lt _ (by decide)) i hi).1
theorem W8_mod (u i : Nat) : W8 (u % 256) i = W8 u i := by
  simp (config := {decide := true}) only [W8, land_mod]
theorem B8' : ∀ u, u < 256 → ∀ i, i < nv 8 →
    D1 (W8 u i) = (D1 u).set 1 (i) ∧ W8 u i < 256 := by decide +kernel
theorem B8 (u i : Nat) (hi : i < nv 8) : D1 (W8 u i) = (D1 u).set 1 (i) := by
  rw [← W8_mod, ← D1_mod u]; exact (B8' _ (Nat.mod_lt _ (by decide)) i hi).1
theorem W9_mod (u i : Nat) : W9 (u % 256) i = W9 u i := by
  simp (config := {decide := true}) only [W9, land_mod]
theorem B9' : ∀ u, u < 256 → ∀ i, i < nv 9 →
    D1 (W9 u i) = (D1 u).set 3 (i) ∧ W9 u i < 256 := by decide +kernel
theorem B9 (u i : Nat) (hi : i < nv 9) : D1 (W9 u i) = (D1 u).set 3 (i) := by
  rw [← W9_mod, ← D1_mod u]; exact (B9' _ (Nat.mod_lt _ (by decide)) i hi).1
theorem W10_mod (u i : Nat) : W10 (u % 256) i = W10 u i := by
  simp (config := {decide := true}) only [W10, land_mod]
theorem B10' : ∀ u, u < 256 → ∀ i, i < nv 10 →
    D2 (W10 u i) = (D2 u).set 1 (i) ∧ W10 u i < 256 := by decide +kernel
theorem B10 (u i : Nat) (hi : i < nv 10) : D2 (W10 u i) = (D2 u).set 1 (i) := by
  rw [← W10_mod, ← D2_mod u]; exact (B10' _ (Nat.mod_lt _ (by decide)) i hi).1
theorem W11_mod (u i : Nat) : W11 (u % 256) i = W11 u i := by
  simp (config := {decide := true}) only [W11, land_mod]
theorem B11' : ∀ u, u < 256 → ∀ i, i < nv 11 →
    D2 (W11 u i) = (D2 u).set 2 (i) ∧ W11 u i < 256 := by decide +kernel
theorem B11 (u i : Nat) (hi : i < nv 11) : D2 (W11 u i) = (D2 u).set 2 (i) := by
  rw [← W11_mod, ← D2_mod u]; exact (B11' _ (Nat.mod_lt _ (by decide)) i hi).1
theorem W12_mod (u i : Nat) : W12 (u % 256) i = W12 u i := by
  simp (config := {decide := true}) only [W12, land_mod]
theorem B12' : ∀ u, u < 256 → ∀ i, i < nv 12 →
    D2 (W12 u i) = (D2 u).set 3 (i) ∧ W12 u i < 256 := by decide +kernel
theorem B12 (u i : Nat) (hi : i < nv 12) : D2 (W12 u i) = (D2 u).set 3 (i) := by
  rw [← W12_mod, ← D2_mod u]; exact (B12' _ (Nat.mod_lt _ (by decide)) i hi).1
theorem W13_mod (u i : Nat) : W13 (u % 256) i = W13 u i := by
  simp (config := {decide := true}) only [W13, land_mod]
theorem B13' : ∀ u, u < 256 → ∀ i, i < nv 13 →
    D3 (W13 u i) = (D3 u).set 0 (i) ∧ W13 u i < 256 := by decide +kernel
theorem B13 (u i : Nat) (hi : i < nv 13) : D3 (W13 u i) = (D3 u).set 0 (i) := by
  rw [← W13_mod, ← D3_mod u]; exact (B13' _ (Nat.mod_lt _ (by decide)) i hi).1
theorem W14_mod (u i : Nat) : W14 (u % 256) i = W14 u i := by
  simp (config := {decide := true}) only [W14, land_mod]
theorem B14' : ∀ u, u < 256 → ∀ i, i < nv 14 →
    D3 (W14 u i) = (D3 u).set 1 (i) ∧ W14 u i < 256 := by decide +kernel
theorem B14 (u i : Nat) (hi : i < nv 14) : D3 (W14 u i) = (D3 u).set 1 (i) := by
  rw [← W14_mod, ← D3_mod u]; exact (B14' _ (Nat.mod_lt _ (by decide)) i hi).1
theorem W15_mod (u i : Nat) : W15 (u % 256) i = W15 u i := by
  simp (config := {decide := true}) only [W15, land_mod]
theorem B15' : ∀ u, u < 256 → ∀ i, i < nv 15 →
    D3 (W15 u i) = (D3 u).set 2 (i) ∧ W15 u i < 256 := by decide +kernel
theorem B15 (u i : Nat) (hi : i < nv 15) : D3 (W15 u i) = (D3 u).set 2 (i) := by
  rw [← W15_mod, ← D3_mod u]; exact (B15' _ (Nat.mod_lt _ (by decide)) i hi).1
theorem W16h_mod (u i : Nat) : W16h (u % 256) i = W16h u i := by
  simp (config := {decide := true}) only [W16h, land_mod]
theorem B16hi' : ∀ u, u < 256 → ∀ i, i < nv 16 →
    D3 (W16h u i) = (D3 u).set 3 (Nat.land i 2) ∧ W16h u i < 256 := by decide +kernel
theorem B16hi (u i : Nat) (hi : i < nv 16) : D3 (W16h u i) = (D3 u).set 3 (Nat.land i 2) := by
  rw [← W16h_mod, ← D3_mod u]; exact (B16hi' _ (Nat.mod_lt _ (by decide)) i hi).1
theorem W16l_mod (u i : Nat) : W16l (u % 256) i = W16l u i := by
  simp (config := {decide := true}) only [W16l, land_mod]
theorem B16lo' : ∀ u, u < 256 → ∀ i, i < nv 16 →
    D4 (W16l u i) = (D4 u).set 0 (Nat.land i 1) ∧ W16l u i < 256 := by decide +kernel
theorem B16lo (u i : Nat) (hi : i < nv 16) : D4 (W16l u i) = (D4 u).set 0 (Nat.land i 1) := by
  rw [← W16l_mod, ← D4_mod u]; exact (B16lo' _ (Nat.mod_lt _ (by decide)) i hi).1
theorem J16 : ∀ i, i < nv 16 → Nat.lor (Nat.land i 2) (Nat.land i 1) = i := by decide
theorem W17_mod (u i : Nat) : W17 (u % 256) i = W17 u i := by
  simp (config := {decide := true}) only [W17, land_mod]
theorem B17' : ∀ u, u < 256 → ∀ i, i < nv 17 →
    D4 (W17 u i) = (D4 u).set 1 (i) ∧ W17 u i < 256 := by decide +kernel
theorem B17 (u i : Nat) (hi : i < nv 17) : D4 (W17 u i) = (D4 u).set 1 (i) := by
  rw [← W17_mod, ← D4_mod u]; exact (B17' _ (Nat.mod_lt _ (by decide)) i hi).1
theorem W18_mod (u i : Nat) : W18 (u % 256) i = W18 u i := by
  simp (config := {decide := true}) only [W18, land_mod]
theorem B18' : ∀ u, u < 256 → ∀ i, i < nv 18 →
    D4 (W18 u i) = (D4 u).set 2 (i) ∧ W18 u i < 256 := by decide +kernel
theorem B18 (u i : Nat) (hi : i < nv 18) : D4 (W18 u i) = (D4 u).set 2 (i) := by
  rw [← W18_mod, ← D4_mod u]; exact (B18' _ (Nat.mod_lt _ (by decide)) i hi).1
theorem W19_mod (u i : Nat) : W19 (u % 256) i = W19 u i := by
  simp (config := {decide := true}) only [W19, land_mod]
theorem B19' : ∀ u, u < 256 → ∀ i, i < nv 19 →
    D4 (W19 u i) = (D4 u).set 3 (i) ∧ W19 u i < 256 := by decide +kernel
theorem B19 (u i : Nat) (hi : i < nv 19) : D4 (W19 u i) = (D4 u).set 3 (i) := by
  rw [← W19_mod, ← D4_mod u]; exact (B19' _ (Nat.mod_lt _ (by decide)) i hi).1
theorem W20h_mod (u i : Nat) : W20h (u % 256) i = W20h u i := by
  simp (config := {decide := true}) only [W20h, land_mod]
theorem B20hi' : ∀ u, u < 256 → ∀ i, i < nv 20 →
    D4 (W20h u i) = (D4 u).set 4 (Nat.land i 2) ∧ W20h u i < 256 := by decide +kernel
theorem B20hi (u i : Nat) (hi : i < nv 20) : D4 (W20h u i) = (D4 u).set 4 (Nat.land i 2) := by
  rw [← W20h_mod, ← D4_mod u]; exact (B20hi' _ (Nat.mod_lt _ (by decide)) i hi).1
theorem W20l_mod (u i : Nat) : W20l (u % 256) i = W20l u i := by
  simp (config := {decide := true}) only [W20l, land_mod]
theorem B20lo' : ∀ u, u < 256 → ∀ i, i < nv 20 →
    D5 (W20l u i) = (D5 u).set 0 (Nat.land i 1) ∧ W20l u i < 256 := by decide +kernel
theorem B20lo (u i : Nat) (hi : i < nv 20) : D5 (W20l u i) = (D5 u).set 0 (Nat.land i 1) := by
  rw [← W20l_mod, ← D5_mod u]; exact (B20lo' _ (Nat.mod_lt _ (by decide)) i hi).1
theorem J20 : ∀ i, i < nv 20 → Nat.lor (Nat.land i 2) (Nat.land i 1) = i := by decide
theorem W21_mod (u i : Nat) : W21 (u % 256) i = W21 u i := by
  simp (config := {decide := true}) only [W21, land_mod]
theorem B21' : ∀ u, u < 256 → ∀ i, i < nv 21 →
    D5 (W21 u i) = (D5 u).set 1 (i) ∧ W21 u i < 256 := by decide +kernel
theorem B21 (u i : Nat) (hi : i < nv 21) : D5 (W21 u i) = (D5 u).set 1 (i) := by
  rw [← W21_mod, ← D5_mod u]; exact (B21' _ (Nat.mod_lt _ (by decide)) i hi).1
theorem W22_mod (u i : Nat) : W22 (u % 256) i = W22 u i := by
  simp (config := {decide := true}) only [W22, land_mod]
theorem B22' : ∀ u, u < 256 → ∀ i, i < nv 22 →
    D5 (W22 u i) = (D5 u).set 2 (i) ∧ W22 u i < 256 := by decide +kernel
theorem B22 (u i : Nat) (hi : i < nv 22) : D5 (W22 u i) = (D5 u).set 2 (i) := by
  rw [← W22_mod, ← D5_mod u]; exact (B22' _ (Nat.mod_lt _ (by decide)) i hi).1
theorem W23_mod (u i : Nat) : W23 (u % 256) i = W23 u i := by
  simp (config := {decide := true}) only [W23, land_mod]
theorem B23' : ∀ u, u < 256 → ∀ i, i < nv 23 →
    D5 (W23 u i) = (D5 u).set 3 (i) ∧ W23 u i < 256 := by decide +kernel
theorem B23 (u i : Nat) (hi : i < nv 23) : D5 (W23 u i) = (D5 u).set 3 (i) := by
  rw [← W23_mod, ← D5_mod u]; exact (B23' _ (Nat.mod_lt _ (by decide)) i hi).1
theorem W24h_mod (u i : Nat) : W24h (u % 256) i = W24h u i := by
  simp (config := {decide := true}) only [W24h, land_mod]
theorem B24hi' : ∀ u, u < 256 → ∀ i, i < nv 24 →
    D5 (W24h u i) = (D5 u).set 4 (Nat.land i 4) ∧ W24h u i < 256 := by decide +kernel
theorem B24hi (u i : Nat) (hi : i < nv 24) : D5 (W24h u i) = (D5 u).set 4 (Nat.land i 4) := by
  rw [← W24h_mod, ← D5_mod u]; exact (B24hi' _ (Nat.mod_lt _ (by decide)) i hi).1
theorem W24l_mod (u i : Nat) : W24l (u % 256) i = W24l u i := by
  simp (config := {decide := true}) only [W24l, land_mod]
theorem B24lo' : ∀ u, u < 256 → ∀ i, i < nv 24 →
    D6 (W24l u i) = (D6 u).set 0 (Nat.land i 3) ∧ W24l u i < 256 := by decide +kernel
theorem B24lo (u i : Nat) (hi : i < nv 24) : D6 (W24l u i) = (D6 u).set 0 (Nat.land i 3) := by
  rw [← W24l_mod, ← D6_mod u]; exact (B24lo' _ (Nat.mod_lt _ (by decide)) i hi).1
theorem J24 : ∀ i, i < nv 24 → Nat.lor (Nat.land i 4) (Nat.land i 3) = i := by decide
theorem W25_mod (u i : Nat) : W25 (u % 256) i = W25 u i := by
  simp (config := {decide := true}) only [W25, land_mod]
theorem B25' : ∀ u, u < 256 → ∀ i, i < nv 25 →
    D6 (W25 u i) = (D6 u).set 1 (i) ∧ W25 u i < 256 := by decide +kernel
theorem B25 (u i : Nat) (hi : i < nv 25) : D6 (W25 u i) = (D6 u).set 1 (i) := by
  rw [← W25_mod, ← D6_mod u]; exact (B25' _ (Nat.mod_lt _ (by decide)) i hi).1
theorem W26_mod (u i : Nat) : W26 (u % 256) i = W26 u i := by
  simp (config := {decide := true}) only [W26, land_mod]
theorem B26' : ∀ u, u < 256 → ∀ i, i < nv 26 →
    D6 (W26 u i) = (D6 u).set 2 (i) ∧ W26 u i < 256 := by decide +kernel
theorem B26 (u i : Nat) (hi : i < nv 26) : D6 (W26 u i) = (D6 u).set 2 (i) := by
  rw [← W26_mod, ← D6_mod u]; exact (B26' _ (Nat.mod_lt _ (by decide)) i hi).1
theorem W27h_mod (u i : Nat) : W27h (u % 256) i = W27h u i := by
  simp (config := {decide := true}) only [W27h, land_mod]
theorem B27hi' : ∀ u, u < 256 → ∀ i, i < nv 27 →
    D6 (W27h u i) = (D6 u).set 3 (Nat.land i 2) ∧ W27h u i < 256 := by decide +kernel
theorem B27hi (u i : Nat) (hi : i < nv 27) : D6 (W27h u i) = (D6 u).set 3 (Nat.land i 2) := by
  rw [← W27h_mod, ← D6_mod u]; exact (B27hi' _ (Nat.mod_lt _ (by decide)) i hi).1
theorem W27l_mod (u i : Nat) : W27l (u % 256) i = W27l u i := by
  simp (config := {decide := true}) only [W27l, land_mod]
theorem B27lo' : ∀ u, u < 256 → ∀ i, i < nv 27 →
    D7 (W27l u i) = (D7 u).set 0 (Nat.land i 1) ∧ W27l u i < 256 := by decide +kernel
theorem B27lo (u i : Nat) (hi : i < nv 27) : D7 (W27l u i) = (D7 u).set 0 (Nat.land i 1) := by
  rw [← W27l_mod, ← D7_mod u]; exact (B27lo' _ (Nat.mod_lt _ (by decide)) i hi).1
theorem J27 : ∀ i, i < nv 27 → Nat.lor (Nat.land i 2) (Nat.land i 1) = i := by decide
theorem W28_mod (u i : Nat) : W28 (u % 256) i = W28 u i := by
  simp (config := {decide := true}) only [W28, land_mod]
theorem B28' : ∀ u, u < 256 → ∀ i, i < nv 28 →
    D7 (W28 u i) = (D7 u).set 1 (i) ∧ W28 u i < 256 := by decide +kernel
theorem B28 (u i : Nat) (hi : i < nv 28) : D7 (W28 u i) = (D7 u).set 1 (i) := by
  rw [← W28_mod, ← D7_mod u]; exact (B28' _ (Nat.mod_lt _ (by decide)) i hi).1
theorem W29_mod (u i : Nat) : W29 (u % 256) i = W29 u i := by
  simp (config := {decide := true}) only [W29, land_mod]
theorem B29' : ∀ u, u < 256 → ∀ i, i < nv 29 →
    D7 (W29 u i) = (D7 u).set 2 (i) ∧ W29 u i < 256 := by decide +kernel
theorem B29 (u i : Nat) (hi : i < nv 29) : D7 (W29 u i) = (D7 u).set 2 (i) := by
  rw [← W29_mod, ← D7_mod u]; exact (B29' _ (Nat.mod_lt _ (by decide)) i hi).1
theorem W30_mod (u i : Nat) : W30 (u % 256) i = W30 u i := by
  simp (config := {decide := true}) only [W30, land_mod]
theorem B30' : ∀ u, u < 256 → ∀ i, i < nv 30 →
    D7 (W30 u i) = (D7 u).set 3 (i) ∧ W30 u i < 256 := by decide +kernel
theorem B30 (u i : Nat) (hi : i < nv 30) : D7 (W30 u i) = (D7 u).set 3 (i) := by
  rw [← W30_mod, ← D7_mod u]; exact (B30' _ (Nat.mod_lt _ (by decide)) i hi).1
theorem W31h_mod (u i : Nat) : W31h (u % 256) i = W31h u i := by
  simp (config := {decide := true}) only [W31h, land_mod]
theorem B31hi' : ∀ u, u < 256 → ∀ i, i < nv 31 →
    D7 (W31h u i) = (D7 u).set 4 (Nat.land i 4) ∧ W31h u i < 256 := by decide +kernel
theorem B31hi (u i : Nat) (hi : i < nv 31) : D7 (W31h u i) = (D7 u).set 4 (Nat.land i 4) := by
  rw [← W31h_mod, ← D7_mod u]; exact (B31hi' _ (Nat.mod_lt _ (by decide)) i hi).1
theorem W31l_mod (u i : Nat) : W31l (u % 256) i = W31l u i := rfl
theorem B31lo' : ∀ u, u < 256 → ∀ i, i < nv 31 →
    D8 (W31l u i) = (D8 u).set 0 (Nat.land i 3) ∧ W31l u i < 256 := by decide +kernel
theorem B31lo (u i : Nat) (hi : i < nv 31) : D8 (W31l u i) = (D8 u).set 0 (Nat.land i 3) := by
  rw [← W31l_mod, ← D8_mod u]; exact (B31lo' _ (Nat.mod_lt _ (by decide)) i hi).1
theorem J31 : ∀ i, i < nv 31 → Nat.lor (Nat.land i 4) (Nat.land i 3) = i := by decide

/-! ## `codes` after `upd` -/
theorem CU0 (c : O40) (i : Nat) (hi : i < nv 0) : codes (upd 0 c i) = (codes c).set 0 i := by
  have h1 := B0 c.u0 i hi
  simp only [codes, upd, h1]
  rfl
theorem CU1 (c : O40) (i : Nat) (hi : i < nv 1) : codes (upd 1 c i) = (codes c).set 1 i := by
  have h1 := B1 c.u0 i hi
  simp only [codes, upd, h1]
  rfl
theorem CU2 (c : O40) (i : Nat) (hi : i < nv 2) : codes (upd 2 c i) = (codes c).set 2 i := by
  have h1 := B2 c.u0 i hi
  simp only [codes, upd, h1]
  rfl
theorem CU3 (c : O40) (i : Nat) (hi : i < nv 3) : codes (upd 3 c i) = (codes c).set 3 i := by
  have h1 := B3 c.u0 i hi
  simp only [codes, upd, h1]
  rfl
theorem CU4 (c : O40) (i : Nat) (hi : i < nv 4) : codes (upd 4 c i) = (codes c).set 4 i := by
  have h1 := B4 c.u0 i hi
  simp only [codes, upd, h1]
  rfl
theorem CU5 (c : O40) (i : Nat) (hi : i < nv 5) : codes (upd 5 c i) = (codes c).set 5 i := by
  have h1 := B5 c.u1 i hi
  simp only [codes, upd, h1]
  rfl
theorem CU6 (c : O40) (i : Nat) (hi : i < nv 6) : codes (upd 6 c i) = (codes c).set 6 i := by
  have h1 := B6 c.u1 i hi
  simp only [codes, upd, h1]
  rfl
theorem CU7 (c : O40) (i : Nat) (hi : i < nv 7) : codes (upd 7 c i) = (codes c).set 7 i := by
  have h1 := B7 c.u2 i hi
  simp only [codes, upd, h1]
  rfl
theorem CU8 (c : O40) (i : Nat) (hi : i < nv 8) : codes (upd 8 c i) = (codes c).set 8 i := by
  have h1 := B8 c.u1 i hi
  simp only [codes, upd, h1]
  rfl
theorem CU9 (c : O40) (i : Nat) (hi : i < nv 9) : codes (upd 9 c i) = (codes c).set 9 i := by
  have h1 := B9 c.u1 i hi
  simp only [codes, upd, h1]
  rfl
theorem CU10 (c : O40) (i : Nat) (hi : i < nv 10) : codes (upd 10 c i) = (codes c).set 10 i := by
  have h1 := B10 c.u2 i hi
  simp only [codes, upd, h1]
  rfl
theorem CU11 (c : O40) (i : Nat) (hi : i < nv 11) : codes (upd 11 c i) = (codes c).set 11 i := by
  have h1 := B11 c.u2 i hi
  simp only [codes, upd, h1]
  rfl
theorem CU12 (c : O40) (i : Nat) (hi : i < nv 12) : codes (upd 12 c i) = (codes c).set 12 i := by
  have h1 := B12 c.u2 i hi
  simp only [codes, upd, h1]
  rfl
theorem CU13 (c : O40) (i : Nat) (hi : i < nv 13) : codes (upd 13 c i) = (codes c).set 13 i := by
  have h1 := B13 c.u3 i hi
  simp only [codes, upd, h1]
  rfl
theorem CU14 (c : O40) (i : Nat) (hi : i < nv 14) : codes (upd 14 c i) = (codes c).set 14 i := by
  have h1 := B14 c.u3 i hi
  simp only [codes, upd, h1]
  rfl
theorem CU15 (c : O40) (i : Nat) (hi : i < nv 15) : codes (upd 15 c i) = (codes c).set 15 i := by
  have h1 := B15 c.u3 i hi
  simp only [codes, upd, h1]
  rfl
theorem CU16 (c : O40) (i : Nat) (hi : i < nv 16) : codes (upd 16 c i) = (codes c).set 16 i := by
  have h1 := B16hi c.u3 i hi
  have h2 := B16lo c.u4 i hi
  have e : codes (upd 16 c i) = (codes c).set 16 (Nat.lor (Nat.land i 2) (Nat.land i 1)) := by
    simp only [codes, upd, h1, h2]
    rfl
  rw [e, J16 i hi]
theorem CU17 (c : O40) (i : Nat) (hi : i < nv 17) : codes (upd 17 c i) = (codes c).set 17 i := by
  have h1 := B17 c.u4 i hi
  simp only [codes, upd, h1]
  rfl
theorem CU18 (c : O40) (i : Nat) (hi : i < nv 18) : codes (upd 18 c i) = (codes c).set 18 i := by
  have h1 := B18 c.u4 i hi
  simp only [codes, upd, h1]
  rfl
theorem CU19 (c : O40) (i : Nat) (hi : i < nv 19) : codes (upd 19 c i) = (codes c).set 19 i := by
  have h1 := B19 c.u4 i hi
  simp only [codes, upd, h1]
  rfl
theorem CU20 (c : O40) (i : Nat) (hi : i < nv 20) : codes (upd 20 c i) = (codes c).set 20 i := by
  have h1 := B20hi c.u4 i hi
  have h2 := B20lo c.u5 i hi
  have e : codes (upd 20 c i) = (codes c).set 20 (Nat.lor (Nat.land i 2) (Nat.land i 1)) := by
    simp only [codes, upd, h1, h2]
    rfl
  rw [e, J20 i hi]
theorem CU21 (c : O40) (i : Nat) (hi : i < nv 21) : codes (upd 21 c i) = (codes c).set 21 i := by
  have h1 := B21 c.u5 i hi
  simp only [codes, upd, h1]
  rfl
theorem CU22 (c : O40) (i : Nat) (hi : i < nv 22) : codes (upd 22 c i) = (codes c).set 22 i := by
  have h1 := B22 c.u5 i hi
  simp only [codes, upd, h1]
  rfl
theorem CU23 (c : O40) (i : Nat) (hi : i < nv 23) : codes (upd 23 c i) = (codes c).set 23 i := by
  have h1 := B23 c.u5 i hi
  simp only [codes, upd, h1]
  rfl
theorem CU24 (c : O40) (i : Nat) (hi : i < nv 24) : codes (upd 24 c i) = (codes c).set 24 i := by
  have h1 := B24hi c.u5 i hi
  have h2 := B24lo c.u6 i hi
  have e : codes (upd 24 c i) = (codes c).set 24 (Nat.lor (Nat.land i 4) (Nat.land i 3)) := by
    simp only [codes, upd, h1, h2]
    rfl
  rw [e, J24 i hi]
theorem CU25 (c : O40) (i : Nat) (hi : i < nv 25) : codes (upd 25 c i) = (codes c).set 25 i := by
  have h1 := B25 c.u6 i hi
  simp only [codes, upd, h1]
  rfl
theorem CU26 (c : O40) (i : Nat) (hi : i < nv 26) : codes (upd 26 c i) = (codes c).set 26 i := by
  have h1 := B26 c.u6 i hi
  simp only [codes, upd, h1]
  rfl
theorem CU27 (c : O40) (i : Nat) (hi : i < nv 27) : codes (upd 27 c i) = (codes c).set 27 i := by
  have h1 := B27hi c.u6 i hi
  have h2 := B27lo c.u7 i hi
  have e : codes (upd 27 c i) = (codes c).set 27 (Nat.lor (Nat.land i 2) (Nat.land i 1)) := by
    simp only [codes, upd, h1, h2]
    rfl
  rw [e, J27 i hi]
theorem CU28 (c : O40) (i : Nat) (hi : i < nv 28) : codes (upd 28 c i) = (codes c).set 28 i := by
  have h1 := B28 c.u7 i hi
  simp only [codes, upd, h1]
  rfl
theorem CU29 (c : O40) (i : Nat) (hi : i < nv 29) : codes (upd 29 c i) = (codes c).set 29 i := by
  have h1 := B29 c.u7 i hi
  simp only [codes, upd, h1]
  rfl
theorem CU30 (c : O40) (i : Nat) (hi : i < nv 30) : codes (upd 30 c i) = (codes c).set 30 i := by
  have h1 := B30 c.u7 i hi
  simp only [codes, upd, h1]
  rfl
theorem CU31 (c : O40) (i : Nat) (hi : i < nv 31) : codes (upd 31 c i) = (codes c).set 31 i := by
  have h1 := B31hi c.u7 i hi
  have h2 := B31lo c.u8 i hi
  have e : codes (upd 31 c i) = (codes c).set 31 (Nat.lor (Nat.land i 4) (Nat.land i 3)) := by
    simp only [codes, upd, h1, h2]
    rfl
  rw [e, J31 i hi]

theorem codes_upd (c : O40) : ∀ k, k < 32 → ∀ i, i < nv k → codes (upd k c i) = (codes c).set k i :=
  all32 (CU0 c) (CU1 c) (CU2 c) (CU3 c) (CU4 c) (CU5 c) (CU6 c) (CU7 c) (CU8 c) (CU9 c) (CU10 c) (CU11 c) (CU12 c) (CU13 c) (CU14 c) (CU15 c) (CU16 c) (CU17 c) (CU18 c) (CU19 c) (CU20 c) (CU21 c) (CU22 c) (CU23 c) (CU24 c) (CU25 c) (CU26 c) (CU27 c) (CU28 c) (CU29 c) (CU30 c) (CU31 c)

/-! ## bytes stay bytes; the unused bits of `u8` stay zero (`Set("U")` even clears them) -/
theorem UB0 (c : O40) (hc : c.IsBytes) (i : Nat) (hi : i < nv 0) : (upd 0 c i).IsBytes := by
  obtain ⟨h0, h1, h2, h3, h4, h5, h6, h7, h8⟩ := hc
  exact ⟨(B0' c.u0 h0 i hi).2, h1, h2, h3, h4, h5, h6, h7, h8⟩
theorem UB1 (c : O40) (hc : c.IsBytes) (i : Nat) (hi : i < nv 1) : (upd 1 c i).IsBytes := by
  obtain ⟨h0, h1, h2, h3, h4, h5, h6, h7, h8⟩ := hc
  exact ⟨(B1' c.u0 h0 i hi).2, h1, h2, h3, h4, h5, h6, h7, h8⟩
theorem UB2 (c : O40) (hc : c.IsBytes) (i : Nat) (hi : i < nv 2) : (upd 2 c i).IsBytes := by
  obtain ⟨h0, h1, h2, h3, h4, h5, h6, h7, h8⟩ := hc
  exact ⟨(B2' c.u0 h0 i hi).2, h1, h2, h3, h4, h5, h6, h7, h8⟩
theorem UB3 (c : O40) (hc : c.IsBytes) (i : Nat) (hi : i < nv 3) : (upd 3 c i).IsBytes := by
  obtain ⟨h0, h1, h2, h3, h4, h5, h6, h7, h8⟩ := hc
  exact ⟨(B3' c.u0 h0 i hi).2, h1, h2, h3, h4, h5, h6, h7, h8⟩
theorem UB4 (c : O40) (hc : c.IsBytes) (i : Nat) (hi : i < nv 4) : (upd 4 c i).IsBytes := by
  obtain ⟨h0, h1, h2, h3, h4, h5, h6, h7, h8⟩ := hc
  exact ⟨(B4' c.u0 h0 i hi).2, h1, h2, h3, h4, h5, h6, h7, h8⟩
theorem UB5 (c : O40) (hc : c.IsBytes) (i : Nat) (hi : i < nv 5) : (upd 5 c i).IsBytes := by
  obtain ⟨h0, h1, h2, h3, h4, h5, h6, h7, h8⟩ := hc
  exact ⟨h0, (B5' c.u1 h1 i hi).2, h2, h3, h4, h5, h6, h7, h8⟩
theorem UB6 (c : O40) (hc : c.IsBytes) (i : Nat) (hi : i < nv 6) : (upd 6 c i).IsBytes := by
  obtain ⟨h0, h1, h2, h3, h4, h5, h6, h7, h8⟩ := hc
  exact ⟨h0, (B6' c.u1 h1 i hi).2, h2, h3, h4, h5, h6, h7, h8⟩
theorem UB7 (c : O40) (hc : c.IsBytes) (i : Nat) (hi : i < nv 7) : (upd 7 c i).IsBytes := by
  obtain ⟨h0, h1, h2, h3, h4, h5, h6, h7, h8⟩ := hc
  exact ⟨h0, h1, (B7' c.u2 h2 i hi).2, h3, h4, h5, h6, h7, h8⟩
theorem UB8 (c : O40) (hc : c.IsBytes) (i : Nat) (hi : i < nv 8) : (upd 8 c i).IsBytes := by
  obtain ⟨h0, h1, h2, h3, h4, h5, h6, h7, h8⟩ := hc
  exact ⟨h0, (B8' c.u1 h1 i hi).2, h2, h3, h4, h5, h6, h7, h8⟩
theorem UB9 (c : O40) (hc : c.IsBytes) (i : Nat) (hi : i < nv 9) : (upd 9 c i).IsBytes := by
  obtain ⟨h0, h1, h2, h3, h4, h5, h6, h7, h8⟩ := hc
  exact ⟨h0, (B9' c.u1 h1 i hi).2, h2, h3, h4, h5, h6, h7, h8⟩
theorem UB10 (c : O40) (hc : c.IsBytes) (i : Nat) (hi : i < nv 10) : (upd 10 c i).IsBytes := by
  obtain ⟨h0, h1, h2, h3, h4, h5, h6, h7, h8⟩ := hc
  exact ⟨h0, h1, (B10' c.u2 h2 i hi).2, h3, h4, h5, h6, h7, h8⟩
theorem UB11 (c : O40) (hc : c.IsBytes) (i : Nat) (hi : i < nv 11) : (upd 11 c i).IsBytes := by
  obtain ⟨h0, h1, h2, h3, h4, h5, h6, h7, h8⟩ := hc
  exact ⟨h0, h1, (B11' c.u2 h2 i hi).2, h3, h4, h5, h6, h7, h8⟩
theorem UB12 (c : O40) (hc : c.IsBytes) (i : Nat) (hi : i < nv 12) : (upd 12 c i).IsBytes := by
  obtain ⟨h0, h1, h2, h3, h4, h5, h6, h7, h8⟩ := hc
  exact ⟨h0, h1, (B12' c.u2 h2 i hi).2, h3, h4, h5, h6, h7, h8⟩
theorem UB13 (c : O40) (hc : c.IsBytes) (i : Nat) (hi : i < nv 13) : (upd 13 c i).IsBytes := by
  obtain ⟨h0, h1, h2, h3, h4, h5, h6, h7, h8⟩ := hc
  exact ⟨h0, h1, h2, (B13' c.u3 h3 i hi).2, h4, h5, h6, h7, h8⟩
theorem UB14 (c : O40) (hc : c.IsBytes) (i : Nat) (hi : i < nv 14) : (upd 14 c i).IsBytes := by
  obtain ⟨h0, h1, h2, h3, h4, h5, h6, h7, h8⟩ := hc
  exact ⟨h0, h1, h2, (B14' c.u3 h3 i hi).2, h4, h5, h6, h7, h8⟩
theorem UB15 (c : O40) (hc : c.IsBytes) (i : Nat) (hi : i < nv 15) : (upd 15 c i).IsBytes := by
  obtain ⟨h0, h1, h2, h3, h4, h5, h6, h7, h8⟩ := hc
  exact ⟨h0, h1, h2, (B15' c.u3 h3 i hi).2, h4, h5, h6, h7, h8⟩
theorem UB16 (c : O40) (hc : c.IsBytes) (i : Nat) (hi : i < nv 16) : (upd 16 c i).IsBytes := by
  obtain ⟨h0, h1, h2, h3, h4, h5, h6, h7, h8⟩ := hc
  exact ⟨h0, h1, h2, (B16hi' c.u3 h3 i hi).2, (B16lo' c.u4 h4 i hi).2, h5, h6, h7, h8⟩
theorem UB17 (c : O40) (hc : c.IsBytes) (i : Nat) (hi : i < nv 17) : (upd 17 c i).IsBytes := by
  obtain ⟨h0, h1, h2, h3, h4, h5, h6, h7, h8⟩ := hc
  exact ⟨h0, h1, h2, h3, (B17' c.u4 h4 i hi).2, h5, h6, h7, h8⟩
theorem UB18 (c : O40) (hc : c.IsBytes) (i : Nat) (hi : i < nv 18) : (upd 18 c i).IsBytes := by
  obtain ⟨h0, h1, h2, h3, h4, h5, h6, h7, h8⟩ := hc
  exact ⟨h0, h1, h2, h3, (B18' c.u4 h4 i hi).2, h5, h6, h7, h8⟩
theorem UB19 (c : O40) (hc : c.IsBytes) (i : Nat) (hi : i < nv 19) : (upd 19 c i).IsBytes := by
  obtain ⟨h0, h1, h2, h3, h4, h5, h6, h7, h8⟩ := hc
  exact ⟨h0, h1, h2, h3, (B19' c.u4 h4 i hi).2, h5, h6, h7, h8⟩
theorem UB20 (c : O40) (hc : c.IsBytes) (i : Nat) (hi : i < nv 20) : (upd 20 c i).IsBytes := by
  obtain ⟨h0, h1, h2, h3, h4, h5, h6, h7, h8⟩ := hc
  exact ⟨h0, h1, h2, h3, (B20hi' c.u4 h4 i hi).2, (B20lo' c.u5 h5 i hi).2, h6, h7, h8⟩
theorem UB21 (c : O40) (hc : c.IsBytes) (i : Nat) (hi : i < nv 21) : (upd 21 c i).IsBytes := by
  obtain ⟨h0, h1, h2, h3, h4, h5, h6, h7, h8⟩ := hc
  exact ⟨h0, h1, h2, h3, h4, (B21' c.u5 h5 i hi).2, h6, h7, h8⟩
theorem UB22 (c : O40) (hc : c.IsBytes) (i : Nat) (hi : i < nv 22) : (upd 22 c i).IsBytes := by
  obtain ⟨h0, h1, h2, h3, h4, h5, h6, h7, h8⟩ := hc
  exact ⟨h0, h1, h2, h3, h4, (B22' c.u5 h5 i hi).2, h6, h7, h8⟩
theorem UB23 (c : O40) (hc : c.IsBytes) (i : Nat) (hi : i < nv 23) : (upd 23 c i).IsBytes := by
  obtain ⟨h0, h1, h2, h3, h4, h5, h6, h7, h8⟩ := hc
  exact ⟨h0, h1, h2, h3, h4, (B23' c.u5 h5 i hi).2, h6, h7, h8⟩
theorem UB24 (c : O40) (hc : c.IsBytes) (i : Nat) (hi : i < nv 24) : (upd 24 c i).IsBytes := by
  obtain ⟨h0, h1, h2, h3, h4, h5, h6, h7, h8⟩ := hc
  exact ⟨h0, h1, h2, h3, h4, (B24hi' c.u5 h5 i hi).2, (B24lo' c.u6 h6 i hi).2, h7, h8⟩
theorem UB25 (c : O40) (hc : c.IsBytes) (i : Nat) (hi : i < nv 25) : (upd 25 c i).IsBytes := by
  obtain ⟨h0, h1, h2, h3, h4, h5, h6, h7, h8⟩ := hc
  exact ⟨h0, h1, h2, h3, h4, h5, (B25' c.u6 h6 i hi).2, h7, h8⟩
theorem UB26 (c : O40) (hc : c.IsBytes) (i : Nat) (hi : i < nv 26) : (upd 26 c i).IsBytes := by
  obtain ⟨h0, h1, h2, h3, h4, h5, h6, h7, h8⟩ := hc
  exact ⟨h0, h1, h2, h3, h4, h5, (B26' c.u6 h6 i hi).2, h7, h8⟩
theorem UB27 (c : O40) (hc : c.IsBytes) (i : Nat) (hi : i < nv 27) : (upd 27 c i).IsBytes := by
  obtain ⟨h0, h1, h2, h3, h4, h5, h6, h7, h8⟩ := hc
  exact ⟨h0, h1, h2, h3, h4, h5, (B27hi' c.u6 h6 i hi).2, (B27lo' c.u7 h7 i hi).2, h8⟩
theorem UB28 (c : O40) (hc : c.IsBytes) (i : Nat) (hi : i < nv 28) : (upd 28 c i).IsBytes := by
  obtain ⟨h0, h1, h2, h3, h4, h5, h6, h7, h8⟩ := hc
  exact ⟨h0, h1, h2, h3, h4, h5, h6, (B28' c.u7 h7 i hi).2, h8⟩
theorem UB29 (c : O40) (hc : c.IsBytes) (i : Nat) (hi : i < nv 29) : (upd 29 c i).IsBytes := by
  obtain ⟨h0, h1, h2, h3, h4, h5, h6, h7, h8⟩ := hc
  exact ⟨h0, h1, h2, h3, h4, h5, h6, (B29' c.u7 h7 i hi).2, h8⟩
theorem UB30 (c : O40) (hc : c.IsBytes) (i : Nat) (hi : i < nv 30) : (upd 30 c i).IsBytes := by
  obtain ⟨h0, h1, h2, h3, h4, h5, h6, h7, h8⟩ := hc
  exact ⟨h0, h1, h2, h3, h4, h5, h6, (B30' c.u7 h7 i hi).2, h8⟩
theorem UB31 (c : O40) (hc : c.IsBytes) (i : Nat) (hi : i < nv 31) : (upd 31 c i).IsBytes := by
  obtain ⟨h0, h1, h2, h3, h4, h5, h6, h7, h8⟩ := hc
  exact ⟨h0, h1, h2, h3, h4, h5, h6, (B31hi' c.u7 h7 i hi).2, (B31lo' c.u8 h8 i hi).2⟩
theorem upd_isBytes (c : O40) (hc : c.IsBytes) : ∀ k, k < 32 → ∀ i, i < nv k → (upd k c i).IsBytes :=
  all32 (UB0 c hc) (UB1 c hc) (UB2 c hc) (UB3 c hc) (UB4 c hc) (UB5 c hc) (UB6 c hc) (UB7 c hc) (UB8 c hc) (UB9 c hc) (UB10 c hc) (UB11 c hc) (UB12 c hc) (UB13 c hc) (UB14 c hc) (UB15 c hc) (UB16 c hc) (UB17 c hc) (UB18 c hc) (UB19 c hc) (UB20 c hc) (UB21 c hc) (UB22 c hc) (UB23 c hc) (UB24 c hc) (UB25 c hc) (UB26 c hc) (UB27 c hc) (UB28 c hc) (UB29 c hc) (UB30 c hc) (UB31 c hc)

theorem W31l_low : ∀ i, i < nv 31 → W31l 0 i % 64 = 0 := by decide
/-- every arm except `U` leaves `u8` alone -/
theorem upd_u8 (c : O40) (i : Nat) : ∀ k, k < 32 → k ≠ 31 → (upd k c i).u8 = c.u8 :=
  all32 (fun _ => rfl) (fun _ => rfl) (fun _ => rfl) (fun _ => rfl) (fun _ => rfl) (fun _ => rfl) (fun _ => rfl) (fun _ => rfl) (fun _ => rfl) (fun _ => rfl) (fun _ => rfl) (fun _ => rfl) (fun _ => rfl) (fun _ => rfl) (fun _ => rfl) (fun _ => rfl) (fun _ => rfl) (fun _ => rfl) (fun _ => rfl) (fun _ => rfl) (fun _ => rfl) (fun _ => rfl) (fun _ => rfl) (fun _ => rfl) (fun _ => rfl) (fun _ => rfl) (fun _ => rfl) (fun _ => rfl) (fun _ => rfl) (fun _ => rfl) (fun _ => rfl) (fun h => absurd rfl h)
/-- the `U` arm overwrites `u8` without keeping its low six bits -/
theorem upd_u8_U (c : O40) (i : Nat) (hi : i < nv 31) : (upd 31 c i).u8 % 64 = 0 := W31l_low i hi
theorem upd_u8_low (c : O40) (h : c.u8 % 64 = 0) (k : Nat) (hk : k < 32) (i : Nat) (hi : i < nv k) :
    (upd k c i).u8 % 64 = 0 := by
  by_cases e : k = 31
  · subst e; exact upd_u8_U c i hi
  · rw [upd_u8 c i k hk e]; exact h

/-! ## the pieces determine the byte -/
def enc0 (ps : List Nat) : Nat := ps.getD 0 0 * 64 + ps.getD 1 0 * 32 + ps.getD 2 0 * 16 + ps.getD 3 0 * 4 + ps.getD 4 0 * 1
theorem E0 : ∀ u, u < 256 → enc0 (D0 u) = u := by decide +kernel
def enc1 (ps : List Nat) : Nat := ps.getD 0 0 * 64 + ps.getD 1 0 * 16 + ps.getD 2 0 * 4 + ps.getD 3 0 * 1
theorem E1 : ∀ u, u < 256 → enc1 (D1 u) = u := by decide +kernel
def enc2 (ps : List Nat) : Nat := ps.getD 0 0 * 64 + ps.getD 1 0 * 16 + ps.getD 2 0 * 4 + ps.getD 3 0 * 1
theorem E2 : ∀ u, u < 256 → enc2 (D2 u) = u := by decide +kernel
def enc3 (ps : List Nat) : Nat := ps.getD 0 0 * 64 + ps.getD 1 0 * 16 + ps.getD 2 0 * 2 + ps.getD 3 0 / 2
theorem E3 : ∀ u, u < 256 → enc3 (D3 u) = u := by decide +kernel
def enc4 (ps : List Nat) : Nat := ps.getD 0 0 * 128 + ps.getD 1 0 * 32 + ps.getD 2 0 * 8 + ps.getD 3 0 * 2 + ps.getD 4 0 / 2
theorem E4 : ∀ u, u < 256 → enc4 (D4 u) = u := by decide +kernel
def enc5 (ps : List Nat) : Nat := ps.getD 0 0 * 128 + ps.getD 1 0 * 32 + ps.getD 2 0 * 8 + ps.getD 3 0 * 2 + ps.getD 4 0 / 4
theorem E5 : ∀ u, u < 256 → enc5 (D5 u) = u := by decide +kernel
def enc6 (ps : List Nat) : Nat := ps.getD 0 0 * 64 + ps.getD 1 0 * 8 + ps.getD 2 0 * 2 + ps.getD 3 0 / 2
theorem E6 : ∀ u, u < 256 → enc6 (D6 u) = u := by decide +kernel
def enc7 (ps : List Nat) : Nat := ps.getD 0 0 * 128 + ps.getD 1 0 * 32 + ps.getD 2 0 * 8 + ps.getD 3 0 * 2 + ps.getD 4 0 / 4
theorem E7 : ∀ u, u < 256 → enc7 (D7 u) = u := by decide +kernel
def enc8 (ps : List Nat) : Nat := ps.getD 0 0 * 64
theorem E8 : ∀ u, u < 256 → enc8 (D8 u) + u % 64 = u := by decide +kernel

/-! ## split fields: both parts can be read back from the code -/
theorem RH16 : ∀ u, u < 256 → ((D3 u).getD 3 0 = 0 ∨ (D3 u).getD 3 0 = 2) := by decide +kernel
theorem RL16 : ∀ u, u < 256 → (D4 u).getD 0 0 < 2 := by decide +kernel
theorem RH20 : ∀ u, u < 256 → ((D4 u).getD 4 0 = 0 ∨ (D4 u).getD 4 0 = 2) := by decide +kernel
theorem RL20 : ∀ u, u < 256 → (D5 u).getD 0 0 < 2 := by decide +kernel
theorem RH24 : ∀ u, u < 256 → ((D5 u).getD 4 0 = 0 ∨ (D5 u).getD 4 0 = 4) := by decide +kernel
theorem RL24 : ∀ u, u < 256 → (D6 u).getD 0 0 < 4 := by decide +kernel
theorem RH27 : ∀ u, u < 256 → ((D6 u).getD 3 0 = 0 ∨ (D6 u).getD 3 0 = 2) := by decide +kernel
theorem RL27 : ∀ u, u < 256 → (D7 u).getD 0 0 < 2 := by decide +kernel
theorem RH31 : ∀ u, u < 256 → ((D7 u).getD 4 0 = 0 ∨ (D7 u).getD 4 0 = 4) := by decide +kernel
theorem RL31 : ∀ u, u < 256 → (D8 u).getD 0 0 < 4 := by decide +kernel
theorem JJ2 : ∀ h, (h = 0 ∨ h = 2) → ∀ l, l < 2 → Nat.land (Nat.lor h l) 2 = h ∧ Nat.land (Nat.lor h l) 1 = l := by
  intro h hh; rcases hh with rfl | rfl <;> decide
theorem JJ4 : ∀ h, (h = 0 ∨ h = 4) → ∀ l, l < 4 → Nat.land (Nat.lor h l) 4 = h ∧ Nat.land (Nat.lor h l) 3 = l := by
  intro h hh; rcases hh with rfl | rfl <;> decide

/-- the pieces of all nine bytes, recomputed from the code vector -/
def piecesOf (cs : List Nat) : List (List Nat) :=
  [[cs.getD 0 0, cs.getD 1 0, cs.getD 2 0, cs.getD 3 0, cs.getD 4 0],
   [cs.getD 5 0, cs.getD 8 0, cs.getD 6 0, cs.getD 9 0],
   [cs.getD 7 0, cs.getD 10 0, cs.getD 11 0, cs.getD 12 0],
   [cs.getD 13 0, cs.getD 14 0, cs.getD 15 0, Nat.land (cs.getD 16 0) 2],
   [Nat.land (cs.getD 16 0) 1, cs.getD 17 0, cs.getD 18 0, cs.getD 19 0, Nat.land (cs.getD 20 0) 2],
   [Nat.land (cs.getD 20 0) 1, cs.getD 21 0, cs.getD 22 0, cs.getD 23 0, Nat.land (cs.getD 24 0) 4],
   [Nat.land (cs.getD 24 0) 3, cs.getD 25 0, cs.getD 26 0, Nat.land (cs.getD 27 0) 2],
   [Nat.land (cs.getD 27 0) 1, cs.getD 28 0, cs.getD 29 0, cs.getD 30 0, Nat.land (cs.getD 31 0) 4],
   [Nat.land (cs.getD 31 0) 3]]

theorem piecesOf_codes (c : O40) (hc : c.IsBytes) :
    piecesOf (codes c) = [D0 c.u0, D1 c.u1, D2 c.u2, D3 c.u3, D4 c.u4, D5 c.u5, D6 c.u6, D7 c.u7, D8 c.u8] := by
  obtain ⟨h0, h1, h2, h3, h4, h5, h6, h7, h8⟩ := hc
  have s16 := JJ2 _ (RH16 c.u3 h3) _ (RL16 c.u4 h4)
  have s20 := JJ2 _ (RH20 c.u4 h4) _ (RL20 c.u5 h5)
  have s24 := JJ4 _ (RH24 c.u5 h5) _ (RL24 c.u6 h6)
  have s27 := JJ2 _ (RH27 c.u6 h6) _ (RL27 c.u7 h7)
  have s31 := JJ4 _ (RH31 c.u7 h7) _ (RL31 c.u8 h8)
  simp only [piecesOf, codes, List.getD_cons_zero, List.getD_cons_succ, s16.1, s16.2, s20.1, s20.2, s24.1, s24.2, s27.1, s27.2, s31.1, s31.2]
  rfl

/-- two byte objects with the same unused bits (low six bits of `u8`) and the same codes are the same object:
    the 32 codes and `u8 % 64` are a complete, non-redundant description of the nine bytes -/
theorem eq_of_codes (c c' : O40) (hc : c.IsBytes) (hc' : c'.IsBytes) (h8 : c.u8 % 64 = c'.u8 % 64)
    (h : codes c = codes c') : c = c' := by
  have e := piecesOf_codes c hc
  rw [h, piecesOf_codes c' hc'] at e
  obtain ⟨a0, a1, a2, a3, a4, a5, a6, a7, a8⟩ := hc
  obtain ⟨b0, b1, b2, b3, b4, b5, b6, b7, b8⟩ := hc'
  simp only [List.cons.injEq, and_true] at e
  obtain ⟨e0, e1, e2, e3, e4, e5, e6, e7, e8⟩ := e
  have f0 := (E0 _ a0).symm.trans ((congrArg enc0 e0.symm).trans (E0 _ b0))
  have f1 := (E1 _ a1).symm.trans ((congrArg enc1 e1.symm).trans (E1 _ b1))
  have f2 := (E2 _ a2).symm.trans ((congrArg enc2 e2.symm).trans (E2 _ b2))
  have f3 := (E3 _ a3).symm.trans ((congrArg enc3 e3.symm).trans (E3 _ b3))
  have f4 := (E4 _ a4).symm.trans ((congrArg enc4 e4.symm).trans (E4 _ b4))
  have f5 := (E5 _ a5).symm.trans ((congrArg enc5 e5.symm).trans (E5 _ b5))
  have f6 := (E6 _ a6).symm.trans ((congrArg enc6 e6.symm).trans (E6 _ b6))
  have f7 := (E7 _ a7).symm.trans ((congrArg enc7 e7.symm).trans (E7 _ b7))
  have f8 : c.u8 = c'.u8 := by
    have x := E8 _ a8
    have y := E8 _ b8
    rw [e8] at y
    omega
  cases c; cases c'
  simp only [O40.mk.injEq]
  exact ⟨f0, f1, f2, f3, f4, f5, f6, f7, f8⟩

end Proofs.B40
