import Cvss.Proofs.Mono4Bridge0
import Cvss.Proofs.Mono4Bridge1
import Cvss.Proofs.Mono4Bridge2
import Cvss.Proofs.Mono4Bridge3
import Cvss.Proofs.Mono4Bridge4
import Cvss.Proofs.Mono4Bridge5
import Cvss.Proofs.Mono4Tab1
import Cvss.Proofs.Mono4Tab2
import Cvss.Proofs.Mono4Tab36
import Cvss.Proofs.Mono4Tab4
import Cvss.Proofs.Mono4Tab5
import Cvss.Proofs.Score4TailAll
/-!
# v4.0 monotonicity: the kernel-checked tables, as lemmas

* `bridge_sum`: on summaries taken from `S1 … S5`, the Spec's `scoreOf` is `scoreSum` (primitive form), and ≥ 1.
* `mono1 … mono5`: for every listed transition of one EQ group and every context (summaries of the other groups
  from their lists), `scoreSum` does not decrease.
-/
namespace Proofs.Mono4
open Proofs.Score4 (mvList mem_mvList)

def bridgeAllOk : Bool := mvList.all fun mv => bridgeOkMV mv.1 mv.2.1 mv.2.2.1 mv.2.2.2.1 mv.2.2.2.2.1 mv.2.2.2.2.2

set_option maxRecDepth 100000 in
set_option maxHeartbeats 4000000 in
theorem bridgeAllOk_true : bridgeAllOk = true := by
  simp only [bridgeAllOk, mvList, List.all_cons, List.all_nil, Bool.and_true,
    bridge_000000, bridge_000001, bridge_000010, bridge_000011, bridge_000020, bridge_000021, bridge_000100, bridge_000101,
    bridge_000110, bridge_000111, bridge_000120, bridge_000121, bridge_000200, bridge_000201, bridge_000210, bridge_000211,
    bridge_000220, bridge_000221, bridge_001000, bridge_001001, bridge_001010, bridge_001011, bridge_001020, bridge_001021,
    bridge_001100, bridge_001101, bridge_001110, bridge_001111, bridge_001120, bridge_001121, bridge_001200, bridge_001201,
    bridge_001210, bridge_001211, bridge_001220, bridge_001221, bridge_002001, bridge_002011, bridge_002021, bridge_002101,
    bridge_002111, bridge_002121, bridge_002201, bridge_002211, bridge_002221, bridge_010000, bridge_010001, bridge_010010,
    bridge_010011, bridge_010020, bridge_010021, bridge_010100, bridge_010101, bridge_010110, bridge_010111, bridge_010120,
    bridge_010121, bridge_010200, bridge_010201, bridge_010210, bridge_010211, bridge_010220, bridge_010221, bridge_011000,
    bridge_011001, bridge_011010, bridge_011011, bridge_011020, bridge_011021, bridge_011100, bridge_011101, bridge_011110,
    bridge_011111, bridge_011120, bridge_011121, bridge_011200, bridge_011201, bridge_011210, bridge_011211, bridge_011220,
    bridge_011221, bridge_012001, bridge_012011, bridge_012021, bridge_012101, bridge_012111, bridge_012121, bridge_012201,
    bridge_012211, bridge_012221, bridge_100000, bridge_100001, bridge_100010, bridge_100011, bridge_100020, bridge_100021,
    bridge_100100, bridge_100101, bridge_100110, bridge_100111, bridge_100120, bridge_100121, bridge_100200, bridge_100201,
    bridge_100210, bridge_100211, bridge_100220, bridge_100221, bridge_101000, bridge_101001, bridge_101010, bridge_101011,
    bridge_101020, bridge_101021, bridge_101100, bridge_101101, bridge_101110, bridge_101111, bridge_101120, bridge_101121,
    bridge_101200, bridge_101201, bridge_101210, bridge_101211, bridge_101220, bridge_101221, bridge_102001, bridge_102011,
    bridge_102021, bridge_102101, bridge_102111, bridge_102121, bridge_102201, bridge_102211, bridge_102221, bridge_110000,
    bridge_110001, bridge_110010, bridge_110011, bridge_110020, bridge_110021, bridge_110100, bridge_110101, bridge_110110,
    bridge_110111, bridge_110120, bridge_110121, bridge_110200, bridge_110201, bridge_110210, bridge_110211, bridge_110220,
    bridge_110221, bridge_111000, bridge_111001, bridge_111010, bridge_111011, bridge_111020, bridge_111021, bridge_111100,
    bridge_111101, bridge_111110, bridge_111111, bridge_111120, bridge_111121, bridge_111200, bridge_111201, bridge_111210,
    bridge_111211, bridge_111220, bridge_111221, bridge_112001, bridge_112011, bridge_112021, bridge_112101, bridge_112111,
    bridge_112121, bridge_112201, bridge_112211, bridge_112221, bridge_200000, bridge_200001, bridge_200010, bridge_200011,
    bridge_200020, bridge_200021, bridge_200100, bridge_200101, bridge_200110, bridge_200111, bridge_200120, bridge_200121,
    bridge_200200, bridge_200201, bridge_200210, bridge_200211, bridge_200220, bridge_200221, bridge_201000, bridge_201001,
    bridge_201010, bridge_201011, bridge_201020, bridge_201021, bridge_201100, bridge_201101, bridge_201110, bridge_201111,
    bridge_201120, bridge_201121, bridge_201200, bridge_201201, bridge_201210, bridge_201211, bridge_201220, bridge_201221,
    bridge_202001, bridge_202011, bridge_202021, bridge_202101, bridge_202111, bridge_202121, bridge_202201, bridge_202211,
    bridge_202221, bridge_210000, bridge_210001, bridge_210010, bridge_210011, bridge_210020, bridge_210021, bridge_210100,
    bridge_210101, bridge_210110, bridge_210111, bridge_210120, bridge_210121, bridge_210200, bridge_210201, bridge_210210,
    bridge_210211, bridge_210220, bridge_210221, bridge_211000, bridge_211001, bridge_211010, bridge_211011, bridge_211020,
    bridge_211021, bridge_211100, bridge_211101, bridge_211110, bridge_211111, bridge_211120, bridge_211121, bridge_211200,
    bridge_211201, bridge_211210, bridge_211211, bridge_211220, bridge_211221, bridge_212001, bridge_212011, bridge_212021,
    bridge_212101, bridge_212111, bridge_212121, bridge_212201, bridge_212211, bridge_212221]

/-- the Spec's `scoreOf` in primitive form, on every MacroVector and every distance tuple within the depths -/
theorem bridge_all {q1 q2 q3 q4 q5 q6 : Nat} (h1 : q1 < 3) (h2 : q2 < 2) (h3 : q3 < 3) (h4 : q4 < 3)
    (h5 : q5 < 3) (h6 : q6 < 2) (h : ¬(q3 = 2 ∧ q6 = 0))
    {d1 d2 d36 d4 : Nat} (hd1 : d1 < Spec.V4.depth1P1 q1) (hd2 : d2 < Spec.V4.depth2P1 q2)
    (hd36 : d36 < Spec.V4.depth36P1 q3 q6) (hd4 : d4 < Spec.V4.depth4P1 q4) :
    Spec.V4.scoreOf (q1, q2, q3, q4, q5, q6) d1 d2 d36 d4 0 = scoreP q1 q2 q3 q4 q5 q6 d1 d2 d36 d4 ∧
      1 ≤ scoreP q1 q2 q3 q4 q5 q6 d1 d2 d36 d4 := by
  have hm := mem_mvList h1 h2 h3 h4 h5 h6 h
  have hb := List.all_eq_true.mp bridgeAllOk_true _ hm
  unfold bridgeOkMV at hb
  have := List.all_eq_true.mp hb d1 (List.mem_range.mpr hd1)
  have := List.all_eq_true.mp this d2 (List.mem_range.mpr hd2)
  have := List.all_eq_true.mp this d36 (List.mem_range.mpr hd36)
  have := List.all_eq_true.mp this d4 (List.mem_range.mpr hd4)
  rw [flet_eq] at this
  simp only [Bool.and_eq_true] at this
  exact ⟨Nat.eq_of_beq_eq_true this.1, Nat.le_of_ble_eq_true this.2⟩

/-! ## bounds of the listed summaries -/

theorem S1_ok : (S1.all fun s => s.1 < 3 && s.2 < Spec.V4.depth1P1 s.1) = true := by decide
theorem S2_ok : (S2.all fun s => s.1 < 2 && s.2 < Spec.V4.depth2P1 s.1) = true := by decide
theorem S36_ok : (S36.all fun s => s.1 < 3 && s.2.1 < 2 && !(s.1 == 2 && s.2.1 == 0) &&
    s.2.2 < Spec.V4.depth36P1 s.1 s.2.1) = true := by decide
theorem S4_ok : (S4.all fun s => s.1 < 3 && s.2 < Spec.V4.depth4P1 s.1) = true := by decide

/-- the Spec's `scoreOf` on listed summaries -/
theorem bridge_sum {s1 s2 : Nat × Nat} {s36 : Nat × Nat × Nat} {s4 : Nat × Nat} {q5 : Nat}
    (m1 : s1 ∈ S1) (m2 : s2 ∈ S2) (m36 : s36 ∈ S36) (m4 : s4 ∈ S4) (m5 : q5 ∈ S5) :
    Spec.V4.scoreOf (s1.1, s2.1, s36.1, s4.1, q5, s36.2.1) s1.2 s2.2 s36.2.2 s4.2 0 = scoreSum s1 s2 s36 s4 q5 ∧
      1 ≤ scoreSum s1 s2 s36 s4 q5 := by
  have b1 := List.all_eq_true.mp S1_ok _ m1
  have b2 := List.all_eq_true.mp S2_ok _ m2
  have b36 := List.all_eq_true.mp S36_ok _ m36
  have b4 := List.all_eq_true.mp S4_ok _ m4
  simp only [Bool.and_eq_true, decide_eq_true_eq, Bool.not_eq_true', Bool.and_eq_false_iff, beq_eq_false_iff_ne] at b1 b2 b36 b4
  have b5 : q5 < 3 := by
    simp only [S5, List.mem_cons, List.not_mem_nil, or_false] at m5; omega
  exact bridge_all b1.1 b2.1 b36.1.1.1 b4.1 b5 b36.1.1.2 (by intro ⟨a, b⟩; rcases b36.1.2 with h | h <;> simp_all)
    b1.2 b2.2 b36.2 b4.2

/-! ## monotonicity tables -/

theorem mem_S5 {q5 : Nat} (h : q5 ∈ S5) : q5 = 0 ∨ q5 = 1 ∨ q5 = 2 := by
  simpa [S5] using h

theorem mono1 {s2 : Nat × Nat} {s36 : Nat × Nat × Nat} {s4 : Nat × Nat} {q5 : Nat}
    (m2 : s2 ∈ S2) (m36 : s36 ∈ S36) (m4 : s4 ∈ S4) (m5 : q5 ∈ S5) {t : Nat × Nat} (ht : t ∈ tr1) :
    scoreSum (S1.getD t.1 (0, 0)) s2 s36 s4 q5 ≤ scoreSum (S1.getD t.2 (0, 0)) s2 s36 s4 q5 := by
  have hb := List.all_eq_true.mp tr_bounds.1 t ht
  simp only [Bool.and_eq_true, decide_eq_true_eq] at hb
  have hall : mono1Ok q5 = true := by
    rcases mem_S5 m5 with rfl | rfl | rfl
    · exact mono1_q0
    · exact mono1_q1
    · exact mono1_q2
  unfold mono1Ok at hall
  have := List.all_eq_true.mp (List.all_eq_true.mp (List.all_eq_true.mp hall s2 m2) s36 m36) s4 m4
  exact chkP_elim (fun s1 => scoreSum s1 s2 s36 s4 q5) S1 (0, 0) (fun _ => scoreSum_lt ..) tr1 this t ht
    (by rw [S_lengths.1]; exact hb.1) (by rw [S_lengths.1]; exact hb.2)

theorem mono2 {s1 : Nat × Nat} {s36 : Nat × Nat × Nat} {s4 : Nat × Nat} {q5 : Nat}
    (m1 : s1 ∈ S1) (m36 : s36 ∈ S36) (m4 : s4 ∈ S4) (m5 : q5 ∈ S5) {t : Nat × Nat} (ht : t ∈ tr2) :
    scoreSum s1 (S2.getD t.1 (0, 0)) s36 s4 q5 ≤ scoreSum s1 (S2.getD t.2 (0, 0)) s36 s4 q5 := by
  have hb := List.all_eq_true.mp tr_bounds.2.1 t ht
  simp only [Bool.and_eq_true, decide_eq_true_eq] at hb
  have hall : mono2Ok q5 = true := by
    rcases mem_S5 m5 with rfl | rfl | rfl
    · exact mono2_q0
    · exact mono2_q1
    · exact mono2_q2
  unfold mono2Ok at hall
  have := List.all_eq_true.mp (List.all_eq_true.mp (List.all_eq_true.mp hall s1 m1) s36 m36) s4 m4
  exact chkP_elim (fun s2 => scoreSum s1 s2 s36 s4 q5) S2 (0, 0) (fun _ => scoreSum_lt ..) tr2 this t ht
    (by rw [S_lengths.2.1]; exact hb.1) (by rw [S_lengths.2.1]; exact hb.2)

theorem mono36 {s1 s2 : Nat × Nat} {s4 : Nat × Nat} {q5 : Nat}
    (m1 : s1 ∈ S1) (m2 : s2 ∈ S2) (m4 : s4 ∈ S4) (m5 : q5 ∈ S5) {t : Nat × Nat} (ht : t ∈ tr36) :
    scoreSum s1 s2 (S36.getD t.1 (0, 0, 0)) s4 q5 ≤ scoreSum s1 s2 (S36.getD t.2 (0, 0, 0)) s4 q5 := by
  have hb := List.all_eq_true.mp tr_bounds.2.2.1 t ht
  simp only [Bool.and_eq_true, decide_eq_true_eq] at hb
  have hall : mono36Ok q5 = true := by
    rcases mem_S5 m5 with rfl | rfl | rfl
    · exact mono36_q0
    · exact mono36_q1
    · exact mono36_q2
  unfold mono36Ok at hall
  have := List.all_eq_true.mp (List.all_eq_true.mp (List.all_eq_true.mp hall s1 m1) s2 m2) s4 m4
  exact chkP_elim (fun s36 => scoreSum s1 s2 s36 s4 q5) S36 (0, 0, 0) (fun _ => scoreSum_lt ..) tr36 this t ht
    (by rw [S_lengths.2.2.1]; exact hb.1) (by rw [S_lengths.2.2.1]; exact hb.2)

theorem mono4 {s1 s2 : Nat × Nat} {s36 : Nat × Nat × Nat} {q5 : Nat}
    (m1 : s1 ∈ S1) (m2 : s2 ∈ S2) (m36 : s36 ∈ S36) (m5 : q5 ∈ S5) {t : Nat × Nat} (ht : t ∈ tr4) :
    scoreSum s1 s2 s36 (S4.getD t.1 (0, 0)) q5 ≤ scoreSum s1 s2 s36 (S4.getD t.2 (0, 0)) q5 := by
  have hb := List.all_eq_true.mp tr_bounds.2.2.2.1 t ht
  simp only [Bool.and_eq_true, decide_eq_true_eq] at hb
  have hall : mono4Ok q5 = true := by
    rcases mem_S5 m5 with rfl | rfl | rfl
    · exact mono4_q0
    · exact mono4_q1
    · exact mono4_q2
  unfold mono4Ok at hall
  have := List.all_eq_true.mp (List.all_eq_true.mp (List.all_eq_true.mp hall s1 m1) s2 m2) s36 m36
  exact chkP_elim (fun s4 => scoreSum s1 s2 s36 s4 q5) S4 (0, 0) (fun _ => scoreSum_lt ..) tr4 this t ht
    (by rw [S_lengths.2.2.2.1]; exact hb.1) (by rw [S_lengths.2.2.2.1]; exact hb.2)

theorem mono5 {s1 s2 : Nat × Nat} {s36 : Nat × Nat × Nat} {s4 : Nat × Nat}
    (m1 : s1 ∈ S1) (m2 : s2 ∈ S2) (m36 : s36 ∈ S36) (m4 : s4 ∈ S4) {t : Nat × Nat} (ht : t ∈ tr5) :
    scoreSum s1 s2 s36 s4 (S5.getD t.1 0) ≤ scoreSum s1 s2 s36 s4 (S5.getD t.2 0) := by
  have hb := List.all_eq_true.mp tr_bounds.2.2.2.2 t ht
  simp only [Bool.and_eq_true, decide_eq_true_eq] at hb
  have hall := List.all_eq_true.mp mono5_all s1 m1
  unfold mono5Ok at hall
  have := List.all_eq_true.mp (List.all_eq_true.mp (List.all_eq_true.mp hall s2 m2) s36 m36) s4 m4
  exact chkP_elim (fun q5 => scoreSum s1 s2 s36 s4 q5) S5 0 (fun _ => scoreSum_lt ..) tr5 this t ht
    (by rw [S_lengths.2.2.2.2]; exact hb.1) (by rw [S_lengths.2.2.2.2]; exact hb.2)

end Proofs.Mono4
