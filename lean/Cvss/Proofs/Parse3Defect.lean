import Cvss.Proofs.Parse3Loop
/-!
# v3 parser proofs, part 4: the error value for each kind of single defect (for C18)

Each lemma takes a witness list (`IsWit`), damages it in one way and computes `Model.parse3` on the
rendering. Generic in the header and in the `Contract`.
-/
namespace Proofs.Parse3
open Spec (Bytes Pair Metric render joinSlash legal isMetric findMetric abvs valueOf allLegal SLASH COLON insertAt)

variable {O : Type}

/-- `hdr/p₁/…/pₙ` -/
def rend (hdr : Bytes) (L : List Pair) : Bytes := hdr ++ SLASH :: joinSlash (L.map render)

theorem parse3_rend (hdr : Bytes) (zero : O) (set : O → Bytes → Bytes → O × Go.Err) (L : List Pair)
    (hne : L ≠ []) (hs : ∀ p ∈ L, SLASH ∉ render p) :
    Model.parse3 (hdr ++ [SLASH]) zero set (rend hdr L) = Model.loop3 set (L.map render) zero [] := by
  unfold rend
  apply parse3_join
  · simpa using hne
  · intro x hx
    obtain ⟨p, hp, rfl⟩ := List.mem_map.mp hx
    exact hs p hp

theorem render_no_slash' {a v : Bytes} (ha : SLASH ∉ a) (hv : SLASH ∉ v) : SLASH ∉ render (a, v) := by
  intro hin
  rcases List.mem_append.mp hin with h | h
  · exact ha h
  · rcases List.mem_cons.mp h with h | h
    · exact absurd h (by decide)
    · exact hv h

/-- a prefix of legal, fresh, pairwise distinct pairs is consumed without error -/
theorem loop3_prefix (K : Contract O Spec.V3.metrics) (l1 : List Pair) (hl : allLegal Spec.V3.metrics l1)
    (hn : (l1.map (·.1)).Nodup) (rest : List Bytes) (c : O) (seen : List Bytes)
    (hd : ∀ x ∈ l1.map (·.1), x ∉ seen) :
    Model.loop3 K.set (l1.map render ++ rest) c seen =
      Model.loop3 K.set rest (setAll K c l1) ((l1.map (·.1)).reverse ++ seen) := by
  rw [loop3_legal K l1 hl, (firstDup_none_iff _ _).mpr ⟨hn, hd⟩]

/-- header defect: anything that does not start with the header -/
theorem defect_header (hdr : Bytes) (zero : O) (set : O → Bytes → Bytes → O × Go.Err) (s : Bytes)
    (h : hdr.isPrefixOf s = false) : Model.parse3 (hdr ++ [SLASH]) zero set s = .err Model.eHeader := by
  apply parse3_no_prefix
  intro hp
  have : hdr <+: s := (List.prefix_append hdr [SLASH]).trans hp
  rw [← List.isPrefixOf_iff_prefix, h] at this
  cases this

/-- header defect in the Spec's terms: the part of the string before its first `/` is not the header
    (this includes the header followed by junk) -/
theorem defect_header_headOf (hdr : Bytes) (hh : SLASH ∉ hdr) (zero : O) (set : O → Bytes → Bytes → O × Go.Err)
    (s : Bytes) (h : Spec.headOf s ≠ hdr) : Model.parse3 (hdr ++ [SLASH]) zero set s = .err Model.eHeader := by
  apply parse3_no_prefix
  intro hp
  exact h ((Spec.headOf_eq_iff s hdr hh).mpr (Or.inr hp))

/-- illegal value in one element -/
theorem defect_illegal (K : Contract O Spec.V3.metrics) (hdr : Bytes) (l1 l2 : List Pair) (a x v : Bytes)
    (hw : IsWit (l1 ++ (a, x) :: l2)) (hv : legal Spec.V3.metrics a v = false) (hs : SLASH ∉ v) :
    Model.parse3 (hdr ++ [SLASH]) K.zero K.set (rend hdr (l1 ++ (a, v) :: l2)) = .err Model.eValue := by
  have hax : legal Spec.V3.metrics a x = true := hw.1 (a, x) (by simp)
  obtain ⟨m, _, _, _, _, hcol, hsl, _, _⟩ := legal_v3 hax
  have hl1 : allLegal Spec.V3.metrics l1 := fun p hp => hw.1 p (by simp [hp])
  have hl2 : allLegal Spec.V3.metrics l2 := fun p hp => hw.1 p (by simp [hp])
  have hn := hw.2.1
  rw [List.map_append, List.map_cons, List.nodup_append] at hn
  obtain ⟨hn1, hn2, hn3⟩ := hn
  have hfresh : a ∉ (l1.map (·.1)).reverse ++ [] := by
    intro hin
    have : a ∈ l1.map (·.1) := by simpa using hin
    exact hn3 a this a (by simp) rfl
  have hcut : Model.cutColon (render (a, v)) = (a, v) := cutColon_render a v hcol
  rw [parse3_rend]
  · rw [List.map_append, List.map_cons, loop3_prefix K l1 hl1 hn1 _ _ _ (by simp), loop3_cons, hcut,
      kvmSet_fresh _ a (isMetric_of_legal hax) hfresh]
    simp only [K.set_illegal _ a v (isMetric_of_legal hax) hv]
    rw [if_neg eValue_ne_nil]
  · simp
  · intro p hp
    rcases List.mem_append.mp hp with hp | hp
    · exact render_no_slash (hl1 p hp)
    · rcases List.mem_cons.mp hp with rfl | hp
      · exact render_no_slash' hsl hs
      · exact render_no_slash (hl2 p hp)

/-- one mandatory metric removed -/
theorem defect_remove (K : Contract O Spec.V3.metrics) (hdr : Bytes) (l1 l2 : List Pair) (a x : Bytes)
    (hw : IsWit (l1 ++ (a, x) :: l2)) (ha : a ∈ abvs Spec.V3.base) :
    Model.parse3 (hdr ++ [SLASH]) K.zero K.set (rend hdr (l1 ++ l2)) = .err (Model.eMissing a) := by
  have hl : allLegal Spec.V3.metrics (l1 ++ l2) := by
    intro p hp
    rcases List.mem_append.mp hp with hp | hp
    · exact hw.1 p (by simp [hp])
    · exact hw.1 p (by simp [hp])
  have hn := hw.2.1
  rw [List.map_append, List.map_cons] at hn
  have hn' : ((l1 ++ l2).map (·.1)).Nodup := by
    rw [List.map_append]
    exact hn.sublist (List.Sublist.append_left (List.sublist_cons_self _ _) _)
  have hnot : a ∉ (l1 ++ l2).map (·.1) := by
    rw [List.map_append]
    have := (List.perm_middle.nodup_iff.mp hn)
    rw [List.nodup_cons] at this
    exact this.1
  have hothers : ∀ b ∈ abvs Spec.V3.base, b ≠ a → b ∈ (l1 ++ l2).map (·.1) := by
    intro b hb hne
    obtain ⟨m, hm, rfl⟩ := List.mem_map.mp hb
    have := hw.2.2 m hm
    rw [List.map_append, List.map_cons, List.mem_append, List.mem_cons] at this
    rw [List.map_append, List.mem_append]
    rcases this with h | h | h
    · exact Or.inl h
    · exact absurd h hne
    · exact Or.inr h
  have hne : l1 ++ l2 ≠ [] := by
    obtain ⟨h1, h2, h3⟩ := tbl_two_base
    intro he
    by_cases hav : Spec.b "AV" = a
    · have := hothers _ h2 (fun h => h3 (hav.trans h.symm))
      rw [he] at this; cases this
    · have := hothers _ h1 hav
      rw [he] at this; cases this
  rw [parse3_rend _ _ _ _ hne (fun p hp => render_no_slash (hl p hp))]
  have := loop3_prefix K (l1 ++ l2) hl hn' [] K.zero [] (by simp)
  rw [List.append_nil] at this
  rw [this, loop3_nil, firstMissing_unique _ a ha
    (by rw [List.append_nil, List.mem_reverse]; exact hnot)
    (fun b hb hne => by rw [List.append_nil, List.mem_reverse]; exact hothers b hb hne)]

/-- a second element for a metric that is already there -/
theorem defect_repeated (K : Contract O Spec.V3.metrics) (hdr : Bytes) (w : List Pair) (a v : Bytes) (j : Nat)
    (hw : IsWit w) (ha : a ∈ w.map (·.1)) (hv : legal Spec.V3.metrics a v = true) :
    Model.parse3 (hdr ++ [SLASH]) K.zero K.set (rend hdr (insertAt w j (a, v))) = .err (Model.eDefinedN a) := by
  unfold insertAt
  have hl : allLegal Spec.V3.metrics (w.take j ++ (a, v) :: w.drop j) := by
    intro p hp
    rcases List.mem_append.mp hp with hp | hp
    · exact hw.1 p (List.mem_of_mem_take hp)
    · rcases List.mem_cons.mp hp with rfl | hp
      · exact hv
      · exact hw.1 p (List.mem_of_mem_drop hp)
  rw [parse3_rend _ _ _ _ (by simp) (fun p hp => render_no_slash (hl p hp))]
  have := loop3_legal K _ hl [] K.zero []
  rw [List.append_nil] at this
  rw [this]
  have hd : firstDup [] ((w.take j ++ (a, v) :: w.drop j).map (·.1)) = some a := by
    rw [List.map_append, List.map_cons, List.map_take, List.map_drop]
    have hn := hw.2.1
    generalize w.map (·.1) = n at ha hn
    show firstDup [] (n.take j ++ a :: n.drop j) = some a
    have hsplit : n = n.take j ++ n.drop j := (List.take_append_drop j n).symm
    rw [hsplit, List.mem_append] at ha
    rcases ha with ha | ha
    · exact firstDup_eq_some _ _ _ _ (hn.sublist (List.take_sublist j n)) (by simp) (Or.inl ha)
    · obtain ⟨d1, d2, hd⟩ := List.append_of_mem ha
      rw [hd, ← List.cons_append, ← List.append_assoc]
      apply firstDup_eq_some _ _ _ _ _ (by simp) (Or.inl (by simp))
      rw [hsplit, hd, ← List.append_assoc] at hn
      have h2 := List.perm_middle.nodup_iff.mp hn
      rw [List.perm_middle.nodup_iff]
      exact h2.sublist (List.Sublist.cons_cons _ (List.sublist_append_left _ _))
  rw [hd]

/-- an element whose abbreviation is not a metric -/
theorem defect_unknown (K : Contract O Spec.V3.metrics) (hdr : Bytes) (w : List Pair) (a v : Bytes) (j : Nat)
    (hw : IsWit w) (ha : isMetric Spec.V3.metrics a = false) (hc : Spec.clean a = true) (hv : SLASH ∉ v) :
    Model.parse3 (hdr ++ [SLASH]) K.zero K.set (rend hdr (insertAt w j (a, v))) =
      .err (Model.eInvalidMetric a) := by
  unfold insertAt
  have hc' : SLASH ∉ a ∧ COLON ∉ a := by
    unfold Spec.clean at hc
    rw [Bool.and_eq_true, Bool.not_eq_true', Bool.not_eq_true'] at hc
    constructor
    · intro h; have := List.contains_iff_mem.mpr h; rw [hc.1] at this; cases this
    · intro h; have := List.contains_iff_mem.mpr h; rw [hc.2] at this; cases this
  have hl1 : allLegal Spec.V3.metrics (w.take j) := fun p hp => hw.1 p (List.mem_of_mem_take hp)
  have hl2 : allLegal Spec.V3.metrics (w.drop j) := fun p hp => hw.1 p (List.mem_of_mem_drop hp)
  have hn1 : ((w.take j).map (·.1)).Nodup := by
    rw [List.map_take]; exact hw.2.1.sublist (List.take_sublist _ _)
  have hcut : Model.cutColon (render (a, v)) = (a, v) := cutColon_render a v hc'.2
  rw [parse3_rend]
  · rw [List.map_append, List.map_cons, loop3_prefix K _ hl1 hn1 _ _ _ (by simp), loop3_cons, hcut,
      kvmSet_unknown _ a ha]
  · simp
  · intro p hp
    rcases List.mem_append.mp hp with hp | hp
    · exact render_no_slash (hl1 p hp)
    · rcases List.mem_cons.mp hp with rfl | hp
      · exact render_no_slash' hc'.1 hv
      · exact render_no_slash (hl2 p hp)

/-- position `i` of a list, as a split -/
theorem split_at_getElem? {α : Type} {w : List α} {i : Nat} {p : α} (h : w[i]? = some p) :
    ∃ l1 l2, w = l1 ++ p :: l2 ∧ l1.length = i := by
  obtain ⟨hi, rfl⟩ := List.getElem?_eq_some_iff.mp h
  refine ⟨w.take i, w.drop (i + 1), ?_, by simp [Nat.le_of_lt hi]⟩
  rw [List.getElem_cons_drop, List.take_append_drop]

end Proofs.Parse3
