import Cvss.Base.F64
import Cvss.Spec.Rating
/-!
# `F64.lt` / `F64.le` are the order of the exact values, and the constant 0.1

* `F64.lt_iff`, `F64.le_iff`: for all non-NaN 64-bit patterns (±0, subnormals, normals, ±Inf),
  `F64.lt x y` / `F64.le x y` hold iff `Spec.F64Val.lt/le` holds between the exact values denoted.
* `F64.lt_nan_left` …: every comparison with a NaN is `false`.
* `tenth_threshold`: the double nearest to 1/10 is `0x3fb999999999999a` (slightly above 1/10); no double
  lies in `[1/10, fl(0.1))`; hence for every non-NaN `x`, `F64.le 0x3fb999999999999a x` iff the value of
  `x` is `≥ 1/10` as a real number (`den ≤ 10·num`).

No enumeration: structural proofs by `omega` and `Nat` lemmas (ported from the prototype `Mono.lean`).
-/
namespace F64Order
open Spec

/-! ## primitives → ordinary notation -/

theorem flet_eq {α : Sort u} (x : Nat) (k : Nat → α) : F64.flet x k = k x := by
  cases x <;> rfl

theorem nmod (a b : Nat) : Nat.mod a b = a % b := rfl
theorem nshr (a b : Nat) : Nat.shiftRight a b = a / 2^b := Nat.shiftRight_eq_div_pow a b
theorem nshr' (a b : Nat) : a >>> b = a / 2^b := Nat.shiftRight_eq_div_pow a b

/-! ## scaled magnitude of a sign-less pattern and its monotonicity (prototype `Mono.lean`) -/

def P52 : Nat := 4503599627370496
def P63 : Nat := 9223372036854775808
def P64 : Nat := 18446744073709551616

/-- `value · 2^1075` for exponent field `e` and fraction `f` (also used with `e = 2047`, as a bound) -/
def w (e f : Nat) : Nat := if e = 0 then f * 2 else (P52 + f) * 2^e

/-- the same for a pattern below 2^63 -/
def wp (a : Nat) : Nat := w (a / P52) (a % P52)

theorem w_lt_next (e f : Nat) (hf : f < P52) : w e f < P52 * 2^(e+1) := by
  unfold w
  split
  · subst_vars
    simp only [P52] at *
    omega
  · have h1 : (P52 + f) < 2 * P52 := by omega
    have h2 : (P52 + f) * 2^e < (2 * P52) * 2^e := Nat.mul_lt_mul_of_pos_right h1 (Nat.two_pow_pos e)
    have h3 : (2 * P52) * 2^e = P52 * 2^(e+1) := by rw [Nat.pow_succ]; ac_rfl
    omega

theorem w_ge (e f : Nat) (he : 0 < e) : P52 * 2^e ≤ w e f := by
  unfold w
  have : e ≠ 0 := by omega
  simp only [this, if_false]
  exact Nat.mul_le_mul_right _ (Nat.le_add_right _ _)

theorem w_strict (e1 f1 e2 f2 : Nat) (hf1 : f1 < P52) (_hf2 : f2 < P52)
    (h : e1 < e2 ∨ (e1 = e2 ∧ f1 < f2)) : w e1 f1 < w e2 f2 := by
  rcases h with h | ⟨rfl, h⟩
  · have a := w_lt_next e1 f1 hf1
    have b := w_ge e2 f2 (by omega)
    have c : P52 * 2^(e1+1) ≤ P52 * 2^e2 :=
      Nat.mul_le_mul_left _ (Nat.pow_le_pow_right (by decide) (by omega))
    omega
  · unfold w
    split
    · omega
    · exact Nat.mul_lt_mul_of_pos_right (by omega) (Nat.two_pow_pos _)

/-- pattern order is the lexicographic order on (exponent field, fraction) -/
theorem pat_lt_iff (a b : Nat) :
    a < b ↔ (a / P52 < b / P52 ∨ (a / P52 = b / P52 ∧ a % P52 < b % P52)) := by
  simp only [P52]; omega

theorem wp_strict {a b : Nat} (h : a < b) : wp a < wp b :=
  w_strict _ _ _ _ (Nat.mod_lt _ (by decide)) (Nat.mod_lt _ (by decide)) ((pat_lt_iff a b).mp h)

/-- **monotonicity**: the order of sign-less patterns is the order of the magnitudes they denote -/
theorem wp_lt_iff (a b : Nat) : a < b ↔ wp a < wp b := by
  constructor
  · exact wp_strict
  · intro h
    apply Classical.byContradiction
    intro hn
    rcases Nat.lt_or_ge b a with h1 | h1
    · have := wp_strict h1; omega
    · have : a = b := by omega
      subst this; omega

theorem wp_le_iff (a b : Nat) : a ≤ b ↔ wp a ≤ wp b := by
  have := wp_lt_iff b a
  omega

theorem wp_zero : wp 0 = 0 := by decide

theorem wp_eq_zero_iff (a : Nat) : wp a = 0 ↔ a = 0 := by
  constructor
  · intro h
    apply Classical.byContradiction
    intro hn
    have := wp_strict (a := 0) (b := a) (by omega)
    rw [wp_zero] at this; omega
  · rintro rfl; exact wp_zero

/-! ## signed key of a 64-bit pattern -/

/-- signed scaled value; the infinities get `± wp 0x7FF0000000000000`, beyond every finite value -/
def sval (x : Nat) : Int := if x < P63 then (wp x : Int) else - (wp (x - P63) : Int)

/-- key of +Inf -/
def B : Nat := wp 0x7FF0000000000000

/-! ## the comparison functions of `Base/F64` and `Base/FB` compute the order of `sval` -/

theorem nbeq (a b : Nat) : (Nat.beq a b = true) = (a = b) :=
  propext ⟨Nat.eq_of_beq_eq_true, fun h => h ▸ Nat.beq_refl a⟩

/-- `F64.ltF` with the constant 2^63 abstracted (so that no proof step computes with it) -/
theorem ltF_core (P x y : Nat) (hx : x < 2 * P) (hy : y < 2 * P) :
    (cond (Nat.blt x P)
      (cond (Nat.blt y P) (Nat.blt x y) false)
      (cond (Nat.blt y P) (!(Nat.beq (Nat.mod x P) 0 && Nat.beq y 0))
        (Nat.blt (Nat.mod y P) (Nat.mod x P)))) = true ↔
    (if x < P then (wp x : Int) else - (wp (x - P) : Int)) <
      (if y < P then (wp y : Int) else - (wp (y - P) : Int)) := by
  have hm : ∀ z, ¬ z < P → z < 2 * P → Nat.mod z P = z - P := by
    intro z h1 h2
    show z % P = z - P
    rw [Nat.mod_eq_sub_mod (by omega), Nat.mod_eq_of_lt (by omega)]
  by_cases h1 : x < P <;> by_cases h2 : y < P
  · have c := wp_lt_iff x y
    have e1 : Nat.blt x P = true := by rw [Nat.blt_eq]; exact h1
    have e2 : Nat.blt y P = true := by rw [Nat.blt_eq]; exact h2
    simp only [e1, e2, cond_true, if_pos h1, if_pos h2, Nat.blt_eq]
    omega
  · have e1 : Nat.blt x P = true := by rw [Nat.blt_eq]; exact h1
    have e2 : Nat.blt y P = false := by
      cases h : Nat.blt y P
      · rfl
      · rw [Nat.blt_eq] at h; exact absurd h h2
    simp only [e1, e2, cond_true, cond_false, if_pos h1, if_neg h2]
    constructor
    · intro h; cases h
    · intro h; omega
  · have e1 : Nat.blt x P = false := by
      cases h : Nat.blt x P
      · rfl
      · rw [Nat.blt_eq] at h; exact absurd h h1
    have e2 : Nat.blt y P = true := by rw [Nat.blt_eq]; exact h2
    have a := wp_eq_zero_iff (x - P)
    have b := wp_eq_zero_iff y
    simp only [e1, e2, cond_true, cond_false, if_neg h1, if_pos h2, hm x h1 hx]
    by_cases hz : x - P = 0 ∧ y = 0
    · have z1 : Nat.beq (x - P) 0 = true := by rw [nbeq]; exact hz.1
      have z2 : Nat.beq y 0 = true := by rw [nbeq]; exact hz.2
      simp only [z1, z2, Bool.and_self, Bool.not_true]
      constructor
      · intro h; cases h
      · intro h; omega
    · have : (Nat.beq (x - P) 0 && Nat.beq y 0) = false := by
        cases h : (Nat.beq (x - P) 0 && Nat.beq y 0)
        · rfl
        · rw [Bool.and_eq_true, nbeq, nbeq] at h; exact absurd h hz
      simp only [this, Bool.not_false, true_iff]
      omega
  · have e1 : Nat.blt x P = false := by
      cases h : Nat.blt x P
      · rfl
      · rw [Nat.blt_eq] at h; exact absurd h h1
    have e2 : Nat.blt y P = false := by
      cases h : Nat.blt y P
      · rfl
      · rw [Nat.blt_eq] at h; exact absurd h h2
    have d := wp_lt_iff (y - P) (x - P)
    simp only [e1, e2, cond_false, if_neg h1, if_neg h2, hm x h1 hx, hm y h2 hy, Nat.blt_eq]
    omega

theorem ltF_iff (x y : Nat) (hx : x < P64) (hy : y < P64) :
    F64.ltF x y = true ↔ sval x < sval y :=
  ltF_core 9223372036854775808 x y hx hy

theorem sgn_lt (x : Nat) (h : x < 9223372036854775808) : FB.sgn x = 0 := by
  unfold FB.sgn; rw [nshr']; omega
theorem sgn_ge (x : Nat) (h : ¬ x < 9223372036854775808) (hx : x < 18446744073709551616) :
    FB.sgn x = 1 := by
  unfold FB.sgn; rw [nshr']; omega

theorem ltFin_iff (x y : Nat) (hx : x < P64) (hy : y < P64) :
    FB.ltFin x y = true ↔ sval x < sval y := by
  unfold FB.ltFin FB.isZero sval
  simp only [P63, P64, FB.P63] at *
  have a := wp_eq_zero_iff (x - 9223372036854775808)
  have a' := wp_eq_zero_iff x
  have b := wp_eq_zero_iff y
  have b' := wp_eq_zero_iff (y - 9223372036854775808)
  have c := wp_lt_iff x y
  have d := wp_lt_iff (y - 9223372036854775808) (x - 9223372036854775808)
  by_cases h1 : x < 9223372036854775808 <;> by_cases h2 : y < 9223372036854775808
  · have hxm : x % 9223372036854775808 = x := Nat.mod_eq_of_lt h1
    have hym : y % 9223372036854775808 = y := Nat.mod_eq_of_lt h2
    simp only [sgn_lt x h1, sgn_lt y h2, hxm, hym, h1, h2, if_true]
    by_cases hz : x = 0 ∧ y = 0
    · simp [hz.1, hz.2, wp_zero]
    · have : ¬ ((x == 0 && y == 0) = true) := by simpa using hz
      simp [this]; omega
  · have hxm : x % 9223372036854775808 = x := Nat.mod_eq_of_lt h1
    simp only [sgn_lt x h1, sgn_ge y h2 hy, hxm, h1, h2, if_true, if_false]
    have : ¬ ((wp x : Int) < - (wp (y - 9223372036854775808) : Int)) := by omega
    simp only [this, iff_false]
    split <;> simp
  · have hxm : x % 9223372036854775808 = x - 9223372036854775808 := by omega
    have hym : y % 9223372036854775808 = y := Nat.mod_eq_of_lt h2
    simp only [sgn_ge x h1 hx, sgn_lt y h2, hxm, hym, h1, h2, if_true, if_false]
    by_cases hz : x - 9223372036854775808 = 0 ∧ y = 0
    · simp [hz.1, hz.2, wp_zero]
    · have : ¬ ((x - 9223372036854775808 == 0 && y == 0) = true) := by simpa using hz
      simp [this]; omega
  · have hxm : x % 9223372036854775808 = x - 9223372036854775808 := by omega
    have hym : y % 9223372036854775808 = y - 9223372036854775808 := by omega
    simp only [sgn_ge x h1 hx, sgn_ge y h2 hy, hxm, hym, h1, h2, if_false]
    by_cases hz : x - 9223372036854775808 = 0 ∧ y - 9223372036854775808 = 0
    · simp [hz.1, hz.2, wp_zero]
    · have : ¬ ((x - 9223372036854775808 == 0 && y - 9223372036854775808 == 0) = true) := by
        simpa using hz
      simp [this]; show (@LT.lt Nat _ y x ↔ _); omega

/-! ## `F64.lt`, `F64.le`, `F64.isNaN` in terms of `sval` -/

theorem beq_nat (a b : Nat) : (a == b) = Nat.beq a b := by
  rw [Bool.eq_iff_iff, Nat.beq_eq_true_eq, nbeq]

theorem ebits_eq (x : Nat) : F64.ebits x = Spec.expField x := by
  unfold F64.ebits Spec.expField; rw [nmod, nshr]
theorem fb_ebits_eq (x : Nat) : FB.ebits x = Spec.expField x := by
  unfold FB.ebits Spec.expField; rw [nshr']
theorem frac_eq (x : Nat) : Nat.mod x F64.P52 = Spec.fracField x := rfl
theorem fb_frac_eq (x : Nat) : FB.frac x = Spec.fracField x := rfl

theorem isNaN_iff (x : Nat) :
    F64.isNaN x = true ↔ Spec.expField x = 2047 ∧ Spec.fracField x ≠ 0 := by
  unfold F64.isNaN
  rw [flet_eq, ebits_eq, frac_eq, Bool.and_eq_true, nbeq, Bool.not_eq_true', ← Bool.not_eq_true, nbeq]

theorem fb_isNaN_eq (x : Nat) : FB.isNaN x = F64.isNaN x := by
  unfold FB.isNaN F64.isNaN
  rw [flet_eq, ebits_eq, frac_eq, fb_ebits_eq, fb_frac_eq, bne, beq_nat, beq_nat]

theorem isFin2_iff (x y : Nat) :
    F64.isFin2 x y = true ↔ Spec.expField x < 2047 ∧ Spec.expField y < 2047 := by
  unfold F64.isFin2
  rw [ebits_eq, ebits_eq, Bool.and_eq_true, Nat.blt_eq, Nat.blt_eq]

theorem isFin2_notNaN (x y : Nat) (h : F64.isFin2 x y = true) :
    F64.isNaN x = false ∧ F64.isNaN y = false := by
  rw [isFin2_iff] at h
  have a := isNaN_iff x
  have b := isNaN_iff y
  constructor
  · cases hh : F64.isNaN x
    · rfl
    · rw [hh] at a; have := a.mp rfl; omega
  · cases hh : F64.isNaN y
    · rfl
    · rw [hh] at b; have := b.mp rfl; omega

/-- `F64.lt` on all 64-bit patterns: false on NaN, otherwise the order of the signed keys -/
theorem lt_eq (x y : Nat) (hx : x < P64) (hy : y < P64) :
    F64.lt x y = (!(F64.isNaN x) && !(F64.isNaN y) && decide (sval x < sval y)) := by
  unfold F64.lt
  rw [flet_eq, flet_eq]
  cases hf : F64.isFin2 x y
  · rw [cond_false]
    unfold FB.lt
    rw [fb_isNaN_eq, fb_isNaN_eq]
    congr 1
    rw [Bool.eq_iff_iff, decide_eq_true_iff]
    exact ltFin_iff x y hx hy
  · rw [cond_true]
    have ⟨a, b⟩ := isFin2_notNaN x y hf
    rw [a, b, Bool.not_false, Bool.true_and, Bool.true_and, Bool.eq_iff_iff, decide_eq_true_iff]
    exact ltF_iff x y hx hy

/-- `F64.le` on all 64-bit patterns -/
theorem le_eq (x y : Nat) (hx : x < P64) (hy : y < P64) :
    F64.le x y = (!(F64.isNaN x) && !(F64.isNaN y) && decide (sval x ≤ sval y)) := by
  unfold F64.le
  rw [flet_eq, flet_eq]
  have e : decide (sval x ≤ sval y) = !(decide (sval y < sval x)) := by
    rw [Bool.eq_iff_iff, Bool.not_eq_true', decide_eq_true_iff, decide_eq_false_iff_not]
    omega
  cases hf : F64.isFin2 x y
  · rw [cond_false]
    unfold FB.le
    rw [fb_isNaN_eq, fb_isNaN_eq, e]
    congr 2
    rw [Bool.eq_iff_iff, decide_eq_true_iff]
    exact ltFin_iff y x hy hx
  · rw [cond_true]
    have ⟨a, b⟩ := isFin2_notNaN x y hf
    rw [a, b, Bool.not_false, Bool.true_and, Bool.true_and, e]
    congr 1
    rw [Bool.eq_iff_iff, decide_eq_true_iff]
    exact ltF_iff y x hy hx

/-! ## the signed key is the exact value of `Spec.F64Val.ofBits` -/

theorem magnitude_eq (x : Nat) : Spec.magnitude x = w (Spec.expField x) (Spec.fracField x) := by
  unfold Spec.magnitude w
  have : (2:Nat)^52 = P52 := by decide
  rw [this]

theorem wp_mod (x : Nat) (_hx : x < P64) :
    wp (x % 9223372036854775808) = w (Spec.expField x) (Spec.fracField x) := by
  unfold wp Spec.expField Spec.fracField
  have a : x % 9223372036854775808 / P52 = x / 2 ^ 52 % 2048 := by simp only [P52]; omega
  have b : x % 9223372036854775808 % P52 = x % 2 ^ 52 := by simp only [P52]; omega
  rw [a, b]

theorem sval_eq (x : Nat) (hx : x < P64) :
    sval x = if Spec.signBit x = 0 then (w (Spec.expField x) (Spec.fracField x) : Int)
             else - (w (Spec.expField x) (Spec.fracField x) : Int) := by
  unfold sval Spec.signBit
  rw [← wp_mod x hx]
  by_cases h : x < P63
  · have a : x / 2 ^ 63 % 2 = 0 := by simp only [P63, P64] at *; omega
    have b : x % 9223372036854775808 = x := by simp only [P63, P64] at *; omega
    rw [if_pos h, if_pos a, b]
  · have a : ¬ (x / 2 ^ 63 % 2 = 0) := by simp only [P63, P64] at *; omega
    have b : x % 9223372036854775808 = x - P63 := by simp only [P63, P64] at *; omega
    rw [if_neg h, if_neg a, b]

theorem B_eq : (B : Nat) = w 2047 0 := by decide +kernel

theorem B_pos : 0 < B := by decide +kernel

theorem w_lt_B (e f : Nat) (he : e < 2047) (hf : f < P52) : w e f < B := by
  rw [B_eq]
  exact w_strict _ _ _ _ hf (by decide) (Or.inl he)

theorem fracField_lt (x : Nat) : Spec.fracField x < P52 := by
  unfold Spec.fracField; simp only [P52]; omega
theorem expField_lt (x : Nat) : Spec.expField x < 2048 := by
  unfold Spec.expField; omega

/-- the three kinds of non-NaN patterns -/
theorem ofBits_cases (x : Nat) (hx : x < P64) (hn : F64.isNaN x = false) :
    (F64Val.ofBits x = .fin (sval x) ∧ -(B : Int) < sval x ∧ sval x < B) ∨
    (F64Val.ofBits x = .posInf ∧ sval x = B) ∨
    (F64Val.ofBits x = .negInf ∧ sval x = -(B : Int)) := by
  have hs := sval_eq x hx
  have hnan := isNaN_iff x
  rw [hn] at hnan
  have hE := expField_lt x
  have hF := fracField_lt x
  unfold F64Val.ofBits
  by_cases he : Spec.expField x = 2047
  · have hf : Spec.fracField x = 0 := by
      apply Classical.byContradiction
      intro h
      exact absurd (hnan.mpr ⟨he, h⟩) (by decide)
    rw [if_pos he, if_pos hf]
    rw [he, hf, ← B_eq] at hs
    by_cases hsg : Spec.signBit x = 0
    · rw [if_pos hsg] at hs ⊢
      exact Or.inr (Or.inl ⟨rfl, hs⟩)
    · rw [if_neg hsg] at hs ⊢
      exact Or.inr (Or.inr ⟨rfl, hs⟩)
  · rw [if_neg he, magnitude_eq, ← hs]
    have hb := w_lt_B (Spec.expField x) (Spec.fracField x) (by omega) hF
    refine Or.inl ⟨rfl, ?_, ?_⟩ <;> (rw [hs]; split <;> omega)

theorem ofBits_nan_iff (x : Nat) : F64Val.ofBits x = .nan ↔ F64.isNaN x = true := by
  rw [isNaN_iff]
  unfold F64Val.ofBits
  by_cases he : Spec.expField x = 2047
  · by_cases hf : Spec.fracField x = 0
    · rw [if_pos he, if_pos hf]
      constructor
      · intro h; split at h <;> cases h
      · intro h; exact absurd hf h.2
    · rw [if_pos he, if_neg hf]
      exact ⟨fun _ => ⟨he, hf⟩, fun _ => rfl⟩
  · rw [if_neg he]
    constructor
    · intro h; cases h
    · intro h; exact absurd h.1 he

/-! ## main order theorems -/

/-- **`F64.lt` is `<` on the exact values** (all 64-bit patterns; false as soon as one side is NaN) -/
theorem lt_eq_spec (x y : Nat) (hx : x < P64) (hy : y < P64) :
    F64.lt x y = decide (F64Val.lt (F64Val.ofBits x) (F64Val.ofBits y)) := by
  rw [lt_eq x y hx hy]
  have hB := B_pos
  cases hnx : F64.isNaN x
  · cases hny : F64.isNaN y
    · rw [Bool.not_false, Bool.true_and, Bool.true_and, Bool.eq_iff_iff, decide_eq_true_iff,
        decide_eq_true_iff]
      rcases ofBits_cases x hx hnx with ⟨a, a1, a2⟩ | ⟨a, a1⟩ | ⟨a, a1⟩ <;>
      rcases ofBits_cases y hy hny with ⟨b, b1, b2⟩ | ⟨b, b1⟩ | ⟨b, b1⟩ <;>
      rw [a, b] <;> simp only [F64Val.lt, iff_true, iff_false] <;> first | rfl | omega
    · have := (ofBits_nan_iff y).mpr hny
      symm
      rw [Bool.not_true, Bool.and_false, Bool.false_and, decide_eq_false_iff_not, this]
      cases F64Val.ofBits x <;> simp [F64Val.lt]
  · have := (ofBits_nan_iff x).mpr hnx
    symm
    rw [Bool.not_true, Bool.false_and, Bool.false_and, decide_eq_false_iff_not, this]
    simp [F64Val.lt]

/-- **`F64.le` is `≤` on the exact values** (all 64-bit patterns; false as soon as one side is NaN) -/
theorem le_eq_spec (x y : Nat) (hx : x < P64) (hy : y < P64) :
    F64.le x y = decide (F64Val.le (F64Val.ofBits x) (F64Val.ofBits y)) := by
  rw [le_eq x y hx hy]
  have hB := B_pos
  cases hnx : F64.isNaN x
  · cases hny : F64.isNaN y
    · rw [Bool.not_false, Bool.true_and, Bool.true_and, Bool.eq_iff_iff, decide_eq_true_iff,
        decide_eq_true_iff]
      rcases ofBits_cases x hx hnx with ⟨a, a1, a2⟩ | ⟨a, a1⟩ | ⟨a, a1⟩ <;>
      rcases ofBits_cases y hy hny with ⟨b, b1, b2⟩ | ⟨b, b1⟩ | ⟨b, b1⟩ <;>
      rw [a, b] <;> simp only [F64Val.le, iff_true, iff_false] <;> first | rfl | omega
    · have := (ofBits_nan_iff y).mpr hny
      symm
      rw [Bool.not_true, Bool.and_false, Bool.false_and, decide_eq_false_iff_not, this]
      cases F64Val.ofBits x <;> simp [F64Val.le]
  · have := (ofBits_nan_iff x).mpr hnx
    symm
    rw [Bool.not_true, Bool.false_and, Bool.false_and, decide_eq_false_iff_not, this]
    simp [F64Val.le]

/-- the Prop forms, as in the task statement: on non-NaN patterns `F64.lt`/`F64.le` agree with `<`/`≤` -/
theorem lt_iff (x y : Nat) (hx : x < P64) (hy : y < P64) :
    F64.lt x y = true ↔ F64Val.lt (F64Val.ofBits x) (F64Val.ofBits y) := by
  rw [lt_eq_spec x y hx hy, decide_eq_true_iff]
theorem le_iff (x y : Nat) (hx : x < P64) (hy : y < P64) :
    F64.le x y = true ↔ F64Val.le (F64Val.ofBits x) (F64Val.ofBits y) := by
  rw [le_eq_spec x y hx hy, decide_eq_true_iff]

/-! ## the constant 0.1 -/

/-- bits of the double written `0.1` -/
def TENTH : Nat := 0x3fb999999999999a

/-- numerator of fl(0.1) over `den = 2^1075`: `7205759403792794 · 2^1019` (= 7205759403792794 · 2^-56) -/
theorem ofBits_tenth : F64Val.ofBits TENTH = .fin (7205759403792794 * 2^1019) := by decide +kernel

theorem ofBits_tenth' : F64Val.ofBits TENTH = .fin (wp TENTH) := by decide +kernel

theorem wp_tenth : wp TENTH = 7205759403792794 * 2^1019 := by decide +kernel

/-- fl(0.1) is strictly above 1/10 … -/
theorem tenth_above : F64Val.den < 10 * wp TENTH := by decide +kernel
/-- … and its predecessor `0x3fb9999999999999` is strictly below 1/10 … -/
theorem tenth_pred_below : 10 * wp (TENTH - 1) < F64Val.den := by decide +kernel
/-- … and farther from 1/10 than fl(0.1) is: `1/10 − pred > fl(0.1) − 1/10` -/
theorem tenth_closer : 10 * wp TENTH - F64Val.den < F64Val.den - 10 * wp (TENTH - 1) := by
  decide +kernel

theorem den_pos : 0 < F64Val.den := by decide +kernel

/-- "at least one tenth" on the extended reals denoted, by cross-multiplication: `num/den ≥ 1/10` -/
def GeTenth : F64Val → Prop
  | .fin n => (F64Val.den : Int) ≤ 10 * n
  | .posInf => True
  | _ => False

instance (v : F64Val) : Decidable (GeTenth v) := by
  cases v <;> simp only [GeTenth] <;> infer_instance

/-- sign-less patterns: `x ≥ bits(0.1)` iff the value is `≥ 1/10` (prototype `tenth_threshold`) -/
theorem tenth_threshold_wp (a : Nat) : TENTH ≤ a ↔ F64Val.den ≤ 10 * wp a := by
  have h1 := tenth_above
  have h2 := tenth_pred_below
  constructor
  · intro h
    have := (wp_le_iff _ _).mp h
    omega
  · intro h
    apply Classical.byContradiction
    intro hn
    have hx : a ≤ TENTH - 1 := by simp only [TENTH] at *; omega
    have := (wp_le_iff _ _).mp hx
    omega

/-- **the 0.1 threshold**: for every non-NaN pattern, `0.1 ≤ x` in binary64 iff the real number denoted
    by `x` is `≥ 1/10` — although the constant itself is not 1/10. -/
theorem tenth_threshold (x : Nat) (hx : x < P64) (hn : F64.isNaN x = false) :
    F64Val.le (F64Val.ofBits TENTH) (F64Val.ofBits x) ↔ GeTenth (F64Val.ofBits x) := by
  have hT := ofBits_tenth'
  have h1 := tenth_above
  have hB := B_pos
  have hd := den_pos
  have hTB : wp TENTH < B := wp_strict (by decide)
  rw [hT]
  rcases ofBits_cases x hx hn with ⟨a, a1, a2⟩ | ⟨a, a1⟩ | ⟨a, a1⟩
  · rw [a]
    simp only [F64Val.le, GeTenth]
    unfold sval
    by_cases h : x < P63
    · rw [if_pos h]
      have t := tenth_threshold_wp x
      have m := wp_le_iff TENTH x
      omega
    · rw [if_neg h]
      omega
  · rw [a]; simp only [F64Val.le, GeTenth]
  · rw [a]; simp only [F64Val.le, GeTenth]

/-- corollary, `F64.le` form used on the generated code -/
theorem le_tenth_eq (x : Nat) (hx : x < P64) (hn : F64.isNaN x = false) :
    F64.le TENTH x = decide (GeTenth (F64Val.ofBits x)) := by
  rw [le_eq_spec TENTH x (by decide) hx, Bool.eq_iff_iff, decide_eq_true_iff, decide_eq_true_iff]
  exact tenth_threshold x hx hn

/-- **no double lies in `[1/10, fl(0.1))`** -/
theorem no_double_between (x : Nat) (hx : x < P64) (n : Int) (h : F64Val.ofBits x = .fin n) :
    ¬ ((F64Val.den : Int) ≤ 10 * n ∧ n < wp TENTH) := by
  have hn : F64.isNaN x = false := by
    cases hh : F64.isNaN x
    · rfl
    · rw [(ofBits_nan_iff x).mpr hh] at h; cases h
  have t := tenth_threshold x hx hn
  have hT := ofBits_tenth'
  rw [hT, h] at t
  simp only [F64Val.le, GeTenth] at t
  omega

/-- **fl(0.1) is the double nearest to 1/10**: every finite double is at least as far from 1/10 -/
theorem tenth_nearest (x : Nat) (hx : x < P64) (n : Int) (h : F64Val.ofBits x = .fin n) :
    (10 * (wp TENTH : Int) - F64Val.den) ≤ (if (F64Val.den : Int) ≤ 10 * n then 10 * n - F64Val.den
                                             else F64Val.den - 10 * n) := by
  have nb := no_double_between x hx n h
  have hn : F64.isNaN x = false := by
    cases hh : F64.isNaN x
    · rfl
    · rw [(ofBits_nan_iff x).mpr hh] at h; cases h
  have h1 := tenth_above
  have h2 := tenth_pred_below
  have h3 := tenth_closer
  split
  · omega
  · rename_i hlt
    rcases ofBits_cases x hx hn with ⟨a, _, _⟩ | ⟨a, _⟩ | ⟨a, _⟩
    · rw [h] at a
      have a := F64Val.fin.inj a
      rw [a]
      rw [a] at hlt
      unfold sval at hlt ⊢
      by_cases hh : x < P63
      · rw [if_pos hh] at hlt ⊢
        have t := tenth_threshold_wp x
        have m := wp_le_iff x (TENTH - 1)
        have : x ≤ TENTH - 1 := by simp only [TENTH] at *; omega
        omega
      · rw [if_neg hh]
        omega
    · rw [h] at a; cases a
    · rw [h] at a; cases a

end F64Order
