import Cvss.Proofs.Score4TailDef
/-! GENERATED chunk 13 of the v4.0 float-tail obligation: for each MacroVector below and every severity
distance tuple within its depths, `roundup(eqsv − mean)` (the generated tail) is `F64.tenth` of the Spec's
exact half-up value. Kernel evaluation (`decide +kernel`), 2925 tuples. -/
namespace Proofs.Score4
set_option maxHeartbeats 2000000 in
theorem tail_000010 : tailOkMV 0 0 0 0 1 0 = true := by decide +kernel
set_option maxHeartbeats 2000000 in
theorem tail_001020 : tailOkMV 0 0 1 0 2 0 = true := by decide +kernel
set_option maxHeartbeats 2000000 in
theorem tail_001201 : tailOkMV 0 0 1 2 0 1 = true := by decide +kernel
set_option maxHeartbeats 2000000 in
theorem tail_010010 : tailOkMV 0 1 0 0 1 0 = true := by decide +kernel
set_option maxHeartbeats 2000000 in
theorem tail_012211 : tailOkMV 0 1 2 2 1 1 = true := by decide +kernel
set_option maxHeartbeats 2000000 in
theorem tail_100011 : tailOkMV 1 0 0 0 1 1 = true := by decide +kernel
set_option maxHeartbeats 2000000 in
theorem tail_101001 : tailOkMV 1 0 1 0 0 1 = true := by decide +kernel
set_option maxHeartbeats 2000000 in
theorem tail_101220 : tailOkMV 1 0 1 2 2 0 = true := by decide +kernel
set_option maxHeartbeats 2000000 in
theorem tail_102011 : tailOkMV 1 0 2 0 1 1 = true := by decide +kernel
set_option maxHeartbeats 2000000 in
theorem tail_111101 : tailOkMV 1 1 1 1 0 1 = true := by decide +kernel
set_option maxHeartbeats 2000000 in
theorem tail_200110 : tailOkMV 2 0 0 1 1 0 = true := by decide +kernel
set_option maxHeartbeats 2000000 in
theorem tail_201020 : tailOkMV 2 0 1 0 2 0 = true := by decide +kernel
set_option maxHeartbeats 2000000 in
theorem tail_211020 : tailOkMV 2 1 1 0 2 0 = true := by decide +kernel
set_option maxHeartbeats 2000000 in
theorem tail_211220 : tailOkMV 2 1 1 2 2 0 = true := by decide +kernel
set_option maxHeartbeats 2000000 in
theorem tail_212211 : tailOkMV 2 1 2 2 1 1 = true := by decide +kernel
end Proofs.Score4
