import Cvss.Proofs.ByteFacts40
/-!
# CVSS v4.0: the Get/Set contract, proved from the generated bit-field code (C07, C09)

Everything is derived from the per-arm ties of `Layout40` (to `GenV40.Get` / `GenV40.Set`) and the one-byte
enumerations of `ByteFacts40`.

**For every object `c : O40` — any nine `Nat`s, in particular every byte state, well formed or not:**
* `set_ok`, `get_set_same`, `get_set_other` (all 32·31 ordered pairs), `set_unknown`, `get_unknown`,
  `set_illegal`, `set_isBytes`.
* What is *not* true for all byte states: "a successful `Set` changes only the bits of its metric".
  `Set("U", v)` writes `u8 = (v & 3) << 6` and thereby clears the six unused low bits of `u8`
  (`set_U_u8`); every other arm leaves `u8` alone (`set_notU_u8`). No `Get` reads those bits, so
  `get_set_other` is unaffected, but `Set(m, Get(m))` is the identity only on well-formed objects
  (`set_get_id`; counterexample `set_get_id_fails_raw`).

**Well-formedness / reachability:** `wf_iff`, `wf_zero`, `wf_set`, `wf_get`, `ext`, `reachable_iff_wf`.

`contract40 : Proofs.Contract O40 Spec.V4.metrics` packages these for the parser proofs.
-/
set_option maxRecDepth 100000
namespace Proofs.B40
open Spec (Metric legal isMetric findMetric)
open Model (O40)

/-! ## the value lists in code order (`gvals`, read off `Get`) against the Spec lists (`vals`) -/

theorem gvals_length : ∀ k, k < 32 → (gvals k).length = nv k := by decide +kernel
theorem gvals_perm_b : ∀ k, k < 32 →
    ((gvals k).all (fun v => (vals k).contains v) && (vals k).all (fun v => (gvals k).contains v)) = true := by
  decide +kernel
/-- `Get` decodes to, and `Set` accepts, exactly the values the Spec lists for the metric -/
theorem gvals_perm {k : Nat} (hk : k < 32) (v : List Nat) : v ∈ gvals k ↔ v ∈ vals k := by
  have h := gvals_perm_b k hk
  rw [Bool.and_eq_true, List.all_eq_true, List.all_eq_true] at h
  exact ⟨fun m => List.contains_iff_mem.1 (h.1 v m), fun m => List.contains_iff_mem.1 (h.2 v m)⟩
theorem gvals_inj : ∀ k, k < 32 → ∀ i, i < nv k → ∀ j, j < nv k →
    (gvals k).getD i [] = (gvals k).getD j [] → i = j := by decide +kernel
theorem nil_not_gval {k : Nat} (hk : k < 32) : ([] : List Nat) ∉ gvals k :=
  fun h => nil_not_val k hk ((gvals_perm hk []).1 h)
theorem gvals_lt {k : Nat} (hk : k < 32) : (gvals k).length < 256 := by
  rw [gvals_length k hk]; exact nv_lt k hk

/-- a decoded code is a Spec value of the metric exactly when the code is in range -/
theorem getD_mem_vals {k : Nat} (hk : k < 32) (i : Nat) : (gvals k).getD i [] ∈ vals k ↔ i < nv k := by
  rw [← gvals_perm hk, getD_mem_iff (nil_not_gval hk), gvals_length k hk]

/-! ## `Set` on a known metric, by row index -/

theorem set_legal_idx (c : O40) {k : Nat} (hk : k < 32) {v : List Nat} (hv : v ∈ gvals k) :
    c.set (abv k) v = (upd k c (fidx v (gvals k)), Go.errNil) := by
  rw [set_idx c v k hk, validate_eq _ _ (gvals_lt hk), if_pos hv]; rfl

theorem set_illegal_idx (c : O40) {k : Nat} (hk : k < 32) {v : List Nat} (hv : v ∉ gvals k) :
    c.set (abv k) v = (c, Model.eValue) := by
  rw [set_idx c v k hk, validate_eq _ _ (gvals_lt hk), if_neg hv]; rfl

theorem fidx_lt_nv {k : Nat} (hk : k < 32) {v : List Nat} (hv : v ∈ gvals k) : fidx v (gvals k) < nv k := by
  rw [← gvals_length k hk]; exact fidx_lt hv

theorem code_upd_self (c : O40) {k : Nat} (hk : k < 32) {i : Nat} (hi : i < nv k) : code k (upd k c i) = i := by
  unfold code; rw [codes_upd c k hk i hi]; exact getD_set_self (by rw [codes_length]; exact hk) i

theorem code_upd_ne (c : O40) {k j : Nat} (hk : k < 32) (hkj : k ≠ j) {i : Nat} (hi : i < nv k) :
    code j (upd k c i) = code j c := by
  unfold code; rw [codes_upd c k hk i hi]; exact getD_set_ne hkj i

/-- the raw effect of a successful `Set`: code `k` becomes the index of `v`, the other 31 codes stay
    (with `set_notU_u8` / `set_U_u8` for the unused bits and `eq_of_codes` this describes the new bytes completely) -/
theorem set_codes (c : O40) {k : Nat} (hk : k < 32) {v : List Nat} (hv : v ∈ vals k) :
    codes (c.set (abv k) v).1 = (codes c).set k (fidx v (gvals k)) := by
  have hg := (gvals_perm hk v).2 hv
  rw [set_legal_idx c hk hg]; exact codes_upd c k hk _ (fidx_lt_nv hk hg)

/-! ## the contract, for **all** objects -/

/-- `Set` with a legal value succeeds -/
theorem set_ok (c : O40) (a v : List Nat) (h : legal Spec.V4.metrics a v = true) : (c.set a v).2 = Go.errNil := by
  obtain ⟨k, hk, rfl, hv⟩ := legal_iff.1 h
  rw [set_legal_idx c hk ((gvals_perm hk v).2 hv)]

/-- after a successful `Set(a, v)`, `Get(a)` is `v` with nil error -/
theorem get_set_same (c : O40) (a v : List Nat) (h : legal Spec.V4.metrics a v = true) :
    (c.set a v).1.get a = (v, Go.errNil) := by
  obtain ⟨k, hk, rfl, hv⟩ := legal_iff.1 h
  have hg := (gvals_perm hk v).2 hv
  rw [set_legal_idx c hk hg, get_idx _ k hk, code_upd_self c hk (fidx_lt_nv hk hg), getD_fidx hg]

/-- … and `Get` of every other metric is unchanged (all 32·31 ordered pairs) -/
theorem get_set_other (c : O40) (a v a' : List Nat) (h : legal Spec.V4.metrics a v = true)
    (h' : isMetric Spec.V4.metrics a' = true) (hne : a' ≠ a) : (c.set a v).1.get a' = c.get a' := by
  obtain ⟨k, hk, rfl, hv⟩ := legal_iff.1 h
  obtain ⟨j, hj, rfl⟩ := isMetric_iff.1 h'
  have hg := (gvals_perm hk v).2 hv
  have hkj : k ≠ j := fun e => hne (by rw [e])
  rw [set_legal_idx c hk hg, get_idx _ j hj, get_idx _ j hj, code_upd_ne c hk hkj (fidx_lt_nv hk hg)]

/-- a known metric with an illegal value: `ErrInvalidMetricValue`, object untouched -/
theorem set_illegal (c : O40) (a v : List Nat) (h : isMetric Spec.V4.metrics a = true)
    (h' : legal Spec.V4.metrics a v = false) : c.set a v = (c, Model.eValue) := by
  obtain ⟨k, hk, rfl⟩ := isMetric_iff.1 h
  apply set_illegal_idx c hk
  intro hv
  have : legal Spec.V4.metrics (abv k) v = true := legal_iff.2 ⟨k, hk, rfl, (gvals_perm hk v).1 hv⟩
  rw [this] at h'; cases h'

/-- `Set` fails exactly when the pair is not legal, and then leaves the whole object unchanged -/
theorem set_fail (c : O40) (a v : List Nat) (h : legal Spec.V4.metrics a v = false) :
    (c.set a v).1 = c ∧ (c.set a v).2 ≠ Go.errNil := by
  cases hm : isMetric Spec.V4.metrics a with
  | false => rw [set_unknown c a v hm]; exact ⟨rfl, by simp [Model.eInvalidMetric, Go.errNil]⟩
  | true => rw [set_illegal c a v hm h]; exact ⟨rfl, (by decide : Model.eValue ≠ Go.errNil)⟩

/-- `Set` keeps bytes bytes (whatever the arguments) -/
theorem set_isBytes (c : O40) (a v : List Nat) (hc : c.IsBytes) : (c.set a v).1.IsBytes := by
  cases hl : legal Spec.V4.metrics a v with
  | false => rw [(set_fail c a v hl).1]; exact hc
  | true =>
    obtain ⟨k, hk, rfl, hv⟩ := legal_iff.1 hl
    have hg := (gvals_perm hk v).2 hv
    rw [set_legal_idx c hk hg]; exact upd_isBytes c hc k hk _ (fidx_lt_nv hk hg)

/-- every arm but `U` leaves `u8` exactly as it was … -/
theorem set_notU_u8 (c : O40) (a v : List Nat) (ha : a ≠ abv 31) : (c.set a v).1.u8 = c.u8 := by
  cases hl : legal Spec.V4.metrics a v with
  | false => rw [(set_fail c a v hl).1]
  | true =>
    obtain ⟨k, hk, rfl, hv⟩ := legal_iff.1 hl
    have hg := (gvals_perm hk v).2 hv
    rw [set_legal_idx c hk hg]
    exact upd_u8 c _ k hk (fun e => ha (by rw [e]))

/-- … while a successful `Set("U", v)` clears the six unused bits of `u8`, whatever they were -/
theorem set_U_u8 (c : O40) (v : List Nat) (h : legal Spec.V4.metrics (abv 31) v = true) :
    (c.set (abv 31) v).1.u8 % 64 = 0 := by
  have hv := (legal_iff.1 h)
  obtain ⟨k, hk, e, hv⟩ := hv
  have : k = 31 := (abv_inj 31 (by decide) k hk e).symm
  subst this
  have hg := (gvals_perm hk v).2 hv
  rw [set_legal_idx c hk hg]; exact upd_u8_U c _ (fidx_lt_nv hk hg)

/-- `Get` succeeds exactly on the 32 abbreviations -/
theorem get_err (c : O40) (a : List Nat) : (c.get a).2 = Go.errNil ↔ isMetric Spec.V4.metrics a = true := by
  cases hm : isMetric Spec.V4.metrics a with
  | false => rw [get_unknown c a hm]; simp [Model.eInvalidMetric, Go.errNil]
  | true => obtain ⟨k, hk, rfl⟩ := isMetric_iff.1 hm; rw [get_idx c k hk]; simp

/-- `Set` succeeds exactly on (metric, legal value) -/
theorem set_err (c : O40) (a v : List Nat) : (c.set a v).2 = Go.errNil ↔ legal Spec.V4.metrics a v = true := by
  cases hl : legal Spec.V4.metrics a v with
  | false => simp [(set_fail c a v hl).2]
  | true => simp [set_ok c a v hl]

/-! ## well-formed objects -/

theorem legalGets_iff (get : Model.Bytes → Model.Bytes × Go.Err) :
    Model.legalGets Spec.V4.metrics get = true ↔
      ∀ k, k < 32 → (get (abv k)).2 = Go.errNil ∧ (get (abv k)).1 ∈ vals k := by
  unfold Model.legalGets
  rw [List.all_eq_true]
  constructor
  · intro h k hk
    have := h (met k) (met_mem hk)
    simp only [Bool.and_eq_true, beq_iff_eq, List.contains_iff_mem] at this
    exact this
  · intro h m hm
    obtain ⟨k, hk, rfl⟩ := mem_metrics.1 hm
    simp only [Bool.and_eq_true, beq_iff_eq, List.contains_iff_mem]
    exact h k hk

theorem isBytes_iff (c : O40) : c.bytes.all (Nat.blt · 256) = true ↔ c.IsBytes := by
  simp [O40.bytes, O40.IsBytes, Nat.blt_eq]

/-- `wf` in terms of the layout: bytes, unused bits zero, every code in range -/
theorem wf_iff (c : O40) : c.wf = true ↔ c.IsBytes ∧ c.u8 % 64 = 0 ∧ ∀ k, k < 32 → code k c < nv k := by
  unfold O40.wf
  rw [Bool.and_eq_true, Bool.and_eq_true, isBytes_iff, beq_iff_eq, legalGets_iff, and_assoc]
  refine and_congr Iff.rfl (and_congr Iff.rfl ?_)
  constructor
  · intro h k hk
    have := (h k hk).2
    rw [get_idx c k hk] at this
    exact (getD_mem_vals hk _).1 this
  · intro h k hk
    rw [get_idx c k hk]
    exact ⟨rfl, (getD_mem_vals hk _).2 (h k hk)⟩

theorem wf_zero : O40.zero.wf = true := by decide +kernel

/-- `Set` (successful or not) keeps a well-formed object well formed -/
theorem wf_set (c : O40) (a v : List Nat) (h : c.wf = true) : (c.set a v).1.wf = true := by
  cases hl : legal Spec.V4.metrics a v with
  | false => rw [(set_fail c a v hl).1]; exact h
  | true =>
    obtain ⟨k, hk, rfl, hv⟩ := legal_iff.1 hl
    have hg := (gvals_perm hk v).2 hv
    have hi := fidx_lt_nv hk hg
    obtain ⟨hb, h8, hcodes⟩ := (wf_iff c).1 h
    rw [set_legal_idx c hk hg, wf_iff]
    refine ⟨upd_isBytes c hb k hk _ hi, upd_u8_low c h8 k hk _ hi, ?_⟩
    intro j hj
    by_cases e : k = j
    · subst e; rw [code_upd_self c hk hi]; exact hi
    · rw [code_upd_ne c hk e hi]; exact hcodes j hj

/-- on a well-formed object every Spec metric reads as one of its legal values, with nil error -/
theorem wf_get (c : O40) (h : c.wf = true) (m : Metric) (hm : m ∈ Spec.V4.metrics) :
    (c.get m.abv).2 = Go.errNil ∧ (c.get m.abv).1 ∈ m.values := by
  unfold O40.wf at h
  rw [Bool.and_eq_true] at h
  obtain ⟨k, hk, rfl⟩ := mem_metrics.1 hm
  exact (legalGets_iff c.get).1 h.2 k hk

/-- … in particular a non-empty string -/
theorem wf_get_ne_nil (c : O40) (h : c.wf = true) (m : Metric) (hm : m ∈ Spec.V4.metrics) :
    (c.get m.abv).1 ≠ [] := by
  obtain ⟨k, hk, rfl⟩ := mem_metrics.1 hm
  intro e
  have := (wf_get c h (met k) hm).2
  rw [e] at this
  exact nil_not_val k hk this

theorem codes_ext {c c' : O40} (h : ∀ k, k < 32 → code k c = code k c') : codes c = codes c' := by
  apply List.ext_getElem (by rw [codes_length, codes_length])
  intro i h1 _
  have hi : i < 32 := by rw [codes_length] at h1; exact h1
  have := h i hi
  unfold code at this
  rw [List.getD_eq_getElem?_getD, List.getD_eq_getElem?_getD, List.getElem?_eq_getElem h1,
    List.getElem?_eq_getElem (by rw [codes_length]; exact hi)] at this
  exact this

/-- extensionality: two well-formed objects with the same metric values are equal (`==` in Go) -/
theorem ext (c c' : O40) (h : c.wf = true) (h' : c'.wf = true)
    (hg : ∀ m ∈ Spec.V4.metrics, c.get m.abv = c'.get m.abv) : c = c' := by
  obtain ⟨hb, h8, hc⟩ := (wf_iff c).1 h
  obtain ⟨hb', h8', hc'⟩ := (wf_iff c').1 h'
  apply eq_of_codes c c' hb hb' (h8.trans h8'.symm)
  apply codes_ext
  intro k hk
  have := hg (met k) (met_mem hk)
  change c.get (abv k) = c'.get (abv k) at this
  rw [get_idx c k hk, get_idx c' k hk] at this
  exact gvals_inj k hk _ (hc k hk) _ (hc' k hk) (congrArg Prod.fst this)

/-- the zero object holds the not-defined value in every optional metric -/
theorem get_zero_opt_b : (List.range 32).all (fun k =>
    match (met k).undef with
    | some u => decide (O40.zero.get (abv k) = (u, Go.errNil))
    | none => true) = true := by decide +kernel

theorem get_zero_opt (m : Metric) (hm : m ∈ Spec.V4.metrics) (u : List Nat) (hu : m.undef = some u) :
    O40.zero.get m.abv = (u, Go.errNil) := by
  obtain ⟨k, hk, rfl⟩ := mem_metrics.1 hm
  have := List.all_eq_true.1 get_zero_opt_b k (List.mem_range.2 hk)
  rw [hu] at this
  exact of_decide_eq_true this

/-! ## the contract instance -/

def contract40 : Proofs.Contract O40 Spec.V4.metrics where
  zero := O40.zero
  get := O40.get
  set := O40.set
  WF c := c.wf = true
  set_ok := set_ok
  set_unknown := set_unknown
  set_illegal := set_illegal
  get_unknown := get_unknown
  get_set_same := get_set_same
  get_set_other := get_set_other
  get_zero_opt := get_zero_opt
  wf_zero := wf_zero
  wf_set := wf_set
  wf_get := wf_get
  ext := ext

end Proofs.B40
