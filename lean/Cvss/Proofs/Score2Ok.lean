import Cvss.Proofs.Score2Defs
import Cvss.Spec.OrderV2
/-!
# C05/C11/C12 (v2.0): the Boolean predicates that the enumeration chunks evaluate

Every predicate takes metric *codes* (and, for the two later phases, an input score given as bit pattern `fl`
together with its number of tenths), runs the generated float code and the exact Spec equation side by side,
and compares. The chunk theorems (`Score2Base`, `Score2RB*`, `Score2T2*`, `Score2F`) are
`decide +kernel` evaluations of these predicates over all codes.
-/
namespace Proofs.Score2
open Spec (b Bytes)
open Spec.V2

/-! ## conformance -/

/-- Base: the generated `BaseScore_core` is a nearest tenth in `[0, 10]` of the exact base equation, and it is `-0.0`
    exactly when Impact = 0 and 0.4·Exploitability < 1.5 (finding O1) -/
def okBase (c i a av ac au : Nat) : Bool :=
  F64.flet (GenV20.BaseScore_core c i a av ac au) fun fl =>
  forceRat (XI c i a) fun xi => forceRat (XE av ac au) fun xe =>
  okStep (baseEq xi xe) fl 0 100 &&
  (Nat.beq fl NEG0 == (decide (xi = 0) && decide (0.4 * xe < 1.5)))

/-- recomputed base of the environmental score: a nearest tenth in `[-0.2, 10]` of the exact equation -/
def okRB (c i a cr ir ar av ac au : Nat) : Bool :=
  F64.flet (RBf c i a cr ir ar av ac au) fun fl =>
  forceRat (XAI c i a cr ir ar) fun xai => forceRat (XE av ac au) fun xe =>
  okStep (baseEq xai xe) fl (-2) 100

/-- bounds of the temporal step's result for an input of `kb` tenths: the sign is kept -/
def loT (kb : Int) : Int := cond (decide (kb < 0)) (-2) 0
def hiT (kb : Int) : Int := cond (decide (kb < 0)) (-1) 100

/-- temporal step on input `fl` (= `kb` tenths): nearest tenth of the exact product, sign kept, `-0.0` only from `-0.0` -/
def okT2 (fl : Nat) (kb : Int) (e rl rc : Nat) : Bool :=
  F64.flet (T2f fl e rl rc) fun out =>
  okStep (XT kb e rl rc) out (loT kb) (hiT kb) && (Nat.beq out NEG0 == Nat.beq fl NEG0)

/-- final environmental step on input `fl` (= `kt` tenths); `-0.0` exactly when the result is zero, the input
    negative and the collateral damage weight 0 -/
def okF (fl : Nat) (kt : Int) (cdp td : Nat) : Bool :=
  F64.flet (Ff fl cdp td) fun out =>
  okStep (XF kt cdp td) out (-2) 100 &&
  (Nat.beq out NEG0 == (decide (kt < 0) && decide (wCDP cdp = 0) && bitsOK out 0))

def allW (p : Nat → Nat → Nat → Bool) : Bool :=
  (List.range 5).all fun e => (List.range 5).all fun rl => (List.range 4).all fun rc => p e rl rc

/-- input number `j` of the two later phases: `j - 2` tenths, `j < 103` -/
def inK (j : Nat) : Int := Int.subNatNat j 2

/-- chunks -/
def baseChunk : Bool :=
  (List.range 3).all fun c => (List.range 3).all fun i => (List.range 3).all fun a =>
  (List.range 3).all fun av => (List.range 3).all fun ac => (List.range 3).all fun au => okBase c i a av ac au
def rbChunk (c i a : Nat) : Bool :=
  (List.range 4).all fun cr => (List.range 4).all fun ir => (List.range 4).all fun ar =>
  (List.range 3).all fun av => (List.range 3).all fun ac => (List.range 3).all fun au => okRB c i a cr ir ar av ac au
/-- inputs `j0 ≤ j < j0 + n` -/
def t2Chunk (j0 n : Nat) : Bool :=
  (List.range n).all fun dj => iflet (inK (Nat.add j0 dj)) fun kb => F64.flet (tenthI kb) fun fl => allW (okT2 fl kb)
def t2Neg0 : Bool := allW (okT2 NEG0 0)
def fChunk (j0 n : Nat) : Bool :=
  (List.range n).all fun dj => iflet (inK (Nat.add j0 dj)) fun kt => F64.flet (tenthI kt) fun fl =>
  (List.range 6).all fun cdp => (List.range 5).all fun td => okF fl kt cdp td
def fNeg0 : Bool := (List.range 6).all fun cdp => (List.range 5).all fun td => okF NEG0 0 cdp td

/-! ## unrounded sub-scores -/

/-- the rational number denoted by a finite double -/
def toRat (x : Nat) : Rat :=
  (if x < F64.P63 then (1 : Rat) else -1) * ((F64.mant x (F64.ebits x) : Nat) : Rat) *
    (2 : Rat) ^ ((F64.exf (F64.ebits x) : Int) - 1075)

/-- `|toRat fl − x| ≤ 10⁻¹²` and `fl` is finite -/
def closeTo (fl : Nat) (x : Rat) : Bool :=
  F64.isFin fl && forceRat (toRat fl - x) fun d => decide (d ≤ 1 / 1000000000000) && decide (-d ≤ 1 / 1000000000000)
def subChunk : Bool :=
  (List.range 3).all fun p => (List.range 3).all fun q => (List.range 3).all fun r =>
    closeTo (GenV20.Impact_core p q r) (XI p q r) && closeTo (GenV20.Exploitability_core p q r) (XE p q r)


/-! ## the float weight of every code is the double nearest to the Spec weight of the code's value string -/

/-- `fl` is finite and within half a unit in the last place of `x` -/
def isNearest (fl : Nat) (x : Rat) : Bool :=
  F64.isFin fl && forceRat (toRat fl - x) fun d => forceRat ((2 : Rat) ^ ((F64.exf (F64.ebits fl) : Int) - 1076)) fun hu =>
    decide (d ≤ hu) && decide (-d ≤ hu)
def weightsChunk : Bool :=
  ((List.range 3).all fun r => isNearest (GenV20.accessVector r) (wAV r) && isNearest (GenV20.accessComplexity r) (wAC r) &&
    isNearest (GenV20.authentication r) (wAu r) && isNearest (GenV20.cia r) (wC r) && isNearest (GenV20.cia r) (wI r) &&
    isNearest (GenV20.cia r) (wA r)) &&
  ((List.range 5).all fun r => isNearest (GenV20.exploitability r) (wE r) && isNearest (GenV20.remediationLevel r) (wRL r) &&
    isNearest (GenV20.targetDistribution r) (wTD r)) &&
  ((List.range 4).all fun r => isNearest (GenV20.reportConfidence r) (wRC r) && isNearest (GenV20.ciar r) (wCR r) &&
    isNearest (GenV20.ciar r) (wIR r) && isNearest (GenV20.ciar r) (wAR r)) &&
  ((List.range 6).all fun r => isNearest (GenV20.collateralDamagePotential r) (wCDP r))

/-! ## monotonicity (C12) -/

/-- code `r'` is at least as severe as code `r` for metric `m` (through the Get-strings and `Spec.V2.sevLE`) -/
def sevC (m : String) (s : Nat → Bytes) (r r' : Nat) : Bool := sevLE (b m) (s r) (s r')

/-- raising any one Base metric of the tuple never lowers `BaseScore_core` -/
def monoBase (c i a av ac au : Nat) : Bool :=
  F64.flet (GenV20.BaseScore_core c i a av ac au) fun x =>
  (List.range 3).all fun r =>
    (!(sevC "C" sC c r) || F64.le x (GenV20.BaseScore_core r i a av ac au)) &&
    (!(sevC "I" sI i r) || F64.le x (GenV20.BaseScore_core c r a av ac au)) &&
    (!(sevC "A" sA a r) || F64.le x (GenV20.BaseScore_core c i r av ac au)) &&
    (!(sevC "AV" sAV av r) || F64.le x (GenV20.BaseScore_core c i a r ac au)) &&
    (!(sevC "AC" sAC ac r) || F64.le x (GenV20.BaseScore_core c i a av r au)) &&
    (!(sevC "Au" sAu au r) || F64.le x (GenV20.BaseScore_core c i a av ac r))
def monoBaseChunk : Bool :=
  (List.range 3).all fun c => (List.range 3).all fun i => (List.range 3).all fun a =>
  (List.range 3).all fun av => (List.range 3).all fun ac => (List.range 3).all fun au => monoBase c i a av ac au

/-- the possible BaseScore values: `j = 0` is `-0.0`, `j ≥ 1` is `(j-1)/10`; `j < 102` -/
def inB (j : Nat) : Nat := cond (Nat.beq j 0) NEG0 (F64.tenth (Nat.sub j 1))

/-- temporal step: monotone from one BaseScore value to the next, and in each weight code -/
def monoT2 (j e rl rc : Nat) : Bool :=
  F64.flet (inB j) fun x => F64.flet (T2f x e rl rc) fun y =>
  F64.le y (T2f (inB (Nat.succ j)) e rl rc) &&
  ((List.range 5).all fun r => !(sevC "E" sE e r) || F64.le y (T2f x r rl rc)) &&
  ((List.range 5).all fun r => !(sevC "RL" sRL rl r) || F64.le y (T2f x e r rc)) &&
  ((List.range 4).all fun r => !(sevC "RC" sRC rc r) || F64.le y (T2f x e rl r))
/-- all 102 BaseScore values (the last one, 10.0, is compared with 10.1, which is harmless) -/
def monoT2Chunk : Bool := (List.range 102).all fun j => allW (monoT2 j)
/-- `+0.0` and `-0.0` as input give results that are `≤` each other -/
def zeroT2Chunk : Bool := allW fun e rl rc => F64.le (T2f (inB 1) e rl rc) (T2f (inB 0) e rl rc)
/-- on BaseScore values, `F64.le` is the order of the indices (with `-0.0 = +0.0`) -/
def leBChunk : Bool :=
  (List.range 102).all fun i => F64.flet (inB i) fun x => (List.range 102).all fun i' =>
    (F64.le x (inB i') == (Nat.ble i i' || (Nat.ble i 1 && Nat.ble i' 1)))

/-- every possible score value is finite and `==` to itself -/
def eqChunk : Bool :=
  ((List.range 103).all fun j => iflet (inK j) fun k => F64.flet (tenthI k) fun x => F64.eq x x && F64.isFin x) &&
  F64.eq NEG0 (tenthI 0) && F64.isFin NEG0

end Proofs.Score2
