import Cvss.Proofs.Mono4P
import Cvss.Proofs.Mono4Pack
/-! # `scoreP` never exceeds the MacroVector's value, which is below 128 (so packed entries do not overlap) -/
namespace Proofs.Mono4

theorem lookupK_lt (q1 q2 q3 q4 q5 q6 : Nat) : lookupK q1 q2 q3 q4 q5 q6 < 128 := by
  unfold lookupK
  exact Nat.mod_lt _ (by decide)

/-- `⌊(2(vd − n) + d) / 2d⌋ ≤ v` -/
theorem half_up_le (v n d : Nat) : (2 * (v * d - n) + d) / (2 * d) ≤ v := by
  rcases Nat.eq_zero_or_pos d with h | h
  · subst h; simp
  · apply Nat.le_of_lt_succ
    rw [Nat.div_lt_iff_lt_mul (by omega)]
    have : (v + 1) * (2 * d) = 2 * (v * d) + 2 * d := by
      rw [Nat.add_mul, Nat.one_mul, Nat.mul_left_comm]
    rw [this]
    omega

theorem scoreP_le (q1 q2 q3 q4 q5 q6 d1 d2 d36 d4 : Nat) :
    scoreP q1 q2 q3 q4 q5 q6 d1 d2 d36 d4 ≤ lookupK q1 q2 q3 q4 q5 q6 := by
  unfold scoreP
  simp only [flet_eq]
  cases h : Nat.beq (Nat.add (Nat.add (Nat.add (Nat.add (cond (Nat.blt q1 2) 1 0) (cond (Nat.blt q2 1) 1 0)) (cond (Nat.beq q3 2) 0 1))
        (cond (Nat.blt q4 2) 1 0)) (cond (Nat.blt q5 2) 1 0)) 0
  · simp only [cond_false]
    exact half_up_le _ _ _
  · simp only [cond_true]
    exact Nat.le_refl _

theorem scoreP_lt (q1 q2 q3 q4 q5 q6 d1 d2 d36 d4 : Nat) : scoreP q1 q2 q3 q4 q5 q6 d1 d2 d36 d4 < 128 :=
  Nat.lt_of_le_of_lt (scoreP_le ..) (lookupK_lt ..)

end Proofs.Mono4
