import Cvss.Proofs.Score4TailDef
/-! GENERATED chunk 12 of the v4.0 float-tail obligation: for each MacroVector below and every severity
distance tuple within its depths, `roundup(eqsv − mean)` (the generated tail) is `F64.tenth` of the Spec's
exact half-up value. Kernel evaluation (`decide +kernel`), 2925 tuples. -/
namespace Proofs.Score4
set_option maxHeartbeats 2000000 in
theorem tail_000000 : tailOkMV 0 0 0 0 0 0 = true := by decide +kernel
set_option maxHeartbeats 2000000 in
theorem tail_001011 : tailOkMV 0 0 1 0 1 1 = true := by decide +kernel
set_option maxHeartbeats 2000000 in
theorem tail_001200 : tailOkMV 0 0 1 2 0 0 = true := by decide +kernel
set_option maxHeartbeats 2000000 in
theorem tail_010000 : tailOkMV 0 1 0 0 0 0 = true := by decide +kernel
set_option maxHeartbeats 2000000 in
theorem tail_012201 : tailOkMV 0 1 2 2 0 1 = true := by decide +kernel
set_option maxHeartbeats 2000000 in
theorem tail_100001 : tailOkMV 1 0 0 0 0 1 = true := by decide +kernel
set_option maxHeartbeats 2000000 in
theorem tail_101000 : tailOkMV 1 0 1 0 0 0 = true := by decide +kernel
set_option maxHeartbeats 2000000 in
theorem tail_101211 : tailOkMV 1 0 1 2 1 1 = true := by decide +kernel
set_option maxHeartbeats 2000000 in
theorem tail_102001 : tailOkMV 1 0 2 0 0 1 = true := by decide +kernel
set_option maxHeartbeats 2000000 in
theorem tail_111100 : tailOkMV 1 1 1 1 0 0 = true := by decide +kernel
set_option maxHeartbeats 2000000 in
theorem tail_200100 : tailOkMV 2 0 0 1 0 0 = true := by decide +kernel
set_option maxHeartbeats 2000000 in
theorem tail_201011 : tailOkMV 2 0 1 0 1 1 = true := by decide +kernel
set_option maxHeartbeats 2000000 in
theorem tail_211011 : tailOkMV 2 1 1 0 1 1 = true := by decide +kernel
set_option maxHeartbeats 2000000 in
theorem tail_211211 : tailOkMV 2 1 1 2 1 1 = true := by decide +kernel
set_option maxHeartbeats 2000000 in
theorem tail_212201 : tailOkMV 2 1 2 2 0 1 = true := by decide +kernel
end Proofs.Score4
