import Cvss.Base.Go
import Cvss.Gen.V30
set_option linter.unusedVariables false
/-! GENERATED from package 30 (parser mode) — do not edit -/
namespace GenP30

/-- splitCouple: body of the loop at cvss30.go -/
def splitCouple_for1 (couple : (List Nat)) : Nat → Go.Ctl Nat (Option ((List Nat) × (List Nat)))
  | i =>
    Go.index couple i (Go.Ctl.ret none) fun t0 =>
    cond (Nat.beq t0 (58 : Nat))
      (Go.sliceTo couple i (Go.Ctl.ret none) fun t1 =>
      Go.sliceFrom couple (Nat.add i (1 : Nat)) (Go.Ctl.ret none) fun t2 =>
      Go.Ctl.ret (some (t1, t2)))
      (Go.Ctl.next i)

/-- splitCouple  (cvss30.go)
    result: `none` = panic; `some (results…)` -/
def splitCouple (couple : (List Nat)) : (Option ((List Nat) × (List Nat))) :=
  let i := (0 : Nat)
  match Go.forN (Nat.add (List.length couple) (2 : Nat)) i
      (fun i => (Nat.blt i (List.length couple)))
      (fun i => let i := (Nat.add i (1 : Nat)); i)
      (GenP30.splitCouple_for1 couple) with
  | Go.Loop.ret r => r
  | Go.Loop.fuel => none
  | Go.Loop.done i =>
  some (couple, ([] : List Nat) /-  -/)

/-- kvm.Set  (cvss30.go)
    result: `none` = panic; `some (kvm, results…)` -/
def kvm_Set (kvm : (List Bool)) (abv : (List Nat)) : (Option ((List Bool) × Go.Err)) :=
  let dst : (Option Nat) := none /- nil -/
  cond ((Go.strEq abv ([65, 86] : List Nat) /- AV -/))
    (let dst := (some (0 : Nat)) /- &kvm.av -/
    Go.load kvm dst (none) fun t0 =>
    cond t0
      (some (kvm, (Go.Err.mk 102 abv) /- ErrDefinedN -/))
      (Go.store kvm dst true (none) fun kvm =>
      some (kvm, Go.errNil)))
   (cond ((Go.strEq abv ([65, 67] : List Nat) /- AC -/))
    (let dst := (some (1 : Nat)) /- &kvm.ac -/
    Go.load kvm dst (none) fun t1 =>
    cond t1
      (some (kvm, (Go.Err.mk 102 abv) /- ErrDefinedN -/))
      (Go.store kvm dst true (none) fun kvm =>
      some (kvm, Go.errNil)))
   (cond ((Go.strEq abv ([80, 82] : List Nat) /- PR -/))
    (let dst := (some (2 : Nat)) /- &kvm.pr -/
    Go.load kvm dst (none) fun t2 =>
    cond t2
      (some (kvm, (Go.Err.mk 102 abv) /- ErrDefinedN -/))
      (Go.store kvm dst true (none) fun kvm =>
      some (kvm, Go.errNil)))
   (cond ((Go.strEq abv ([85, 73] : List Nat) /- UI -/))
    (let dst := (some (3 : Nat)) /- &kvm.ui -/
    Go.load kvm dst (none) fun t3 =>
    cond t3
      (some (kvm, (Go.Err.mk 102 abv) /- ErrDefinedN -/))
      (Go.store kvm dst true (none) fun kvm =>
      some (kvm, Go.errNil)))
   (cond ((Go.strEq abv ([83] : List Nat) /- S -/))
    (let dst := (some (4 : Nat)) /- &kvm.s -/
    Go.load kvm dst (none) fun t4 =>
    cond t4
      (some (kvm, (Go.Err.mk 102 abv) /- ErrDefinedN -/))
      (Go.store kvm dst true (none) fun kvm =>
      some (kvm, Go.errNil)))
   (cond ((Go.strEq abv ([67] : List Nat) /- C -/))
    (let dst := (some (5 : Nat)) /- &kvm.c -/
    Go.load kvm dst (none) fun t5 =>
    cond t5
      (some (kvm, (Go.Err.mk 102 abv) /- ErrDefinedN -/))
      (Go.store kvm dst true (none) fun kvm =>
      some (kvm, Go.errNil)))
   (cond ((Go.strEq abv ([73] : List Nat) /- I -/))
    (let dst := (some (6 : Nat)) /- &kvm.i -/
    Go.load kvm dst (none) fun t6 =>
    cond t6
      (some (kvm, (Go.Err.mk 102 abv) /- ErrDefinedN -/))
      (Go.store kvm dst true (none) fun kvm =>
      some (kvm, Go.errNil)))
   (cond ((Go.strEq abv ([65] : List Nat) /- A -/))
    (let dst := (some (7 : Nat)) /- &kvm.a -/
    Go.load kvm dst (none) fun t7 =>
    cond t7
      (some (kvm, (Go.Err.mk 102 abv) /- ErrDefinedN -/))
      (Go.store kvm dst true (none) fun kvm =>
      some (kvm, Go.errNil)))
   (cond ((Go.strEq abv ([69] : List Nat) /- E -/))
    (let dst := (some (8 : Nat)) /- &kvm.e -/
    Go.load kvm dst (none) fun t8 =>
    cond t8
      (some (kvm, (Go.Err.mk 102 abv) /- ErrDefinedN -/))
      (Go.store kvm dst true (none) fun kvm =>
      some (kvm, Go.errNil)))
   (cond ((Go.strEq abv ([82, 76] : List Nat) /- RL -/))
    (let dst := (some (9 : Nat)) /- &kvm.rl -/
    Go.load kvm dst (none) fun t9 =>
    cond t9
      (some (kvm, (Go.Err.mk 102 abv) /- ErrDefinedN -/))
      (Go.store kvm dst true (none) fun kvm =>
      some (kvm, Go.errNil)))
   (cond ((Go.strEq abv ([82, 67] : List Nat) /- RC -/))
    (let dst := (some (10 : Nat)) /- &kvm.rc -/
    Go.load kvm dst (none) fun t10 =>
    cond t10
      (some (kvm, (Go.Err.mk 102 abv) /- ErrDefinedN -/))
      (Go.store kvm dst true (none) fun kvm =>
      some (kvm, Go.errNil)))
   (cond ((Go.strEq abv ([67, 82] : List Nat) /- CR -/))
    (let dst := (some (11 : Nat)) /- &kvm.cr -/
    Go.load kvm dst (none) fun t11 =>
    cond t11
      (some (kvm, (Go.Err.mk 102 abv) /- ErrDefinedN -/))
      (Go.store kvm dst true (none) fun kvm =>
      some (kvm, Go.errNil)))
   (cond ((Go.strEq abv ([73, 82] : List Nat) /- IR -/))
    (let dst := (some (12 : Nat)) /- &kvm.ir -/
    Go.load kvm dst (none) fun t12 =>
    cond t12
      (some (kvm, (Go.Err.mk 102 abv) /- ErrDefinedN -/))
      (Go.store kvm dst true (none) fun kvm =>
      some (kvm, Go.errNil)))
   (cond ((Go.strEq abv ([65, 82] : List Nat) /- AR -/))
    (let dst := (some (13 : Nat)) /- &kvm.ar -/
    Go.load kvm dst (none) fun t13 =>
    cond t13
      (some (kvm, (Go.Err.mk 102 abv) /- ErrDefinedN -/))
      (Go.store kvm dst true (none) fun kvm =>
      some (kvm, Go.errNil)))
   (cond ((Go.strEq abv ([77, 65, 86] : List Nat) /- MAV -/))
    (let dst := (some (14 : Nat)) /- &kvm.mav -/
    Go.load kvm dst (none) fun t14 =>
    cond t14
      (some (kvm, (Go.Err.mk 102 abv) /- ErrDefinedN -/))
      (Go.store kvm dst true (none) fun kvm =>
      some (kvm, Go.errNil)))
   (cond ((Go.strEq abv ([77, 65, 67] : List Nat) /- MAC -/))
    (let dst := (some (15 : Nat)) /- &kvm.mac -/
    Go.load kvm dst (none) fun t15 =>
    cond t15
      (some (kvm, (Go.Err.mk 102 abv) /- ErrDefinedN -/))
      (Go.store kvm dst true (none) fun kvm =>
      some (kvm, Go.errNil)))
   (cond ((Go.strEq abv ([77, 80, 82] : List Nat) /- MPR -/))
    (let dst := (some (16 : Nat)) /- &kvm.mpr -/
    Go.load kvm dst (none) fun t16 =>
    cond t16
      (some (kvm, (Go.Err.mk 102 abv) /- ErrDefinedN -/))
      (Go.store kvm dst true (none) fun kvm =>
      some (kvm, Go.errNil)))
   (cond ((Go.strEq abv ([77, 85, 73] : List Nat) /- MUI -/))
    (let dst := (some (17 : Nat)) /- &kvm.mui -/
    Go.load kvm dst (none) fun t17 =>
    cond t17
      (some (kvm, (Go.Err.mk 102 abv) /- ErrDefinedN -/))
      (Go.store kvm dst true (none) fun kvm =>
      some (kvm, Go.errNil)))
   (cond ((Go.strEq abv ([77, 83] : List Nat) /- MS -/))
    (let dst := (some (18 : Nat)) /- &kvm.ms -/
    Go.load kvm dst (none) fun t18 =>
    cond t18
      (some (kvm, (Go.Err.mk 102 abv) /- ErrDefinedN -/))
      (Go.store kvm dst true (none) fun kvm =>
      some (kvm, Go.errNil)))
   (cond ((Go.strEq abv ([77, 67] : List Nat) /- MC -/))
    (let dst := (some (19 : Nat)) /- &kvm.mc -/
    Go.load kvm dst (none) fun t19 =>
    cond t19
      (some (kvm, (Go.Err.mk 102 abv) /- ErrDefinedN -/))
      (Go.store kvm dst true (none) fun kvm =>
      some (kvm, Go.errNil)))
   (cond ((Go.strEq abv ([77, 73] : List Nat) /- MI -/))
    (let dst := (some (20 : Nat)) /- &kvm.mi -/
    Go.load kvm dst (none) fun t20 =>
    cond t20
      (some (kvm, (Go.Err.mk 102 abv) /- ErrDefinedN -/))
      (Go.store kvm dst true (none) fun kvm =>
      some (kvm, Go.errNil)))
   (cond ((Go.strEq abv ([77, 65] : List Nat) /- MA -/))
    (let dst := (some (21 : Nat)) /- &kvm.ma -/
    Go.load kvm dst (none) fun t21 =>
    cond t21
      (some (kvm, (Go.Err.mk 102 abv) /- ErrDefinedN -/))
      (Go.store kvm dst true (none) fun kvm =>
      some (kvm, Go.errNil)))
   (some (kvm, (Go.Err.mk 101 abv) /- ErrInvalidMetric -/)))))))))))))))))))))))

/-- ParseVector: body of the loop at cvss30.go -/
def ParseVector_for1 (vector : (List Nat)) (l : Nat) : (Nat × (List Bool) × Nat × Nat × Nat × Nat × Nat × Nat × Nat) → Go.Ctl (Nat × (List Bool) × Nat × Nat × Nat × Nat × Nat × Nat × Nat) (Go.Res (Nat × Nat × Nat × Nat × Nat × Nat))
  | (i, kvm, u0, u1, u2, u3, u4, u5, start) =>
    match (cond (Nat.beq i l) (some true)
        (Go.index vector i (none) fun t1 =>
        some (Nat.beq t1 (47 : Nat))) : Option Bool) with
    | none => Go.Ctl.ret Go.Res.panic
    | some c2 =>
    cond c2
      (Go.slice vector start i (Go.Ctl.ret Go.Res.panic) fun t3 =>
      match (GenP30.splitCouple t3) with
      | none => Go.Ctl.ret Go.Res.panic
      | some (a, v) =>
      match (GenP30.kvm_Set kvm a) with
      | none => Go.Ctl.ret Go.Res.panic
      | some (kvm, err) =>
      cond (!(Go.Err.beq err Go.errNil))
        (Go.Ctl.ret (Go.Res.err err))
        (match (GenV30.Set u0 u1 u2 u3 u4 u5 a v) with
        | (u0, u1, u2, u3, u4, u5, err) =>
        cond (!(Go.Err.beq err Go.errNil))
          (Go.Ctl.ret (Go.Res.err err))
          (let start := (Nat.add i (1 : Nat))
          Go.Ctl.next (i, kvm, u0, u1, u2, u3, u4, u5, start))))
      (Go.Ctl.next (i, kvm, u0, u1, u2, u3, u4, u5, start))

/-- ParseVector  (cvss30.go)
    result: `Go.Res.ok fields` = `return obj, nil`; `Go.Res.err e` = `return nil, e`; `Go.Res.panic` -/
def ParseVector (vector : (List Nat)) : (Go.Res (Nat × Nat × Nat × Nat × Nat × Nat)) :=
  cond (!(Go.hasPrefix vector ([67, 86, 83, 83, 58, 51, 46, 48, 47] : List Nat) /- CVSS:3.0/ -/))
    (Go.Res.err (Go.Err.mk 1 []) /- ErrInvalidCVSSHeader -/)
    (Go.sliceFrom vector (9 : Nat) (Go.Res.panic) fun t0 =>
    let vector := t0
    let u0 := (0 : Nat)
    let u1 := (0 : Nat)
    let u2 := (0 : Nat)
    let u3 := (0 : Nat)
    let u4 := (0 : Nat)
    let u5 := (0 : Nat)
    let kvm : List Bool := [false, false, false, false, false, false, false, false, false, false, false, false, false, false, false, false, false, false, false, false, false, false]
    let start := (0 : Nat)
    let l := (List.length vector)
    let i := (0 : Nat)
    match Go.forN (Nat.add l (2 : Nat)) (i, kvm, u0, u1, u2, u3, u4, u5, start)
        (fun (i, kvm, u0, u1, u2, u3, u4, u5, start) => (Nat.ble i l))
        (fun (i, kvm, u0, u1, u2, u3, u4, u5, start) => let i := (Nat.add i (1 : Nat)); (i, kvm, u0, u1, u2, u3, u4, u5, start))
        (GenP30.ParseVector_for1 vector l) with
    | Go.Loop.ret r => r
    | Go.Loop.fuel => Go.Res.panic
    | Go.Loop.done (i, kvm, u0, u1, u2, u3, u4, u5, start) =>
    cond (!(Go.idx kvm (0 : Nat)) /- kvm.av -/)
      (Go.Res.err (Go.Err.mk 103 ([65, 86] : List Nat) /- AV -/) /- ErrMissing -/)
      (cond (!(Go.idx kvm (1 : Nat)) /- kvm.ac -/)
        (Go.Res.err (Go.Err.mk 103 ([65, 67] : List Nat) /- AC -/) /- ErrMissing -/)
        (cond (!(Go.idx kvm (2 : Nat)) /- kvm.pr -/)
          (Go.Res.err (Go.Err.mk 103 ([80, 82] : List Nat) /- PR -/) /- ErrMissing -/)
          (cond (!(Go.idx kvm (3 : Nat)) /- kvm.ui -/)
            (Go.Res.err (Go.Err.mk 103 ([85, 73] : List Nat) /- UI -/) /- ErrMissing -/)
            (cond (!(Go.idx kvm (4 : Nat)) /- kvm.s -/)
              (Go.Res.err (Go.Err.mk 103 ([83] : List Nat) /- S -/) /- ErrMissing -/)
              (cond (!(Go.idx kvm (5 : Nat)) /- kvm.c -/)
                (Go.Res.err (Go.Err.mk 103 ([67] : List Nat) /- C -/) /- ErrMissing -/)
                (cond (!(Go.idx kvm (6 : Nat)) /- kvm.i -/)
                  (Go.Res.err (Go.Err.mk 103 ([73] : List Nat) /- I -/) /- ErrMissing -/)
                  (cond (!(Go.idx kvm (7 : Nat)) /- kvm.a -/)
                    (Go.Res.err (Go.Err.mk 103 ([65] : List Nat) /- A -/) /- ErrMissing -/)
                    (Go.Res.ok (u0, u1, u2, u3, u4, u5))))))))))

end GenP30
