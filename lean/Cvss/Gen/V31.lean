import Cvss.Base.Go
set_option linter.unusedVariables false
set_option maxRecDepth 100000
/-! GENERATED from package 31 — do not edit -/
namespace GenV31

/-- Get  (cvss31.go) -/
--   r0 := (Nat.shiftRight (Nat.land u0 (192 : Nat)) (6 : Nat))
--   r1 := (Nat.shiftRight (Nat.land u0 (32 : Nat)) (5 : Nat))
--   r2 := (Nat.shiftRight (Nat.land u0 (24 : Nat)) (3 : Nat))
--   r3 := (Nat.shiftRight (Nat.land u0 (4 : Nat)) (2 : Nat))
--   r4 := (Nat.shiftRight (Nat.land u0 (2 : Nat)) (1 : Nat))
--   r5 := (Nat.lor (Nat.mod (Nat.shiftLeft (Nat.land u0 (1 : Nat)) (1 : Nat)) 256) (Nat.shiftRight (Nat.land u1 (128 : Nat)) (7 : Nat)))
--   r6 := (Nat.shiftRight (Nat.land u1 (96 : Nat)) (5 : Nat))
--   r7 := (Nat.shiftRight (Nat.land u1 (24 : Nat)) (3 : Nat))
--   r8 := (Nat.land u1 (7 : Nat))
--   r9 := (Nat.shiftRight (Nat.land u2 (224 : Nat)) (5 : Nat))
--   r10 := (Nat.shiftRight (Nat.land u2 (24 : Nat)) (3 : Nat))
--   r11 := (Nat.shiftRight (Nat.land u2 (6 : Nat)) (1 : Nat))
--   r12 := (Nat.lor (Nat.mod (Nat.shiftLeft (Nat.land u2 (1 : Nat)) (1 : Nat)) 256) (Nat.shiftRight (Nat.land u3 (128 : Nat)) (7 : Nat)))
--   r13 := (Nat.shiftRight (Nat.land u3 (96 : Nat)) (5 : Nat))
--   r14 := (Nat.shiftRight (Nat.land u3 (28 : Nat)) (2 : Nat))
--   r15 := (Nat.land u3 (3 : Nat))
--   r16 := (Nat.shiftRight (Nat.land u4 (192 : Nat)) (6 : Nat))
--   r17 := (Nat.shiftRight (Nat.land u4 (48 : Nat)) (4 : Nat))
--   r18 := (Nat.shiftRight (Nat.land u4 (12 : Nat)) (2 : Nat))
--   r19 := (Nat.land u4 (3 : Nat))
--   r20 := (Nat.shiftRight (Nat.land u5 (192 : Nat)) (6 : Nat))
--   r21 := (Nat.shiftRight (Nat.land u5 (48 : Nat)) (4 : Nat))
def Get_core (r0 : Nat) (r1 : Nat) (r2 : Nat) (r3 : Nat) (r4 : Nat) (r5 : Nat) (r6 : Nat) (r7 : Nat) (r8 : Nat) (r9 : Nat) (r10 : Nat) (r11 : Nat) (r12 : Nat) (r13 : Nat) (r14 : Nat) (r15 : Nat) (r16 : Nat) (r17 : Nat) (r18 : Nat) (r19 : Nat) (r20 : Nat) (r21 : Nat) (abv : (List Nat)) : ((List Nat) × Go.Err) :=
  let r := []
  let err := Go.errNil
  cond ((Go.strEq abv ([65, 86] : List Nat) /- AV -/))
    (F64.flet r0 fun v =>
    cond ((Nat.beq v (0 : Nat)))
      (let r := ([78] : List Nat) /- N -/
      (r, err))
     (cond ((Nat.beq v (1 : Nat)))
      (let r := ([65] : List Nat) /- A -/
      (r, err))
     (cond ((Nat.beq v (2 : Nat)))
      (let r := ([76] : List Nat) /- L -/
      (r, err))
     (cond ((Nat.beq v (3 : Nat)))
      (let r := ([80] : List Nat) /- P -/
      (r, err))
     ((r, err))))))
   (cond ((Go.strEq abv ([65, 67] : List Nat) /- AC -/))
    (F64.flet r1 fun v =>
    cond ((Nat.beq v (0 : Nat)))
      (let r := ([76] : List Nat) /- L -/
      (r, err))
     (cond ((Nat.beq v (1 : Nat)))
      (let r := ([72] : List Nat) /- H -/
      (r, err))
     ((r, err))))
   (cond ((Go.strEq abv ([80, 82] : List Nat) /- PR -/))
    (F64.flet r2 fun v =>
    cond ((Nat.beq v (0 : Nat)))
      (let r := ([78] : List Nat) /- N -/
      (r, err))
     (cond ((Nat.beq v (1 : Nat)))
      (let r := ([76] : List Nat) /- L -/
      (r, err))
     (cond ((Nat.beq v (2 : Nat)))
      (let r := ([72] : List Nat) /- H -/
      (r, err))
     ((r, err)))))
   (cond ((Go.strEq abv ([85, 73] : List Nat) /- UI -/))
    (F64.flet r3 fun v =>
    cond ((Nat.beq v (0 : Nat)))
      (let r := ([78] : List Nat) /- N -/
      (r, err))
     (cond ((Nat.beq v (1 : Nat)))
      (let r := ([82] : List Nat) /- R -/
      (r, err))
     ((r, err))))
   (cond ((Go.strEq abv ([83] : List Nat) /- S -/))
    (F64.flet r4 fun v =>
    cond ((Nat.beq v (0 : Nat)))
      (let r := ([85] : List Nat) /- U -/
      (r, err))
     (cond ((Nat.beq v (1 : Nat)))
      (let r := ([67] : List Nat) /- C -/
      (r, err))
     ((r, err))))
   (cond ((Go.strEq abv ([67] : List Nat) /- C -/))
    (F64.flet r5 fun v =>
    cond ((Nat.beq v (0 : Nat)))
      (let r := ([72] : List Nat) /- H -/
      (r, err))
     (cond ((Nat.beq v (1 : Nat)))
      (let r := ([76] : List Nat) /- L -/
      (r, err))
     (cond ((Nat.beq v (2 : Nat)))
      (let r := ([78] : List Nat) /- N -/
      (r, err))
     ((r, err)))))
   (cond ((Go.strEq abv ([73] : List Nat) /- I -/))
    (F64.flet r6 fun v =>
    cond ((Nat.beq v (0 : Nat)))
      (let r := ([72] : List Nat) /- H -/
      (r, err))
     (cond ((Nat.beq v (1 : Nat)))
      (let r := ([76] : List Nat) /- L -/
      (r, err))
     (cond ((Nat.beq v (2 : Nat)))
      (let r := ([78] : List Nat) /- N -/
      (r, err))
     ((r, err)))))
   (cond ((Go.strEq abv ([65] : List Nat) /- A -/))
    (F64.flet r7 fun v =>
    cond ((Nat.beq v (0 : Nat)))
      (let r := ([72] : List Nat) /- H -/
      (r, err))
     (cond ((Nat.beq v (1 : Nat)))
      (let r := ([76] : List Nat) /- L -/
      (r, err))
     (cond ((Nat.beq v (2 : Nat)))
      (let r := ([78] : List Nat) /- N -/
      (r, err))
     ((r, err)))))
   (cond ((Go.strEq abv ([69] : List Nat) /- E -/))
    (F64.flet r8 fun v =>
    cond ((Nat.beq v (0 : Nat)))
      (let r := ([88] : List Nat) /- X -/
      (r, err))
     (cond ((Nat.beq v (1 : Nat)))
      (let r := ([72] : List Nat) /- H -/
      (r, err))
     (cond ((Nat.beq v (2 : Nat)))
      (let r := ([70] : List Nat) /- F -/
      (r, err))
     (cond ((Nat.beq v (3 : Nat)))
      (let r := ([80] : List Nat) /- P -/
      (r, err))
     (cond ((Nat.beq v (4 : Nat)))
      (let r := ([85] : List Nat) /- U -/
      (r, err))
     ((r, err)))))))
   (cond ((Go.strEq abv ([82, 76] : List Nat) /- RL -/))
    (F64.flet r9 fun v =>
    cond ((Nat.beq v (0 : Nat)))
      (let r := ([88] : List Nat) /- X -/
      (r, err))
     (cond ((Nat.beq v (1 : Nat)))
      (let r := ([85] : List Nat) /- U -/
      (r, err))
     (cond ((Nat.beq v (2 : Nat)))
      (let r := ([87] : List Nat) /- W -/
      (r, err))
     (cond ((Nat.beq v (3 : Nat)))
      (let r := ([84] : List Nat) /- T -/
      (r, err))
     (cond ((Nat.beq v (4 : Nat)))
      (let r := ([79] : List Nat) /- O -/
      (r, err))
     ((r, err)))))))
   (cond ((Go.strEq abv ([82, 67] : List Nat) /- RC -/))
    (F64.flet r10 fun v =>
    cond ((Nat.beq v (0 : Nat)))
      (let r := ([88] : List Nat) /- X -/
      (r, err))
     (cond ((Nat.beq v (1 : Nat)))
      (let r := ([67] : List Nat) /- C -/
      (r, err))
     (cond ((Nat.beq v (2 : Nat)))
      (let r := ([82] : List Nat) /- R -/
      (r, err))
     (cond ((Nat.beq v (3 : Nat)))
      (let r := ([85] : List Nat) /- U -/
      (r, err))
     ((r, err))))))
   (cond ((Go.strEq abv ([67, 82] : List Nat) /- CR -/))
    (F64.flet r11 fun v =>
    cond ((Nat.beq v (0 : Nat)))
      (let r := ([88] : List Nat) /- X -/
      (r, err))
     (cond ((Nat.beq v (1 : Nat)))
      (let r := ([72] : List Nat) /- H -/
      (r, err))
     (cond ((Nat.beq v (2 : Nat)))
      (let r := ([77] : List Nat) /- M -/
      (r, err))
     (cond ((Nat.beq v (3 : Nat)))
      (let r := ([76] : List Nat) /- L -/
      (r, err))
     ((r, err))))))
   (cond ((Go.strEq abv ([73, 82] : List Nat) /- IR -/))
    (F64.flet r12 fun v =>
    cond ((Nat.beq v (0 : Nat)))
      (let r := ([88] : List Nat) /- X -/
      (r, err))
     (cond ((Nat.beq v (1 : Nat)))
      (let r := ([72] : List Nat) /- H -/
      (r, err))
     (cond ((Nat.beq v (2 : Nat)))
      (let r := ([77] : List Nat) /- M -/
      (r, err))
     (cond ((Nat.beq v (3 : Nat)))
      (let r := ([76] : List Nat) /- L -/
      (r, err))
     ((r, err))))))
   (cond ((Go.strEq abv ([65, 82] : List Nat) /- AR -/))
    (F64.flet r13 fun v =>
    cond ((Nat.beq v (0 : Nat)))
      (let r := ([88] : List Nat) /- X -/
      (r, err))
     (cond ((Nat.beq v (1 : Nat)))
      (let r := ([72] : List Nat) /- H -/
      (r, err))
     (cond ((Nat.beq v (2 : Nat)))
      (let r := ([77] : List Nat) /- M -/
      (r, err))
     (cond ((Nat.beq v (3 : Nat)))
      (let r := ([76] : List Nat) /- L -/
      (r, err))
     ((r, err))))))
   (cond ((Go.strEq abv ([77, 65, 86] : List Nat) /- MAV -/))
    (F64.flet r14 fun v =>
    cond ((Nat.beq v (0 : Nat)))
      (let r := ([88] : List Nat) /- X -/
      (r, err))
     (cond ((Nat.beq v (1 : Nat)))
      (let r := ([78] : List Nat) /- N -/
      (r, err))
     (cond ((Nat.beq v (2 : Nat)))
      (let r := ([65] : List Nat) /- A -/
      (r, err))
     (cond ((Nat.beq v (3 : Nat)))
      (let r := ([76] : List Nat) /- L -/
      (r, err))
     (cond ((Nat.beq v (4 : Nat)))
      (let r := ([80] : List Nat) /- P -/
      (r, err))
     ((r, err)))))))
   (cond ((Go.strEq abv ([77, 65, 67] : List Nat) /- MAC -/))
    (F64.flet r15 fun v =>
    cond ((Nat.beq v (0 : Nat)))
      (let r := ([88] : List Nat) /- X -/
      (r, err))
     (cond ((Nat.beq v (1 : Nat)))
      (let r := ([76] : List Nat) /- L -/
      (r, err))
     (cond ((Nat.beq v (2 : Nat)))
      (let r := ([72] : List Nat) /- H -/
      (r, err))
     ((r, err)))))
   (cond ((Go.strEq abv ([77, 80, 82] : List Nat) /- MPR -/))
    (F64.flet r16 fun v =>
    cond ((Nat.beq v (0 : Nat)))
      (let r := ([88] : List Nat) /- X -/
      (r, err))
     (cond ((Nat.beq v (1 : Nat)))
      (let r := ([78] : List Nat) /- N -/
      (r, err))
     (cond ((Nat.beq v (2 : Nat)))
      (let r := ([76] : List Nat) /- L -/
      (r, err))
     (cond ((Nat.beq v (3 : Nat)))
      (let r := ([72] : List Nat) /- H -/
      (r, err))
     ((r, err))))))
   (cond ((Go.strEq abv ([77, 85, 73] : List Nat) /- MUI -/))
    (F64.flet r17 fun v =>
    cond ((Nat.beq v (0 : Nat)))
      (let r := ([88] : List Nat) /- X -/
      (r, err))
     (cond ((Nat.beq v (1 : Nat)))
      (let r := ([78] : List Nat) /- N -/
      (r, err))
     (cond ((Nat.beq v (2 : Nat)))
      (let r := ([82] : List Nat) /- R -/
      (r, err))
     ((r, err)))))
   (cond ((Go.strEq abv ([77, 83] : List Nat) /- MS -/))
    (F64.flet r18 fun v =>
    cond ((Nat.beq v (0 : Nat)))
      (let r := ([88] : List Nat) /- X -/
      (r, err))
     (cond ((Nat.beq v (1 : Nat)))
      (let r := ([85] : List Nat) /- U -/
      (r, err))
     (cond ((Nat.beq v (2 : Nat)))
      (let r := ([67] : List Nat) /- C -/
      (r, err))
     ((r, err)))))
   (cond ((Go.strEq abv ([77, 67] : List Nat) /- MC -/))
    (F64.flet r19 fun v =>
    cond ((Nat.beq v (0 : Nat)))
      (let r := ([88] : List Nat) /- X -/
      (r, err))
     (cond ((Nat.beq v (3 : Nat)))
      (let r := ([78] : List Nat) /- N -/
      (r, err))
     (cond ((Nat.beq v (2 : Nat)))
      (let r := ([76] : List Nat) /- L -/
      (r, err))
     (cond ((Nat.beq v (1 : Nat)))
      (let r := ([72] : List Nat) /- H -/
      (r, err))
     ((r, err))))))
   (cond ((Go.strEq abv ([77, 73] : List Nat) /- MI -/))
    (F64.flet r20 fun v =>
    cond ((Nat.beq v (0 : Nat)))
      (let r := ([88] : List Nat) /- X -/
      (r, err))
     (cond ((Nat.beq v (3 : Nat)))
      (let r := ([78] : List Nat) /- N -/
      (r, err))
     (cond ((Nat.beq v (2 : Nat)))
      (let r := ([76] : List Nat) /- L -/
      (r, err))
     (cond ((Nat.beq v (1 : Nat)))
      (let r := ([72] : List Nat) /- H -/
      (r, err))
     ((r, err))))))
   (cond ((Go.strEq abv ([77, 65] : List Nat) /- MA -/))
    (F64.flet r21 fun v =>
    cond ((Nat.beq v (0 : Nat)))
      (let r := ([88] : List Nat) /- X -/
      (r, err))
     (cond ((Nat.beq v (3 : Nat)))
      (let r := ([78] : List Nat) /- N -/
      (r, err))
     (cond ((Nat.beq v (2 : Nat)))
      (let r := ([76] : List Nat) /- L -/
      (r, err))
     (cond ((Nat.beq v (1 : Nat)))
      (let r := ([72] : List Nat) /- H -/
      (r, err))
     ((r, err))))))
   (let err := (Go.Err.mk 101 abv) /- ErrInvalidMetric -/
    (r, err)))))))))))))))))))))))

def Get (u0 : Nat) (u1 : Nat) (u2 : Nat) (u3 : Nat) (u4 : Nat) (u5 : Nat) (abv : (List Nat)) : ((List Nat) × Go.Err) :=
  Get_core (Nat.shiftRight (Nat.land u0 (192 : Nat)) (6 : Nat)) (Nat.shiftRight (Nat.land u0 (32 : Nat)) (5 : Nat)) (Nat.shiftRight (Nat.land u0 (24 : Nat)) (3 : Nat)) (Nat.shiftRight (Nat.land u0 (4 : Nat)) (2 : Nat)) (Nat.shiftRight (Nat.land u0 (2 : Nat)) (1 : Nat)) (Nat.lor (Nat.mod (Nat.shiftLeft (Nat.land u0 (1 : Nat)) (1 : Nat)) 256) (Nat.shiftRight (Nat.land u1 (128 : Nat)) (7 : Nat))) (Nat.shiftRight (Nat.land u1 (96 : Nat)) (5 : Nat)) (Nat.shiftRight (Nat.land u1 (24 : Nat)) (3 : Nat)) (Nat.land u1 (7 : Nat)) (Nat.shiftRight (Nat.land u2 (224 : Nat)) (5 : Nat)) (Nat.shiftRight (Nat.land u2 (24 : Nat)) (3 : Nat)) (Nat.shiftRight (Nat.land u2 (6 : Nat)) (1 : Nat)) (Nat.lor (Nat.mod (Nat.shiftLeft (Nat.land u2 (1 : Nat)) (1 : Nat)) 256) (Nat.shiftRight (Nat.land u3 (128 : Nat)) (7 : Nat))) (Nat.shiftRight (Nat.land u3 (96 : Nat)) (5 : Nat)) (Nat.shiftRight (Nat.land u3 (28 : Nat)) (2 : Nat)) (Nat.land u3 (3 : Nat)) (Nat.shiftRight (Nat.land u4 (192 : Nat)) (6 : Nat)) (Nat.shiftRight (Nat.land u4 (48 : Nat)) (4 : Nat)) (Nat.shiftRight (Nat.land u4 (12 : Nat)) (2 : Nat)) (Nat.land u4 (3 : Nat)) (Nat.shiftRight (Nat.land u5 (192 : Nat)) (6 : Nat)) (Nat.shiftRight (Nat.land u5 (48 : Nat)) (4 : Nat)) abv

/-- validate  (cvss31.go) -/
def validate (value : (List Nat)) (enabled : (List (List Nat))) : (Nat × Go.Err) :=
  F64.flet (0 : Nat) fun i =>
  let err := Go.errNil
  match Go.forRange enabled i (fun enbl i =>
      cond (Go.strEq value enbl)
        (Go.Ctl.ret (i, Go.errNil))
        (F64.flet (Nat.mod (Nat.add i (1 : Nat)) 256) fun i =>
        Go.Ctl.next i)) with
  | Go.Ctl.ret r => r
  | Go.Ctl.brk i => ((0x7FF8DEAD00000000 : Nat), Go.errPanic)
  | Go.Ctl.next i =>
  ((0 : Nat), (Go.Err.mk 4 []) /- ErrInvalidMetricValue -/)

/-- Set  (cvss31.go) -/
def Set (u0 : Nat) (u1 : Nat) (u2 : Nat) (u3 : Nat) (u4 : Nat) (u5 : Nat) (abv : (List Nat)) (value : (List Nat)) : (Nat × Nat × Nat × Nat × Nat × Nat × Go.Err) :=
  cond ((Go.strEq abv ([65, 86] : List Nat) /- AV -/))
    (match (GenV31.validate value [([78] : List Nat) /- N -/, ([65] : List Nat) /- A -/, ([76] : List Nat) /- L -/, ([80] : List Nat) /- P -/]) with
    | (v, err) =>
    cond (!(Go.Err.beq err Go.errNil))
      ((u0, u1, u2, u3, u4, u5, err))
      (F64.flet (Nat.lor (Nat.land u0 (63 : Nat)) (Nat.mod (Nat.shiftLeft v (6 : Nat)) 256)) fun u0 =>
      (u0, u1, u2, u3, u4, u5, Go.errNil)))
   (cond ((Go.strEq abv ([65, 67] : List Nat) /- AC -/))
    (match (GenV31.validate value [([76] : List Nat) /- L -/, ([72] : List Nat) /- H -/]) with
    | (v, err) =>
    cond (!(Go.Err.beq err Go.errNil))
      ((u0, u1, u2, u3, u4, u5, err))
      (F64.flet (Nat.lor (Nat.land u0 (223 : Nat)) (Nat.mod (Nat.shiftLeft v (5 : Nat)) 256)) fun u0 =>
      (u0, u1, u2, u3, u4, u5, Go.errNil)))
   (cond ((Go.strEq abv ([80, 82] : List Nat) /- PR -/))
    (match (GenV31.validate value [([78] : List Nat) /- N -/, ([76] : List Nat) /- L -/, ([72] : List Nat) /- H -/]) with
    | (v, err) =>
    cond (!(Go.Err.beq err Go.errNil))
      ((u0, u1, u2, u3, u4, u5, err))
      (F64.flet (Nat.lor (Nat.land u0 (231 : Nat)) (Nat.mod (Nat.shiftLeft v (3 : Nat)) 256)) fun u0 =>
      (u0, u1, u2, u3, u4, u5, Go.errNil)))
   (cond ((Go.strEq abv ([85, 73] : List Nat) /- UI -/))
    (match (GenV31.validate value [([78] : List Nat) /- N -/, ([82] : List Nat) /- R -/]) with
    | (v, err) =>
    cond (!(Go.Err.beq err Go.errNil))
      ((u0, u1, u2, u3, u4, u5, err))
      (F64.flet (Nat.lor (Nat.land u0 (251 : Nat)) (Nat.mod (Nat.shiftLeft v (2 : Nat)) 256)) fun u0 =>
      (u0, u1, u2, u3, u4, u5, Go.errNil)))
   (cond ((Go.strEq abv ([83] : List Nat) /- S -/))
    (match (GenV31.validate value [([85] : List Nat) /- U -/, ([67] : List Nat) /- C -/]) with
    | (v, err) =>
    cond (!(Go.Err.beq err Go.errNil))
      ((u0, u1, u2, u3, u4, u5, err))
      (F64.flet (Nat.lor (Nat.land u0 (253 : Nat)) (Nat.mod (Nat.shiftLeft v (1 : Nat)) 256)) fun u0 =>
      (u0, u1, u2, u3, u4, u5, Go.errNil)))
   (cond ((Go.strEq abv ([67] : List Nat) /- C -/))
    (match (GenV31.validate value [([72] : List Nat) /- H -/, ([76] : List Nat) /- L -/, ([78] : List Nat) /- N -/]) with
    | (v, err) =>
    cond (!(Go.Err.beq err Go.errNil))
      ((u0, u1, u2, u3, u4, u5, err))
      (F64.flet (Nat.lor (Nat.land u0 (254 : Nat)) (Nat.shiftRight (Nat.land v (2 : Nat)) (1 : Nat))) fun u0 =>
      F64.flet (Nat.lor (Nat.land u1 (127 : Nat)) (Nat.mod (Nat.shiftLeft (Nat.land v (1 : Nat)) (7 : Nat)) 256)) fun u1 =>
      (u0, u1, u2, u3, u4, u5, Go.errNil)))
   (cond ((Go.strEq abv ([73] : List Nat) /- I -/))
    (match (GenV31.validate value [([72] : List Nat) /- H -/, ([76] : List Nat) /- L -/, ([78] : List Nat) /- N -/]) with
    | (v, err) =>
    cond (!(Go.Err.beq err Go.errNil))
      ((u0, u1, u2, u3, u4, u5, err))
      (F64.flet (Nat.lor (Nat.land u1 (159 : Nat)) (Nat.mod (Nat.shiftLeft v (5 : Nat)) 256)) fun u1 =>
      (u0, u1, u2, u3, u4, u5, Go.errNil)))
   (cond ((Go.strEq abv ([65] : List Nat) /- A -/))
    (match (GenV31.validate value [([72] : List Nat) /- H -/, ([76] : List Nat) /- L -/, ([78] : List Nat) /- N -/]) with
    | (v, err) =>
    cond (!(Go.Err.beq err Go.errNil))
      ((u0, u1, u2, u3, u4, u5, err))
      (F64.flet (Nat.lor (Nat.land u1 (231 : Nat)) (Nat.mod (Nat.shiftLeft v (3 : Nat)) 256)) fun u1 =>
      (u0, u1, u2, u3, u4, u5, Go.errNil)))
   (cond ((Go.strEq abv ([69] : List Nat) /- E -/))
    (match (GenV31.validate value [([88] : List Nat) /- X -/, ([72] : List Nat) /- H -/, ([70] : List Nat) /- F -/, ([80] : List Nat) /- P -/, ([85] : List Nat) /- U -/]) with
    | (v, err) =>
    cond (!(Go.Err.beq err Go.errNil))
      ((u0, u1, u2, u3, u4, u5, err))
      (F64.flet (Nat.lor (Nat.land u1 (248 : Nat)) v) fun u1 =>
      (u0, u1, u2, u3, u4, u5, Go.errNil)))
   (cond ((Go.strEq abv ([82, 76] : List Nat) /- RL -/))
    (match (GenV31.validate value [([88] : List Nat) /- X -/, ([85] : List Nat) /- U -/, ([87] : List Nat) /- W -/, ([84] : List Nat) /- T -/, ([79] : List Nat) /- O -/]) with
    | (v, err) =>
    cond (!(Go.Err.beq err Go.errNil))
      ((u0, u1, u2, u3, u4, u5, err))
      (F64.flet (Nat.lor (Nat.land u2 (31 : Nat)) (Nat.mod (Nat.shiftLeft v (5 : Nat)) 256)) fun u2 =>
      (u0, u1, u2, u3, u4, u5, Go.errNil)))
   (cond ((Go.strEq abv ([82, 67] : List Nat) /- RC -/))
    (match (GenV31.validate value [([88] : List Nat) /- X -/, ([67] : List Nat) /- C -/, ([82] : List Nat) /- R -/, ([85] : List Nat) /- U -/]) with
    | (v, err) =>
    cond (!(Go.Err.beq err Go.errNil))
      ((u0, u1, u2, u3, u4, u5, err))
      (F64.flet (Nat.lor (Nat.land u2 (231 : Nat)) (Nat.mod (Nat.shiftLeft v (3 : Nat)) 256)) fun u2 =>
      (u0, u1, u2, u3, u4, u5, Go.errNil)))
   (cond ((Go.strEq abv ([67, 82] : List Nat) /- CR -/))
    (match (GenV31.validate value [([88] : List Nat) /- X -/, ([72] : List Nat) /- H -/, ([77] : List Nat) /- M -/, ([76] : List Nat) /- L -/]) with
    | (v, err) =>
    cond (!(Go.Err.beq err Go.errNil))
      ((u0, u1, u2, u3, u4, u5, err))
      (F64.flet (Nat.lor (Nat.land u2 (249 : Nat)) (Nat.mod (Nat.shiftLeft v (1 : Nat)) 256)) fun u2 =>
      (u0, u1, u2, u3, u4, u5, Go.errNil)))
   (cond ((Go.strEq abv ([73, 82] : List Nat) /- IR -/))
    (match (GenV31.validate value [([88] : List Nat) /- X -/, ([72] : List Nat) /- H -/, ([77] : List Nat) /- M -/, ([76] : List Nat) /- L -/]) with
    | (v, err) =>
    cond (!(Go.Err.beq err Go.errNil))
      ((u0, u1, u2, u3, u4, u5, err))
      (F64.flet (Nat.lor (Nat.land u2 (254 : Nat)) (Nat.shiftRight (Nat.land v (2 : Nat)) (1 : Nat))) fun u2 =>
      F64.flet (Nat.lor (Nat.land u3 (127 : Nat)) (Nat.mod (Nat.shiftLeft (Nat.land v (1 : Nat)) (7 : Nat)) 256)) fun u3 =>
      (u0, u1, u2, u3, u4, u5, Go.errNil)))
   (cond ((Go.strEq abv ([65, 82] : List Nat) /- AR -/))
    (match (GenV31.validate value [([88] : List Nat) /- X -/, ([72] : List Nat) /- H -/, ([77] : List Nat) /- M -/, ([76] : List Nat) /- L -/]) with
    | (v, err) =>
    cond (!(Go.Err.beq err Go.errNil))
      ((u0, u1, u2, u3, u4, u5, err))
      (F64.flet (Nat.lor (Nat.land u3 (159 : Nat)) (Nat.mod (Nat.shiftLeft v (5 : Nat)) 256)) fun u3 =>
      (u0, u1, u2, u3, u4, u5, Go.errNil)))
   (cond ((Go.strEq abv ([77, 65, 86] : List Nat) /- MAV -/))
    (match (GenV31.validate value [([88] : List Nat) /- X -/, ([78] : List Nat) /- N -/, ([65] : List Nat) /- A -/, ([76] : List Nat) /- L -/, ([80] : List Nat) /- P -/]) with
    | (v, err) =>
    cond (!(Go.Err.beq err Go.errNil))
      ((u0, u1, u2, u3, u4, u5, err))
      (F64.flet (Nat.lor (Nat.land u3 (227 : Nat)) (Nat.mod (Nat.shiftLeft v (2 : Nat)) 256)) fun u3 =>
      (u0, u1, u2, u3, u4, u5, Go.errNil)))
   (cond ((Go.strEq abv ([77, 65, 67] : List Nat) /- MAC -/))
    (match (GenV31.validate value [([88] : List Nat) /- X -/, ([76] : List Nat) /- L -/, ([72] : List Nat) /- H -/]) with
    | (v, err) =>
    cond (!(Go.Err.beq err Go.errNil))
      ((u0, u1, u2, u3, u4, u5, err))
      (F64.flet (Nat.lor (Nat.land u3 (252 : Nat)) v) fun u3 =>
      (u0, u1, u2, u3, u4, u5, Go.errNil)))
   (cond ((Go.strEq abv ([77, 80, 82] : List Nat) /- MPR -/))
    (match (GenV31.validate value [([88] : List Nat) /- X -/, ([78] : List Nat) /- N -/, ([76] : List Nat) /- L -/, ([72] : List Nat) /- H -/]) with
    | (v, err) =>
    cond (!(Go.Err.beq err Go.errNil))
      ((u0, u1, u2, u3, u4, u5, err))
      (F64.flet (Nat.lor (Nat.land u4 (63 : Nat)) (Nat.mod (Nat.shiftLeft v (6 : Nat)) 256)) fun u4 =>
      (u0, u1, u2, u3, u4, u5, Go.errNil)))
   (cond ((Go.strEq abv ([77, 85, 73] : List Nat) /- MUI -/))
    (match (GenV31.validate value [([88] : List Nat) /- X -/, ([78] : List Nat) /- N -/, ([82] : List Nat) /- R -/]) with
    | (v, err) =>
    cond (!(Go.Err.beq err Go.errNil))
      ((u0, u1, u2, u3, u4, u5, err))
      (F64.flet (Nat.lor (Nat.land u4 (207 : Nat)) (Nat.mod (Nat.shiftLeft v (4 : Nat)) 256)) fun u4 =>
      (u0, u1, u2, u3, u4, u5, Go.errNil)))
   (cond ((Go.strEq abv ([77, 83] : List Nat) /- MS -/))
    (match (GenV31.validate value [([88] : List Nat) /- X -/, ([85] : List Nat) /- U -/, ([67] : List Nat) /- C -/]) with
    | (v, err) =>
    cond (!(Go.Err.beq err Go.errNil))
      ((u0, u1, u2, u3, u4, u5, err))
      (F64.flet (Nat.lor (Nat.land u4 (243 : Nat)) (Nat.mod (Nat.shiftLeft v (2 : Nat)) 256)) fun u4 =>
      (u0, u1, u2, u3, u4, u5, Go.errNil)))
   (cond ((Go.strEq abv ([77, 67] : List Nat) /- MC -/))
    (match (GenV31.validate value [([88] : List Nat) /- X -/, ([72] : List Nat) /- H -/, ([76] : List Nat) /- L -/, ([78] : List Nat) /- N -/]) with
    | (v, err) =>
    cond (!(Go.Err.beq err Go.errNil))
      ((u0, u1, u2, u3, u4, u5, err))
      (F64.flet (Nat.lor (Nat.land u4 (252 : Nat)) v) fun u4 =>
      (u0, u1, u2, u3, u4, u5, Go.errNil)))
   (cond ((Go.strEq abv ([77, 73] : List Nat) /- MI -/))
    (match (GenV31.validate value [([88] : List Nat) /- X -/, ([72] : List Nat) /- H -/, ([76] : List Nat) /- L -/, ([78] : List Nat) /- N -/]) with
    | (v, err) =>
    cond (!(Go.Err.beq err Go.errNil))
      ((u0, u1, u2, u3, u4, u5, err))
      (F64.flet (Nat.lor (Nat.land u5 (63 : Nat)) (Nat.mod (Nat.shiftLeft v (6 : Nat)) 256)) fun u5 =>
      (u0, u1, u2, u3, u4, u5, Go.errNil)))
   (cond ((Go.strEq abv ([77, 65] : List Nat) /- MA -/))
    (match (GenV31.validate value [([88] : List Nat) /- X -/, ([72] : List Nat) /- H -/, ([76] : List Nat) /- L -/, ([78] : List Nat) /- N -/]) with
    | (v, err) =>
    cond (!(Go.Err.beq err Go.errNil))
      ((u0, u1, u2, u3, u4, u5, err))
      (F64.flet (Nat.lor (Nat.land u5 (192 : Nat)) (Nat.mod (Nat.shiftLeft v (4 : Nat)) 256)) fun u5 =>
      (u0, u1, u2, u3, u4, u5, Go.errNil)))
   ((u0, u1, u2, u3, u4, u5, (Go.Err.mk 101 abv) /- ErrInvalidMetric -/)))))))))))))))))))))))

/-- lenVec  (cvss31.go) -/
--   r0 := (Nat.land u1 (7 : Nat))
--   r1 := (Nat.land u2 (224 : Nat))
--   r2 := (Nat.land u2 (24 : Nat))
--   r3 := (Nat.land u2 (6 : Nat))
--   r4 := (Nat.land u2 (1 : Nat))
--   r5 := (Nat.land u3 (128 : Nat))
--   r6 := (Nat.land u3 (96 : Nat))
--   r7 := (Nat.land u4 (12 : Nat))
--   r8 := (Nat.land u4 (3 : Nat))
--   r9 := (Nat.land u5 (192 : Nat))
--   r10 := (Nat.land u5 (48 : Nat))
--   r11 := (Nat.land u3 (28 : Nat))
--   r12 := (Nat.land u3 (3 : Nat))
--   r13 := (Nat.land u4 (192 : Nat))
--   r14 := (Nat.land u4 (48 : Nat))
def lenVec_core (r0 : Nat) (r1 : Nat) (r2 : Nat) (r3 : Nat) (r4 : Nat) (r5 : Nat) (r6 : Nat) (r7 : Nat) (r8 : Nat) (r9 : Nat) (r10 : Nat) (r11 : Nat) (r12 : Nat) (r13 : Nat) (r14 : Nat) : Nat :=
  F64.flet (44 : Nat) fun l =>
  match (cond (!(Nat.beq r0 (0 : Nat)))
    (F64.flet (Nat.add l (4 : Nat)) fun l =>
    l)
    (l)) with
  | l =>
  match (cond (!(Nat.beq r1 (0 : Nat)))
    (F64.flet (Nat.add l (5 : Nat)) fun l =>
    l)
    (l)) with
  | l =>
  match (cond (!(Nat.beq r2 (0 : Nat)))
    (F64.flet (Nat.add l (5 : Nat)) fun l =>
    l)
    (l)) with
  | l =>
  match (cond (!(Nat.beq r3 (0 : Nat)))
    (F64.flet (Nat.add l (5 : Nat)) fun l =>
    l)
    (l)) with
  | l =>
  match (cond ((!(Nat.beq r4 (0 : Nat))) || (!(Nat.beq r5 (0 : Nat))))
    (F64.flet (Nat.add l (5 : Nat)) fun l =>
    l)
    (l)) with
  | l =>
  match (cond (!(Nat.beq r6 (0 : Nat)))
    (F64.flet (Nat.add l (5 : Nat)) fun l =>
    l)
    (l)) with
  | l =>
  match (cond (!(Nat.beq r7 (0 : Nat)))
    (F64.flet (Nat.add l (5 : Nat)) fun l =>
    l)
    (l)) with
  | l =>
  match (cond (!(Nat.beq r8 (0 : Nat)))
    (F64.flet (Nat.add l (5 : Nat)) fun l =>
    l)
    (l)) with
  | l =>
  match (cond (!(Nat.beq r9 (0 : Nat)))
    (F64.flet (Nat.add l (5 : Nat)) fun l =>
    l)
    (l)) with
  | l =>
  match (cond (!(Nat.beq r10 (0 : Nat)))
    (F64.flet (Nat.add l (5 : Nat)) fun l =>
    l)
    (l)) with
  | l =>
  match (cond (!(Nat.beq r11 (0 : Nat)))
    (F64.flet (Nat.add l (6 : Nat)) fun l =>
    l)
    (l)) with
  | l =>
  match (cond (!(Nat.beq r12 (0 : Nat)))
    (F64.flet (Nat.add l (6 : Nat)) fun l =>
    l)
    (l)) with
  | l =>
  match (cond (!(Nat.beq r13 (0 : Nat)))
    (F64.flet (Nat.add l (6 : Nat)) fun l =>
    l)
    (l)) with
  | l =>
  match (cond (!(Nat.beq r14 (0 : Nat)))
    (F64.flet (Nat.add l (6 : Nat)) fun l =>
    l)
    (l)) with
  | l =>
  l

def lenVec (u0 : Nat) (u1 : Nat) (u2 : Nat) (u3 : Nat) (u4 : Nat) (u5 : Nat) : Nat :=
  lenVec_core (Nat.land u1 (7 : Nat)) (Nat.land u2 (224 : Nat)) (Nat.land u2 (24 : Nat)) (Nat.land u2 (6 : Nat)) (Nat.land u2 (1 : Nat)) (Nat.land u3 (128 : Nat)) (Nat.land u3 (96 : Nat)) (Nat.land u4 (12 : Nat)) (Nat.land u4 (3 : Nat)) (Nat.land u5 (192 : Nat)) (Nat.land u5 (48 : Nat)) (Nat.land u3 (28 : Nat)) (Nat.land u3 (3 : Nat)) (Nat.land u4 (192 : Nat)) (Nat.land u4 (48 : Nat))

/-- get  (cvss31.go) -/
--   r0 := (Nat.shiftRight (Nat.land u0 (192 : Nat)) (6 : Nat))
--   r1 := (Nat.shiftRight (Nat.land u0 (32 : Nat)) (5 : Nat))
--   r2 := (Nat.shiftRight (Nat.land u0 (24 : Nat)) (3 : Nat))
--   r3 := (Nat.shiftRight (Nat.land u0 (4 : Nat)) (2 : Nat))
--   r4 := (Nat.shiftRight (Nat.land u0 (2 : Nat)) (1 : Nat))
--   r5 := (Nat.lor (Nat.mod (Nat.shiftLeft (Nat.land u0 (1 : Nat)) (1 : Nat)) 256) (Nat.shiftRight (Nat.land u1 (128 : Nat)) (7 : Nat)))
--   r6 := (Nat.shiftRight (Nat.land u1 (96 : Nat)) (5 : Nat))
--   r7 := (Nat.shiftRight (Nat.land u1 (24 : Nat)) (3 : Nat))
--   r8 := (Nat.land u1 (7 : Nat))
--   r9 := (Nat.shiftRight (Nat.land u2 (224 : Nat)) (5 : Nat))
--   r10 := (Nat.shiftRight (Nat.land u2 (24 : Nat)) (3 : Nat))
--   r11 := (Nat.shiftRight (Nat.land u2 (6 : Nat)) (1 : Nat))
--   r12 := (Nat.lor (Nat.mod (Nat.shiftLeft (Nat.land u2 (1 : Nat)) (1 : Nat)) 256) (Nat.shiftRight (Nat.land u3 (128 : Nat)) (7 : Nat)))
--   r13 := (Nat.shiftRight (Nat.land u3 (96 : Nat)) (5 : Nat))
--   r14 := (Nat.shiftRight (Nat.land u3 (28 : Nat)) (2 : Nat))
--   r15 := (Nat.land u3 (3 : Nat))
--   r16 := (Nat.shiftRight (Nat.land u4 (192 : Nat)) (6 : Nat))
--   r17 := (Nat.shiftRight (Nat.land u4 (48 : Nat)) (4 : Nat))
--   r18 := (Nat.shiftRight (Nat.land u4 (12 : Nat)) (2 : Nat))
--   r19 := (Nat.land u4 (3 : Nat))
--   r20 := (Nat.shiftRight (Nat.land u5 (192 : Nat)) (6 : Nat))
--   r21 := (Nat.shiftRight (Nat.land u5 (48 : Nat)) (4 : Nat))
def get_core (r0 : Nat) (r1 : Nat) (r2 : Nat) (r3 : Nat) (r4 : Nat) (r5 : Nat) (r6 : Nat) (r7 : Nat) (r8 : Nat) (r9 : Nat) (r10 : Nat) (r11 : Nat) (r12 : Nat) (r13 : Nat) (r14 : Nat) (r15 : Nat) (r16 : Nat) (r17 : Nat) (r18 : Nat) (r19 : Nat) (r20 : Nat) (r21 : Nat) (abv : (List Nat)) : (List Nat) :=
  match (GenV31.Get_core r0 r1 r2 r3 r4 r5 r6 r7 r8 r9 r10 r11 r12 r13 r14 r15 r16 r17 r18 r19 r20 r21 abv) with
  | (str, _) =>
  str

def get (u0 : Nat) (u1 : Nat) (u2 : Nat) (u3 : Nat) (u4 : Nat) (u5 : Nat) (abv : (List Nat)) : (List Nat) :=
  get_core (Nat.shiftRight (Nat.land u0 (192 : Nat)) (6 : Nat)) (Nat.shiftRight (Nat.land u0 (32 : Nat)) (5 : Nat)) (Nat.shiftRight (Nat.land u0 (24 : Nat)) (3 : Nat)) (Nat.shiftRight (Nat.land u0 (4 : Nat)) (2 : Nat)) (Nat.shiftRight (Nat.land u0 (2 : Nat)) (1 : Nat)) (Nat.lor (Nat.mod (Nat.shiftLeft (Nat.land u0 (1 : Nat)) (1 : Nat)) 256) (Nat.shiftRight (Nat.land u1 (128 : Nat)) (7 : Nat))) (Nat.shiftRight (Nat.land u1 (96 : Nat)) (5 : Nat)) (Nat.shiftRight (Nat.land u1 (24 : Nat)) (3 : Nat)) (Nat.land u1 (7 : Nat)) (Nat.shiftRight (Nat.land u2 (224 : Nat)) (5 : Nat)) (Nat.shiftRight (Nat.land u2 (24 : Nat)) (3 : Nat)) (Nat.shiftRight (Nat.land u2 (6 : Nat)) (1 : Nat)) (Nat.lor (Nat.mod (Nat.shiftLeft (Nat.land u2 (1 : Nat)) (1 : Nat)) 256) (Nat.shiftRight (Nat.land u3 (128 : Nat)) (7 : Nat))) (Nat.shiftRight (Nat.land u3 (96 : Nat)) (5 : Nat)) (Nat.shiftRight (Nat.land u3 (28 : Nat)) (2 : Nat)) (Nat.land u3 (3 : Nat)) (Nat.shiftRight (Nat.land u4 (192 : Nat)) (6 : Nat)) (Nat.shiftRight (Nat.land u4 (48 : Nat)) (4 : Nat)) (Nat.shiftRight (Nat.land u4 (12 : Nat)) (2 : Nat)) (Nat.land u4 (3 : Nat)) (Nat.shiftRight (Nat.land u5 (192 : Nat)) (6 : Nat)) (Nat.shiftRight (Nat.land u5 (48 : Nat)) (4 : Nat)) abv

/-- mandatory  (cvss31.go) -/
def mandatory (b : (List Nat)) (pre : (List Nat)) (v : (List Nat)) : (List Nat) :=
  let b := (b ++ pre)
  let b := (b ++ v)
  b

/-- notMandatory  (cvss31.go) -/
def notMandatory (b : (List Nat)) (pre : (List Nat)) (v : (List Nat)) : (List Nat) :=
  cond (Go.strEq v ([88] : List Nat) /- X -/)
    (b)
    (let b := (GenV31.mandatory b pre v)
    b)

/-- Vector  (cvss31.go) -/
--   r0 := (Nat.land u1 (7 : Nat))
--   r1 := (Nat.land u2 (224 : Nat))
--   r2 := (Nat.land u2 (24 : Nat))
--   r3 := (Nat.land u2 (6 : Nat))
--   r4 := (Nat.land u2 (1 : Nat))
--   r5 := (Nat.land u3 (128 : Nat))
--   r6 := (Nat.land u3 (96 : Nat))
--   r7 := (Nat.land u4 (12 : Nat))
--   r8 := (Nat.land u4 (3 : Nat))
--   r9 := (Nat.land u5 (192 : Nat))
--   r10 := (Nat.land u5 (48 : Nat))
--   r11 := (Nat.land u3 (28 : Nat))
--   r12 := (Nat.land u3 (3 : Nat))
--   r13 := (Nat.land u4 (192 : Nat))
--   r14 := (Nat.land u4 (48 : Nat))
--   r15 := (Nat.shiftRight (Nat.land u0 (192 : Nat)) (6 : Nat))
--   r16 := (Nat.shiftRight (Nat.land u0 (32 : Nat)) (5 : Nat))
--   r17 := (Nat.shiftRight (Nat.land u0 (24 : Nat)) (3 : Nat))
--   r18 := (Nat.shiftRight (Nat.land u0 (4 : Nat)) (2 : Nat))
--   r19 := (Nat.shiftRight (Nat.land u0 (2 : Nat)) (1 : Nat))
--   r20 := (Nat.lor (Nat.mod (Nat.shiftLeft (Nat.land u0 (1 : Nat)) (1 : Nat)) 256) (Nat.shiftRight (Nat.land u1 (128 : Nat)) (7 : Nat)))
--   r21 := (Nat.shiftRight (Nat.land u1 (96 : Nat)) (5 : Nat))
--   r22 := (Nat.shiftRight (Nat.land u1 (24 : Nat)) (3 : Nat))
--   r23 := (Nat.shiftRight (Nat.land u2 (224 : Nat)) (5 : Nat))
--   r24 := (Nat.shiftRight (Nat.land u2 (24 : Nat)) (3 : Nat))
--   r25 := (Nat.shiftRight (Nat.land u2 (6 : Nat)) (1 : Nat))
--   r26 := (Nat.lor (Nat.mod (Nat.shiftLeft (Nat.land u2 (1 : Nat)) (1 : Nat)) 256) (Nat.shiftRight (Nat.land u3 (128 : Nat)) (7 : Nat)))
--   r27 := (Nat.shiftRight (Nat.land u3 (96 : Nat)) (5 : Nat))
--   r28 := (Nat.shiftRight (Nat.land u3 (28 : Nat)) (2 : Nat))
--   r29 := (Nat.shiftRight (Nat.land u4 (192 : Nat)) (6 : Nat))
--   r30 := (Nat.shiftRight (Nat.land u4 (48 : Nat)) (4 : Nat))
--   r31 := (Nat.shiftRight (Nat.land u4 (12 : Nat)) (2 : Nat))
--   r32 := (Nat.shiftRight (Nat.land u5 (192 : Nat)) (6 : Nat))
--   r33 := (Nat.shiftRight (Nat.land u5 (48 : Nat)) (4 : Nat))
def Vector_core (r0 : Nat) (r1 : Nat) (r2 : Nat) (r3 : Nat) (r4 : Nat) (r5 : Nat) (r6 : Nat) (r7 : Nat) (r8 : Nat) (r9 : Nat) (r10 : Nat) (r11 : Nat) (r12 : Nat) (r13 : Nat) (r14 : Nat) (r15 : Nat) (r16 : Nat) (r17 : Nat) (r18 : Nat) (r19 : Nat) (r20 : Nat) (r21 : Nat) (r22 : Nat) (r23 : Nat) (r24 : Nat) (r25 : Nat) (r26 : Nat) (r27 : Nat) (r28 : Nat) (r29 : Nat) (r30 : Nat) (r31 : Nat) (r32 : Nat) (r33 : Nat) : (List Nat) :=
  F64.flet (GenV31.lenVec_core r0 r1 r2 r3 r4 r5 r6 r7 r8 r9 r10 r11 r12 r13 r14) fun l =>
  let b := ([] : List Nat)
  let b := (b ++ ([67, 86, 83, 83, 58, 51, 46, 49, 47] : List Nat) /- CVSS:3.1/ -/)
  let b := (GenV31.mandatory b ([65, 86, 58] : List Nat) /- AV: -/ (GenV31.get_core r15 r16 r17 r18 r19 r20 r21 r22 r0 r23 r24 r25 r26 r27 r28 r12 r29 r30 r31 r8 r32 r33 ([65, 86] : List Nat) /- AV -/))
  let b := (GenV31.mandatory b ([47, 65, 67, 58] : List Nat) /- /AC: -/ (GenV31.get_core r15 r16 r17 r18 r19 r20 r21 r22 r0 r23 r24 r25 r26 r27 r28 r12 r29 r30 r31 r8 r32 r33 ([65, 67] : List Nat) /- AC -/))
  let b := (GenV31.mandatory b ([47, 80, 82, 58] : List Nat) /- /PR: -/ (GenV31.get_core r15 r16 r17 r18 r19 r20 r21 r22 r0 r23 r24 r25 r26 r27 r28 r12 r29 r30 r31 r8 r32 r33 ([80, 82] : List Nat) /- PR -/))
  let b := (GenV31.mandatory b ([47, 85, 73, 58] : List Nat) /- /UI: -/ (GenV31.get_core r15 r16 r17 r18 r19 r20 r21 r22 r0 r23 r24 r25 r26 r27 r28 r12 r29 r30 r31 r8 r32 r33 ([85, 73] : List Nat) /- UI -/))
  let b := (GenV31.mandatory b ([47, 83, 58] : List Nat) /- /S: -/ (GenV31.get_core r15 r16 r17 r18 r19 r20 r21 r22 r0 r23 r24 r25 r26 r27 r28 r12 r29 r30 r31 r8 r32 r33 ([83] : List Nat) /- S -/))
  let b := (GenV31.mandatory b ([47, 67, 58] : List Nat) /- /C: -/ (GenV31.get_core r15 r16 r17 r18 r19 r20 r21 r22 r0 r23 r24 r25 r26 r27 r28 r12 r29 r30 r31 r8 r32 r33 ([67] : List Nat) /- C -/))
  let b := (GenV31.mandatory b ([47, 73, 58] : List Nat) /- /I: -/ (GenV31.get_core r15 r16 r17 r18 r19 r20 r21 r22 r0 r23 r24 r25 r26 r27 r28 r12 r29 r30 r31 r8 r32 r33 ([73] : List Nat) /- I -/))
  let b := (GenV31.mandatory b ([47, 65, 58] : List Nat) /- /A: -/ (GenV31.get_core r15 r16 r17 r18 r19 r20 r21 r22 r0 r23 r24 r25 r26 r27 r28 r12 r29 r30 r31 r8 r32 r33 ([65] : List Nat) /- A -/))
  let b := (GenV31.notMandatory b ([47, 69, 58] : List Nat) /- /E: -/ (GenV31.get_core r15 r16 r17 r18 r19 r20 r21 r22 r0 r23 r24 r25 r26 r27 r28 r12 r29 r30 r31 r8 r32 r33 ([69] : List Nat) /- E -/))
  let b := (GenV31.notMandatory b ([47, 82, 76, 58] : List Nat) /- /RL: -/ (GenV31.get_core r15 r16 r17 r18 r19 r20 r21 r22 r0 r23 r24 r25 r26 r27 r28 r12 r29 r30 r31 r8 r32 r33 ([82, 76] : List Nat) /- RL -/))
  let b := (GenV31.notMandatory b ([47, 82, 67, 58] : List Nat) /- /RC: -/ (GenV31.get_core r15 r16 r17 r18 r19 r20 r21 r22 r0 r23 r24 r25 r26 r27 r28 r12 r29 r30 r31 r8 r32 r33 ([82, 67] : List Nat) /- RC -/))
  let b := (GenV31.notMandatory b ([47, 67, 82, 58] : List Nat) /- /CR: -/ (GenV31.get_core r15 r16 r17 r18 r19 r20 r21 r22 r0 r23 r24 r25 r26 r27 r28 r12 r29 r30 r31 r8 r32 r33 ([67, 82] : List Nat) /- CR -/))
  let b := (GenV31.notMandatory b ([47, 73, 82, 58] : List Nat) /- /IR: -/ (GenV31.get_core r15 r16 r17 r18 r19 r20 r21 r22 r0 r23 r24 r25 r26 r27 r28 r12 r29 r30 r31 r8 r32 r33 ([73, 82] : List Nat) /- IR -/))
  let b := (GenV31.notMandatory b ([47, 65, 82, 58] : List Nat) /- /AR: -/ (GenV31.get_core r15 r16 r17 r18 r19 r20 r21 r22 r0 r23 r24 r25 r26 r27 r28 r12 r29 r30 r31 r8 r32 r33 ([65, 82] : List Nat) /- AR -/))
  let b := (GenV31.notMandatory b ([47, 77, 65, 86, 58] : List Nat) /- /MAV: -/ (GenV31.get_core r15 r16 r17 r18 r19 r20 r21 r22 r0 r23 r24 r25 r26 r27 r28 r12 r29 r30 r31 r8 r32 r33 ([77, 65, 86] : List Nat) /- MAV -/))
  let b := (GenV31.notMandatory b ([47, 77, 65, 67, 58] : List Nat) /- /MAC: -/ (GenV31.get_core r15 r16 r17 r18 r19 r20 r21 r22 r0 r23 r24 r25 r26 r27 r28 r12 r29 r30 r31 r8 r32 r33 ([77, 65, 67] : List Nat) /- MAC -/))
  let b := (GenV31.notMandatory b ([47, 77, 80, 82, 58] : List Nat) /- /MPR: -/ (GenV31.get_core r15 r16 r17 r18 r19 r20 r21 r22 r0 r23 r24 r25 r26 r27 r28 r12 r29 r30 r31 r8 r32 r33 ([77, 80, 82] : List Nat) /- MPR -/))
  let b := (GenV31.notMandatory b ([47, 77, 85, 73, 58] : List Nat) /- /MUI: -/ (GenV31.get_core r15 r16 r17 r18 r19 r20 r21 r22 r0 r23 r24 r25 r26 r27 r28 r12 r29 r30 r31 r8 r32 r33 ([77, 85, 73] : List Nat) /- MUI -/))
  let b := (GenV31.notMandatory b ([47, 77, 83, 58] : List Nat) /- /MS: -/ (GenV31.get_core r15 r16 r17 r18 r19 r20 r21 r22 r0 r23 r24 r25 r26 r27 r28 r12 r29 r30 r31 r8 r32 r33 ([77, 83] : List Nat) /- MS -/))
  let b := (GenV31.notMandatory b ([47, 77, 67, 58] : List Nat) /- /MC: -/ (GenV31.get_core r15 r16 r17 r18 r19 r20 r21 r22 r0 r23 r24 r25 r26 r27 r28 r12 r29 r30 r31 r8 r32 r33 ([77, 67] : List Nat) /- MC -/))
  let b := (GenV31.notMandatory b ([47, 77, 73, 58] : List Nat) /- /MI: -/ (GenV31.get_core r15 r16 r17 r18 r19 r20 r21 r22 r0 r23 r24 r25 r26 r27 r28 r12 r29 r30 r31 r8 r32 r33 ([77, 73] : List Nat) /- MI -/))
  let b := (GenV31.notMandatory b ([47, 77, 65, 58] : List Nat) /- /MA: -/ (GenV31.get_core r15 r16 r17 r18 r19 r20 r21 r22 r0 r23 r24 r25 r26 r27 r28 r12 r29 r30 r31 r8 r32 r33 ([77, 65] : List Nat) /- MA -/))
  b

/-- capacity argument of the `make` in Vector -/
def Vector_cap_core (r0 : Nat) (r1 : Nat) (r2 : Nat) (r3 : Nat) (r4 : Nat) (r5 : Nat) (r6 : Nat) (r7 : Nat) (r8 : Nat) (r9 : Nat) (r10 : Nat) (r11 : Nat) (r12 : Nat) (r13 : Nat) (r14 : Nat) (r15 : Nat) (r16 : Nat) (r17 : Nat) (r18 : Nat) (r19 : Nat) (r20 : Nat) (r21 : Nat) (r22 : Nat) (r23 : Nat) (r24 : Nat) (r25 : Nat) (r26 : Nat) (r27 : Nat) (r28 : Nat) (r29 : Nat) (r30 : Nat) (r31 : Nat) (r32 : Nat) (r33 : Nat) : Nat :=
  F64.flet (GenV31.lenVec_core r0 r1 r2 r3 r4 r5 r6 r7 r8 r9 r10 r11 r12 r13 r14) fun l =>
  l

def Vector (u0 : Nat) (u1 : Nat) (u2 : Nat) (u3 : Nat) (u4 : Nat) (u5 : Nat) : (List Nat) :=
  Vector_core (Nat.land u1 (7 : Nat)) (Nat.land u2 (224 : Nat)) (Nat.land u2 (24 : Nat)) (Nat.land u2 (6 : Nat)) (Nat.land u2 (1 : Nat)) (Nat.land u3 (128 : Nat)) (Nat.land u3 (96 : Nat)) (Nat.land u4 (12 : Nat)) (Nat.land u4 (3 : Nat)) (Nat.land u5 (192 : Nat)) (Nat.land u5 (48 : Nat)) (Nat.land u3 (28 : Nat)) (Nat.land u3 (3 : Nat)) (Nat.land u4 (192 : Nat)) (Nat.land u4 (48 : Nat)) (Nat.shiftRight (Nat.land u0 (192 : Nat)) (6 : Nat)) (Nat.shiftRight (Nat.land u0 (32 : Nat)) (5 : Nat)) (Nat.shiftRight (Nat.land u0 (24 : Nat)) (3 : Nat)) (Nat.shiftRight (Nat.land u0 (4 : Nat)) (2 : Nat)) (Nat.shiftRight (Nat.land u0 (2 : Nat)) (1 : Nat)) (Nat.lor (Nat.mod (Nat.shiftLeft (Nat.land u0 (1 : Nat)) (1 : Nat)) 256) (Nat.shiftRight (Nat.land u1 (128 : Nat)) (7 : Nat))) (Nat.shiftRight (Nat.land u1 (96 : Nat)) (5 : Nat)) (Nat.shiftRight (Nat.land u1 (24 : Nat)) (3 : Nat)) (Nat.shiftRight (Nat.land u2 (224 : Nat)) (5 : Nat)) (Nat.shiftRight (Nat.land u2 (24 : Nat)) (3 : Nat)) (Nat.shiftRight (Nat.land u2 (6 : Nat)) (1 : Nat)) (Nat.lor (Nat.mod (Nat.shiftLeft (Nat.land u2 (1 : Nat)) (1 : Nat)) 256) (Nat.shiftRight (Nat.land u3 (128 : Nat)) (7 : Nat))) (Nat.shiftRight (Nat.land u3 (96 : Nat)) (5 : Nat)) (Nat.shiftRight (Nat.land u3 (28 : Nat)) (2 : Nat)) (Nat.shiftRight (Nat.land u4 (192 : Nat)) (6 : Nat)) (Nat.shiftRight (Nat.land u4 (48 : Nat)) (4 : Nat)) (Nat.shiftRight (Nat.land u4 (12 : Nat)) (2 : Nat)) (Nat.shiftRight (Nat.land u5 (192 : Nat)) (6 : Nat)) (Nat.shiftRight (Nat.land u5 (48 : Nat)) (4 : Nat))

def Vector_cap (u0 : Nat) (u1 : Nat) (u2 : Nat) (u3 : Nat) (u4 : Nat) (u5 : Nat) : Nat :=
  Vector_cap_core (Nat.land u1 (7 : Nat)) (Nat.land u2 (224 : Nat)) (Nat.land u2 (24 : Nat)) (Nat.land u2 (6 : Nat)) (Nat.land u2 (1 : Nat)) (Nat.land u3 (128 : Nat)) (Nat.land u3 (96 : Nat)) (Nat.land u4 (12 : Nat)) (Nat.land u4 (3 : Nat)) (Nat.land u5 (192 : Nat)) (Nat.land u5 (48 : Nat)) (Nat.land u3 (28 : Nat)) (Nat.land u3 (3 : Nat)) (Nat.land u4 (192 : Nat)) (Nat.land u4 (48 : Nat)) (Nat.shiftRight (Nat.land u0 (192 : Nat)) (6 : Nat)) (Nat.shiftRight (Nat.land u0 (32 : Nat)) (5 : Nat)) (Nat.shiftRight (Nat.land u0 (24 : Nat)) (3 : Nat)) (Nat.shiftRight (Nat.land u0 (4 : Nat)) (2 : Nat)) (Nat.shiftRight (Nat.land u0 (2 : Nat)) (1 : Nat)) (Nat.lor (Nat.mod (Nat.shiftLeft (Nat.land u0 (1 : Nat)) (1 : Nat)) 256) (Nat.shiftRight (Nat.land u1 (128 : Nat)) (7 : Nat))) (Nat.shiftRight (Nat.land u1 (96 : Nat)) (5 : Nat)) (Nat.shiftRight (Nat.land u1 (24 : Nat)) (3 : Nat)) (Nat.shiftRight (Nat.land u2 (224 : Nat)) (5 : Nat)) (Nat.shiftRight (Nat.land u2 (24 : Nat)) (3 : Nat)) (Nat.shiftRight (Nat.land u2 (6 : Nat)) (1 : Nat)) (Nat.lor (Nat.mod (Nat.shiftLeft (Nat.land u2 (1 : Nat)) (1 : Nat)) 256) (Nat.shiftRight (Nat.land u3 (128 : Nat)) (7 : Nat))) (Nat.shiftRight (Nat.land u3 (96 : Nat)) (5 : Nat)) (Nat.shiftRight (Nat.land u3 (28 : Nat)) (2 : Nat)) (Nat.shiftRight (Nat.land u4 (192 : Nat)) (6 : Nat)) (Nat.shiftRight (Nat.land u4 (48 : Nat)) (4 : Nat)) (Nat.shiftRight (Nat.land u4 (12 : Nat)) (2 : Nat)) (Nat.shiftRight (Nat.land u5 (192 : Nat)) (6 : Nat)) (Nat.shiftRight (Nat.land u5 (48 : Nat)) (4 : Nat))

/-- cia  (cvss31.go) -/
def cia (v : Nat) : Nat :=
  cond ((Nat.beq v (0 : Nat)))
    ((0x3fe1eb851eb851ec : Nat))
   (cond ((Nat.beq v (1 : Nat)))
    ((0x3fcc28f5c28f5c29 : Nat))
   (cond ((Nat.beq v (2 : Nat)))
    ((0x0000000000000000 : Nat))
   ((0x7FF8DEAD00000000 : Nat))))

/-- pow13  (cvss31.go) -/
def pow13 (f : Nat) : Nat :=
  F64.flet (F64.mul f f) fun f2 =>
  F64.flet (F64.mul f2 f2) fun f4 =>
  F64.flet (F64.mul (F64.mul f4 f4) f4) fun f12 =>
  (F64.mul f f12)

/-- pow15  (cvss31.go) -/
def pow15 (f : Nat) : Nat :=
  (F64.mul (F64.mul (GenV31.pow13 f) f) f)

/-- Impact  (cvss31.go) -/
--   r0 := (Nat.lor (Nat.mod (Nat.shiftLeft (Nat.land u0 (1 : Nat)) (1 : Nat)) 256) (Nat.shiftRight (Nat.land u1 (128 : Nat)) (7 : Nat)))
--   r1 := (Nat.shiftRight (Nat.land u1 (96 : Nat)) (5 : Nat))
--   r2 := (Nat.shiftRight (Nat.land u1 (24 : Nat)) (3 : Nat))
--   r3 := (Nat.land u0 (2 : Nat))
def Impact_core (r0 : Nat) (r1 : Nat) (r2 : Nat) (r3 : Nat) : Nat :=
  F64.flet (GenV31.cia r0) fun c =>
  F64.flet (GenV31.cia r1) fun i =>
  F64.flet (GenV31.cia r2) fun a =>
  F64.flet (F64.sub (0x3ff0000000000000 : Nat) (F64.mul (F64.mul (F64.sub (0x3ff0000000000000 : Nat) c) (F64.sub (0x3ff0000000000000 : Nat) i)) (F64.sub (0x3ff0000000000000 : Nat) a))) fun iss =>
  cond (Nat.beq r3 (0 : Nat))
    ((F64.mul (0x4019ae147ae147ae : Nat) iss))
    ((F64.sub (F64.mul (0x401e147ae147ae14 : Nat) (F64.sub iss (0x3f9db22d0e560419 : Nat))) (F64.mul (0x400a000000000000 : Nat) (GenV31.pow15 (F64.sub iss (0x3f947ae147ae147b : Nat))))))

def Impact (u0 : Nat) (u1 : Nat) (u2 : Nat) (u3 : Nat) (u4 : Nat) (u5 : Nat) : Nat :=
  Impact_core (Nat.lor (Nat.mod (Nat.shiftLeft (Nat.land u0 (1 : Nat)) (1 : Nat)) 256) (Nat.shiftRight (Nat.land u1 (128 : Nat)) (7 : Nat))) (Nat.shiftRight (Nat.land u1 (96 : Nat)) (5 : Nat)) (Nat.shiftRight (Nat.land u1 (24 : Nat)) (3 : Nat)) (Nat.land u0 (2 : Nat))

/-- attackVector  (cvss31.go) -/
def attackVector (v : Nat) : Nat :=
  cond ((Nat.beq v (0 : Nat)))
    ((0x3feb333333333333 : Nat))
   (cond ((Nat.beq v (1 : Nat)))
    ((0x3fe3d70a3d70a3d7 : Nat))
   (cond ((Nat.beq v (2 : Nat)))
    ((0x3fe199999999999a : Nat))
   (cond ((Nat.beq v (3 : Nat)))
    ((0x3fc999999999999a : Nat))
   ((0x7FF8DEAD00000000 : Nat)))))

/-- attackComplexity  (cvss31.go) -/
def attackComplexity (v : Nat) : Nat :=
  cond ((Nat.beq v (0 : Nat)))
    ((0x3fe8a3d70a3d70a4 : Nat))
   (cond ((Nat.beq v (1 : Nat)))
    ((0x3fdc28f5c28f5c29 : Nat))
   ((0x7FF8DEAD00000000 : Nat)))

/-- privilegesRequired  (cvss31.go) -/
def privilegesRequired (v : Nat) (scope : Nat) : Nat :=
  cond ((Nat.beq v (0 : Nat)))
    ((0x3feb333333333333 : Nat))
   (cond ((Nat.beq v (1 : Nat)))
    (cond (Nat.beq scope (1 : Nat))
      ((0x3fe5c28f5c28f5c3 : Nat))
      ((0x3fe3d70a3d70a3d7 : Nat)))
   (cond ((Nat.beq v (2 : Nat)))
    (cond (Nat.beq scope (1 : Nat))
      ((0x3fe0000000000000 : Nat))
      ((0x3fd147ae147ae148 : Nat)))
   ((0x7FF8DEAD00000000 : Nat))))

/-- userInteraction  (cvss31.go) -/
def userInteraction (v : Nat) : Nat :=
  cond ((Nat.beq v (0 : Nat)))
    ((0x3feb333333333333 : Nat))
   (cond ((Nat.beq v (1 : Nat)))
    ((0x3fe3d70a3d70a3d7 : Nat))
   ((0x7FF8DEAD00000000 : Nat)))

/-- Exploitability  (cvss31.go) -/
--   r0 := (Nat.shiftRight (Nat.land u0 (192 : Nat)) (6 : Nat))
--   r1 := (Nat.shiftRight (Nat.land u0 (32 : Nat)) (5 : Nat))
--   r2 := (Nat.shiftRight (Nat.land u0 (24 : Nat)) (3 : Nat))
--   r3 := (Nat.shiftRight (Nat.land u0 (2 : Nat)) (1 : Nat))
--   r4 := (Nat.shiftRight (Nat.land u0 (4 : Nat)) (2 : Nat))
def Exploitability_core (r0 : Nat) (r1 : Nat) (r2 : Nat) (r3 : Nat) (r4 : Nat) : Nat :=
  F64.flet (GenV31.attackVector r0) fun av =>
  F64.flet (GenV31.attackComplexity r1) fun ac =>
  F64.flet (GenV31.privilegesRequired r2 r3) fun pr_ =>
  F64.flet (GenV31.userInteraction r4) fun ui =>
  (F64.mul (F64.mul (F64.mul (F64.mul (0x402070a3d70a3d71 : Nat) av) ac) pr_) ui)

def Exploitability (u0 : Nat) (u1 : Nat) (u2 : Nat) (u3 : Nat) (u4 : Nat) (u5 : Nat) : Nat :=
  Exploitability_core (Nat.shiftRight (Nat.land u0 (192 : Nat)) (6 : Nat)) (Nat.shiftRight (Nat.land u0 (32 : Nat)) (5 : Nat)) (Nat.shiftRight (Nat.land u0 (24 : Nat)) (3 : Nat)) (Nat.shiftRight (Nat.land u0 (2 : Nat)) (1 : Nat)) (Nat.shiftRight (Nat.land u0 (4 : Nat)) (2 : Nat))

/-- roundup  (cvss31.go) -/
def roundup (x : Nat) : Nat :=
  F64.flet (F64.roundToEven (F64.mul x (0x40f86a0000000000 : Nat))) fun bx =>
  cond (F64.intRemZero bx (10000 : Nat))
    ((F64.div bx (0x40f86a0000000000 : Nat)))
    ((F64.div (F64.add (F64.floor (F64.div bx (0x40c3880000000000 : Nat))) (0x3ff0000000000000 : Nat)) (0x4024000000000000 : Nat)))

/-- BaseScore  (cvss31.go) -/
--   r0 := (Nat.lor (Nat.mod (Nat.shiftLeft (Nat.land u0 (1 : Nat)) (1 : Nat)) 256) (Nat.shiftRight (Nat.land u1 (128 : Nat)) (7 : Nat)))
--   r1 := (Nat.shiftRight (Nat.land u1 (96 : Nat)) (5 : Nat))
--   r2 := (Nat.shiftRight (Nat.land u1 (24 : Nat)) (3 : Nat))
--   r3 := (Nat.land u0 (2 : Nat))
--   r4 := (Nat.shiftRight (Nat.land u0 (192 : Nat)) (6 : Nat))
--   r5 := (Nat.shiftRight (Nat.land u0 (32 : Nat)) (5 : Nat))
--   r6 := (Nat.shiftRight (Nat.land u0 (24 : Nat)) (3 : Nat))
--   r7 := (Nat.shiftRight (Nat.land u0 (2 : Nat)) (1 : Nat))
--   r8 := (Nat.shiftRight (Nat.land u0 (4 : Nat)) (2 : Nat))
def BaseScore_core (r0 : Nat) (r1 : Nat) (r2 : Nat) (r3 : Nat) (r4 : Nat) (r5 : Nat) (r6 : Nat) (r7 : Nat) (r8 : Nat) : Nat :=
  F64.flet (GenV31.Impact_core r0 r1 r2 r3) fun impact =>
  F64.flet (GenV31.Exploitability_core r4 r5 r6 r7 r8) fun exploitability =>
  cond (F64.le impact (0x0000000000000000 : Nat))
    ((0x0000000000000000 : Nat))
    (cond (Nat.beq r3 (0 : Nat))
      ((GenV31.roundup (F64.min (F64.add impact exploitability) (0x4024000000000000 : Nat))))
      ((GenV31.roundup (F64.min (F64.mul (0x3ff147ae147ae148 : Nat) (F64.add impact exploitability)) (0x4024000000000000 : Nat)))))

def BaseScore (u0 : Nat) (u1 : Nat) (u2 : Nat) (u3 : Nat) (u4 : Nat) (u5 : Nat) : Nat :=
  BaseScore_core (Nat.lor (Nat.mod (Nat.shiftLeft (Nat.land u0 (1 : Nat)) (1 : Nat)) 256) (Nat.shiftRight (Nat.land u1 (128 : Nat)) (7 : Nat))) (Nat.shiftRight (Nat.land u1 (96 : Nat)) (5 : Nat)) (Nat.shiftRight (Nat.land u1 (24 : Nat)) (3 : Nat)) (Nat.land u0 (2 : Nat)) (Nat.shiftRight (Nat.land u0 (192 : Nat)) (6 : Nat)) (Nat.shiftRight (Nat.land u0 (32 : Nat)) (5 : Nat)) (Nat.shiftRight (Nat.land u0 (24 : Nat)) (3 : Nat)) (Nat.shiftRight (Nat.land u0 (2 : Nat)) (1 : Nat)) (Nat.shiftRight (Nat.land u0 (4 : Nat)) (2 : Nat))

/-- exploitCodeMaturity  (cvss31.go) -/
def exploitCodeMaturity (v : Nat) : Nat :=
  cond ((Nat.beq v (0 : Nat)) || (Nat.beq v (1 : Nat)))
    ((0x3ff0000000000000 : Nat))
   (cond ((Nat.beq v (2 : Nat)))
    ((0x3fef0a3d70a3d70a : Nat))
   (cond ((Nat.beq v (3 : Nat)))
    ((0x3fee147ae147ae14 : Nat))
   (cond ((Nat.beq v (4 : Nat)))
    ((0x3fed1eb851eb851f : Nat))
   ((0x7FF8DEAD00000000 : Nat)))))

/-- remediationLevel  (cvss31.go) -/
def remediationLevel (v : Nat) : Nat :=
  cond ((Nat.beq v (0 : Nat)) || (Nat.beq v (1 : Nat)))
    ((0x3ff0000000000000 : Nat))
   (cond ((Nat.beq v (2 : Nat)))
    ((0x3fef0a3d70a3d70a : Nat))
   (cond ((Nat.beq v (3 : Nat)))
    ((0x3feeb851eb851eb8 : Nat))
   (cond ((Nat.beq v (4 : Nat)))
    ((0x3fee666666666666 : Nat))
   ((0x7FF8DEAD00000000 : Nat)))))

/-- reportConfidence  (cvss31.go) -/
def reportConfidence (v : Nat) : Nat :=
  cond ((Nat.beq v (0 : Nat)) || (Nat.beq v (1 : Nat)))
    ((0x3ff0000000000000 : Nat))
   (cond ((Nat.beq v (2 : Nat)))
    ((0x3feeb851eb851eb8 : Nat))
   (cond ((Nat.beq v (3 : Nat)))
    ((0x3fed70a3d70a3d71 : Nat))
   ((0x7FF8DEAD00000000 : Nat))))

/-- TemporalScore  (cvss31.go) -/
--   r0 := (Nat.land u1 (7 : Nat))
--   r1 := (Nat.shiftRight (Nat.land u2 (224 : Nat)) (5 : Nat))
--   r2 := (Nat.shiftRight (Nat.land u2 (24 : Nat)) (3 : Nat))
--   r3 := (Nat.lor (Nat.mod (Nat.shiftLeft (Nat.land u0 (1 : Nat)) (1 : Nat)) 256) (Nat.shiftRight (Nat.land u1 (128 : Nat)) (7 : Nat)))
--   r4 := (Nat.shiftRight (Nat.land u1 (96 : Nat)) (5 : Nat))
--   r5 := (Nat.shiftRight (Nat.land u1 (24 : Nat)) (3 : Nat))
--   r6 := (Nat.land u0 (2 : Nat))
--   r7 := (Nat.shiftRight (Nat.land u0 (192 : Nat)) (6 : Nat))
--   r8 := (Nat.shiftRight (Nat.land u0 (32 : Nat)) (5 : Nat))
--   r9 := (Nat.shiftRight (Nat.land u0 (24 : Nat)) (3 : Nat))
--   r10 := (Nat.shiftRight (Nat.land u0 (2 : Nat)) (1 : Nat))
--   r11 := (Nat.shiftRight (Nat.land u0 (4 : Nat)) (2 : Nat))
def TemporalScore_core (r0 : Nat) (r1 : Nat) (r2 : Nat) (r3 : Nat) (r4 : Nat) (r5 : Nat) (r6 : Nat) (r7 : Nat) (r8 : Nat) (r9 : Nat) (r10 : Nat) (r11 : Nat) : Nat :=
  F64.flet (GenV31.exploitCodeMaturity r0) fun e_ =>
  F64.flet (GenV31.remediationLevel r1) fun rl =>
  F64.flet (GenV31.reportConfidence r2) fun rc =>
  (GenV31.roundup (F64.mul (F64.mul (F64.mul (GenV31.BaseScore_core r3 r4 r5 r6 r7 r8 r9 r10 r11) e_) rl) rc))

def TemporalScore (u0 : Nat) (u1 : Nat) (u2 : Nat) (u3 : Nat) (u4 : Nat) (u5 : Nat) : Nat :=
  TemporalScore_core (Nat.land u1 (7 : Nat)) (Nat.shiftRight (Nat.land u2 (224 : Nat)) (5 : Nat)) (Nat.shiftRight (Nat.land u2 (24 : Nat)) (3 : Nat)) (Nat.lor (Nat.mod (Nat.shiftLeft (Nat.land u0 (1 : Nat)) (1 : Nat)) 256) (Nat.shiftRight (Nat.land u1 (128 : Nat)) (7 : Nat))) (Nat.shiftRight (Nat.land u1 (96 : Nat)) (5 : Nat)) (Nat.shiftRight (Nat.land u1 (24 : Nat)) (3 : Nat)) (Nat.land u0 (2 : Nat)) (Nat.shiftRight (Nat.land u0 (192 : Nat)) (6 : Nat)) (Nat.shiftRight (Nat.land u0 (32 : Nat)) (5 : Nat)) (Nat.shiftRight (Nat.land u0 (24 : Nat)) (3 : Nat)) (Nat.shiftRight (Nat.land u0 (2 : Nat)) (1 : Nat)) (Nat.shiftRight (Nat.land u0 (4 : Nat)) (2 : Nat))

/-- mod  (cvss31.go) -/
def mod_ (base : Nat) (modified : Nat) : Nat :=
  cond (!(Nat.beq modified (0 : Nat)))
    ((Nat.mod (Nat.sub (Nat.add modified 256) (1 : Nat)) 256))
    (base)

/-- ciar  (cvss31.go) -/
def ciar (v : Nat) : Nat :=
  cond ((Nat.beq v (0 : Nat)) || (Nat.beq v (2 : Nat)))
    ((0x3ff0000000000000 : Nat))
   (cond ((Nat.beq v (1 : Nat)))
    ((0x3ff8000000000000 : Nat))
   (cond ((Nat.beq v (3 : Nat)))
    ((0x3fe0000000000000 : Nat))
   ((0x7FF8DEAD00000000 : Nat))))

/-- EnvironmentalScore  (cvss31.go) -/
--   r0 := (Nat.shiftRight (Nat.land u0 (192 : Nat)) (6 : Nat))
--   r1 := (Nat.shiftRight (Nat.land u3 (28 : Nat)) (2 : Nat))
--   r2 := (Nat.shiftRight (Nat.land u0 (32 : Nat)) (5 : Nat))
--   r3 := (Nat.land u3 (3 : Nat))
--   r4 := (Nat.shiftRight (Nat.land u0 (24 : Nat)) (3 : Nat))
--   r5 := (Nat.shiftRight (Nat.land u4 (192 : Nat)) (6 : Nat))
--   r6 := (Nat.shiftRight (Nat.land u0 (4 : Nat)) (2 : Nat))
--   r7 := (Nat.shiftRight (Nat.land u4 (48 : Nat)) (4 : Nat))
--   r8 := (Nat.shiftRight (Nat.land u0 (2 : Nat)) (1 : Nat))
--   r9 := (Nat.shiftRight (Nat.land u4 (12 : Nat)) (2 : Nat))
--   r10 := (Nat.lor (Nat.mod (Nat.shiftLeft (Nat.land u0 (1 : Nat)) (1 : Nat)) 256) (Nat.shiftRight (Nat.land u1 (128 : Nat)) (7 : Nat)))
--   r11 := (Nat.land u4 (3 : Nat))
--   r12 := (Nat.shiftRight (Nat.land u1 (96 : Nat)) (5 : Nat))
--   r13 := (Nat.shiftRight (Nat.land u5 (192 : Nat)) (6 : Nat))
--   r14 := (Nat.shiftRight (Nat.land u1 (24 : Nat)) (3 : Nat))
--   r15 := (Nat.shiftRight (Nat.land u5 (48 : Nat)) (4 : Nat))
--   r16 := (Nat.shiftRight (Nat.land u2 (6 : Nat)) (1 : Nat))
--   r17 := (Nat.lor (Nat.mod (Nat.shiftLeft (Nat.land u2 (1 : Nat)) (1 : Nat)) 256) (Nat.shiftRight (Nat.land u3 (128 : Nat)) (7 : Nat)))
--   r18 := (Nat.shiftRight (Nat.land u3 (96 : Nat)) (5 : Nat))
--   r19 := (Nat.land u1 (7 : Nat))
--   r20 := (Nat.shiftRight (Nat.land u2 (224 : Nat)) (5 : Nat))
--   r21 := (Nat.shiftRight (Nat.land u2 (24 : Nat)) (3 : Nat))
def EnvironmentalScore_core (r0 : Nat) (r1 : Nat) (r2 : Nat) (r3 : Nat) (r4 : Nat) (r5 : Nat) (r6 : Nat) (r7 : Nat) (r8 : Nat) (r9 : Nat) (r10 : Nat) (r11 : Nat) (r12 : Nat) (r13 : Nat) (r14 : Nat) (r15 : Nat) (r16 : Nat) (r17 : Nat) (r18 : Nat) (r19 : Nat) (r20 : Nat) (r21 : Nat) : Nat :=
  F64.flet (GenV31.mod_ r0 r1) fun mav =>
  F64.flet (GenV31.mod_ r2 r3) fun mac =>
  F64.flet (GenV31.mod_ r4 r5) fun mpr =>
  F64.flet (GenV31.mod_ r6 r7) fun mui =>
  F64.flet (GenV31.mod_ r8 r9) fun ms =>
  F64.flet (GenV31.mod_ r10 r11) fun mc =>
  F64.flet (GenV31.mod_ r12 r13) fun mi =>
  F64.flet (GenV31.mod_ r14 r15) fun ma =>
  F64.flet (GenV31.ciar r16) fun cr =>
  F64.flet (GenV31.ciar r17) fun ir =>
  F64.flet (GenV31.ciar r18) fun ar =>
  F64.flet (GenV31.exploitCodeMaturity r19) fun e_ =>
  F64.flet (GenV31.remediationLevel r20) fun rl =>
  F64.flet (GenV31.reportConfidence r21) fun rc =>
  F64.flet (F64.min (F64.sub (0x3ff0000000000000 : Nat) (F64.mul (F64.mul (F64.sub (0x3ff0000000000000 : Nat) (F64.mul cr (GenV31.cia mc))) (F64.sub (0x3ff0000000000000 : Nat) (F64.mul ir (GenV31.cia mi)))) (F64.sub (0x3ff0000000000000 : Nat) (F64.mul ar (GenV31.cia ma))))) (0x3fed47ae147ae148 : Nat)) fun miss =>
  F64.flet (0 : Nat) fun modifiedImpact =>
  match (cond (Nat.beq ms (0 : Nat))
    (F64.flet (F64.mul (0x4019ae147ae147ae : Nat) miss) fun modifiedImpact =>
    modifiedImpact)
    (F64.flet (F64.sub (F64.mul (0x401e147ae147ae14 : Nat) (F64.sub miss (0x3f9db22d0e560419 : Nat))) (F64.mul (0x400a000000000000 : Nat) (GenV31.pow13 (F64.sub (F64.mul miss (0x3fef23a29c779a6b : Nat)) (0x3f947ae147ae147b : Nat))))) fun modifiedImpact =>
    modifiedImpact)) with
  | modifiedImpact =>
  F64.flet (F64.mul (F64.mul (F64.mul (F64.mul (0x402070a3d70a3d71 : Nat) (GenV31.attackVector mav)) (GenV31.attackComplexity mac)) (GenV31.privilegesRequired mpr ms)) (GenV31.userInteraction mui)) fun modifiedExploitability =>
  cond (F64.le modifiedImpact (0x0000000000000000 : Nat))
    ((0x0000000000000000 : Nat))
    (cond (Nat.beq ms (0 : Nat))
      ((GenV31.roundup (F64.mul (F64.mul (F64.mul (GenV31.roundup (F64.min (F64.add modifiedImpact modifiedExploitability) (0x4024000000000000 : Nat))) e_) rl) rc)))
      (F64.flet (F64.min (F64.mul (0x3ff147ae147ae148 : Nat) (F64.add modifiedImpact modifiedExploitability)) (0x4024000000000000 : Nat)) fun r =>
      (GenV31.roundup (F64.mul (F64.mul (F64.mul (GenV31.roundup r) e_) rl) rc))))

def EnvironmentalScore (u0 : Nat) (u1 : Nat) (u2 : Nat) (u3 : Nat) (u4 : Nat) (u5 : Nat) : Nat :=
  EnvironmentalScore_core (Nat.shiftRight (Nat.land u0 (192 : Nat)) (6 : Nat)) (Nat.shiftRight (Nat.land u3 (28 : Nat)) (2 : Nat)) (Nat.shiftRight (Nat.land u0 (32 : Nat)) (5 : Nat)) (Nat.land u3 (3 : Nat)) (Nat.shiftRight (Nat.land u0 (24 : Nat)) (3 : Nat)) (Nat.shiftRight (Nat.land u4 (192 : Nat)) (6 : Nat)) (Nat.shiftRight (Nat.land u0 (4 : Nat)) (2 : Nat)) (Nat.shiftRight (Nat.land u4 (48 : Nat)) (4 : Nat)) (Nat.shiftRight (Nat.land u0 (2 : Nat)) (1 : Nat)) (Nat.shiftRight (Nat.land u4 (12 : Nat)) (2 : Nat)) (Nat.lor (Nat.mod (Nat.shiftLeft (Nat.land u0 (1 : Nat)) (1 : Nat)) 256) (Nat.shiftRight (Nat.land u1 (128 : Nat)) (7 : Nat))) (Nat.land u4 (3 : Nat)) (Nat.shiftRight (Nat.land u1 (96 : Nat)) (5 : Nat)) (Nat.shiftRight (Nat.land u5 (192 : Nat)) (6 : Nat)) (Nat.shiftRight (Nat.land u1 (24 : Nat)) (3 : Nat)) (Nat.shiftRight (Nat.land u5 (48 : Nat)) (4 : Nat)) (Nat.shiftRight (Nat.land u2 (6 : Nat)) (1 : Nat)) (Nat.lor (Nat.mod (Nat.shiftLeft (Nat.land u2 (1 : Nat)) (1 : Nat)) 256) (Nat.shiftRight (Nat.land u3 (128 : Nat)) (7 : Nat))) (Nat.shiftRight (Nat.land u3 (96 : Nat)) (5 : Nat)) (Nat.land u1 (7 : Nat)) (Nat.shiftRight (Nat.land u2 (224 : Nat)) (5 : Nat)) (Nat.shiftRight (Nat.land u2 (24 : Nat)) (3 : Nat))

/-- Rating  (cvss31.go) -/
def Rating (score : Nat) : ((List Nat) × Go.Err) :=
  cond ((F64.lt score (0x0000000000000000 : Nat)) || (F64.lt (0x4024000000000000 : Nat) score))
    ((([] : List Nat) /-  -/, (Go.Err.mk 5 []) /- ErrOutOfBoundsScore -/))
    (cond (F64.le (0x4022000000000000 : Nat) score)
      ((([67, 82, 73, 84, 73, 67, 65, 76] : List Nat) /- CRITICAL -/, Go.errNil))
      (cond (F64.le (0x401c000000000000 : Nat) score)
        ((([72, 73, 71, 72] : List Nat) /- HIGH -/, Go.errNil))
        (cond (F64.le (0x4010000000000000 : Nat) score)
          ((([77, 69, 68, 73, 85, 77] : List Nat) /- MEDIUM -/, Go.errNil))
          (cond (F64.le (0x3fb999999999999a : Nat) score)
            ((([76, 79, 87] : List Nat) /- LOW -/, Go.errNil))
            ((([78, 79, 78, 69] : List Nat) /- NONE -/, Go.errNil))))))

/-- constant header (cvss31.go) -/
def const_header : List Nat :=
  ([67, 86, 83, 83, 58, 51, 46, 49, 47] : List Nat)

/-- functions containing a pre-sized buffer `make([]T, 0, cap)` (one entry per occurrence) -/
def pkg_presized : List String :=
  ["CVSS31.Vector"]

/-- every mention of package unsafe (function or `decl`:unsafe.X, one entry per occurrence) -/
def pkg_unsafe_all : List String :=
  ["CVSS31.Vector:unsafe.Pointer"]

/-- sha256 (first 16 hex digits) of each verification hooks file -/
def hook_sha : List String :=
  ["zz_verif_hooks.go:08a0f61bf7889999"]

/-- import paths of the package's source files (alias=path when renamed) -/
def pkg_imports : List String :=
  ["errors", "fmt", "math", "strings", "unsafe"]

/-- fields of the object type (name:type), in declaration order -/
def obj_fields : List String :=
  ["u0:uint8", "u1:uint8", "u2:uint8", "u3:uint8", "u4:uint8", "u5:uint8"]

/-- methods of the object type with a pointer receiver (the only ones that can change the object) -/
def obj_ptr_methods : List String :=
  ["Set"]

/-- what each pointer-receiver method does with its receiver: writes / takes-address / passes-pointer / aliases / returns-pointer / calls:M, or reads-only -/
def obj_ptr_effects : List String :=
  ["Set:writes"]

/-- declarations of the verification hooks files (verif build only; not translated): they may only add accessors -/
def hook_decls : List String :=
  ["zz_verif_hooks.go:func VerifBytes", "zz_verif_hooks.go:func VerifFromBytes", "zz_verif_hooks.go:func VerifLenVec", "zz_verif_hooks.go:func VerifRoundup"]

/-- files of the package directory that belong to neither the ordinary nor the verif build, and non-Go sources -/
def pkg_other_files : List String :=
  []

/-- `init` functions of the package (file:init) -/
def pkg_inits : List String :=
  []

/-- build constraints on non-test source files other than the verification hooks (file:constraint) -/
def pkg_build_tags : List String :=
  []

/-- package-level variables (name:type) -/
def pkg_vars : List String :=
  ["ErrInvalidCVSSHeader:error", "ErrInvalidMetricValue:error", "ErrOutOfBoundsScore:error", "ErrTooShortVector:error"]

/-- function:variable for every assignment to (or address-of) a package-level variable inside a function body -/
def pkg_writes : List String :=
  []

/-- function:variable.method for every method call on a package-level variable; function:go for goroutine starts -/
def pkg_calls : List String :=
  []

/-- package-level variables (blank ones included) whose initialiser runs code: name:calls and function literals in it -/
def pkg_var_inits : List String :=
  ["ErrInvalidCVSSHeader:call errors.New", "ErrInvalidMetricValue:call errors.New", "ErrOutOfBoundsScore:call errors.New", "ErrTooShortVector:call errors.New"]

/-- function:variable for every mention of a package-level variable (other than the `error` sentinels) in a function body or initialiser -/
def pkg_var_uses : List String :=
  []

/-- sync.Pool variables and what their `New` makes -/
def pool_new : List String :=
  []

/-- every Get (with the canonical name of the variable that receives it) and Put (with what is handed back), in source order -/
def pool_uses : List String :=
  []

/-- function:unsafe.X for every use of package unsafe -/
def pkg_unsafe : List String :=
  ["CVSS31.Vector:unsafe.Pointer"]

end GenV31
